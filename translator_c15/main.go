// translator_c15: translates the `decode` functions of golang/geo's s2 package into the Lean-4
// decoder IR of S2/DecoderIR.lean.  Purely syntactic (go/ast + go/constant); fails loudly
// (exit 1, file:line) on every construct it does not understand.
package main

import (
	"bytes"
	"crypto/sha256"
	"encoding/json"
	"flag"
	"fmt"
	"go/ast"
	"go/constant"
	"go/parser"
	"go/printer"
	"go/token"
	"os"
	"path/filepath"
	"sort"
	"strings"
)

var intTy = map[string]string{"uint8": "u8", "byte": "u8", "int8": "i8", "uint32": "u32", "int32": "i32",
	"uint64": "u64", "uint": "u64", "int64": "i64", "int": "int"}
var readTy = map[string]string{"readUint8": "u8", "readInt8": "i8", "readUint32": "u32", "readInt32": "i32",
											"readUint64": "u64", "readInt64": "i64", "readFloat64": "f64", "readBool": "bool", "readUvarint": "uvarint"}
var elemSize = map[string]int{"Point": 24, "CellID": 8, "*Loop": 8, "faceRun": 16} // sizeof slice elements
var newSize = map[string]int{"Loop": 112}                                          // sizeof for new(T)
var externConv = map[string]string{"s1.ChordAngle": "f64"}                         // named types of other packages
var methodNames = map[string]bool{"Decode": true, "decode": true, "decodeCompressed": true}

// receiver type of method calls, keyed by "<own receiver type>|<receiver text>"
var recvTable = map[string]string{"Loop|l.bound": "Rect", "Polygon|p.bound": "Rect", "Cell|c.id": "CellID",
	"CellUnion|(*cu)[i]": "CellID", "Polygon|p.loops[i]": "Loop"}

// callees / composite-literal types accepted inside `opaque` statements
var opaqueOK = map[string]bool{"NewShapeIndex": true, "l.index.Add": true, "ExpandForSubregions": true,
	"l.initBound": true, "p.initEdgesAndIndex": true, "p.initLoopProperties": true, "CellFromCellID": true,
	"facePiQitoXYZ": true, "newNthDerivativeCoder": true, "deinterleaveUint32": true, "piCoder.decode": true,
	"qiCoder.decode": true, "zigzagDecode": true, "fmt.Errorf": true, "errors.New": true, "asByteReader": true,
	"Polygon": true, "Loop": true, "Point": true, "facesIterator": true}

var targets = []string{"Point.Decode", "Point.decode", "Cap.Decode", "Cap.decode", "Rect.Decode", "Rect.decode",
	"CellID.Decode", "CellID.decode", "Cell.Decode", "Cell.decode", "CellUnion.Decode", "CellUnion.decode",
	"Polyline.Decode", "Polyline.decode", "Loop.Decode", "Loop.decode", "Loop.decodeCompressed",
	"Polygon.Decode", "Polygon.decode", "Polygon.decodeCompressed", "decodePointsCompressed", "decodeFaces",
	"decodeFaceRun", "decodeFirstPointFixedLength", "decodePointCompressed"}
var decoders = [][2]string{{"point", "Point"}, {"cap", "Cap"}, {"rect", "Rect"}, {"cellid", "CellID"}, {"cell", "Cell"},
	{"cellunion", "CellUnion"}, {"polyline", "Polyline"}, {"loop", "Loop"}, {"polygon", "Polygon"}}
var listedConsts = []string{"maxEncodedVertices", "maxEncodedLoops", "MaxLevel", "NumFaces", "encodingVersion",
	"encodingCompressedVersion", "derivativeEncodingOrder", "originInside", "boundEncoded"}

type stmt struct {
	text, post, cmt string
	blocks          [][]*stmt
}
type param struct{ name, kind, elem string } // kind: dec | int | slice | skip
type fn struct {
	def, qual, recv, recvTy string
	decl                    *ast.FuncDecl
	params                  []param
	byValue, done, busy     bool
	body                    []*stmt
}
type cdef struct {
	expr, typ ast.Expr
	iota      int
}
type cv struct {
	v  constant.Value
	ty string
	ok bool
}
type tr struct {
	fset    *token.FileSet
	src     map[string][]byte
	funcs   map[string]*ast.FuncDecl
	fns     map[string]*fn
	pconst  map[string]*cdef
	cmemo   map[string]cv
	under   map[string]string            // named type → underlying type text (identifiers only)
	structs map[string]map[string]string // struct type → field → type text
	vids    map[string]int
	vnames  []string
	order   []*fn
	consts  map[string]string
	opaques []string
	notes   []string
}
type fnval struct { // function-valued local: if conds[0] then fns[0] elif … else def
	conds, vars []string
	fns         []*fn
	def         *fn
	mark        int
}
type ctx struct {
	t         *tr
	f         *fn
	dec       string
	ren       map[string]string
	types     map[string]string
	elem      map[string]string
	consts    map[string]cv
	fnv       map[string]*fnval
	iters     map[string]bool
	ranges    [][2]string
	defd      []string
	used      []string
	cur       *[]*stmt
	src       ast.Node
	loopDepth int
}
type soft struct{ msg string }

func (t *tr) text(n ast.Node) string {
	var b bytes.Buffer
	printer.Fprint(&b, t.fset, n)
	return b.String()
}
func (t *tr) source(n ast.Node) string {
	p, e := t.fset.Position(n.Pos()), t.fset.Position(n.End())
	return string(t.src[p.Filename][p.Offset:e.Offset])
}
func (t *tr) where(n ast.Node) string {
	p := t.fset.Position(n.Pos())
	return fmt.Sprintf("%s:%d", filepath.Base(p.Filename), p.Line)
}
func (t *tr) fail(n ast.Node, format string, a ...any) {
	fmt.Fprintf(os.Stderr, "translator_c15: %s: %s\n    %s\n", t.where(n), fmt.Sprintf(format, a...), t.excerpt(n, 100))
	os.Exit(1)
}
func (t *tr) excerpt(n ast.Node, max int) string {
	s := strings.TrimSpace(strings.SplitN(t.source(n), "\n", 2)[0])
	if len(s) > max {
		s = s[:max] + "…"
	}
	return s
}
func (t *tr) vid(name string) int {
	id, ok := t.vids[name]
	if !ok {
		id = len(t.vnames)
		t.vids[name] = id
		t.vnames = append(t.vnames, name)
	}
	return id
}
func sha(s string) string { return fmt.Sprintf("%x", sha256.Sum256([]byte(s))) }
func unparen(e ast.Expr) ast.Expr {
	for {
		p, ok := e.(*ast.ParenExpr)
		if !ok {
			return e
		}
		e = p.X
	}
}

// ---------- constants ----------
func (t *tr) cval(e ast.Expr, iota int, loc map[string]cv) cv {
	switch e := e.(type) {
	case *ast.BasicLit:
		if e.Kind == token.INT {
			return cv{constant.MakeFromLiteral(e.Value, e.Kind, 0), "", true}
		}
	case *ast.ParenExpr:
		return t.cval(e.X, iota, loc)
	case *ast.Ident:
		if e.Name == "iota" && iota >= 0 {
			return cv{constant.MakeInt64(int64(iota)), "", true}
		}
		if c, ok := loc[e.Name]; ok {
			return c
		}
		if d := t.pconst[e.Name]; d != nil {
			c, ok := t.cmemo[e.Name]
			if !ok {
				c = t.cval(d.expr, d.iota, nil)
				if c.ok && d.typ != nil {
					c.ty = intTy[t.text(d.typ)]
					c.ok = c.ty != ""
				}
				t.cmemo[e.Name] = c
			}
			if c.ok {
				t.consts[e.Name] = c.v.ExactString()
			}
			return c
		}
	case *ast.UnaryExpr:
		if x := t.cval(e.X, iota, loc); x.ok && (e.Op == token.SUB || e.Op == token.ADD) {
			return cv{constant.UnaryOp(e.Op, x.v, 0), x.ty, true}
		}
	case *ast.BinaryExpr:
		x, y := t.cval(e.X, iota, loc), t.cval(e.Y, iota, loc)
		if !x.ok || !y.ok || x.v.Kind() != constant.Int || y.v.Kind() != constant.Int {
			break
		}
		ty := x.ty
		if ty == "" {
			ty = y.ty
		}
		switch e.Op {
		case token.SHL, token.SHR:
			if s, ok := constant.Uint64Val(y.v); ok && s < 64 {
				return cv{constant.Shift(x.v, e.Op, uint(s)), x.ty, true}
			}
		case token.ADD, token.SUB, token.MUL, token.REM, token.AND, token.OR, token.XOR:
			return cv{constant.BinaryOp(x.v, e.Op, y.v), ty, true}
		case token.QUO:
			if constant.Sign(y.v) != 0 {
				return cv{constant.BinaryOp(x.v, token.QUO_ASSIGN, y.v), ty, true}
			}
		}
	case *ast.CallExpr:
		if ty := intTy[t.text(e.Fun)]; ty != "" && len(e.Args) == 1 {
			if x := t.cval(e.Args[0], iota, loc); x.ok {
				return cv{x.v, ty, true}
			}
		}
	}
	return cv{}
}
func lit(v constant.Value) string {
	if constant.Sign(v) < 0 {
		return "(Expr.lit (" + v.ExactString() + "))"
	}
	return "(Expr.lit " + v.ExactString() + ")"
}

// ---------- expressions ----------
func (c *ctx) fail(format string, a ...any) { c.t.fail(c.src, format, a...) }
func (c *ctx) key(e ast.Expr) string {
	switch e := e.(type) {
	case *ast.Ident:
		if r, ok := c.ren[e.Name]; ok {
			return r
		}
		return e.Name
	case *ast.ParenExpr:
		return c.key(e.X)
	case *ast.StarExpr:
		return c.key(e.X)
	case *ast.IndexExpr:
		return c.key(e.X)
	case *ast.SelectorExpr:
		return c.key(e.X) + "." + e.Sel.Name
	}
	panic(soft{"not a variable path: " + c.t.text(e)})
}
func (c *ctx) vid(k string) int { return c.t.vid(c.f.def + "." + k) }
func (c *ctx) define(k, ty string) int {
	if c.t.pconst[k] != nil {
		c.fail("local variable %s shadows a package constant (unsupported)", k)
	}
	c.types[k] = ty
	c.defd = append(c.defd, k)
	return c.vid(k)
}
func (c *ctx) varRef(k string) (string, string) {
	ty, ok := c.types[k]
	if !ok {
		panic(soft{"value of variable `" + k + "` is not tracked (unknown/opaque)"})
	}
	c.used = append(c.used, k)
	return fmt.Sprintf("(Expr.var %d)", c.vid(k)), ty
}
func (c *ctx) isErr(e ast.Expr) bool {
	s, ok := unparen(e).(*ast.SelectorExpr)
	if !ok || s.Sel.Name != "err" {
		return false
	}
	id, ok := s.X.(*ast.Ident)
	return ok && c.dec != "" && id.Name == c.dec
}

var opName = map[token.Token]string{token.LAND: "land", token.LOR: "lor", token.LSS: "lt", token.LEQ: "le", token.GTR: "gt",
	token.GEQ: "ge", token.EQL: "eq", token.NEQ: "ne", token.ADD: "add", token.SUB: "sub", token.MUL: "mul", token.QUO: "div",
	token.REM: "mod", token.AND: "band"}

func isInt(ty string) bool { return ty != "" && ty != "bool" && ty != "f64" }
func (c *ctx) expr(e ast.Expr) (string, string) {
	if v := c.t.cval(e, -1, c.consts); v.ok {
		return lit(v.v), v.ty
	}
	switch e := e.(type) {
	case *ast.ParenExpr:
		return c.expr(e.X)
	case *ast.Ident, *ast.SelectorExpr, *ast.StarExpr:
		return c.varRef(c.key(e))
	case *ast.IndexExpr:
		panic(soft{"slice element values are not tracked: " + c.t.text(e)})
	case *ast.UnaryExpr:
		if e.Op == token.NOT {
			a, ty := c.expr(e.X)
			if ty != "bool" {
				c.fail("operand of ! is not bool")
			}
			return "(Expr.lnot " + a + ")", "bool"
		}
	case *ast.CallExpr:
		f := c.t.text(e.Fun)
		if f == "len" && len(e.Args) == 1 {
			k := c.key(e.Args[0])
			if c.elem[k] == "" {
				panic(soft{"len of untracked slice " + k})
			}
			return c.varRef(k)
		}
		if ty := intTy[f]; ty != "" && len(e.Args) == 1 {
			a, ta := c.expr(e.Args[0])
			if !isInt(ta) && ta != "" {
				panic(soft{"conversion of non-integer"})
			}
			return "(Expr.conv Ty." + ty + " " + a + ")", ty
		}
		if s, ok := e.Fun.(*ast.SelectorExpr); ok && s.Sel.Name == "IsValid" && len(e.Args) == 0 {
			x := c.t.text(s.X)
			ty := recvTable[c.f.recvTy+"|"+x]
			if x == c.f.recv && c.ren == nil {
				ty = c.f.recvTy
			}
			if ty != "CellID" {
				c.fail("IsValid() on a receiver that is not a CellID (%s): no IR primitive", x)
			}
			a, ta := c.varRef(c.key(s.X))
			if ta != "u64" {
				c.fail("CellID value %s is not tracked as u64", x)
			}
			return "(Expr.cellIDValid " + a + ")", "bool"
		}
		if s, ok := e.Fun.(*ast.SelectorExpr); ok && s.Sel.Name == "next" && len(e.Args) == 0 {
			if id, ok := s.X.(*ast.Ident); ok && c.iters[id.Name] { // intrinsic, see header of generated file
				return "(Expr.lit 1)", "bool"
			}
		}
	case *ast.BinaryExpr:
		if c.isErr(e.X) && c.t.text(e.Y) == "nil" && e.Op == token.EQL {
			return "Expr.errNil", "bool"
		}
		if c.isErr(e.X) && c.t.text(e.Y) == "nil" && e.Op == token.NEQ {
			return "Expr.errSet", "bool"
		}
		if opName[e.Op] == "" {
			panic(soft{"unsupported operator " + e.Op.String()})
		}
		a, ta := c.expr(e.X)
		b, tb := c.expr(e.Y)
		ty := ta
		if ty == "" {
			ty = tb
		}
		if tb != "" && tb != ty {
			c.fail("operand types differ: %s vs %s (type inference bug?)", ta, tb)
		}
		bin := "(Expr.bin BinOp." + opName[e.Op] + " " + a + " " + b + ")"
		switch e.Op {
		case token.LAND, token.LOR:
			if ty != "bool" {
				c.fail("operands of %s are not bool", e.Op)
			}
			return bin, "bool"
		case token.LSS, token.LEQ, token.GTR, token.GEQ, token.EQL, token.NEQ:
			if ty == "f64" || (ty == "bool" && e.Op != token.EQL && e.Op != token.NEQ) {
				panic(soft{"unsupported comparison operand type " + ty})
			}
			return bin, "bool"
		case token.ADD, token.SUB, token.MUL:
			if !isInt(ty) {
				panic(soft{"arithmetic on non-integer type " + ty})
			}
			return "(Expr.conv Ty." + ty + " " + bin + ")", ty
		case token.QUO, token.REM:
			if !isInt(ty) {
				panic(soft{"arithmetic on non-integer type " + ty})
			}
			return bin, ty
		case token.AND:
			if ty != "u8" && ty != "u32" && ty != "u64" {
				c.fail("& on operands that are not unsigned (%s): IR band is unsigned only", ty)
			}
			return bin, ty
		}
	}
	panic(soft{"unsupported expression " + c.t.text(e)})
}
func (c *ctx) try(e ast.Expr) (s, ty string, err error) {
	defer func() {
		if r := recover(); r != nil {
			sf, ok := r.(soft)
			if !ok {
				panic(r)
			}
			err = fmt.Errorf("%s", sf.msg)
		}
	}()
	c.used = nil
	s, ty = c.expr(e)
	return
}
func (c *ctx) must(e ast.Expr) (string, string) {
	s, ty, err := c.try(e)
	if err != nil {
		c.fail("cannot translate `%s` (needed for control flow / count / index): %v", c.t.text(e), err)
	}
	return s, ty
}
func (c *ctx) mustKey(e ast.Expr) (k string) {
	defer func() {
		if r := recover(); r != nil {
			c.fail("not a variable path: %s", c.t.text(e))
		}
	}()
	return c.key(e)
}

// ---------- statements ----------
func (c *ctx) emit(text string) *stmt {
	s := &stmt{text: text, cmt: c.t.where(c.src) + "  " + c.t.excerpt(c.src, 90)}
	*c.cur = append(*c.cur, s)
	return s
}
func (c *ctx) block(f func()) []*stmt {
	old, oldSrc := c.cur, c.src
	var b []*stmt
	c.cur = &b
	f()
	c.cur, c.src = old, oldSrc
	return b
}
func (c *ctx) stmts(l []ast.Stmt) {
	for _, s := range l {
		c.stmt(s)
	}
}
func (c *ctx) stmt(s ast.Stmt) {
	c.src = s
	switch s := s.(type) {
	case *ast.AssignStmt:
		c.assign(s)
	case *ast.ExprStmt:
		call, ok := s.X.(*ast.CallExpr)
		if !ok {
			c.fail("unsupported expression statement")
		}
		c.indexes(s)
		if !c.call(call, nil) {
			c.opaque(s, nil)
		}
	case *ast.IncDecStmt:
		op := map[token.Token]token.Token{token.INC: token.ADD, token.DEC: token.SUB}[s.Tok]
		c.assign(&ast.AssignStmt{Lhs: []ast.Expr{s.X}, TokPos: s.TokPos, Tok: op + (token.ADD_ASSIGN - token.ADD),
			Rhs: []ast.Expr{&ast.BasicLit{ValuePos: s.TokPos, Kind: token.INT, Value: "1"}}})
	case *ast.IfStmt:
		c.ifStmt(s)
	case *ast.ForStmt:
		c.forStmt(s)
	case *ast.RangeStmt:
		c.rangeStmt(s)
	case *ast.SwitchStmt:
		c.switchStmt(s)
	case *ast.ReturnStmt:
		c.indexes(s)
		for _, r := range s.Results {
			hasCall := false
			ast.Inspect(r, func(n ast.Node) bool { _, ok := n.(*ast.CallExpr); hasCall = hasCall || ok; return true })
			if hasCall {
				c.opaque(s, nil)
				break
			} else if !c.isErr(r) {
				c.noDecoder(r)
			}
		}
		c.emit("Stmt.ret")
	case *ast.DeclStmt:
		c.decl(s.Decl.(*ast.GenDecl))
	case *ast.BlockStmt:
		c.stmts(s.List)
	case *ast.EmptyStmt:
	default:
		c.fail("unsupported statement %T", s)
	}
}
func (c *ctx) decl(g *ast.GenDecl) {
	for _, sp := range g.Specs {
		vs, ok := sp.(*ast.ValueSpec)
		if !ok {
			c.fail("unsupported declaration")
		}
		for i, n := range vs.Names {
			switch {
			case g.Tok == token.CONST:
				v := cv{}
				if i < len(vs.Values) {
					v = c.t.cval(vs.Values[i], -1, c.consts)
				}
				if !v.ok || len(g.Specs) != 1 {
					c.fail("cannot resolve local constant %s", n.Name)
				}
				if vs.Type != nil {
					v.ty = intTy[c.t.text(vs.Type)]
				}
				c.consts[n.Name] = v
				c.t.consts[n.Name] = v.v.ExactString()
			case len(vs.Values) != 0 || vs.Type == nil:
				c.fail("unsupported var declaration with initialiser")
			default: // zero value: nothing to emit (Env.get defaults to 0)
				if c.loopDepth > 0 {
					c.fail("var declaration inside a loop is unsupported (would need re-zeroing)")
				}
				if ty := intTy[c.t.text(vs.Type)]; ty != "" {
					c.define(n.Name, ty)
				} else if a, ok := vs.Type.(*ast.ArrayType); ok && a.Len == nil {
					c.define(n.Name, "int")
					c.elem[n.Name] = c.t.text(a.Elt)
				} else if _, ok := vs.Type.(*ast.FuncType); ok {
					c.fnv[n.Name] = &fnval{}
				} else {
					c.fail("unsupported var type %s", c.t.text(vs.Type))
				}
			}
		}
	}
}

// unwrapRead recognises  T1(T2(… d.readX() …))  and returns the wire type and the conversions (outermost first).
func (c *ctx) unwrapRead(e ast.Expr) (string, []string) {
	var convs []string
	for {
		call, ok := unparen(e).(*ast.CallExpr)
		if !ok {
			return "", nil
		}
		if s, ok := call.Fun.(*ast.SelectorExpr); ok && len(call.Args) == 0 {
			if id, ok := s.X.(*ast.Ident); ok && c.dec != "" && id.Name == c.dec {
				if readTy[s.Sel.Name] == "" {
					c.fail("unknown decoder method %s", s.Sel.Name)
				}
				return readTy[s.Sel.Name], convs
			}
		}
		if len(call.Args) != 1 {
			return "", nil
		}
		f := c.t.text(call.Fun)
		ty := intTy[f]
		if ty == "" {
			ty = intTy[c.t.under[f]]
		}
		if ty == "" && c.t.under[f] == "float64" {
			ty = "f64"
		}
		if ty == "" {
			ty = externConv[f]
		}
		if ty == "" {
			return "", nil
		}
		convs = append(convs, ty)
		e = call.Args[0]
	}
}
func (c *ctx) emitRead(ty string, convs []string, lhs ast.Expr) {
	k := "_"
	if lhs != nil {
		if k = c.mustKey(lhs); k == "_" {
			c.fail("unexpected blank")
		}
	}
	cur := map[string]string{"uvarint": "u64"}[ty]
	if cur == "" {
		cur = ty
	}
	id := c.define(k, cur)
	if ty == "f64" && lhs != nil { // a coordinate stored into an ELEMENT of a point slice: vertex coordinate
		ast.Inspect(lhs, func(n ast.Node) bool {
			if _, ok := n.(*ast.IndexExpr); ok {
				ty = "f64v"
			}
			return true
		})
	}
	c.emit(fmt.Sprintf("Stmt.read Ty.%s %d", ty, id))
	for i := len(convs) - 1; i >= 0; i-- {
		if convs[i] == cur {
			continue // e.g. CellID(uint64): same representation
		}
		if !isInt(convs[i]) || !isInt(cur) {
			c.fail("conversion %s → %s of a read value is unsupported", cur, convs[i])
		}
		cur = convs[i]
		c.types[k] = cur
		c.emit(fmt.Sprintf("Stmt.assign %d (Expr.conv Ty.%s (Expr.var %d))", id, cur, id))
	}
}
func (c *ctx) isDecoderLit(e ast.Expr) bool {
	if u, ok := e.(*ast.UnaryExpr); ok && u.Op == token.AND {
		e = u.X
	}
	cl, ok := e.(*ast.CompositeLit)
	return ok && c.t.text(cl.Type) == "decoder"
}
func (c *ctx) assign(s *ast.AssignStmt) {
	if len(s.Rhs) != 1 {
		c.fail("unsupported parallel assignment")
	}
	rhs := unparen(s.Rhs[0])
	if c.isDecoderLit(rhs) {
		id, ok := s.Lhs[0].(*ast.Ident)
		if !ok || s.Tok != token.DEFINE || c.dec != "" {
			c.fail("unsupported decoder construction")
		}
		c.checkCalls(rhs)
		c.dec = id.Name
		return
	}
	c.indexes(s)
	if ty, convs := c.unwrapRead(rhs); ty != "" {
		if len(s.Lhs) != 1 || (s.Tok != token.DEFINE && s.Tok != token.ASSIGN) {
			c.fail("unsupported read assignment")
		}
		c.emitRead(ty, convs, s.Lhs[0])
		return
	}
	single := len(s.Lhs) == 1 && (s.Tok == token.DEFINE || s.Tok == token.ASSIGN)
	if call, ok := rhs.(*ast.CallExpr); ok {
		switch f := c.t.text(call.Fun); {
		case f == "make" && single && len(call.Args) == 2:
			a, ok := call.Args[0].(*ast.ArrayType)
			if !ok || a.Len != nil || elemSize[c.t.text(a.Elt)] == 0 {
				c.fail("make of unknown element type %s", c.t.text(call.Args[0]))
			}
			n, ty := c.must(call.Args[1])
			if !isInt(ty) && ty != "" {
				c.fail("make count is not an integer")
			}
			k := c.mustKey(s.Lhs[0])
			c.elem[k] = c.t.text(a.Elt)
			c.emit(fmt.Sprintf("Stmt.alloc %d %s %d", c.define(k, "int"), n, elemSize[c.elem[k]]))
			return
		case f == "new" && single && len(call.Args) == 1:
			sz := newSize[c.t.text(call.Args[0])]
			if sz == 0 {
				c.fail("new of unknown type %s", c.t.text(call.Args[0]))
			}
			c.emit(fmt.Sprintf("Stmt.alloc %d (Expr.lit 1) %d", c.define("new."+c.t.text(call.Args[0]), "int"), sz))
			return
		case f == "append" && single && len(call.Args) == 2:
			k := c.mustKey(s.Lhs[0])
			if c.key(call.Args[0]) != k || c.elem[k] == "" || elemSize[c.elem[k]] == 0 {
				c.fail("unsupported append (only x = append(x, v) on a tracked slice)")
			}
			c.types[k] = "int"
			c.defd = append(c.defd, k)
			c.emit(fmt.Sprintf("Stmt.append %d %d", c.vid(k), elemSize[c.elem[k]]))
			return
		}
		if c.call(call, s.Lhs) {
			return
		}
	}
	if id, ok := s.Lhs[0].(*ast.Ident); ok && len(s.Lhs) == 1 {
		if g := c.funcValue(rhs); g != nil && (s.Tok == token.DEFINE || c.fnv[id.Name] != nil) {
			c.fnv[id.Name] = &fnval{def: g, mark: len(c.defd)}
			return
		}
	}
	if cl, ok := rhs.(*ast.CompositeLit); ok && single && c.t.structs[c.t.text(cl.Type)] != nil && c.allInt(c.t.text(cl.Type)) {
		k := c.mustKey(s.Lhs[0])
		for _, el := range cl.Elts {
			kv, ok := el.(*ast.KeyValueExpr)
			if !ok {
				c.fail("positional struct literal unsupported")
			}
			e, ty := c.must(kv.Value)
			if ty != "int" && ty != "" {
				c.fail("field value is not int")
			}
			c.emit(fmt.Sprintf("Stmt.assign %d %s", c.define(k+"."+c.t.text(kv.Key), "int"), e))
		}
		return
	}
	if len(s.Lhs) == 1 {
		var e ast.Expr = rhs
		if s.Tok != token.DEFINE && s.Tok != token.ASSIGN {
			e = &ast.BinaryExpr{X: s.Lhs[0], OpPos: s.TokPos, Op: s.Tok - (token.ADD_ASSIGN - token.ADD), Y: rhs}
		}
		if str, ty, err := c.try(e); err == nil {
			k := c.mustKey(s.Lhs[0])
			if old, ok := c.types[k]; ok && s.Tok != token.DEFINE && (ty == "" || ty == old) {
				ty = old
			} else if s.Tok != token.DEFINE && ok {
				c.fail("assignment changes static type of %s: %s → %s", k, old, ty)
			} else if ty == "" {
				ty = "int"
			}
			c.emit(fmt.Sprintf("Stmt.assign %d %s", c.define(k, ty), str))
			return
		} else {
			c.t.notes = append(c.t.notes, fmt.Sprintf("%s: `%s` → opaque (%v)", c.t.where(s), c.t.excerpt(s, 60), err))
		}
	}
	c.opaque(s, s.Lhs)
}
func (c *ctx) allInt(st string) bool {
	if len(c.t.structs[st]) == 0 {
		return false
	}
	for _, ty := range c.t.structs[st] {
		if ty != "int" {
			return false
		}
	}
	return true
}
func (c *ctx) noDecoder(n ast.Node) {
	ast.Inspect(n, func(n ast.Node) bool {
		if id, ok := n.(*ast.Ident); ok && c.dec != "" && id.Name == c.dec {
			c.fail("statement touches the decoder `%s` in a way that is not understood", c.dec)
		}
		return true
	})
}

// checkCalls: every call / composite literal inside n must be allow-listed; returns the first callee name.
func (c *ctx) checkCalls(n ast.Node) (name string) {
	gotCall := false
	ast.Inspect(n, func(n ast.Node) bool {
		t := ""
		switch n := n.(type) {
		case *ast.CallExpr:
			if t = c.t.text(n.Fun); intTy[t] != "" || t == "len" {
				return true
			}
		case *ast.CompositeLit:
			if t = c.t.text(n.Type); t == "decoder" {
				return true
			}
		case *ast.FuncLit:
			c.fail("function literal unsupported")
		default:
			return true
		}
		if !opaqueOK[t] {
			c.fail("call of / literal of `%s` is not in the opaque allow-list", t)
		}
		if _, isCall := n.(*ast.CallExpr); isCall && !gotCall {
			name, gotCall = t, true // prefer a callee name over a literal's type name
		} else if name == "" {
			name = t
		}
		return true
	})
	return
}
func (c *ctx) forget(lhs []ast.Expr) {
	for _, l := range lhs {
		if _, ok := unparen(l).(*ast.IndexExpr); ok {
			continue // element store: length unchanged
		}
		k := c.mustKey(l)
		c.defd = append(c.defd, k)
		for v := range c.types {
			if v == k || strings.HasPrefix(v, k+".") {
				delete(c.types, v)
				delete(c.elem, v)
			}
		}
		delete(c.iters, k)
	}
}
func (c *ctx) opaque(s ast.Node, lhs []ast.Expr) {
	c.noDecoder(s)
	name := c.checkCalls(s)
	c.forget(lhs)
	if name == "facesIterator" && len(lhs) == 1 {
		c.iters[c.mustKey(lhs[0])] = true
	}
	if name == "" {
		name = c.t.excerpt(s, 60)
	}
	c.t.opaques = append(c.t.opaques, fmt.Sprintf("%s %s: %s", c.f.def, c.t.where(s), name))
	c.emit(fmt.Sprintf("Stmt.opaque %q", name))
}

// indexes emits `index s e` for every s[e] inside n (except range-variable indexing of the ranged slice).
func (c *ctx) indexes(n ast.Node) {
	seen := map[string]bool{}
	ast.Inspect(n, func(n ast.Node) bool {
		ix, ok := n.(*ast.IndexExpr)
		if !ok {
			return true
		}
		k := c.mustKey(ix.X)
		if c.elem[k] == "" {
			c.fail("index into untracked slice %s", k)
		}
		for _, r := range c.ranges {
			if id, ok := ix.Index.(*ast.Ident); ok && r[0] == k && r[1] == c.key(id) {
				return true
			}
		}
		e, ty := c.must(ix.Index)
		if !isInt(ty) && ty != "" {
			c.fail("index is not an integer")
		}
		if t := fmt.Sprintf("Stmt.index %d %s", c.vid(k), e); !seen[t] {
			seen[t] = true
			c.emit(t)
		}
		return true
	})
}

// ---------- calls ----------
func (c *ctx) funcValue(e ast.Expr) *fn {
	switch e := e.(type) {
	case *ast.Ident:
		if _, isVar := c.types[e.Name]; !isVar {
			return c.t.fns[e.Name]
		}
	case *ast.SelectorExpr:
		if methodNames[e.Sel.Name] && !opaqueOK[c.t.text(e)] {
			return c.resolve(e)
		}
	}
	return nil
}
func (c *ctx) resolve(s *ast.SelectorExpr) *fn {
	x, ty := c.t.text(s.X), ""
	if x == c.f.recv && c.ren == nil {
		ty = c.f.recvTy
	} else if ty = recvTable[c.f.recvTy+"|"+x]; ty == "" {
		c.fail("cannot resolve receiver type of `%s` in %s (not in recvTable)", x, c.f.qual)
	}
	g := c.t.fns[ty+"."+s.Sel.Name]
	if g == nil {
		c.fail("method %s.%s is not a translated function", ty, s.Sel.Name)
	}
	return g
}
func (c *ctx) call(call *ast.CallExpr, lhs []ast.Expr) bool {
	switch f := call.Fun.(type) {
	case *ast.Ident:
		if v := c.fnv[f.Name]; v != nil {
			c.callFnv(v, call)
			c.forget(lhs)
			return true
		}
		if g := c.funcValue(f); g != nil {
			if !c.inline(g, call, lhs) {
				*c.cur = append(*c.cur, c.callStmts(g, call.Args)...)
				c.forget(lhs)
			}
			return true
		}
	case *ast.SelectorExpr:
		if id, ok := f.X.(*ast.Ident); ok && c.dec != "" && id.Name == c.dec {
			if ty, convs := c.unwrapRead(call); ty != "" && lhs == nil {
				c.emitRead(ty, convs, nil)
				return true
			}
			c.fail("unsupported use of the decoder")
		}
		if g := c.funcValue(f); g != nil {
			*c.cur = append(*c.cur, c.callStmts(g, call.Args)...)
			c.forget(lhs)
			c.writeBack(g, f.X)
			return true
		}
	}
	return false
}

// writeBack: a callee with a scalar pointer receiver (`func (ci *CellID) decode`) stores the value it read
// into `*ci`; make it visible under the caller's name of the receiver (`c.id`) so that later conditions
// (`c.id.IsValid()`) can use it.  Receivers that are slice elements (`(*cu)[i]`) are not tracked.
func (c *ctx) writeBack(g *fn, recv ast.Expr) {
	if g.recvTy != "CellID" || g.recv == "" {
		return
	}
	hasIndex := false
	ast.Inspect(recv, func(n ast.Node) bool {
		if _, ok := n.(*ast.IndexExpr); ok {
			hasIndex = true
		}
		return true
	})
	if hasIndex {
		return
	}
	k := c.mustKey(recv)
	id := c.define(k, "u64")
	c.emit(fmt.Sprintf("Stmt.assign %d (Expr.var %d)", id, c.t.vid(g.def+"."+g.recv)))
}
func (c *ctx) callStmts(g *fn, args []ast.Expr) []*stmt {
	c.t.translate(g)
	if len(args) != len(g.params) {
		c.fail("argument count mismatch calling %s", g.qual)
	}
	return c.block(func() {
		for i, p := range g.params {
			switch p.kind {
			case "int":
				e, ty := c.must(args[i])
				if ty != "int" && ty != "" {
					c.fail("argument %d of %s is %s, want int", i, g.qual, ty)
				}
				c.emit(fmt.Sprintf("Stmt.assign %d %s", c.t.vid(g.def+"."+p.name), e))
			case "slice":
				k := c.mustKey(args[i])
				if c.elem[k] != p.elem {
					c.fail("argument %d of %s is not a tracked []%s", i, g.qual, p.elem)
				}
				e, _ := c.varRef(k)
				c.emit(fmt.Sprintf("Stmt.assign %d %s", c.t.vid(g.def+"."+p.name), e))
			case "dec":
				if id, ok := args[i].(*ast.Ident); !ok || id.Name != c.dec {
					c.fail("decoder argument of %s is not the decoder variable", g.qual)
				}
			}
		}
		kind := "call"
		if g.byValue {
			kind = "callByValue"
		}
		c.emit(fmt.Sprintf("Stmt.%s %q %s", kind, g.qual, g.def))
	})
}
func (c *ctx) callFnv(v *fnval, call *ast.CallExpr) {
	for _, d := range c.defd[v.mark:] {
		for _, u := range v.vars {
			if d == u {
				c.fail("variable %s of the function-value condition is reassigned before the call", d)
			}
		}
	}
	els := []*stmt{}
	if v.def != nil {
		els = c.callStmts(v.def, call.Args)
	}
	for i := len(v.conds) - 1; i >= 0; i-- {
		els = []*stmt{{text: "Stmt.ite " + v.conds[i], cmt: c.t.where(c.src) + "  " + c.t.excerpt(c.src, 90),
			blocks: [][]*stmt{c.callStmts(v.fns[i], call.Args), els}}}
	}
	*c.cur = append(*c.cur, els...)
}

// inline splices a callee of the form `… ret := T{…} … return ret` (single, final return; T an all-int struct).
func (c *ctx) inline(g *fn, call *ast.CallExpr, lhs []ast.Expr) bool {
	res := g.decl.Type.Results
	if res == nil || len(res.List) != 1 || len(res.List[0].Names) != 0 || c.t.structs[c.t.text(res.List[0].Type)] == nil ||
		!c.allInt(c.t.text(res.List[0].Type)) {
		return false
	}
	body := g.decl.Body.List
	nret := 0
	ast.Inspect(g.decl.Body, func(n ast.Node) bool { _, ok := n.(*ast.ReturnStmt); nret += map[bool]int{true: 1}[ok]; return true })
	last, ok := body[len(body)-1].(*ast.ReturnStmt)
	var rid *ast.Ident
	if ok && len(last.Results) == 1 {
		rid, _ = last.Results[0].(*ast.Ident)
	}
	if nret != 1 || rid == nil || len(lhs) != 1 || len(g.params) != 1 || g.params[0].kind != "dec" || c.ren != nil {
		c.fail("call of %s returns a struct but is not inlinable (need: only decoder param, single final `return <ident>`)", g.qual)
	}
	c.t.translate(g) // also emitted stand-alone
	target := c.mustKey(lhs[0])
	c.forget(lhs)
	before := map[string]bool{}
	for k := range c.types {
		before[k] = true
	}
	mark, oldDec, oldSrc := len(c.defd), c.dec, c.src
	c.dec, c.ren = g.params[0].name, map[string]string{rid.Name: target}
	c.stmts(body[:len(body)-1])
	c.dec, c.ren, c.src = oldDec, nil, oldSrc
	for _, d := range c.defd[mark:] {
		if before[d] {
			c.fail("inlined local `%s` of %s collides with a variable of %s", d, g.qual, c.f.qual)
		}
	}
	return true
}

// ---------- control flow ----------
// errBody classifies an if-body made only of `d.err = …` / `if d.err == nil { d.err = … }` and a final return.
func (c *ctx) errBody(body []ast.Stmt) (sets int, hasRet, errRet, ok bool) {
	isSet := func(s ast.Stmt) bool {
		a, ok := s.(*ast.AssignStmt)
		if !ok || len(a.Lhs) != 1 || a.Tok != token.ASSIGN || !c.isErr(a.Lhs[0]) {
			return false
		}
		c.checkCalls(a.Rhs[0])
		c.noDecoder(a.Rhs[0])
		return true
	}
	for i, s := range body {
		if r, isRet := s.(*ast.ReturnStmt); isRet && i == len(body)-1 {
			hasRet = true
			for _, x := range r.Results {
				if call, isCall := x.(*ast.CallExpr); isCall {
					if f := c.t.text(call.Fun); f != "fmt.Errorf" && f != "errors.New" {
						return 0, false, false, false
					}
					c.checkCalls(call)
					errRet = true
				} else if !c.isErr(x) {
					if _, isId := x.(*ast.Ident); !isId {
						return 0, false, false, false
					}
				}
			}
		} else if isSet(s) {
			sets++
		} else if f, isIf := s.(*ast.IfStmt); isIf && f.Init == nil && f.Else == nil && len(f.Body.List) == 1 && isSet(f.Body.List[0]) {
			if e, _, err := c.try(f.Cond); err != nil || e != "Expr.errNil" {
				return 0, false, false, false
			}
			sets++
		} else {
			return 0, false, false, false
		}
	}
	return sets, hasRet, errRet, true
}
func (c *ctx) ifStmt(s *ast.IfStmt) {
	if s.Init != nil {
		c.stmt(s.Init)
		c.src = s
	}
	body := s.Body.List
	if len(body) == 0 {
		c.fail("empty if body")
	}
	if a, ok := body[0].(*ast.AssignStmt); ok && len(body) == 1 && s.Else == nil && len(a.Lhs) == 1 && a.Tok == token.ASSIGN {
		if id, ok := a.Lhs[0].(*ast.Ident); ok && c.fnv[id.Name] != nil { // `if c { fnVar = F }`
			g := c.funcValue(a.Rhs[0])
			if g == nil {
				c.fail("unsupported function value")
			}
			cond, _ := c.must(s.Cond)
			old := c.fnv[id.Name]
			c.fnv[id.Name] = &fnval{conds: append([]string{cond}, old.conds...), fns: append([]*fn{g}, old.fns...),
				vars: append(append([]string{}, c.used...), old.vars...), def: old.def, mark: len(c.defd)}
			return
		}
	}
	c.indexes(s.Cond)
	cond, ty := c.must(s.Cond)
	if ty != "bool" {
		c.fail("condition is not bool")
	}
	if s.Else == nil {
		if sets, hasRet, errRet, ok := c.errBody(body); ok {
			switch {
			case cond == "Expr.errSet" && hasRet && sets == 0 && !errRet:
				c.emit("Stmt.failIfErr")
				return
			case hasRet && (sets > 0 || errRet):
				c.emit("Stmt.failIf " + cond)
				return
			case !hasRet && sets > 0:
				c.emit("Stmt.errIf " + cond)
				return
			}
		}
	}
	st := c.emit("Stmt.ite " + cond)
	th := c.block(func() { c.stmts(body) })
	el := []*stmt{}
	if s.Else != nil {
		el = c.block(func() { c.stmt(s.Else) })
	}
	st.blocks = [][]*stmt{th, el}
}
func (c *ctx) checkInvariant(mark int, what string, vars []string) {
	for _, d := range c.defd[mark:] {
		for _, v := range vars {
			if d == v {
				c.fail("loop body assigns `%s`, which occurs in the %s", d, what)
			}
		}
	}
}
func (c *ctx) loopBody(l []ast.Stmt) []*stmt {
	c.loopDepth++
	defer func() { c.loopDepth-- }()
	return c.block(func() { c.stmts(l) })
}
func (c *ctx) forStmt(s *ast.ForStmt) {
	init, ok := s.Init.(*ast.AssignStmt)
	cond, ok2 := s.Cond.(*ast.BinaryExpr)
	if !ok || !ok2 || init.Tok != token.DEFINE || len(init.Lhs) != 1 || c.t.text(init.Rhs[0]) != "0" || cond.Op != token.LSS ||
		c.t.text(cond.X) != c.t.text(init.Lhs[0]) {
		c.fail("unsupported for loop (want `for x := 0; x < N; x++` or `for x := 0; x < N; { …; x += E }`)")
	}
	x := c.mustKey(init.Lhs[0])
	c.indexes(cond.Y)
	id := c.define(x, "int")
	if s.Post == nil {
		c.emit(fmt.Sprintf("Stmt.assign %d (Expr.lit 0)", id))
	}
	n, ty := c.must(cond.Y)
	nvars := append([]string{x}, c.used...)
	if ty != "int" && ty != "" {
		c.fail("loop bound is not int")
	}
	mark, l := len(c.defd), s.Body.List
	if p, ok := s.Post.(*ast.IncDecStmt); ok && p.Tok == token.INC && c.t.text(p.X) == x {
		st := c.emit(fmt.Sprintf("Stmt.loop %d %s", id, n))
		st.blocks = [][]*stmt{c.loopBody(l)}
	} else if a, ok := l[len(l)-1].(*ast.AssignStmt); s.Post == nil && ok && a.Tok == token.ADD_ASSIGN && c.t.text(a.Lhs[0]) == x {
		st := c.emit(fmt.Sprintf("Stmt.whileLt %d %s", id, n))
		st.blocks = [][]*stmt{c.loopBody(l[:len(l)-1])}
		c.src = a
		ast.Inspect(a.Rhs[0], func(n ast.Node) bool {
			if _, ok := n.(*ast.IndexExpr); ok {
				c.fail("index expression in loop increment is unsupported")
			}
			return true
		})
		inc, ty := c.must(a.Rhs[0])
		if ty != "int" && ty != "" {
			c.fail("increment is not int")
		}
		st.post = " " + inc
		c.src = s
	} else {
		c.fail("unsupported for-loop post statement")
	}
	c.checkInvariant(mark, "loop bound / counter", nvars)
}
func (c *ctx) rangeStmt(s *ast.RangeStmt) {
	id, ok := s.Key.(*ast.Ident)
	if !ok || s.Value != nil || s.Tok != token.DEFINE {
		c.fail("unsupported range loop (want `for i := range slice`)")
	}
	k := c.mustKey(s.X)
	if c.elem[k] == "" {
		c.fail("range over untracked slice %s", k)
	}
	n, _ := c.must(&ast.CallExpr{Fun: ast.NewIdent("len"), Args: []ast.Expr{s.X}})
	st := c.emit(fmt.Sprintf("Stmt.loop %d %s", c.define(id.Name, "int"), n))
	mark := len(c.defd)
	c.ranges = append(c.ranges, [2]string{k, id.Name})
	st.blocks = [][]*stmt{c.loopBody(s.Body.List)}
	c.ranges = c.ranges[:len(c.ranges)-1]
	c.checkInvariant(mark, "range loop header", []string{k, id.Name})
}

// switchStmt: only `switch TAG { case A: fv = F; case B: fv = G; default: return <error> }`.
func (c *ctx) switchStmt(s *ast.SwitchStmt) {
	if s.Init != nil || s.Tag == nil {
		c.fail("unsupported switch")
	}
	c.indexes(s.Tag)
	tag, _ := c.must(s.Tag)
	v := &fnval{vars: append([]string{}, c.used...)}
	name, hasDefault, any := "", false, ""
	for _, cl := range s.Body.List {
		cc := cl.(*ast.CaseClause)
		c.src = cc
		if cc.List == nil {
			_, hasRet, errRet, ok := c.errBody(cc.Body)
			if !ok || !hasRet || !errRet {
				c.fail("default clause must be `return fmt.Errorf(…)`")
			}
			hasDefault = true
			continue
		}
		a, ok := cc.Body[0].(*ast.AssignStmt)
		if !ok || len(cc.Body) != 1 || len(cc.List) != 1 || a.Tok != token.ASSIGN || c.fnv[c.t.text(a.Lhs[0])] == nil ||
			(name != "" && name != c.t.text(a.Lhs[0])) || c.funcValue(a.Rhs[0]) == nil {
			c.fail("unsupported case clause (want `case K: fnVar = F`)")
		}
		name = c.t.text(a.Lhs[0])
		k, _ := c.must(cc.List[0])
		cond := "(Expr.bin BinOp.eq " + tag + " " + k + ")"
		v.conds, v.fns = append(v.conds, cond), append(v.fns, c.funcValue(a.Rhs[0]))
		if any == "" {
			any = cond
		} else {
			any = "(Expr.bin BinOp.lor " + any + " " + cond + ")"
		}
	}
	c.src = s
	if !hasDefault || name == "" {
		c.fail("switch without error-returning default is unsupported")
	}
	c.emit("Stmt.failIf (Expr.lnot " + any + ")")
	v.mark = len(c.defd)
	c.fnv[name] = v
}

// ---------- functions ----------
func (t *tr) translate(g *fn) {
	if g.done {
		return
	}
	if g.busy {
		t.fail(g.decl, "recursion is unsupported")
	}
	g.busy = true
	c := &ctx{t: t, f: g, types: map[string]string{}, elem: map[string]string{}, consts: map[string]cv{},
		fnv: map[string]*fnval{}, iters: map[string]bool{}, src: g.decl}
	for _, p := range g.params {
		switch p.kind {
		case "dec":
			c.dec = p.name
		case "int":
			c.define(p.name, "int")
		case "slice":
			c.define(p.name, "int")
			c.elem[p.name] = p.elem
		}
	}
	g.body = c.block(func() { c.stmts(g.decl.Body.List) })
	g.done, g.busy = true, false
	t.order = append(t.order, g)
}
func (t *tr) load(dir string) {
	pkgs, err := parser.ParseDir(t.fset, dir, func(fi os.FileInfo) bool { return !strings.HasSuffix(fi.Name(), "_test.go") }, 0)
	if err != nil || pkgs["s2"] == nil {
		fmt.Fprintf(os.Stderr, "translator_c15: cannot parse %s: %v\n", dir, err)
		os.Exit(1)
	}
	for name, f := range pkgs["s2"].Files {
		t.src[name], _ = os.ReadFile(name)
		for _, d := range f.Decls {
			switch d := d.(type) {
			case *ast.FuncDecl:
				name := d.Name.Name
				if d.Recv != nil {
					name = strings.TrimPrefix(t.text(d.Recv.List[0].Type), "*") + "." + name
				}
				t.funcs[name] = d
			case *ast.GenDecl:
				var prev *ast.ValueSpec
				for i, sp := range d.Specs {
					switch sp := sp.(type) {
					case *ast.TypeSpec:
						if id, ok := sp.Type.(*ast.Ident); ok {
							t.under[sp.Name.Name] = id.Name
						} else if st, ok := sp.Type.(*ast.StructType); ok {
							t.structs[sp.Name.Name] = map[string]string{}
							for _, fl := range st.Fields.List {
								for _, n := range fl.Names {
									t.structs[sp.Name.Name][n.Name] = t.text(fl.Type)
								}
								if len(fl.Names) == 0 {
									t.structs[sp.Name.Name]["<embedded>"] = t.text(fl.Type)
								}
							}
						}
					case *ast.ValueSpec:
						if d.Tok != token.CONST {
							continue
						}
						if len(sp.Values) == 0 && prev != nil { // implicit repetition
							sp = &ast.ValueSpec{Names: sp.Names, Type: prev.Type, Values: prev.Values}
						}
						prev = sp
						for j, n := range sp.Names {
							if j < len(sp.Values) {
								t.pconst[n.Name] = &cdef{expr: sp.Values[j], typ: sp.Type, iota: i}
							}
						}
					}
				}
			}
		}
	}
}
func (t *tr) mkfn(q string) *fn {
	d := t.funcs[q]
	if d == nil || d.Body == nil {
		fmt.Fprintf(os.Stderr, "translator_c15: function %s not found\n", q)
		os.Exit(1)
	}
	g := &fn{def: strings.ReplaceAll(q, ".", "_"), qual: q, decl: d}
	if d.Recv != nil {
		g.recvTy = strings.TrimPrefix(t.text(d.Recv.List[0].Type), "*")
		if len(d.Recv.List[0].Names) == 1 {
			g.recv = d.Recv.List[0].Names[0].Name
		}
	}
	for _, fl := range d.Type.Params.List {
		for _, n := range fl.Names {
			p, ty := param{name: n.Name}, t.text(fl.Type)
			a, isArr := fl.Type.(*ast.ArrayType)
			switch {
			case ty == "*decoder" || ty == "decoder":
				p.kind, g.byValue = "dec", ty == "decoder"
			case ty == "int":
				p.kind = "int"
			case isArr && a.Len == nil && elemSize[t.text(a.Elt)] != 0:
				p.kind, p.elem = "slice", t.text(a.Elt)
			case ty == "*nthDerivativeCoder" || ty == "io.Reader":
				p.kind = "skip"
			default:
				t.fail(fl, "unsupported parameter type %s", ty)
			}
			g.params = append(g.params, p)
		}
	}
	return g
}
func count(l []*stmt) (n int) {
	for _, s := range l {
		n++
		for _, b := range s.blocks {
			n += count(b)
		}
	}
	return
}
func render(w *strings.Builder, l []*stmt, ind string) {
	for i, s := range l {
		comma, cmt := "", "  -- "+s.cmt
		if i < len(l)-1 {
			comma = ","
		}
		w.WriteString(ind + s.text)
		for _, b := range s.blocks {
			if len(b) == 0 {
				w.WriteString(" Stmt.skip")
				continue
			}
			w.WriteString(" (block [" + cmt + "\n")
			cmt = ""
			render(w, b, ind+"  ")
			w.WriteString(ind + "])")
		}
		w.WriteString(s.post + comma + cmt + "\n")
	}
}

func main() {
	repo := flag.String("repo", "", "golang/geo checkout")
	out := flag.String("out", "", "output directory for DecoderIR.lean")
	facts := flag.String("facts", "", "optional facts JSON file")
	flag.Parse()
	if *repo == "" || *out == "" {
		fmt.Fprintln(os.Stderr, "usage: translator_c15 -repo <dir> -out <dir> [-facts <file.json>]")
		os.Exit(2)
	}
	t := &tr{fset: token.NewFileSet(), src: map[string][]byte{}, funcs: map[string]*ast.FuncDecl{}, fns: map[string]*fn{},
		pconst: map[string]*cdef{}, cmemo: map[string]cv{}, under: map[string]string{}, structs: map[string]map[string]string{},
		vids: map[string]int{}, consts: map[string]string{}}
	t.load(filepath.Join(*repo, "s2"))
	for _, q := range targets {
		t.fns[q] = t.mkfn(q)
	}
	for _, q := range targets {
		t.translate(t.fns[q])
	}
	for _, n := range listedConsts {
		if v := t.cval(ast.NewIdent(n), -1, nil); !v.ok {
			fmt.Fprintf(os.Stderr, "translator_c15: cannot resolve constant %s\n", n)
			os.Exit(1)
		}
	}
	intr := map[string]string{}
	for _, q := range []string{"facesIterator.next", "decodeFaces"} {
		if t.funcs[q] == nil {
			fmt.Fprintf(os.Stderr, "translator_c15: function %s not found\n", q)
			os.Exit(1)
		}
		intr[q] = sha(t.source(t.funcs[q]))
	}
	var w strings.Builder
	fmt.Fprintf(&w, "-- GENERATED by translator_c15 from %s — do not edit\n", *repo)
	w.WriteString("-- Intrinsic: `iter.next()` (facesIterator.next) is translated as `lit 1` (true). Assumption: decodeFaces guarantees\n" +
		"--   Σ count ≥ len(target) whenever d.err == nil, so next() returns true; validated by the correspondence check.\n")
	for _, q := range []string{"facesIterator.next", "decodeFaces"} {
		fmt.Fprintf(&w, "--   sha256(%s) = %s\n", q, intr[q])
	}
	w.WriteString("import S2.DecoderIR\nnamespace S2.Generated.DecoderIR\n" +
		"open S2.DecoderIR S2.DecoderIR.Expr S2.DecoderIR.Stmt S2.DecoderIR.Ty S2.DecoderIR.BinOp\n\n-- resolved Go constants (informational)\n")
	cn := []string{}
	for n := range t.consts {
		cn = append(cn, n)
	}
	sort.Strings(cn)
	for _, n := range cn {
		fmt.Fprintf(&w, "def %s : Int := %s\n", n, t.consts[n])
	}
	w.WriteString("\n-- variable table\n")
	for i, n := range t.vnames {
		fmt.Fprintf(&w, "--   %3d = %s\n", i, n)
	}
	w.WriteString("def varNames : List (Nat × String) := [\n")
	for i, n := range t.vnames {
		fmt.Fprintf(&w, "  (%d, %q)%s\n", i, n, map[bool]string{true: ",", false: ""}[i < len(t.vnames)-1])
	}
	w.WriteString("]\n")
	fnFacts := map[string]any{}
	for _, g := range t.order {
		src := t.source(g.decl)
		fnFacts[g.def] = map[string]any{"go": g.qual, "pos": t.where(g.decl), "sha256": sha(src), "stmts": count(g.body), "byValueDecoder": g.byValue}
		fmt.Fprintf(&w, "\n-- %s  func %s  (%d statements)  sha256 %s\ndef %s : Stmt := block [\n", t.where(g.decl), g.qual, count(g.body), sha(src), g.def)
		render(&w, g.body, "  ")
		w.WriteString("]\n")
	}
	w.WriteString("\ndef decoders : List (String × Stmt) := [")
	for i, d := range decoders {
		fmt.Fprintf(&w, "%s(%q, %s_Decode)", map[bool]string{true: ", ", false: ""}[i > 0], d[0], d[1])
	}
	w.WriteString("]\n\nend S2.Generated.DecoderIR\n")
	if err := os.MkdirAll(*out, 0o755); err != nil {
		panic(err)
	}
	if err := os.WriteFile(filepath.Join(*out, "DecoderIR.lean"), []byte(w.String()), 0o644); err != nil {
		panic(err)
	}
	if *facts != "" {
		vn := map[string]int{}
		for i, n := range t.vnames {
			vn[n] = i
		}
		js, _ := json.MarshalIndent(map[string]any{"repo": *repo, "constants": t.consts, "functions": fnFacts, "intrinsics": intr,
			"varNames": vn, "opaque": t.opaques, "opaqueFallbacks": t.notes, "elemSize": elemSize, "newSize": newSize}, "", "  ")
		if err := os.WriteFile(*facts, append(js, '\n'), 0o644); err != nil {
			panic(err)
		}
	}
	for _, g := range t.order {
		fmt.Printf("%-32s %3d statements\n", g.def, count(g.body))
	}
}
