// Command translator_c09 re-reads <repo> (type-checked with go/types, constants evaluated with go/constant exactly
// as the compiler does) and emits Lean definitions, EXPRESSION BY EXPRESSION, of
//
//   - the encoder primitives of s2/encode.go, zig-zag / (pi,qi) / face runs / point compression of
//     s2/pointcompression.go, the N-th derivative coder, bit interleaving, and the encode methods of Point, Cap,
//     Rect, CellID, Cell, CellUnion, Polyline, Loop, Polygon                                   -> CodecFns.lean   (C09)
//   - r3/vector.go, the float functions of s2/stuv.go, piQiToST / facePiQitoXYZ, xyzToFaceSiTi -> StuvFns.lean    (C01, C12, C09)
//   - the parts of s2/cell.go not covered by translator_c19, centerUV / rawPoint / ijLevelToBoundUV -> CellFns.lean (C12)
//   - OrderedCCW, the wedge tests, loop nesting of s2/polygon.go                               -> NestingFns.lean (C07)
//
// into <out>.  lean/S2Proofs/Ties/{C09_Codec,C01_Stuv,C12_Stuv,C12_Cell,C07_Nesting}.lean prove
// `hand-written model function = generated definition`.
//
// Every generated definition is ONE Go function body; a call of another Go function becomes a call of the HAND MODEL
// function that models the callee (table `registry`, fatal if the callee is not registered), and that callee is tied by
// its own theorem.  So the chain "hand = generated body over hand callees" covers the call graph function by function.
//
// Translation rules (uniform; the tables in specs.go only say which Lean type carries which Go type / struct):
//
//	uint8/uint32/uint64, CellID -> UInt8/UInt32/UInt64 (wrap-around + - *, &&& ||| ^^^, `x << c`, `x >> c` for constant c < width)
//	int32                       -> UInt32, its two's complement pattern (the hand model's carrier); `x >> 31` (arithmetic) is the
//	                               sign fill `if x >>> 31 == 1 then 0xFFFFFFFF else 0`; any other signed shift: fatal
//	int, uint, int8, int64      -> Nat  (lengths, levels, faces, versions: non-negative in every translated function; `a - b` is
//	                               truncated subtraction; a negative constant is refused) unless the spec of the variable /
//	                               field says Int (xyzFaceSiTi.level, stToIJ …); `uint64(x)` / `int64(x)` of such a value keeps the
//	                               Nat (value preserving), and + * on these are the exact operations
//	float64, s1.Angle/ChordAngle-> S2.F64 (bit exact soft float): + - * / and unary - by the instances, never re-associated;
//	                               a < b, <=, >, >=, ==, != -> F64.lt/le/gt/ge/feq/fne; math.Sqrt/Floor/Abs -> F64.sqrt/floor/abs;
//	                               constants are folded by go/types and emitted as float64 bit patterns
//	uint32(f), int(f) (f float) -> ((F64.toIntTrunc f) % 4294967296).toNat , F64.toIntTrunc f
//	float64(n)                  -> F64.ofNat n / F64.ofInt n
//	r3.Vector, s2.Point         -> S2.V3 ; other structs by the field tables (checked against the Go declarations)
//	a < b ...  (integers)       -> `decide (a < b)`, the bare proposition when it is the whole condition of an `if`
//	a == b, a != b              -> `a == b`, `a != b`  (F64: feq / fne)
//	x := e / x = e / x op= e    -> `let x := e` (shadowing);  `if c { x = e }` -> `let x := if c then e else x`
//	if c { …return… } rest      -> if c then … else rest
//	switch tag { case k: … }    -> match tag with | k => … | _ => …  (constant cases in source order)
//	switch { case c: … }        -> if c then … else if …
//
// Encoder functions (`e *encoder`): the bytes written are the value.  `e.writeX(a)` / `f(e, …)` / `x.encode(e)` become
// `Bytes` terms concatenated with `++` in statement order; `for _, v := range xs { … }` becomes `(xs.map fun v => …).flatten`;
// `if C { e.err = …; return }` becomes `if C then none else some (…)` (the observable result of a failed encoder is the
// error, whatever was written before); `if e.err != nil { return }` is recorded in the shape string only (the writer of
// the model never fails).  The statement skeleton of every function is emitted as `<F>_shape : String`.
//
// Mutable objects passed by pointer (`*nthDerivativeCoder`) are values threaded through: a call `c.encode(k)` inside an
// expression becomes `let s := coderEnc c k; let c := s.1` before the statement and `s.2` at the place of the call; an
// encoder with such parameters returns (bytes, final objects).  `for i := 0; i < n; i++ { … }` in an encoder is the
// combinator `forWrite`, a range loop that calls a failing encoder and updates a variable is `rangeOptS` (both defined in
// the generated file; their defining equations are what the ties use).
//
// Functions whose state is a map / slice grown by append / array of structs (nthDerivativeCoder.encode/decode, appendFace,
// facesIterator.next, encodePointsCompressed, Polygon.encode, CellFromCellID, Cell.Children, Cell.ContainsPoint,
// ijLevelToBoundUV, the nesting functions, WedgeRelation) are translated BY SKELETON (skel.go, the extractor of
// translator_c19/rest.go): every condition / computed value is a definition `<F>_cond<k>` / `<F>_val<k>` over its atoms,
// `<F>_shape` is the statement structure with these names in place of the expressions, `<F>_atoms` the source text of
// the arguments of every definition (so that `a.f(b)` vs `b.f(a)` or `m[i]` vs `m[i+1]` is visible).  int32 is UInt32
// there as well; the other int kinds are Int.
//
// Anything else inside a function it is asked to translate is a fatal error (exit 1 with file:line).
// Output is a pure function of the source tree (fixed orders, no maps iterated).
//
// usage: translator_c09 -repo /repo -out lean/S2/Generated [-facts facts.json]
package main

import (
	"bytes"
	"crypto/sha256"
	"encoding/json"
	"flag"
	"fmt"
	"go/ast"
	"go/build"
	"go/importer"
	"go/parser"
	"go/printer"
	"go/token"
	"go/types"
	"os"
	"path/filepath"
	"sort"
	"strings"
)

const tool = "translator_c09"

// ---------------------------------------------------------------- loading

const modPrefix = "github.com/golang/geo/"

type loader struct {
	fset *token.FileSet
	repo string
	std  types.Importer
	pk   map[string]*pkgInfo
}

type pkgInfo struct {
	pkg   *types.Package
	info  *types.Info
	files []*ast.File
	names []string
}

func (m *loader) Import(path string) (*types.Package, error) {
	if strings.HasPrefix(path, modPrefix) {
		p, err := m.load(path)
		if err != nil {
			return nil, err
		}
		return p.pkg, nil
	}
	return m.std.Import(path)
}

func (m *loader) load(path string) (*pkgInfo, error) {
	if p, ok := m.pk[path]; ok {
		return p, nil
	}
	dir := filepath.Join(m.repo, strings.TrimPrefix(path, modPrefix))
	ctx := build.Default
	ctx.BuildTags = nil // hooks (`//go:build verif`) are not part of the translated source
	bp, err := ctx.ImportDir(dir, 0)
	if err != nil {
		return nil, err
	}
	pi := &pkgInfo{}
	names := append([]string{}, bp.GoFiles...)
	sort.Strings(names)
	for _, f := range names {
		af, err := parser.ParseFile(m.fset, filepath.Join(dir, f), nil, parser.ParseComments)
		if err != nil {
			return nil, err
		}
		pi.files = append(pi.files, af)
		pi.names = append(pi.names, f)
	}
	pi.info = &types.Info{
		Types:      map[ast.Expr]types.TypeAndValue{},
		Defs:       map[*ast.Ident]types.Object{},
		Uses:       map[*ast.Ident]types.Object{},
		Selections: map[*ast.SelectorExpr]*types.Selection{},
		Scopes:     map[ast.Node]*types.Scope{},
	}
	conf := types.Config{Importer: m}
	pi.pkg, err = conf.Check(path, m.fset, pi.files, pi.info)
	if err != nil {
		return nil, err
	}
	m.pk[path] = pi
	return pi, nil
}

// ---------------------------------------------------------------- errors / helpers

var fset = token.NewFileSet()
var repoRoot string

func relpos(p token.Pos) string {
	pos := fset.Position(p)
	if r, err := filepath.Rel(repoRoot, pos.Filename); err == nil {
		pos.Filename = r
	}
	return fmt.Sprintf("%s:%d:%d", pos.Filename, pos.Line, pos.Column)
}

func relline(p token.Pos) string {
	pos := fset.Position(p)
	if r, err := filepath.Rel(repoRoot, pos.Filename); err == nil {
		pos.Filename = r
	}
	return fmt.Sprintf("%s:%d", pos.Filename, pos.Line)
}

func fatal(p token.Pos, format string, a ...interface{}) {
	fmt.Fprintf(os.Stderr, "%s: %s: %s\n", tool, relpos(p), fmt.Sprintf(format, a...))
	os.Exit(1)
}

func die(format string, a ...interface{}) {
	fmt.Fprintf(os.Stderr, "%s: %s\n", tool, fmt.Sprintf(format, a...))
	os.Exit(1)
}

func src(n ast.Node) string {
	var b bytes.Buffer
	printer.Fprint(&b, fset, n)
	return b.String()
}

func oneLine(n ast.Node) string {
	s := strings.Join(strings.Fields(src(n)), " ")
	s = strings.ReplaceAll(s, "-/", "- /")
	s = strings.ReplaceAll(s, "/-", "/ -")
	return s
}

func sha(s string) string {
	h := sha256.Sum256([]byte(s))
	return fmt.Sprintf("%x", h[:])
}

var reserved = map[string]bool{"at": true, "from": true, "end": true, "fun": true, "show": true, "have": true, "open": true,
	"in": true, "then": true, "else": true, "if": true, "let": true, "do": true, "match": true, "with": true, "def": true,
	"theorem": true, "where": true, "by": true, "this": true, "variable": true, "section": true, "namespace": true, "instance": true,
	"structure": true, "class": true, "deriving": true, "mutual": true, "private": true, "protected": true, "export": true,
	"import": true, "return": true, "for": true, "nomatch": true, "Type": true, "Prop": true, "Sort": true, "decide": true,
	"true": true, "false": true, "some": true, "none": true, "max": true, "min": true, "pi": true}

func leanLocal(name string) string {
	if reserved[name] {
		return name + "'"
	}
	return name
}

func unparen(e ast.Expr) ast.Expr {
	for {
		p, ok := e.(*ast.ParenExpr)
		if !ok {
			return e
		}
		e = p.X
	}
}

type fact struct {
	Name   string `json:"name"`
	Kind   string `json:"kind"`
	Pos    string `json:"pos"`
	Lean   string `json:"lean"`
	Sha256 string `json:"sha256"`
}

// findFunc finds `Name` or `Recv.Name` in the package.
func findFunc(pi *pkgInfo, key string) *ast.FuncDecl {
	recv, name := "", key
	if i := strings.Index(key, "."); i >= 0 {
		recv, name = key[:i], key[i+1:]
	}
	var found *ast.FuncDecl
	for _, f := range pi.files {
		for _, d := range f.Decls {
			fd, ok := d.(*ast.FuncDecl)
			if !ok || fd.Name.Name != name {
				continue
			}
			r := ""
			if fd.Recv != nil && len(fd.Recv.List) == 1 {
				t := fd.Recv.List[0].Type
				if s, ok := t.(*ast.StarExpr); ok {
					t = s.X
				}
				if id, ok := t.(*ast.Ident); ok {
					r = id.Name
				}
			}
			if r != recv {
				continue
			}
			if found != nil {
				die("%s.%s declared twice", pi.pkg.Name(), key)
			}
			found = fd
		}
	}
	if found == nil || found.Body == nil {
		die("function %s.%s not found in %s — the translated source changed shape", pi.pkg.Name(), key, pi.pkg.Path())
	}
	return found
}

func typeKey(t types.Type) string {
	switch v := t.(type) {
	case *types.Named:
		if v.Obj().Pkg() == nil {
			return v.Obj().Name()
		}
		return v.Obj().Pkg().Name() + "." + v.Obj().Name()
	case *types.Basic:
		if v.Kind() == types.Uint8 {
			return "uint8"
		}
		return v.Name()
	case *types.Pointer:
		return "*" + typeKey(v.Elem())
	case *types.Slice:
		return "[]" + typeKey(v.Elem())
	case *types.Array:
		return fmt.Sprintf("[%d]%s", v.Len(), typeKey(v.Elem()))
	}
	return t.String()
}

func funcKey(f *types.Func) string {
	sig := f.Type().(*types.Signature)
	pk := ""
	if f.Pkg() != nil {
		pk = f.Pkg().Name() + "."
	}
	if r := sig.Recv(); r != nil {
		t := r.Type()
		if p, ok := t.(*types.Pointer); ok {
			t = p.Elem()
		}
		if n, ok := t.(*types.Named); ok {
			return pk + n.Obj().Name() + "." + f.Name()
		}
	}
	return pk + f.Name()
}

// ---------------------------------------------------------------- main

func writeFile(dir, name, content string) {
	if err := os.WriteFile(filepath.Join(dir, name), []byte(content), 0o644); err != nil {
		die("%v", err)
	}
}

func main() {
	repo := flag.String("repo", "/repo", "golang/geo checkout")
	outDir := flag.String("out", "", "output directory (lean/S2/Generated)")
	factsPath := flag.String("facts", "", "facts.json to write")
	flag.Parse()
	if *outDir == "" {
		fmt.Fprintln(os.Stderr, "need -out")
		os.Exit(2)
	}
	abs, err := filepath.Abs(*repo)
	if err != nil {
		die("%v", err)
	}
	repoRoot = abs
	ld := &loader{fset: fset, repo: abs, std: importer.ForCompiler(fset, "source", nil), pk: map[string]*pkgInfo{}}
	if err := os.MkdirAll(*outDir, 0o755); err != nil {
		die("%v", err)
	}
	var facts []fact
	files := map[string]string{}
	G := newGen(ld)
	G.checkStructs()
	files["CodecFns.lean"] = genCodec(G)
	files["StuvFns.lean"] = genStuv(G)
	files["CellFns.lean"] = genCell(G)
	files["NestingFns.lean"] = genNesting(G)
	facts = append(facts, G.facts...)
	var names []string
	for n := range files {
		names = append(names, n)
	}
	sort.Strings(names)
	type fileFact struct {
		File   string `json:"file"`
		Sha256 string `json:"sha256"`
	}
	var ff []fileFact
	for _, n := range names {
		writeFile(*outDir, n, files[n])
		ff = append(ff, fileFact{n, sha(files[n])})
	}
	if *factsPath != "" {
		js, _ := json.MarshalIndent(map[string]interface{}{"translator": tool, "files": ff, "items": facts}, "", " ")
		if err := os.WriteFile(*factsPath, append(js, '\n'), 0o644); err != nil {
			die("%v", err)
		}
	}
	fmt.Printf("%s: %d items translated into %d files\n", tool, len(facts), len(names))
}
