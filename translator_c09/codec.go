package main

// Part 1: the codec (C09).  Encoder functions are translated in "writer mode": the value of the function is the byte
// string it writes (see the header of main.go).

import (
	"bytes"
	"fmt"
	"go/ast"
	"go/token"
	"go/types"
	"strings"
)

// item of a writer-mode body, in source order
type witem struct {
	kind string // "let" | "guard" | "chunk" | "optchunk"
	s    string
}

func (e *fenv) isEnc(x ast.Expr) bool {
	id, ok := unparen(x).(*ast.Ident)
	return ok && e.encObj != nil && e.obj(id) == e.encObj
}

// isErrField: `e.err`
func (e *fenv) isErrField(x ast.Expr) bool {
	se, ok := unparen(x).(*ast.SelectorExpr)
	return ok && se.Sel.Name == "err" && e.isEnc(se.X)
}

func isNil(x ast.Expr) bool {
	id, ok := unparen(x).(*ast.Ident)
	return ok && id.Name == "nil"
}

// errCheck: `if e.err != nil { return }`
func (e *fenv) errCheck(s ast.Stmt) bool {
	is, ok := s.(*ast.IfStmt)
	if !ok || is.Init != nil || is.Else != nil || len(is.Body.List) != 1 {
		return false
	}
	b, ok := unparen(is.Cond).(*ast.BinaryExpr)
	if !ok || b.Op != token.NEQ || !e.isErrField(b.X) || !isNil(b.Y) {
		return false
	}
	r, ok := is.Body.List[0].(*ast.ReturnStmt)
	return ok && len(r.Results) == 0
}

// setErr: `e.err = <call>` ; or `if e.err == nil { e.err = <call> }`
func (e *fenv) setErr(s ast.Stmt) bool {
	switch v := s.(type) {
	case *ast.AssignStmt:
		if v.Tok == token.ASSIGN && len(v.Lhs) == 1 && len(v.Rhs) == 1 && e.isErrField(v.Lhs[0]) {
			c, ok := unparen(v.Rhs[0]).(*ast.CallExpr)
			if !ok {
				return false
			}
			k := oneLine(c.Fun)
			return k == "fmt.Errorf" || k == "errors.New"
		}
	case *ast.IfStmt:
		if v.Init != nil || v.Else != nil || len(v.Body.List) != 1 {
			return false
		}
		b, ok := unparen(v.Cond).(*ast.BinaryExpr)
		if !ok || b.Op != token.EQL || !e.isErrField(b.X) || !isNil(b.Y) {
			return false
		}
		return e.setErr(v.Body.List[0])
	}
	return false
}

// errGuard: `if C { e.err = …; return }` (the assignment possibly under `if e.err == nil`); returns C
func (e *fenv) errGuard(s ast.Stmt) (ast.Expr, ast.Stmt, bool) {
	is, ok := s.(*ast.IfStmt)
	if !ok || is.Else != nil || len(is.Body.List) != 2 {
		return nil, nil, false
	}
	if !e.setErr(is.Body.List[0]) {
		return nil, nil, false
	}
	r, ok := is.Body.List[1].(*ast.ReturnStmt)
	if !ok || len(r.Results) != 0 {
		return nil, nil, false
	}
	return is.Cond, is.Init, true
}

// encCall: a call statement whose callee is registered as an encoder (returns Bytes / Option Bytes)
func (e *fenv) encCall(x ast.Expr) (val, bool) {
	c, ok := unparen(x).(*ast.CallExpr)
	if !ok {
		return val{}, false
	}
	if e.tv(c.Fun).IsType() {
		return val{}, false
	}
	v := e.call(c)
	if v.rep != "Bytes" && v.rep != "Option Bytes" {
		fatal(c.Pos(), "call statement of `%s`: the callee does not write (carrier %s)", oneLine(c.Fun), v.rep)
	}
	return v, true
}

// assemble puts the items of a writer body together: lets and guards in source order; the chunks written before a
// later `let` are bound to names first (a later let may shadow a variable they mention).  Returns the prefix
// (lets / guards), the chunk terms, and whether a guard occurred.
func (e *fenv) assemble(p token.Pos, items []witem, allowGuard bool) (string, []string, bool) {
	pre, chunks, opt := "", []string{}, false
	bound := 0
	bindChunks := func() {
		for i := bound; i < len(chunks); i++ {
			*e.tmpN++
			name := fmt.Sprintf("w'%d", *e.tmpN)
			pre += fmt.Sprintf("let %s : Bytes := %s\n", name, chunks[i])
			chunks[i] = name
		}
		bound = len(chunks)
	}
	for _, it := range items {
		switch it.kind {
		case "let":
			bindChunks()
			pre += it.s
		case "guard":
			if !allowGuard {
				fatal(p, "error return inside a nested block of an encoder")
			}
			opt = true
			pre += "if " + it.s + " then none else\n"
		case "chunk":
			chunks = append(chunks, it.s)
		default:
			fatal(p, "%s: call of a failing encoder in this position", it.kind)
		}
	}
	return pre, chunks, opt
}

// chunksOf translates a statement list that only writes (and binds locals) into one Bytes term.
func (e *fenv) chunksOf(list []ast.Stmt, shape *[]string) string {
	var items []witem
	e.writer(list, &items, shape, false)
	pre, chunks, _ := e.assemble(list[0].Pos(), items, false)
	body := "[]"
	if len(chunks) > 0 {
		body = strings.Join(chunks, " ++ ")
	}
	return pre + body
}

func (e *fenv) writer(list []ast.Stmt, items *[]witem, shape *[]string, top bool) {
	for i := 0; i < len(list); i++ {
		s := list[i]
		if e.errCheck(s) {
			*shape = append(*shape, "errcheck")
			continue
		}
		if c, init, ok := e.errGuard(s); ok {
			if !top {
				fatal(s.Pos(), "error return inside a nested block")
			}
			if init != nil {
				l, ok := e.letLike(init)
				if !ok {
					fatal(init.Pos(), "init statement")
				}
				*items = append(*items, witem{"let", l})
			}
			*items = append(*items, witem{"guard", e.cond(c)})
			*shape = append(*shape, "guard")
			continue
		}
		if l, ok := e.letLike(s); ok {
			if l != "" {
				*items = append(*items, witem{"let", l})
				*shape = append(*shape, "let")
			}
			continue
		}
		switch v := s.(type) {
		case *ast.ExprStmt:
			if c, ok := e.encCall(v.X); ok {
				k := "chunk"
				if c.rep == "Option Bytes" {
					k = "optchunk"
				}
				if p := e.flush(); p != "" {
					*items = append(*items, witem{"let", p})
				}
				*items = append(*items, witem{k, c.s})
				*shape = append(*shape, "write")
				continue
			}
		case *ast.ReturnStmt:
			if len(v.Results) == 0 && i == len(list)-1 {
				*shape = append(*shape, "return")
				continue
			}
		case *ast.RangeStmt:
			// for _, v := range xs { writes }  ->  (xs.map fun v => …).flatten
			if v.Key != nil {
				if id, ok := v.Key.(*ast.Ident); !ok || id.Name != "_" {
					fatal(v.Pos(), "range loop with an index variable in an encoder")
				}
			}
			xs := e.expr(v.X)
			if !strings.HasPrefix(xs.rep, "List ") {
				fatal(v.X.Pos(), "range over a value carried by %s", xs.rep)
			}
			if e.rangeState(v, xs, items, shape) {
				continue
			}
			en := e.clone()
			name := "x'"
			if v.Value != nil {
				id := v.Value.(*ast.Ident)
				name = leanLocal(id.Name)
				en.vars[en.obj(id)] = atomv(name, elemRep(xs.rep))
			}
			var sh []string
			body := en.chunksOf(v.Body.List, &sh)
			*shape = append(*shape, "range{"+strings.Join(sh, ";")+"}")
			*items = append(*items, witem{"chunk", "(" + xs.p() + ".map fun " + name + " => " + block(body) + ").flatten"})
			continue
		case *ast.ForStmt:
			if e.forWrite(v, items, shape) {
				continue
			}
		case *ast.IfStmt:
			if v.Init == nil && v.Else == nil {
				c := e.cond(v.Cond)
				var sh []string
				body := e.clone().chunksOf(v.Body.List, &sh)
				*shape = append(*shape, "if{"+strings.Join(sh, ";")+"}")
				*items = append(*items, witem{"chunk", "(if " + c + " then " + block(body) + " else [])"})
				continue
			}
		}
		fatal(s.Pos(), "statement `%s` is outside the translated subset of encoder functions", oneLine(s))
	}
}

// stateVars: the outer variables assigned by plain assignments directly in the statement list
func (e *fenv) stateVars(list []ast.Stmt) []*ast.Ident {
	var ids []*ast.Ident
	seen := map[types.Object]bool{}
	for _, s := range list {
		var lhs []ast.Expr
		switch a := s.(type) {
		case *ast.AssignStmt:
			if a.Tok == token.DEFINE {
				continue
			}
			lhs = a.Lhs
		case *ast.IncDecStmt:
			lhs = []ast.Expr{a.X}
		}
		for _, l := range lhs {
			if id, ok := l.(*ast.Ident); ok {
				if o := e.obj(id); !seen[o] {
					if _, known := e.vars[o]; known {
						seen[o] = true
						ids = append(ids, id)
					}
				}
			}
		}
	}
	return ids
}

// forWrite:  for i := 0; i < N; i++ { writes and updates of outer variables }
//
//	->  let fw := forWrite N s0 (fun i s => (bytes, s'))   ; chunk fw.1 ; the state variables are rebound to fw.2
func (e *fenv) forWrite(v *ast.ForStmt, items *[]witem, shape *[]string) bool {
	init, ok1 := v.Init.(*ast.AssignStmt)
	cond, ok2 := v.Cond.(*ast.BinaryExpr)
	post, ok3 := v.Post.(*ast.IncDecStmt)
	if !ok1 || !ok2 || !ok3 || init.Tok != token.DEFINE || len(init.Lhs) != 1 || cond.Op != token.LSS || post.Tok != token.INC {
		return false
	}
	iv, ok := init.Lhs[0].(*ast.Ident)
	if !ok || oneLine(init.Rhs[0]) != "0" || oneLine(cond.X) != iv.Name || oneLine(post.X) != iv.Name {
		return false
	}
	n := e.exprAs(cond.Y, "Nat")
	ids := e.stateVars(v.Body.List)
	if len(ids) != 1 {
		fatal(v.Pos(), "counted loop with %d state variables in an encoder", len(ids))
	}
	st := e.vars[e.obj(ids[0])]
	en := e.clone()
	en.vars[en.obj(iv)] = atomv(leanLocal(iv.Name), "Nat")
	var its []witem
	var sh []string
	en.writer(v.Body.List, &its, &sh, false)
	pre, chunks, _ := en.assemble(v.Pos(), its, false)
	body := "[]"
	if len(chunks) > 0 {
		body = strings.Join(chunks, " ++ ")
	}
	*e.tmpN++
	fw := fmt.Sprintf("fw'%d", *e.tmpN)
	l := fmt.Sprintf("let %s := forWrite %s %s (fun %s %s =>\n%s)\nlet %s : %s := %s.2\n", fw, n.p(), st.s, leanLocal(iv.Name), st.s,
		indent(pre+"("+body+", "+en.vars[en.obj(ids[0])].s+")", "  "), st.s, st.rep, fw)
	*items = append(*items, witem{"let", l}, witem{"chunk", fw + ".1"})
	*shape = append(*shape, "for{"+strings.Join(sh, ";")+"}")
	return true
}

// rangeState:  for _, x := range xs { <one encoder call> ; updates of outer variables }
//
//	->  rangeOptS xs s0 (fun x s => (value of the call, s'))      (the call may fail: Option Bytes)
func (e *fenv) rangeState(v *ast.RangeStmt, xs val, items *[]witem, shape *[]string) bool {
	ids := e.stateVars(v.Body.List)
	if len(ids) == 0 {
		return false
	}
	if len(ids) != 1 || v.Value == nil {
		fatal(v.Pos(), "range loop with %d state variables in an encoder", len(ids))
	}
	st := e.vars[e.obj(ids[0])]
	en := e.clone()
	id := v.Value.(*ast.Ident)
	en.vars[en.obj(id)] = atomv(leanLocal(id.Name), elemRep(xs.rep))
	var its []witem
	var sh []string
	en.writer(v.Body.List, &its, &sh, false)
	pre, call, kind := "", "", ""
	for _, it := range its {
		switch it.kind {
		case "let":
			pre += it.s
		case "chunk", "optchunk":
			if call != "" || pre != "" {
				fatal(v.Pos(), "range loop with state: one encoder call first, then the updates")
			}
			call, kind = it.s, it.kind
		}
	}
	if kind != "optchunk" {
		fatal(v.Pos(), "range loop with state around a non-failing encoder")
	}
	term := fmt.Sprintf("rangeOptS %s %s (fun %s %s =>\n%s)", xs.p(), st.s, leanLocal(id.Name), st.s,
		indent("let w' := "+call+"\n"+pre+"(w', "+en.vars[en.obj(ids[0])].s+")", "  "))
	*items = append(*items, witem{"optchunk", term})
	*shape = append(*shape, "range{"+strings.Join(sh, ";")+"}")
	return true
}

// encFn emits an encoder function in writer mode.
func (g *gen) encFn(out *strings.Builder, pkg, key, lean string, over map[string]string) {
	e := g.newEnv(pkg, key)
	ps := e.funcParams(over)
	if e.encObj == nil {
		die("%s has no *encoder parameter", key)
	}
	var items []witem
	var shape []string
	e.writer(e.fd.Body.List, &items, &shape, true)
	// a call of a failing encoder in tail position: the bytes written before are prepended to its result
	if n := len(items); n > 0 && items[n-1].kind == "optchunk" {
		pre, chunks, _ := e.assemble(e.fd.Pos(), items[:n-1], true)
		body := items[n-1].s
		if len(chunks) > 0 {
			body = "(" + body + ").map fun b' =>\n" + indent(strings.Join(chunks, " ++\n")+" ++\nb'", "  ")
		}
		def := fmt.Sprintf("def %s%s : Option Bytes :=\n%s\n", lean, sig(ps), indent(pre+body, "  "))
		out.WriteString(docOf(e.fd) + def)
		out.WriteString(fmt.Sprintf("def %s_shape : String := %q\n\n", lean, strings.Join(shape, ";")))
		g.facts = append(g.facts, fact{Name: pkg + "." + key, Kind: "encoder", Pos: relline(e.fd.Pos()), Lean: lean, Sha256: sha(def + strings.Join(shape, ";"))})
		return
	}
	pre, chunks, opt := e.assemble(e.fd.Pos(), items, true)
	body := "[]"
	if len(chunks) > 0 {
		body = strings.Join(chunks, " ++\n")
	}
	ret := "Bytes"
	// mutable objects passed by pointer (the coders): their final state is returned with the bytes
	var stateOut []string
	for _, p := range ps {
		if p.rep == "Coder" {
			stateOut = append(stateOut, p.name)
			ret += " × Coder"
		}
	}
	if len(stateOut) > 0 {
		if opt {
			fatal(e.fd.Pos(), "%s: failing encoder with mutable arguments", key)
		}
		body = "(" + body + ", " + strings.Join(stateOut, ", ") + ")"
	}
	if opt {
		ret = "Option Bytes"
		body = "some (\n" + indent(body, "  ") + ")"
	}
	def := fmt.Sprintf("def %s%s : %s :=\n%s\n", lean, sig(ps), ret, indent(pre+body, "  "))
	out.WriteString(docOf(e.fd) + def)
	out.WriteString(fmt.Sprintf("def %s_shape : String := %q\n\n", lean, strings.Join(shape, ";")))
	g.facts = append(g.facts, fact{Name: pkg + "." + key, Kind: "encoder", Pos: relline(e.fd.Pos()), Lean: lean, Sha256: sha(def + strings.Join(shape, ";"))})
}

// ---------------------------------------------------------------- the primitives of s2/encode.go

var widthOf = map[string]int{"int8": 1, "uint8": 1, "int16": 2, "uint16": 2, "int32": 4, "uint32": 4, "float32": 4,
	"int64": 8, "uint64": 8, "float64": 8}

// primFn translates one `func (e *encoder) writeT(x T)`:
//
//	if e.err != nil { return }                                   -> shape "errcheck"
//	e.err = binary.Write(e.w, binary.LittleEndian, X)            -> leBytes <width of the type of X> <X as its unsigned pattern>
//	_, e.err = e.w.Write([]byte{X})                              -> [X]
//	var buf [binary.MaxVarintLen64]byte ; n := binary.PutUvarint(buf[:], X) ; _, e.err = e.w.Write(buf[:n])
//	                                                             -> putUvarint X.toNat   (encoding/binary is outside the repo)
func (g *gen) primFn(out *strings.Builder, key, lean string) {
	e := g.newEnv("s2", key)
	ps := e.funcParams(map[string]string{"e": "-"})
	var shape, chunks []string
	pre := ""
	list := e.fd.Body.List
	bufObj := types.Object(nil)
	nObj := types.Object(nil)
	nVal := ""
	for i := 0; i < len(list); i++ {
		s := list[i]
		if e.errCheck(s) {
			shape = append(shape, "errcheck")
			continue
		}
		// var buf [binary.MaxVarintLen64]byte
		if ds, ok := s.(*ast.DeclStmt); ok {
			gd := ds.Decl.(*ast.GenDecl)
			if gd.Tok == token.VAR && len(gd.Specs) == 1 {
				vs := gd.Specs[0].(*ast.ValueSpec)
				if len(vs.Names) == 1 && len(vs.Values) == 0 {
					if at, ok := e.obj(vs.Names[0]).Type().(*types.Array); ok && typeKey(at.Elem()) == "uint8" {
						if at.Len() != 10 {
							fatal(s.Pos(), "varint buffer of %d bytes (PutUvarint needs binary.MaxVarintLen64 = 10)", at.Len())
						}
						bufObj = e.obj(vs.Names[0])
						shape = append(shape, "buf[10]")
						continue
					}
				}
			}
		}
		if as, ok := s.(*ast.AssignStmt); ok && len(as.Lhs) == 1 && len(as.Rhs) == 1 {
			if c, ok := unparen(as.Rhs[0]).(*ast.CallExpr); ok {
				switch oneLine(c.Fun) {
				case "binary.PutUvarint":
					// n := binary.PutUvarint(buf[:], x)
					id, ok1 := as.Lhs[0].(*ast.Ident)
					sl, ok2 := unparen(c.Args[0]).(*ast.SliceExpr)
					if as.Tok != token.DEFINE || !ok1 || !ok2 || sl.Low != nil || sl.High != nil || bufObj == nil || e.obj(sl.X.(*ast.Ident)) != bufObj {
						fatal(s.Pos(), "unexpected use of binary.PutUvarint")
					}
					nObj = e.obj(id)
					nVal = "putUvarint " + e.exprAs(c.Args[1], "UInt64").p() + ".toNat"
					shape = append(shape, "putuvarint")
					continue
				case "binary.Write":
					if as.Tok != token.ASSIGN || !e.isErrField(as.Lhs[0]) || len(c.Args) != 3 || oneLine(c.Args[0]) != "e.w" || oneLine(c.Args[1]) != "binary.LittleEndian" {
						fatal(s.Pos(), "unexpected use of binary.Write (writer / byte order)")
					}
					x := c.Args[2]
					tk := typeKey(e.tv(x).Type.Underlying())
					w, ok := widthOf[tk]
					if !ok {
						fatal(x.Pos(), "binary.Write of a %s", tk)
					}
					v := e.expr(x)
					var nat string
					switch v.rep {
					case "Nat":
						nat = v.p()
					case "UInt8", "UInt32", "UInt64":
						nat = v.p() + ".toNat"
					case "F64":
						if w != 8 {
							fatal(x.Pos(), "float of width %d", w)
						}
						nat = v.p() + ".bits.toNat"
					default:
						fatal(x.Pos(), "binary.Write of a value carried by %s", v.rep)
					}
					chunks = append(chunks, fmt.Sprintf("leBytes %d %s", w, nat))
					shape = append(shape, "write")
					continue
				}
			}
		}
		// _, e.err = e.w.Write(ARG)
		if as, ok := s.(*ast.AssignStmt); ok && as.Tok == token.ASSIGN && len(as.Lhs) == 2 && len(as.Rhs) == 1 {
			c, ok := unparen(as.Rhs[0]).(*ast.CallExpr)
			if ok && oneLine(as.Lhs[0]) == "_" && e.isErrField(as.Lhs[1]) && oneLine(c.Fun) == "e.w.Write" && len(c.Args) == 1 {
				switch a := unparen(c.Args[0]).(type) {
				case *ast.CompositeLit:
					if typeKey(e.tv(a).Type) != "[]uint8" {
						fatal(a.Pos(), "Write of a %s", typeKey(e.tv(a).Type))
					}
					var bs []string
					for _, el := range a.Elts {
						bs = append(bs, e.exprAs(el, "UInt8").s)
					}
					chunks = append(chunks, "["+strings.Join(bs, ", ")+"]")
					shape = append(shape, "write")
					continue
				case *ast.SliceExpr:
					// buf[:n]
					if a.Low == nil && a.High != nil && bufObj != nil && e.obj(a.X.(*ast.Ident)) == bufObj {
						if id, ok := a.High.(*ast.Ident); ok && e.obj(id) == nObj {
							chunks = append(chunks, nVal)
							shape = append(shape, "write")
							continue
						}
					}
				}
			}
		}
		if l, ok := e.letLike(s); ok {
			pre += l
			if l != "" {
				shape = append(shape, "let")
			}
			continue
		}
		fatal(s.Pos(), "statement `%s` is outside the translated subset of encoder primitives", oneLine(s))
	}
	if len(chunks) != 1 {
		fatal(e.fd.Pos(), "%s writes %d times", key, len(chunks))
	}
	def := fmt.Sprintf("def %s%s : Bytes :=\n%s\n", lean, sig(ps), indent(pre+chunks[0], "  "))
	out.WriteString(docOf(e.fd) + def)
	out.WriteString(fmt.Sprintf("def %s_shape : String := %q\n\n", lean, strings.Join(shape, ";")))
	g.facts = append(g.facts, fact{Name: "s2." + key, Kind: "encoder primitive", Pos: relline(e.fd.Pos()), Lean: lean, Sha256: sha(def + strings.Join(shape, ";"))})
}

// ---------------------------------------------------------------- the file

func genCodec(g *gen) string {
	var out strings.Builder
	out.WriteString(`/-
  GENERATED by translator_c09 from s2/encode.go, pointcompression.go, nthderivative.go, interleave.go and the encode
  methods of point.go, cap.go, rect.go, cellid.go, cell.go, cellunion.go, polyline.go, loop.go, polygon.go — do not edit.
  Rules: header of translator_c09/main.go.  A call of another Go function is a call of the hand model function of the
  callee (S2.Codec.*); the hand model functions are tied to these definitions in S2Proofs/Ties/C09_Codec.lean.
-/
import S2.Codec
set_option linter.unusedVariables false
namespace S2
namespace Generated
namespace CodecFns
open S2.Codec S2.STUV

/-- ` + "`interleaveLookup[i]`" + ` as a uint64 (the table itself is tied by Ties/C09.lean) -/
def ilLut64 (i : Nat) : UInt64 := UInt64.ofNat (ilLut i)
/-- ` + "`deinterleaveLookup[i]`" + ` as a uint32 -/
def deLut32 (i : Nat) : UInt32 := UInt32.ofNat (deLut i)

/-- a ` + "`Cell`" + ` as far as ` + "`Cell.encode`" + ` reads it: the field ` + "`id`" + ` -/
abbrev CellIdOnly := UInt64

/-- a ` + "`*nthDerivativeCoder`" + `: ` + "`(n, memory[0..m))`" + ` (hand model: the order ` + "`n`" + ` is a separate argument) -/
abbrev Coder := Nat × List UInt32
/-- ` + "`c.encode(k)`" + ` on the object: (new object, result) -/
def coderEnc (c : Coder) (k : UInt32) : Coder × UInt32 :=
  ((c.1, (coderEncode c.1 c.2 k).1), (coderEncode c.1 c.2 k).2)
/-- ` + "`c.decode(k)`" + ` on the object: (new object, result) -/
def coderDec (c : Coder) (k : UInt32) : Coder × UInt32 :=
  ((c.1, (coderDecode c.1 c.2 k).1), (coderDecode c.1 c.2 k).2)

/-- ` + "`for i := 0; i < n; i++ { body }`" + ` in an encoder: body i s = (bytes written, new values of the updated variables) -/
def forWriteAux (f : Nat → σ → Bytes × σ) : Nat → Nat → σ → Bytes × σ
  | 0, _, s => ([], s)
  | k+1, i, s => ((f i s).1 ++ (forWriteAux f k (i + 1) (f i s).2).1, (forWriteAux f k (i + 1) (f i s).2).2)
def forWrite (n : Nat) (s : σ) (f : Nat → σ → Bytes × σ) : Bytes × σ := forWriteAux f n 0 s

/-- ` + "`for _, x := range xs { enc(x, s); s = … }`" + ` around a failing encoder: the error of any iteration is the result -/
def rangeOptS (xs : List α) (s : σ) (f : α → σ → Option Bytes × σ) : Option Bytes :=
  match xs with
  | [] => some []
  | x :: r =>
    match (f x s).1, rangeOptS r (f x s).2 f with
    | some a, some b => some (a ++ b)
    | _, _ => none

/-! ## s2/encode.go: the encoder primitives -/

`)
	for _, k := range []string{"writeUvarint", "writeBool", "writeInt8", "writeInt16", "writeInt32", "writeInt64", "writeUint8",
		"writeUint32", "writeUint64", "writeFloat32", "writeFloat64"} {
		if k == "writeFloat32" {
			continue // float32 has no carrier; not used by any encoder (a use is a fatal error: not registered)
		}
		g.primFn(&out, "encoder."+k, "encoder_"+k)
	}
	out.WriteString("/-! ## s2/pointcompression.go, s2/interleave.go: scalar coders -/\n\n")
	g.pureFn(&out, "s2", "zigzagEncode", "zigzagEncode", nil, []string{"UInt32"})
	g.pureFn(&out, "s2", "zigzagDecode", "zigzagDecode", nil, []string{"UInt32"})
	g.pureFn(&out, "s2", "interleaveUint32", "interleaveUint32", nil, []string{"UInt64"})
	g.pureFn(&out, "s2", "deinterleaveUint32", "deinterleaveUint32", nil, []string{"UInt32", "UInt32"})
	out.WriteString("/-! ## type encoders -/\n\n")
	enc := map[string]string{"e": "-"}
	g.encFn(&out, "s2", "Point.encode", "Point_encode", enc)
	g.encFn(&out, "s2", "Cap.encode", "Cap_encode", enc)
	g.encFn(&out, "s2", "Rect.encode", "Rect_encode", enc)
	g.encFn(&out, "s2", "CellID.encode", "CellID_encode", enc)
	g.encFn(&out, "s2", "CellUnion.encode", "CellUnion_encode", enc)
	g.encFn(&out, "s2", "Polyline.encode", "Polyline_encode", enc)
	g.encFn(&out, "s2", "Loop.encode", "Loop_encode", enc)
	g.encFn(&out, "s2", "Cell.encode", "Cell_encode", map[string]string{"e": "-", "c": "CellIdOnly"})
	g.pureFn(&out, "s2", "Loop.compressedEncodingProperties", "Loop_compressedEncodingProperties", nil, []string{"Nat"})
	g.encFn(&out, "s2", "Loop.encodeCompressed", "Loop_encodeCompressed", enc)
	g.encFn(&out, "s2", "Polygon.encodeLossless", "Polygon_encodeLossless", enc)
	g.encFn(&out, "s2", "Polygon.encodeCompressed", "Polygon_encodeCompressed", enc)
	out.WriteString("/-! ## s2/pointcompression.go: point lists -/\n\n")
	g.encFn(&out, "s2", "encodeFaceRun", "encodeFaceRun", enc)
	g.encFn(&out, "s2", "encodeFaces", "encodeFaces", enc)
	pq := map[string]string{"e": "-", "pi": "Nat", "qi": "Nat", "piCoder": "Coder", "qiCoder": "Coder"}
	g.encFn(&out, "s2", "encodePointCompressed", "encodePointCompressed", pq)
	g.encFn(&out, "s2", "encodeFirstPointFixedLength", "encodeFirstPointFixedLength", pq)
	out.WriteString("/-! ## skeletons (conditions, values, statement structure) of the functions with loops over mutable state -/\n\n")
	sk := &skel{pi: g.pkgs["s2"], out: &bytes.Buffer{}, ns: "CodecFns", known: map[string]knownFn{}, strict: false}
	for _, k := range [][2]string{{"newNthDerivativeCoder", "newNthDerivativeCoder"}, {"nthDerivativeCoder.encode", "coder_encode"},
		{"nthDerivativeCoder.decode", "coder_decode"}, {"appendFace", "appendFace"}, {"facesIterator.next", "facesIterator_next"},
		{"encodePointsCompressed", "encodePointsCompressed"}, {"Loop.xyzFaceSiTiVertices", "xyzFaceSiTiVertices"},
		{"Polygon.encode", "Polygon_encode"}} {
		sk.extract(k[0], k[1])
	}
	out.Write(sk.out.Bytes())
	g.facts = append(g.facts, sk.facts...)
	out.WriteString("end CodecFns\nend Generated\nend S2\n")
	return out.String()
}
