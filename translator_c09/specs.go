package main

// Tables: which Lean type ("carrier") stands for which Go type / struct / function.  They say nothing about the
// function bodies; those are read from the Go source on every run.

// Go type -> carrier
var typeReps = map[string]string{
	"uint8": "UInt8", "byte": "UInt8", "uint32": "UInt32", "uint64": "UInt64", "s2.CellID": "UInt64",
	"int32": "UInt32",
	"int":   "Nat", "uint": "Nat", "int8": "Nat", "int16": "Nat", "int64": "Nat", "r3.Axis": "Nat",
	"untyped int": "Nat",
	"float64":     "F64", "s1.Angle": "F64", "s1.ChordAngle": "F64", "untyped float": "F64",
	"bool": "Bool", "untyped bool": "Bool", "s2.Direction": "Int",
	"s2.Point": "V3", "r3.Vector": "V3",
	"s2.xyzFaceSiTi": "XFST", "s2.faceRun": "Nat × Nat",
	"s2.Rect": "RectM", "s2.Cap": "CapM", "s2.Loop": "LoopM", "s2.Polygon": "PolygonM",
	"s2.CellUnion": "List UInt64", "s2.Polyline": "List V3",
	"s2.encoder": "-", "s2.nthDerivativeCoder": "Coder",
	"s2.Cell": "Cell", "r2.Rect": "R2", "r1.Interval": "F64 × F64", "r2.Point": "F64 × F64",
}

// carrier -> Go field path -> (Lean projection, carrier of the field); "" = transparent (embedded struct)
var fieldReps = map[string]map[string][2]string{
	"V3":         {"X": {"x", "F64"}, "Y": {"y", "F64"}, "Z": {"z", "F64"}, "Vector": {"", "V3"}},
	"XFST":       {"xyz": {"xyz", "V3"}, "face": {"face", "Nat"}, "si": {"si", "Nat"}, "ti": {"ti", "Nat"}, "level": {"level", "Int"}},
	"Nat × Nat":  {"face": {"1", "Nat"}, "count": {"2", "Nat"}},
	"CellIdOnly": {"id": {"", "UInt64"}},
	"PiQi":       {"pi": {"1", "Nat"}, "qi": {"2", "Nat"}},
	"RectM":      {"Lat.Lo": {"latLo", "F64"}, "Lat.Hi": {"latHi", "F64"}, "Lng.Lo": {"lngLo", "F64"}, "Lng.Hi": {"lngHi", "F64"}},
	"CapM":       {"center": {"center", "V3"}, "radius": {"radius", "F64"}},
	"LoopM": {"vertices": {"vertices", "List V3"}, "originInside": {"originInside", "Bool"}, "depth": {"depth", "Nat"},
		"bound": {"bound", "RectM"}},
	"PolygonM": {"loops": {"loops", "List LoopM"}, "hasHoles": {"hasHoles", "Bool"}, "bound": {"bound", "RectM"},
		"numVertices": {"numVertices", "Nat"}},
	"Cell": {"face": {"face", "Nat"}, "level": {"level", "Nat"}, "orientation": {"orientation", "Nat"}, "id": {"id", "UInt64"},
		"uv": {"uv", "R2"}},
	"R2":        {"X": {"1", "F64 × F64"}, "Y": {"2", "F64 × F64"}},
	"F64 × F64": {"Lo": {"1", "F64"}, "Hi": {"2", "F64"}},
}

type structCheck struct {
	gotype string
	lean   string
	exact  bool // the Go struct has exactly these fields in this order
	fields [][2]string
}

var structChecks = []structCheck{
	{"r3.Vector", "S2.V3", true, [][2]string{{"X", "float64"}, {"Y", "float64"}, {"Z", "float64"}}},
	{"s2.Point", "S2.V3", true, [][2]string{{"Vector", "r3.Vector"}}},
	{"s2.xyzFaceSiTi", "S2.Codec.XFST", true, [][2]string{{"xyz", "s2.Point"}, {"face", "int"}, {"si", "uint32"}, {"ti", "uint32"}, {"level", "int"}}},
	{"s2.faceRun", "Nat × Nat", true, [][2]string{{"face", "int"}, {"count", "int"}}},
	{"r1.Interval", "F64 × F64", true, [][2]string{{"Lo", "float64"}, {"Hi", "float64"}}},
	{"s1.Interval", "F64 × F64", true, [][2]string{{"Lo", "float64"}, {"Hi", "float64"}}},
	{"s2.Rect", "S2.Codec.RectM", true, [][2]string{{"Lat", "r1.Interval"}, {"Lng", "s1.Interval"}}},
	{"s2.Cap", "S2.Codec.CapM", true, [][2]string{{"center", "s2.Point"}, {"radius", "s1.ChordAngle"}}},
	{"s2.Loop", "S2.Codec.LoopM", false, [][2]string{{"vertices", "[]s2.Point"}, {"originInside", "bool"}, {"depth", "int"}, {"bound", "s2.Rect"}}},
	{"s2.Polygon", "S2.Codec.PolygonM", false, [][2]string{{"loops", "[]*s2.Loop"}, {"hasHoles", "bool"}, {"bound", "s2.Rect"}, {"numVertices", "int"}}},
	{"s2.encoder", "(bytes written)", true, [][2]string{{"w", "io.Writer"}, {"err", "error"}}},
	{"s2.nthDerivativeCoder", "S2.Generated.CodecFns.Coder", true, [][2]string{{"n", "int"}, {"m", "int"}, {"memory", "[10]int32"}}},
}

type compositeSpec struct {
	rep         string
	transparent bool
	open, close string
	fields      [][2]string // Go field name, carrier
}

var compositeReps = map[string]compositeSpec{
	"s2.Point":   {rep: "V3", transparent: true},
	"r2.Point":   {rep: "F64 × F64", open: "(", close: ")", fields: [][2]string{{"X", "F64"}, {"Y", "F64"}}},
	"r3.Vector":  {rep: "V3", open: "(⟨", close: "⟩ : V3)", fields: [][2]string{{"X", "F64"}, {"Y", "F64"}, {"Z", "F64"}}},
	"s2.faceRun": {rep: "Nat × Nat", open: "(", close: ")", fields: [][2]string{{"face", "Nat"}, {"count", "Nat"}}},
}

// package-level variables: (Lean term, carrier)
var globalVars = map[string][2]string{
	"s2.interleaveLookup":   {"ilLut64", "Table"},
	"s2.deinterleaveLookup": {"deLut32", "Table"},
}

// tables indexed by a Nat: Lean function, carrier of the entries
var tableReps = map[string][2]string{
	"ilLut64": {"ilLut64", "UInt64"},
	"deLut32": {"deLut32", "UInt32"},
}

// carriers with a dedicated equality
var eqReps = map[string]string{"V3": "V3.feq"}

var zeroOf = map[string]string{"Nat": "0", "Int": "0", "UInt8": "0", "UInt32": "0", "UInt64": "0", "Bool": "false",
	"F64": "(⟨0x0000000000000000⟩ : F64)"}

// carriers of local variables that differ from the default of their Go type: "pkg.Func.var"
var localReps = map[string]string{
	"s2.Loop.compressedEncodingProperties.properties": "Nat",
}

// Go function -> model function.  params: receiver first; "-" = the *encoder (dropped); "Nat/low" = a Nat whose
// low bits are written by the callee (an outer narrowing conversion `int32(x)` / `int64(x)` of a Nat is dropped
// because the model function reduces modulo the width itself); "Bits" = float64 as its IEEE bit pattern.
var registry = map[string]fnSpec{
	// encoder primitives as used by the type encoders (hand model: S2/Codec/Prim.lean)
	"s2.encoder.writeUvarint": {lean: "S2.Codec.putUvarint", params: []string{"-", "Nat"}, ret: "Bytes"},
	"s2.encoder.writeBool":    {lean: "S2.Codec.writeBool", params: []string{"-", "Bool"}, ret: "Bytes"},
	"s2.encoder.writeInt8":    {lean: "S2.Codec.writeInt8", params: []string{"-", "Nat"}, ret: "Bytes"},
	"s2.encoder.writeInt32":   {lean: "S2.Codec.writeInt32OfNat", params: []string{"-", "Nat/low"}, ret: "Bytes"},
	"s2.encoder.writeInt64":   {lean: "S2.Codec.writeInt64OfNat", params: []string{"-", "Nat/low"}, ret: "Bytes"},
	"s2.encoder.writeUint8":   {lean: "S2.Codec.writeUint8", params: []string{"-", "UInt8"}, ret: "Bytes"},
	"s2.encoder.writeUint32":  {lean: "S2.Codec.writeUint32", params: []string{"-", "UInt32"}, ret: "Bytes"},
	"s2.encoder.writeUint64":  {lean: "S2.Codec.writeUint64", params: []string{"-", "UInt64"}, ret: "Bytes"},
	"s2.encoder.writeFloat64": {lean: "S2.Codec.writeFloat64Bits", params: []string{"-", "Bits"}, ret: "Bytes"},
	// type encoders (hand model: S2/Codec/Types.lean)
	"s2.Rect.encode":                       {lean: "S2.Codec.encodeRect", params: []string{"RectM", "-"}, ret: "Bytes"},
	"s2.CellID.encode":                     {lean: "S2.Codec.encodeCellID", params: []string{"UInt64", "-"}, ret: "Bytes"},
	"s2.Loop.encode":                       {lean: "S2.Codec.encodeLoop", params: []string{"LoopM", "-"}, ret: "Bytes"},
	"s2.Loop.compressedEncodingProperties": {lean: "S2.Codec.compressedProps", params: []string{"LoopM"}, ret: "Nat"},
	"s2.Loop.encodeCompressed":             {lean: "S2.Codec.encodeLoopCompressed", params: []string{"LoopM", "-", "Nat", "List XFST"}, ret: "Option Bytes"},
	"s2.Loop.xyzFaceSiTiVertices":          {lean: "S2.Codec.xyzFaceSiTiVerticesL", params: []string{"LoopM"}, ret: "List XFST"},
	"s2.Polygon.encodeCompressed":          {lean: "S2.Codec.encodePolygonCompressed", params: []string{"PolygonM", "-", "Nat", "List XFST"}, ret: "Option Bytes"},
	"s2.Polygon.encodeLossless":            {lean: "S2.Codec.encodePolygonLossless", params: []string{"PolygonM", "-"}, ret: "Option Bytes"},
	// point compression (hand model: S2/Codec/Points.lean)
	"s2.encodeFaces":               {lean: "S2.Codec.encodeFaces", params: []string{"-", "List (Nat × Nat)"}, ret: "Bytes"},
	"s2.encodeFaceRun":             {lean: "S2.Codec.encodeFaceRun", params: []string{"-", "Nat × Nat"}, ret: "Bytes"},
	"s2.encodePointsCompressed":    {lean: "S2.Codec.encodePointsCompressed", params: []string{"-", "List XFST", "Nat"}, ret: "Bytes"},
	"s2.appendFace":                {lean: "S2.Codec.appendFace", params: []string{"List (Nat × Nat)", "Nat"}, ret: "List (Nat × Nat)"},
	"s2.siTitoPiQi":                {lean: "S2.Codec.siTiToPiQi", params: []string{"Nat", "Nat"}, ret: "Nat"},
	"s2.zigzagEncode":              {lean: "S2.Codec.zigzagEncode", params: []string{"UInt32"}, ret: "UInt32"},
	"s2.zigzagDecode":              {lean: "S2.Codec.zigzagDecode", params: []string{"UInt32"}, ret: "UInt32"},
	"s2.interleaveUint32":          {lean: "S2.Codec.interleaveUint32", params: []string{"UInt32", "UInt32"}, ret: "UInt64"},
	"s2.deinterleaveUint32":        {lean: "S2.Codec.deinterleaveUint32", params: []string{"UInt64"}, ret: "UInt32 × UInt32", parts: []string{"UInt32", "UInt32"}},
	"s2.piQiToST":                  {lean: "S2.Codec.piQiToST", params: []string{"Nat", "Nat"}, ret: "F64"},
	"s2.findLSBSetNonZero64":       {lean: "S2.CellID.trailingZeros", params: []string{"UInt64"}, ret: "Nat"},
	"s2.nthDerivativeCoder.encode": {lean: "coderEnc", params: []string{"Coder", "UInt32"}, ret: "UInt32", state: true},
	"s2.nthDerivativeCoder.decode": {lean: "coderDec", params: []string{"Coder", "UInt32"}, ret: "UInt32", state: true},
	// stuv.go / r3 (hand model: S2/STUV.lean)
	"s2.stToUV":                  {lean: "S2.STUV.stToUV", params: []string{"F64"}, ret: "F64"},
	"s2.uvToST":                  {lean: "S2.STUV.uvToST", params: []string{"F64"}, ret: "F64"},
	"s2.siTiToST":                {lean: "S2.STUV.siTiToST", params: []string{"Nat"}, ret: "F64"},
	"s2.stToSiTi":                {lean: "S2.STUV.stToSiTi", params: []string{"F64"}, ret: "Nat"},
	"s2.face":                    {lean: "S2.STUV.face", params: []string{"V3"}, ret: "Nat"},
	"s2.validFaceXYZToUV":        {lean: "S2.STUV.validFaceXYZToUV", params: []string{"Nat", "V3"}, ret: "F64 × F64", parts: []string{"F64", "F64"}},
	"s2.xyzToFaceUV":             {lean: "S2.STUV.xyzToFaceUV", params: []string{"V3"}, ret: "Nat × F64 × F64", parts: []string{"Nat", "F64", "F64"}},
	"s2.faceUVToXYZ":             {lean: "S2.STUV.faceUVToXYZ", params: []string{"Nat", "F64", "F64"}, ret: "V3"},
	"s2.faceSiTiToXYZ":           {lean: "S2.STUV.faceSiTiToXYZ", params: []string{"Nat", "Nat", "Nat"}, ret: "V3"},
	"s2.clampInt":                {lean: "S2.STUV.clampInt", params: []string{"Int", "Int", "Int"}, ret: "Int"},
	"r3.Vector.LargestComponent": {lean: "S2.V3.largestComponent", params: []string{"V3"}, ret: "Nat"},
	"r3.Vector.Normalize":        {lean: "S2.V3.normalize", params: []string{"V3"}, ret: "V3"},
	"r3.Vector.Abs":              {lean: "S2.V3.abs", params: []string{"V3"}, ret: "V3"},
	"r3.Vector.Norm2":            {lean: "S2.V3.norm2", params: []string{"V3"}, ret: "F64"},
	"r3.Vector.Norm":             {lean: "S2.V3.norm", params: []string{"V3"}, ret: "F64"},
	"r3.Vector.Dot":              {lean: "S2.V3.dot", params: []string{"V3", "V3"}, ret: "F64"},
	"r3.Vector.Cross":            {lean: "S2.V3.cross", params: []string{"V3", "V3"}, ret: "V3"},
	"r3.Vector.Mul":              {lean: "S2.V3.mul", params: []string{"V3", "F64"}, ret: "V3"},
	"r3.Vector.Add":              {lean: "S2.V3.add", params: []string{"V3", "V3"}, ret: "V3"},
	"r3.Vector.Sub":              {lean: "S2.V3.sub", params: []string{"V3", "V3"}, ret: "V3"},
	// cell.go / cellid.go (hand model: S2/CellM.lean, S2/CellID.lean, S2/Hilbert.lean)
	"s2.uNorm":                 {lean: "S2.CellM.uNorm", params: []string{"Nat", "F64"}, ret: "V3"},
	"s2.vNorm":                 {lean: "S2.CellM.vNorm", params: []string{"Nat", "F64"}, ret: "V3"},
	"s2.faceXYZtoUVW":          {lean: "S2.CellM.faceXYZtoUVW", params: []string{"Nat", "V3"}, ret: "V3"},
	"s2.Cell.EdgeRaw":          {lean: "S2.CellM.edgeRaw", params: []string{"Cell", "Nat"}, ret: "V3"},
	"s2.Cell.VertexRaw":        {lean: "S2.CellM.vertexRaw", params: []string{"Cell", "Nat"}, ret: "V3"},
	"s2.Cell.vertexChordDist2": {lean: "S2.CellM.vertexChordDist2", params: []string{"Cell", "V3", "Bool", "Bool"}, ret: "F64"},
	"s2.Cell.distanceInternal": {lean: "S2.CellM.distanceInternal", params: []string{"Cell", "V3", "Bool"}, ret: "F64"},
	"s2.Cell.Distance":         {lean: "S2.CellM.distance", params: []string{"Cell", "V3"}, ret: "F64"},
	"s2.maxChordAngle":         {lean: "S2.CellM.maxChord", params: []string{"F64", "F64"}, ret: "F64", variadic: true},
	"s2.minChordAngle":         {lean: "S2.CellM.minChord", params: []string{"F64", "F64"}, ret: "F64", variadic: true},
	"s2.CellFromCellID":        {lean: "S2.CellM.cellFromCellID", params: []string{"UInt64"}, ret: "Cell"},
	"s2.cellIDFromPoint":       {lean: "S2.STUV.cellIDFromPoint", params: []string{"V3"}, ret: "UInt64"},
	"s2.CellID.rawPoint":       {lean: "S2.CellM.rawPoint", params: []string{"UInt64"}, ret: "V3"},
	"s2.CellID.Intersects":     {lean: "S2.CellID.intersects", params: []string{"UInt64", "UInt64"}, ret: "Bool"},
	"s2.CellID.Contains":       {lean: "S2.CellID.contains", params: []string{"UInt64", "UInt64"}, ret: "Bool"},
	"s2.CellID.faceSiTi":       {lean: "S2.Hilbert.faceSiTi", params: []string{"UInt64"}, ret: "Nat × Nat × Nat", parts: []string{"Nat", "Nat", "Nat"}},
	// abstract exact geometry (hand model: S2/Relate.lean, generic over the point type α with G : Geo α)
	"s2.OrderedCCW":    {lean: "S2.Relate.orderedCCW G", params: []string{"α", "α", "α", "α"}, ret: "Bool"},
	"s2.RobustSign":    {lean: "G.sg", params: []string{"α", "α", "α"}, ret: "Int"},
	"math.Sqrt":        {lean: "S2.F64.sqrt", params: []string{"F64"}, ret: "F64"},
	"math.Floor":       {lean: "S2.F64.floor", params: []string{"F64"}, ret: "F64"},
	"math.Abs":         {lean: "S2.F64.abs", params: []string{"F64"}, ret: "F64"},
	"math.Float64bits": {lean: "S2.F64.bits", params: []string{"F64"}, ret: "UInt64"},
}
