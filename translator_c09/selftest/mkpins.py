import re,sys
# usage: mkpins.py <generated file> <ns> kinds(name,...)  -> prints shape_/atoms_ theorems with the current literals
f,ns=sys.argv[1],sys.argv[2]
names=sys.argv[3:]
s=open(f).read()
for n in names:
    for kind in ("shape","atoms"):
        m=re.search(r"def %s_%s : String :=\n  (\".*\")\n"%(re.escape(n),kind),s)
        if not m: continue
        if kind=="atoms" and m.group(1)=='""': continue
        print("theorem %s_%s : %s.%s_%s =\n    %s := rfl"%(kind,n,ns,n,kind,m.group(1)))
