module translator_c09

go 1.21
