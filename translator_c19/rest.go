package main

// Skeleton extraction (parts 2-4: coverer, query options, cell distance).
//
// The control flow of these functions (pointer receivers, slices grown by append, loops with break/continue, calls
// into float geometry) is outside what can be turned into a Lean function expression by expression.  They are
// translated "by skeleton": for a function F
//
//   * every `if` / `for` condition becomes   def F_cond<k> (atoms…) : Bool
//   * every other computational expression of kind int / uint64 / bool / float64 (right-hand sides, returned values,
//     call arguments, composite-literal fields, closure results) becomes   def F_val<k> (atoms…) : T
//   * what remains — the statement structure with every extracted expression replaced by its name — becomes the
//     string  F_shape.
//
// An ATOM is a maximal sub-expression that is not arithmetic/logic: a local, a field chain (`c.minLevel`), an element
// (`covering[i]`), `len(x)`, a call of an untranslated function (`c.region.IntersectsCell(cell)`), `x == nil`.
// Atoms become the parameters of the definition, in order of first occurrence, named after their source text; the
// same text inside one expression is one parameter.  The tie file instantiates them with the hand model's values.
//
//	int kinds (int, uint, int8 … except uint64) -> Int   (+ - * exact; / % truncate = Int.tdiv / Int.tmod;
//	                                 a << s = a * 2^s; conversions between int kinds are the identity: all
//	                                 quantities here are levels, counts and small shifts, nothing overflows)
//	uint64, CellID                -> UInt64
//	float64, s1.ChordAngle, s1.Angle -> S2.F64 (soft-float): F64.add/sub/mul/div/neg, F64.lt/le (a > b is F64.lt b a),
//	                                 F64.feq; constants are folded by go/types and written as bit patterns
//	a < b …                       -> decide (a < b) ;  == != -> == != ;  && || ! -> && || !
//	maxInt / minInt / c.adjustLevel (translated in full, see fullFn) -> calls of the generated definitions
//
// Every edit of a translated function therefore changes a cond/val definition or the shape string, and a tie
// theorem that mentions it stops to hold.

import (
	"bytes"
	"fmt"
	"go/ast"
	"go/constant"
	"go/token"
	"go/types"
	"math"
	"strings"
)

type skel struct {
	pi     *pkgInfo
	out    *bytes.Buffer
	ns     string
	facts  []fact
	known  map[string]knownFn // funcKey -> fully translated function
	strict bool               // a condition outside the subset is fatal (otherwise its text stays in the shape)
	exprs  bool               // also emit F_exprs: the source text of every extracted condition / value (pins the atoms, i.e.
	// the ARGUMENTS of the untranslated calls that a cond/val definition only sees as a parameter)
}

type knownFn struct {
	lean     string
	extra    []string // atoms (source text) that follow the Go arguments
	variadic bool     // f(x, others...) : the arguments after the first are passed as a list
}

type atom struct {
	text string // normalised source text
	name string
	kind string
}

type atomSet struct {
	list []atom
}

func (a *atomSet) get(text, kind string) string {
	for _, x := range a.list {
		if x.text == text {
			if x.kind != kind {
				die("internal: atom %s with kinds %s and %s", text, x.kind, kind)
			}
			return x.name
		}
	}
	name := sanitize(text)
	for clash := true; clash; {
		clash = false
		for _, x := range a.list {
			if x.name == name {
				name += "'"
				clash = true
			}
		}
	}
	a.list = append(a.list, atom{text, name, kind})
	return name
}

func (a *atomSet) params() string {
	var ps []string
	for _, x := range a.list {
		ps = append(ps, fmt.Sprintf(" (%s : %s)", x.name, x.kind))
	}
	return strings.Join(ps, "")
}

func sanitize(s string) string {
	var b strings.Builder
	last := byte('_')
	for i := 0; i < len(s); i++ {
		c := s[i]
		ok := c == '_' || (c >= '0' && c <= '9') || (c >= 'a' && c <= 'z') || (c >= 'A' && c <= 'Z')
		if !ok {
			c = '_'
		}
		if c == '_' && last == '_' {
			continue
		}
		b.WriteByte(c)
		last = c
	}
	r := strings.Trim(b.String(), "_")
	if r == "" || (r[0] >= '0' && r[0] <= '9') {
		r = "x" + r
	}
	if reserved[r] || r == "level" && false {
		r += "'"
	}
	return r
}

func kindOfType(t types.Type) string {
	if t == nil {
		return ""
	}
	if b, ok := t.Underlying().(*types.Basic); ok {
		switch b.Kind() {
		case types.Int, types.Int8, types.Int16, types.Int32, types.Int64, types.Uint, types.Uint8, types.Uint16, types.Uint32, types.UntypedInt, types.UntypedRune:
			return "Int"
		case types.Uint64:
			return "UInt64"
		case types.Bool, types.UntypedBool:
			return "Bool"
		case types.Float64, types.UntypedFloat:
			return "F64"
		}
	}
	return ""
}

type xenv struct {
	s     *skel
	atoms *atomSet
	ok    bool // false once something outside the subset was met (only used in tentative mode)
	soft  bool // tentative: do not abort, set ok = false
	why   string
}

func (e *xenv) fail(p token.Pos, format string, a ...interface{}) string {
	if e.soft {
		if e.ok {
			e.why = fmt.Sprintf(format, a...)
		}
		e.ok = false
		return "?"
	}
	fatal(p, format, a...)
	return ""
}

func (e *xenv) typ(x ast.Expr) types.Type {
	if tv, ok := e.s.pi.info.Types[x]; ok {
		return tv.Type
	}
	if id, ok := x.(*ast.Ident); ok {
		if o := e.s.pi.info.Uses[id]; o != nil {
			return o.Type()
		}
		if o := e.s.pi.info.Defs[id]; o != nil {
			return o.Type()
		}
	}
	return nil
}

func (e *xenv) kind(x ast.Expr) string { return kindOfType(e.typ(x)) }

func (e *xenv) atomOf(x ast.Expr) string {
	k := e.kind(x)
	if k == "" {
		return e.fail(x.Pos(), "`%s` has type %v, which is outside the translated subset", oneLine(x), e.typ(x))
	}
	return e.atoms.get(oneLine(x), k)
}

func litOf(p token.Pos, v constant.Value, k string) string {
	switch k {
	case "Bool":
		if constant.BoolVal(v) {
			return "true"
		}
		return "false"
	case "Int":
		iv := constant.ToInt(v)
		if iv.Kind() != constant.Int {
			fatal(p, "non-integral constant of integer kind")
		}
		s := iv.ExactString()
		if strings.HasPrefix(s, "-") {
			return "(" + s + ")"
		}
		return s
	case "UInt64":
		iv := constant.ToInt(v)
		u, ok := constant.Uint64Val(iv)
		if !ok {
			fatal(p, "constant does not fit uint64")
		}
		return fmt.Sprintf("(0x%x : UInt64)", u)
	case "F64":
		return fmt.Sprintf("(⟨0x%016x⟩ : F64)", f64bits(p, v))
	}
	fatal(p, "constant of unsupported kind")
	return ""
}

func isNilExpr(e *xenv, x ast.Expr) bool {
	tv, ok := e.s.pi.info.Types[unparen(x)]
	return ok && tv.IsNil()
}

// x translates an expression; the result is a Lean term of kind e.kind(x).
func (e *xenv) x(x ast.Expr) string {
	x = unparen(x)
	if tv, ok := e.s.pi.info.Types[x]; ok && tv.Value != nil {
		k := kindOfType(tv.Type)
		if k == "" {
			return e.fail(x.Pos(), "constant `%s` of type %v is outside the translated subset", oneLine(x), tv.Type)
		}
		return litOf(x.Pos(), tv.Value, k)
	}
	switch v := x.(type) {
	case *ast.UnaryExpr:
		switch {
		case v.Op == token.NOT:
			return "!" + atomize(e.x(v.X))
		case v.Op == token.SUB && e.kind(v.X) == "Int":
			return "-" + atomize(e.x(v.X))
		case v.Op == token.SUB && e.kind(v.X) == "F64":
			return "F64.neg " + atomize(e.x(v.X))
		}
		return e.fail(v.Pos(), "unary %s in `%s` is outside the translated subset", v.Op, oneLine(v))
	case *ast.BinaryExpr:
		return e.binary(v)
	case *ast.CallExpr:
		if ftv, ok := e.s.pi.info.Types[v.Fun]; ok && ftv.IsType() {
			if len(v.Args) == 1 && e.kind(v.Args[0]) != "" && kindOfType(ftv.Type) == e.kind(v.Args[0]) {
				return e.x(v.Args[0]) // conversion inside one kind
			}
			return e.atomOf(x)
		}
		if fn := e.s.calleeOf(v); fn != nil {
			if kf, ok := e.s.known[funcKey(fn)]; ok {
				var args []string
				for _, a := range v.Args {
					args = append(args, atomize(e.x(a)))
				}
				recv := ""
				if sel, ok := unparen(v.Fun).(*ast.SelectorExpr); ok {
					if _, isSel := e.s.pi.info.Selections[sel]; isSel {
						recv = oneLine(sel.X)
					}
				}
				if kf.variadic {
					if v.Ellipsis != token.NoPos || len(args) < 1 {
						return e.fail(v.Pos(), "call shape of variadic %s", kf.lean)
					}
					args = []string{args[0], "[" + strings.Join(args[1:], ", ") + "]"}
				}
				for _, ex := range kf.extra {
					// atoms of the callee are field chains of its receiver: re-rooted at the actual receiver
					i := strings.Index(ex, ".")
					if recv == "" || i < 0 {
						return e.fail(v.Pos(), "call of %s without a receiver to resolve %s", kf.lean, ex)
					}
					args = append(args, e.atoms.get(recv+ex[i:], "Int"))
				}
				return kf.lean + " " + strings.Join(args, " ")
			}
		}
		return e.atomOf(x)
	case *ast.Ident, *ast.SelectorExpr, *ast.IndexExpr, *ast.StarExpr:
		return e.atomOf(x)
	}
	return e.fail(x.Pos(), "expression `%s` (%T) is outside the translated subset", oneLine(x), x)
}

func (s *skel) calleeOf(c *ast.CallExpr) *types.Func {
	switch f := unparen(c.Fun).(type) {
	case *ast.Ident:
		fn, _ := s.pi.info.Uses[f].(*types.Func)
		return fn
	case *ast.SelectorExpr:
		if sel, ok := s.pi.info.Selections[f]; ok {
			fn, _ := sel.Obj().(*types.Func)
			return fn
		}
		fn, _ := s.pi.info.Uses[f.Sel].(*types.Func)
		return fn
	}
	return nil
}

var cmpLean = map[token.Token]string{token.LSS: "<", token.LEQ: "≤", token.GTR: ">", token.GEQ: "≥"}

func (e *xenv) binary(b *ast.BinaryExpr) string {
	switch b.Op {
	case token.LAND:
		return atomize(e.x(b.X)) + " && " + atomize(e.x(b.Y))
	case token.LOR:
		return atomize(e.x(b.X)) + " || " + atomize(e.x(b.Y))
	}
	// x == nil
	if (b.Op == token.EQL || b.Op == token.NEQ) && (isNilExpr(e, b.X) || isNilExpr(e, b.Y)) {
		o := b.X
		if isNilExpr(e, b.X) {
			o = b.Y
		}
		a := e.atoms.get(oneLine(o)+" == nil", "Bool")
		if b.Op == token.NEQ {
			return "!" + a
		}
		return a
	}
	kx, ky := e.kind(b.X), e.kind(b.Y)
	if kx == "" || kx != ky {
		return e.fail(b.Pos(), "`%s`: operands of types %v and %v are outside the translated subset", oneLine(b), e.typ(b.X), e.typ(b.Y))
	}
	X, Y := atomize(e.x(b.X)), atomize(e.x(b.Y))
	if kx == "F64" {
		switch b.Op {
		case token.ADD:
			return "F64.add " + X + " " + Y
		case token.SUB:
			return "F64.sub " + X + " " + Y
		case token.MUL:
			return "F64.mul " + X + " " + Y
		case token.QUO:
			return "F64.div " + X + " " + Y
		case token.LSS:
			return "F64.lt " + X + " " + Y
		case token.LEQ:
			return "F64.le " + X + " " + Y
		case token.GTR:
			return "F64.lt " + Y + " " + X
		case token.GEQ:
			return "F64.le " + Y + " " + X
		case token.EQL:
			return "F64.feq " + X + " " + Y
		case token.NEQ:
			return "!(F64.feq " + X + " " + Y + ")"
		}
		return e.fail(b.Pos(), "float operator %s is outside the translated subset", b.Op)
	}
	switch b.Op {
	case token.EQL:
		return X + " == " + Y
	case token.NEQ:
		return X + " != " + Y
	case token.LSS, token.LEQ, token.GTR, token.GEQ:
		if kx == "Bool" {
			return e.fail(b.Pos(), "ordered comparison of booleans")
		}
		return "decide (" + X + " " + cmpLean[b.Op] + " " + Y + ")"
	}
	if kx != "Int" {
		return e.fail(b.Pos(), "`%s`: operator %s on %s is outside the translated subset", oneLine(b), b.Op, kx)
	}
	switch b.Op {
	case token.ADD:
		return X + " + " + Y
	case token.SUB:
		return X + " - " + Y
	case token.MUL:
		return X + " * " + Y
	case token.QUO:
		return "Int.tdiv " + X + " " + Y
	case token.REM:
		return "Int.tmod " + X + " " + Y
	case token.SHL:
		return X + " * 2 ^ (" + Y + ").toNat"
	}
	return e.fail(b.Pos(), "`%s`: operator %s is outside the translated subset", oneLine(b), b.Op)
}

func isAtomRoot(x ast.Expr) bool {
	switch unparen(x).(type) {
	case *ast.Ident, *ast.SelectorExpr, *ast.IndexExpr, *ast.StarExpr:
		return true
	}
	return false
}

// ---- per function

type fnx struct {
	s     *skel
	name  string
	key   string
	fd    *ast.FuncDecl
	nCond int
	nVal  int
	defs  bytes.Buffer
	exprs []string // "cond<k>: <source text>" / "val<k>: <source text>" in extraction order (emitted as F_exprs when skel.exprs)
}

// try translates x tentatively; ok=false if it is outside the subset.
func (f *fnx) try(x ast.Expr) (string, *atomSet, bool) {
	e := &xenv{s: f.s, atoms: &atomSet{}, ok: true, soft: true}
	t := f.tr(e, x)
	return t, e.atoms, e.ok && e.kind(x) != ""
}

func (f *fnx) tr(e *xenv, x ast.Expr) string {
	return e.x(x)
}

func (f *fnx) cond(c ast.Expr, what string) string {
	e := &xenv{s: f.s, atoms: &atomSet{}, ok: true, soft: !f.s.strict}
	if e.kind(c) != "Bool" {
		fatal(c.Pos(), "condition of kind %v", e.typ(c))
	}
	t := e.x(c)
	if !e.ok {
		// not arithmetic/logic over atoms (comparison of interface values …): the text stays in the shape
		return "‹" + oneLine(c) + "›"
	}
	n := fmt.Sprintf("%s_cond%d", f.name, f.nCond)
	f.exprs = append(f.exprs, fmt.Sprintf("cond%d: %s", f.nCond, oneLine(c)))
	f.nCond++
	fmt.Fprintf(&f.defs, "/-- %s: %s condition of %s: `%s` -/\ndef %s%s : Bool :=\n  %s\n\n", relline(c.Pos()), what, f.key, oneLine(c), n, e.atoms.params(), t)
	return n[len(f.name)+1:]
}

// hole: the text of x in the shape, computational parts replaced by val<k>.
func (f *fnx) hole(x ast.Expr) string {
	if x == nil {
		return ""
	}
	ux := unparen(x)
	if fl, ok := ux.(*ast.FuncLit); ok {
		return "func{" + f.block(fl.Body.List) + "}"
	}
	tv, hasTV := f.s.pi.info.Types[ux]
	isConst := hasTV && tv.Value != nil
	if !isAtomRoot(ux) && !isConst {
		if t, atoms, ok := f.try(ux); ok {
			// a call of an untranslated function is an atom: look inside its arguments instead
			if !(len(atoms.list) == 1 && t == atoms.list[0].name) {
				k := (&xenv{s: f.s}).kind(ux)
				n := fmt.Sprintf("%s_val%d", f.name, f.nVal)
				f.exprs = append(f.exprs, fmt.Sprintf("val%d: %s", f.nVal, oneLine(ux)))
				f.nVal++
				fmt.Fprintf(&f.defs, "/-- %s: value in %s: `%s` -/\ndef %s%s : %s :=\n  %s\n\n", relline(ux.Pos()), f.key, oneLine(ux), n, atoms.params(), k, t)
				return n[len(f.name)+1:]
			}
		}
	}
	switch v := ux.(type) {
	case *ast.CallExpr:
		var as []string
		for _, a := range v.Args {
			as = append(as, f.hole(a))
		}
		ell := ""
		if v.Ellipsis != token.NoPos {
			ell = "..."
		}
		return oneLine(v.Fun) + "(" + strings.Join(as, ", ") + ell + ")"
	case *ast.CompositeLit:
		var es []string
		for _, el := range v.Elts {
			if kv, ok := el.(*ast.KeyValueExpr); ok {
				es = append(es, oneLine(kv.Key)+": "+f.hole(kv.Value))
			} else {
				es = append(es, f.hole(el))
			}
		}
		t := ""
		if v.Type != nil {
			t = oneLine(v.Type)
		}
		return t + "{" + strings.Join(es, ", ") + "}"
	case *ast.UnaryExpr:
		if v.Op == token.AND {
			return "&" + f.hole(v.X)
		}
	case *ast.TypeAssertExpr:
		return f.hole(v.X) + ".(" + oneLine(v.Type) + ")"
	}
	return oneLine(ux)
}

func (f *fnx) stmt(s ast.Stmt) string {
	switch v := s.(type) {
	case nil:
		return ""
	case *ast.BlockStmt:
		return "{" + f.block(v.List) + "}"
	case *ast.IfStmt:
		init := ""
		if v.Init != nil {
			init = "[" + f.stmt(v.Init) + "]"
		}
		t := "if" + init + " " + f.cond(v.Cond, "if") + " {" + f.block(v.Body.List) + "}"
		if v.Else != nil {
			switch el := v.Else.(type) {
			case *ast.BlockStmt:
				t += " else {" + f.block(el.List) + "}"
			default:
				t += " else " + f.stmt(el)
			}
		}
		return t
	case *ast.ForStmt:
		t := "for"
		if v.Init != nil {
			t += "[" + f.stmt(v.Init) + "]"
		}
		if v.Cond != nil {
			t += " " + f.cond(v.Cond, "for")
		}
		if v.Post != nil {
			t += " [" + f.stmt(v.Post) + "]"
		}
		return t + " {" + f.block(v.Body.List) + "}"
	case *ast.RangeStmt:
		kv := ""
		if v.Key != nil {
			kv = oneLine(v.Key)
		}
		if v.Value != nil {
			kv += ", " + oneLine(v.Value)
		}
		return "range " + kv + " " + v.Tok.String() + " " + f.hole(v.X) + " {" + f.block(v.Body.List) + "}"
	case *ast.ReturnStmt:
		var rs []string
		for _, r := range v.Results {
			rs = append(rs, f.hole(r))
		}
		return strings.TrimSpace("return " + strings.Join(rs, ", "))
	case *ast.AssignStmt:
		var ls, rs []string
		for _, l := range v.Lhs {
			ls = append(ls, oneLine(l))
		}
		for _, r := range v.Rhs {
			rs = append(rs, f.hole(r))
		}
		return strings.Join(ls, ", ") + " " + v.Tok.String() + " " + strings.Join(rs, ", ")
	case *ast.ExprStmt:
		return f.hole(v.X)
	case *ast.IncDecStmt:
		return oneLine(v.X) + v.Tok.String()
	case *ast.BranchStmt:
		if v.Label != nil {
			return v.Tok.String() + " " + v.Label.Name
		}
		return v.Tok.String()
	case *ast.DeclStmt:
		if gd, ok := v.Decl.(*ast.GenDecl); ok {
			// without the comments attached to the declaration
			cp := *gd
			cp.Doc = nil
			cp.Specs = nil
			for _, sp := range gd.Specs {
				if vs, ok := sp.(*ast.ValueSpec); ok {
					c := *vs
					c.Doc, c.Comment = nil, nil
					cp.Specs = append(cp.Specs, &c)
				} else {
					cp.Specs = append(cp.Specs, sp)
				}
			}
			return oneLine(&cp)
		}
		return oneLine(v)
	case *ast.DeferStmt:
		return "defer " + f.hole(v.Call)
	case *ast.LabeledStmt:
		return v.Label.Name + ": " + f.stmt(v.Stmt)
	case *ast.SwitchStmt:
		t := "switch"
		if v.Init != nil {
			t += "[" + f.stmt(v.Init) + "]"
		}
		if v.Tag != nil {
			t += " " + f.hole(v.Tag)
		}
		var cs []string
		for _, c := range v.Body.List {
			cc := c.(*ast.CaseClause)
			var es []string
			for _, x := range cc.List {
				es = append(es, f.hole(x))
			}
			h := "default"
			if cc.List != nil {
				h = "case " + strings.Join(es, ", ")
			}
			cs = append(cs, h+": "+f.block(cc.Body))
		}
		return t + " {" + strings.Join(cs, " | ") + "}"
	}
	fatal(s.Pos(), "statement `%s` (%T) is outside the translated subset", oneLine(s), s)
	return ""
}

func (f *fnx) block(list []ast.Stmt) string {
	var ts []string
	for _, s := range list {
		ts = append(ts, f.stmt(s))
	}
	return strings.Join(ts, "; ")
}

func leanString(s string) string {
	s = strings.ReplaceAll(s, "\\", "\\\\")
	s = strings.ReplaceAll(s, "\"", "\\\"")
	return "\"" + s + "\""
}

// extract emits the skeleton of pkg function `key` under the Lean name prefix `name`.
func (s *skel) extract(key, name string) {
	fd := findFunc(s.pi, key)
	f := &fnx{s: s, name: name, key: key, fd: fd}
	shape := f.block(fd.Body.List)
	sig := oneLine(&ast.FuncDecl{Recv: fd.Recv, Name: fd.Name, Type: fd.Type})
	fmt.Fprintf(s.out, "/-! ### %s: `%s` -/\n\n", relline(fd.Pos()), sig)
	s.out.Write(f.defs.Bytes())
	fmt.Fprintf(s.out, "def %s_numConds : Nat := %d\ndef %s_numVals : Nat := %d\n", name, f.nCond, name, f.nVal)
	fmt.Fprintf(s.out, "/-- the statement structure of %s; cond<k> / val<k> stand for the definitions above -/\ndef %s_shape : String :=\n  %s\n\n", key, name, leanString(shape))
	if s.exprs {
		fmt.Fprintf(s.out, "/-- the source text of the extracted conditions / values of %s (their atoms = parameters, in the order of the definitions) -/\ndef %s_exprs : String :=\n  %s\n\n", key, name, leanString(strings.Join(f.exprs, " | ")))
	}
	s.facts = append(s.facts, fact{Name: s.pi.pkg.Name() + "." + key, Kind: "skeleton", Pos: relline(fd.Pos()),
		Lean: fmt.Sprintf("S2.Generated.%s.%s_{shape,cond0..%d,val0..%d}", s.ns, name, f.nCond-1, f.nVal-1), Sha256: sha(src(fd))})
}

// ---- full translation of small pure integer functions (maxInt, minInt, adjustLevel)

type fullEnv struct {
	s     *skel
	atoms *atomSet
	fd    *ast.FuncDecl
}

func (fe *fullEnv) x(x ast.Expr) string {
	e := &xenv{s: fe.s, atoms: fe.atoms, ok: true}
	return e.x(x)
}

func (fe *fullEnv) seq(list []ast.Stmt, ind string, end token.Pos) string {
	if len(list) == 0 {
		fatal(end, "control reaches the end of %s without a return", fe.fd.Name.Name)
	}
	rest := list[1:]
	switch v := list[0].(type) {
	case *ast.ReturnStmt:
		if len(v.Results) != 1 || len(rest) != 0 {
			fatal(v.Pos(), "return shape outside the translated subset")
		}
		return ind + fe.x(v.Results[0]) + "\n"
	case *ast.AssignStmt:
		n, val := fe.assign(v)
		return ind + "let " + n + " := " + val + "\n" + fe.seq(rest, ind, end)
	case *ast.IfStmt:
		if v.Init != nil || v.Else != nil {
			fatal(v.Pos(), "if with initialiser / else is outside the translated subset of fully translated functions")
		}
		c := fe.x(v.Cond)
		if terminates(v.Body.List) {
			return ind + "if " + c + " then\n" + fe.seq(v.Body.List, ind+"  ", v.Body.End()) + ind + "else\n" + fe.seq(rest, ind, end)
		}
		if len(v.Body.List) != 1 {
			fatal(v.Pos(), "conditional update with several statements")
		}
		as, ok := v.Body.List[0].(*ast.AssignStmt)
		if !ok || as.Tok == token.DEFINE {
			fatal(v.Body.Pos(), "conditional update must be one assignment")
		}
		n, val := fe.assign(as)
		return ind + "let " + n + " := if " + c + " then " + val + " else " + n + "\n" + fe.seq(rest, ind, end)
	}
	fatal(list[0].Pos(), "statement `%s` is outside the translated subset", oneLine(list[0]))
	return ""
}

func (fe *fullEnv) assign(v *ast.AssignStmt) (string, string) {
	if len(v.Lhs) != 1 || len(v.Rhs) != 1 {
		fatal(v.Pos(), "multiple assignment")
	}
	id, ok := v.Lhs[0].(*ast.Ident)
	if !ok {
		fatal(v.Pos(), "assignment to `%s` is outside the translated subset", oneLine(v.Lhs[0]))
	}
	k := kindOfType((&xenv{s: fe.s}).typ(id))
	if k == "" {
		fatal(v.Pos(), "local of unsupported type")
	}
	n := fe.atoms.get(id.Name, k)
	if v.Tok == token.ASSIGN || v.Tok == token.DEFINE {
		return n, fe.x(v.Rhs[0])
	}
	op, ok := assignOps[v.Tok]
	if !ok {
		fatal(v.Pos(), "assignment operator %s", v.Tok)
	}
	b := &ast.BinaryExpr{X: v.Lhs[0], OpPos: v.TokPos, Op: op, Y: v.Rhs[0]} // the tree, not the text, carries the grouping
	return n, fe.x(b)
}

// fullFn translates a small pure function completely.  Parameters: the Go parameters in order, then the other
// atoms (fields of the receiver) in order of first occurrence.
func (s *skel) fullFn(key, name string) {
	fd := findFunc(s.pi, key)
	fe := &fullEnv{s: s, atoms: &atomSet{}, fd: fd}
	nParams := 0
	for _, fl := range fd.Type.Params.List {
		for _, id := range fl.Names {
			k := kindOfType(s.pi.info.Defs[id].Type())
			if k == "" {
				fatal(id.Pos(), "parameter of unsupported type")
			}
			fe.atoms.get(id.Name, k)
			nParams++
		}
	}
	if fd.Type.Results == nil || len(fd.Type.Results.List) != 1 {
		fatal(fd.Pos(), "one result expected")
	}
	rk := kindOfType(s.pi.info.Types[fd.Type.Results.List[0].Type].Type)
	if rk == "" {
		fatal(fd.Pos(), "result of unsupported type")
	}
	body := fe.seq(fd.Body.List, "  ", fd.Body.End())
	sig := oneLine(&ast.FuncDecl{Recv: fd.Recv, Name: fd.Name, Type: fd.Type})
	fmt.Fprintf(s.out, "/-- %s: `%s` -/\ndef %s%s : %s :=\n%s\n", relline(fd.Pos()), sig, name, fe.atoms.params(), rk, body)
	var extra []string
	for _, a := range fe.atoms.list[nParams:] {
		if a.kind != "Int" || !strings.Contains(a.text, ".") {
			fatal(fd.Pos(), "free atom `%s` of a fully translated function must be an integer field of the receiver", a.text)
		}
		extra = append(extra, a.text)
	}
	fn := s.pi.info.Defs[fd.Name].(*types.Func)
	s.known[funcKey(fn)] = knownFn{lean: name, extra: extra}
	s.facts = append(s.facts, fact{Name: s.pi.pkg.Name() + "." + key, Kind: "func", Pos: relline(fd.Pos()), Lean: "S2.Generated." + s.ns + "." + name, Sha256: sha(src(fd))})
}

// foldFn translates a variadic selection function of the exact shape
//
//	func f(x int, others ...int) int { acc := x; for _, y := range others { if COND(y, acc) { acc = y } }; return acc }
//
// into a left fold over the list of the remaining arguments.
func (s *skel) foldFn(key, name string) {
	fd := findFunc(s.pi, key)
	bad := func(p token.Pos) {
		fatal(p, "%s no longer has the shape `acc := x; for _, y := range others { if c { acc = y } }; return acc`", key)
	}
	ps := fd.Type.Params.List
	if len(ps) != 2 || len(ps[0].Names) != 1 || len(ps[1].Names) != 1 || len(fd.Body.List) != 3 {
		bad(fd.Pos())
	}
	if _, ok := ps[1].Type.(*ast.Ellipsis); !ok {
		bad(ps[1].Pos())
	}
	x, others := ps[0].Names[0].Name, ps[1].Names[0].Name
	if kindOfType(s.pi.info.Defs[ps[0].Names[0]].Type()) != "Int" {
		bad(ps[0].Pos())
	}
	as, ok := fd.Body.List[0].(*ast.AssignStmt)
	if !ok || as.Tok != token.DEFINE || len(as.Lhs) != 1 || len(as.Rhs) != 1 || oneLine(as.Rhs[0]) != x {
		bad(fd.Body.List[0].Pos())
	}
	acc := oneLine(as.Lhs[0])
	rg, ok := fd.Body.List[1].(*ast.RangeStmt)
	if !ok || rg.Key == nil || oneLine(rg.Key) != "_" || rg.Value == nil || oneLine(rg.X) != others || len(rg.Body.List) != 1 {
		bad(fd.Body.List[1].Pos())
	}
	y := oneLine(rg.Value)
	ifs, ok := rg.Body.List[0].(*ast.IfStmt)
	if !ok || ifs.Init != nil || ifs.Else != nil || len(ifs.Body.List) != 1 || oneLine(ifs.Body.List[0]) != acc+" = "+y {
		bad(rg.Body.Pos())
	}
	ret, ok := fd.Body.List[2].(*ast.ReturnStmt)
	if !ok || len(ret.Results) != 1 || oneLine(ret.Results[0]) != acc {
		bad(fd.Body.List[2].Pos())
	}
	e := &xenv{s: s, atoms: &atomSet{}, ok: true}
	ya := e.atoms.get(y, "Int")
	aa := e.atoms.get(acc, "Int")
	c := e.x(ifs.Cond)
	if len(e.atoms.list) != 2 {
		fatal(ifs.Cond.Pos(), "condition of %s uses more than the element and the accumulator", key)
	}
	sig := oneLine(&ast.FuncDecl{Name: fd.Name, Type: fd.Type})
	fmt.Fprintf(s.out, "/-- %s: `%s` : `%s := %s; for _, %s := range %s { if %s { %s = %s } }; return %s` -/\ndef %s (%s : Int) (%s : List Int) : Int :=\n  %s.foldl (fun %s %s => if %s then %s else %s) %s\n\n",
		relline(fd.Pos()), sig, acc, x, y, others, oneLine(ifs.Cond), acc, y, acc, name, sanitize(x), sanitize(others), sanitize(others), aa, ya, c, ya, aa, sanitize(x))
	fn := s.pi.info.Defs[fd.Name].(*types.Func)
	s.known[funcKey(fn)] = knownFn{lean: name, variadic: true}
	s.facts = append(s.facts, fact{Name: s.pi.pkg.Name() + "." + key, Kind: "func", Pos: relline(fd.Pos()), Lean: "S2.Generated." + s.ns + "." + name, Sha256: sha(src(fd))})
}

// intConst emits a package-level integer constant.
func (s *skel) intConst(name, lean string) {
	o, ok := s.pi.pkg.Scope().Lookup(name).(*types.Const)
	if !ok {
		die("constant %s.%s not found", s.pi.pkg.Name(), name)
	}
	fmt.Fprintf(s.out, "/-- %s: `%s` -/\ndef %s : Int := %s\n\n", relline(o.Pos()), name, lean, litOf(o.Pos(), o.Val(), "Int"))
	s.facts = append(s.facts, fact{Name: s.pi.pkg.Name() + "." + name, Kind: "const", Pos: relline(o.Pos()), Lean: "S2.Generated." + s.ns + "." + lean, Sha256: sha(o.Val().ExactString())})
}

// structFields emits the field list of a struct as a string (`name type; …`).
func (s *skel) structFields(name, lean string) {
	o := s.pi.pkg.Scope().Lookup(name)
	if o == nil {
		die("type %s.%s not found", s.pi.pkg.Name(), name)
	}
	st, ok := o.Type().Underlying().(*types.Struct)
	if !ok {
		fatal(o.Pos(), "%s is not a struct", name)
	}
	var fs []string
	for i := 0; i < st.NumFields(); i++ {
		fs = append(fs, st.Field(i).Name()+" "+types.TypeString(st.Field(i).Type(), func(p *types.Package) string { return p.Name() }))
	}
	fmt.Fprintf(s.out, "/-- %s: the fields of `%s` -/\ndef %s : String :=\n  %s\n\n", relline(o.Pos()), name, lean, leanString(strings.Join(fs, "; ")))
	s.facts = append(s.facts, fact{Name: s.pi.pkg.Name() + "." + name, Kind: "struct", Pos: relline(o.Pos()), Lean: "S2.Generated." + s.ns + "." + lean, Sha256: sha(strings.Join(fs, ";"))})
}

var _ = math.Float64bits

// ================================================================ part 2: regioncoverer.go (C05)

const covPrelude = `/-
  GENERATED by translator_c19 from s2/regioncoverer.go (and maxInt/minInt of s2/util.go) — do not edit.
  Regenerated on every run of ./check; S2Proofs/Ties/C05.lean ties the hand model S2.Coverer to it.
  Skeleton extraction (conditions, values, shapes): see translator_c19/rest.go.
-/
namespace S2.Generated.CovererFns

`

func genCoverer(ld *loader, facts *[]fact) string {
	pi, err := ld.load(modPrefix + "s2")
	if err != nil {
		die("type-checking s2 failed: %v", err)
	}
	s := &skel{pi: pi, out: &bytes.Buffer{}, ns: "CovererFns", known: map[string]knownFn{}, strict: true}
	s.out.WriteString(covPrelude)
	s.intConst("MaxLevel", "MaxLevel")
	s.foldFn("maxInt", "maxInt")
	s.foldFn("minInt", "minInt")
	s.fullFn("coverer.adjustLevel", "adjustLevel")
	s.structFields("RegionCoverer", "RegionCoverer_fields")
	s.structFields("coverer", "coverer_fields")
	for _, k := range []string{"RegionCoverer.newCoverer", "coverer.newCandidate", "coverer.expandChildren", "coverer.addCandidate",
		"coverer.adjustCellLevels", "coverer.initialCandidates", "coverer.coveringInternal", "RegionCoverer.Covering",
		"RegionCoverer.InteriorCovering", "RegionCoverer.CellUnion", "RegionCoverer.InteriorCellUnion", "RegionCoverer.FastCovering",
		"RegionCoverer.IsCanonical", "coverer.normalizeCovering", "coverer.isCanonical", "coverer.containsAllChildren",
		"coverer.replaceCellsWithAncestor", "priorityQueue.Less"} {
		s.extract(k, strings.ReplaceAll(strings.TrimPrefix(strings.TrimPrefix(k, "coverer."), "RegionCoverer."), ".", "_"))
	}
	s.out.WriteString("end S2.Generated.CovererFns\n")
	*facts = append(*facts, s.facts...)
	return s.out.String()
}

func genRest(ld *loader, facts *[]fact, files map[string]string) {
	files["CovererFns.lean"] = genCoverer(ld, facts)
	genQueryCell(ld, facts, files)
}

// ================================================================ part 4: cell.go distance functions (C12)

const cellPrelude = `/-
  GENERATED by translator_c19 from s2/cell.go — do not edit.
  Regenerated on every run of ./check; S2Proofs/Ties/C12.lean ties the hand model S2.CellM to it,
  S2Proofs/Ties/C12_Edge.lean the hand model S2.CellEdgeM (edge / cell targets).
  Skeleton extraction (conditions, values, shapes) over the soft-float S2.F64: see translator_c19/rest.go.
  Go's a > b is written F64.lt b a.
-/
import S2.F64
namespace S2.Generated.CellDistFns
open S2

`

// floatConst emits the float64 bit pattern of a package-level float constant.
func (s *skel) floatConst(name, lean string) {
	o, ok := s.pi.pkg.Scope().Lookup(name).(*types.Const)
	if !ok {
		die("constant %s.%s not found", s.pi.pkg.Name(), name)
	}
	fmt.Fprintf(s.out, "/-- %s: `%s` = %s -/\ndef %s : UInt64 := 0x%016x\n\n", relline(o.Pos()), name, o.Val().String(), lean, f64bits(o.Pos(), o.Val()))
	s.facts = append(s.facts, fact{Name: s.pi.pkg.Name() + "." + name, Kind: "const", Pos: relline(o.Pos()), Lean: "S2.Generated." + s.ns + "." + lean, Sha256: sha(o.Val().ExactString())})
}

// floatConstOpt is floatConst for a constant that an older tree may not have: nothing is emitted then.
func (s *skel) floatConstOpt(name, lean string) {
	if _, ok := s.pi.pkg.Scope().Lookup(name).(*types.Const); !ok {
		fmt.Fprintf(s.out, "-- constant `%s` not found in package %s: no definition `%s`\n\n", name, s.pi.pkg.Name(), lean)
		return
	}
	s.floatConst(name, lean)
}

// callArgConst emits the float64 bit pattern of the (constant) first argument of the unique call of method `sel`
// inside function `key` (the margin of Cell.ContainsPoint); a non-constant argument or a second call is fatal.
func (s *skel) callArgConst(key, sel, lean string) {
	fd := findFunc(s.pi, key)
	var found []*ast.CallExpr
	ast.Inspect(fd.Body, func(n ast.Node) bool {
		if c, ok := n.(*ast.CallExpr); ok {
			if se, ok := c.Fun.(*ast.SelectorExpr); ok && se.Sel.Name == sel {
				found = append(found, c)
			}
		}
		return true
	})
	if len(found) != 1 || len(found[0].Args) != 1 {
		fatal(fd.Pos(), "%s: expected exactly one call of %s with one argument, found %d", key, sel, len(found))
	}
	arg := found[0].Args[0]
	tv, ok := s.pi.info.Types[arg]
	if !ok || tv.Value == nil {
		fatal(arg.Pos(), "%s: the argument of %s is not a constant expression", key, sel)
	}
	fmt.Fprintf(s.out, "/-- %s: argument of `%s` in %s: `%s` = %s -/\ndef %s : UInt64 := 0x%016x\n\n", relline(arg.Pos()), sel, key, oneLine(arg), tv.Value.String(), lean, f64bits(arg.Pos(), tv.Value))
	s.facts = append(s.facts, fact{Name: s.pi.pkg.Name() + "." + key + "." + sel, Kind: "const", Pos: relline(arg.Pos()), Lean: "S2.Generated." + s.ns + "." + lean, Sha256: sha(tv.Value.ExactString())})
}

func genCell(ld *loader, facts *[]fact, files map[string]string) {
	pi, err := ld.load(modPrefix + "s2")
	if err != nil {
		die("type-checking s2 failed: %v", err)
	}
	s := &skel{pi: pi, out: &bytes.Buffer{}, ns: "CellDistFns", known: map[string]knownFn{}, strict: true}
	s.out.WriteString(cellPrelude)
	s.floatConst("dblEpsilon", "dblEpsilon_bits")
	s.callArgConst("Cell.ContainsPoint", "ExpandedByMargin", "ContainsPoint_margin_bits")
	// the margin of the tangential tests of uEdgeIsClosest / vEdgeIsClosest (repair D58) and the constant it is built from;
	// a tree without the margin constant gets no definition here, so that the tie `tie_edgeIsClosestMargin` (and the ties
	// of the two functions) stop building instead of the whole translator failing
	s.floatConst("dblError", "dblError_bits")
	s.floatConstOpt("edgeIsClosestMargin", "edgeIsClosestMargin_bits")
	s.exprs = true
	for _, k := range []string{"edgeDistance", "Cell.vertexChordDist2", "Cell.uEdgeIsClosest", "Cell.vEdgeIsClosest", "Cell.distanceInternal",
		"Cell.ContainsPoint", "Cell.Distance", "Cell.BoundaryDistance",
		// edge / cell targets (package c12dist2): the hand model is S2.CellEdgeM, the ties are in S2Proofs/Ties/C12_Edge.lean
		"Cell.MaxDistance", "Cell.DistanceToEdge", "Cell.MaxDistanceToEdge", "Cell.DistanceToCell", "Cell.MaxDistanceToCell",
		"oppositeFace", "minChordAngle", "maxChordAngle"} {
		s.extract(k, strings.TrimPrefix(k, "Cell."))
	}
	s.out.WriteString("end S2.Generated.CellDistFns\n")
	*facts = append(*facts, s.facts...)
	files["CellDistFns.lean"] = s.out.String()
}
