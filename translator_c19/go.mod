module translator_c19

go 1.21
