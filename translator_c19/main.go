// Command translator_c19 re-reads <repo> (type-checked with go/types, constants evaluated with go/constant
// exactly as the compiler does) and emits Lean definitions, EXPRESSION BY EXPRESSION, of
//
//   - r1/interval.go, s1/interval.go, r2/rect.go and the lat-lng part of s2/rect.go     -> IntervalFns.lean   (C19)
//   - the option clamping / level / termination conditions of s2/regioncoverer.go       -> CovererFns.lean    (C05)
//   - the option-field read / override / restore bookkeeping of s2/edge_query.go,
//     s2/query_options.go and the field writes of ShapeIndex.Reset / Add                -> QueryOptsIR.lean   (C13)
//   - edgeDistance, vertexChordDist2, uEdgeIsClosest, vEdgeIsClosest, the branch
//     structure of distanceInternal and the expansion constant of Cell.ContainsPoint    -> CellDistFns.lean   (C12)
//
// into <out>.  lean/S2Proofs/Ties/{C19,C05,C13,C12}.lean prove `hand-written model = generated definition`.
//
// Translation rules of the interval files (uniform, not per function).  The generated definitions are GENERIC over
// the number carrier `α` of the hand model (`S2.IvlOps α` + the core order classes), so that the ties are `rfl`:
//
//	float64, s1.Angle          -> α              (conversions between them and Angle.Radians are the identity)
//	a + b, a - b               -> add a b, sub a b       (never re-associated: the Go AST is followed)
//	0.5 * x, x / 2             -> half x          (division by two and multiplication by one half are the same
//	                                               correctly rounded float64 operation)
//	2 * x                      -> dbl x
//	x * 1  (`* s1.Radian`)     -> x               (IEEE: x*1 = x for every x)
//	2 * dblEpsilon (s1 var)    -> twoEps          (the initial value of the var is emitted as a bit pattern)
//	any other * or /           -> fatal
//	math.Abs/Max/Min           -> abs / max / min ;  math.Remainder(x, 2*math.Pi) -> rem2pi x (any other modulus: fatal)
//	constant float expressions -> folded by go/types, then recognised BY EXACT VALUE:
//	                              0 1 -1 π -π 2π π/2 -π/2 -> zero one negOne pi negPi twoPi halfPi negHalfPi; other: fatal
//	a <= b, a < b              -> a ≤ b, a < b ;  a >= b, a > b -> b ≤ a, b < a  (hand model's convention);
//	                              `decide (…)` unless the comparison is the whole condition of an `if`
//	a == b, a != b (floats)    -> feq a b, !feq a b ; on structs: field-wise conjunction in field order; on bools: ==, !=
//	&& || !                    -> && || !
//	T{a, b}, T{F: a, G: b}     -> T.mk a b (every field must be given)
//	x := e / x = e / x op= e   -> let x := e (shadowing) ; s.F = e -> let s := T.mk … e …
//	if c { x = e }             -> let x := if c then e else x
//	if c { …return… } rest     -> if c then … else rest ; an if/else whose branches fall through gets the rest of the
//	                              function in both branches (source order kept)
//
// The coverer / query / cell parts are described at their generators below.
// Anything else inside a function it is asked to translate is a fatal error (exit 1 with file:line).
// Output is a pure function of the source tree (fixed orders, no maps iterated).
//
// usage: translator_c19 -repo /repo -out lean/S2/Generated [-facts facts.json]
package main

import (
	"bytes"
	"crypto/sha256"
	"encoding/json"
	"flag"
	"fmt"
	"go/ast"
	"go/build"
	"go/constant"
	"go/importer"
	"go/parser"
	"go/printer"
	"go/token"
	"go/types"
	"math"
	"os"
	"path/filepath"
	"sort"
	"strings"
)

const tool = "translator_c19"

// ---------------------------------------------------------------- loading

const modPrefix = "github.com/golang/geo/"

type loader struct {
	fset *token.FileSet
	repo string
	std  types.Importer
	pk   map[string]*pkgInfo
}

type pkgInfo struct {
	pkg   *types.Package
	info  *types.Info
	files []*ast.File
	names []string
}

func (m *loader) Import(path string) (*types.Package, error) {
	if strings.HasPrefix(path, modPrefix) {
		p, err := m.load(path)
		if err != nil {
			return nil, err
		}
		return p.pkg, nil
	}
	return m.std.Import(path)
}

func (m *loader) load(path string) (*pkgInfo, error) {
	if p, ok := m.pk[path]; ok {
		return p, nil
	}
	dir := filepath.Join(m.repo, strings.TrimPrefix(path, modPrefix))
	ctx := build.Default
	ctx.BuildTags = nil // hooks (`//go:build verif`) are not part of the translated source
	bp, err := ctx.ImportDir(dir, 0)
	if err != nil {
		return nil, err
	}
	pi := &pkgInfo{}
	names := append([]string{}, bp.GoFiles...)
	sort.Strings(names)
	for _, f := range names {
		af, err := parser.ParseFile(m.fset, filepath.Join(dir, f), nil, parser.ParseComments)
		if err != nil {
			return nil, err
		}
		pi.files = append(pi.files, af)
		pi.names = append(pi.names, f)
	}
	pi.info = &types.Info{
		Types:      map[ast.Expr]types.TypeAndValue{},
		Defs:       map[*ast.Ident]types.Object{},
		Uses:       map[*ast.Ident]types.Object{},
		Selections: map[*ast.SelectorExpr]*types.Selection{},
		Scopes:     map[ast.Node]*types.Scope{},
	}
	conf := types.Config{Importer: m}
	pi.pkg, err = conf.Check(path, m.fset, pi.files, pi.info)
	if err != nil {
		return nil, err
	}
	m.pk[path] = pi
	return pi, nil
}

// ---------------------------------------------------------------- errors / helpers

var fset = token.NewFileSet()
var repoRoot string

func relpos(p token.Pos) string {
	pos := fset.Position(p)
	if r, err := filepath.Rel(repoRoot, pos.Filename); err == nil {
		pos.Filename = r
	}
	return fmt.Sprintf("%s:%d:%d", pos.Filename, pos.Line, pos.Column)
}

func relline(p token.Pos) string {
	pos := fset.Position(p)
	if r, err := filepath.Rel(repoRoot, pos.Filename); err == nil {
		pos.Filename = r
	}
	return fmt.Sprintf("%s:%d", pos.Filename, pos.Line)
}

func fatal(p token.Pos, format string, a ...interface{}) {
	fmt.Fprintf(os.Stderr, "%s: %s: %s\n", tool, relpos(p), fmt.Sprintf(format, a...))
	os.Exit(1)
}

func die(format string, a ...interface{}) {
	fmt.Fprintf(os.Stderr, "%s: %s\n", tool, fmt.Sprintf(format, a...))
	os.Exit(1)
}

func src(n ast.Node) string {
	var b bytes.Buffer
	printer.Fprint(&b, fset, n)
	return b.String()
}

func oneLine(n ast.Node) string {
	s := strings.Join(strings.Fields(src(n)), " ")
	s = strings.ReplaceAll(s, "-/", "- /")
	s = strings.ReplaceAll(s, "/-", "/ -")
	return s
}

func sha(s string) string {
	h := sha256.Sum256([]byte(s))
	return fmt.Sprintf("%x", h[:])
}

var reserved = map[string]bool{"at": true, "from": true, "end": true, "fun": true, "show": true, "have": true, "open": true,
	"in": true, "then": true, "else": true, "if": true, "let": true, "do": true, "match": true, "with": true, "def": true,
	"theorem": true, "where": true, "by": true, "this": true, "variable": true, "section": true, "namespace": true, "instance": true,
	"structure": true, "class": true, "deriving": true, "mutual": true, "private": true, "protected": true, "export": true,
	"import": true, "return": true, "for": true, "nomatch": true, "Type": true, "Prop": true, "Sort": true,
	// operations / constants of the carrier class and of the order classes
	"feq": true, "add": true, "sub": true, "half": true, "dbl": true, "abs": true, "rem2pi": true, "zero": true, "one": true,
	"negOne": true, "pi": true, "negPi": true, "twoPi": true, "halfPi": true, "negHalfPi": true, "twoEps": true, "max": true,
	"min": true, "decide": true, "true": true, "false": true, "α": true}

func leanLocal(name string) string {
	if reserved[name] {
		return name + "'"
	}
	return name
}

func unparen(e ast.Expr) ast.Expr {
	for {
		p, ok := e.(*ast.ParenExpr)
		if !ok {
			return e
		}
		e = p.X
	}
}

func lowerFirst(s string) string {
	return strings.ToLower(s[:1]) + s[1:]
}

type fact struct {
	Name   string `json:"name"`
	Kind   string `json:"kind"`
	Pos    string `json:"pos"`
	Lean   string `json:"lean"`
	Sha256 string `json:"sha256"`
}

// findFunc finds `Name` or `Recv.Name` in the package.
func findFunc(pi *pkgInfo, key string) *ast.FuncDecl {
	recv, name := "", key
	if i := strings.Index(key, "."); i >= 0 {
		recv, name = key[:i], key[i+1:]
	}
	var found *ast.FuncDecl
	for _, f := range pi.files {
		for _, d := range f.Decls {
			fd, ok := d.(*ast.FuncDecl)
			if !ok || fd.Name.Name != name {
				continue
			}
			r := ""
			if fd.Recv != nil && len(fd.Recv.List) == 1 {
				t := fd.Recv.List[0].Type
				if s, ok := t.(*ast.StarExpr); ok {
					t = s.X
				}
				if id, ok := t.(*ast.Ident); ok {
					r = id.Name
				}
			}
			if r != recv {
				continue
			}
			if found != nil {
				die("%s.%s declared twice", pi.pkg.Name(), key)
			}
			found = fd
		}
	}
	if found == nil || found.Body == nil {
		die("function %s.%s not found in %s — the translated source changed shape", pi.pkg.Name(), key, pi.pkg.Path())
	}
	return found
}

func findVarSpec(pi *pkgInfo, name string) (*ast.ValueSpec, int) {
	for _, f := range pi.files {
		for _, d := range f.Decls {
			gd, ok := d.(*ast.GenDecl)
			if !ok || (gd.Tok != token.VAR && gd.Tok != token.CONST) {
				continue
			}
			for _, s := range gd.Specs {
				vs := s.(*ast.ValueSpec)
				for i, id := range vs.Names {
					if id.Name == name {
						if len(vs.Values) != len(vs.Names) {
							fatal(vs.Pos(), "declaration of %s without its own initialiser", name)
						}
						return vs, i
					}
				}
			}
		}
	}
	die("package-level %s.%s not found — the translated source changed shape", pi.pkg.Name(), name)
	return nil, 0
}

func typeKey(t types.Type) string {
	switch v := t.(type) {
	case *types.Named:
		if v.Obj().Pkg() == nil {
			return v.Obj().Name()
		}
		return v.Obj().Pkg().Name() + "." + v.Obj().Name()
	case *types.Basic:
		return v.Name()
	case *types.Pointer:
		return "*" + typeKey(v.Elem())
	case *types.Slice:
		return "[]" + typeKey(v.Elem())
	}
	return t.String()
}

func funcKey(f *types.Func) string {
	sig := f.Type().(*types.Signature)
	pk := ""
	if f.Pkg() != nil {
		pk = f.Pkg().Name() + "."
	}
	if r := sig.Recv(); r != nil {
		t := r.Type()
		if p, ok := t.(*types.Pointer); ok {
			t = p.Elem()
		}
		if n, ok := t.(*types.Named); ok {
			return pk + n.Obj().Name() + "." + f.Name()
		}
	}
	return pk + f.Name()
}

func f64bits(p token.Pos, v constant.Value) uint64 {
	f, _ := constant.Float64Val(constant.ToFloat(v))
	if math.IsInf(f, 0) || math.IsNaN(f) {
		fatal(p, "constant does not fit a float64")
	}
	return math.Float64bits(f)
}

// sameF64: the two constants round to the same float64 (go/types has already rounded typed constants; the
// compiler emits exactly this value).  +0 and -0 cannot arise from Go constant expressions.
func sameF64(a, b constant.Value) bool {
	return f64bits(token.NoPos, a) == f64bits(token.NoPos, b)
}

// ================================================================ part 1: interval / rectangle algebra (C19)

type structSpec struct {
	lean   string
	fields [][2]string // Go field name, type key
}

var structOrder = []string{"r1.Interval", "s1.Interval", "r2.Point", "r2.Rect", "s2.LatLng", "s2.Rect"}
var structs = map[string]*structSpec{
	"r1.Interval": {"R1", [][2]string{{"Lo", "float64"}, {"Hi", "float64"}}},
	"s1.Interval": {"S1", [][2]string{{"Lo", "float64"}, {"Hi", "float64"}}},
	"r2.Point":    {"R2Point", [][2]string{{"X", "float64"}, {"Y", "float64"}}},
	"r2.Rect":     {"R2Rect", [][2]string{{"X", "r1.Interval"}, {"Y", "r1.Interval"}}},
	"s2.LatLng":   {"LatLng", [][2]string{{"Lat", "s1.Angle"}, {"Lng", "s1.Angle"}}},
	"s2.Rect":     {"LLRect", [][2]string{{"Lat", "r1.Interval"}, {"Lng", "s1.Interval"}}},
}

func isFloatKey(k string) bool { return k == "float64" || k == "s1.Angle" || k == "untyped float" }

type ivlGen struct {
	out    *bytes.Buffer
	facts  []fact
	reg    map[string]string // funcKey / "pkg.var" -> Lean name
	arity  map[string]int
	consts []namedConst
	pkgs   map[string]*pkgInfo
}

type namedConst struct {
	name string
	val  constant.Value
	doc  string
}

func (g *ivlGen) leanType(p token.Pos, t types.Type) string {
	k := typeKey(t)
	if isFloatKey(k) {
		return "α"
	}
	if k == "bool" {
		return "Bool"
	}
	if s, ok := structs[k]; ok {
		return "(" + s.lean + " α)"
	}
	fatal(p, "type %s is outside the translated subset", t)
	return ""
}

// checkStructs verifies that the Go struct declarations still have the shape of the hand model's structures.
func (g *ivlGen) checkStructs() {
	for _, k := range structOrder {
		sp := structs[k]
		i := strings.Index(k, ".")
		pi := g.pkgs[k[:i]]
		o := pi.pkg.Scope().Lookup(k[i+1:])
		if o == nil {
			die("type %s not found", k)
		}
		st, ok := o.Type().Underlying().(*types.Struct)
		if !ok {
			fatal(o.Pos(), "type %s is no longer a struct", k)
		}
		if st.NumFields() != len(sp.fields) {
			fatal(o.Pos(), "struct %s has %d fields, the model structure %s has %d", k, st.NumFields(), sp.lean, len(sp.fields))
		}
		var fs []string
		for j, f := range sp.fields {
			if st.Field(j).Name() != f[0] || typeKey(st.Field(j).Type()) != f[1] {
				fatal(st.Field(j).Pos(), "field %d of %s is `%s %s`, the model expects `%s %s`", j, k, st.Field(j).Name(), st.Field(j).Type(), f[0], f[1])
			}
			fs = append(fs, f[0]+" "+f[1])
		}
		g.facts = append(g.facts, fact{Name: k, Kind: "struct", Pos: relline(o.Pos()), Lean: "S2." + sp.lean, Sha256: sha(strings.Join(fs, ";"))})
	}
}

type ienv struct {
	g    *ivlGen
	pi   *pkgInfo
	fd   *ast.FuncDecl
	name string
}

func (e *ienv) tv(x ast.Expr) types.TypeAndValue {
	tv, ok := e.pi.info.Types[x]
	if !ok {
		if id, ok := x.(*ast.Ident); ok {
			if o := e.obj(id); o != nil {
				return types.TypeAndValue{Type: o.Type()}
			}
		}
		fatal(x.Pos(), "no type information for `%s`", oneLine(x))
	}
	return tv
}

func (e *ienv) obj(id *ast.Ident) types.Object {
	if o := e.pi.info.Uses[id]; o != nil {
		return o
	}
	return e.pi.info.Defs[id]
}

func (e *ienv) isFloat(x ast.Expr) bool { return isFloatKey(typeKey(e.tv(x).Type)) }

func (e *ienv) constant(p token.Pos, tv types.TypeAndValue, x ast.Expr) string {
	k := typeKey(tv.Type)
	if k == "bool" || k == "untyped bool" {
		if constant.BoolVal(tv.Value) {
			return "true"
		}
		return "false"
	}
	if !isFloatKey(k) {
		fatal(p, "constant `%s` of type %s is outside the translated subset", oneLine(x), tv.Type)
	}
	for _, c := range e.g.consts {
		if sameF64(tv.Value, c.val) {
			return "(" + c.name + " : α)"
		}
	}
	fatal(p, "float constant `%s` = %s is not one of the carrier constants (0, 1, -1, ±π, 2π, ±π/2)", oneLine(x), tv.Value.String())
	return ""
}

func simpleAtom(s string) bool {
	for _, r := range s {
		if !(r == '_' || r == '.' || r == '\'' || (r >= '0' && r <= '9') || (r >= 'a' && r <= 'z') || (r >= 'A' && r <= 'Z')) {
			return false
		}
	}
	return s != ""
}

func atomize(s string) string {
	if simpleAtom(s) || (strings.HasPrefix(s, "(") && balancedWhole(s)) {
		return s
	}
	return "(" + s + ")"
}

// balancedWhole reports whether the outermost parentheses of s enclose all of s.
func balancedWhole(s string) bool {
	d := 0
	for i, r := range s {
		switch r {
		case '(':
			d++
		case ')':
			d--
			if d == 0 && i != len(s)-1 {
				return false
			}
		}
	}
	return d == 0 && strings.HasSuffix(s, ")")
}

func (e *ienv) atom(x ast.Expr) string { return atomize(e.expr(x)) }

func (e *ienv) constIs(x ast.Expr, num, den int64) bool {
	tv := e.tv(unparen(x))
	if tv.Value == nil {
		return false
	}
	v := constant.ToFloat(tv.Value)
	if v.Kind() == constant.Unknown {
		return false
	}
	want := constant.BinaryOp(constant.MakeInt64(num), token.QUO, constant.MakeInt64(den))
	return sameF64(v, want)
}

// pkgVarOf returns the package-level variable an expression denotes (nil if none).
func (e *ienv) pkgVarOf(x ast.Expr) *types.Var {
	x = unparen(x)
	var id *ast.Ident
	switch v := x.(type) {
	case *ast.Ident:
		id = v
	case *ast.SelectorExpr:
		if _, isSel := e.pi.info.Selections[v]; isSel {
			return nil
		}
		id = v.Sel
	default:
		return nil
	}
	o, ok := e.obj(id).(*types.Var)
	if !ok || o.IsField() || o.Pkg() == nil || o.Parent() != o.Pkg().Scope() {
		return nil
	}
	return o
}

func (e *ienv) cmpProp(b *ast.BinaryExpr) string {
	if !e.isFloat(b.X) || !e.isFloat(b.Y) {
		fatal(b.Pos(), "ordered comparison `%s` of non-float operands", oneLine(b))
	}
	x, y := e.atom(b.X), e.atom(b.Y)
	switch b.Op {
	case token.LEQ:
		return x + " ≤ " + y
	case token.LSS:
		return x + " < " + y
	case token.GEQ:
		return y + " ≤ " + x
	case token.GTR:
		return y + " < " + x
	}
	fatal(b.Pos(), "not a comparison")
	return ""
}

func isOrderOp(op token.Token) bool {
	return op == token.LEQ || op == token.LSS || op == token.GEQ || op == token.GTR
}

// cond translates the condition of an `if`: a bare proposition when it is a single ordered comparison, a Bool otherwise.
func (e *ienv) cond(x ast.Expr) string {
	if b, ok := unparen(x).(*ast.BinaryExpr); ok && isOrderOp(b.Op) {
		return e.cmpProp(b)
	}
	return e.expr(x)
}

func (e *ienv) eqFields(p token.Pos, t types.Type, x, y string) string {
	k := typeKey(t)
	if isFloatKey(k) {
		return "feq " + atomize(x) + " " + atomize(y)
	}
	sp, ok := structs[k]
	if !ok {
		fatal(p, "== on type %s is outside the translated subset", t)
	}
	st := t.Underlying().(*types.Struct)
	var parts []string
	for j, f := range sp.fields {
		parts = append(parts, e.eqFields(p, st.Field(j).Type(), atomize(x)+"."+lowerFirst(f[0]), atomize(y)+"."+lowerFirst(f[0])))
	}
	return strings.Join(parts, " && ")
}

func (e *ienv) binary(b *ast.BinaryExpr) string {
	switch b.Op {
	case token.LAND:
		return e.atom(b.X) + " && " + e.atom(b.Y)
	case token.LOR:
		return e.atom(b.X) + " || " + e.atom(b.Y)
	case token.LEQ, token.LSS, token.GEQ, token.GTR:
		return "decide (" + e.cmpProp(b) + ")"
	case token.EQL, token.NEQ:
		tx, ty := e.tv(b.X).Type, e.tv(b.Y).Type
		var s string
		switch {
		case e.isFloat(b.X) && e.isFloat(b.Y):
			s = "feq " + e.atom(b.X) + " " + e.atom(b.Y)
		case typeKey(tx) == "bool" && typeKey(ty) == "bool":
			if b.Op == token.EQL {
				return e.atom(b.X) + " == " + e.atom(b.Y)
			}
			return e.atom(b.X) + " != " + e.atom(b.Y)
		case types.Identical(tx, ty):
			s = e.eqFields(b.Pos(), tx, e.expr(b.X), e.expr(b.Y))
		default:
			fatal(b.Pos(), "== between %s and %s is outside the translated subset", tx, ty)
		}
		if b.Op == token.NEQ {
			return "!" + atomize(s)
		}
		return s
	case token.ADD, token.SUB:
		if !e.isFloat(b) {
			fatal(b.Pos(), "`%s`: arithmetic on %s is outside the translated subset", oneLine(b), e.tv(b).Type)
		}
		op := "add"
		if b.Op == token.SUB {
			op = "sub"
		}
		return op + " " + e.atom(b.X) + " " + e.atom(b.Y)
	case token.MUL:
		if !e.isFloat(b) {
			fatal(b.Pos(), "`%s`: arithmetic on %s is outside the translated subset", oneLine(b), e.tv(b).Type)
		}
		for _, o := range [][2]ast.Expr{{b.X, b.Y}, {b.Y, b.X}} {
			c, x := o[0], o[1]
			switch {
			case e.constIs(c, 2, 1):
				if v := e.pkgVarOf(x); v != nil {
					if v.Pkg().Name() == "s1" && v.Name() == "dblEpsilon" {
						return "(twoEps : α)"
					}
					fatal(x.Pos(), "2 * package variable %s.%s has no carrier constant", v.Pkg().Name(), v.Name())
				}
				return "dbl " + e.atom(x)
			case e.constIs(c, 1, 2):
				return "half " + e.atom(x)
			case e.constIs(c, 1, 1):
				return e.expr(x)
			}
		}
		fatal(b.Pos(), "`%s`: only 0.5*x, 2*x and x*1 have a carrier operation", oneLine(b))
	case token.QUO:
		if e.isFloat(b) && e.constIs(b.Y, 2, 1) {
			return "half " + e.atom(b.X)
		}
		fatal(b.Pos(), "`%s`: only x/2 has a carrier operation", oneLine(b))
	}
	fatal(b.Pos(), "operator %s is outside the translated subset", b.Op)
	return ""
}

func (e *ienv) ref(p token.Pos, key string, args []string) string {
	ln, ok := e.g.reg[key]
	if !ok {
		fatal(p, "call of %s, which is not (yet) translated", key)
	}
	if e.g.arity[key] != len(args) {
		fatal(p, "call of %s with %d arguments, translated with %d", key, len(args), e.g.arity[key])
	}
	if len(args) == 0 {
		return ln
	}
	return ln + " " + strings.Join(args, " ")
}

func (e *ienv) call(c *ast.CallExpr) string {
	if ftv, ok := e.pi.info.Types[c.Fun]; ok && ftv.IsType() {
		// conversion
		if len(c.Args) == 1 && isFloatKey(typeKey(ftv.Type)) && e.isFloat(c.Args[0]) {
			return e.expr(c.Args[0])
		}
		fatal(c.Pos(), "conversion `%s` is outside the translated subset", oneLine(c))
	}
	if c.Ellipsis != token.NoPos {
		fatal(c.Pos(), "variadic call")
	}
	var fn *types.Func
	var recv ast.Expr
	switch f := unparen(c.Fun).(type) {
	case *ast.Ident:
		fn, _ = e.obj(f).(*types.Func)
	case *ast.SelectorExpr:
		if sel, ok := e.pi.info.Selections[f]; ok {
			if sel.Kind() != types.MethodVal {
				fatal(c.Pos(), "call through a field")
			}
			fn, _ = sel.Obj().(*types.Func)
			recv = f.X
		} else {
			fn, _ = e.obj(f.Sel).(*types.Func)
		}
	}
	if fn == nil {
		fatal(c.Pos(), "call `%s` of something that is not a declared function", oneLine(c))
	}
	key := funcKey(fn)
	var args []string
	if recv != nil {
		args = append(args, e.atom(recv))
	}
	for _, a := range c.Args {
		args = append(args, e.atom(a))
	}
	switch key {
	case "math.Abs":
		return "abs " + args[0]
	case "math.Max":
		return "max " + args[0] + " " + args[1]
	case "math.Min":
		return "min " + args[0] + " " + args[1]
	case "math.Remainder":
		if !e.constIsVal(c.Args[1], e.g.constVal("twoPi")) {
			fatal(c.Args[1].Pos(), "math.Remainder with a modulus other than 2*math.Pi has no carrier operation")
		}
		return "rem2pi " + args[0]
	}
	return e.ref(c.Pos(), key, args)
}

func (g *ivlGen) constVal(name string) constant.Value {
	for _, c := range g.consts {
		if c.name == name {
			return c.val
		}
	}
	die("internal: no constant %s", name)
	return nil
}

func (e *ienv) constIsVal(x ast.Expr, want constant.Value) bool {
	tv := e.tv(unparen(x))
	return tv.Value != nil && constant.ToFloat(tv.Value).Kind() != constant.Unknown && sameF64(tv.Value, want)
}

func (e *ienv) structOf(p token.Pos, t types.Type) (*structSpec, *types.Struct) {
	sp, ok := structs[typeKey(t)]
	if !ok {
		fatal(p, "struct type %s is outside the translated subset", t)
	}
	return sp, t.Underlying().(*types.Struct)
}

func (e *ienv) composite(c *ast.CompositeLit) string {
	t := e.tv(c).Type
	sp, _ := e.structOf(c.Pos(), t)
	vals := make([]string, len(sp.fields))
	if len(c.Elts) != len(sp.fields) {
		fatal(c.Pos(), "composite literal `%s` does not give every field (zero values are outside the translated subset)", oneLine(c))
	}
	for i, el := range c.Elts {
		if kv, ok := el.(*ast.KeyValueExpr); ok {
			name := kv.Key.(*ast.Ident).Name
			j := -1
			for k, f := range sp.fields {
				if f[0] == name {
					j = k
				}
			}
			if j < 0 || vals[j] != "" {
				fatal(kv.Pos(), "bad field %s", name)
			}
			vals[j] = e.atom(kv.Value)
		} else {
			vals[i] = e.atom(el)
		}
	}
	for i, v := range vals {
		if v == "" {
			fatal(c.Pos(), "field %s missing in composite literal", sp.fields[i][0])
		}
	}
	return sp.lean + ".mk " + strings.Join(vals, " ")
}

func (e *ienv) expr(x ast.Expr) string {
	x = unparen(x)
	tv := e.tv(x)
	if tv.Value != nil {
		return e.constant(x.Pos(), tv, x)
	}
	switch v := x.(type) {
	case *ast.Ident:
		switch o := e.obj(v).(type) {
		case *types.Var:
			if o.Pkg() != nil && o.Parent() == o.Pkg().Scope() {
				return e.pkgVar(v.Pos(), o)
			}
			return leanLocal(o.Name())
		}
		fatal(v.Pos(), "identifier %s is outside the translated subset", v.Name)
	case *ast.SelectorExpr:
		if sel, ok := e.pi.info.Selections[v]; ok {
			if sel.Kind() != types.FieldVal || len(sel.Index()) != 1 {
				fatal(v.Pos(), "selector `%s` is outside the translated subset", oneLine(v))
			}
			sp, _ := e.structOf(v.Pos(), derefType(e.tv(v.X).Type))
			return e.atom(v.X) + "." + lowerFirst(sp.fields[sel.Index()[0]][0])
		}
		if o, ok := e.obj(v.Sel).(*types.Var); ok {
			return e.pkgVar(v.Pos(), o)
		}
		fatal(v.Pos(), "qualified identifier `%s` is outside the translated subset", oneLine(v))
	case *ast.UnaryExpr:
		if v.Op == token.NOT {
			return "!" + e.atom(v.X)
		}
		fatal(v.Pos(), "unary %s on a non-constant has no carrier operation", v.Op)
	case *ast.BinaryExpr:
		return e.binary(v)
	case *ast.CallExpr:
		return e.call(v)
	case *ast.CompositeLit:
		return e.composite(v)
	}
	fatal(x.Pos(), "expression `%s` (%T) is outside the translated subset", oneLine(x), x)
	return ""
}

func derefType(t types.Type) types.Type {
	if p, ok := t.(*types.Pointer); ok {
		return p.Elem()
	}
	return t
}

func (e *ienv) pkgVar(p token.Pos, o *types.Var) string {
	key := o.Pkg().Name() + "." + o.Name()
	ln, ok := e.g.reg[key]
	if !ok {
		fatal(p, "package variable %s is not translated", key)
	}
	return "(" + ln + " : " + strings.Trim(e.g.leanType(p, o.Type()), "()") + ")"
}

// ---- statements

func terminates(list []ast.Stmt) bool {
	if len(list) == 0 {
		return false
	}
	switch v := list[len(list)-1].(type) {
	case *ast.ReturnStmt:
		return true
	case *ast.BlockStmt:
		return terminates(v.List)
	case *ast.IfStmt:
		if v.Else == nil {
			return false
		}
		return terminates(v.Body.List) && terminates(elseList(v.Else))
	case *ast.ExprStmt:
		if c, ok := v.X.(*ast.CallExpr); ok {
			if id, ok := c.Fun.(*ast.Ident); ok && id.Name == "panic" {
				return true
			}
		}
	}
	return false
}

func elseList(s ast.Stmt) []ast.Stmt {
	switch v := s.(type) {
	case nil:
		return nil
	case *ast.BlockStmt:
		return v.List
	default:
		return []ast.Stmt{v}
	}
}

func hasReturn(list []ast.Stmt) bool {
	found := false
	for _, s := range list {
		ast.Inspect(s, func(n ast.Node) bool {
			if _, ok := n.(*ast.ReturnStmt); ok {
				found = true
			}
			return !found
		})
	}
	return found
}

// assignTarget: the local variable an assignment statement writes (x = e, x op= e, x.F = e).
func (e *ienv) assignTarget(lhs ast.Expr) (*types.Var, *ast.SelectorExpr) {
	switch v := unparen(lhs).(type) {
	case *ast.Ident:
		if o, ok := e.obj(v).(*types.Var); ok && !(o.Pkg() != nil && o.Parent() == o.Pkg().Scope()) {
			return o, nil
		}
	case *ast.SelectorExpr:
		if id, ok := unparen(v.X).(*ast.Ident); ok {
			if o, ok := e.obj(id).(*types.Var); ok && !(o.Pkg() != nil && o.Parent() == o.Pkg().Scope()) {
				if _, isPtr := o.Type().(*types.Pointer); isPtr {
					fatal(lhs.Pos(), "store through a pointer is outside the translated subset")
				}
				return o, v
			}
		}
	}
	fatal(lhs.Pos(), "assignment target `%s` is outside the translated subset", oneLine(lhs))
	return nil, nil
}

var assignOps = map[token.Token]token.Token{token.ADD_ASSIGN: token.ADD, token.SUB_ASSIGN: token.SUB, token.MUL_ASSIGN: token.MUL, token.QUO_ASSIGN: token.QUO}

// assignValue returns (variable, Lean value of the variable after the statement).
func (e *ienv) assignValue(v *ast.AssignStmt) (*types.Var, string) {
	if len(v.Lhs) != 1 || len(v.Rhs) != 1 {
		fatal(v.Pos(), "multiple assignment is outside the translated subset")
	}
	if v.Tok == token.DEFINE {
		id, ok := v.Lhs[0].(*ast.Ident)
		if !ok {
			fatal(v.Pos(), "bad :=")
		}
		o, _ := e.pi.info.Defs[id].(*types.Var)
		if o == nil {
			fatal(v.Pos(), ":= that redeclares is outside the translated subset")
		}
		// a := in a nested block must not shadow an outer local: the continuation is shared textually
		if sc := o.Parent(); sc != nil && sc.Parent() != nil {
			if _, outer := sc.Parent().LookupParent(o.Name(), v.Pos()); outer != nil {
				if ov, ok := outer.(*types.Var); ok && !(ov.Pkg() != nil && ov.Parent() == ov.Pkg().Scope()) && e.fd.Body.Pos() <= sc.Pos() && sc.Pos() != e.fd.Body.Pos() {
					fatal(v.Pos(), "`%s` shadows an outer local in a nested block", o.Name())
				}
			}
		}
		return o, e.expr(v.Rhs[0])
	}
	o, sel := e.assignTarget(v.Lhs[0])
	var rhs string
	if v.Tok == token.ASSIGN {
		rhs = e.expr(v.Rhs[0])
	} else {
		op, ok := assignOps[v.Tok]
		if !ok {
			fatal(v.Pos(), "assignment operator %s is outside the translated subset", v.Tok)
		}
		// x op= e  is  x = x op (e)
		b := &ast.BinaryExpr{X: v.Lhs[0], OpPos: v.TokPos, Op: op, Y: v.Rhs[0]}
		e.pi.info.Types[b] = types.TypeAndValue{Type: e.tv(v.Lhs[0]).Type}
		rhs = e.binary(b)
	}
	if sel == nil {
		return o, rhs
	}
	// field store: rebuild the structure
	selInfo := e.pi.info.Selections[sel]
	if selInfo == nil || selInfo.Kind() != types.FieldVal || len(selInfo.Index()) != 1 {
		fatal(sel.Pos(), "store to `%s` is outside the translated subset", oneLine(sel))
	}
	sp, _ := e.structOf(sel.Pos(), o.Type())
	var parts []string
	for j, f := range sp.fields {
		if j == selInfo.Index()[0] {
			parts = append(parts, atomize(rhs))
		} else {
			parts = append(parts, leanLocal(o.Name())+"."+lowerFirst(f[0]))
		}
	}
	return o, sp.lean + ".mk " + strings.Join(parts, " ")
}

type contFn func(ind string) string

func (e *ienv) seq(list []ast.Stmt, ind string, k contFn, end token.Pos) string {
	if len(list) == 0 {
		if k == nil {
			fatal(end, "control reaches the end of %s without a return", e.name)
		}
		return k(ind)
	}
	rest := list[1:]
	cont := func(ind string) string { return e.seq(rest, ind, k, end) }
	switch v := list[0].(type) {
	case *ast.ReturnStmt:
		if len(rest) != 0 {
			fatal(rest[0].Pos(), "unreachable statement")
		}
		if len(v.Results) != 1 {
			fatal(v.Pos(), "return of %d values is outside the translated subset", len(v.Results))
		}
		return ind + e.expr(v.Results[0]) + "\n"
	case *ast.BlockStmt:
		fatal(v.Pos(), "bare block is outside the translated subset")
	case *ast.AssignStmt:
		o, val := e.assignValue(v)
		return ind + "let " + leanLocal(o.Name()) + " := " + val + "\n" + cont(ind)
	case *ast.IfStmt:
		if v.Init != nil {
			fatal(v.Init.Pos(), "if with an initialiser is outside the translated subset")
		}
		c := e.cond(v.Cond)
		body, els := v.Body.List, elseList(v.Else)
		bt, et := terminates(body), v.Else != nil && terminates(els)
		switch {
		case bt && v.Else == nil:
			return ind + "if " + c + " then\n" + e.seq(body, ind+"  ", nil, v.Body.End()) + ind + "else\n" + cont(ind)
		case bt && et:
			if len(rest) != 0 {
				fatal(rest[0].Pos(), "unreachable statement")
			}
			return ind + "if " + c + " then\n" + e.seq(body, ind+"  ", nil, v.Body.End()) + ind + "else\n" + e.seq(els, ind+"  ", nil, v.Else.End())
		case !hasReturn(body) && !hasReturn(els):
			// pure conditional update of ONE local: let x := if c then e else x
			if len(body) != 1 || len(els) > 1 {
				fatal(v.Pos(), "conditional update with more than one statement per branch is outside the translated subset")
			}
			as, ok := body[0].(*ast.AssignStmt)
			if !ok || as.Tok == token.DEFINE {
				fatal(body[0].Pos(), "statement in a conditional update is outside the translated subset")
			}
			o, val := e.assignValue(as)
			other := leanLocal(o.Name())
			if len(els) == 1 {
				as2, ok := els[0].(*ast.AssignStmt)
				if !ok || as2.Tok == token.DEFINE {
					fatal(els[0].Pos(), "statement in a conditional update is outside the translated subset")
				}
				o2, val2 := e.assignValue(as2)
				if o2 != o {
					fatal(els[0].Pos(), "the two branches update different variables")
				}
				other = val2
			}
			return ind + "let " + leanLocal(o.Name()) + " := if " + c + " then " + val + " else " + other + "\n" + cont(ind)
		default:
			// branches with returns that may fall through: the rest of the function follows in both branches
			for _, blk := range [][]ast.Stmt{body, els} {
				for _, s := range blk {
					ast.Inspect(s, func(n ast.Node) bool {
						if a, ok := n.(*ast.AssignStmt); ok {
							fatal(a.Pos(), "assignment inside a branch that both returns and falls through is outside the translated subset")
						}
						if a, ok := n.(*ast.IncDecStmt); ok {
							fatal(a.Pos(), "++/-- is outside the translated subset")
						}
						return true
					})
				}
			}
			k2 := contFn(cont)
			if len(rest) == 0 {
				k2 = k
			}
			return ind + "if " + c + " then\n" + e.seq(body, ind+"  ", k2, end) + ind + "else\n" + e.seq(els, ind+"  ", k2, end)
		}
	}
	fatal(list[0].Pos(), "statement `%s` (%T) is outside the translated subset", oneLine(list[0]), list[0])
	return ""
}

// fn translates one function or method.
func (g *ivlGen) fn(pkg, key, lean string) {
	pi := g.pkgs[pkg]
	fd := findFunc(pi, key)
	e := &ienv{g: g, pi: pi, fd: fd, name: pkg + "." + key}
	var params []string
	n := 0
	addParams := func(fl *ast.FieldList) {
		if fl == nil {
			return
		}
		for _, f := range fl.List {
			if len(f.Names) == 0 {
				fatal(f.Pos(), "unnamed parameter")
			}
			for _, id := range f.Names {
				o := pi.info.Defs[id]
				if _, ptr := o.Type().(*types.Pointer); ptr {
					fatal(id.Pos(), "pointer parameter/receiver is outside the translated subset")
				}
				params = append(params, fmt.Sprintf("(%s : %s)", leanLocal(id.Name), strings.Trim(g.leanType(id.Pos(), o.Type()), "()")))
				n++
			}
		}
	}
	addParams(fd.Recv)
	addParams(fd.Type.Params)
	if fd.Type.Results == nil || len(fd.Type.Results.List) != 1 || len(fd.Type.Results.List[0].Names) > 1 {
		fatal(fd.Pos(), "%s: exactly one result expected", key)
	}
	if len(fd.Type.Results.List[0].Names) == 1 {
		fatal(fd.Pos(), "%s: named result is outside the translated subset", key)
	}
	rt := strings.Trim(g.leanType(fd.Type.Results.Pos(), pi.info.Types[fd.Type.Results.List[0].Type].Type), "()")
	body := e.seq(fd.Body.List, "  ", nil, fd.Body.End())
	sig := oneLine(&ast.FuncDecl{Recv: fd.Recv, Name: fd.Name, Type: fd.Type})
	ps := ""
	if len(params) > 0 {
		ps = " " + strings.Join(params, " ")
	}
	fmt.Fprintf(g.out, "/-- %s: `%s` -/\ndef %s%s : %s :=\n%s\n", relline(fd.Pos()), sig, lean, ps, rt, body)
	fk := pkg + "." + key
	if _, dup := g.reg[fk]; dup {
		die("internal: %s translated twice", fk)
	}
	g.reg[fk] = lean
	g.arity[fk] = n
	g.facts = append(g.facts, fact{Name: fk, Kind: "func", Pos: relline(fd.Pos()), Lean: "S2.Generated.IntervalFns." + lean, Sha256: sha(src(fd))})
}

// pvar translates a package-level variable by its initialiser.
func (g *ivlGen) pvar(pkg, name, lean string) {
	pi := g.pkgs[pkg]
	vs, i := findVarSpec(pi, name)
	e := &ienv{g: g, pi: pi, name: pkg + "." + name}
	o := pi.info.Defs[vs.Names[i]]
	rt := strings.Trim(g.leanType(vs.Pos(), o.Type()), "()")
	fmt.Fprintf(g.out, "/-- %s: `var %s = %s` -/\ndef %s : %s :=\n  %s\n\n", relline(vs.Pos()), name, oneLine(vs.Values[i]), lean, rt, e.expr(vs.Values[i]))
	g.reg[pkg+"."+name] = lean
	g.arity[pkg+"."+name] = 0
	g.facts = append(g.facts, fact{Name: pkg + "." + name, Kind: "var", Pos: relline(vs.Pos()), Lean: "S2.Generated.IntervalFns." + lean, Sha256: sha(src(vs.Values[i]))})
}

const ivlPrelude = `/-
  GENERATED by translator_c19 from r1/interval.go, s1/interval.go, r2/rect.go, s2/rect.go, s2/latlng.go, s1/angle.go
  — do not edit.  Regenerated on every run of ./check; S2Proofs/Ties/C19.lean proves that the hand model
  S2.Interval equals these definitions.

  The definitions are generic over the number carrier of the hand model (class S2.IvlOps + core order classes).
  Translation rules: see the header of translator_c19/main.go.  Go's a >= b is written b ≤ a.
-/
import S2.Interval
namespace S2.Generated.IntervalFns
open S2 S2.IvlOps

`

func genIntervals(ld *loader, facts *[]fact) string {
	g := &ivlGen{out: &bytes.Buffer{}, reg: map[string]string{}, arity: map[string]int{}, pkgs: map[string]*pkgInfo{}}
	for _, p := range []string{"r1", "s1", "r2", "s2"} {
		pi, err := ld.load(modPrefix + p)
		if err != nil {
			die("type-checking %s/%s failed: %v", repoRoot, p, err)
		}
		g.pkgs[p] = pi
	}
	// math.Pi as the compiler sees it
	var mathPi constant.Value
	for _, im := range g.pkgs["s1"].pkg.Imports() {
		if im.Path() == "math" {
			mathPi = im.Scope().Lookup("Pi").(*types.Const).Val()
		}
	}
	if mathPi == nil {
		die("package s1 no longer imports math")
	}
	mk := func(num, den int64) constant.Value {
		return constant.BinaryOp(constant.BinaryOp(constant.ToFloat(constant.MakeInt64(num)), token.MUL, mathPi), token.QUO, constant.ToFloat(constant.MakeInt64(den)))
	}
	g.consts = []namedConst{
		{"zero", constant.ToFloat(constant.MakeInt64(0)), "0"},
		{"one", constant.ToFloat(constant.MakeInt64(1)), "1"},
		{"negOne", constant.ToFloat(constant.MakeInt64(-1)), "-1"},
		{"pi", mk(1, 1), "math.Pi"},
		{"negPi", mk(-1, 1), "-math.Pi"},
		{"twoPi", mk(2, 1), "2*math.Pi"},
		{"halfPi", mk(1, 2), "math.Pi/2"},
		{"negHalfPi", mk(-1, 2), "-math.Pi/2"},
	}
	g.out.WriteString(ivlPrelude)
	g.checkStructs()

	// float64 values of the carrier constants (one rounding, as the compiler does) and of s1.dblEpsilon
	g.out.WriteString("/-! ### float64 bit patterns of the constants the Go code uses (for the `S2.IvlF64` instance) -/\n")
	for _, c := range g.consts {
		fmt.Fprintf(g.out, "/-- `%s` -/\ndef bits_%s : UInt64 := 0x%016x\n", c.doc, c.name, f64bits(token.NoPos, c.val))
	}
	{
		pi := g.pkgs["s1"]
		vs, i := findVarSpec(pi, "dblEpsilon")
		tv := pi.info.Types[vs.Values[i]]
		if tv.Value == nil || !isFloatKey(typeKey(pi.info.Defs[vs.Names[i]].Type())) {
			fatal(vs.Pos(), "s1.dblEpsilon is no longer a float64 initialised by a constant")
		}
		fmt.Fprintf(g.out, "/-- %s: `dblEpsilon = %s` (package s1) -/\ndef bits_s1_dblEpsilon : UInt64 := 0x%016x\n", relline(vs.Pos()), oneLine(vs.Values[i]), f64bits(vs.Pos(), tv.Value))
		g.facts = append(g.facts, fact{Name: "s1.dblEpsilon", Kind: "const", Pos: relline(vs.Pos()), Lean: "S2.Generated.IntervalFns.bits_s1_dblEpsilon", Sha256: sha(tv.Value.ExactString())})
	}
	fmt.Fprintf(g.out, "/-- the factors of `0.5 * x` / `x / 2` and `2 * x` -/\ndef bits_half : UInt64 := 0x%016x\ndef bits_two : UInt64 := 0x%016x\n\n", math.Float64bits(0.5), math.Float64bits(2))

	g.out.WriteString("section\nvariable {α : Type} [LE α] [LT α] [DecidableLE α] [DecidableLT α] [Max α] [Min α] [IvlOps α]\n\n")

	g.out.WriteString("/-! ## r1/interval.go -/\n\n")
	for _, k := range []string{"EmptyInterval", "IntervalFromPoint", "Interval.IsEmpty", "Interval.Equal", "Interval.Center", "Interval.Length",
		"Interval.Contains", "Interval.ContainsInterval", "Interval.InteriorContains", "Interval.InteriorContainsInterval",
		"Interval.Intersects", "Interval.InteriorIntersects", "Interval.Intersection", "Interval.AddPoint", "Interval.ClampPoint",
		"Interval.Expanded", "Interval.Union"} {
		g.fn("r1", k, "R1_"+strings.TrimPrefix(k, "Interval."))
	}
	g.out.WriteString("/-! ## s1/interval.go, s1/angle.go -/\n\n")
	g.fn("s1", "Angle.Radians", "Angle_Radians")
	for _, k := range []string{"IntervalFromEndpoints", "positiveDistance", "IntervalFromPointPair", "EmptyInterval", "FullInterval",
		"Interval.IsValid", "Interval.IsFull", "Interval.IsEmpty", "Interval.IsInverted", "Interval.Invert", "Interval.Center",
		"Interval.Length", "Interval.fastContains", "Interval.Contains", "Interval.ContainsInterval", "Interval.InteriorContains",
		"Interval.InteriorContainsInterval", "Interval.Intersects", "Interval.InteriorIntersects", "Interval.Union",
		"Interval.Intersection", "Interval.AddPoint", "Interval.Expanded", "Interval.Complement", "Interval.ComplementCenter",
		"Interval.Project"} {
		g.fn("s1", k, "S1_"+strings.TrimPrefix(k, "Interval."))
	}
	g.out.WriteString("/-! ## r2/rect.go -/\n\n")
	for _, k := range []string{"RectFromCenterSize", "EmptyRect"} {
		g.fn("r2", k, "R2_"+k)
	}
	for _, k := range []string{"IsValid", "IsEmpty", "Center", "Size", "ContainsPoint", "InteriorContainsPoint", "Contains",
		"InteriorContains", "Intersects", "InteriorIntersects", "AddPoint", "AddRect", "ClampPoint", "Expanded", "Union", "Intersection"} {
		g.fn("r2", "Rect."+k, "R2Rect_"+k)
	}
	g.out.WriteString("/-! ## s2/latlng.go, s2/rect.go -/\n\n")
	g.fn("s2", "LatLng.IsValid", "LatLng_IsValid")
	g.pvar("s2", "validRectLatRange", "S2_validRectLatRange")
	g.pvar("s2", "validRectLngRange", "S2_validRectLngRange")
	for _, k := range []string{"EmptyRect", "FullRect", "RectFromLatLng"} {
		g.fn("s2", k, "S2_"+k)
	}
	for _, k := range []string{"IsValid", "IsEmpty", "IsFull", "IsPoint", "Center", "Size", "AddPoint", "expanded"} {
		g.fn("s2", "Rect."+k, "LLRect_"+k)
	}
	g.fn("s2", "RectFromCenterSize", "S2_RectFromCenterSize")
	for _, k := range []string{"PolarClosure", "Union", "Intersection", "Intersects", "Contains", "ContainsLatLng"} {
		g.fn("s2", "Rect."+k, "LLRect_"+k)
	}
	g.out.WriteString("end\n\nend S2.Generated.IntervalFns\n")
	*facts = append(*facts, g.facts...)
	return g.out.String()
}

// ---------------------------------------------------------------- main

func writeFile(dir, name, content string) {
	if err := os.WriteFile(filepath.Join(dir, name), []byte(content), 0o644); err != nil {
		die("%v", err)
	}
}

func main() {
	repo := flag.String("repo", "/repo", "golang/geo checkout")
	outDir := flag.String("out", "", "output directory (lean/S2/Generated)")
	factsPath := flag.String("facts", "", "facts.json to write")
	flag.Parse()
	if *outDir == "" {
		fmt.Fprintln(os.Stderr, "need -out")
		os.Exit(2)
	}
	abs, err := filepath.Abs(*repo)
	if err != nil {
		die("%v", err)
	}
	repoRoot = abs
	ld := &loader{fset: fset, repo: abs, std: importer.ForCompiler(fset, "source", nil), pk: map[string]*pkgInfo{}}
	if err := os.MkdirAll(*outDir, 0o755); err != nil {
		die("%v", err)
	}
	var facts []fact
	files := map[string]string{}
	files["IntervalFns.lean"] = genIntervals(ld, &facts)
	genRest(ld, &facts, files)
	var names []string
	for n := range files {
		names = append(names, n)
	}
	sort.Strings(names)
	type fileFact struct {
		File   string `json:"file"`
		Sha256 string `json:"sha256"`
	}
	var ff []fileFact
	for _, n := range names {
		writeFile(*outDir, n, files[n])
		ff = append(ff, fileFact{n, sha(files[n])})
	}
	if *factsPath != "" {
		js, _ := json.MarshalIndent(map[string]interface{}{"translator": tool, "files": ff, "items": facts}, "", " ")
		if err := os.WriteFile(*factsPath, append(js, '\n'), 0o644); err != nil {
			die("%v", err)
		}
	}
	fmt.Printf("%s: %d items translated into %d files\n", tool, len(facts), len(names))
}
