package main

// Part 3 (C13): the per-call option bookkeeping of s2/edge_query.go + s2/query_options.go, and the field writes of
// ShapeIndex.Reset / Add.
//
// Besides the skeleton (conditions / values / shape) of every function, the translator emits an EVENT LIST per
// function: what happens to option objects, in source order, with every name resolved by go/types:
//
//	x := *p            copy  x p        (a new options object with the contents of what p points to)
//	x := e.opts        save  x          (pointer copy)
//	e.opts = p         store p
//	p.Setter(v)…       set p field v    (field = the field the setter of query_options.go writes; chains in call order)
//	e.f(target, p, l)  call f p l       (f one of the translated EdgeQuery methods)
//	e.target.setMaxError(v)  tsetMaxError guards v   (guards = the conditions under which the call is evaluated: enclosing
//	                         if-conditions and the left operands of enclosing && / ||, as text, negated ones prefixed
//	                         with "!"; [] = evaluated whenever control reaches the statement.  v = `optsField f` for
//	                         <options parameter>.f)
//
// References: `eopts` (e.opts), `param` (the *queryOptions parameter), `loc i` (pointer local i), `addr i` (&local i /
// method call on the addressable struct local i).  Values: integer constants, the ChordAngle parameter (`limit`),
// `limit.Expanded(±minUpdateDistanceMaxError(limit))`, `s1.StraightChordAngle`; anything else is kept as text.
// S2Proofs/Ties/C13.lean runs these lists on an abstract heap and proves that the options object reaching
// findEdgesInternal is `QKind.override` of the caller's options and that e.opts and the caller's object are
// unchanged afterwards — the `d8 = true` behaviour of S2.History.eqCall.

import (
	"bytes"
	"fmt"
	"go/ast"
	"go/constant"
	"go/token"
	"go/types"
	"strings"
)

var qFns = []string{"FindEdges", "Distance", "IsDistanceLess", "IsDistanceGreater", "IsConservativeDistanceLessOrEqual",
	"IsConservativeDistanceGreaterOrEqual", "findEdges", "findEdge", "findEdgesInternal"}

type evGen struct {
	s       *skel
	fd      *ast.FuncDecl
	recv    types.Object
	optsPar types.Object // the *queryOptions parameter
	limPar  types.Object // the s1.ChordAngle parameter
	locals  []types.Object
	evs     []string
	setters map[string][2]string // method name -> field, "id" | "other"
	guards  []string             // conditions under which the expression being visited is evaluated
}

func (g *evGen) push(c string) { g.guards = append(g.guards, c) }
func (g *evGen) pop()          { g.guards = g.guards[:len(g.guards)-1] }

// shortCircuit visits `l && r` / `l || r`: r is evaluated only under l / !l.
func (g *evGen) shortCircuit(b *ast.BinaryExpr) {
	g.expr(b.X)
	c := oneLine(b.X)
	if b.Op == token.LOR {
		c = "!(" + c + ")"
	}
	g.push(c)
	g.expr(b.Y)
	g.pop()
}

// inspect visits the calls inside x in evaluation order, keeping track of short-circuit guards.
func (g *evGen) inspect(x ast.Node) {
	ast.Inspect(x, func(n ast.Node) bool {
		switch v := n.(type) {
		case *ast.BinaryExpr:
			if v.Op == token.LAND || v.Op == token.LOR {
				g.shortCircuit(v)
				return false
			}
		case *ast.CallExpr:
			g.expr(v)
			return false
		case *ast.FuncLit:
			// a closure body runs when (and if) its callee calls it
			g.push("<closure>")
			g.stmts(v.Body.List)
			g.pop()
			return false
		}
		return true
	})
}

// isTargetCall recognises e.target.<name>(…) / target.<name>(…) for the distanceTarget parameter or field.
func (g *evGen) isTargetMethod(c *ast.CallExpr, name string) bool {
	sel, ok := unparen(c.Fun).(*ast.SelectorExpr)
	if !ok || sel.Sel.Name != name {
		return false
	}
	t := g.s.pi.info.Types[sel.X].Type
	n, ok := t.(*types.Named)
	return ok && n.Obj().Name() == "distanceTarget"
}

// optsField: <options parameter>.f
func (g *evGen) optsField(x ast.Expr) (string, bool) {
	sel, ok := unparen(x).(*ast.SelectorExpr)
	if !ok {
		return "", false
	}
	id, ok := unparen(sel.X).(*ast.Ident)
	if !ok || g.optsPar == nil || g.obj(id) != g.optsPar {
		return "", false
	}
	return sel.Sel.Name, true
}

func isQueryOptions(t types.Type) bool {
	n, ok := t.(*types.Named)
	return ok && n.Obj().Name() == "queryOptions" && n.Obj().Pkg().Name() == "s2"
}

func isQueryOptionsPtr(t types.Type) bool {
	p, ok := t.(*types.Pointer)
	return ok && isQueryOptions(p.Elem())
}

func (g *evGen) obj(id *ast.Ident) types.Object {
	if o := g.s.pi.info.Uses[id]; o != nil {
		return o
	}
	return g.s.pi.info.Defs[id]
}

func (g *evGen) local(o types.Object) int {
	for i, l := range g.locals {
		if l == o {
			return i
		}
	}
	g.locals = append(g.locals, o)
	return len(g.locals) - 1
}

func (g *evGen) isEOpts(x ast.Expr) bool {
	sel, ok := unparen(x).(*ast.SelectorExpr)
	if !ok || sel.Sel.Name != "opts" {
		return false
	}
	id, ok := unparen(sel.X).(*ast.Ident)
	return ok && g.obj(id) == g.recv
}

// ref resolves a pointer-valued expression (or an addressable options struct used as a method receiver).
func (g *evGen) ref(x ast.Expr) string {
	x = unparen(x)
	if g.isEOpts(x) {
		return ".eopts"
	}
	switch v := x.(type) {
	case *ast.Ident:
		o := g.obj(v)
		if o == g.optsPar {
			return ".param"
		}
		if isQueryOptionsPtr(o.Type()) {
			return fmt.Sprintf("(.loc %d)", g.local(o))
		}
		if isQueryOptions(o.Type()) {
			return fmt.Sprintf("(.addr %d)", g.local(o))
		}
	case *ast.UnaryExpr:
		if v.Op == token.AND {
			if id, ok := unparen(v.X).(*ast.Ident); ok && isQueryOptions(g.obj(id).Type()) {
				return fmt.Sprintf("(.addr %d)", g.local(g.obj(id)))
			}
		}
	}
	fatal(x.Pos(), "option reference `%s` is outside the translated subset", oneLine(x))
	return ""
}

func (g *evGen) isLimit(x ast.Expr) bool {
	id, ok := unparen(x).(*ast.Ident)
	return ok && g.limPar != nil && g.obj(id) == g.limPar
}

func (g *evGen) val(x ast.Expr) string {
	x = unparen(x)
	if tv, ok := g.s.pi.info.Types[x]; ok && tv.Value != nil && kindOfType(tv.Type) == "Int" {
		return "(.int " + litOf(x.Pos(), tv.Value, "Int") + ")"
	}
	if g.isLimit(x) {
		return ".limit"
	}
	if sel, ok := x.(*ast.SelectorExpr); ok {
		if o, ok := g.s.pi.info.Uses[sel.Sel].(*types.Const); ok && o.Pkg().Name() == "s1" && o.Name() == "StraightChordAngle" {
			return ".straight"
		}
	}
	// limit.Expanded(±minUpdateDistanceMaxError(limit))
	if c, ok := x.(*ast.CallExpr); ok && len(c.Args) == 1 {
		if sel, ok := unparen(c.Fun).(*ast.SelectorExpr); ok && sel.Sel.Name == "Expanded" && g.isLimit(sel.X) {
			a := unparen(c.Args[0])
			neg := false
			if u, ok := a.(*ast.UnaryExpr); ok && u.Op == token.SUB {
				neg = true
				a = unparen(u.X)
			}
			if ic, ok := a.(*ast.CallExpr); ok && len(ic.Args) == 1 && g.isLimit(ic.Args[0]) {
				if id, ok := unparen(ic.Fun).(*ast.Ident); ok && id.Name == "minUpdateDistanceMaxError" {
					if neg {
						return ".limitShrunk"
					}
					return ".limitExpanded"
				}
			}
		}
	}
	return "(.other " + leanString(oneLine(x)) + ")"
}

// expr emits the events of the calls inside x, in evaluation order; returns the option reference x denotes when x
// is a setter chain (so that chains compose), "" otherwise.
func (g *evGen) expr(x ast.Expr) string {
	x = unparen(x)
	c, ok := x.(*ast.CallExpr)
	if !ok {
		// look for calls in sub-expressions
		g.inspect(x)
		return ""
	}
	if g.isTargetMethod(c, "setMaxError") {
		if len(c.Args) != 1 {
			fatal(c.Pos(), "setMaxError with %d arguments", len(c.Args))
		}
		v := "(.other " + leanString(oneLine(c.Args[0])) + ")"
		if f, ok := g.optsField(c.Args[0]); ok {
			v = "(.optsField ." + f + ")"
		}
		var gs []string
		for _, x := range g.guards {
			gs = append(gs, leanString(x))
		}
		g.evs = append(g.evs, fmt.Sprintf(".tsetMaxError [%s] %s", strings.Join(gs, ", "), v))
		return ""
	}
	if sel, ok := unparen(c.Fun).(*ast.SelectorExpr); ok {
		if si, ok := g.s.pi.info.Selections[sel]; ok && si.Kind() == types.MethodVal {
			fn := si.Obj().(*types.Func)
			rt := si.Recv()
			if p, ok := rt.(*types.Pointer); ok {
				rt = p.Elem()
			}
			switch {
			case isQueryOptions(rt):
				st, known := g.setters[fn.Name()]
				if !known {
					fatal(c.Pos(), "method %s of queryOptions is not a setter", fn.Name())
				}
				base := ""
				if inner, ok := unparen(sel.X).(*ast.CallExpr); ok {
					base = g.expr(inner)
					if base == "" {
						fatal(c.Pos(), "setter on the result of a non-setter call")
					}
				} else {
					base = g.ref(sel.X)
				}
				if len(c.Args) != 1 {
					fatal(c.Pos(), "setter with %d arguments", len(c.Args))
				}
				v := g.val(c.Args[0])
				if st[1] != "id" {
					v = "(.other " + leanString(fn.Name()+"("+oneLine(c.Args[0])+")") + ")"
				}
				g.evs = append(g.evs, fmt.Sprintf(".set %s .%s %s", base, st[0], v))
				return base
			case typeKey(rt) == "s2.EdgeQuery":
				isQ := false
				for _, q := range qFns {
					if q == fn.Name() {
						isQ = true
					}
				}
				if isQ {
					if id, ok := unparen(sel.X).(*ast.Ident); !ok || g.obj(id) != g.recv {
						fatal(c.Pos(), "query method called on something other than the receiver")
					}
					or, lv := ".none", ".none"
					for _, a := range c.Args {
						t := g.s.pi.info.Types[a].Type
						switch {
						case isQueryOptionsPtr(t):
							or = "(.some " + g.ref(a) + ")"
						case typeKey(t) == "s1.ChordAngle":
							lv = "(.some " + g.val(a) + ")"
						}
					}
					g.evs = append(g.evs, fmt.Sprintf(".call .%s %s %s", fn.Name(), or, lv))
					return ""
				}
			}
		}
	}
	// any other call: its receiver and arguments may contain calls
	g.inspect(c.Fun)
	for _, a := range c.Args {
		if t := g.s.pi.info.Types[a].Type; t != nil && isQueryOptionsPtr(t) {
			fatal(a.Pos(), "options pointer passed to untranslated function `%s`", oneLine(c.Fun))
		}
		if fl, ok := unparen(a).(*ast.FuncLit); ok {
			g.inspect(fl)
			continue
		}
		g.expr(a)
	}
	return ""
}

func (g *evGen) stmts(list []ast.Stmt) {
	for _, s := range list {
		g.stmt(s)
	}
}

func (g *evGen) stmt(s ast.Stmt) {
	switch v := s.(type) {
	case nil:
	case *ast.BlockStmt:
		g.stmts(v.List)
	case *ast.AssignStmt:
		if len(v.Lhs) == 1 && len(v.Rhs) == 1 {
			l, r := unparen(v.Lhs[0]), unparen(v.Rhs[0])
			if st, ok := r.(*ast.StarExpr); ok && isQueryOptions(g.s.pi.info.Types[r].Type) {
				id, ok := l.(*ast.Ident)
				if !ok || v.Tok != token.DEFINE {
					fatal(v.Pos(), "options copy into something other than a new local")
				}
				g.evs = append(g.evs, fmt.Sprintf(".copy %d %s", g.local(g.obj(id)), g.ref(st.X)))
				return
			}
			if g.isEOpts(l) {
				g.evs = append(g.evs, ".store "+g.ref(r))
				return
			}
			if g.isEOpts(r) {
				id, ok := l.(*ast.Ident)
				if !ok || v.Tok != token.DEFINE {
					fatal(v.Pos(), "e.opts saved into something other than a new local")
				}
				g.evs = append(g.evs, fmt.Sprintf(".save %d", g.local(g.obj(id))))
				return
			}
			if t := g.s.pi.info.Types[r].Type; t != nil && (isQueryOptionsPtr(t) || isQueryOptions(t)) {
				fatal(v.Pos(), "assignment of options `%s` is outside the translated subset", oneLine(v))
			}
		}
		for _, r := range v.Rhs {
			g.expr(r)
		}
	case *ast.ExprStmt:
		g.expr(v.X)
	case *ast.ReturnStmt:
		for _, r := range v.Results {
			g.expr(r)
		}
	case *ast.IfStmt:
		g.stmt(v.Init)
		g.expr(v.Cond)
		g.push(oneLine(v.Cond))
		g.stmts(v.Body.List)
		g.pop()
		g.push("!(" + oneLine(v.Cond) + ")")
		g.stmt(v.Else)
		g.pop()
	case *ast.ForStmt:
		g.stmt(v.Init)
		if v.Cond != nil {
			g.expr(v.Cond)
		}
		g.push("<loop>")
		g.stmts(v.Body.List)
		g.stmt(v.Post)
		g.pop()
	case *ast.RangeStmt:
		g.expr(v.X)
		g.push("<loop>")
		g.stmts(v.Body.List)
		g.pop()
	case *ast.IncDecStmt, *ast.BranchStmt, *ast.DeclStmt:
	default:
		fatal(s.Pos(), "statement `%s` (%T) is outside the translated subset", oneLine(s), s)
	}
}

const qPrelude = `/-
  GENERATED by translator_c19 from s2/edge_query.go, s2/query_options.go, s2/shapeindex.go — do not edit.
  Regenerated on every run of ./check; S2Proofs/Ties/C13.lean ties the hand model S2.History to it.
  Event lists and skeletons: see translator_c19/query.go, rest.go.
-/
import S2.F64
namespace S2.Generated.QueryOptsIR
open S2

/-- a reference to an options object -/
inductive Ref
  | eopts | param | loc (i : Nat) | addr (i : Nat)
  deriving DecidableEq, Repr
/-- the fields of queryOptions, in declaration order -/
inductive Field
  | %s
  deriving DecidableEq, Repr
inductive Val
  | int (n : Int) | limit | limitExpanded | limitShrunk | straight | other (s : String)
  | optsField (f : Field)   -- (options parameter).f
  deriving DecidableEq, Repr
/-- the translated EdgeQuery methods -/
inductive Fn
  | %s
  deriving DecidableEq, Repr
inductive Ev
  | copy (dst : Nat) (src : Ref)
  | save (dst : Nat)
  | store (src : Ref)
  | set (obj : Ref) (f : Field) (v : Val)
  | call (fn : Fn) (opts : Option Ref) (limit : Option Val)
  /-- e.target.setMaxError(v), evaluated under the listed conditions ([] = unconditionally) -/
  | tsetMaxError (guards : List String) (v : Val)
  deriving DecidableEq, Repr

`

func genQueryCell(ld *loader, facts *[]fact, files map[string]string) {
	pi, err := ld.load(modPrefix + "s2")
	if err != nil {
		die("type-checking s2 failed: %v", err)
	}
	s := &skel{pi: pi, out: &bytes.Buffer{}, ns: "QueryOptsIR", known: map[string]knownFn{}}
	// fields of queryOptions
	qo := pi.pkg.Scope().Lookup("queryOptions")
	if qo == nil {
		die("type queryOptions not found")
	}
	st, ok := qo.Type().Underlying().(*types.Struct)
	if !ok {
		fatal(qo.Pos(), "queryOptions is not a struct")
	}
	var fields []string
	for i := 0; i < st.NumFields(); i++ {
		fields = append(fields, st.Field(i).Name())
	}
	fmt.Fprintf(s.out, qPrelude, strings.Join(fields, " | "), strings.Join(qFns, " | "))
	s.structFields("queryOptions", "queryOptions_fields")
	s.intConst("maxQueryResults", "maxQueryResults")

	// setters of query_options.go: `q.F = <expr>; return q`
	setters := map[string][2]string{}
	var setterNames []string
	for _, f := range pi.files {
		for _, d := range f.Decls {
			fd, ok := d.(*ast.FuncDecl)
			if !ok || fd.Recv == nil || fd.Body == nil {
				continue
			}
			o := pi.info.Defs[fd.Name].(*types.Func)
			sig := o.Type().(*types.Signature)
			if !isQueryOptionsPtr(sig.Recv().Type()) {
				continue
			}
			bad := func() {
				fatal(fd.Pos(), "method %s of queryOptions is not of the shape `q.F = e; return q`", fd.Name.Name)
			}
			if sig.Results().Len() != 1 || !isQueryOptionsPtr(sig.Results().At(0).Type()) || sig.Params().Len() != 1 || len(fd.Body.List) != 2 {
				bad()
			}
			as, ok := fd.Body.List[0].(*ast.AssignStmt)
			if !ok || as.Tok != token.ASSIGN || len(as.Lhs) != 1 || len(as.Rhs) != 1 {
				bad()
			}
			sel, ok := as.Lhs[0].(*ast.SelectorExpr)
			if !ok || oneLine(sel.X) != fd.Recv.List[0].Names[0].Name {
				bad()
			}
			ret, ok := fd.Body.List[1].(*ast.ReturnStmt)
			if !ok || len(ret.Results) != 1 || oneLine(ret.Results[0]) != fd.Recv.List[0].Names[0].Name {
				bad()
			}
			kind := "other"
			if oneLine(as.Rhs[0]) == fd.Type.Params.List[0].Names[0].Name {
				kind = "id"
			}
			setters[fd.Name.Name] = [2]string{sel.Sel.Name, kind}
			setterNames = append(setterNames, fd.Name.Name)
			s.facts = append(s.facts, fact{Name: "s2.queryOptions." + fd.Name.Name, Kind: "setter", Pos: relline(fd.Pos()), Lean: "S2.Generated.QueryOptsIR.setters", Sha256: sha(src(fd))})
		}
	}
	s.out.WriteString("/-- the setters of query_options.go: (method, field it writes, whether it stores its argument unchanged) -/\ndef setters : List (String × Field × Bool) :=\n  [")
	for i, n := range setterNames {
		if i > 0 {
			s.out.WriteString(",\n   ")
		}
		fmt.Fprintf(s.out, "(%s, .%s, %v)", leanString(n), setters[n][0], setters[n][1] == "id")
	}
	s.out.WriteString("]\n\n")
	s.extract("newQueryOptions", "newQueryOptions")

	// event lists + skeletons of the EdgeQuery methods
	for _, k := range qFns {
		fd := findFunc(pi, "EdgeQuery."+k)
		g := &evGen{s: s, fd: fd, setters: setters}
		g.recv = pi.info.Defs[fd.Recv.List[0].Names[0]]
		for _, fl := range fd.Type.Params.List {
			for _, id := range fl.Names {
				o := pi.info.Defs[id]
				switch {
				case isQueryOptionsPtr(o.Type()):
					if g.optsPar != nil {
						fatal(id.Pos(), "two option parameters")
					}
					g.optsPar = o
				case typeKey(o.Type()) == "s1.ChordAngle":
					if g.limPar != nil {
						fatal(id.Pos(), "two ChordAngle parameters")
					}
					g.limPar = o
				}
			}
		}
		g.stmts(fd.Body.List)
		fmt.Fprintf(s.out, "/-- %s: option events of `%s`, in source order -/\ndef %s_events : List Ev :=\n  [%s]\n\n", relline(fd.Pos()),
			oneLine(&ast.FuncDecl{Recv: fd.Recv, Name: fd.Name, Type: fd.Type}), k, strings.Join(g.evs, ",\n   "))
		s.facts = append(s.facts, fact{Name: "s2.EdgeQuery." + k, Kind: "events", Pos: relline(fd.Pos()), Lean: "S2.Generated.QueryOptsIR." + k + "_events", Sha256: sha(strings.Join(g.evs, ";"))})
		s.extract("EdgeQuery."+k, k)
	}
	s.out.WriteString("/-- the event list of a translated method -/\ndef events : Fn → List Ev\n")
	for _, k := range qFns {
		fmt.Fprintf(s.out, "  | .%s => %s_events\n", k, k)
	}
	s.out.WriteString("\n")
	// ShapeIndex.Reset / Add : field writes are the shape
	s.structFields("ShapeIndex", "ShapeIndex_fields")
	s.extract("ShapeIndex.Reset", "ShapeIndex_Reset")
	s.extract("ShapeIndex.Add", "ShapeIndex_Add")
	s.extract("ShapeIndex.Remove", "ShapeIndex_Remove")
	s.extract("ShapeIndex.applyUpdatesInternal", "ShapeIndex_applyUpdatesInternal")
	s.extract("EdgeQuery.Reset", "EdgeQuery_Reset")
	// the distance targets: fields (no cache of anything derived from the target's index), the setters the
	// index targets forward to their own query, capBound, maxBruteForceIndexSize
	for _, mm := range []string{"Min", "Max"} {
		for _, k := range []string{"Point", "Edge", "Cell", "ShapeIndex"} {
			T := mm + "DistanceTo" + k + "Target"
			s.structFields(T, T+"_fields")
			s.extract(T+".setMaxError", T+"_setMaxError")
			s.extract(T+".capBound", T+"_capBound")
			s.extract(T+".maxBruteForceIndexSize", T+"_maxBruteForceIndexSize")
			if k == "ShapeIndex" {
				s.extract(T+".setIncludeInteriors", T+"_setIncludeInteriors")
				s.extract(T+".setUseBruteForce", T+"_setUseBruteForce")
			}
		}
	}
	s.out.WriteString("end S2.Generated.QueryOptsIR\n")
	*facts = append(*facts, s.facts...)
	files["QueryOptsIR.lean"] = s.out.String()
	genCell(ld, facts, files)
}

var _ = constant.MakeInt64
