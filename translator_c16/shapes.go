package main

// Functions that are not translated into Lean terms:
//
//   * s2.roundingEpsilon / s2.epsilonForDigits: recognised by exact shape, evaluated for float64 into
//     `roundingEpsilon_float64` (the value `tErr` of the hand model is tied to it bit for bit);
//   * the externals (fields of Ext) whose source is in the repo: r3.PreciseVector.Cross / .Vector /
//     r3.PreciseVectorFromVector / r3.NewPreciseVector: their
//     comment-free, whitespace-normalised source text is emitted as a string `<name>_src`, so that an edit of them
//     is at least noticed by the tie files (the hand model of these is tied by the correspondence check only).

import (
	"fmt"
	"go/ast"
	"go/constant"
	"go/token"
)

func (g *gen) roundingEpsilon() {
	pi, err := g.ld.load(modPrefix + "s2")
	if err != nil {
		die("type-checking s2 failed: %v", err)
	}
	re := findFunc(pi, "roundingEpsilon")
	bad := func(p token.Pos, what string) {
		fatal(p, "%s no longer has the shape the translator recognises (%s)", "roundingEpsilon / epsilonForDigits", what)
	}
	if len(re.Body.List) != 1 {
		bad(re.Pos(), "one type switch")
	}
	ts, ok := re.Body.List[0].(*ast.TypeSwitchStmt)
	if !ok || ts.Init != nil {
		bad(re.Pos(), "one type switch")
	}
	var digits constant.Value
	var dpos token.Pos
	for _, c := range ts.Body.List {
		cc := c.(*ast.CaseClause)
		if len(cc.List) != 1 || oneLine(cc.List[0]) != "float64" {
			continue
		}
		if len(cc.Body) != 1 {
			bad(cc.Pos(), "case float64: return epsilonForDigits(N)")
		}
		rs, ok := cc.Body[0].(*ast.ReturnStmt)
		if !ok || len(rs.Results) != 1 {
			bad(cc.Pos(), "case float64: return epsilonForDigits(N)")
		}
		call, ok := rs.Results[0].(*ast.CallExpr)
		if !ok || oneLine(call.Fun) != "epsilonForDigits" || len(call.Args) != 1 {
			bad(cc.Pos(), "case float64: return epsilonForDigits(N)")
		}
		tv := pi.info.Types[call.Args[0]]
		if tv.Value == nil {
			bad(call.Pos(), "constant number of digits")
		}
		digits = constant.ToInt(tv.Value)
		dpos = call.Pos()
	}
	if digits == nil {
		bad(ts.Pos(), "a clause `case float64`")
	}
	ef := findFunc(pi, "epsilonForDigits")
	if len(ef.Type.Params.List) != 1 || len(ef.Type.Params.List[0].Names) != 1 || len(ef.Body.List) < 1 {
		bad(ef.Pos(), "epsilonForDigits(digits int)")
	}
	dn := ef.Type.Params.List[0].Names[0].Name
	ifs, ok := ef.Body.List[0].(*ast.IfStmt)
	if !ok || ifs.Init != nil || ifs.Else != nil || len(ifs.Body.List) != 1 {
		bad(ef.Pos(), "if digits < K { return 1.0 / float64(uint64(1)<<digits) }")
	}
	cond, ok := ifs.Cond.(*ast.BinaryExpr)
	if !ok || cond.Op != token.LSS || oneLine(cond.X) != dn {
		bad(ifs.Pos(), "if digits < K")
	}
	ktv := pi.info.Types[cond.Y]
	if ktv.Value == nil {
		bad(cond.Pos(), "constant bound")
	}
	if !constant.Compare(digits, token.LSS, constant.ToInt(ktv.Value)) {
		fatal(dpos, "epsilonForDigits(%s) does not take the translated branch `%s`", digits.ExactString(), oneLine(cond))
	}
	if kv, _ := constant.Int64Val(constant.ToInt(ktv.Value)); kv > 64 {
		fatal(cond.Pos(), "`uint64(1)<<digits` with digits up to %d overflows; outside the translated subset", kv-1)
	}
	rs, ok := ifs.Body.List[0].(*ast.ReturnStmt)
	want := "1.0 / float64(uint64(1)<<" + dn + ")"
	if !ok || len(rs.Results) != 1 || oneLine(rs.Results[0]) != want {
		bad(ifs.Body.Pos(), "return "+want)
	}
	one := pi.info.Types[rs.Results[0].(*ast.BinaryExpr).X]
	d, _ := constant.Int64Val(digits)
	fmt.Fprintf(&g.out, "/-! ### %s: `roundingEpsilon(t any)`, clause `case float64: return epsilonForDigits(%d)`;\n    %s: `epsilonForDigits`, branch `if %s { return %s }` -/\n\n", relline(re.Pos()), d, relline(ef.Pos()), oneLine(cond), want)
	fmt.Fprintf(&g.out, "/-- `1.0` -/\ndef epsilonForDigits_k0 : F64 := ⟨0x%016x⟩\n", f64bits(rs.Pos(), one.Value))
	fmt.Fprintf(&g.out, "/-- `1.0 / float64(uint64(1)<<digits)` for `digits < %s` (the shift does not overflow, the conversion is exact) -/\ndef epsilonForDigits_small (digits : Nat) : F64 :=\n  epsilonForDigits_k0 / F64.ofNat (1 <<< digits)\n", ktv.Value.ExactString())
	fmt.Fprintf(&g.out, "/-- `roundingEpsilon(x)` for a float64 `x` -/\ndef roundingEpsilon_float64 : F64 :=\n  epsilonForDigits_small %d\n\n", d)
	g.facts = append(g.facts, fact{Name: "s2.roundingEpsilon", Kind: "func", Pos: relline(re.Pos()), Lean: "S2.Generated.EdgeNumFns.roundingEpsilon_float64", Sha256: sha(src(re) + src(ef))})
}

func (g *gen) srcString(pkg, key string) {
	pi, err := g.ld.load(modPrefix + pkg)
	if err != nil {
		die("type-checking %s failed: %v", pkg, err)
	}
	fd := findFunc(pi, key)
	cp := *fd
	cp.Doc = nil
	text := oneLine(&cp) // go/printer drops the comments of a bare declaration node
	name := ""
	for _, r := range key {
		if r == '.' {
			name += "_"
		} else {
			name += string(r)
		}
	}
	fmt.Fprintf(&g.out, "/-- %s: the source of the external `%s.%s` (comments dropped, white space normalised) -/\ndef %s_src : String :=\n  %s\n\n", relline(fd.Pos()), pkg, key, name, leanString(text))
	g.facts = append(g.facts, fact{Name: pkg + "." + key, Kind: "source", Pos: relline(fd.Pos()), Lean: "S2.Generated.EdgeNumFns." + name + "_src", Sha256: sha(text)})
}

func genShapes(g *gen) {
	for _, k := range []string{"PreciseVectorFromVector", "NewPreciseVector", "PreciseVector.Cross", "PreciseVector.Vector", "PreciseVector.IsZero"} {
		g.srcString("r3", k)
	}
}
