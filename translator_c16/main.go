// Command translator_c16 re-reads <repo> (type-checked with go/types, constants evaluated with go/constant exactly
// as the compiler does) and emits Lean definitions, STATEMENT BY STATEMENT and EXPRESSION BY EXPRESSION, of the
// numeric edge primitives
//
//   - r3/vector.go        : Add Sub Mul Dot Cross Norm Norm2 Normalize Cmp Abs LargestComponent Ortho Angle
//   - s1/chordangle.go    : ChordAngleFromSquaredLength IsInfinity isSpecial isValid Expanded Successor Predecessor
//     MaxPointError MaxAngleError Add Sub Sin2 Cos InfChordAngle Angle ; s1/angle.go : Radians InfAngle
//   - s2/point.go         : PointCross ChordAngleBetweenPoints ; s2/util.go : maxChordAngle minChordAngle
//   - s2/edge_crossings.go: robustNormalWithLength projection compareEdges intersectionStableSorted canonicalEdges intersectionStable
//     intersectionExact Intersection                                                       (C16)
//   - s2/edge_distances.go: interiorDist updateMinDistance UpdateMinDistance IsDistanceLess UpdateMinInteriorDistance
//     IsInteriorDistanceLess DistanceFromSegment UpdateMaxDistance Project minUpdateInteriorDistanceMaxError
//     minUpdateDistanceMaxError updateEdgePairMinDistance updateEdgePairMaxDistance EdgePairClosestPoints
//     DistanceFraction Interpolate InterpolateAtDistance                                   (C17)
//
// into <out>/EdgeNumFns.lean.  lean/S2Proofs/Ties/C16_EdgeNum.lean and C17_EdgeNum.lean prove
// `hand-written model (lean/S2/EdgeNum.lean, lean/S2/CapM.lean, lean/S2/STUV.lean) = generated definition`.
//
// Translation rules (uniform, not per function):
//
//	float64, s1.ChordAngle, s1.Angle -> S2.F64 (bit-exact soft-float); conversions between them are the identity
//	r3.Vector, s2.Point              -> S2.V3 ; Point{v} and p.Vector are the identity ; v.X -> v.x
//	bool -> Bool ; int kinds (int, r3.Axis, s2.Crossing) -> Int ; (T, U) results -> T × U
//	a+b a-b a*b a/b -a               -> a + b, a - b, a * b, a / b, -a   (F64 instances = F64.add/sub/mul/div/neg;
//	                                    the Go AST is followed: never re-associated, nothing folded)
//	a<b a<=b a>b a>=b a==b a!=b      -> F64.lt, F64.le, F64.gt, F64.ge, F64.feq, F64.fne  (floats);
//	                                    ==, != (Int, Bool) ; structEq_Vector / its negation on vectors and points
//	&& || !                          -> && || !
//	constant expressions             -> folded by go/types (exact arithmetic, ONE rounding), emitted as a named
//	                                    definition `<fn>_k<i> : F64 := ⟨bit pattern⟩` in order of occurrence
//	package-level float var          -> `pkgvar_<pkg>_<name>` = bit pattern of its constant initialiser
//	math.Sqrt/Abs/Min/Max/Nextafter  -> F64.sqrt / F64.abs / F64.fmin / F64.fmax / F64.nextafter
//	math.Inf(±1), math.IsInf(x, 1)   -> F64.inf false|true ; (F64.isInf x && !F64.signBit x)
//	math.Sin/Cos/Asin/Atan2 (libm)   -> fields of the parameter `E : Ext` (not modelled)
//	calls of translated functions    -> calls of the generated definitions (receiver first)
//	roundingEpsilon(x float64)       -> roundingEpsilon_float64 (see shapes.go)
//	calls of s2.Sign, s2.OrderedCCW, s2.CrossingSign, r3.PreciseVector*
//	                                 -> fields of `E : Ext`; the tie files instantiate E with the hand model
//	x := e, x = e, var x T           -> let x := e   (zero value for `var`); a, b = e1, e2 through temporaries
//	d, ok := f(..)                   -> let t := f ..; let d := t.1; let ok := t.2
//	if c { ..return.. } rest         -> if c then .. else rest
//	if c { x = e; .. } [else {..}]   -> let t := if c then (..; (x, ..)) else (..; (x, ..)); let x := t.1 ..
//	                                    (the variables assigned in the branches, in order of first assignment)
//	switch tag { case k: ..return }  -> if tag == k then .. else .. ; panic(..) -> default
//	switch tag { case k: x = e .. }  -> let t := tag; let x := if t == k then (..; x) else .. else x
//	v.X = e (local vector)           -> let v := ⟨e, v.y, v.z⟩
//	f(x, others...) of the shape acc := x; for _, y := range others { if c { acc = y } }; return acc
//	                                 -> others.foldl (fun acc y => if c then y else acc) x
//
// Anything else inside a function it is asked to translate is a fatal error (exit 1 with file:line).
// Output is a pure function of the source tree (fixed orders, no maps iterated, no absolute paths).
//
// usage: translator_c16 -repo /repo -out lean/S2/Generated [-facts facts.json]
package main

import (
	"bytes"
	"encoding/json"
	"flag"
	"fmt"
	"go/ast"
	"go/constant"
	"go/importer"
	"go/token"
	"go/types"
	"os"
	"path/filepath"
	"sort"
	"strings"
)

// ---------------------------------------------------------------- externals

type extSpec struct {
	key   string // funcKey of the Go function
	field string
	typ   string // Lean type of the field; checked against the Go signature at every call
}

// fixed order = order of the fields of `structure Ext`
var extTable = []extSpec{
	{"s2.Sign", "Sign", "V3 → V3 → V3 → Bool"},
	{"s2.OrderedCCW", "OrderedCCW", "V3 → V3 → V3 → V3 → Bool"},
	{"s2.CrossingSign", "CrossingSign", "V3 → V3 → V3 → V3 → Int"},
	{"r3.PreciseVectorFromVector", "PreciseVectorFromVector", "V3 → PV"},
	{"r3.PreciseVector.Cross", "PV_Cross", "PV → PV → PV"},
	{"r3.PreciseVector.Vector", "PV_Vector", "PV → V3"},
	{"r3.PreciseVector.IsZero", "PV_IsZero", "PV → Bool"},
	{"math.Sin", "sin", "F64 → F64"},
	{"math.Cos", "cos", "F64 → F64"},
	{"math.Asin", "asin", "F64 → F64"},
	{"math.Atan2", "atan2", "F64 → F64 → F64"},
}

var mathPrim = map[string]string{"math.Sqrt": "F64.sqrt", "math.Abs": "F64.abs", "math.Min": "F64.fmin", "math.Max": "F64.fmax",
	"math.Nextafter": "F64.nextafter"}

// ---------------------------------------------------------------- generator state

type fnInfo struct {
	lean     string
	needsExt bool
	fold     bool // variadic selection function translated as a fold
}

type gen struct {
	ld     *loader
	out    bytes.Buffer
	facts  []fact
	known  map[string]*fnInfo
	ext    map[string]*extSpec
	pvars  map[string]string // "pkg.name" -> lean name (emitted)
	haveRE bool
}

func (g *gen) leanType(t types.Type) string {
	switch v := t.(type) {
	case *types.Tuple:
		var ts []string
		for i := 0; i < v.Len(); i++ {
			s := g.leanType(v.At(i).Type())
			if s == "" {
				return ""
			}
			ts = append(ts, s)
		}
		return strings.Join(ts, " × ")
	case *types.Named:
		switch typeKey(v) {
		case "r3.Vector", "s2.Point":
			return "V3"
		case "r3.PreciseVector":
			return "PV"
		}
		return g.leanType(v.Underlying())
	case *types.Basic:
		switch v.Kind() {
		case types.Float64, types.UntypedFloat:
			return "F64"
		case types.Bool, types.UntypedBool:
			return "Bool"
		case types.Int, types.Int8, types.Int16, types.Int32, types.Int64, types.Uint, types.Uint8, types.Uint16, types.Uint32,
			types.UntypedInt, types.UntypedRune:
			return "Int"
		}
	}
	return ""
}

// sigType: Lean type of a function value (receiver first).
func (g *gen) sigType(fn *types.Func) string {
	sig := fn.Type().(*types.Signature)
	var ts []string
	if r := sig.Recv(); r != nil {
		ts = append(ts, g.leanType(r.Type()))
	}
	for i := 0; i < sig.Params().Len(); i++ {
		ts = append(ts, g.leanType(sig.Params().At(i).Type()))
	}
	res := g.leanType(sig.Results())
	if sig.Results().Len() > 1 {
		res = "(" + res + ")"
	}
	ts = append(ts, res)
	for _, t := range ts {
		if t == "" || t == "()" {
			return ""
		}
	}
	return strings.Join(ts, " → ")
}

// ---------------------------------------------------------------- per function

type constDef struct {
	name string
	bits uint64
	text string
	pos  token.Pos
}

type fx struct {
	g       *gen
	pi      *pkgInfo
	fd      *ast.FuncDecl
	name    string
	consts  []constDef
	usesExt bool
	env     map[string]types.Object
	ntmp    int
	vtypes  map[string]string // lean name -> lean type of the variables merged after an if
}

func (f *fx) tv(x ast.Expr) (types.TypeAndValue, bool) {
	tv, ok := f.pi.info.Types[x]
	return tv, ok
}

func (f *fx) typ(x ast.Expr) types.Type {
	if tv, ok := f.pi.info.Types[x]; ok {
		return tv.Type
	}
	if id, ok := x.(*ast.Ident); ok {
		if o := f.pi.info.Uses[id]; o != nil {
			return o.Type()
		}
		if o := f.pi.info.Defs[id]; o != nil {
			return o.Type()
		}
	}
	return nil
}

func (f *fx) kind(x ast.Expr) string {
	t := f.typ(x)
	if t == nil {
		return ""
	}
	return f.g.leanType(t)
}

// asc: a Lean type as written inside a function (the opaque PreciseVector type is a field of E).
func (f *fx) asc(lt string) string {
	if strings.Contains(lt, "PV") {
		f.usesExt = true
		return strings.ReplaceAll(lt, "PV", "E.PV")
	}
	return lt
}

func (f *fx) tmp() string {
	f.ntmp++
	return fmt.Sprintf("t%d", f.ntmp)
}

func (f *fx) constF64(p token.Pos, v constant.Value, text string) string {
	n := fmt.Sprintf("%s_k%d", f.name, len(f.consts))
	f.consts = append(f.consts, constDef{n, f64bits(p, v), text, p})
	return n
}

func (f *fx) zero(p token.Pos, k string) string {
	switch k {
	case "F64":
		return "zero_F64"
	case "V3":
		return "zero_V3"
	case "Bool":
		return "false"
	case "Int":
		return "0"
	}
	fatal(p, "zero value of type %s is outside the translated subset", k)
	return ""
}

func intLit(p token.Pos, v constant.Value) string {
	iv := constant.ToInt(v)
	if iv.Kind() != constant.Int {
		fatal(p, "non-integral constant of integer kind")
	}
	s := iv.ExactString()
	if strings.HasPrefix(s, "-") {
		return "(" + s + ")"
	}
	return s
}

func (f *fx) calleeOf(c *ast.CallExpr) *types.Func {
	switch fn := unparen(c.Fun).(type) {
	case *ast.Ident:
		r, _ := f.pi.info.Uses[fn].(*types.Func)
		return r
	case *ast.SelectorExpr:
		if sel, ok := f.pi.info.Selections[fn]; ok {
			r, _ := sel.Obj().(*types.Func)
			return r
		}
		r, _ := f.pi.info.Uses[fn.Sel].(*types.Func)
		return r
	}
	return nil
}

func (f *fx) atom(x ast.Expr) string { return atomize(f.x(x)) }

// x translates an expression.
func (f *fx) x(x ast.Expr) string {
	x = unparen(x)
	if tv, ok := f.tv(x); ok && tv.Value != nil {
		switch f.g.leanType(tv.Type) {
		case "F64":
			return f.constF64(x.Pos(), tv.Value, oneLine(x))
		case "Int":
			return intLit(x.Pos(), tv.Value)
		case "Bool":
			if constant.BoolVal(tv.Value) {
				return "true"
			}
			return "false"
		}
		fatal(x.Pos(), "constant `%s` of type %v is outside the translated subset", oneLine(x), tv.Type)
	}
	switch v := x.(type) {
	case *ast.Ident:
		o := f.pi.info.Uses[v]
		if vr, ok := o.(*types.Var); ok {
			if vr.Parent() == vr.Pkg().Scope() {
				return f.g.pkgVar(f.pi, v.Pos(), vr)
			}
			if f.kind(v) == "" {
				fatal(v.Pos(), "variable `%s` of type %v is outside the translated subset", v.Name, vr.Type())
			}
			if f.env[v.Name] != o {
				fatal(v.Pos(), "internal: variable `%s` is not the one in scope (shadowing is outside the translated subset)", v.Name)
			}
			return leanLocal(v.Name)
		}
		fatal(v.Pos(), "identifier `%s` is outside the translated subset", v.Name)
	case *ast.SelectorExpr:
		if sel, ok := f.pi.info.Selections[v]; ok {
			if sel.Kind() != types.FieldVal {
				fatal(v.Pos(), "method value `%s` is outside the translated subset", oneLine(v))
			}
			if f.kind(v.X) != "V3" {
				fatal(v.Pos(), "field of `%s` (type %v) is outside the translated subset", oneLine(v.X), f.typ(v.X))
			}
			switch v.Sel.Name {
			case "Vector":
				return f.x(v.X)
			case "X", "Y", "Z":
				return f.atom(v.X) + "." + strings.ToLower(v.Sel.Name)
			}
			fatal(v.Pos(), "field `%s` is outside the translated subset", v.Sel.Name)
		}
		// qualified identifier: package-level variable of another package
		if vr, ok := f.pi.info.Uses[v.Sel].(*types.Var); ok && vr.Parent() == vr.Pkg().Scope() {
			pi, err := f.g.ld.load(vr.Pkg().Path())
			if err != nil {
				die("%v", err)
			}
			return f.g.pkgVar(pi, v.Pos(), vr)
		}
		fatal(v.Pos(), "selector `%s` is outside the translated subset", oneLine(v))
	case *ast.UnaryExpr:
		switch {
		case v.Op == token.NOT:
			return "!" + f.atom(v.X)
		case v.Op == token.SUB && (f.kind(v.X) == "F64" || f.kind(v.X) == "Int"):
			return "-" + f.atom(v.X)
		}
		fatal(v.Pos(), "unary %s in `%s` is outside the translated subset", v.Op, oneLine(v))
	case *ast.BinaryExpr:
		return f.binary(v)
	case *ast.CompositeLit:
		return f.composite(v)
	case *ast.CallExpr:
		return f.call(v)
	}
	fatal(x.Pos(), "expression `%s` (%T) is outside the translated subset", oneLine(x), x)
	return ""
}

var f64Arith = map[token.Token]string{token.ADD: "+", token.SUB: "-", token.MUL: "*", token.QUO: "/"}
var f64Cmp = map[token.Token]string{token.LSS: "F64.lt", token.LEQ: "F64.le", token.GTR: "F64.gt", token.GEQ: "F64.ge",
	token.EQL: "F64.feq", token.NEQ: "F64.fne"}
var intCmp = map[token.Token]string{token.LSS: "<", token.LEQ: "≤", token.GTR: ">", token.GEQ: "≥"}

func (f *fx) binary(b *ast.BinaryExpr) string {
	switch b.Op {
	case token.LAND:
		return f.atom(b.X) + " && " + f.atom(b.Y)
	case token.LOR:
		return f.atom(b.X) + " || " + f.atom(b.Y)
	}
	kx, ky := f.kind(b.X), f.kind(b.Y)
	if kx == "" || kx != ky {
		fatal(b.Pos(), "`%s`: operands of types %v and %v are outside the translated subset", oneLine(b), f.typ(b.X), f.typ(b.Y))
	}
	X, Y := f.atom(b.X), f.atom(b.Y)
	switch kx {
	case "F64":
		if op, ok := f64Arith[b.Op]; ok {
			return X + " " + op + " " + Y
		}
		if op, ok := f64Cmp[b.Op]; ok {
			return op + " " + X + " " + Y
		}
	case "V3":
		switch b.Op {
		case token.EQL:
			return "structEq_Vector " + X + " " + Y
		case token.NEQ:
			return "!(structEq_Vector " + X + " " + Y + ")"
		}
	case "Int":
		switch b.Op {
		case token.EQL:
			return X + " == " + Y
		case token.NEQ:
			return X + " != " + Y
		case token.ADD:
			return X + " + " + Y
		case token.SUB:
			return X + " - " + Y
		case token.MUL:
			return X + " * " + Y
		}
		if op, ok := intCmp[b.Op]; ok {
			return "decide (" + X + " " + op + " " + Y + ")"
		}
	case "Bool":
		switch b.Op {
		case token.EQL:
			return X + " == " + Y
		case token.NEQ:
			return X + " != " + Y
		}
	}
	fatal(b.Pos(), "`%s`: operator %s on %s is outside the translated subset", oneLine(b), b.Op, kx)
	return ""
}

func (f *fx) composite(c *ast.CompositeLit) string {
	t := f.typ(c)
	if f.g.leanType(t) != "V3" {
		fatal(c.Pos(), "composite literal of type %v is outside the translated subset", t)
	}
	st, ok := t.Underlying().(*types.Struct)
	if !ok {
		fatal(c.Pos(), "composite literal of a non-struct")
	}
	vals := make([]string, st.NumFields())
	for i, el := range c.Elts {
		idx := i
		val := el
		if kv, ok := el.(*ast.KeyValueExpr); ok {
			idx = -1
			for j := 0; j < st.NumFields(); j++ {
				if st.Field(j).Name() == oneLine(kv.Key) {
					idx = j
				}
			}
			val = kv.Value
		}
		if idx < 0 || idx >= len(vals) || vals[idx] != "" {
			fatal(el.Pos(), "element of composite literal `%s`", oneLine(c))
		}
		vals[idx] = f.atom(val)
	}
	if typeKey(t) == "s2.Point" { // struct { r3.Vector }
		if st.NumFields() != 1 {
			fatal(c.Pos(), "s2.Point no longer is struct{ r3.Vector }")
		}
		if vals[0] == "" {
			return "zero_V3"
		}
		return vals[0]
	}
	if st.NumFields() != 3 || st.Field(0).Name() != "X" || st.Field(1).Name() != "Y" || st.Field(2).Name() != "Z" {
		fatal(c.Pos(), "r3.Vector no longer is struct{ X, Y, Z float64 }")
	}
	if len(c.Elts) == 0 {
		return "zero_V3"
	}
	for i := range vals {
		if vals[i] == "" {
			vals[i] = "zero_F64"
		}
	}
	return "(⟨" + strings.Join(vals, ", ") + "⟩ : V3)"
}

func (f *fx) call(c *ast.CallExpr) string {
	if ftv, ok := f.tv(c.Fun); ok && ftv.IsType() {
		if len(c.Args) != 1 {
			fatal(c.Pos(), "conversion with %d arguments", len(c.Args))
		}
		to, from := f.g.leanType(ftv.Type), f.kind(c.Args[0])
		if to != "" && to == from {
			return f.x(c.Args[0]) // conversion inside one kind (float64 <-> s1.ChordAngle <-> s1.Angle, Point <-> Vector)
		}
		fatal(c.Pos(), "conversion `%s` from %v is outside the translated subset", oneLine(c), f.typ(c.Args[0]))
	}
	fn := f.calleeOf(c)
	if fn == nil {
		fatal(c.Pos(), "call `%s` is outside the translated subset", oneLine(c))
	}
	key := funcKey(fn)
	var args []string
	if sel, ok := unparen(c.Fun).(*ast.SelectorExpr); ok {
		if _, isSel := f.pi.info.Selections[sel]; isSel {
			args = append(args, f.atom(sel.X))
		}
	}
	sig := fn.Type().(*types.Signature)
	if c.Ellipsis != token.NoPos {
		fatal(c.Pos(), "call with `...` is outside the translated subset")
	}
	if p, ok := mathPrim[key]; ok {
		for _, a := range c.Args {
			args = append(args, f.atom(a))
		}
		return p + " " + strings.Join(args, " ")
	}
	switch key {
	case "math.Inf":
		tv, _ := f.tv(c.Args[0])
		if tv.Value == nil {
			fatal(c.Pos(), "math.Inf with a non-constant sign")
		}
		if constant.Sign(tv.Value) >= 0 {
			return "F64.inf false"
		}
		return "F64.inf true"
	case "math.IsInf":
		tv, _ := f.tv(c.Args[1])
		if tv.Value == nil || constant.Sign(tv.Value) <= 0 {
			fatal(c.Pos(), "math.IsInf with a sign other than a positive constant is outside the translated subset")
		}
		a := f.atom(c.Args[0])
		return "F64.isInf " + a + " && !F64.signBit " + a
	}
	if key == "s2.roundingEpsilon" {
		// roundingEpsilon(t any): the dynamic type of the argument selects the clause; only float64 is translated
		if len(c.Args) != 1 || typeKey(f.typ(c.Args[0])) != "float64" {
			fatal(c.Pos(), "roundingEpsilon of a non-float64 argument is outside the translated subset")
		}
		if !f.g.haveRE {
			fatal(c.Pos(), "internal: roundingEpsilon is used before it is translated")
		}
		return "roundingEpsilon_float64"
	}
	if e, ok := f.g.ext[key]; ok {
		f.usesExt = true
		if got := f.g.sigType(fn); got != e.typ {
			fatal(c.Pos(), "signature of %s changed: %s (expected %s)", key, got, e.typ)
		}
		for _, a := range c.Args {
			args = append(args, f.atom(a))
		}
		return "E." + e.field + " " + strings.Join(args, " ")
	}
	if kf, ok := f.g.known[key]; ok {
		lead := kf.lean
		if kf.needsExt {
			f.usesExt = true
			lead += " E"
		}
		if kf.fold {
			if len(c.Args) < 1 {
				fatal(c.Pos(), "call shape of %s", key)
			}
			var rest []string
			for _, a := range c.Args[1:] {
				rest = append(rest, f.x(a))
			}
			return lead + " " + f.atom(c.Args[0]) + " [" + strings.Join(rest, ", ") + "]"
		}
		if sig.Variadic() {
			fatal(c.Pos(), "variadic call is outside the translated subset")
		}
		for _, a := range c.Args {
			args = append(args, f.atom(a))
		}
		if len(args) == 0 {
			return lead
		}
		return lead + " " + strings.Join(args, " ")
	}
	fatal(c.Pos(), "call of %s, which is neither translated nor a declared external", key)
	return ""
}

// pkgVar: a package-level float variable, emitted once as the bit pattern of its constant initialiser.
func (g *gen) pkgVar(pi *pkgInfo, p token.Pos, v *types.Var) string {
	key := v.Pkg().Name() + "." + v.Name()
	if n, ok := g.pvars[key]; ok {
		return n
	}
	fatal(p, "package-level variable %s is not in the list of translated variables", key)
	return ""
}

// emitConst: a package-level float constant as the float64 bit pattern the compiler uses for `float64(name)`.
func (g *gen) emitConst(pkg, name string) {
	pi, err := g.ld.load(modPrefix + pkg)
	if err != nil {
		die("type-checking %s failed: %v", pkg, err)
	}
	o, ok := pi.pkg.Scope().Lookup(name).(*types.Const)
	if !ok {
		die("constant %s.%s not found — the translated source changed shape", pkg, name)
	}
	if g.leanType(o.Type()) != "F64" {
		fatal(o.Pos(), "constant %s is not a float constant", name)
	}
	lean := "const_" + pkg + "_" + name
	fmt.Fprintf(&g.out, "/-- %s: `const %s` = %s (package %s), as a float64 -/\ndef %s : F64 := ⟨0x%016x⟩\n\n", relline(o.Pos()), name, o.Val().String(), pkg, lean, f64bits(o.Pos(), o.Val()))
	g.facts = append(g.facts, fact{Name: pkg + "." + name, Kind: "const", Pos: relline(o.Pos()), Lean: "S2.Generated.EdgeNumFns." + lean, Sha256: sha(o.Val().ExactString())})
}

func (g *gen) emitPkgVar(pkg, name string) {
	pi, err := g.ld.load(modPrefix + pkg)
	if err != nil {
		die("type-checking %s failed: %v", pkg, err)
	}
	for _, fl := range pi.files {
		for _, d := range fl.Decls {
			gd, ok := d.(*ast.GenDecl)
			if !ok || gd.Tok != token.VAR {
				continue
			}
			for _, s := range gd.Specs {
				vs := s.(*ast.ValueSpec)
				for i, id := range vs.Names {
					if id.Name != name {
						continue
					}
					if len(vs.Values) != len(vs.Names) {
						fatal(vs.Pos(), "declaration of %s without its own initialiser", name)
					}
					tv := pi.info.Types[vs.Values[i]]
					if tv.Value == nil || g.leanType(tv.Type) != "F64" {
						fatal(vs.Pos(), "initialiser of %s is not a float constant", name)
					}
					lean := "pkgvar_" + pkg + "_" + name
					fmt.Fprintf(&g.out, "/-- %s: `var %s = %s` (package %s) -/\ndef %s : F64 := ⟨0x%016x⟩\n\n", relline(id.Pos()), name, oneLine(vs.Values[i]), pkg, lean, f64bits(id.Pos(), tv.Value))
					g.pvars[pkg+"."+name] = lean
					g.facts = append(g.facts, fact{Name: pkg + "." + name, Kind: "var", Pos: relline(id.Pos()), Lean: "S2.Generated.EdgeNumFns." + lean, Sha256: sha(tv.Value.ExactString())})
					return
				}
			}
		}
	}
	die("package-level variable %s.%s not found — the translated source changed shape", pkg, name)
}

// ---------------------------------------------------------------- statements

func proj(t string, i, n int) string {
	if n == 1 {
		return t
	}
	s := t
	for j := 0; j < i; j++ {
		s += ".2"
	}
	if i < n-1 {
		s += ".1"
	}
	return s
}

func (f *fx) declare(id *ast.Ident) {
	o := f.pi.info.Defs[id]
	if o == nil {
		return
	}
	if old, ok := f.env[id.Name]; ok && old != o {
		fatal(id.Pos(), "`%s` shadows a variable of an enclosing scope; outside the translated subset", id.Name)
	}
	if f.g.leanType(o.Type()) == "" {
		fatal(id.Pos(), "local `%s` of type %v is outside the translated subset", id.Name, o.Type())
	}
	f.env[id.Name] = o
}

func (f *fx) snapshot() map[string]types.Object {
	m := map[string]types.Object{}
	for k, v := range f.env {
		m[k] = v
	}
	return m
}

// assign translates an assignment / definition into let lines.
func (f *fx) assign(v *ast.AssignStmt, ind string) string {
	if v.Tok != token.ASSIGN && v.Tok != token.DEFINE {
		fatal(v.Pos(), "assignment operator %s is outside the translated subset", v.Tok)
	}
	if len(v.Lhs) == 1 && len(v.Rhs) == 1 && v.Tok == token.ASSIGN {
		if sel, ok := v.Lhs[0].(*ast.SelectorExpr); ok {
			// s.F = e on a local vector: let s := ⟨.., e, ..⟩
			id, isId := sel.X.(*ast.Ident)
			if !isId || f.kind(id) != "V3" || typeKey(f.typ(id)) != "r3.Vector" {
				fatal(v.Pos(), "assignment to `%s` is outside the translated subset", oneLine(sel))
			}
			n := leanLocal(id.Name)
			if f.env[id.Name] != f.pi.info.Uses[id] {
				fatal(id.Pos(), "internal: variable `%s` is not the one in scope", id.Name)
			}
			val := f.atom(v.Rhs[0])
			fs := []string{n + ".x", n + ".y", n + ".z"}
			switch sel.Sel.Name {
			case "X":
				fs[0] = val
			case "Y":
				fs[1] = val
			case "Z":
				fs[2] = val
			default:
				fatal(sel.Pos(), "field `%s` is outside the translated subset", sel.Sel.Name)
			}
			return fmt.Sprintf("%slet %s : V3 := ⟨%s⟩\n", ind, n, strings.Join(fs, ", "))
		}
	}
	names := make([]string, len(v.Lhs))
	for i, l := range v.Lhs {
		id, ok := l.(*ast.Ident)
		if !ok {
			fatal(l.Pos(), "assignment to `%s` is outside the translated subset", oneLine(l))
		}
		if id.Name == "_" {
			continue
		}
		lt := f.kind(id)
		if lt == "" {
			fatal(l.Pos(), "variable `%s` of type %v is outside the translated subset", id.Name, f.typ(id))
		}
		names[i] = leanLocal(id.Name) + " : " + f.asc(lt)
	}
	tmpOf := func(x ast.Expr) string {
		lt := f.kind(x)
		if lt == "" {
			fatal(x.Pos(), "value `%s` of type %v is outside the translated subset", oneLine(x), f.typ(x))
		}
		return f.tmp() + " : " + f.asc(lt)
	}
	bare := func(n string) string { return n[:strings.Index(n, " : ")] }
	var b strings.Builder
	if len(v.Rhs) == 1 && len(v.Lhs) > 1 {
		// tuple-valued call
		val := f.x(v.Rhs[0])
		t := tmpOf(v.Rhs[0])
		fmt.Fprintf(&b, "%slet %s := %s\n", ind, t, val)
		for i, n := range names {
			if n != "" {
				fmt.Fprintf(&b, "%slet %s := %s\n", ind, n, proj(bare(t), i, len(names)))
			}
		}
	} else if len(v.Rhs) == len(v.Lhs) {
		if len(v.Lhs) == 1 {
			val := f.x(v.Rhs[0])
			if names[0] != "" {
				fmt.Fprintf(&b, "%slet %s := %s\n", ind, names[0], val)
			}
		} else {
			// parallel assignment: all right-hand sides are evaluated first
			ts := make([]string, len(v.Rhs))
			for i, r := range v.Rhs {
				ts[i] = tmpOf(r)
				fmt.Fprintf(&b, "%slet %s := %s\n", ind, ts[i], f.x(r))
			}
			for i, n := range names {
				if n != "" {
					fmt.Fprintf(&b, "%slet %s := %s\n", ind, n, bare(ts[i]))
				}
			}
		}
	} else {
		fatal(v.Pos(), "assignment shape is outside the translated subset")
	}
	if v.Tok == token.DEFINE {
		for _, l := range v.Lhs {
			if id := l.(*ast.Ident); id.Name != "_" {
				f.declare(id)
			}
		}
	}
	return b.String()
}

// assignedOuter lists (in order of first assignment) the variables declared before `limit` that the statements assign.
func (f *fx) assignedOuter(list []ast.Stmt, limit token.Pos, acc *[]string) {
	add := func(id *ast.Ident) {
		if id.Name == "_" {
			return
		}
		o := f.pi.info.Uses[id]
		if o == nil || o.Pos() >= limit {
			return
		}
		n := leanLocal(id.Name)
		for _, a := range *acc {
			if a == n {
				return
			}
		}
		lt := f.g.leanType(o.Type())
		if lt == "" {
			fatal(id.Pos(), "variable `%s` of type %v is outside the translated subset", id.Name, o.Type())
		}
		f.vtypes[n] = f.asc(lt)
		*acc = append(*acc, n)
	}
	for _, s := range list {
		ast.Inspect(s, func(n ast.Node) bool {
			switch v := n.(type) {
			case *ast.AssignStmt:
				for _, l := range v.Lhs {
					if id, ok := l.(*ast.Ident); ok {
						add(id)
					}
					if sel, ok := l.(*ast.SelectorExpr); ok {
						if id, ok := sel.X.(*ast.Ident); ok {
							add(id)
						}
					}
				}
			case *ast.IncDecStmt:
				fatal(v.Pos(), "`%s` is outside the translated subset", oneLine(v))
			}
			return true
		})
	}
}

func tupleOf(vs []string) string {
	if len(vs) == 1 {
		return vs[0]
	}
	return "(" + strings.Join(vs, ", ") + ")"
}

// seq translates a statement list; `k` is the value of the list when control falls off its end ("" = not allowed).
func (f *fx) seq(list []ast.Stmt, ind string, k string, end token.Pos) string {
	if len(list) == 0 {
		if k == "" {
			fatal(end, "control reaches the end of %s without a return", f.fd.Name.Name)
		}
		return ind + k + "\n"
	}
	rest := list[1:]
	switch v := list[0].(type) {
	case *ast.ReturnStmt:
		if len(rest) != 0 {
			fatal(rest[0].Pos(), "statement after return")
		}
		if k != "" {
			fatal(v.Pos(), "return inside a block that also falls through is outside the translated subset")
		}
		if len(v.Results) == 0 {
			fatal(v.Pos(), "bare return is outside the translated subset")
		}
		var rs []string
		for _, r := range v.Results {
			rs = append(rs, f.x(r))
		}
		return ind + tupleOf(rs) + "\n"
	case *ast.AssignStmt:
		s := f.assign(v, ind)
		return s + f.seq(rest, ind, k, end)
	case *ast.DeclStmt:
		gd, ok := v.Decl.(*ast.GenDecl)
		if !ok || gd.Tok != token.VAR {
			fatal(v.Pos(), "declaration `%s` is outside the translated subset", oneLine(v))
		}
		var b strings.Builder
		for _, sp := range gd.Specs {
			vs := sp.(*ast.ValueSpec)
			if len(vs.Values) != 0 && len(vs.Values) != len(vs.Names) {
				fatal(vs.Pos(), "var declaration shape is outside the translated subset")
			}
			for i, id := range vs.Names {
				var val string
				if len(vs.Values) != 0 {
					val = f.x(vs.Values[i])
				} else {
					val = f.zero(id.Pos(), f.g.leanType(f.pi.info.Defs[id].Type()))
				}
				if id.Name != "_" {
					fmt.Fprintf(&b, "%slet %s : %s := %s\n", ind, leanLocal(id.Name), f.asc(f.g.leanType(f.pi.info.Defs[id].Type())), val)
					f.declare(id)
				}
			}
		}
		return b.String() + f.seq(rest, ind, k, end)
	case *ast.ExprStmt:
		if isPanic(v) {
			if k != "" {
				fatal(v.Pos(), "panic inside a block that also falls through is outside the translated subset")
			}
			return ind + "default\n"
		}
		fatal(v.Pos(), "expression statement `%s` is outside the translated subset", oneLine(v))
	case *ast.IfStmt:
		return f.ifStmt(v, rest, ind, k, end)
	case *ast.SwitchStmt:
		if v.Init != nil || v.Tag == nil || f.kind(v.Tag) != "Int" {
			fatal(v.Pos(), "switch without an integer tag is outside the translated subset")
		}
		if !terminates([]ast.Stmt{v}) {
			return f.switchMerge(v, rest, ind, k, end)
		}
		if k != "" || len(rest) != 0 {
			fatal(v.Pos(), "returning switch inside a block that falls through is outside the translated subset")
		}
		tag := f.atom(v.Tag)
		var b strings.Builder
		var def *ast.CaseClause
		n := 0
		for _, c := range v.Body.List {
			cc := c.(*ast.CaseClause)
			if cc.List == nil {
				def = cc
				continue
			}
			if def != nil {
				fatal(cc.Pos(), "default clause that is not last is outside the translated subset")
			}
			var cs []string
			for _, e := range cc.List {
				cs = append(cs, tag+" == "+f.atom(e))
			}
			saved := f.snapshot()
			fmt.Fprintf(&b, "%sif %s then\n%s%selse\n", ind, strings.Join(cs, " || "), f.seq(cc.Body, ind+"  ", "", cc.End()), ind)
			f.env = saved
			n++
		}
		saved := f.snapshot()
		b.WriteString(f.seq(def.Body, ind+"  ", "", def.End()))
		f.env = saved
		return b.String()
	case *ast.BlockStmt:
		fatal(v.Pos(), "nested block is outside the translated subset")
	}
	fatal(list[0].Pos(), "statement `%s` (%T) is outside the translated subset", oneLine(list[0]), list[0])
	return ""
}

// switchMerge: a switch none of whose clauses returns: the variables assigned in the clauses are merged as for an if.
//
//	switch tag { case k1: x = e1; case k2: x = e2 }   ->   let t := tag; let x := if t == k1 then (..; x) else if t == k2 then (..; x) else x
func (f *fx) switchMerge(v *ast.SwitchStmt, rest []ast.Stmt, ind string, k string, end token.Pos) string {
	var all []ast.Stmt
	for _, c := range v.Body.List {
		all = append(all, c.(*ast.CaseClause).Body...)
	}
	if hasReturn(all) {
		fatal(v.Pos(), "switch that both returns and falls through is outside the translated subset")
	}
	for _, s := range all {
		ast.Inspect(s, func(n ast.Node) bool {
			if b, ok := n.(*ast.BranchStmt); ok {
				fatal(b.Pos(), "`%s` inside a switch is outside the translated subset", b.Tok)
			}
			return true
		})
	}
	var vs []string
	f.assignedOuter(all, v.Pos(), &vs)
	if len(vs) == 0 {
		fatal(v.Pos(), "switch statement without effect")
	}
	var tts []string
	for _, n := range vs {
		tts = append(tts, f.vtypes[n])
	}
	tup := tupleOf(vs)
	var b strings.Builder
	tag := f.tmp()
	fmt.Fprintf(&b, "%slet %s : Int := %s\n", ind, tag, f.x(v.Tag))
	target := vs[0]
	if len(vs) > 1 {
		target = f.tmp()
	}
	fmt.Fprintf(&b, "%slet %s : %s :=\n", ind, target, strings.Join(tts, " × "))
	var def *ast.CaseClause
	outer := f.snapshot()
	in2 := ind + "  "
	for _, c := range v.Body.List {
		cc := c.(*ast.CaseClause)
		if cc.List == nil {
			def = cc
			continue
		}
		if def != nil {
			fatal(cc.Pos(), "default clause that is not last is outside the translated subset")
		}
		var cs []string
		for _, e := range cc.List {
			cs = append(cs, tag+" == "+f.atom(e))
		}
		fmt.Fprintf(&b, "%sif %s then\n%s%selse\n", in2, strings.Join(cs, " || "), f.seq(cc.Body, in2+"  ", tup, cc.End()), in2)
		f.env = f.snapshotOf(outer)
	}
	if def != nil {
		b.WriteString(f.seq(def.Body, in2+"  ", tup, def.End()))
		f.env = f.snapshotOf(outer)
	} else {
		fmt.Fprintf(&b, "%s  %s\n", in2, tup)
	}
	if len(vs) > 1 {
		for i, n := range vs {
			fmt.Fprintf(&b, "%slet %s : %s := %s\n", ind, n, f.vtypes[n], proj(target, i, len(vs)))
		}
	}
	b.WriteString(f.seq(rest, ind, k, end))
	return b.String()
}

func (f *fx) snapshotOf(m map[string]types.Object) map[string]types.Object {
	r := map[string]types.Object{}
	for k, v := range m {
		r[k] = v
	}
	return r
}

func (f *fx) ifStmt(v *ast.IfStmt, rest []ast.Stmt, ind string, k string, end token.Pos) string {
	var b strings.Builder
	outer := f.snapshot()
	if v.Init != nil {
		as, ok := v.Init.(*ast.AssignStmt)
		if !ok {
			fatal(v.Init.Pos(), "if-initialiser `%s` is outside the translated subset", oneLine(v.Init))
		}
		// variables defined by the initialiser are scoped to the if statement: they must not hide anything
		// (checked by declare) and are removed from the environment afterwards.
		b.WriteString(f.assign(as, ind))
	}
	c := f.x(v.Cond)
	if f.kind(v.Cond) != "Bool" {
		fatal(v.Cond.Pos(), "condition of type %v", f.typ(v.Cond))
	}
	thenT := terminates(v.Body.List)
	els := elseList(v.Else)
	elseT := v.Else != nil && terminates(els)
	inner := f.snapshot()
	switch {
	case thenT && v.Else == nil:
		fmt.Fprintf(&b, "%sif %s then\n%s%selse\n", ind, c, f.seq(v.Body.List, ind+"  ", "", v.Body.End()), ind)
		f.env = f.restoreAfterIf(outer, v)
		b.WriteString(f.seq(rest, ind, k, end))
		return b.String()
	case thenT && elseT:
		if len(rest) != 0 {
			fatal(rest[0].Pos(), "unreachable statement")
		}
		fmt.Fprintf(&b, "%sif %s then\n%s", ind, c, f.seq(v.Body.List, ind+"  ", "", v.Body.End()))
		f.env = inner
		fmt.Fprintf(&b, "%selse\n%s", ind, f.seq(els, ind+"  ", "", v.End()))
		f.env = outer
		return b.String()
	case !hasReturn(v.Body.List) && !hasReturn(els):
		var vs []string
		f.assignedOuter(v.Body.List, v.Pos(), &vs)
		f.assignedOuter(els, v.Pos(), &vs)
		if len(vs) == 0 {
			fatal(v.Pos(), "if statement without effect")
		}
		tup := tupleOf(vs)
		target := vs[0]
		var tts []string
		for _, n := range vs {
			tts = append(tts, f.vtypes[n])
		}
		if len(vs) > 1 {
			target = f.tmp()
		}
		fmt.Fprintf(&b, "%slet %s : %s :=\n%s  if %s then\n%s", ind, target, strings.Join(tts, " × "), ind, c, f.seq(v.Body.List, ind+"    ", tup, v.Body.End()))
		f.env = inner
		fmt.Fprintf(&b, "%s  else\n%s", ind, f.seq(els, ind+"    ", tup, v.End()))
		if len(vs) > 1 {
			for i, n := range vs {
				fmt.Fprintf(&b, "%slet %s : %s := %s\n", ind, n, f.vtypes[n], proj(target, i, len(vs)))
			}
		}
		f.env = f.restoreAfterIf(outer, v)
		b.WriteString(f.seq(rest, ind, k, end))
		return b.String()
	}
	fatal(v.Pos(), "if statement that both returns and falls through in one branch is outside the translated subset")
	return ""
}

// restoreAfterIf: the environment after an if statement = the one before it (variables of the initialiser and of the
// branches go out of scope).  Assignments (`=`) in an initialiser to outer variables stay visible as lets.
func (f *fx) restoreAfterIf(outer map[string]types.Object, v *ast.IfStmt) map[string]types.Object {
	return outer
}

// ---------------------------------------------------------------- functions

func (g *gen) fn(pkg, key string) {
	pi, err := g.ld.load(modPrefix + pkg)
	if err != nil {
		die("type-checking %s failed: %v", pkg, err)
	}
	fd := findFunc(pi, key)
	name := strings.ReplaceAll(key, ".", "_")
	f := &fx{g: g, pi: pi, fd: fd, name: name, env: map[string]types.Object{}, vtypes: map[string]string{}}
	var params []string
	np := 0
	addParam := func(id *ast.Ident, t types.Type) {
		lt := g.leanType(t)
		if lt == "" {
			fatal(fd.Pos(), "parameter of type %v is outside the translated subset", t)
		}
		n := fmt.Sprintf("_p%d", np)
		np++
		if id != nil && id.Name != "_" {
			n = leanLocal(id.Name)
			f.env[id.Name] = pi.info.Defs[id]
		}
		params = append(params, fmt.Sprintf("(%s : %s)", n, f.asc(lt)))
	}
	if fd.Recv != nil {
		fl := fd.Recv.List[0]
		if _, ptr := fl.Type.(*ast.StarExpr); ptr {
			fatal(fd.Pos(), "pointer receiver is outside the translated subset")
		}
		var id *ast.Ident
		if len(fl.Names) == 1 {
			id = fl.Names[0]
		}
		addParam(id, pi.info.Types[fl.Type].Type)
	}
	for _, fl := range fd.Type.Params.List {
		if _, ok := fl.Type.(*ast.Ellipsis); ok {
			fatal(fl.Pos(), "variadic function is outside the translated subset (see fold)")
		}
		t := pi.info.Types[fl.Type].Type
		if len(fl.Names) == 0 {
			addParam(nil, t)
		}
		for _, id := range fl.Names {
			addParam(id, t)
		}
	}
	if fd.Type.Results == nil {
		fatal(fd.Pos(), "function without result")
	}
	fnObj := pi.info.Defs[fd.Name].(*types.Func)
	res := g.leanType(fnObj.Type().(*types.Signature).Results())
	if res == "" {
		fatal(fd.Pos(), "result type is outside the translated subset")
	}
	// named results are variables initialised to their zero value
	var pre strings.Builder
	for _, fl := range fd.Type.Results.List {
		for _, id := range fl.Names {
			if id.Name == "_" {
				continue
			}
			fmt.Fprintf(&pre, "  let %s : %s := %s\n", leanLocal(id.Name), f.asc(g.leanType(pi.info.Defs[id].Type())), f.zero(id.Pos(), g.leanType(pi.info.Defs[id].Type())))
			f.env[id.Name] = pi.info.Defs[id]
		}
	}
	body := pre.String() + f.seq(fd.Body.List, "  ", "", fd.Body.End())
	sig := oneLine(&ast.FuncDecl{Recv: fd.Recv, Name: fd.Name, Type: fd.Type})
	fmt.Fprintf(&g.out, "/-! ### %s: `%s` -/\n\n", relline(fd.Pos()), sig)
	for _, c := range f.consts {
		fmt.Fprintf(&g.out, "/-- %s: constant `%s` -/\ndef %s : F64 := ⟨0x%016x⟩\n", relline(c.pos), c.text, c.name, c.bits)
	}
	e := ""
	if f.usesExt {
		e = " (E : Ext)"
	}
	fmt.Fprintf(&g.out, "def %s%s %s : %s :=\n%s\n", name, e, strings.Join(params, " "), f.asc(res), body)
	g.known[funcKey(fnObj)] = &fnInfo{lean: name, needsExt: f.usesExt}
	g.facts = append(g.facts, fact{Name: pkg + "." + key, Kind: "func", Pos: relline(fd.Pos()), Lean: "S2.Generated.EdgeNumFns." + name, Sha256: sha(src(fd))})
}

// fold translates a variadic selection function of the exact shape
//
//	func f(x T, others ...T) T { acc := x; for _, y := range others { if COND(y, acc) { acc = y } }; return acc }
//
// into a left fold over the list of the remaining arguments.
func (g *gen) fold(pkg, key string) {
	pi, err := g.ld.load(modPrefix + pkg)
	if err != nil {
		die("type-checking %s failed: %v", pkg, err)
	}
	fd := findFunc(pi, key)
	bad := func(p token.Pos) {
		fatal(p, "%s no longer has the shape `acc := x; for _, y := range others { if c { acc = y } }; return acc`", key)
	}
	ps := fd.Type.Params.List
	if len(ps) != 2 || len(ps[0].Names) != 1 || len(ps[1].Names) != 1 || len(fd.Body.List) != 3 {
		bad(fd.Pos())
	}
	if _, ok := ps[1].Type.(*ast.Ellipsis); !ok {
		bad(ps[1].Pos())
	}
	x, others := ps[0].Names[0], ps[1].Names[0]
	if g.leanType(pi.info.Defs[x].Type()) != "F64" {
		bad(ps[0].Pos())
	}
	as, ok := fd.Body.List[0].(*ast.AssignStmt)
	if !ok || as.Tok != token.DEFINE || len(as.Lhs) != 1 || len(as.Rhs) != 1 || oneLine(as.Rhs[0]) != x.Name {
		bad(fd.Body.List[0].Pos())
	}
	acc := as.Lhs[0].(*ast.Ident)
	rg, ok := fd.Body.List[1].(*ast.RangeStmt)
	if !ok || rg.Key == nil || oneLine(rg.Key) != "_" || rg.Value == nil || oneLine(rg.X) != others.Name || len(rg.Body.List) != 1 {
		bad(fd.Body.List[1].Pos())
	}
	y := rg.Value.(*ast.Ident)
	ifs, ok := rg.Body.List[0].(*ast.IfStmt)
	if !ok || ifs.Init != nil || ifs.Else != nil || len(ifs.Body.List) != 1 || oneLine(ifs.Body.List[0]) != acc.Name+" = "+y.Name {
		bad(rg.Body.Pos())
	}
	ret, ok := fd.Body.List[2].(*ast.ReturnStmt)
	if !ok || len(ret.Results) != 1 || oneLine(ret.Results[0]) != acc.Name {
		bad(fd.Body.List[2].Pos())
	}
	name := strings.ReplaceAll(key, ".", "_")
	f := &fx{g: g, pi: pi, fd: fd, name: name, env: map[string]types.Object{}, vtypes: map[string]string{}}
	f.env[acc.Name] = pi.info.Defs[acc]
	f.env[y.Name] = pi.info.Defs[y]
	c := f.x(ifs.Cond)
	if len(f.consts) != 0 || f.usesExt {
		fatal(ifs.Cond.Pos(), "condition of %s uses more than the element and the accumulator", key)
	}
	sig := oneLine(&ast.FuncDecl{Name: fd.Name, Type: fd.Type})
	fmt.Fprintf(&g.out, "/-! ### %s: `%s` : `%s := %s; for _, %s := range %s { if %s { %s = %s } }; return %s` -/\n\ndef %s (%s : F64) (%s : List F64) : F64 :=\n  %s.foldl (fun %s %s => if %s then %s else %s) %s\n\n",
		relline(fd.Pos()), sig, acc.Name, x.Name, y.Name, others.Name, oneLine(ifs.Cond), acc.Name, y.Name, acc.Name,
		name, leanLocal(x.Name), leanLocal(others.Name), leanLocal(others.Name), leanLocal(acc.Name), leanLocal(y.Name), c, leanLocal(y.Name), leanLocal(acc.Name), leanLocal(x.Name))
	fnObj := pi.info.Defs[fd.Name].(*types.Func)
	g.known[funcKey(fnObj)] = &fnInfo{lean: name, fold: true}
	g.facts = append(g.facts, fact{Name: pkg + "." + key, Kind: "func", Pos: relline(fd.Pos()), Lean: "S2.Generated.EdgeNumFns." + name, Sha256: sha(src(fd))})
}

// structEq emits Go's `==` on r3.Vector (and on s2.Point = struct{ r3.Vector }) from the field list of the struct.
func (g *gen) structEq() {
	pi, err := g.ld.load(modPrefix + "r3")
	if err != nil {
		die("type-checking r3 failed: %v", err)
	}
	o := pi.pkg.Scope().Lookup("Vector")
	if o == nil {
		die("r3.Vector not found")
	}
	st, ok := o.Type().Underlying().(*types.Struct)
	if !ok {
		fatal(o.Pos(), "r3.Vector is not a struct")
	}
	var cs, fs []string
	for i := 0; i < st.NumFields(); i++ {
		fld := st.Field(i)
		if g.leanType(fld.Type()) != "F64" {
			fatal(fld.Pos(), "field %s of r3.Vector is not a float64", fld.Name())
		}
		n := strings.ToLower(fld.Name())
		cs = append(cs, fmt.Sprintf("F64.feq a.%s b.%s", n, n))
		fs = append(fs, fld.Name())
	}
	if strings.Join(fs, ",") != "X,Y,Z" {
		fatal(o.Pos(), "r3.Vector no longer is struct{ X, Y, Z float64 }")
	}
	fmt.Fprintf(&g.out, "/-- %s: Go's `==` on `r3.Vector` (and on `s2.Point`): field by field, in field order (%s) -/\ndef structEq_Vector (a b : V3) : Bool :=\n  %s\n\n",
		relline(o.Pos()), strings.Join(fs, ", "), strings.Join(cs, " && "))
	g.facts = append(g.facts, fact{Name: "r3.Vector", Kind: "struct", Pos: relline(o.Pos()), Lean: "S2.Generated.EdgeNumFns.structEq_Vector", Sha256: sha(strings.Join(fs, ","))})
}

const prelude = `/-
  GENERATED by translator_c16 from r3/vector.go, s1/chordangle.go, s1/angle.go, s2/point.go, s2/util.go,
  s2/edge_crossings.go, s2/edge_distances.go — do not edit.
  Regenerated on every run of ./check; S2Proofs/Ties/C16_EdgeNum.lean and C17_EdgeNum.lean tie the hand model
  (S2.EdgeNum, S2.Chord, S2.V3) to it.  Translation rules: header of translator_c16/main.go.
-/
import S2.F64
import S2.STUV
set_option linter.unusedVariables false
namespace S2.Generated.EdgeNumFns
open S2

/-- the functions that are called but not translated here; the tie files instantiate them with the hand model.
    ` + "`PV`" + ` = r3.PreciseVector (math/big), sin / cos / asin / atan2 = libm. -/
structure Ext where
  PV : Type
%s
/-- the zero value of float64 -/
def zero_F64 : F64 := ⟨0x0000000000000000⟩
/-- the zero value of r3.Vector / s2.Point -/
def zero_V3 : V3 := ⟨zero_F64, zero_F64, zero_F64⟩

`

func writeFile(dir, name, content string) {
	if err := os.WriteFile(filepath.Join(dir, name), []byte(content), 0o644); err != nil {
		die("%v", err)
	}
}

type item struct{ kind, pkg, key string }

var items = []item{
	{"structEq", "", ""},
	// r3/vector.go
	{"fn", "r3", "Vector.Add"}, {"fn", "r3", "Vector.Sub"}, {"fn", "r3", "Vector.Mul"}, {"fn", "r3", "Vector.Dot"},
	{"fn", "r3", "Vector.Cross"}, {"fn", "r3", "Vector.Norm2"}, {"fn", "r3", "Vector.Norm"}, {"fn", "r3", "Vector.Normalize"},
	{"fn", "r3", "Vector.Cmp"}, {"fn", "r3", "Vector.Abs"}, {"fn", "r3", "Vector.LargestComponent"}, {"fn", "r3", "Vector.Ortho"},
	// s1
	{"var", "s1", "dblEpsilon"},
	{"fn", "s1", "ChordAngleFromSquaredLength"}, {"fn", "s1", "InfChordAngle"}, {"fn", "s1", "ChordAngle.IsInfinity"},
	{"fn", "s1", "ChordAngle.isSpecial"}, {"fn", "s1", "ChordAngle.isValid"}, {"fn", "s1", "ChordAngle.Expanded"},
	{"fn", "s1", "ChordAngle.Successor"}, {"fn", "s1", "ChordAngle.Predecessor"}, {"fn", "s1", "ChordAngle.MaxPointError"},
	{"fn", "s1", "ChordAngle.MaxAngleError"}, {"fn", "s1", "ChordAngle.Add"}, {"fn", "s1", "ChordAngle.Sub"},
	{"fn", "s1", "ChordAngle.Sin2"}, {"fn", "s1", "ChordAngle.Cos"},
	{"fn", "s1", "InfAngle"}, {"fn", "s1", "Angle.Radians"}, {"fn", "s1", "ChordAngle.Angle"},
	// s2 helpers
	{"fn", "r3", "Vector.Angle"},
	{"fn", "s2", "Point.PointCross"}, {"fn", "s2", "ChordAngleBetweenPoints"},
	{"fold", "s2", "maxChordAngle"}, {"fold", "s2", "minChordAngle"},
	// s2/edge_crossings.go
	{"const", "s2", "dblEpsilon"}, {"const", "s2", "dblError"}, {"const", "s2", "sqrt3"},
	{"const", "s2", "intersectionError"}, {"const", "s2", "intersectionMergeRadius"}, {"const", "s2", "minNormalFloat64"},
	{"roundingEpsilon", "s2", ""},
	{"fn", "s2", "robustNormalWithLength"}, {"fn", "s2", "projection"}, {"fn", "s2", "compareEdges"},
	{"fn", "s2", "intersectionStableSorted"}, {"fn", "s2", "canonicalEdges"}, {"fn", "s2", "intersectionStable"},
	{"fn", "s2", "intersectionExact"},
	{"fn", "s2", "Intersection"},
	// s2/edge_distances.go
	{"fn", "s2", "interiorDist"}, {"fn", "s2", "updateMinDistance"}, {"fn", "s2", "UpdateMinDistance"},
	{"fn", "s2", "IsDistanceLess"}, {"fn", "s2", "UpdateMinInteriorDistance"}, {"fn", "s2", "IsInteriorDistanceLess"},
	{"fn", "s2", "DistanceFromSegment"}, {"fn", "s2", "UpdateMaxDistance"}, {"fn", "s2", "Project"},
	{"fn", "s2", "minUpdateInteriorDistanceMaxError"}, {"fn", "s2", "minUpdateDistanceMaxError"},
	{"fn", "s2", "updateEdgePairMinDistance"}, {"fn", "s2", "updateEdgePairMaxDistance"}, {"fn", "s2", "EdgePairClosestPoints"},
	{"fn", "s2", "DistanceFraction"}, {"fn", "s2", "InterpolateAtDistance"}, {"fn", "s2", "Interpolate"},
}

func main() {
	repo := flag.String("repo", "/repo", "golang/geo checkout")
	outDir := flag.String("out", "", "output directory (lean/S2/Generated)")
	factsPath := flag.String("facts", "", "facts.json to write")
	flag.Parse()
	if *outDir == "" {
		fmt.Fprintln(os.Stderr, "need -out")
		os.Exit(2)
	}
	abs, err := filepath.Abs(*repo)
	if err != nil {
		die("%v", err)
	}
	repoRoot = abs
	ld := &loader{fset: fset, repo: abs, std: importer.ForCompiler(fset, "source", nil), pk: map[string]*pkgInfo{}}
	if err := os.MkdirAll(*outDir, 0o755); err != nil {
		die("%v", err)
	}
	g := &gen{ld: ld, known: map[string]*fnInfo{}, ext: map[string]*extSpec{}, pvars: map[string]string{}}
	var ef strings.Builder
	for i := range extTable {
		e := &extTable[i]
		g.ext[e.key] = e
		fmt.Fprintf(&ef, "  /-- `%s` -/\n  %s : %s\n", e.key, e.field, e.typ)
	}
	fmt.Fprintf(&g.out, prelude, ef.String())
	for _, it := range items {
		switch it.kind {
		case "structEq":
			g.structEq()
		case "fn":
			g.fn(it.pkg, it.key)
		case "fold":
			g.fold(it.pkg, it.key)
		case "var":
			g.emitPkgVar(it.pkg, it.key)
		case "const":
			g.emitConst(it.pkg, it.key)
		case "roundingEpsilon":
			g.roundingEpsilon()
			g.haveRE = true
		}
	}
	genShapes(g)
	g.out.WriteString("end S2.Generated.EdgeNumFns\n")
	files := map[string]string{"EdgeNumFns.lean": g.out.String()}
	var names []string
	for n := range files {
		names = append(names, n)
	}
	sort.Strings(names)
	type fileFact struct {
		File   string `json:"file"`
		Sha256 string `json:"sha256"`
	}
	var ff []fileFact
	for _, n := range names {
		writeFile(*outDir, n, files[n])
		ff = append(ff, fileFact{n, sha(files[n])})
	}
	if *factsPath != "" {
		js, _ := json.MarshalIndent(map[string]interface{}{"translator": tool, "files": ff, "items": g.facts}, "", " ")
		if err := os.WriteFile(*factsPath, append(js, '\n'), 0o644); err != nil {
			die("%v", err)
		}
	}
	fmt.Printf("%s: %d items translated into %d files\n", tool, len(g.facts), len(names))
}
