module translator_c16

go 1.21
