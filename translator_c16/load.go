package main

// Loading / type-checking of the repo and small helpers (same scheme as translator_c19).

import (
	"bytes"
	"crypto/sha256"
	"fmt"
	"go/ast"
	"go/build"
	"go/constant"
	"go/parser"
	"go/printer"
	"go/token"
	"go/types"
	"math"
	"os"
	"path/filepath"
	"sort"
	"strings"
)

const tool = "translator_c16"

const modPrefix = "github.com/golang/geo/"

type loader struct {
	fset *token.FileSet
	repo string
	std  types.Importer
	pk   map[string]*pkgInfo
}

type pkgInfo struct {
	pkg   *types.Package
	info  *types.Info
	files []*ast.File
	names []string
}

func (m *loader) Import(path string) (*types.Package, error) {
	if strings.HasPrefix(path, modPrefix) {
		p, err := m.load(path)
		if err != nil {
			return nil, err
		}
		return p.pkg, nil
	}
	return m.std.Import(path)
}

func (m *loader) load(path string) (*pkgInfo, error) {
	if p, ok := m.pk[path]; ok {
		return p, nil
	}
	dir := filepath.Join(m.repo, strings.TrimPrefix(path, modPrefix))
	ctx := build.Default
	ctx.BuildTags = nil // hooks (`//go:build verif`) are not part of the translated source
	bp, err := ctx.ImportDir(dir, 0)
	if err != nil {
		return nil, err
	}
	pi := &pkgInfo{}
	names := append([]string{}, bp.GoFiles...)
	sort.Strings(names)
	for _, f := range names {
		af, err := parser.ParseFile(m.fset, filepath.Join(dir, f), nil, parser.ParseComments)
		if err != nil {
			return nil, err
		}
		pi.files = append(pi.files, af)
		pi.names = append(pi.names, f)
	}
	pi.info = &types.Info{
		Types:      map[ast.Expr]types.TypeAndValue{},
		Defs:       map[*ast.Ident]types.Object{},
		Uses:       map[*ast.Ident]types.Object{},
		Selections: map[*ast.SelectorExpr]*types.Selection{},
		Scopes:     map[ast.Node]*types.Scope{},
	}
	conf := types.Config{Importer: m}
	pi.pkg, err = conf.Check(path, m.fset, pi.files, pi.info)
	if err != nil {
		return nil, err
	}
	m.pk[path] = pi
	return pi, nil
}

var fset = token.NewFileSet()
var repoRoot string

func relpos(p token.Pos) string {
	pos := fset.Position(p)
	if r, err := filepath.Rel(repoRoot, pos.Filename); err == nil {
		pos.Filename = r
	}
	return fmt.Sprintf("%s:%d:%d", pos.Filename, pos.Line, pos.Column)
}

func relline(p token.Pos) string {
	pos := fset.Position(p)
	if r, err := filepath.Rel(repoRoot, pos.Filename); err == nil {
		pos.Filename = r
	}
	return fmt.Sprintf("%s:%d", pos.Filename, pos.Line)
}

func fatal(p token.Pos, format string, a ...interface{}) {
	fmt.Fprintf(os.Stderr, "%s: %s: %s\n", tool, relpos(p), fmt.Sprintf(format, a...))
	os.Exit(1)
}

func die(format string, a ...interface{}) {
	fmt.Fprintf(os.Stderr, "%s: %s\n", tool, fmt.Sprintf(format, a...))
	os.Exit(1)
}

func src(n ast.Node) string {
	var b bytes.Buffer
	printer.Fprint(&b, fset, n)
	return b.String()
}

func oneLine(n ast.Node) string {
	s := strings.Join(strings.Fields(src(n)), " ")
	s = strings.ReplaceAll(s, "-/", "- /")
	s = strings.ReplaceAll(s, "/-", "/ -")
	return s
}

func sha(s string) string {
	h := sha256.Sum256([]byte(s))
	return fmt.Sprintf("%x", h[:])
}

var reserved = map[string]bool{"at": true, "from": true, "end": true, "fun": true, "show": true, "have": true, "open": true,
	"in": true, "then": true, "else": true, "if": true, "let": true, "do": true, "match": true, "with": true, "def": true,
	"theorem": true, "where": true, "by": true, "this": true, "variable": true, "section": true, "namespace": true, "instance": true,
	"structure": true, "class": true, "deriving": true, "mutual": true, "private": true, "protected": true, "export": true,
	"import": true, "return": true, "for": true, "nomatch": true, "Type": true, "Prop": true, "Sort": true,
	"max": true, "min": true, "decide": true, "true": true, "false": true, "default": true, "E": true}

func leanLocal(name string) string {
	if reserved[name] {
		return name + "'"
	}
	return name
}

func unparen(e ast.Expr) ast.Expr {
	for {
		p, ok := e.(*ast.ParenExpr)
		if !ok {
			return e
		}
		e = p.X
	}
}

type fact struct {
	Name   string `json:"name"`
	Kind   string `json:"kind"`
	Pos    string `json:"pos"`
	Lean   string `json:"lean"`
	Sha256 string `json:"sha256"`
}

// findFunc finds `Name` or `Recv.Name` in the package.
func findFunc(pi *pkgInfo, key string) *ast.FuncDecl {
	recv, name := "", key
	if i := strings.Index(key, "."); i >= 0 {
		recv, name = key[:i], key[i+1:]
	}
	var found *ast.FuncDecl
	for _, f := range pi.files {
		for _, d := range f.Decls {
			fd, ok := d.(*ast.FuncDecl)
			if !ok || fd.Name.Name != name {
				continue
			}
			r := ""
			if fd.Recv != nil && len(fd.Recv.List) == 1 {
				t := fd.Recv.List[0].Type
				if s, ok := t.(*ast.StarExpr); ok {
					t = s.X
				}
				if id, ok := t.(*ast.Ident); ok {
					r = id.Name
				}
			}
			if r != recv {
				continue
			}
			if found != nil {
				die("%s.%s declared twice", pi.pkg.Name(), key)
			}
			found = fd
		}
	}
	if found == nil || found.Body == nil {
		die("function %s.%s not found in %s — the translated source changed shape", pi.pkg.Name(), key, pi.pkg.Path())
	}
	return found
}

func funcKey(f *types.Func) string {
	sig := f.Type().(*types.Signature)
	pk := ""
	if f.Pkg() != nil {
		pk = f.Pkg().Name() + "."
	}
	if r := sig.Recv(); r != nil {
		t := r.Type()
		if p, ok := t.(*types.Pointer); ok {
			t = p.Elem()
		}
		if n, ok := t.(*types.Named); ok {
			return pk + n.Obj().Name() + "." + f.Name()
		}
	}
	return pk + f.Name()
}

func typeKey(t types.Type) string {
	switch v := t.(type) {
	case *types.Named:
		if v.Obj().Pkg() == nil {
			return v.Obj().Name()
		}
		return v.Obj().Pkg().Name() + "." + v.Obj().Name()
	case *types.Basic:
		return v.Name()
	case *types.Pointer:
		return "*" + typeKey(v.Elem())
	case *types.Slice:
		return "[]" + typeKey(v.Elem())
	}
	return t.String()
}

func f64bits(p token.Pos, v constant.Value) uint64 {
	f, _ := constant.Float64Val(constant.ToFloat(v))
	if math.IsInf(f, 0) || math.IsNaN(f) {
		fatal(p, "constant does not fit a float64")
	}
	return math.Float64bits(f)
}

func simpleAtom(s string) bool {
	for _, r := range s {
		if !(r == '_' || r == '.' || r == '\'' || (r >= '0' && r <= '9') || (r >= 'a' && r <= 'z') || (r >= 'A' && r <= 'Z')) {
			return false
		}
	}
	return s != ""
}

func atomize(s string) string {
	if simpleAtom(s) || (strings.HasPrefix(s, "(") && balancedWhole(s)) {
		return s
	}
	return "(" + s + ")"
}

// balancedWhole reports whether the outermost parentheses of s enclose all of s.
func balancedWhole(s string) bool {
	d := 0
	for i, r := range s {
		switch r {
		case '(':
			d++
		case ')':
			d--
			if d == 0 && i != len(s)-1 {
				return false
			}
		}
	}
	return d == 0 && strings.HasSuffix(s, ")")
}

func terminates(list []ast.Stmt) bool {
	if len(list) == 0 {
		return false
	}
	switch v := list[len(list)-1].(type) {
	case *ast.ReturnStmt:
		return true
	case *ast.BlockStmt:
		return terminates(v.List)
	case *ast.IfStmt:
		if v.Else == nil {
			return false
		}
		return terminates(v.Body.List) && terminates(elseList(v.Else))
	case *ast.SwitchStmt:
		hasDefault := false
		for _, c := range v.Body.List {
			cc := c.(*ast.CaseClause)
			if cc.List == nil {
				hasDefault = true
			}
			if !terminates(cc.Body) {
				return false
			}
		}
		return hasDefault
	case *ast.ExprStmt:
		return isPanic(v)
	}
	return false
}

func isPanic(s ast.Stmt) bool {
	if v, ok := s.(*ast.ExprStmt); ok {
		if c, ok := v.X.(*ast.CallExpr); ok {
			if id, ok := c.Fun.(*ast.Ident); ok && id.Name == "panic" {
				return true
			}
		}
	}
	return false
}

func elseList(s ast.Stmt) []ast.Stmt {
	switch v := s.(type) {
	case nil:
		return nil
	case *ast.BlockStmt:
		return v.List
	default:
		return []ast.Stmt{v}
	}
}

func hasReturn(list []ast.Stmt) bool {
	found := false
	for _, s := range list {
		ast.Inspect(s, func(n ast.Node) bool {
			if _, ok := n.(*ast.ReturnStmt); ok {
				found = true
			}
			if st, ok := n.(ast.Stmt); ok && isPanic(st) {
				found = true
			}
			return !found
		})
	}
	return found
}

func leanString(s string) string {
	s = strings.ReplaceAll(s, "\\", "\\\\")
	s = strings.ReplaceAll(s, "\"", "\\\"")
	return "\"" + s + "\""
}
