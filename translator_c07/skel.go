package main

// Skeleton extraction.
//
// For a function F (the control flow — pointer receivers, slices grown by append, loops with break / continue, calls
// into geometry — is kept as a string, everything computational is turned into Lean terms):
//
//   * every `if` / `for` / tag-less `switch` condition becomes   def F_cond<k> (atoms…) : Bool
//   * every other computational expression of a translated kind (right-hand sides, returned values, call arguments,
//     composite-literal fields, index expressions, closure results) becomes   def F_val<k> (atoms…) : T
//   * what remains — the statement structure with every extracted expression replaced by `cond<k>⟨a; b; …⟩` /
//     `val<k>⟨a; b; …⟩`, where a, b, … are the ATOM TEXTS in parameter order — becomes the string  F_shape.
//
// An ATOM is a maximal sub-expression that is not arithmetic / logic / a known function: a local, a field chain
// (`c.radius`), an element of a slice of structs (`l.vertices[val3⟨i⟩]`), a call of an untranslated function (`math.Sin(x)`,
// `l.Vertex(i)`; computational arguments are extracted as values of their own).  Atoms become the parameters of the
// definition in order of first occurrence; the same text inside one expression is one parameter.  Since the atom texts
// are part of the shape string, every token of the Go body lands either in a definition body or in the shape.
//
// Kinds and operators:
//
//	int kinds (int, int32, int64, uint8 …) -> Int   (+ - * exact; / % = Int.tdiv / Int.tmod; a << s = a * 2^s;
//	                                 a >> s = a >>> s; conversions between int kinds are the identity: the quantities are
//	                                 levels, counts, indices and int32 labels, nothing overflows)
//	                                 or -> Nat for the files whose hand model uses Nat (then a - b is the truncated
//	                                 subtraction and a negative constant is a fatal error)
//	uint64, CellID                -> UInt64  (+ - * & | ^ &^ ~~~ << >> wrap as in Go; shift counts >= 64 via shl64/shr64)
//	float64, s1.Angle, s1.ChordAngle -> S2.F64 (bit-exact soft-float): F64.add/sub/mul/div/neg, F64.lt/le (a > b is
//	                                 F64.lt b a), F64.feq; constants folded by go/types, written as bit patterns;
//	                                 math.Sqrt/Abs/Max/Min/Floor -> F64.sqrt/abs/fmax/fmin/floor; every other libm
//	                                 function is an atom (its arguments are extracted)
//	r3.Vector, s2.Point           -> S2.V3: .X .Y .Z -> .x .y .z; Add Sub Mul Dot Cross Norm Norm2 Normalize -> V3.*;
//	                                 == -> V3.feq; r3.Vector{a,b,c} -> V3.mk a b c; Point{v}, p.Vector -> v
//	[]CellID, CellUnion, *CellUnion -> Array UInt64: x[i] -> x[i]!, len(x) -> x.size
//	CellID methods                -> the definitions of S2.Generated.CellIDFns / CellUnionFns (translator_c01)
//	a < b …                       -> decide (a < b) ;  == != -> == != ;  && || ! -> && || !
//
// Additions of translator_c07 (skel.geo = the relation files):
//
//	s2.Point                      -> the abstract point type α of `Relate.Geo α`: a == b -> decide (a = b), != -> !decide (a = b)
//	crossingTarget / Crossing / Direction -> RelateWalk.Target / Int / Int BY CONSTANT NAME (table `enums`; the constant list and
//	                                 the values of the Go type are checked by checkEnums; a named constant of these types is
//	                                 extracted as a value of its own, `return crossingTargetCross` -> F_val0 := Target.cross)
//	skel.known                    -> calls of hand-model functions (Relate.orderedCCW G, Relate.wedgeContains G, …, CellID.rangeMin …)
//	int64(x), int(x) of a uint64  -> CellID.int64OfWord x (two's complement; the rule `x.toNat` of translator_c10 is wrong
//	                                 for values ≥ 2^63, e.g. `int64(a.lsb() - b.lsb())` in hasCrossingRelation)
//	a - b in a function over Nat  -> fatal (would truncate)

import (
	"bytes"
	"fmt"
	"go/ast"
	"go/constant"
	"go/token"
	"go/types"
	"strings"
)

type skel struct {
	pi      *pkgInfo
	out     *bytes.Buffer
	ns      string
	facts   []fact
	intKind string             // "Int" or "Nat"
	geo     bool               // s2.Point is the abstract point type α of the hand model's `Relate.Geo α` (a == b -> decide (a = b))
	known   map[string]knownFn // functions known to this generated file only (looked up before knownFns)
}

// enums of the Go source that the hand model has as inductive types (or as Int codes): Go type -> Lean type, and
// the Lean term of every NAMED constant.  The constant list of the Go type must be exactly this one (checkEnums).
type enumSpec struct {
	lean   string
	consts [][3]string // Go constant name, its Go value, Lean term
}

var enumOrder = []string{"s2.crossingTarget", "s2.Crossing", "s2.Direction"}
var enums = map[string]*enumSpec{
	"s2.crossingTarget": {"RelateWalk.Target", [][3]string{{"crossingTargetDontCare", "0", "RelateWalk.Target.dontCare"},
		{"crossingTargetDontCross", "1", "RelateWalk.Target.dontCross"}, {"crossingTargetCross", "2", "RelateWalk.Target.cross"}}},
	// S2.Relate.crossingSign : Int with +1 = Cross, 0 = MaybeCross, -1 = DoNotCross (the C++ numbering); Go numbers them 0,1,2
	"s2.Crossing": {"Int", [][3]string{{"Cross", "0", "(1 : Int)"}, {"MaybeCross", "1", "(0 : Int)"}, {"DoNotCross", "2", "(-1 : Int)"}}},
	// S2.Relate.Geo.sg : Int = the Go value of the Direction
	"s2.Direction": {"Int", [][3]string{{"Clockwise", "-1", "(-1 : Int)"}, {"Indeterminate", "0", "(0 : Int)"}, {"CounterClockwise", "1", "(1 : Int)"}}},
}

// checkEnums verifies that the constants of every enum type are exactly the expected ones with the expected values.
func checkEnums(pi *pkgInfo, facts *[]fact) {
	for _, k := range enumOrder {
		sp := enums[k]
		tn := pi.pkg.Scope().Lookup(strings.TrimPrefix(k, "s2."))
		if tn == nil {
			die("type %s not found", k)
		}
		n := 0
		for _, name := range pi.pkg.Scope().Names() { // sorted by name: deterministic
			c, ok := pi.pkg.Scope().Lookup(name).(*types.Const)
			if !ok || !types.Identical(c.Type(), tn.Type()) {
				continue
			}
			found := false
			for _, cc := range sp.consts {
				if cc[0] == name {
					found = true
					if c.Val().ExactString() != cc[1] {
						fatal(c.Pos(), "constant %s = %s of enum %s: the hand model expects the value %s", name, c.Val().ExactString(), k, cc[1])
					}
				}
			}
			if !found {
				fatal(c.Pos(), "constant %s of enum %s is unknown to the hand model (%v)", name, k, sp.consts)
			}
			n++
		}
		if n != len(sp.consts) {
			fatal(tn.Pos(), "enum %s has %d constants, the hand model expects %v", k, n, sp.consts)
		}
		var fs []string
		for _, c := range sp.consts {
			fs = append(fs, c[0]+"="+c[1])
		}
		*facts = append(*facts, fact{Name: k, Kind: "enum", Pos: relline(tn.Pos()), Lean: sp.lean, Sha256: sha(strings.Join(fs, ";"))})
	}
}

type atom struct {
	text string // source text (with extracted values replaced by their names)
	name string
	kind string
}

type atomSet struct {
	list []atom
}

func (a *atomSet) get(text, kind string) string {
	for _, x := range a.list {
		if x.text == text {
			if x.kind != kind {
				die("internal: atom %s with kinds %s and %s", text, x.kind, kind)
			}
			return x.name
		}
	}
	name := sanitize(text)
	for clash := true; clash; {
		clash = false
		for _, x := range a.list {
			if x.name == name {
				name += "'"
				clash = true
			}
		}
	}
	a.list = append(a.list, atom{text, name, kind})
	return name
}

func (a *atomSet) params() string {
	var ps []string
	for _, x := range a.list {
		ps = append(ps, fmt.Sprintf(" (%s : %s)", x.name, x.kind))
	}
	return strings.Join(ps, "")
}

func (a *atomSet) texts() string {
	var ts []string
	for _, x := range a.list {
		ts = append(ts, x.text)
	}
	return "⟨" + strings.Join(ts, "; ") + "⟩"
}

func sanitize(s string) string {
	// drop the atom lists of embedded values: `l.Vertex(val3⟨i⟩)` -> l_Vertex_val3
	for {
		i := strings.Index(s, "⟨")
		if i < 0 {
			break
		}
		d, j := 0, i
		for ; j < len(s); j++ {
			if strings.HasPrefix(s[j:], "⟨") {
				d++
			} else if strings.HasPrefix(s[j:], "⟩") {
				d--
				if d == 0 {
					break
				}
			}
		}
		if j >= len(s) {
			break
		}
		s = s[:i] + s[j+len("⟩"):]
	}
	var b strings.Builder
	last := byte('_')
	for i := 0; i < len(s); i++ {
		c := s[i]
		ok := c == '_' || (c >= '0' && c <= '9') || (c >= 'a' && c <= 'z') || (c >= 'A' && c <= 'Z')
		if !ok {
			c = '_'
		}
		if c == '_' && last == '_' {
			continue
		}
		b.WriteByte(c)
		last = c
	}
	r := strings.Trim(b.String(), "_")
	if r == "" || (r[0] >= '0' && r[0] <= '9') {
		r = "x" + r
	}
	if reserved[r] {
		r += "'"
	}
	return r
}

func namedKey(t types.Type) string {
	if n, ok := t.(*types.Named); ok && n.Obj().Pkg() != nil {
		return n.Obj().Pkg().Name() + "." + n.Obj().Name()
	}
	return ""
}

func (s *skel) kindOfType(t types.Type) string {
	if t == nil {
		return ""
	}
	if p, ok := t.(*types.Pointer); ok {
		// only pointers to slices of ids (`*CellUnion`) are looked through
		if k := s.kindOfType(p.Elem()); k == "Array UInt64" {
			return k
		}
		return ""
	}
	if sp, ok := enums[namedKey(t)]; ok && s.geo {
		return sp.lean
	}
	switch namedKey(t) {
	case "s2.Point":
		if s.geo {
			return "α"
		}
		return "V3"
	case "r3.Vector":
		return "V3"
	}
	if sl, ok := t.Underlying().(*types.Slice); ok {
		if b, ok := sl.Elem().Underlying().(*types.Basic); ok && b.Kind() == types.Uint64 {
			return "Array UInt64"
		}
		return ""
	}
	if b, ok := t.Underlying().(*types.Basic); ok {
		switch b.Kind() {
		case types.Int, types.Int8, types.Int16, types.Int32, types.Int64, types.Uint, types.Uint8, types.Uint16, types.Uint32, types.UntypedInt, types.UntypedRune:
			return s.intKind
		case types.Uint64:
			return "UInt64"
		case types.Bool, types.UntypedBool:
			return "Bool"
		case types.Float64, types.UntypedFloat:
			return "F64"
		}
	}
	return ""
}

func (s *skel) isInt(k string) bool { return k == "Int" || k == "Nat" }

// ---- known functions

type knownFn struct {
	lean   string
	params []string // kinds: "UInt64", "Nat", "Bool", "F64", "V3" (the receiver first)
	result string
}

var knownFns = map[string]knownFn{
	"s2.CellID.lsb":               {"CellIDFns.lsb", []string{"UInt64"}, "UInt64"},
	"s2.CellID.Level":             {"CellIDFns.Level", []string{"UInt64"}, "Nat"},
	"s2.CellID.IsValid":           {"CellIDFns.IsValid", []string{"UInt64"}, "Bool"},
	"s2.CellID.IsLeaf":            {"CellIDFns.IsLeaf", []string{"UInt64"}, "Bool"},
	"s2.CellID.isFace":            {"CellIDFns.isFace", []string{"UInt64"}, "Bool"},
	"s2.CellID.Parent":            {"CellIDFns.Parent", []string{"UInt64", "Nat"}, "UInt64"},
	"s2.CellID.immediateParent":   {"CellIDFns.immediateParent", []string{"UInt64"}, "UInt64"},
	"s2.CellID.RangeMin":          {"CellIDFns.RangeMin", []string{"UInt64"}, "UInt64"},
	"s2.CellID.RangeMax":          {"CellIDFns.RangeMax", []string{"UInt64"}, "UInt64"},
	"s2.CellID.Contains":          {"CellIDFns.Contains", []string{"UInt64", "UInt64"}, "Bool"},
	"s2.CellID.Intersects":        {"CellIDFns.Intersects", []string{"UInt64", "UInt64"}, "Bool"},
	"s2.CellID.ChildBegin":        {"CellIDFns.ChildBegin", []string{"UInt64"}, "UInt64"},
	"s2.CellID.ChildBeginAtLevel": {"CellIDFns.ChildBeginAtLevel", []string{"UInt64", "Nat"}, "UInt64"},
	"s2.CellID.ChildEnd":          {"CellIDFns.ChildEnd", []string{"UInt64"}, "UInt64"},
	"s2.CellID.ChildEndAtLevel":   {"CellIDFns.ChildEndAtLevel", []string{"UInt64", "Nat"}, "UInt64"},
	"s2.CellID.Next":              {"CellIDFns.Next", []string{"UInt64"}, "UInt64"},
	"s2.CellID.Prev":              {"CellIDFns.Prev", []string{"UInt64"}, "UInt64"},
	"s2.CellID.MaxTile":           {"CellIDFns.MaxTile", []string{"UInt64", "UInt64"}, "UInt64"},
	"s2.CellIDFromFace":           {"CellIDFns.CellIDFromFace", []string{"Nat"}, "UInt64"},
	"s2.lsbForLevel":              {"CellIDFns.lsbForLevel", []string{"Nat"}, "UInt64"},
	"s2.areSiblings":              {"CellUnionFns.areSiblings", []string{"UInt64", "UInt64", "UInt64", "UInt64"}, "Bool"},
	"math.Sqrt":                   {"F64.sqrt", []string{"F64"}, "F64"},
	"math.Abs":                    {"F64.abs", []string{"F64"}, "F64"},
	"math.Max":                    {"F64.fmax", []string{"F64", "F64"}, "F64"},
	"math.Min":                    {"F64.fmin", []string{"F64", "F64"}, "F64"},
	"math.Floor":                  {"F64.floor", []string{"F64"}, "F64"},
	"r3.Vector.Add":               {"V3.add", []string{"V3", "V3"}, "V3"},
	"r3.Vector.Sub":               {"V3.sub", []string{"V3", "V3"}, "V3"},
	"r3.Vector.Mul":               {"V3.mul", []string{"V3", "F64"}, "V3"},
	"r3.Vector.Dot":               {"V3.dot", []string{"V3", "V3"}, "F64"},
	"r3.Vector.Cross":             {"V3.cross", []string{"V3", "V3"}, "V3"},
	"r3.Vector.Norm":              {"V3.norm", []string{"V3"}, "F64"},
	"r3.Vector.Norm2":             {"V3.norm2", []string{"V3"}, "F64"},
	"r3.Vector.Normalize":         {"V3.normalize", []string{"V3"}, "V3"},
	"r3.Vector.Abs":               {"V3.abs", []string{"V3"}, "V3"},
}

// ---- expression environment (one per emitted definition)

type xenv struct {
	f     *fnx
	atoms *atomSet
	ok    bool // false once something outside the subset was met
	why   string
}

func (e *xenv) s() *skel { return e.f.s }

func (e *xenv) fail(p token.Pos, format string, a ...interface{}) string {
	if e.ok {
		e.why = relpos(p) + ": " + fmt.Sprintf(format, a...)
	}
	e.ok = false
	return "?"
}

func (s *skel) typ(x ast.Expr) types.Type {
	if tv, ok := s.pi.info.Types[x]; ok {
		return tv.Type
	}
	if id, ok := x.(*ast.Ident); ok {
		if o := s.pi.info.Uses[id]; o != nil {
			return o.Type()
		}
		if o := s.pi.info.Defs[id]; o != nil {
			return o.Type()
		}
	}
	return nil
}

func (s *skel) kind(x ast.Expr) string { return s.kindOfType(s.typ(x)) }

func (e *xenv) atomOf(x ast.Expr) string {
	k := e.s().kind(x)
	if k == "" {
		return e.fail(x.Pos(), "`%s` has type %v, which is outside the translated subset", oneLine(x), e.s().typ(x))
	}
	return e.atoms.get(e.f.atomText(x), k)
}

func (s *skel) litOf(p token.Pos, v constant.Value, k string) (string, bool) {
	switch k {
	case "Bool":
		if constant.BoolVal(v) {
			return "true", true
		}
		return "false", true
	case "Int", "Nat":
		iv := constant.ToInt(v)
		if iv.Kind() != constant.Int {
			return "", false
		}
		t := iv.ExactString()
		if strings.HasPrefix(t, "-") {
			if k == "Nat" {
				fatal(p, "negative integer constant %s in a function translated over Nat", t)
			}
			return "(" + t + ")", true
		}
		return t, true
	case "UInt64":
		iv := constant.ToInt(v)
		u, ok := constant.Uint64Val(iv)
		if !ok {
			return "", false
		}
		return fmt.Sprintf("(0x%x : UInt64)", u), true
	case "F64":
		return fmt.Sprintf("(⟨0x%016x⟩ : F64)", f64bits(p, v)), true
	}
	return "", false
}

func (s *skel) isNilExpr(x ast.Expr) bool {
	tv, ok := s.pi.info.Types[unparen(x)]
	return ok && tv.IsNil()
}

func (s *skel) calleeOf(c *ast.CallExpr) *types.Func {
	switch f := unparen(c.Fun).(type) {
	case *ast.Ident:
		fn, _ := s.pi.info.Uses[f].(*types.Func)
		return fn
	case *ast.SelectorExpr:
		if sel, ok := s.pi.info.Selections[f]; ok {
			fn, _ := sel.Obj().(*types.Func)
			return fn
		}
		fn, _ := s.pi.info.Uses[f.Sel].(*types.Func)
		return fn
	}
	return nil
}

// conv adapts a term of kind `from` to the parameter kind `to` of a known function.
func (e *xenv) conv(p token.Pos, t, from, to string) string {
	if from == to {
		return t
	}
	switch {
	case from == "Int" && to == "Nat":
		if isNatLit(t) {
			return t
		}
		return "(" + t + ").toNat"
	case from == "Nat" && to == "Int":
		return "(" + t + " : Int)"
	}
	return e.fail(p, "argument of kind %s where %s is expected", from, to)
}

// x translates an expression; the result is a Lean term of kind kind(x).
func (e *xenv) x(x ast.Expr) string {
	x = unparen(x)
	s := e.s()
	if tv, ok := s.pi.info.Types[x]; ok && tv.Value != nil {
		k := s.kindOfType(tv.Type)
		if sp, isEnum := enums[namedKey(tv.Type)]; isEnum && s.geo {
			// only a NAMED constant of the enum type has a counterpart in the hand model
			var id *ast.Ident
			switch v := x.(type) {
			case *ast.Ident:
				id = v
			case *ast.SelectorExpr:
				id = v.Sel
			}
			if id != nil {
				if c, ok := s.pi.info.Uses[id].(*types.Const); ok {
					for _, cc := range sp.consts {
						if cc[0] == c.Name() {
							return cc[2]
						}
					}
				}
			}
			return e.fail(x.Pos(), "constant `%s` of enum type %v is not one of its named constants", oneLine(x), tv.Type)
		}
		if l, ok := s.litOf(x.Pos(), tv.Value, k); ok {
			return l
		}
		return e.fail(x.Pos(), "constant `%s` of type %v is outside the translated subset", oneLine(x), tv.Type)
	}
	switch v := x.(type) {
	case *ast.UnaryExpr:
		k := s.kind(v.X)
		switch {
		case v.Op == token.NOT:
			return "!" + atomize(e.x(v.X))
		case v.Op == token.SUB && k == "Int":
			return "-" + atomize(e.x(v.X))
		case v.Op == token.SUB && k == "F64":
			return "F64.neg " + atomize(e.x(v.X))
		case v.Op == token.XOR && k == "UInt64":
			return "~~~" + atomize(e.x(v.X))
		case v.Op == token.ADD && k != "":
			return e.x(v.X)
		}
		return e.fail(v.Pos(), "unary %s in `%s` is outside the translated subset", v.Op, oneLine(v))
	case *ast.BinaryExpr:
		return e.binary(v)
	case *ast.CallExpr:
		return e.call(v)
	case *ast.CompositeLit:
		return e.composite(v)
	case *ast.SelectorExpr:
		if _, isField := s.pi.info.Selections[v]; isField && s.kind(v.X) == "V3" {
			switch v.Sel.Name {
			case "X", "Y", "Z":
				if s.kind(v) == "F64" {
					return atomize(e.x(v.X)) + "." + strings.ToLower(v.Sel.Name)
				}
			case "Vector":
				if s.kind(v) == "V3" {
					return e.x(v.X)
				}
			}
		}
		return e.atomOf(x)
	case *ast.IndexExpr:
		if s.kind(v.X) == "Array UInt64" && s.isInt(s.kind(v.Index)) {
			i := e.x(v.Index)
			if s.intKind == "Int" {
				i = atomize(i) + ".toNat"
			}
			return atomize(e.x(v.X)) + "[" + i + "]!"
		}
		return e.atomOf(x)
	case *ast.StarExpr:
		if s.kind(v.X) == "Array UInt64" {
			return e.x(v.X)
		}
		return e.atomOf(x)
	case *ast.Ident:
		return e.atomOf(x)
	}
	return e.fail(x.Pos(), "expression `%s` (%T) is outside the translated subset", oneLine(x), x)
}

func (e *xenv) composite(c *ast.CompositeLit) string {
	s := e.s()
	t := s.typ(c)
	switch namedKey(t) {
	case "r3.Vector":
		fields := []string{"X", "Y", "Z"}
		vals := make([]string, 3)
		if len(c.Elts) != 3 {
			return e.fail(c.Pos(), "r3.Vector literal without all three fields")
		}
		for i, el := range c.Elts {
			if kv, ok := el.(*ast.KeyValueExpr); ok {
				j := -1
				for k, f := range fields {
					if oneLine(kv.Key) == f {
						j = k
					}
				}
				if j < 0 || vals[j] != "" {
					return e.fail(c.Pos(), "r3.Vector literal field %s", oneLine(kv.Key))
				}
				vals[j] = atomize(e.x(kv.Value))
			} else {
				vals[i] = atomize(e.x(el))
			}
		}
		return "V3.mk " + strings.Join(vals, " ")
	case "s2.Point":
		if len(c.Elts) == 1 {
			el := c.Elts[0]
			if kv, ok := el.(*ast.KeyValueExpr); ok {
				el = kv.Value
			}
			if s.kind(el) == "V3" {
				return e.x(el)
			}
		}
	}
	return e.fail(c.Pos(), "composite literal `%s` is outside the translated subset", oneLine(c))
}

func (e *xenv) call(v *ast.CallExpr) string {
	s := e.s()
	if ftv, ok := s.pi.info.Types[v.Fun]; ok && ftv.IsType() {
		if len(v.Args) != 1 {
			return e.atomOf(v)
		}
		from, to := s.kind(v.Args[0]), s.kindOfType(ftv.Type)
		if from == "" || to == "" {
			return e.atomOf(v)
		}
		a := e.x(v.Args[0])
		switch {
		case from == to:
			return a // conversion inside one kind
		case from == "Int" && to == "UInt64":
			return "UInt64.ofInt " + atomize(a)
		case from == "Nat" && to == "UInt64":
			return "UInt64.ofNat " + atomize(a)
		case from == "UInt64" && to == "Int":
			if bt, ok := ftv.Type.Underlying().(*types.Basic); ok && (bt.Kind() == types.Int64 || bt.Kind() == types.Int) {
				return "CellID.int64OfWord " + atomize(a) // two's complement reinterpretation
			}
			return "(" + atomize(a) + ".toNat : Int)"
		case from == "UInt64" && to == "Nat":
			return atomize(a) + ".toNat"
		case from == "Int" && to == "F64":
			return "F64.ofInt " + atomize(a)
		case from == "Nat" && to == "F64":
			return "F64.ofNat " + atomize(a)
		case from == "F64" && to == "Int":
			return "F64.toIntTrunc " + atomize(a)
		}
		return e.fail(v.Pos(), "conversion `%s` from %s to %s", oneLine(v), from, to)
	}
	if id, ok := unparen(v.Fun).(*ast.Ident); ok && id.Name == "len" && len(v.Args) == 1 {
		if _, isBuiltin := s.pi.info.Uses[id].(*types.Builtin); isBuiltin && s.kind(v.Args[0]) == "Array UInt64" {
			t := atomize(e.x(v.Args[0])) + ".size"
			if s.intKind == "Int" {
				return "(" + t + " : Int)"
			}
			return t
		}
	}
	if fn := s.calleeOf(v); fn != nil {
		kf, ok := s.known[funcKey(fn)]
		if !ok {
			kf, ok = knownFns[funcKey(fn)]
		}
		if ok {
			var args []ast.Expr
			if sel, ok := unparen(v.Fun).(*ast.SelectorExpr); ok {
				if _, isSel := s.pi.info.Selections[sel]; isSel {
					args = append(args, sel.X)
				}
			}
			args = append(args, v.Args...)
			if len(args) != len(kf.params) || v.Ellipsis != token.NoPos {
				return e.fail(v.Pos(), "call shape of %s", kf.lean)
			}
			var ts []string
			for i, a := range args {
				ts = append(ts, atomize(e.conv(a.Pos(), e.x(a), s.kind(a), kf.params[i])))
			}
			t := kf.lean + " " + strings.Join(ts, " ")
			if kf.result == "Nat" && s.intKind == "Int" {
				return "((" + t + " : Nat) : Int)"
			}
			return t
		}
		// s1.Angle.Radians(), s1.ChordAngle conversions: identity on the float64
		switch funcKey(fn) {
		case "s1.Angle.Radians":
			if sel, ok := unparen(v.Fun).(*ast.SelectorExpr); ok && len(v.Args) == 0 {
				return e.x(sel.X)
			}
		}
	}
	return e.atomOf(v)
}

var cmpLean = map[token.Token]string{token.LSS: "<", token.LEQ: "≤", token.GTR: ">", token.GEQ: "≥"}

func (e *xenv) binary(b *ast.BinaryExpr) string {
	s := e.s()
	switch b.Op {
	case token.LAND:
		return atomize(e.x(b.X)) + " && " + atomize(e.x(b.Y))
	case token.LOR:
		return atomize(e.x(b.X)) + " || " + atomize(e.x(b.Y))
	}
	// x == nil
	if (b.Op == token.EQL || b.Op == token.NEQ) && (s.isNilExpr(b.X) || s.isNilExpr(b.Y)) {
		o := b.X
		if s.isNilExpr(b.X) {
			o = b.Y
		}
		a := e.atoms.get(e.f.atomText(o)+" == nil", "Bool")
		if b.Op == token.NEQ {
			return "!" + a
		}
		return a
	}
	kx, ky := s.kind(b.X), s.kind(b.Y)
	if b.Op == token.SHL || b.Op == token.SHR {
		if !(s.isInt(ky) || ky == "UInt64") || !(s.isInt(kx) || kx == "UInt64") {
			return e.fail(b.Pos(), "shift `%s`", oneLine(b))
		}
		X, Y := atomize(e.x(b.X)), atomize(e.x(b.Y))
		cnt := Y
		if ky == "Int" || ky == "UInt64" {
			cnt = Y + ".toNat"
		}
		if kx == "UInt64" {
			if tv, ok := s.pi.info.Types[b.Y]; ok && tv.Value != nil {
				if n, exact := constant.Uint64Val(constant.ToInt(tv.Value)); exact && n < 64 {
					op := "<<<"
					if b.Op == token.SHR {
						op = ">>>"
					}
					return fmt.Sprintf("%s %s (%d : UInt64)", X, op, n)
				}
			}
			if b.Op == token.SHL {
				return "CellIDFns.shl64 " + X + " " + atomize(cnt)
			}
			return "CellIDFns.shr64 " + X + " " + atomize(cnt)
		}
		if b.Op == token.SHL {
			return X + " * 2 ^ " + atomize(cnt)
		}
		if kx == "Nat" {
			return X + " / 2 ^ " + atomize(cnt)
		}
		return X + " >>> " + atomize(cnt)
	}
	if kx == "" || kx != ky {
		return e.fail(b.Pos(), "`%s`: operands of types %v and %v are outside the translated subset", oneLine(b), s.typ(b.X), s.typ(b.Y))
	}
	X, Y := atomize(e.x(b.X)), atomize(e.x(b.Y))
	switch kx {
	case "F64":
		switch b.Op {
		case token.ADD:
			return "F64.add " + X + " " + Y
		case token.SUB:
			return "F64.sub " + X + " " + Y
		case token.MUL:
			return "F64.mul " + X + " " + Y
		case token.QUO:
			return "F64.div " + X + " " + Y
		case token.LSS:
			return "F64.lt " + X + " " + Y
		case token.LEQ:
			return "F64.le " + X + " " + Y
		case token.GTR:
			return "F64.lt " + Y + " " + X
		case token.GEQ:
			return "F64.le " + Y + " " + X
		case token.EQL:
			return "F64.feq " + X + " " + Y
		case token.NEQ:
			return "!(F64.feq " + X + " " + Y + ")"
		}
		return e.fail(b.Pos(), "float operator %s is outside the translated subset", b.Op)
	case "α":
		switch b.Op {
		case token.EQL:
			return "decide (" + X + " = " + Y + ")"
		case token.NEQ:
			return "!decide (" + X + " = " + Y + ")"
		}
		return e.fail(b.Pos(), "operator %s on points is outside the translated subset", b.Op)
	case "V3":
		switch b.Op {
		case token.EQL:
			return "V3.feq " + X + " " + Y
		case token.NEQ:
			return "!(V3.feq " + X + " " + Y + ")"
		}
		return e.fail(b.Pos(), "vector operator %s is outside the translated subset", b.Op)
	case "Array UInt64":
		return e.fail(b.Pos(), "operator %s on slices", b.Op)
	}
	switch b.Op {
	case token.EQL:
		return X + " == " + Y
	case token.NEQ:
		return X + " != " + Y
	case token.LSS, token.LEQ, token.GTR, token.GEQ:
		if kx == "Bool" || strings.Contains(kx, ".") {
			return e.fail(b.Pos(), "ordered comparison of %s values", kx)
		}
		return "decide (" + X + " " + cmpLean[b.Op] + " " + Y + ")"
	}
	if kx == "Bool" || strings.Contains(kx, ".") {
		return e.fail(b.Pos(), "`%s`: operator %s on %s", oneLine(b), b.Op, kx)
	}
	switch b.Op {
	case token.ADD:
		return X + " + " + Y
	case token.SUB:
		if kx == "Nat" {
			return e.fail(b.Pos(), "`%s`: subtraction in a function translated over Nat (would truncate)", oneLine(b))
		}
		return X + " - " + Y
	case token.MUL:
		return X + " * " + Y
	case token.AND:
		if kx == "UInt64" || kx == "Nat" {
			return X + " &&& " + Y
		}
	case token.OR:
		if kx == "UInt64" || kx == "Nat" {
			return X + " ||| " + Y
		}
	case token.XOR:
		if kx == "UInt64" || kx == "Nat" {
			return X + " ^^^ " + Y
		}
	case token.AND_NOT:
		if kx == "UInt64" {
			return X + " &&& ~~~" + Y
		}
	case token.QUO:
		if kx == "Int" {
			return "Int.tdiv " + X + " " + Y
		}
		return X + " / " + Y
	case token.REM:
		if kx == "Int" {
			return "Int.tmod " + X + " " + Y
		}
		return X + " % " + Y
	}
	return e.fail(b.Pos(), "`%s`: operator %s on %s is outside the translated subset", oneLine(b), b.Op, kx)
}

func isNatLit(t string) bool {
	for _, r := range t {
		if r < '0' || r > '9' {
			return false
		}
	}
	return t != ""
}

func isAtomRoot(x ast.Expr) bool {
	switch unparen(x).(type) {
	case *ast.Ident, *ast.SelectorExpr, *ast.IndexExpr, *ast.StarExpr:
		return true
	}
	return false
}

// ---- per function

type fnx struct {
	s     *skel
	name  string
	key   string
	fd    *ast.FuncDecl
	nCond int
	nVal  int
	defs  bytes.Buffer
	exprs []string // Go source text of every extracted condition / value, in extraction order
}

type snapshot struct{ n, nCond, nVal, nExprs int }

func (f *fnx) snap() snapshot { return snapshot{f.defs.Len(), f.nCond, f.nVal, len(f.exprs)} }
func (f *fnx) rollback(p snapshot) {
	f.defs.Truncate(p.n)
	f.nCond, f.nVal = p.nCond, p.nVal
	f.exprs = f.exprs[:p.nExprs]
}

// atomText: the source text of an atom, its computational parts replaced by extracted values.
func (f *fnx) atomText(x ast.Expr) string {
	switch v := x.(type) {
	case *ast.Ident:
		return v.Name
	case *ast.ParenExpr:
		return "(" + f.atomText(v.X) + ")"
	case *ast.SelectorExpr:
		return f.atomText(v.X) + "." + v.Sel.Name
	case *ast.IndexExpr:
		return f.atomText(v.X) + "[" + f.hole(v.Index) + "]"
	case *ast.StarExpr:
		return "*" + f.atomText(v.X)
	case *ast.CallExpr:
		var as []string
		for _, a := range v.Args {
			as = append(as, f.hole(a))
		}
		ell := ""
		if v.Ellipsis != token.NoPos {
			ell = "..."
		}
		fun := ""
		switch g := unparen(v.Fun).(type) {
		case *ast.SelectorExpr:
			fun = f.recvText(g.X) + "." + g.Sel.Name
		default:
			fun = oneLine(v.Fun)
		}
		return fun + "(" + strings.Join(as, ", ") + ell + ")"
	}
	return f.hole(x)
}

func (f *fnx) recvText(x ast.Expr) string {
	if isAtomRoot(x) {
		return f.atomText(unparen(x))
	}
	if _, ok := unparen(x).(*ast.CallExpr); ok {
		return f.hole(x)
	}
	return "(" + f.hole(x) + ")"
}

func (f *fnx) isLenOfArray(x ast.Expr) bool {
	c, ok := x.(*ast.CallExpr)
	if !ok || len(c.Args) != 1 {
		return false
	}
	id, ok := unparen(c.Fun).(*ast.Ident)
	return ok && id.Name == "len"
}

func (f *fnx) cond(c ast.Expr, what string) string {
	if f.s.kind(c) != "Bool" {
		fatal(c.Pos(), "condition of kind %v", f.s.typ(c))
	}
	p := f.snap()
	e := &xenv{f: f, atoms: &atomSet{}, ok: true}
	t := e.x(c)
	if !e.ok {
		// not arithmetic/logic over atoms (comparison of interface values …): the text stays in the shape
		f.rollback(p)
		return "‹" + f.generic(c) + "›"
	}
	k := f.nCond
	f.nCond++
	f.exprs = append(f.exprs, fmt.Sprintf("cond%d: %s", k, oneLine(c)))
	fmt.Fprintf(&f.defs, "/-- %s: %s condition of %s: `%s` -/\ndef %s_cond%d%s : Bool :=\n  %s\n\n", relline(c.Pos()), what, f.key, oneLine(c), f.name, k, e.atoms.params(), t)
	return fmt.Sprintf("cond%d%s", k, e.atoms.texts())
}

// hole: the text of x in the shape, computational parts replaced by val<k>⟨atoms⟩.
func (f *fnx) hole(x ast.Expr) string {
	if x == nil {
		return ""
	}
	if p, ok := x.(*ast.ParenExpr); ok {
		return "(" + f.hole(p.X) + ")" // the grouping of the source is part of the shape
	}
	ux := unparen(x)
	if fl, ok := ux.(*ast.FuncLit); ok {
		return "func{" + f.block(fl.Body.List) + "}"
	}
	tv, hasTV := f.s.pi.info.Types[ux]
	if hasTV && tv.IsType() {
		return oneLine(ux)
	}
	isConst := hasTV && tv.Value != nil
	k := f.s.kind(ux)
	if isConst && f.s.geo {
		if _, isEnum := enums[namedKey(tv.Type)]; isEnum {
			// a named constant of an enum type is a value of the hand model's type: extracted (no atoms)
			e := &xenv{f: f, atoms: &atomSet{}, ok: true}
			t := e.x(ux)
			if e.ok {
				n := f.nVal
				f.nVal++
				f.exprs = append(f.exprs, fmt.Sprintf("val%d: %s", n, oneLine(ux)))
				fmt.Fprintf(&f.defs, "/-- %s: value in %s: `%s` -/\ndef %s_val%d : %s :=\n  %s\n\n", relline(ux.Pos()), f.key, oneLine(ux), f.name, n, k, t)
				return fmt.Sprintf("val%d⟨⟩", n)
			}
		}
	}
	if !isAtomRoot(ux) && !isConst && k != "" && !f.isLenOfArray(ux) {
		p := f.snap()
		e := &xenv{f: f, atoms: &atomSet{}, ok: true}
		t := e.x(ux)
		// a call of an untranslated function is an atom: look inside its arguments instead
		if e.ok && !(len(e.atoms.list) == 1 && t == e.atoms.list[0].name) {
			n := f.nVal
			f.nVal++
			f.exprs = append(f.exprs, fmt.Sprintf("val%d: %s", n, oneLine(ux)))
			fmt.Fprintf(&f.defs, "/-- %s: value in %s: `%s` -/\ndef %s_val%d%s : %s :=\n  %s\n\n", relline(ux.Pos()), f.key, oneLine(ux), f.name, n, e.atoms.params(), k, t)
			return fmt.Sprintf("val%d%s", n, e.atoms.texts())
		}
		f.rollback(p)
	}
	return f.generic(ux)
}

// generic: the text of x, sub-expressions treated as holes.
func (f *fnx) generic(ux ast.Expr) string {
	switch v := ux.(type) {
	case *ast.ParenExpr:
		return "(" + f.hole(v.X) + ")"
	case *ast.Ident, *ast.SelectorExpr, *ast.IndexExpr, *ast.StarExpr, *ast.CallExpr:
		return f.atomText(ux)
	case *ast.CompositeLit:
		var es []string
		for _, el := range v.Elts {
			if kv, ok := el.(*ast.KeyValueExpr); ok {
				es = append(es, oneLine(kv.Key)+": "+f.hole(kv.Value))
			} else {
				es = append(es, f.hole(el))
			}
		}
		t := ""
		if v.Type != nil {
			t = oneLine(v.Type)
		}
		return t + "{" + strings.Join(es, ", ") + "}"
	case *ast.UnaryExpr:
		return v.Op.String() + f.hole(v.X)
	case *ast.BinaryExpr:
		return f.hole(v.X) + " " + v.Op.String() + " " + f.hole(v.Y)
	case *ast.TypeAssertExpr:
		return f.hole(v.X) + ".(" + oneLine(v.Type) + ")"
	case *ast.SliceExpr:
		t := f.hole(v.X) + "[" + f.hole(v.Low) + ":" + f.hole(v.High)
		if v.Slice3 {
			t += ":" + f.hole(v.Max)
		}
		return t + "]"
	case *ast.KeyValueExpr:
		return oneLine(v.Key) + ": " + f.hole(v.Value)
	case *ast.BasicLit:
		return oneLine(v)
	case *ast.FuncLit:
		return "func{" + f.block(v.Body.List) + "}"
	}
	fatal(ux.Pos(), "expression `%s` (%T) is outside the translated subset", oneLine(ux), ux)
	return ""
}

func (f *fnx) lhs(x ast.Expr) string {
	// an assignment target: index expressions inside it are computational
	return f.generic(unparen(x))
}

func (f *fnx) stmt(s ast.Stmt) string {
	switch v := s.(type) {
	case nil:
		return ""
	case *ast.BlockStmt:
		return "{" + f.block(v.List) + "}"
	case *ast.IfStmt:
		init := ""
		if v.Init != nil {
			init = "[" + f.stmt(v.Init) + "]"
		}
		t := "if" + init + " " + f.cond(v.Cond, "if") + " {" + f.block(v.Body.List) + "}"
		if v.Else != nil {
			switch el := v.Else.(type) {
			case *ast.BlockStmt:
				t += " else {" + f.block(el.List) + "}"
			default:
				t += " else " + f.stmt(el)
			}
		}
		return t
	case *ast.ForStmt:
		t := "for"
		if v.Init != nil {
			t += "[" + f.stmt(v.Init) + "]"
		}
		if v.Cond != nil {
			t += " " + f.cond(v.Cond, "for")
		}
		if v.Post != nil {
			t += " [" + f.stmt(v.Post) + "]"
		}
		return t + " {" + f.block(v.Body.List) + "}"
	case *ast.RangeStmt:
		kv := ""
		if v.Key != nil {
			kv = oneLine(v.Key)
		}
		if v.Value != nil {
			kv += ", " + oneLine(v.Value)
		}
		return "range " + kv + " " + v.Tok.String() + " " + f.hole(v.X) + " {" + f.block(v.Body.List) + "}"
	case *ast.ReturnStmt:
		var rs []string
		for _, r := range v.Results {
			rs = append(rs, f.hole(r))
		}
		return strings.TrimSpace("return " + strings.Join(rs, ", "))
	case *ast.AssignStmt:
		var ls, rs []string
		for _, l := range v.Lhs {
			ls = append(ls, f.lhs(l))
		}
		for _, r := range v.Rhs {
			rs = append(rs, f.hole(r))
		}
		return strings.Join(ls, ", ") + " " + v.Tok.String() + " " + strings.Join(rs, ", ")
	case *ast.ExprStmt:
		return f.hole(v.X)
	case *ast.IncDecStmt:
		return f.lhs(v.X) + v.Tok.String()
	case *ast.BranchStmt:
		if v.Label != nil {
			return v.Tok.String() + " " + v.Label.Name
		}
		return v.Tok.String()
	case *ast.DeclStmt:
		gd, ok := v.Decl.(*ast.GenDecl)
		if !ok {
			fatal(v.Pos(), "declaration outside the translated subset")
		}
		var ds []string
		for _, sp := range gd.Specs {
			switch d := sp.(type) {
			case *ast.ValueSpec:
				var ns, vs []string
				for _, n := range d.Names {
					ns = append(ns, n.Name)
				}
				for _, x := range d.Values {
					vs = append(vs, f.hole(x))
				}
				t := gd.Tok.String() + " " + strings.Join(ns, ", ")
				if d.Type != nil {
					t += " " + oneLine(d.Type)
				}
				if len(vs) > 0 {
					t += " = " + strings.Join(vs, ", ")
				}
				ds = append(ds, t)
			case *ast.TypeSpec:
				ds = append(ds, "type "+d.Name.Name+" "+oneLine(d.Type))
			default:
				fatal(v.Pos(), "declaration outside the translated subset")
			}
		}
		return strings.Join(ds, "; ")
	case *ast.DeferStmt:
		return "defer " + f.hole(v.Call)
	case *ast.LabeledStmt:
		return v.Label.Name + ": " + f.stmt(v.Stmt)
	case *ast.SwitchStmt:
		t := "switch"
		if v.Init != nil {
			t += "[" + f.stmt(v.Init) + "]"
		}
		if v.Tag != nil {
			t += " " + f.hole(v.Tag)
		}
		var cs []string
		for _, c := range v.Body.List {
			cc := c.(*ast.CaseClause)
			var es []string
			for _, x := range cc.List {
				if v.Tag == nil {
					es = append(es, f.cond(x, "case"))
				} else {
					es = append(es, f.hole(x))
				}
			}
			h := "default"
			if cc.List != nil {
				h = "case " + strings.Join(es, ", ")
			}
			cs = append(cs, h+": "+f.block(cc.Body))
		}
		return t + " {" + strings.Join(cs, " | ") + "}"
	}
	fatal(s.Pos(), "statement `%s` (%T) is outside the translated subset", oneLine(s), s)
	return ""
}

func (f *fnx) block(list []ast.Stmt) string {
	var ts []string
	for _, s := range list {
		ts = append(ts, f.stmt(s))
	}
	return strings.Join(ts, "; ")
}

// extract emits the skeleton of pkg function `key` under the Lean name prefix `name`.
func (s *skel) extract(key, name string) {
	fd := findFunc(s.pi, key)
	f := &fnx{s: s, name: name, key: key, fd: fd}
	shape := f.block(fd.Body.List)
	sig := oneLine(&ast.FuncDecl{Recv: fd.Recv, Name: fd.Name, Type: fd.Type})
	fmt.Fprintf(s.out, "/-! ### %s: `%s` -/\n\n", relline(fd.Pos()), sig)
	s.out.Write(f.defs.Bytes())
	fmt.Fprintf(s.out, "def %s_numConds : Nat := %d\ndef %s_numVals : Nat := %d\n", name, f.nCond, name, f.nVal)
	fmt.Fprintf(s.out, "/-- the statement structure of %s; cond<k>⟨atoms⟩ / val<k>⟨atoms⟩ stand for the definitions above -/\ndef %s_shape : String :=\n  %s\n\n", key, name, leanString(shape))
	fmt.Fprintf(s.out, "/-- the Go source text of every extracted expression of %s (a text pin for the expressions that have no\n    counterpart in the hand model: libm-bound numerics the model keeps abstract) -/\ndef %s_exprs : String :=\n  %s\n\n", key, name, leanString(strings.Join(f.exprs, " | ")))
	s.facts = append(s.facts, fact{Name: s.pi.pkg.Name() + "." + key, Kind: "skeleton", Pos: relline(fd.Pos()),
		Lean: fmt.Sprintf("S2.Generated.%s.%s_{shape,cond0..%d,val0..%d}", s.ns, name, f.nCond-1, f.nVal-1), Sha256: sha(src(fd))})
}

// intConst / floatConst emit package-level constants.
func (s *skel) intConst(name, lean string) {
	o, ok := s.pi.pkg.Scope().Lookup(name).(*types.Const)
	if !ok {
		die("constant %s.%s not found", s.pi.pkg.Name(), name)
	}
	l, ok := s.litOf(o.Pos(), o.Val(), s.intKind)
	if !ok {
		fatal(o.Pos(), "constant %s is not an integer", name)
	}
	fmt.Fprintf(s.out, "/-- %s: `%s` -/\ndef %s : %s := %s\n\n", relline(o.Pos()), name, lean, s.intKind, l)
	s.facts = append(s.facts, fact{Name: s.pi.pkg.Name() + "." + name, Kind: "const", Pos: relline(o.Pos()), Lean: "S2.Generated." + s.ns + "." + lean, Sha256: sha(o.Val().ExactString())})
}

func (s *skel) floatConst(name, lean string) {
	o, ok := s.pi.pkg.Scope().Lookup(name).(*types.Const)
	if !ok {
		die("constant %s.%s not found", s.pi.pkg.Name(), name)
	}
	fmt.Fprintf(s.out, "/-- %s: `%s` = %s -/\ndef %s : UInt64 := 0x%016x\n\n", relline(o.Pos()), name, o.Val().String(), lean, f64bits(o.Pos(), o.Val()))
	s.facts = append(s.facts, fact{Name: s.pi.pkg.Name() + "." + name, Kind: "const", Pos: relline(o.Pos()), Lean: "S2.Generated." + s.ns + "." + lean, Sha256: sha(o.Val().ExactString())})
}

// structFields emits the field list of a struct as a string (`name type; …`).
func (s *skel) structFields(name, lean string) {
	o := s.pi.pkg.Scope().Lookup(name)
	if o == nil {
		die("type %s.%s not found", s.pi.pkg.Name(), name)
	}
	st, ok := o.Type().Underlying().(*types.Struct)
	if !ok {
		fatal(o.Pos(), "%s is not a struct", name)
	}
	var fs []string
	for i := 0; i < st.NumFields(); i++ {
		fs = append(fs, st.Field(i).Name()+" "+types.TypeString(st.Field(i).Type(), func(p *types.Package) string { return p.Name() }))
	}
	fmt.Fprintf(s.out, "/-- %s: the fields of `%s` -/\ndef %s : String :=\n  %s\n\n", relline(o.Pos()), name, lean, leanString(strings.Join(fs, "; ")))
	s.facts = append(s.facts, fact{Name: s.pi.pkg.Name() + "." + name, Kind: "struct", Pos: relline(o.Pos()), Lean: "S2.Generated." + s.ns + "." + lean, Sha256: sha(strings.Join(fs, ";"))})
}
