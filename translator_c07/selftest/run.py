#!/usr/bin/env python3
"""Mutation self-test of translator_c07.

For every entry of muts.json: copy the repo, apply ONE textual edit, run the translator on the copy, install the
regenerated files into a SCRATCH copy of the verification tree and build the tie modules.  Expected outcome of
every entry: the translator fails loudly, or a tie theorem no longer builds (entries marked "expect":"equivalent"
are semantics-preserving rewrites that must NOT break anything).

usage: run.py --verif <scratch copy of /verif> [--repo /repo] [--work /tmp/agents/trrelate/selftest_work] [ids...]
The scratch copy is modified (lean/S2/Generated/*) and restored at the end; never point --verif at /verif itself.
"""
import argparse, json, os, re, shutil, subprocess, sys
ap = argparse.ArgumentParser()
ap.add_argument("--verif", required=True)
ap.add_argument("--repo", default="/repo")
ap.add_argument("--work", default="/tmp/agents/trrelate/selftest_work")
ap.add_argument("ids", nargs="*")
A = ap.parse_args()
VERIF = os.path.realpath(A.verif)
assert VERIF != "/verif", "use a scratch copy"
LEAN = VERIF + "/lean"
GEN = LEAN + "/S2/Generated"
WORK = A.work
MREPO = WORK + "/mrepo"
ENV = dict(os.environ, GOFLAGS="-mod=mod", GOPROXY="off", GOSUMDB="off", GOTOOLCHAIN="local")
TIES = ["S2Proofs.Ties.C07_Relate", "S2Proofs.Ties.C07_RelatePins", "S2Proofs.Ties.C05_Regions", "S2Proofs.Ties.C05_RegionsPins", "S2Proofs.Ties.C05_Cap",
        "S2Proofs.Ties.C10_Regions", "S2Proofs.Ties.C10_RegionsPins"]
HERE = os.path.dirname(os.path.abspath(__file__))
MUTS = json.load(open(HERE + "/muts.json"))

def sh(cmd, cwd=None):
    p = subprocess.run(cmd, cwd=cwd, env=ENV, stdout=subprocess.PIPE, stderr=subprocess.STDOUT, text=True)
    return p.returncode, p.stdout

os.makedirs(WORK, exist_ok=True)
rc, o = sh(["go", "build", "-o", WORK + "/tr", "."], cwd=os.path.dirname(HERE))
assert rc == 0, o

def regen(repo):
    out = WORK + "/out"
    shutil.rmtree(out, ignore_errors=True); os.makedirs(out)
    rc, o = sh([WORK + "/tr", "-repo", repo, "-out", out, "-facts", WORK + "/facts.json"], cwd="/tmp")
    return rc, o, out

def install(out):
    for f in os.listdir(out):
        new = open(os.path.join(out, f), "rb").read()
        dst = os.path.join(GEN, f)
        if not os.path.exists(dst) or open(dst, "rb").read() != new:
            open(dst, "wb").write(new)

def build():
    ties = [t for t in TIES if os.path.exists(LEAN + "/" + t.replace(".", "/") + ".lean")]
    rc, o = sh(["lake", "build"] + ties, cwd=LEAN)
    errs = re.findall(r"error: (S2\S+\.lean):(\d+):", o)
    names = []
    for f, ln in errs:
        lines = open(os.path.join(LEAN, f)).read().split("\n")
        i = int(ln) - 1
        while i >= 0 and not re.match(r"^(private )?(theorem|example|def)\b", lines[i]):
            i -= 1
        nm = lines[i].split(":")[0].split("(")[0].strip() if i >= 0 else "?"
        names.append(f"{os.path.basename(f)}:{nm}")
    return rc, sorted(set(names)), o

bad = 0
for m in MUTS:
    if A.ids and m["id"] not in A.ids:
        continue
    shutil.rmtree(MREPO, ignore_errors=True)
    shutil.copytree(A.repo, MREPO, ignore=shutil.ignore_patterns(".git"))
    path = os.path.join(MREPO, m["file"])
    s = open(path).read()
    if s.count(m["old"]) != 1:
        print(f'{m["id"]}: pattern occurs {s.count(m["old"])} times - SKIPPED', flush=True); bad += 1; continue
    open(path, "w").write(s.replace(m["old"], m["new"]))
    rc, o = sh(["go", "build", "./" + os.path.dirname(m["file"])], cwd=MREPO)
    if rc != 0:
        print(f'{m["id"]}: mutant does not compile - SKIPPED: ' + o.strip().split("\n")[-1], flush=True); bad += 1; continue
    rc, o, out = regen(MREPO)
    if rc != 0:
        res = "TRANSLATOR FAILED LOUDLY: " + o.strip().split("\n")[-1]
        detected = True
    else:
        install(out)
        rc, names, o = build()
        detected = rc != 0
        res = ("BUILD BROKEN: " + ", ".join(names)) if rc != 0 else "not detected"
    want = m.get("expect", "detected") in ("detected", "equivalent-detected")
    verdict = "ok" if detected == want else "UNEXPECTED"
    if detected != want:
        bad += 1
    show = lambda t: " ".join(t.split())
    print(f'{m["id"]} [{verdict}] {m["file"]}: `{show(m["old"])}` -> `{show(m["new"])}`  ==> {res}', flush=True)
# restore
rc, o, out = regen(A.repo)
assert rc == 0, o
install(out)
rc, names, o = build()
print("restored unchanged tree: build", "ok" if rc == 0 else "FAILED " + o[-2000:])
print("unexpected outcomes:", bad)
shutil.rmtree(MREPO, ignore_errors=True)
shutil.rmtree(WORK + "/out", ignore_errors=True)
sys.exit(1 if bad or rc != 0 else 0)
