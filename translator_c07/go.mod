module translator_c07

go 1.21
