#!/usr/bin/env python3
"""Maintainer helper (NEVER run by ./check): writes the pins file of a generated file.

For lean/S2/Generated/<Ns>.lean it writes lean/S2Proofs/Ties/<Cxx>_<Name>Pins.lean with
  * `shape_<F>` / `exprs_<F>` / `fields_<T>` : the statement skeleton, the Go text of every extracted expression and the
    struct field lists as literals,
  * `pin_<F>_cond<k>` / `pin_<F>_val<k>` : the body of every extracted definition as a literal term (so a condition the
    hand model abstracts cannot change unnoticed either),
  * `counts_<Ns>` : the number of extracted conditions / values per function, in generation order.
After an INTENDED change of the Go source, re-run and review the diff of the pins file.

usage: mkpins.py <verif>/lean <Ns>[:<group>] <Cxx_NamePins> [extra import ...]
       (<group>: only the part of the generated file between `/-! ## group <group>` and the next group header)
"""
import re, sys
lean, ns, out = sys.argv[1], sys.argv[2], sys.argv[3]
imports = sys.argv[4:]
group = None
if ":" in ns:
    ns, group = ns.split(":")
src = open(f"{lean}/S2/Generated/{ns}.lean").read()
if group:
    parts = re.split(r'^/-! ## group (\w+)', src, flags=re.M)
    src = parts[parts.index(group) + 1]
L = []
L.append(f"""/-
  S2Proofs.Ties.{out} — literal pins of S2.Generated.{ns} (written by translator_c07/mkpins.py from the generated
  file of the UNCHANGED tree; hand-owned afterwards).  Every theorem is `rfl` against the regenerated definition: an edit
  of the Go source that changes an operator, an operand, a constant, the order of two tests, a call target or drops a
  statement changes a definition body or a shape string and the theorem no longer builds.
-/
import S2.Generated.{ns}""")
for i in imports:
    L.append(f"import {i}")
L.append(f"""namespace S2Proofs.Ties.{out}
open S2 S2.Generated
set_option linter.unusedVariables false
set_option linter.unusedSectionVars false
set_option maxRecDepth 4000

variable {{α : Type}} [DecidableEq α] (G : Relate.Geo α)
""")
for m in re.finditer(r'^def (\w+)_(shape|exprs|fields) : String :=\n  (".*")$', src, re.M):
    L.append(f'theorem {m.group(2)}_{m.group(1)} : {ns}.{m.group(1)}_{m.group(2)} =\n    {m.group(3)} := rfl')
L.append("")
for mm in re.finditer(r'^def (\w+_(?:cond|val)\d+)(.*) : (.+?) :=\n  (.+)$', src, re.M):
    name, params, rt, body = mm.groups()
    args = re.findall(r'\((\S+) : ', params)
    app = " G" if re.search(r'\bG\b', body) else ""
    L.append(f"theorem pin_{name}{params} :\n    {ns}.{name}{app}{''.join(' ' + a for a in args)} = ({body}) := rfl")
gsuf = ("_" + group) if group else ""
names = re.findall(r'^def (\w+)_numConds : Nat := (\d+)\ndef \w+_numVals : Nat := (\d+)$', src, re.M)
if names:
    lhs = ", ".join(f"({ns}.{n}_numConds, {ns}.{n}_numVals)" for n, _, _ in names)
    rhs = ", ".join(f"({c}, {v})" for _, c, v in names)
    L.append(f"\n/-- number of extracted conditions / values per function, in generation order -/\ntheorem counts_{ns}{gsuf} :\n    [{lhs}] =\n    [{rhs}] := rfl")
L.append(f"\nend S2Proofs.Ties.{out}")
open(f"{lean}/S2Proofs/Ties/{out}.lean", "w").write("\n".join(L) + "\n")
print(f"{out}: {sum(1 for l in L if l.startswith('theorem'))} theorems")
