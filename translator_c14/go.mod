module translatorc14

go 1.21.0
