// Command translator_c14 regenerates lean/S2/Generated/ProtocolIR.lean from the Go AST of
// s2/shapeindex.go: the statement order of maybeApplyUpdates, Add, Reset and IsFresh as lists of
// S2.Protocol.Instr (atomic load/store of status, Lock/Unlock, the call of applyUpdatesInternal,
// schedule points, plain writes of index fields).  Anything it does not recognise makes it fail
// (exit 1), so that an edit of the protocol can never be silently ignored.
//
// usage: translator_c14 [-repo /repo] [-out lean/S2/Generated/ProtocolIR.lean]
package main

import (
	"crypto/sha256"
	"flag"
	"fmt"
	"go/ast"
	"go/parser"
	"go/printer"
	"go/token"
	"os"
	"path/filepath"
	"strings"
)

type translator struct {
	fset *token.FileSet
	errs []string
}

func (t *translator) fail(n ast.Node, msg string) {
	t.errs = append(t.errs, fmt.Sprintf("%s: %s", t.fset.Position(n.Pos()), msg))
}

// sel returns "a.b.c" for nested selector expressions over identifiers.
func sel(e ast.Expr) string {
	switch x := e.(type) {
	case *ast.Ident:
		return x.Name
	case *ast.SelectorExpr:
		return sel(x.X) + "." + x.Sel.Name
	case *ast.UnaryExpr:
		if x.Op == token.AND {
			return "&" + sel(x.X)
		}
	case *ast.IndexExpr:
		return sel(x.X) + "[]"
	case *ast.ParenExpr:
		return sel(x.X)
	}
	return "?"
}

func statusName(e ast.Expr) (string, bool) {
	if id, ok := e.(*ast.Ident); ok {
		switch id.Name {
		case "stale", "updating", "fresh":
			return id.Name, true
		}
	}
	return "", false
}

// isStatusLoad reports whether e is atomic.LoadInt32(&<recv>.status).
func isStatusLoad(e ast.Expr, recv string) bool {
	c, ok := e.(*ast.CallExpr)
	return ok && sel(c.Fun) == "atomic.LoadInt32" && len(c.Args) == 1 && sel(c.Args[0]) == "&"+recv+".status"
}

func containsStatusLoad(e ast.Expr, recv string) bool {
	found := false
	ast.Inspect(e, func(n ast.Node) bool {
		if x, ok := n.(ast.Expr); ok && isStatusLoad(x, recv) {
			found = true
		}
		return true
	})
	return found
}

func (t *translator) call(c *ast.CallExpr, recv string) []string {
	switch f := sel(c.Fun); f {
	case "verifSchedPoint":
		if len(c.Args) == 1 {
			if lit, ok := c.Args[0].(*ast.BasicLit); ok && lit.Kind == token.INT {
				return []string{".sched " + lit.Value}
			}
		}
		t.fail(c, "verifSchedPoint with a non-literal argument")
	case recv + ".mu.Lock":
		return []string{".lock"}
	case recv + ".mu.Unlock":
		return []string{".unlock"}
	case recv + ".applyUpdatesInternal":
		return []string{".apply"}
	case "atomic.StoreInt32":
		if len(c.Args) == 2 && sel(c.Args[0]) == "&"+recv+".status" {
			if v, ok := statusName(c.Args[1]); ok {
				return []string{".storeStatus ." + v}
			}
		}
		t.fail(c, "unrecognised atomic.StoreInt32")
	default:
		t.fail(c, "unrecognised call "+f)
	}
	return nil
}

func (t *translator) write(lhs ast.Expr, recv string) []string {
	switch s := sel(lhs); s {
	case recv + ".shapes", recv + ".shapes[]", recv + ".nextID",
		recv + ".pendingAdditionsPos", recv + ".pendingRemovals":
		// mutator-side bookkeeping (Add / Reset): never touched by a query outside the mutex
		return []string{".writeShapes"}
	case recv + ".cellMap", recv + ".cells":
		return []string{".writeCells"}
	default:
		t.fail(lhs, "write to unrecognised location "+s)
	}
	return nil
}

func (t *translator) stmts(list []ast.Stmt, recv string) []string {
	var out []string
	for _, st := range list {
		switch s := st.(type) {
		case *ast.ExprStmt:
			if c, ok := s.X.(*ast.CallExpr); ok {
				out = append(out, t.call(c, recv)...)
			} else {
				t.fail(s, "unrecognised expression statement")
			}
		case *ast.AssignStmt:
			for _, l := range s.Lhs {
				out = append(out, t.write(l, recv)...)
			}
		case *ast.IncDecStmt:
			out = append(out, t.write(s.X, recv)...)
		case *ast.IfStmt:
			// only:  if atomic.LoadInt32(&s.status) != fresh { … }   (no init, no else)
			b, ok := s.Cond.(*ast.BinaryExpr)
			okCond := ok && s.Init == nil && s.Else == nil && b.Op == token.NEQ && isStatusLoad(b.X, recv)
			if okCond {
				v, isSt := statusName(b.Y)
				okCond = isSt && v == "fresh"
			}
			if !okCond {
				t.fail(s, "unrecognised if statement")
				continue
			}
			body := t.stmts(s.Body.List, recv)
			out = append(out, fmt.Sprintf(".ifFreshSkip %d", len(body)))
			out = append(out, body...)
		case *ast.ReturnStmt:
			for _, r := range s.Results {
				if containsStatusLoad(r, recv) {
					out = append(out, ".loadStatus")
				}
			}
		default:
			t.fail(st, fmt.Sprintf("unrecognised statement %T", st))
		}
	}
	return out
}

// ---- Remove (work package c13remove) -------------------------------------------------------------------------
//
// `Remove` is a mutator like Add / Reset, but not straight-line: it computes locals, returns early under two guards
// and fills a local `removedShape` in a loop.  mutator() translates such a body into
//   - the list of SHARED accesses in source order (writes of index fields, the atomic store of status), and
//   - the list of early returns: (number of shared accesses executed before the guard, text of the guard).
//
// Everything else must be provably local: a `:=` of new locals, or an assignment whose root identifier is a local,
// whose right-hand side calls only read-only helpers (`<recv>.idForShape`, methods of the Shape parameter, make /
// len / append).  Anything else makes the translator fail.
type earlyRet struct {
	n    int
	cond string
}

func rootIdent(e ast.Expr) string {
	switch x := e.(type) {
	case *ast.Ident:
		return x.Name
	case *ast.SelectorExpr:
		return rootIdent(x.X)
	case *ast.IndexExpr:
		return rootIdent(x.X)
	case *ast.ParenExpr:
		return rootIdent(x.X)
	case *ast.StarExpr:
		return rootIdent(x.X)
	}
	return "?"
}

func (t *translator) exprText(e ast.Node) string {
	var sb strings.Builder
	printer.Fprint(&sb, t.fset, e)
	return strings.Join(strings.Fields(sb.String()), " ")
}

// pureExpr: e contains no call that could touch shared state and no access of status.
func (t *translator) pureExpr(e ast.Expr, recv string, params map[string]bool) {
	ast.Inspect(e, func(n ast.Node) bool {
		switch x := n.(type) {
		case *ast.CallExpr:
			f := sel(x.Fun)
			ok := f == recv+".idForShape" || f == "make" || f == "len" || f == "append"
			if !ok {
				if se, isSel := x.Fun.(*ast.SelectorExpr); isSel && params[rootIdent(se.X)] && rootIdent(se.X) != recv {
					ok = true // a method of the Shape parameter (NumEdges, Edge, Dimension, ReferencePoint)
				}
			}
			if !ok {
				t.fail(x, "mutator: call of "+f+" in a local computation")
			}
		case *ast.SelectorExpr:
			if sel(x) == recv+".status" {
				t.fail(x, "mutator: plain access of status")
			}
		}
		return true
	})
}

func (t *translator) mutator(list []ast.Stmt, recv string, params, locals map[string]bool, out *[]string, rets *[]earlyRet) {
	for _, st := range list {
		switch s := st.(type) {
		case *ast.ExprStmt:
			c, ok := s.X.(*ast.CallExpr)
			if !ok {
				t.fail(s, "mutator: unrecognised expression statement")
				continue
			}
			if sel(c.Fun) == "delete" && len(c.Args) == 2 && sel(c.Args[0]) == recv+".shapes" {
				t.pureExpr(c.Args[1], recv, params)
				*out = append(*out, ".writeShapes")
				continue
			}
			*out = append(*out, t.call(c, recv)...)
		case *ast.AssignStmt:
			for _, r := range s.Rhs {
				t.pureExpr(r, recv, params)
			}
			for _, l := range s.Lhs {
				root := rootIdent(l)
				switch {
				case s.Tok == token.DEFINE:
					id, ok := l.(*ast.Ident)
					if !ok {
						t.fail(l, "mutator: := of a non-identifier")
						continue
					}
					locals[id.Name] = true
				case locals[root]:
					// a write into an object that this call created (removed.edges[e] = …)
				case root == recv:
					*out = append(*out, t.write(l, recv)...)
				default:
					t.fail(l, "mutator: write to "+t.exprText(l))
				}
			}
		case *ast.IncDecStmt:
			if !locals[rootIdent(s.X)] {
				*out = append(*out, t.write(s.X, recv)...)
			}
		case *ast.IfStmt:
			// only:  if <pure condition> { return }
			okIf := s.Init == nil && s.Else == nil && len(s.Body.List) == 1
			if okIf {
				r, isRet := s.Body.List[0].(*ast.ReturnStmt)
				okIf = isRet && len(r.Results) == 0
			}
			if !okIf {
				t.fail(s, "mutator: unrecognised if statement")
				continue
			}
			t.pureExpr(s.Cond, recv, params)
			*rets = append(*rets, earlyRet{len(*out), t.exprText(s.Cond)})
		case *ast.ForStmt:
			// a loop over locals only: its body may not contain a shared access
			if as, ok := s.Init.(*ast.AssignStmt); ok && as.Tok == token.DEFINE {
				for _, l := range as.Lhs {
					if id, ok := l.(*ast.Ident); ok {
						locals[id.Name] = true
					}
				}
				for _, r := range as.Rhs {
					t.pureExpr(r, recv, params)
				}
			} else if s.Init != nil {
				t.fail(s, "mutator: unrecognised loop initialiser")
			}
			if s.Cond != nil {
				t.pureExpr(s.Cond, recv, params)
			}
			var inner []string
			var innerRets []earlyRet
			if s.Post != nil {
				t.mutator([]ast.Stmt{s.Post}, recv, params, locals, &inner, &innerRets)
			}
			t.mutator(s.Body.List, recv, params, locals, &inner, &innerRets)
			if len(inner) != 0 || len(innerRets) != 0 {
				t.fail(s, "mutator: shared access or return inside a loop")
			}
		default:
			t.fail(st, fmt.Sprintf("mutator: unrecognised statement %T", st))
		}
	}
}

func main() {
	repo := flag.String("repo", "", "path of the golang/geo checkout (default $VERIF_REPO or /repo)")
	out := flag.String("out", "", "output .lean file, or a directory (then ProtocolIR.lean is written inside); default: stdout")
	facts := flag.String("facts", "", "optional: write a fingerprint of what was extracted (JSON) to this file")
	fpOut := flag.String("footprint", "", "output file of the footprint analysis (default: FootprintIR.lean next to -out when -out is a directory; \"-\" = stdout)")
	only := flag.String("only", "", "\"footprint\": skip the protocol IR (used to show what the footprint obligation alone says about a changed tree)")
	flag.Parse()
	if *only == "footprint" {
		if *fpOut == "" && *out != "" {
			*fpOut = filepath.Join(*out, "FootprintIR.lean")
		}
		if *repo == "" {
			*repo = os.Getenv("VERIF_REPO")
		}
		if *repo == "" {
			*repo = "/repo"
		}
		fpText, summary, errs := genFootprint(*repo)
		if len(errs) > 0 {
			for _, e := range errs {
				fmt.Fprintln(os.Stderr, "translator_c14:", e)
			}
			os.Exit(1)
		}
		if *fpOut == "" || *fpOut == "-" {
			fmt.Print(fpText)
		} else if err := os.WriteFile(*fpOut, []byte(fpText), 0o644); err != nil {
			fmt.Fprintln(os.Stderr, err)
			os.Exit(1)
		}
		fmt.Fprintf(os.Stderr, "translator_c14: %s\n", summary)
		return
	}
	if *out != "" {
		if st, err := os.Stat(*out); err == nil && st.IsDir() {
			if *fpOut == "" {
				*fpOut = filepath.Join(*out, "FootprintIR.lean")
			}
			*out = filepath.Join(*out, "ProtocolIR.lean")
		}
	}
	if *repo == "" {
		*repo = os.Getenv("VERIF_REPO")
	}
	if *repo == "" {
		*repo = "/repo"
	}
	src := filepath.Join(*repo, "s2", "shapeindex.go")
	t := &translator{fset: token.NewFileSet()}
	f, err := parser.ParseFile(t.fset, src, nil, 0)
	if err != nil {
		fmt.Fprintln(os.Stderr, err)
		os.Exit(1)
	}
	want := []struct{ goName, leanName string }{
		{"maybeApplyUpdates", "maybeApplyUpdates"}, {"Add", "add"}, {"Reset", "reset"}, {"IsFresh", "isFresh"},
	}
	progs := map[string][]string{}
	sigs := map[string]string{}
	var removeProg []string
	var removeRets []earlyRet
	removeFound, removeSig := false, ""
	for _, d := range f.Decls {
		fd, ok := d.(*ast.FuncDecl)
		if !ok || fd.Recv == nil || len(fd.Recv.List) != 1 || fd.Body == nil {
			continue
		}
		star, ok := fd.Recv.List[0].Type.(*ast.StarExpr)
		if !ok || sel(star.X) != "ShapeIndex" || len(fd.Recv.List[0].Names) != 1 {
			continue
		}
		for _, w := range want {
			if fd.Name.Name == w.goName {
				recv := fd.Recv.List[0].Names[0].Name
				progs[w.leanName] = t.stmts(fd.Body.List, recv)
				sigs[w.leanName] = "func (" + recv + " *ShapeIndex) " + fd.Name.Name
			}
		}
		if fd.Name.Name == "Remove" {
			recv := fd.Recv.List[0].Names[0].Name
			params := map[string]bool{}
			for _, fl := range fd.Type.Params.List {
				for _, id := range fl.Names {
					params[id.Name] = true
				}
			}
			var prog []string
			t.mutator(fd.Body.List, recv, params, map[string]bool{}, &prog, &removeRets)
			removeProg, removeFound = prog, true
			removeSig = "func (" + recv + " *ShapeIndex) Remove"
		}
	}
	if !removeFound {
		t.errs = append(t.errs, "method not found: Remove")
	}
	for _, w := range want {
		if _, ok := progs[w.leanName]; !ok {
			t.errs = append(t.errs, "method not found: "+w.goName)
		}
	}
	if len(t.errs) > 0 {
		for _, e := range t.errs {
			fmt.Fprintln(os.Stderr, "translator_c14:", e)
		}
		os.Exit(1)
	}
	var sb strings.Builder
	sb.WriteString("/- GENERATED by translator_c14 from s2/shapeindex.go — do not edit. -/\n")
	sb.WriteString("import S2.Protocol\nnamespace S2.Generated.ProtocolIR\nopen S2.Protocol\n")
	for _, w := range want {
		fmt.Fprintf(&sb, "\n/-- %s -/\ndef %s : Prog :=\n  [%s]\n", sigs[w.leanName], w.leanName, strings.Join(progs[w.leanName], ", "))
	}
	fmt.Fprintf(&sb, "\n/-- %s: the shared accesses in source order (locals, the loop that fills the local `removedShape` and the\n    early returns are not instructions) -/\ndef remove : Prog :=\n  [%s]\n", removeSig, strings.Join(removeProg, ", "))
	var rs []string
	for _, r := range removeRets {
		rs = append(rs, fmt.Sprintf("(%d, %q)", r.n, r.cond))
	}
	fmt.Fprintf(&sb, "\n/-- the early returns of Remove: (number of instructions of `remove` executed before the guard, the guard) -/\ndef removeEarlyReturns : List (Nat × String) :=\n  [%s]\n", strings.Join(rs, ", "))
	sb.WriteString("\nend S2.Generated.ProtocolIR\n")
	text := sb.String()
	if *out == "" {
		fmt.Print(text)
	} else {
		old, _ := os.ReadFile(*out)
		if string(old) != text {
			if err := os.WriteFile(*out, []byte(text), 0o644); err != nil {
				fmt.Fprintln(os.Stderr, err)
				os.Exit(1)
			}
		}
	}
	fmt.Fprintf(os.Stderr, "translator_c14: protocol-ir sha256=%x\n", sha256.Sum256([]byte(text)))
	fpSha := "none"
	if *fpOut != "" {
		fpText, summary, errs := genFootprint(*repo)
		if len(errs) > 0 {
			for _, e := range errs {
				fmt.Fprintln(os.Stderr, "translator_c14:", e)
			}
			os.Exit(1)
		}
		if *fpOut == "-" {
			fmt.Print(fpText)
		} else {
			old, _ := os.ReadFile(*fpOut)
			if string(old) != fpText {
				if err := os.WriteFile(*fpOut, []byte(fpText), 0o644); err != nil {
					fmt.Fprintln(os.Stderr, err)
					os.Exit(1)
				}
			}
		}
		fpSha = fmt.Sprintf("%x", sha256.Sum256([]byte(fpText)))
		fmt.Fprintf(os.Stderr, "translator_c14: %s sha256=%s\n", summary, fpSha)
	}
	if *facts != "" {
		js := fmt.Sprintf("{\"translator\":\"translator_c14\",\"protocol_ir_sha256\":\"%x\",\"footprint_ir_sha256\":\"%s\"}\n", sha256.Sum256([]byte(text)), fpSha)
		if err := os.WriteFile(*facts, []byte(js), 0o644); err != nil {
			fmt.Fprintln(os.Stderr, err)
			os.Exit(1)
		}
	}
}
