// footprint.go — the FOOTPRINT analysis of translator_c14 (work package c14static).
//
// Type-checks the whole packages s2 and s2/s2intersect (go/types; default build constraints, i.e. WITHOUT the
// tag `verif`: the hook files `verif_export*.go` are not part of the analysed source, `verif_sched_off.go` is
// only needed so that the package type-checks) and emits lean/S2/Generated/FootprintIR.lean:
//
//   - for every function / method / function literal (attributed to the enclosing declaration) the accesses to
//     the fields of `ShapeIndex` (ALL fields, in declaration order; so a newly added field shows up), each with
//     its kind (read, alias, write, addr, atomicLoad, atomicStore, lock, unlock, init) and the interned text of
//     the expression denoting the index, in source order;
//   - every creation site of a `ShapeIndexIterator`: `NewShapeIndexIterator(x, pos…)` with the statically known
//     position (none / IteratorBegin / IteratorEnd / unknown), `x.Iterator()`, `x.Begin()`, `x.End()` on a
//     *ShapeIndex, `it.clone()`, composite literals;
//   - the pattern `if !x.IsFresh() { x.maybeApplyUpdates() }` as one event `guarded x`;
//   - the call graph restricted to the functions that can reach the footprint: static calls and method calls
//     resolved by go/types, interface calls with the targets found by class-hierarchy analysis over the named
//     types of the two packages, functions used as values, calls of function values (`dyn`);
//   - `ret` for every return statement, `rebind x` for an assignment to (a prefix of) an interned index
//     expression, `iterIndexWrite` for a write of `ShapeIndexIterator.index` outside a composite literal;
//   - the dispatch table of `NewShapeIndexIterator` (position constant ↦ iterator method), recognised from the
//     exact shape of its body.
//
// Every event carries `cond`: false iff the event is evaluated unconditionally whenever the enclosing TOP-LEVEL
// statement of the function body is reached (not inside an if/for/switch/select body, a function literal,
// a defer/go, or the right operand of && / ||).  In structured code (no goto: checked) an unconditional event
// of a top-level statement dominates everything textually after it.
//
// Anything not understood inside a function that has footprint events makes the translator exit 1 with
// file:line (go / goto statements, positional ShapeIndex literals, import of unsafe / reflect, …).
package main

import (
	"fmt"
	"go/ast"
	"go/build"
	"go/importer"
	"go/parser"
	"go/token"
	"go/types"
	"math/big"
	"path/filepath"
	"sort"
	"strings"
)

const fpModPrefix = "github.com/golang/geo/"

type fpLoader struct {
	fset *token.FileSet
	repo string
	std  types.Importer
	pk   map[string]*fpPkg
}

type fpPkg struct {
	path  string
	pkg   *types.Package
	info  *types.Info
	files []*ast.File
	names []string
}

func (m *fpLoader) Import(path string) (*types.Package, error) {
	if strings.HasPrefix(path, fpModPrefix) {
		p, err := m.load(path)
		if err != nil {
			return nil, err
		}
		return p.pkg, nil
	}
	return m.std.Import(path)
}

func (m *fpLoader) load(path string) (*fpPkg, error) {
	if p, ok := m.pk[path]; ok {
		return p, nil
	}
	dir := filepath.Join(m.repo, strings.TrimPrefix(path, fpModPrefix))
	ctx := build.Default
	ctx.BuildTags = nil
	bp, err := ctx.ImportDir(dir, 0)
	if err != nil {
		return nil, err
	}
	pi := &fpPkg{path: path}
	names := append([]string{}, bp.GoFiles...)
	sort.Strings(names)
	for _, f := range names {
		af, err := parser.ParseFile(m.fset, filepath.Join(dir, f), nil, 0)
		if err != nil {
			return nil, err
		}
		pi.files = append(pi.files, af)
		pi.names = append(pi.names, f)
	}
	pi.info = &types.Info{
		Types:      map[ast.Expr]types.TypeAndValue{},
		Defs:       map[*ast.Ident]types.Object{},
		Uses:       map[*ast.Ident]types.Object{},
		Selections: map[*ast.SelectorExpr]*types.Selection{},
	}
	conf := types.Config{Importer: m}
	pi.pkg, err = conf.Check(path, m.fset, pi.files, pi.info)
	if err != nil {
		return nil, err
	}
	m.pk[path] = pi
	return pi, nil
}

// ------------------------------------------------------------------ raw events

type fpEv struct {
	cond   bool
	kind   string // acc call icall fval dyn create guarded assign iterIndexWrite ret
	field  int    // acc
	akind  string // acc: Kind
	expr   string // acc / call / create / guarded: text of the index expression ("" = none); assign: LHS text
	callee string // call / fval
	tgts   []string
	site   string // create: Site in Lean syntax
	pos    token.Pos
}

type fpFunc struct {
	key    string
	role   string
	selfX  string // text of the index expression the function is "about"
	evs    []fpEv
	pos    token.Pos
	direct bool // has footprint events of its own
}

type fpAnalysis struct {
	ld        *fpLoader
	repo      string
	errs      []string
	idxNamed  *types.Named // s2.ShapeIndex
	itNamed   *types.Named // s2.ShapeIndexIterator
	fieldIdx  map[*types.Var]int
	fieldName []string
	itIndexF  *types.Var
	posBegin  types.Object
	posEnd    types.Object
	named     []*types.Named // all named non-interface types of the analysed packages
	funcs     map[string]*fpFunc
	order     []string
	dispatch  [][2]string
	imports   []string
	chaCache  map[string][]string
	pkgs      []*fpPkg
	cur       *fpFunc
	curInfo   *types.Info
	curPkg    *fpPkg
}

func (a *fpAnalysis) fail(p token.Pos, format string, args ...interface{}) {
	pos := a.ld.fset.Position(p)
	if r, err := filepath.Rel(a.repo, pos.Filename); err == nil {
		pos.Filename = r
	}
	a.errs = append(a.errs, fmt.Sprintf("%s:%d: %s", pos.Filename, pos.Line, fmt.Sprintf(format, args...)))
}

func (a *fpAnalysis) rel(p token.Pos) string {
	pos := a.ld.fset.Position(p)
	if r, err := filepath.Rel(a.repo, pos.Filename); err == nil {
		pos.Filename = r
	}
	return fmt.Sprintf("%s:%d", pos.Filename, pos.Line)
}

func fpDeref(t types.Type) types.Type {
	if p, ok := t.Underlying().(*types.Pointer); ok {
		return p.Elem()
	}
	return t
}

func (a *fpAnalysis) isNamed(t types.Type, n *types.Named) bool {
	if t == nil {
		return false
	}
	t = fpDeref(t)
	if nt, ok := t.(*types.Named); ok {
		return nt.Obj() == n.Obj()
	}
	return false
}

func (a *fpAnalysis) funcKey(fn *types.Func) string {
	fn = fn.Origin()
	prefix := ""
	if fn.Pkg() != nil && strings.HasSuffix(fn.Pkg().Path(), "/s2intersect") {
		prefix = "s2intersect."
	}
	sig := fn.Type().(*types.Signature)
	if r := sig.Recv(); r != nil {
		t := fpDeref(r.Type())
		if nt, ok := t.(*types.Named); ok {
			return prefix + nt.Obj().Name() + "." + fn.Name()
		}
		return prefix + "?." + fn.Name()
	}
	return prefix + fn.Name()
}

func (a *fpAnalysis) ours(fn *types.Func) bool {
	if fn.Pkg() == nil {
		return false
	}
	p := fn.Pkg().Path()
	return p == fpModPrefix+"s2" || p == fpModPrefix+"s2/s2intersect"
}

func (a *fpAnalysis) emit(e fpEv) {
	a.cur.evs = append(a.cur.evs, e)
}

func stripParens(e ast.Expr) ast.Expr {
	for {
		p, ok := e.(*ast.ParenExpr)
		if !ok {
			return e
		}
		e = p.X
	}
}

func exprText(e ast.Expr) string { return types.ExprString(stripParens(e)) }

// trackedField returns the ShapeIndex field selected by e (after parens), or -1.
func (a *fpAnalysis) trackedField(e ast.Expr) (int, *ast.SelectorExpr) {
	s, ok := stripParens(e).(*ast.SelectorExpr)
	if !ok {
		return -1, nil
	}
	sel := a.curInfo.Selections[s]
	if sel == nil || sel.Kind() != types.FieldVal {
		return -1, nil
	}
	v, ok := sel.Obj().(*types.Var)
	if !ok {
		return -1, nil
	}
	if i, ok := a.fieldIdx[v]; ok {
		return i, s
	}
	return -1, nil
}

func (a *fpAnalysis) isIterIndexField(e ast.Expr) bool {
	s, ok := stripParens(e).(*ast.SelectorExpr)
	if !ok {
		return false
	}
	sel := a.curInfo.Selections[s]
	return sel != nil && sel.Kind() == types.FieldVal && sel.Obj() == a.itIndexF
}

func isRefType(t types.Type) bool {
	switch t.Underlying().(type) {
	case *types.Map, *types.Slice, *types.Pointer, *types.Chan, *types.Signature:
		return true
	}
	return false
}

// ------------------------------------------------------------------ expression walk

// rvalue walks e (evaluated for its value).  escapes: the value itself flows into a variable / call / return.
func (a *fpAnalysis) rvalue(e ast.Expr, cond bool, escapes bool) {
	if e == nil {
		return
	}
	e = stripParens(e)
	if f, s := a.trackedField(e); f >= 0 {
		a.rvalue(s.X, cond, false)
		k := "read"
		if escapes && isRefType(a.curInfo.TypeOf(e)) {
			k = "alias"
		}
		a.emit(fpEv{cond: cond, kind: "acc", field: f, akind: k, expr: exprText(s.X), pos: e.Pos()})
		return
	}
	switch x := e.(type) {
	case *ast.Ident:
		if fn, ok := a.curInfo.Uses[x].(*types.Func); ok && a.ours(fn) {
			a.emit(fpEv{cond: cond, kind: "fval", callee: a.funcKey(fn), pos: x.Pos()})
		}
	case *ast.BasicLit:
	case *ast.SelectorExpr:
		if sel := a.curInfo.Selections[x]; sel != nil {
			a.rvalue(x.X, cond, false)
			if sel.Kind() == types.MethodVal || sel.Kind() == types.MethodExpr {
				if fn, ok := sel.Obj().(*types.Func); ok {
					if _, isIface := sel.Recv().Underlying().(*types.Interface); isIface {
						a.emit(fpEv{cond: cond, kind: "icall", tgts: a.cha(sel.Recv(), fn.Name()), pos: x.Pos()})
					} else if a.ours(fn) {
						a.emit(fpEv{cond: cond, kind: "fval", callee: a.funcKey(fn), pos: x.Pos()})
					}
				}
			}
			return
		}
		// qualified identifier pkg.Name
		if fn, ok := a.curInfo.Uses[x.Sel].(*types.Func); ok && a.ours(fn) {
			a.emit(fpEv{cond: cond, kind: "fval", callee: a.funcKey(fn), pos: x.Pos()})
		}
	case *ast.CallExpr:
		a.call(x, cond)
	case *ast.UnaryExpr:
		if x.Op == token.AND {
			if f, s := a.trackedField(x.X); f >= 0 {
				a.rvalue(s.X, cond, false)
				a.emit(fpEv{cond: cond, kind: "acc", field: f, akind: "addr", expr: exprText(s.X), pos: x.Pos()})
				return
			}
			if a.isIterIndexField(x.X) {
				a.emit(fpEv{cond: cond, kind: "iterIndexWrite", pos: x.Pos()})
			}
			if cl, ok := stripParens(x.X).(*ast.CompositeLit); ok {
				a.complit(cl, cond)
				return
			}
			a.lvalueOperands(x.X, cond, "addr")
			return
		}
		a.rvalue(x.X, cond, false)
	case *ast.BinaryExpr:
		a.rvalue(x.X, cond, false)
		if x.Op == token.LAND || x.Op == token.LOR {
			a.rvalue(x.Y, true, false)
		} else {
			a.rvalue(x.Y, cond, false)
		}
	case *ast.IndexExpr:
		a.rvalue(x.X, cond, false)
		a.rvalue(x.Index, cond, false)
	case *ast.IndexListExpr:
		a.rvalue(x.X, cond, false)
	case *ast.SliceExpr:
		a.rvalue(x.X, cond, escapes)
		a.rvalue(x.Low, cond, false)
		a.rvalue(x.High, cond, false)
		a.rvalue(x.Max, cond, false)
	case *ast.StarExpr:
		a.rvalue(x.X, cond, false)
	case *ast.TypeAssertExpr:
		a.rvalue(x.X, cond, escapes)
	case *ast.CompositeLit:
		a.complit(x, cond)
	case *ast.KeyValueExpr:
		a.rvalue(x.Key, cond, false)
		a.rvalue(x.Value, cond, true)
	case *ast.FuncLit:
		a.block(x.Body.List, true)
	case *ast.ArrayType, *ast.MapType, *ast.StructType, *ast.FuncType, *ast.InterfaceType, *ast.ChanType, *ast.Ellipsis:
	default:
		a.fail(e.Pos(), "footprint: unhandled expression %T", e)
	}
}

// lvalueOperands: e is assigned to / incremented / its address is taken.  The innermost tracked field on the
// access path is WRITTEN (element writes of a map / slice count as writes of the field); index operands are read.
func (a *fpAnalysis) lvalueOperands(e ast.Expr, cond bool, kind string) {
	e = stripParens(e)
	if f, s := a.trackedField(e); f >= 0 {
		a.rvalue(s.X, cond, false)
		a.emit(fpEv{cond: cond, kind: "acc", field: f, akind: kind, expr: exprText(s.X), pos: e.Pos()})
		return
	}
	if a.isIterIndexField(e) {
		a.emit(fpEv{cond: cond, kind: "iterIndexWrite", pos: e.Pos()})
	}
	switch x := e.(type) {
	case *ast.Ident:
	case *ast.SelectorExpr:
		a.lvaluePath(x.X, cond, kind)
	case *ast.IndexExpr:
		a.rvalue(x.Index, cond, false)
		a.lvaluePath(x.X, cond, kind)
	case *ast.StarExpr:
		a.lvaluePath(x.X, cond, kind)
	case *ast.SliceExpr:
		a.lvaluePath(x.X, cond, kind)
	default:
		a.rvalue(e, cond, false)
	}
}

// lvaluePath: e is the container on the path to a written location.
func (a *fpAnalysis) lvaluePath(e ast.Expr, cond bool, kind string) {
	e = stripParens(e)
	if f, s := a.trackedField(e); f >= 0 {
		a.rvalue(s.X, cond, false)
		a.emit(fpEv{cond: cond, kind: "acc", field: f, akind: kind, expr: exprText(s.X), pos: e.Pos()})
		return
	}
	switch x := e.(type) {
	case *ast.SelectorExpr:
		// a field of a struct VALUE on the path stays on the path; through a pointer the written object is
		// another one, but a tracked field used as that pointer is still reported (conservative)
		a.lvaluePath(x.X, cond, kind)
	case *ast.IndexExpr:
		a.rvalue(x.Index, cond, false)
		a.lvaluePath(x.X, cond, kind)
	case *ast.StarExpr:
		a.lvaluePath(x.X, cond, kind)
	case *ast.SliceExpr:
		a.lvaluePath(x.X, cond, kind)
	default:
		a.rvalue(e, cond, false)
	}
}

func (a *fpAnalysis) complit(cl *ast.CompositeLit, cond bool) {
	t := a.curInfo.TypeOf(cl)
	switch {
	case a.isNamed(t, a.idxNamed):
		for _, el := range cl.Elts {
			kv, ok := el.(*ast.KeyValueExpr)
			if !ok {
				a.fail(el.Pos(), "footprint: positional ShapeIndex composite literal")
				continue
			}
			a.rvalue(kv.Value, cond, true)
			id := kv.Key.(*ast.Ident)
			found := false
			for i, n := range a.fieldName {
				if n == id.Name {
					a.emit(fpEv{cond: cond, kind: "acc", field: i, akind: "init", expr: "", pos: kv.Pos()})
					found = true
				}
			}
			if !found {
				a.fail(kv.Pos(), "footprint: unknown ShapeIndex field %s", id.Name)
			}
		}
		return
	case a.isNamed(t, a.itNamed):
		idx := ""
		for _, el := range cl.Elts {
			kv, ok := el.(*ast.KeyValueExpr)
			if !ok {
				a.fail(el.Pos(), "footprint: positional ShapeIndexIterator composite literal")
				continue
			}
			a.rvalue(kv.Value, cond, true)
			if id, ok := kv.Key.(*ast.Ident); ok && id.Name == "index" {
				idx = exprText(kv.Value)
			}
		}
		a.emit(fpEv{cond: cond, kind: "create", site: ".lit", expr: idx, pos: cl.Pos()})
		return
	}
	for _, el := range cl.Elts {
		if kv, ok := el.(*ast.KeyValueExpr); ok {
			// struct field names and map keys: a struct key is an identifier that is not an expression use
			if _, isStruct := fpDeref(t).Underlying().(*types.Struct); !isStruct {
				a.rvalue(kv.Key, cond, false)
			}
			a.rvalue(kv.Value, cond, true)
		} else {
			a.rvalue(el, cond, true)
		}
	}
}

// cha: the methods named `name` of every named type of the analysed packages that implements iface.
func (a *fpAnalysis) cha(recv types.Type, name string) []string {
	iface, ok := recv.Underlying().(*types.Interface)
	if !ok {
		return nil
	}
	ck := types.TypeString(recv, nil) + "#" + name
	if r, ok := a.chaCache[ck]; ok {
		return r
	}
	seen := map[string]bool{}
	var out []string
	for _, n := range a.named {
		for _, t := range []types.Type{n, types.NewPointer(n)} {
			if !types.Implements(t, iface) {
				continue
			}
			obj, _, _ := types.LookupFieldOrMethod(t, true, n.Obj().Pkg(), name)
			if fn, ok := obj.(*types.Func); ok && a.ours(fn) {
				k := a.funcKey(fn)
				if !seen[k] {
					seen[k] = true
					out = append(out, k)
				}
			}
		}
	}
	sort.Strings(out)
	a.chaCache[ck] = out
	return out
}

func (a *fpAnalysis) atomicKind(name string) string {
	switch {
	case strings.HasPrefix(name, "Load"):
		return "atomicLoad"
	case strings.HasPrefix(name, "Store"), strings.HasPrefix(name, "Add"), strings.HasPrefix(name, "Swap"),
		strings.HasPrefix(name, "CompareAndSwap"), strings.HasPrefix(name, "And"), strings.HasPrefix(name, "Or"):
		return "atomicStore"
	}
	return ""
}

func (a *fpAnalysis) call(c *ast.CallExpr, cond bool) {
	fun := stripParens(c.Fun)
	// conversion
	if tv, ok := a.curInfo.Types[fun]; ok && tv.IsType() {
		for _, x := range c.Args {
			a.rvalue(x, cond, true)
		}
		return
	}
	// builtin
	if id, ok := fun.(*ast.Ident); ok {
		if _, isB := a.curInfo.Uses[id].(*types.Builtin); isB {
			switch id.Name {
			case "delete", "clear":
				if len(c.Args) > 0 {
					a.lvaluePath(c.Args[0], cond, "write")
				}
				for _, x := range c.Args[1:] {
					a.rvalue(x, cond, false)
				}
			case "copy":
				a.lvaluePath(c.Args[0], cond, "write")
				a.rvalue(c.Args[1], cond, false)
			case "len", "cap":
				for _, x := range c.Args {
					a.rvalue(x, cond, false)
				}
			case "append":
				// the first operand may be extended in place: its value flows into the result
				for _, x := range c.Args {
					a.rvalue(x, cond, false)
				}
			default:
				for _, x := range c.Args {
					a.rvalue(x, cond, true)
				}
			}
			return
		}
	}
	// sync/atomic on a tracked field
	if se, ok := fun.(*ast.SelectorExpr); ok {
		if pid, ok := se.X.(*ast.Ident); ok {
			if pn, ok := a.curInfo.Uses[pid].(*types.PkgName); ok && pn.Imported().Path() == "sync/atomic" && len(c.Args) > 0 {
				if u, ok := stripParens(c.Args[0]).(*ast.UnaryExpr); ok && u.Op == token.AND {
					if f, s := a.trackedField(u.X); f >= 0 {
						k := a.atomicKind(se.Sel.Name)
						if k == "" {
							a.fail(c.Pos(), "footprint: unknown sync/atomic function %s", se.Sel.Name)
						}
						a.rvalue(s.X, cond, false)
						for _, x := range c.Args[1:] {
							a.rvalue(x, cond, true)
						}
						a.emit(fpEv{cond: cond, kind: "acc", field: f, akind: k, expr: exprText(s.X), pos: c.Pos()})
						return
					}
				}
			}
		}
	}
	// method call on a tracked field:  x.mu.Lock()
	if se, ok := fun.(*ast.SelectorExpr); ok {
		if sel := a.curInfo.Selections[se]; sel != nil && sel.Kind() == types.MethodVal {
			if f, s := a.trackedField(se.X); f >= 0 {
				k := "read"
				if fn, ok := sel.Obj().(*types.Func); ok {
					full := ""
					if fn.Pkg() != nil {
						full = fn.Pkg().Path() + "." + fn.Name()
					}
					_, ptrRecv := fn.Type().(*types.Signature).Recv().Type().(*types.Pointer)
					switch {
					case full == "sync.Lock":
						k = "lock"
					case full == "sync.Unlock":
						k = "unlock"
					case ptrRecv && !isRefType(a.curInfo.TypeOf(se.X)):
						k = "addr" // pointer-receiver method on the field itself: the field may be written
					}
				}
				a.rvalue(s.X, cond, false)
				for _, x := range c.Args {
					a.rvalue(x, cond, true)
				}
				a.emit(fpEv{cond: cond, kind: "acc", field: f, akind: k, expr: exprText(s.X), pos: c.Pos()})
				return
			}
		}
	}
	// arguments first (Go evaluates operands before the call)
	var recvExpr ast.Expr
	var fn *types.Func
	isIface := false
	var ifaceT types.Type
	switch f := fun.(type) {
	case *ast.Ident:
		fn, _ = a.curInfo.Uses[f].(*types.Func)
	case *ast.SelectorExpr:
		if sel := a.curInfo.Selections[f]; sel != nil {
			if sel.Kind() == types.MethodVal {
				fn, _ = sel.Obj().(*types.Func)
				recvExpr = f.X
				if _, ok := sel.Recv().Underlying().(*types.Interface); ok {
					isIface = true
					ifaceT = sel.Recv()
				}
			} else if sel.Kind() == types.MethodExpr {
				fn, _ = sel.Obj().(*types.Func)
			}
		} else {
			fn, _ = a.curInfo.Uses[f.Sel].(*types.Func)
		}
	case *ast.IndexExpr: // generic instantiation f[T](…)
		if id, ok := stripParens(f.X).(*ast.Ident); ok {
			fn, _ = a.curInfo.Uses[id].(*types.Func)
		}
	}
	if recvExpr != nil {
		a.rvalue(recvExpr, cond, true)
	} else if fn == nil {
		a.rvalue(fun, cond, false)
	}
	for _, x := range c.Args {
		a.rvalue(x, cond, true)
	}
	switch {
	case fn == nil:
		a.emit(fpEv{cond: cond, kind: "dyn", pos: c.Pos()})
	case isIface:
		a.emit(fpEv{cond: cond, kind: "icall", tgts: a.cha(ifaceT, fn.Name()), pos: c.Pos()})
	case a.ours(fn):
		key := a.funcKey(fn)
		x := ""
		if recvExpr != nil {
			rt := a.curInfo.TypeOf(recvExpr)
			if a.isNamed(rt, a.idxNamed) {
				x = exprText(recvExpr)
			} else if a.isNamed(rt, a.itNamed) {
				x = exprText(recvExpr) + ".index"
			}
		}
		a.emit(fpEv{cond: cond, kind: "call", callee: key, expr: x, pos: c.Pos()})
		switch key {
		case "NewShapeIndexIterator":
			site := ".newIter .unknown"
			if len(c.Args) == 1 {
				site = ".newIter .unpositioned"
			} else if len(c.Args) == 2 && !c.Ellipsis.IsValid() {
				if id, ok := stripParens(c.Args[1]).(*ast.Ident); ok {
					switch a.curInfo.Uses[id] {
					case a.posBegin:
						site = ".newIter .atBegin"
					case a.posEnd:
						site = ".newIter .atEnd"
					}
				}
			}
			ix := ""
			if len(c.Args) > 0 {
				ix = exprText(c.Args[0])
			}
			a.emit(fpEv{cond: cond, kind: "create", site: site, expr: ix, pos: c.Pos()})
		case "ShapeIndex.Iterator":
			a.emit(fpEv{cond: cond, kind: "create", site: ".idxIterator", expr: x, pos: c.Pos()})
		case "ShapeIndex.Begin":
			a.emit(fpEv{cond: cond, kind: "create", site: ".idxBegin", expr: x, pos: c.Pos()})
		case "ShapeIndex.End":
			a.emit(fpEv{cond: cond, kind: "create", site: ".idxEnd", expr: x, pos: c.Pos()})
		case "ShapeIndexIterator.clone":
			a.emit(fpEv{cond: cond, kind: "create", site: ".clone", expr: x, pos: c.Pos()})
		}
	}
}

// ------------------------------------------------------------------ statement walk

// guardedPattern recognises  if !X.IsFresh() { X.maybeApplyUpdates() }  (or X.Build()).
func (a *fpAnalysis) guardedPattern(s *ast.IfStmt) (string, bool) {
	if s.Init != nil || s.Else != nil || len(s.Body.List) != 1 {
		return "", false
	}
	u, ok := stripParens(s.Cond).(*ast.UnaryExpr)
	if !ok || u.Op != token.NOT {
		return "", false
	}
	x1, ok := a.idxMethodCall(u.X, "IsFresh")
	if !ok {
		return "", false
	}
	es, ok := s.Body.List[0].(*ast.ExprStmt)
	if !ok {
		return "", false
	}
	x2, ok := a.idxMethodCall(es.X, "maybeApplyUpdates")
	if !ok {
		x2, ok = a.idxMethodCall(es.X, "Build")
	}
	if !ok || x1 != x2 {
		return "", false
	}
	return x1, true
}

func (a *fpAnalysis) idxMethodCall(e ast.Expr, name string) (string, bool) {
	c, ok := stripParens(e).(*ast.CallExpr)
	if !ok || len(c.Args) != 0 {
		return "", false
	}
	se, ok := stripParens(c.Fun).(*ast.SelectorExpr)
	if !ok {
		return "", false
	}
	sel := a.curInfo.Selections[se]
	if sel == nil || sel.Kind() != types.MethodVal {
		return "", false
	}
	fn, ok := sel.Obj().(*types.Func)
	if !ok || a.funcKey(fn) != "ShapeIndex."+name {
		return "", false
	}
	return exprText(se.X), true
}

func (a *fpAnalysis) assignTargets(lhs []ast.Expr, cond bool) {
	for _, l := range lhs {
		if id, ok := l.(*ast.Ident); ok && id.Name == "_" {
			continue
		}
		a.lvalueOperands(l, cond, "write")
		a.emit(fpEv{cond: cond, kind: "assign", expr: exprText(l), pos: l.Pos()})
	}
}

func (a *fpAnalysis) block(list []ast.Stmt, cond bool) {
	for _, st := range list {
		a.stmt(st, cond)
	}
}

func (a *fpAnalysis) stmt(st ast.Stmt, cond bool) {
	switch s := st.(type) {
	case nil:
	case *ast.ExprStmt:
		a.rvalue(s.X, cond, false)
	case *ast.AssignStmt:
		for _, r := range s.Rhs {
			a.rvalue(r, cond, true)
		}
		if s.Tok != token.ASSIGN && s.Tok != token.DEFINE {
			// op-assignment reads the target too
			for _, l := range s.Lhs {
				a.rvalue(l, cond, false)
			}
		}
		a.assignTargets(s.Lhs, cond)
	case *ast.IncDecStmt:
		a.rvalue(s.X, cond, false)
		a.assignTargets([]ast.Expr{s.X}, cond)
	case *ast.DeclStmt:
		if gd, ok := s.Decl.(*ast.GenDecl); ok {
			for _, sp := range gd.Specs {
				if vs, ok := sp.(*ast.ValueSpec); ok {
					for _, v := range vs.Values {
						a.rvalue(v, cond, true)
					}
					for _, n := range vs.Names {
						a.emit(fpEv{cond: cond, kind: "assign", expr: n.Name, pos: n.Pos()})
					}
				}
			}
		}
	case *ast.ReturnStmt:
		for _, r := range s.Results {
			a.rvalue(r, cond, true)
		}
		a.emit(fpEv{cond: cond, kind: "ret", pos: s.Pos()})
	case *ast.BlockStmt:
		a.block(s.List, cond)
	case *ast.IfStmt:
		if x, ok := a.guardedPattern(s); ok {
			a.emit(fpEv{cond: cond, kind: "guarded", expr: x, pos: s.Pos()})
			return
		}
		a.stmt(s.Init, cond)
		a.rvalue(s.Cond, cond, false)
		a.block(s.Body.List, true)
		a.stmt(s.Else, true)
	case *ast.ForStmt:
		a.stmt(s.Init, cond)
		if s.Cond != nil {
			a.rvalue(s.Cond, cond, false)
		}
		a.block(s.Body.List, true)
		a.stmt(s.Post, true)
	case *ast.RangeStmt:
		a.rvalue(s.X, cond, false)
		var lhs []ast.Expr
		if s.Key != nil {
			lhs = append(lhs, s.Key)
		}
		if s.Value != nil {
			lhs = append(lhs, s.Value)
		}
		a.assignTargets(lhs, true)
		a.block(s.Body.List, true)
	case *ast.SwitchStmt:
		a.stmt(s.Init, cond)
		if s.Tag != nil {
			a.rvalue(s.Tag, cond, false)
		}
		for _, cc := range s.Body.List {
			c := cc.(*ast.CaseClause)
			for _, e := range c.List {
				a.rvalue(e, true, false)
			}
			a.block(c.Body, true)
		}
	case *ast.TypeSwitchStmt:
		a.stmt(s.Init, cond)
		a.stmt(s.Assign, cond)
		for _, cc := range s.Body.List {
			a.block(cc.(*ast.CaseClause).Body, true)
		}
	case *ast.SelectStmt:
		for _, cc := range s.Body.List {
			c := cc.(*ast.CommClause)
			a.stmt(c.Comm, true)
			a.block(c.Body, true)
		}
	case *ast.SendStmt:
		a.rvalue(s.Chan, cond, false)
		a.rvalue(s.Value, cond, true)
	case *ast.LabeledStmt:
		a.stmt(s.Stmt, cond)
	case *ast.BranchStmt:
		if s.Tok == token.GOTO {
			a.fail(s.Pos(), "footprint: goto (textual order is not domination)")
		}
	case *ast.DeferStmt:
		a.rvalue(s.Call, true, false)
	case *ast.GoStmt:
		n := len(a.cur.evs)
		a.rvalue(s.Call, true, false)
		for _, e := range a.cur.evs[n:] {
			if e.kind != "assign" && e.kind != "ret" {
				a.fail(s.Pos(), "footprint: go statement whose operand touches the footprint (iterators / index accesses are assumed goroutine-local)")
				break
			}
		}
	case *ast.EmptyStmt:
	default:
		a.fail(st.Pos(), "footprint: unhandled statement %T", st)
	}
}

// ------------------------------------------------------------------ driver

func fpRole(key string) string {
	switch key {
	case "ShapeIndex.maybeApplyUpdates":
		return ".protocol"
	case "ShapeIndex.applyUpdatesInternal":
		return ".builderRoot"
	case "ShapeIndex.Add", "ShapeIndex.Remove", "ShapeIndex.Reset":
		return ".mutator"
	case "NewShapeIndexIterator":
		return ".iterCtor"
	case "ShapeIndexIterator.clone":
		return ".iterClone"
	}
	if strings.HasPrefix(key, "ShapeIndexIterator.") {
		return ".iterMethod"
	}
	return ".other"
}

// recogniseDispatch reads the body of NewShapeIndexIterator:
//
//	s := &ShapeIndexIterator{index: index}
//	if len(pos) > 0 { if len(pos) > 1 { panic }; switch pos[0] { case C: s.M() … default: panic } }
//	return s
func (a *fpAnalysis) recogniseDispatch(fd *ast.FuncDecl, info *types.Info) {
	bad := func(n ast.Node, why string) {
		a.fail(n.Pos(), "footprint: NewShapeIndexIterator has an unexpected shape (%s)", why)
	}
	if len(fd.Body.List) != 3 {
		bad(fd, "expected 3 statements")
		return
	}
	ifs, ok := fd.Body.List[1].(*ast.IfStmt)
	if !ok || ifs.Else != nil || len(ifs.Body.List) != 2 {
		bad(fd.Body.List[1], "second statement is not the `if len(pos) > 0` block")
		return
	}
	if types.ExprString(ifs.Cond) != "len(pos) > 0" {
		bad(ifs, "condition "+types.ExprString(ifs.Cond))
		return
	}
	sw, ok := ifs.Body.List[1].(*ast.SwitchStmt)
	if !ok || sw.Init != nil || sw.Tag == nil || types.ExprString(sw.Tag) != "pos[0]" {
		bad(ifs.Body.List[1], "expected switch pos[0]")
		return
	}
	if _, ok := fd.Body.List[2].(*ast.ReturnStmt); !ok {
		bad(fd.Body.List[2], "expected return")
		return
	}
	for _, cc := range sw.Body.List {
		c := cc.(*ast.CaseClause)
		if c.List == nil {
			// default: must not touch the iterator
			for _, st := range c.Body {
				es, ok := st.(*ast.ExprStmt)
				if !ok {
					bad(st, "default clause")
					continue
				}
				if ce, ok := es.X.(*ast.CallExpr); !ok || types.ExprString(ce.Fun) != "panic" {
					bad(st, "default clause")
				}
			}
			continue
		}
		if len(c.List) != 1 || len(c.Body) != 1 {
			bad(c, "case clause")
			continue
		}
		id, ok := c.List[0].(*ast.Ident)
		if !ok {
			bad(c, "case label")
			continue
		}
		var p string
		switch info.Uses[id] {
		case a.posBegin:
			p = ".atBegin"
		case a.posEnd:
			p = ".atEnd"
		default:
			bad(c, "case label "+id.Name)
			continue
		}
		es, ok := c.Body[0].(*ast.ExprStmt)
		if !ok {
			bad(c, "case body")
			continue
		}
		ce, ok := es.X.(*ast.CallExpr)
		if !ok || len(ce.Args) != 0 {
			bad(c, "case body")
			continue
		}
		se, ok := ce.Fun.(*ast.SelectorExpr)
		if !ok || types.ExprString(se.X) != "s" {
			bad(c, "case body")
			continue
		}
		sel := info.Selections[se]
		if sel == nil {
			bad(c, "case body")
			continue
		}
		a.dispatch = append(a.dispatch, [2]string{p, a.funcKey(sel.Obj().(*types.Func))})
	}
}

// fpPack: the bytes of the (ASCII) name as one big-endian numeral, cf. S2.Footprint.pack
func fpPack(s string) string {
	n := new(big.Int)
	for i := 0; i < len(s); i++ {
		if s[i] >= 128 {
			panic("footprint: non-ASCII function name " + s)
		}
		n.Lsh(n, 8)
		n.Or(n, big.NewInt(int64(s[i])))
	}
	return "0x" + n.Text(16)
}

func fpLeanStr(s string) string {
	return "\"" + strings.ReplaceAll(strings.ReplaceAll(s, "\\", "\\\\"), "\"", "\\\"") + "\""
}

// genFootprint returns the text of FootprintIR.lean and a one-line summary.
func genFootprint(repo string) (string, string, []string) {
	abs, err := filepath.Abs(repo)
	if err != nil {
		return "", "", []string{err.Error()}
	}
	fset := token.NewFileSet()
	ld := &fpLoader{fset: fset, repo: abs, std: importer.ForCompiler(fset, "source", nil), pk: map[string]*fpPkg{}}
	a := &fpAnalysis{ld: ld, repo: abs, fieldIdx: map[*types.Var]int{}, funcs: map[string]*fpFunc{}, chaCache: map[string][]string{}}
	for _, p := range []string{"s2", "s2/s2intersect"} {
		pi, err := ld.load(fpModPrefix + p)
		if err != nil {
			return "", "", []string{err.Error()}
		}
		a.pkgs = append(a.pkgs, pi)
	}
	s2 := a.pkgs[0].pkg
	lookupNamed := func(n string) *types.Named {
		o := s2.Scope().Lookup(n)
		if o == nil {
			a.errs = append(a.errs, "type not found: "+n)
			return nil
		}
		nt, _ := o.Type().(*types.Named)
		return nt
	}
	a.idxNamed = lookupNamed("ShapeIndex")
	a.itNamed = lookupNamed("ShapeIndexIterator")
	a.posBegin = s2.Scope().Lookup("IteratorBegin")
	a.posEnd = s2.Scope().Lookup("IteratorEnd")
	if a.idxNamed == nil || a.itNamed == nil || a.posBegin == nil || a.posEnd == nil {
		return "", "", append(a.errs, "ShapeIndex / ShapeIndexIterator / IteratorBegin / IteratorEnd not found")
	}
	st, ok := a.idxNamed.Underlying().(*types.Struct)
	if !ok {
		return "", "", []string{"ShapeIndex is not a struct"}
	}
	for i := 0; i < st.NumFields(); i++ {
		a.fieldIdx[st.Field(i)] = i
		a.fieldName = append(a.fieldName, st.Field(i).Name())
	}
	if ist, ok := a.itNamed.Underlying().(*types.Struct); ok {
		for i := 0; i < ist.NumFields(); i++ {
			if ist.Field(i).Name() == "index" {
				a.itIndexF = ist.Field(i)
			}
		}
	}
	if a.itIndexF == nil {
		return "", "", []string{"ShapeIndexIterator.index not found"}
	}
	for _, pi := range a.pkgs {
		sc := pi.pkg.Scope()
		for _, n := range sc.Names() {
			if tn, ok := sc.Lookup(n).(*types.TypeName); ok && !tn.IsAlias() {
				if nt, ok := tn.Type().(*types.Named); ok {
					if _, isI := nt.Underlying().(*types.Interface); !isI && nt.TypeParams().Len() == 0 {
						a.named = append(a.named, nt)
					}
				}
			}
		}
	}
	impSeen := map[string]bool{}
	// ---- pass 1: raw events of every declaration of the analysed files
	for _, pi := range a.pkgs {
		a.curInfo = pi.info
		a.curPkg = pi
		for fi, f := range pi.files {
			if strings.HasPrefix(pi.names[fi], "verif_") {
				continue
			}
			for _, im := range f.Imports {
				p := strings.Trim(im.Path.Value, "\"")
				if (p == "unsafe" || p == "reflect") && !impSeen[p] {
					impSeen[p] = true
					a.imports = append(a.imports, p)
				}
			}
			pseudo := &fpFunc{key: "<vars " + strings.TrimPrefix(pi.path, fpModPrefix) + "/" + pi.names[fi] + ">", role: ".other", pos: f.Pos()}
			for _, d := range f.Decls {
				switch fd := d.(type) {
				case *ast.FuncDecl:
					if fd.Body == nil {
						continue
					}
					fn, _ := pi.info.Defs[fd.Name].(*types.Func)
					if fn == nil {
						continue
					}
					key := a.funcKey(fn)
					if fd.Name.Name == "init" && fd.Recv == nil {
						key = fmt.Sprintf("init@%s", pi.names[fi])
					}
					if _, dup := a.funcs[key]; dup {
						a.fail(fd.Pos(), "footprint: duplicate function key %s", key)
						continue
					}
					ff := &fpFunc{key: key, role: fpRole(key), pos: fd.Pos()}
					if fd.Recv != nil && len(fd.Recv.List) == 1 && len(fd.Recv.List[0].Names) == 1 {
						rn := fd.Recv.List[0].Names[0].Name
						rt := pi.info.TypeOf(fd.Recv.List[0].Type)
						if a.isNamed(rt, a.idxNamed) {
							ff.selfX = rn
						} else if a.isNamed(rt, a.itNamed) {
							ff.selfX = rn + ".index"
						}
					}
					a.cur = ff
					a.block(fd.Body.List, false)
					a.funcs[key] = ff
					if key == "NewShapeIndexIterator" {
						a.recogniseDispatch(fd, pi.info)
					}
				case *ast.GenDecl:
					if fd.Tok == token.VAR {
						a.cur = pseudo
						for _, sp := range fd.Specs {
							for _, v := range sp.(*ast.ValueSpec).Values {
								a.rvalue(v, true, true)
							}
						}
					}
				}
			}
			if len(pseudo.evs) > 0 {
				a.funcs[pseudo.key] = pseudo
			}
		}
	}
	sort.Strings(a.imports)
	for _, need := range []string{"ShapeIndex.maybeApplyUpdates", "ShapeIndex.applyUpdatesInternal", "ShapeIndex.Add", "ShapeIndex.Remove",
		"ShapeIndex.Reset", "NewShapeIndexIterator", "ShapeIndexIterator.clone", "ShapeIndex.Iterator", "ShapeIndex.Begin", "ShapeIndex.End"} {
		if _, ok := a.funcs[need]; !ok {
			a.errs = append(a.errs, "footprint: function not found: "+need)
		}
	}
	if len(a.errs) > 0 {
		return "", "", a.errs
	}
	// ---- pass 2: the functions that can reach the footprint
	keys := make([]string, 0, len(a.funcs))
	for k := range a.funcs {
		keys = append(keys, k)
	}
	sort.Strings(keys)
	tracked := map[string]bool{}
	for _, k := range keys {
		f := a.funcs[k]
		for _, e := range f.evs {
			switch e.kind {
			case "acc", "create", "guarded", "iterIndexWrite":
				f.direct = true
			}
		}
		if f.direct || f.role != ".other" {
			tracked[k] = true
		}
	}
	for changed := true; changed; {
		changed = false
		for _, k := range keys {
			if tracked[k] {
				continue
			}
			for _, e := range a.funcs[k].evs {
				hit := false
				switch e.kind {
				case "call", "fval":
					hit = tracked[e.callee]
				case "icall":
					for _, t := range e.tgts {
						hit = hit || tracked[t]
					}
				}
				if hit {
					tracked[k] = true
					changed = true
					break
				}
			}
		}
	}
	var list []string
	for _, k := range keys {
		if tracked[k] {
			list = append(list, k)
		}
	}
	id := map[string]int{}
	for i, k := range list {
		id[k] = i
	}
	// ---- emit
	var sb strings.Builder
	sb.WriteString("/- GENERATED by translator_c14 (footprint analysis) from the packages s2 and s2/s2intersect — do not edit.\n")
	sb.WriteString("   Function ids are positions in `program.funcs`; index expressions are interned per function (0 = none). -/\n")
	sb.WriteString("import S2.Footprint\nnamespace S2.Generated.FootprintIR\nopen S2.Footprint\n")
	nAcc, nSite, nCall := 0, 0, 0
	for i, k := range list {
		f := a.funcs[k]
		intern := map[string]int{}
		var names []string
		in := func(s string) int {
			if s == "" {
				return 0
			}
			if v, ok := intern[s]; ok {
				return v
			}
			names = append(names, s)
			intern[s] = len(names)
			return len(names)
		}
		self := in(f.selfX)
		// first intern every index expression in order of occurrence
		for _, e := range f.evs {
			switch e.kind {
			case "acc", "call", "create", "guarded":
				in(e.expr)
			}
		}
		var items []string
		var notes []string
		lastKey := ""
		for _, e := range f.evs {
			c := "false"
			if e.cond {
				c = "true"
			}
			var ev string
			switch e.kind {
			case "acc":
				ev = fmt.Sprintf(".acc %d .%s %d", e.field, e.akind, in(e.expr))
				notes = append(notes, fmt.Sprintf("%s %s %s.%s", a.rel(e.pos), e.akind, e.expr, a.fieldName[e.field]))
				nAcc++
			case "call":
				j, ok := id[e.callee]
				if !ok {
					continue
				}
				ev = fmt.Sprintf(".call %d %d", j, in(e.expr))
				nCall++
			case "fval":
				j, ok := id[e.callee]
				if !ok {
					continue
				}
				ev = fmt.Sprintf(".fval %d", j)
			case "icall":
				var ts []string
				for _, t := range e.tgts {
					if j, ok := id[t]; ok {
						ts = append(ts, fmt.Sprint(j))
					}
				}
				if len(ts) == 0 {
					continue
				}
				ev = ".icall [" + strings.Join(ts, ", ") + "]"
				nCall++
			case "dyn":
				ev = ".dyn"
			case "create":
				ev = fmt.Sprintf(".create (%s) %d", e.site, in(e.expr))
				notes = append(notes, fmt.Sprintf("%s create %s %s", a.rel(e.pos), e.site, e.expr))
				nSite++
			case "guarded":
				ev = fmt.Sprintf(".guarded %d", in(e.expr))
				notes = append(notes, fmt.Sprintf("%s guarded %s", a.rel(e.pos), e.expr))
			case "iterIndexWrite":
				ev = ".iterIndexWrite"
				notes = append(notes, fmt.Sprintf("%s write of ShapeIndexIterator.index", a.rel(e.pos)))
			case "ret":
				ev = ".ret"
			case "assign":
				// rebind of every interned expression that is, or starts with, the assigned one
				for ni, n := range names {
					if n == e.expr || strings.HasPrefix(n, e.expr+".") || strings.HasPrefix(n, e.expr+"[") {
						it := fmt.Sprintf("⟨%s, .rebind %d⟩", c, ni+1)
						if it != lastKey {
							items = append(items, it)
							lastKey = it
						}
					}
				}
				continue
			}
			it := fmt.Sprintf("⟨%s, %s⟩", c, ev)
			// consecutive identical pure call-graph events carry no information
			if it == lastKey && (e.kind == "call" || e.kind == "icall" || e.kind == "fval" || e.kind == "dyn" || e.kind == "ret") {
				continue
			}
			lastKey = it
			items = append(items, it)
		}
		fmt.Fprintf(&sb, "\n/-- %s (%s)", k, a.rel(f.pos))
		if len(names) > 0 {
			sb.WriteString("; index expressions:")
			for ni, n := range names {
				fmt.Fprintf(&sb, " %d=`%s`", ni+1, n)
			}
		}
		for _, n := range notes {
			sb.WriteString("\n    " + n)
		}
		sb.WriteString(" -/\n")
		fmt.Fprintf(&sb, "def f%d : Func := ⟨%s, %s, %d, [", i, fpPack(k), f.role, self)
		for j, it := range items {
			if j > 0 {
				sb.WriteString(", ")
			}
			if j%6 == 0 {
				sb.WriteString("\n  ")
			}
			sb.WriteString(it)
		}
		sb.WriteString("]⟩\n")
	}
	sb.WriteString("\n/-- the fields of `ShapeIndex` in declaration order (field id = position) -/\ndef fields : List String := [")
	for i, n := range a.fieldName {
		if i > 0 {
			sb.WriteString(", ")
		}
		sb.WriteString(fpLeanStr(n))
	}
	sb.WriteString("]\n\n/-- `NewShapeIndexIterator`: position constant ↦ iterator method it calls -/\ndef dispatch : List (Pos × Nat) := [")
	for i, d := range a.dispatch {
		if i > 0 {
			sb.WriteString(", ")
		}
		j, ok := id[d[1]]
		if !ok {
			return "", "", []string{"footprint: dispatch target not listed: " + d[1]}
		}
		fmt.Fprintf(&sb, "(%s, %d)", d[0], j)
	}
	sb.WriteString("]\n\n/-- imports of `unsafe` / `reflect` found in the analysed files -/\ndef forbiddenImports : List String := [")
	for i, n := range a.imports {
		if i > 0 {
			sb.WriteString(", ")
		}
		sb.WriteString(fpLeanStr(n))
	}
	sb.WriteString("]\n\ndef program : Program := ⟨fields, [")
	for i := range list {
		if i > 0 {
			sb.WriteString(", ")
		}
		if i%16 == 0 {
			sb.WriteString("\n  ")
		}
		fmt.Fprintf(&sb, "f%d", i)
	}
	sb.WriteString("], dispatch, forbiddenImports⟩\n\nend S2.Generated.FootprintIR\n")
	summary := fmt.Sprintf("footprint: %d functions listed (of %d), %d accesses, %d iterator creation sites, %d call events", len(list), len(keys), nAcc, nSite, nCall)
	return sb.String(), summary, nil
}
