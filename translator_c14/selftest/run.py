#!/usr/bin/env python3
"""Mutation self-test of the FOOTPRINT analysis of translator_c14 (work package c14static).

Each mutation is a small edit of the Go source applied to a scratch copy of the repo (outside /repo and /verif);
the footprint is regenerated (`translator_c14 -only footprint`) and `footprintOK` / `sitesOK` are evaluated by Lean
(`lake env lean`, nothing is written into the lake build directory).  Expected outcome per mutation:
  REJECT   the obligation must become false (or the translator must refuse the source)
  ACCEPT   the edit is harmless and must still be accepted (precision)
Result lines go to selftest/results.txt.  Usage: run.py [repo=/repo]   (needs lean/.lake built: ./check setup)"""
import os, shutil, subprocess, sys, tempfile

HERE = os.path.dirname(os.path.abspath(__file__))
ROOT = os.path.dirname(os.path.dirname(HERE))
REPO = sys.argv[1] if len(sys.argv) > 1 else os.environ.get("VERIF_REPO", "/repo")
ENV = dict(os.environ, GOFLAGS="-mod=mod", GOPROXY="off", GOSUMDB="off", GOTOOLCHAIN="local")

SI = "s2/shapeindex.go"
LEN = "func (s *ShapeIndex) Len() int {\n"
M = [
  # (name, file, old, new, expectation)
  ("D47 pre-repair: unpositioned iterator in EdgeQuery.initQueue", "s2/edge_query.go",
   "e.iter = e.index.Iterator()", "e.iter = NewShapeIndexIterator(e.index)", "REJECT"),
  ("seeded C13_3: ShapeIndexIterator.Begin no longer applies updates", SI,
   "\tif !s.index.IsFresh() {\n\t\ts.index.maybeApplyUpdates()\n\t}\n\ts.position = 0", "\ts.position = 0", "REJECT"),
  ("ShapeIndex.Iterator without maybeApplyUpdates", SI,
   "func (s *ShapeIndex) Iterator() *ShapeIndexIterator {\n\ts.maybeApplyUpdates()\n", "func (s *ShapeIndex) Iterator() *ShapeIndexIterator {\n", "REJECT"),
  ("ShapeIndex.End without maybeApplyUpdates (IteratorEnd does not apply updates)", SI,
   "\ts.maybeApplyUpdates()\n\treturn NewShapeIndexIterator(s, IteratorEnd)", "\treturn NewShapeIndexIterator(s, IteratorEnd)", "REJECT"),
  ("ShapeIndex.Begin without maybeApplyUpdates (harmless: IteratorBegin applies them; no in-tree caller)", SI,
   "func (s *ShapeIndex) Begin() *ShapeIndexIterator {\n\ts.maybeApplyUpdates()\n", "func (s *ShapeIndex) Begin() *ShapeIndexIterator {\n", "ACCEPT"),
  ("ContainsPointQuery built on an unpositioned iterator", "s2/contains_point_query.go",
   "iter:  index.Iterator(),", "iter:  NewShapeIndexIterator(index),", "REJECT"),
  ("CrossingEdgeQuery built on a raw iterator literal", "s2/crossing_edge_query.go",
   "iter:  index.Iterator(),", "iter:  &ShapeIndexIterator{index: index},", "REJECT"),
  ("initCovering: IteratorEnd site before the IteratorBegin site", "s2/edge_query.go",
   "\tnext := NewShapeIndexIterator(e.index, IteratorBegin)\n\tlast := NewShapeIndexIterator(e.index, IteratorEnd)\n",
   "\tlast := NewShapeIndexIterator(e.index, IteratorEnd)\n\tnext := NewShapeIndexIterator(e.index, IteratorBegin)\n", "REJECT"),
  ("initCovering: explicit Build first, then unpositioned + End (harmless)", "s2/edge_query.go",
   "\tnext := NewShapeIndexIterator(e.index, IteratorBegin)\n", "\te.index.Build()\n\tnext := NewShapeIndexIterator(e.index)\n\tnext.Begin()\n", "ACCEPT"),
  ("NewShapeIndexIterator dispatches IteratorBegin to End()", SI,
   "\t\tcase IteratorBegin:\n\t\t\ts.Begin()\n\t\tcase IteratorEnd:\n\t\t\ts.End()\n", "\t\tcase IteratorBegin:\n\t\t\ts.End()\n\t\tcase IteratorEnd:\n\t\t\ts.Begin()\n", "REJECT"),
  ("reader writes cells", SI, LEN, LEN + "\ts.cells = nil\n", "REJECT"),
  ("reader reads cells without freshness", SI, LEN, LEN + "\t_ = len(s.cells)\n", "REJECT"),
  ("reader reads cells after maybeApplyUpdates (harmless)", SI, LEN, LEN + "\ts.maybeApplyUpdates()\n\t_ = len(s.cells)\n", "ACCEPT"),
  ("reader reads cells after a CONDITIONAL maybeApplyUpdates", SI, LEN, LEN + "\tif len(s.shapes) > 3 {\n\t\ts.maybeApplyUpdates()\n\t}\n\t_ = len(s.cells)\n", "REJECT"),
  ("reader reads cellMap after the IsFresh-guarded pattern (harmless)", SI, LEN, LEN + "\tif !s.IsFresh() {\n\t\ts.maybeApplyUpdates()\n\t}\n\t_ = len(s.cellMap)\n", "ACCEPT"),
  ("reader reads pendingAdditionsPos", SI, LEN, LEN + "\t_ = s.pendingAdditionsPos\n", "REJECT"),
  ("reader takes an alias of cells", SI, LEN, LEN + "\tc := s.cells\n\t_ = c\n", "REJECT"),
  ("reader deletes from shapes", SI, LEN, LEN + "\tdelete(s.shapes, -1)\n", "REJECT"),
  ("reader stores status", SI, LEN, LEN + "\tatomic.StoreInt32(&s.status, fresh)\n", "REJECT"),
  ("reader locks the mutex", SI, LEN, LEN + "\ts.mu.Lock()\n\ts.mu.Unlock()\n", "REJECT"),
  ("non-atomic read of status", SI, "return atomic.LoadInt32(&s.status) == fresh", "return s.status == fresh", "REJECT"),
  ("Build calls applyUpdatesInternal directly (outside the mutex)", SI,
   "func (s *ShapeIndex) Build() {\n\ts.maybeApplyUpdates()", "func (s *ShapeIndex) Build() {\n\ts.applyUpdatesInternal()", "REJECT"),
  ("reader calls the builder-only isFirstUpdate", SI, LEN, LEN + "\tif s.isFirstUpdate() {\n\t\treturn 0\n\t}\n", "REJECT"),
  ("iterator method re-targets the iterator", SI, "func (s *ShapeIndexIterator) Next() {\n", "func (s *ShapeIndexIterator) Next() {\n\ts.index = NewShapeIndex()\n", "REJECT"),
  ("early return before maybeApplyUpdates in Iterator()", SI,
   "func (s *ShapeIndex) Iterator() *ShapeIndexIterator {\n", "func (s *ShapeIndex) Iterator() *ShapeIndexIterator {\n\tif s.nextID < 0 {\n\t\treturn nil\n\t}\n", "REJECT"),
  ("goroutine touching the footprint", SI, LEN, LEN + "\tgo s.maybeApplyUpdates()\n", "REJECT"),
  ("index re-bound between maybeApplyUpdates and the read", "s2/edge_query.go",
   "\tnext := NewShapeIndexIterator(e.index, IteratorBegin)\n", "\tnext := NewShapeIndexIterator(e.index, IteratorBegin)\n\te.index = NewShapeIndex()\n", "REJECT"),
  ("new field that nobody writes (harmless)", SI,
   "\tmaxEdgesPerCell int\n", "\tmaxEdgesPerCell int\n\tlenCache        int\n", "ACCEPT"),
  ("new field written by a reader (cf. seeded C14_4)", SI,
   "\tmaxEdgesPerCell int\n", "\tmaxEdgesPerCell int\n\tlenCache        int\n", "REJECT+" + LEN + "\ts.lenCache = len(s.shapes)\n"),
  ("comment-only edit (harmless)", SI, LEN, "// a comment\n" + LEN, "ACCEPT"),
]

EVAL = """import S2.Footprint
%s
open S2.Footprint S2.Generated.FootprintIR
#eval (footprintOK program, sitesOK program, violations program)
"""

def main():
    tmp = tempfile.mkdtemp(prefix="c14static_selftest_")
    repo = os.path.join(tmp, "repo")
    shutil.copytree(REPO, repo, ignore=shutil.ignore_patterns(".git"))
    tbin = os.path.join(tmp, "translator_c14")
    subprocess.run(["go", "build", "-o", tbin, "."], cwd=os.path.join(ROOT, "translator_c14"), env=ENV, check=True)
    out = []
    bad = 0
    for name, file, old, new, exp in [("unchanged tree", None, None, None, "ACCEPT")] + M:
        extra = None
        if exp.startswith("REJECT+"):
            extra = exp[len("REJECT+"):]
            exp = "REJECT"
        saved = None
        if file:
            path = os.path.join(repo, file)
            saved = open(path).read()
            if saved.count(old) < 1:
                out.append(f"SKIP    {name}: pattern not found"); bad += 1; continue
            txt = saved.replace(old, new, 1)
            if extra:
                txt = txt.replace(LEN, extra, 1)
            open(path, "w").write(txt)
            r = subprocess.run(["go", "build", "./s2/"], cwd=repo, env=ENV, capture_output=True, text=True)
            if r.returncode != 0:
                open(path, "w").write(saved)
                out.append(f"SKIP    {name}: mutated source does not compile: {r.stderr.strip()[:200]}"); bad += 1; continue
        gen = os.path.join(tmp, "gen"); shutil.rmtree(gen, ignore_errors=True); os.makedirs(gen)
        r = subprocess.run([tbin, "-only", "footprint", "-repo", repo, "-out", gen], capture_output=True, text=True)
        if r.returncode != 0:
            got, detail = "REJECT", "translator: " + r.stderr.strip().splitlines()[0][:160]
        else:
            ir = open(os.path.join(gen, "FootprintIR.lean")).read().replace("import S2.Footprint\n", "")
            ev = os.path.join(tmp, "Eval.lean")
            open(ev, "w").write(EVAL % ir)
            r = subprocess.run(["lake", "env", "lean", ev], cwd=os.path.join(ROOT, "lean"), capture_output=True, text=True)
            res = r.stdout.strip().replace("\n", " ")
            got = "ACCEPT" if res.startswith("(true, true") else "REJECT"
            detail = res[:200]
        if saved is not None:
            open(os.path.join(repo, file), "w").write(saved)
        verdict = "ok  " if got == exp else "FAIL"
        if got != exp:
            bad += 1
        out.append(f"{verdict} expected {exp:6} got {got:6}  {name}  [{detail}]")
        print(out[-1], flush=True)
    shutil.rmtree(tmp, ignore_errors=True)
    out.append(f"{len(M) + 1} cases, {bad} unexpected")
    open(os.path.join(HERE, "results.txt"), "w").write("\n".join(out) + "\n")
    print(out[-1])
    sys.exit(1 if bad else 0)

if __name__ == "__main__":
    main()
