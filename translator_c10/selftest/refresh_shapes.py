#!/usr/bin/env python3
"""Authoring helper (NOT run by ./check): rewrite the string literals of the `tie_*_shape` / `*_exprs` theorems of the
tie files from the current generated files.  Use only after reviewing the diff of the generated shapes."""
import re, sys, os
lean = sys.argv[1]
pairs = {"C11_Loops": "CellUnionLoops", "C11_Index": "CellUnionLoops", "C10_Bounds": "BoundsFns", "C19_Cap": "CapFns",
         "C18_Measures": "MeasureFns", "C20_Approx": "ApproxFns"}
for tie, gen in pairs.items():
    tp = f"{lean}/S2Proofs/Ties/{tie}.lean"
    if not os.path.exists(tp):
        continue
    g = open(f"{lean}/S2/Generated/{gen}.lean").read()
    lits = dict(re.findall(r'def (\w+_(?:shape|exprs)) : String :=\n  (".*")\n', g))
    t = open(tp).read()
    def rep(m):
        name = m.group(2)
        if name not in lits:
            return m.group(0)
        return m.group(1) + lits[name] + m.group(4)
    t2 = re.sub(r'((?:CellUnionLoops\.)?(\w+_(?:shape|exprs)) =\s*\n?\s*)(".*")( := rfl)', rep, t)
    if t2 != t:
        open(tp, "w").write(t2)
        print("refreshed", tie)
