// Command translator_c10 re-reads <repo> (type-checked with go/types; constants evaluated with go/constant exactly as
// the compiler does) and emits Lean definitions of the region / union / measure / approximation code of golang/geo:
//
//	s2/cellunion.go, s2/cell_index.go, s2intersect/s2intersect.go               -> CellUnionLoops.lean  (C11)
//	s2/rect_bounder.go, s2/loop.go (bounds), s2/polygon.go (bounds),
//	s2/convex_hull_query.go                                                     -> BoundsFns.lean       (C10)
//	s2/cap.go                                                                   -> CapFns.lean          (C19)
//	s2/loop.go / s2/polygon.go (area, curvature, centroid)                      -> MeasureFns.lean      (C18)
//	s2/polyline.go (subsampling), s2/edge_tessellator.go, s2/projections.go,
//	s2/builder_snapper.go                                                       -> ApproxFns.lean       (C20)
//
// Translation mode (skel.go): SKELETON EXTRACTION of every listed function F
//
//   - every `if` / `for` / tag-less `case` condition becomes            def F_cond<k> (atoms…) : Bool
//   - every other computational expression of kind int / uint64 / bool / float64 / r3.Vector / s2.Point (right-hand
//     sides, returned values, call arguments, index expressions, composite-literal fields, closure results) becomes
//     def F_val<k> (atoms…) : T
//   - what remains — the statement structure with every extracted expression replaced by `cond<k>⟨atoms⟩` /
//     `val<k>⟨atoms⟩` (the ATOM TEXTS in parameter order; parentheses of the source kept) — becomes the string F_shape
//   - F_exprs: the Go source text of every extracted expression (a text pin for expressions the hand model keeps
//     abstract).
//
// Every token of a Go body therefore lands either in the body of a Lean definition (operators, operands, constants
// as bit patterns, known functions) or in the shape string (control flow, calls of untranslated functions, atom
// texts).  Loops are not turned into Lean recursion by the translator: the tie files state, per loop, the STEP
// EQUATION of the hand model's recursion over the regenerated conditions / values (and, for the backward scan of
// Normalize, an induction that the regenerated loop equals the model's dropWhile).
//
// Expression rules (uniform): see the header of skel.go.  A statement or expression form the extractor does not know
// is a fatal error (exit 1 with file:line); a sub-expression outside the translated kinds stays verbatim in the shape.
// Output is a pure function of the source tree (fixed orders, no map iteration, no absolute paths).
//
// usage: translator_c10 -repo /repo -out lean/S2/Generated [-facts facts.json]
package main

import (
	"bytes"
	"crypto/sha256"
	"encoding/json"
	"flag"
	"fmt"
	"go/ast"
	"go/build"
	"go/constant"
	"go/importer"
	"go/parser"
	"go/printer"
	"go/token"
	"go/types"
	"math"
	"os"
	"path/filepath"
	"sort"
	"strings"
)

const tool = "translator_c10"

// ---------------------------------------------------------------- loading

const modPrefix = "github.com/golang/geo/"

type loader struct {
	fset *token.FileSet
	repo string
	std  types.Importer
	pk   map[string]*pkgInfo
}

type pkgInfo struct {
	pkg   *types.Package
	info  *types.Info
	files []*ast.File
	names []string
}

func (m *loader) Import(path string) (*types.Package, error) {
	if strings.HasPrefix(path, modPrefix) {
		p, err := m.load(path)
		if err != nil {
			return nil, err
		}
		return p.pkg, nil
	}
	return m.std.Import(path)
}

func (m *loader) load(path string) (*pkgInfo, error) {
	if p, ok := m.pk[path]; ok {
		return p, nil
	}
	dir := filepath.Join(m.repo, strings.TrimPrefix(path, modPrefix))
	ctx := build.Default
	ctx.BuildTags = nil // hooks (`//go:build verif`) are not part of the translated source
	bp, err := ctx.ImportDir(dir, 0)
	if err != nil {
		return nil, err
	}
	pi := &pkgInfo{}
	names := append([]string{}, bp.GoFiles...)
	sort.Strings(names)
	for _, f := range names {
		af, err := parser.ParseFile(m.fset, filepath.Join(dir, f), nil, parser.ParseComments)
		if err != nil {
			return nil, err
		}
		pi.files = append(pi.files, af)
		pi.names = append(pi.names, f)
	}
	pi.info = &types.Info{
		Types:      map[ast.Expr]types.TypeAndValue{},
		Defs:       map[*ast.Ident]types.Object{},
		Uses:       map[*ast.Ident]types.Object{},
		Selections: map[*ast.SelectorExpr]*types.Selection{},
		Scopes:     map[ast.Node]*types.Scope{},
	}
	conf := types.Config{Importer: m}
	pi.pkg, err = conf.Check(path, m.fset, pi.files, pi.info)
	if err != nil {
		return nil, err
	}
	m.pk[path] = pi
	return pi, nil
}

// ---------------------------------------------------------------- errors / helpers

var fset = token.NewFileSet()
var repoRoot string

func relpos(p token.Pos) string {
	pos := fset.Position(p)
	if r, err := filepath.Rel(repoRoot, pos.Filename); err == nil {
		pos.Filename = r
	}
	return fmt.Sprintf("%s:%d:%d", pos.Filename, pos.Line, pos.Column)
}

func relline(p token.Pos) string {
	pos := fset.Position(p)
	if r, err := filepath.Rel(repoRoot, pos.Filename); err == nil {
		pos.Filename = r
	}
	return fmt.Sprintf("%s:%d", pos.Filename, pos.Line)
}

func fatal(p token.Pos, format string, a ...interface{}) {
	fmt.Fprintf(os.Stderr, "%s: %s: %s\n", tool, relpos(p), fmt.Sprintf(format, a...))
	os.Exit(1)
}

func die(format string, a ...interface{}) {
	fmt.Fprintf(os.Stderr, "%s: %s\n", tool, fmt.Sprintf(format, a...))
	os.Exit(1)
}

func src(n ast.Node) string {
	var b bytes.Buffer
	printer.Fprint(&b, fset, n)
	return b.String()
}

func oneLine(n ast.Node) string {
	s := strings.Join(strings.Fields(src(n)), " ")
	s = strings.ReplaceAll(s, "-/", "- /")
	s = strings.ReplaceAll(s, "/-", "/ -")
	return s
}

func sha(s string) string {
	h := sha256.Sum256([]byte(s))
	return fmt.Sprintf("%x", h[:])
}

var reserved = map[string]bool{"at": true, "from": true, "end": true, "fun": true, "show": true, "have": true, "open": true,
	"in": true, "then": true, "else": true, "if": true, "let": true, "do": true, "match": true, "with": true, "def": true,
	"theorem": true, "where": true, "by": true, "this": true, "variable": true, "section": true, "namespace": true, "instance": true,
	"structure": true, "class": true, "deriving": true, "mutual": true, "private": true, "protected": true, "export": true,
	"import": true, "return": true, "for": true, "nomatch": true, "Type": true, "Prop": true, "Sort": true, "max": true,
	"min": true, "decide": true, "true": true, "false": true, "abbrev": true, "example": true, "using": true, "local": true,
	"prefix": true, "infix": true, "notation": true, "macro": true, "syntax": true, "universe": true, "set_option": true}

func unparen(e ast.Expr) ast.Expr {
	for {
		p, ok := e.(*ast.ParenExpr)
		if !ok {
			return e
		}
		e = p.X
	}
}

type fact struct {
	Name   string `json:"name"`
	Kind   string `json:"kind"`
	Pos    string `json:"pos"`
	Lean   string `json:"lean"`
	Sha256 string `json:"sha256"`
}

// findFunc finds `Name` or `Recv.Name` in the package.
func findFunc(pi *pkgInfo, key string) *ast.FuncDecl {
	recv, name := "", key
	if i := strings.Index(key, "."); i >= 0 {
		recv, name = key[:i], key[i+1:]
	}
	var found *ast.FuncDecl
	for _, f := range pi.files {
		for _, d := range f.Decls {
			fd, ok := d.(*ast.FuncDecl)
			if !ok || fd.Name.Name != name {
				continue
			}
			r := ""
			if fd.Recv != nil && len(fd.Recv.List) == 1 {
				t := fd.Recv.List[0].Type
				if s, ok := t.(*ast.StarExpr); ok {
					t = s.X
				}
				if id, ok := t.(*ast.Ident); ok {
					r = id.Name
				}
			}
			if r != recv {
				continue
			}
			if found != nil {
				die("%s.%s declared twice", pi.pkg.Name(), key)
			}
			found = fd
		}
	}
	if found == nil || found.Body == nil {
		die("function %s.%s not found in %s — the translated source changed shape", pi.pkg.Name(), key, pi.pkg.Path())
	}
	return found
}

func funcKey(f *types.Func) string {
	sig := f.Type().(*types.Signature)
	pk := ""
	if f.Pkg() != nil {
		pk = f.Pkg().Name() + "."
	}
	if r := sig.Recv(); r != nil {
		t := r.Type()
		if p, ok := t.(*types.Pointer); ok {
			t = p.Elem()
		}
		if n, ok := t.(*types.Named); ok {
			return pk + n.Obj().Name() + "." + f.Name()
		}
	}
	return pk + f.Name()
}

func f64bits(p token.Pos, v constant.Value) uint64 {
	f, _ := constant.Float64Val(constant.ToFloat(v))
	if math.IsInf(f, 0) || math.IsNaN(f) {
		fatal(p, "constant does not fit a float64")
	}
	return math.Float64bits(f)
}

func simpleAtom(s string) bool {
	for _, r := range s {
		if !(r == '_' || r == '.' || r == '\'' || (r >= '0' && r <= '9') || (r >= 'a' && r <= 'z') || (r >= 'A' && r <= 'Z')) {
			return false
		}
	}
	return s != ""
}

func atomize(s string) string {
	if simpleAtom(s) || (strings.HasPrefix(s, "(") && balancedWhole(s)) {
		return s
	}
	return "(" + s + ")"
}

// balancedWhole reports whether the outermost parentheses of s enclose all of s.
func balancedWhole(s string) bool {
	d := 0
	for i, r := range s {
		switch r {
		case '(':
			d++
		case ')':
			d--
			if d == 0 && i != len(s)-1 {
				return false
			}
		}
	}
	return d == 0 && strings.HasSuffix(s, ")")
}

func terminates(list []ast.Stmt) bool {
	if len(list) == 0 {
		return false
	}
	switch v := list[len(list)-1].(type) {
	case *ast.ReturnStmt:
		return true
	case *ast.BlockStmt:
		return terminates(v.List)
	case *ast.IfStmt:
		if v.Else == nil {
			return false
		}
		return terminates(v.Body.List) && terminates(elseList(v.Else))
	case *ast.ExprStmt:
		if c, ok := v.X.(*ast.CallExpr); ok {
			if id, ok := c.Fun.(*ast.Ident); ok && id.Name == "panic" {
				return true
			}
		}
	}
	return false
}

func elseList(s ast.Stmt) []ast.Stmt {
	switch v := s.(type) {
	case nil:
		return nil
	case *ast.BlockStmt:
		return v.List
	default:
		return []ast.Stmt{v}
	}
}

var assignOps = map[token.Token]token.Token{token.ADD_ASSIGN: token.ADD, token.SUB_ASSIGN: token.SUB, token.MUL_ASSIGN: token.MUL,
	token.QUO_ASSIGN: token.QUO, token.REM_ASSIGN: token.REM, token.AND_ASSIGN: token.AND, token.OR_ASSIGN: token.OR,
	token.XOR_ASSIGN: token.XOR, token.SHL_ASSIGN: token.SHL, token.SHR_ASSIGN: token.SHR}

func leanString(s string) string {
	s = strings.ReplaceAll(s, "\\", "\\\\")
	s = strings.ReplaceAll(s, "\"", "\\\"")
	return "\"" + s + "\""
}

// ---------------------------------------------------------------- main

func writeFile(dir, name, content string) {
	if err := os.WriteFile(filepath.Join(dir, name), []byte(content), 0o644); err != nil {
		die("%v", err)
	}
}

func main() {
	repo := flag.String("repo", "/repo", "golang/geo checkout")
	outDir := flag.String("out", "", "output directory (lean/S2/Generated)")
	factsPath := flag.String("facts", "", "facts.json to write")
	flag.Parse()
	if *outDir == "" {
		fmt.Fprintln(os.Stderr, "need -out")
		os.Exit(2)
	}
	abs, err := filepath.Abs(*repo)
	if err != nil {
		die("%v", err)
	}
	repoRoot = abs
	ld := &loader{fset: fset, repo: abs, std: importer.ForCompiler(fset, "source", nil), pk: map[string]*pkgInfo{}}
	if err := os.MkdirAll(*outDir, 0o755); err != nil {
		die("%v", err)
	}
	var facts []fact
	files := map[string]string{}
	genAll(ld, &facts, files)
	var names []string
	for n := range files {
		names = append(names, n)
	}
	sort.Strings(names)
	type fileFact struct {
		File   string `json:"file"`
		Sha256 string `json:"sha256"`
	}
	var ff []fileFact
	for _, n := range names {
		writeFile(*outDir, n, files[n])
		ff = append(ff, fileFact{n, sha(files[n])})
	}
	if *factsPath != "" {
		js, _ := json.MarshalIndent(map[string]interface{}{"translator": tool, "files": ff, "items": facts}, "", " ")
		if err := os.WriteFile(*factsPath, append(js, '\n'), 0o644); err != nil {
			die("%v", err)
		}
	}
	fmt.Printf("%s: %d items translated into %d files\n", tool, len(facts), len(names))
}
