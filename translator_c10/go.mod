module translator_c10

go 1.21
