package main

import (
	"fmt"
	"math"
	"math/big"

	"github.com/golang/geo/r3"
	"github.com/golang/geo/s1"
	"github.com/golang/geo/s2"
)

func f(b uint64) float64 { return math.Float64frombits(b) }
func pt(x, y, z uint64) s2.Point {
	return s2.Point{Vector: r3.Vector{X: f(x), Y: f(y), Z: f(z)}}
}
func capOf(x, y, z, r uint64) s2.Cap {
	return s2.CapFromCenterChordAngle(pt(x, y, z), s1.ChordAngle(f(r)))
}

// exact |v|^2 - 1 in units of 2^-52
func dev(p s2.Point) string {
	s := new(big.Rat)
	for _, c := range []float64{p.X, p.Y, p.Z} {
		r := new(big.Rat).SetFloat64(c)
		s.Add(s, new(big.Rat).Mul(r, r))
	}
	s.Sub(s, big.NewRat(1, 1))
	s.Mul(s, new(big.Rat).SetFloat64(math.Ldexp(1, 52)))
	v, _ := s.Float64()
	return fmt.Sprintf("%.4f", v)
}

func main() {
	one := uint64(0x3ff0000000000000)
	// law 1: Contains sound
	c1 := capOf(one, 0, 0, 0x400ddb3d742c2655)
	o1 := capOf(0, one, 0, one)
	p1 := pt(0xbfebb67ae8584cab, 0x3fe0000000000000, 0)
	fmt.Println("law1 contains-sound: valid", c1.IsValid(), o1.IsValid(), "dev(p)", dev(p1),
		"c.Contains(o)", c1.Contains(o1), "o.ContainsPoint(p)", o1.ContainsPoint(p1), "c.ContainsPoint(p)", c1.ContainsPoint(p1),
		fmt.Sprintf("chord(c,p)=%016x", math.Float64bits(float64(s2.ChordAngleBetweenPoints(c1.Center(), p1)))))
	// law 2: Intersects complete
	c2 := capOf(one, 0, 0, 0x3fe0000000000000)
	o2 := capOf(0, one, 0, 0x3fe5ab00ac5a0e2c)
	p2 := pt(0x3fe8000000000000, 0x3fe52a7fa9d2f8ea, 0)
	fmt.Println("law2 intersects-complete: valid", c2.IsValid(), o2.IsValid(), "dev(p)", dev(p2),
		"c.ContainsPoint(p)", c2.ContainsPoint(p2), "o.ContainsPoint(p)", o2.ContainsPoint(p2), "c.Intersects(o)", c2.Intersects(o2), "o.Intersects(c)", o2.Intersects(c2))
	// law 4: Complement covers
	c4 := capOf(one, 0, 0, 0x4000000000000000)
	p4 := pt(0, 0x3ff0000000000001, 0)
	cc := c4.Complement()
	fmt.Println("law4 complement-covers: valid", c4.IsValid(), cc.IsValid(), "dev(p)", dev(p4), "p.IsUnit", p4.IsUnit(),
		"c.ContainsPoint(p)", c4.ContainsPoint(p4), "c.Complement().ContainsPoint(p)", cc.ContainsPoint(p4),
		fmt.Sprintf("compl radius=%016x chord(-c,p)=%016x", math.Float64bits(2*cc.Height()), math.Float64bits(float64(s2.ChordAngleBetweenPoints(cc.Center(), p4)))))
	// AddCap with vectors that only pass IsUnit (NOT Normalize-grade): the allowance is not enough
	c6 := capOf(0x3ff000000000005a, 0, 0, 0)
	o6 := capOf(0, 0x3fefffffffffff4c, 0, 0x3fe0000000000000)
	p6 := pt(0xbfe52a7fa9d2f961, 0x3fe8000000000087, 0)
	r6 := c6.AddCap(o6)
	fmt.Println("addcap-needs-normalized: valid", c6.IsValid(), o6.IsValid(), "p.IsUnit", p6.IsUnit(), "dev(c,o,p)", dev(c6.Center()), dev(o6.Center()), dev(p6),
		"o.ContainsPoint(p)", o6.ContainsPoint(p6), "c.AddCap(o).ContainsPoint(p)", r6.ContainsPoint(p6),
		fmt.Sprintf("radius=%016x chord=%016x", math.Float64bits(2*r6.Height()), math.Float64bits(float64(s2.ChordAngleBetweenPoints(r6.Center(), p6)))))
	// D29 example (now fine)
	a := capOf(0x3fef2fa8a5c00669, 0xbfcafca85f1c2009, 0x3fb3707c5d9a22e1, 0x3ffd877431415986)
	b := capOf(0xbfe00ea81fad87d0, 0xbfeaadad918518d5, 0x3fcd8274f2060848, 0x39b4484bfeebc2a0)
	p := pt(0xbfe00ea81fad87d6, 0xbfeaadad918518d2, 0x3fcd8274f2060860)
	fmt.Println("addcap example: b.ContainsPoint(p)", b.ContainsPoint(p), "a.AddCap(b).ContainsPoint(p)", a.AddCap(b).ContainsPoint(p), "a.Union(b).ContainsPoint(p)", a.Union(b).ContainsPoint(p))
}
