// law3: search for ChordAngle.Add(a,b) < max(a,b) with non-special a,b in [0,4].
package main

import (
	"fmt"
	"math"
	"math/rand"
	"os"
	"strconv"

	"capsearch/ex"
	"github.com/golang/geo/s1"
)

var n, bad uint64
var worst = math.Inf(1)

func chk(a, b float64) {
	if !(a >= 0 && a <= 4 && b >= 0 && b <= 4) {
		return
	}
	n++
	A, B := s1.ChordAngle(a), s1.ChordAngle(b)
	r := A.Add(B)
	r2 := B.Add(A)
	if r != r2 {
		bad++
		if bad < 20 {
			fmt.Printf("NONCOMMUTATIVE a=%s b=%s a.Add(b)=%s b.Add(a)=%s\n", ex.H(a), ex.H(b), ex.H(float64(r)), ex.H(float64(r2)))
		}
	}
	if r < A || r < B || r2 < A || r2 < B || r != r { // also NaN
		bad++
		if bad < 20 {
			fmt.Printf("FAIL a=%s (%g) b=%s (%g) a.Add(b)=%s (%g)\n", ex.H(a), a, ex.H(b), b, ex.H(float64(r)), float64(r))
		}
	}
}

func main() {
	N := 200000000
	if len(os.Args) > 1 {
		N, _ = strconv.Atoi(os.Args[1])
	}
	seed := int64(12345)
	if len(os.Args) > 2 {
		sd, _ := strconv.Atoi(os.Args[2])
		seed = int64(sd)
	}
	rng := rand.New(rand.NewSource(seed))
	randonly := len(os.Args) > 3 && os.Args[3] == "randonly"
	if !randonly {
		targeted()
	}
	random(rng, N)
	fmt.Println("total cases:", n, "violations:", bad)
}

func targeted() {
	// --- targeted families
	// T1: r within K ulps of 4, dc a few multiples around 2^-54..2^-40, fine grid.
	for k := 0; k <= 4000; k++ {
		r := ex.Ulps(4, -k)
		for e := -1080; e <= -30; e++ {
			base := math.Ldexp(1, e)
			for j := -3; j <= 3; j++ {
				chk(r, ex.Ulps(base, j))
				chk(r, ex.Ulps(1.5*base, j))
				chk(r, ex.Ulps(1.25*base, j))
				chk(r, ex.Ulps(1.75*base, j))
			}
		}
		// dc just below 4-r so that r+dc just < 4
		gap := 4 - r
		for j := -40; j <= 40; j++ {
			chk(r, ex.Ulps(gap, j))
			chk(r, ex.Ulps(gap/2, j))
			chk(r, ex.Ulps(gap-math.Ldexp(1, -52), j))
			chk(r, ex.Ulps(gap-math.Ldexp(1, -51), j))
		}
		// all multiples of 2^-54 up to gap+few
		for m := 0; m <= 8*k+16 && m < 4000; m++ {
			chk(r, float64(m)*math.Ldexp(1, -54))
		}
	}
	fmt.Println("after T1:", n, bad)
	// T2: assorted r (powers of two, near 2, near 1, tiny, denormal) x dc scales
	var rs []float64
	for e := -1074; e <= 2; e++ {
		b := math.Ldexp(1, e)
		for j := -4; j <= 4; j++ {
			rs = append(rs, ex.Ulps(b, j), ex.Ulps(1.5*b, j), ex.Ulps(3*b/2.0+b/4, j))
		}
	}
	for j := -200; j <= 200; j++ {
		rs = append(rs, ex.Ulps(2, j), ex.Ulps(1, j), ex.Ulps(3, j), ex.Ulps(4, -j), ex.Ulps(0, j))
	}
	for _, r := range rs {
		for e := -1074; e <= 2; e++ {
			b := math.Ldexp(1, e)
			for j := -2; j <= 2; j++ {
				chk(r, ex.Ulps(b, j))
				chk(r, ex.Ulps(1.5*b, j))
			}
		}
		// dc ~ ulp(r), ulp(r)^2, sqrt-ish scales
		u := math.Nextafter(r, 5) - r
		for _, d := range []float64{u, u / 2, u / 4, 2 * u, 3 * u, u * u, u * u / r, math.Sqrt(u), 4 - r, (4 - r) / 2, r, r / 2, 2 * r} {
			for j := -3; j <= 3; j++ {
				chk(r, ex.Ulps(d, j))
			}
		}
	}
	fmt.Println("after T2:", n, bad)
}

func random(rng *rand.Rand, N int) {
	// T3: random
	for i := 0; i < N; i++ {
		var a, b float64
		switch rng.Intn(6) {
		case 0:
			a, b = 4*rng.Float64(), 4*rng.Float64()
		case 1: // log-uniform both
			a = math.Ldexp(1+rng.Float64(), -rng.Intn(1076)+2)
			b = math.Ldexp(1+rng.Float64(), -rng.Intn(1076)+2)
		case 2: // r near 4, dc below gap
			a = ex.Ulps(4, -1-rng.Intn(1<<uint(rng.Intn(30))))
			b = (4 - a) * rng.Float64()
		case 3: // r anything, dc in 2^-56..2^-44
			a = 4 * rng.Float64()
			b = math.Ldexp(1+rng.Float64(), -56+rng.Intn(12))
		case 4: // r near 4 (random gap scale), dc log-uniform tiny
			a = 4 - math.Ldexp(rng.Float64(), -rng.Intn(52))
			b = math.Ldexp(1+rng.Float64(), -rng.Intn(120))
		case 5: // a+b just under 4
			a = 4 * rng.Float64()
			b = ex.Ulps(4-a, -rng.Intn(5))
		}
		chk(a, b)
	}
}
