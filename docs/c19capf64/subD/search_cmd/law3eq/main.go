// law3eq: tightest cases of law 3: r.Add(dc) == r with fl(1-0.25*dc) < 1 (x-term really loses something).
package main

import (
	"fmt"
	"math"
	"math/rand"

	"capsearch/ex"
	"github.com/golang/geo/s1"
)

func main() {
	rng := rand.New(rand.NewSource(9))
	n, eq, shown := 0, 0, 0
	for i := 0; i < 300000000; i++ {
		var a, b float64
		switch rng.Intn(3) {
		case 0:
			a = ex.Ulps(4, -1-rng.Intn(64))
			b = math.Ldexp(1+rng.Float64(), -53+rng.Intn(6))
		case 1:
			a = 4 - math.Ldexp(rng.Float64(), -rng.Intn(52))
			b = (4 - a) * rng.Float64()
		case 2:
			a = 4 * rng.Float64()
			b = math.Ldexp(1+rng.Float64(), -53+rng.Intn(4))
		}
		if !(a < 4 && b > 0 && a+b < 4) || 1-0.25*b == 1 {
			continue
		}
		n++
		r := s1.ChordAngle(a).Add(s1.ChordAngle(b))
		if float64(r) < a {
			fmt.Println("FAIL", ex.H(a), ex.H(b), ex.H(float64(r)))
		}
		if float64(r) == a {
			eq++
			if shown < 8 {
				shown++
				fmt.Printf("EQUAL r=%s dc=%s (4-r=%g ulps, dc=%g*2^-52) r.Add(dc)=%s\n", ex.H(a), ex.H(b), (4-a)/math.Ldexp(1, -51), b/math.Ldexp(1, -52), ex.H(float64(r)))
			}
		}
	}
	fmt.Println("cases with lossy x-term:", n, " equalities:", eq)
}
