// law4: complement-covers: find unit p with !c.ContainsPoint(p) && !c.Complement().ContainsPoint(p).
// usage: law4 <mode: simple|axis|rand> <iters> <seed> [neg]   (neg: require dev(p)<=0 and dev(c)<=0)
package main

import (
	"fmt"
	"math"
	"math/big"
	"math/rand"
	"os"
	"strconv"

	"capsearch/ex"
	"github.com/golang/geo/r3"
	"github.com/golang/geo/s1"
	"github.com/golang/geo/s2"
)

var rng *rand.Rand

func le0(v r3.Vector) bool { return ex.Dev(v).Cmp(new(big.Rat)) <= 0 }

func try(c s2.Point, r s1.ChordAngle, p s2.Point, neg bool) bool {
	if !(r >= 0 && r < 4) || !ex.NGrade(p.Vector) || !ex.NGrade(c.Vector) {
		return false
	}
	if neg && !(le0(p.Vector) && le0(c.Vector)) {
		return false
	}
	C := s2.CapFromCenterChordAngle(c, r)
	K := C.Complement()
	return C.IsValid() && K.IsValid() && !C.ContainsPoint(p) && !K.ContainsPoint(p)
}

func show(c s2.Point, r s1.ChordAngle, p s2.Point) {
	C := s2.CapFromCenterChordAngle(c, r)
	K := C.Complement()
	fmt.Printf("WITNESS law4 c= %s r=%s (%.17g) p= %s | compl: ctr= %s r=%s | |c-p|2=%s |-c-p|2=%s dev(c)=%s dev(p)=%s\n",
		ex.HV(c.Vector), ex.H(float64(r)), float64(r), ex.HV(p.Vector), ex.HV(K.Center().Vector), ex.H(2*K.Height()),
		ex.H(float64(s2.ChordAngleBetweenPoints(c, p))), ex.H(float64(s2.ChordAngleBetweenPoints(K.Center(), p))), ex.DevS(c.Vector), ex.DevS(p.Vector))
}

func main() {
	mode := os.Args[1]
	iters, _ := strconv.Atoi(os.Args[2])
	seed, _ := strconv.Atoi(os.Args[3])
	neg := len(os.Args) > 4 && os.Args[4] == "neg"
	rng = rand.New(rand.NewSource(int64(seed)))
	cases, hits, shown := 0, 0, 0
	if mode == "simple" {
		c := ex.Pt(1, 0, 0)
		// r = k/2^j ; p = (1 - r/2, sqrt(1-x^2), 0) +- ulps
		for j := 0; j <= 8; j++ {
			for k := 1; k < 4<<uint(j); k += 2 {
				if j > 0 && k%2 == 0 {
					continue
				}
				r := float64(k) / float64(int(1)<<uint(j))
				if r >= 4 {
					continue
				}
				x0 := 1 - r/2
				y0 := math.Sqrt(1 - x0*x0)
				for dx := -3; dx <= 3; dx++ {
					for dy := -3; dy <= 3; dy++ {
						p := ex.Pt(ex.Ulps(x0, dx), ex.Ulps(y0, dy), 0)
						cases++
						if try(c, s1.ChordAngle(r), p, neg) {
							hits++
							if shown < 60 {
								shown++
								fmt.Printf("r=%d/2^%d dx=%d dy=%d ", k, j, dx, dy)
								show(c, s1.ChordAngle(r), p)
							}
						}
					}
				}
			}
		}
		fmt.Println("simple: cases", cases, "hits", hits)
		return
	}
	for it := 0; it < iters; it++ {
		var cv, tv r3.Vector
		if mode == "axis" {
			cv, tv = r3.Vector{X: 1}, r3.Vector{Y: 1}
		} else {
			for {
				cv = r3.Vector{X: rng.NormFloat64(), Y: rng.NormFloat64(), Z: rng.NormFloat64()}.Normalize()
				tv = cv.Cross(r3.Vector{X: rng.NormFloat64(), Y: rng.NormFloat64(), Z: rng.NormFloat64()}).Normalize()
				if ex.NGrade(cv) {
					break
				}
			}
		}
		c := s2.Point{Vector: cv}
		var th float64
		switch rng.Intn(3) {
		case 0:
			th = math.Pi * rng.Float64()
		case 1:
			th = math.Exp(rng.Float64()*math.Log(math.Pi/1e-9)) * 1e-9
		case 2:
			th = math.Pi - math.Exp(rng.Float64()*math.Log(math.Pi/1e-9))*1e-9
		}
		p0 := s2.Point{Vector: cv.Mul(math.Cos(th)).Add(tv.Mul(math.Sin(th))).Normalize()}
		r0 := s2.ChordAngleBetweenPoints(c, p0)
		for k := 0; k < 30; k++ {
			p := p0
			if k > 0 {
				p.X = ex.Ulps(p.X, rng.Intn(5)-2)
				p.Y = ex.Ulps(p.Y, rng.Intn(5)-2)
				p.Z = ex.Ulps(p.Z, rng.Intn(5)-2)
			}
			// radius just below the computed distance (so c excludes p)
			for dr := 1; dr <= 2; dr++ {
				r := s1.ChordAngle(ex.Ulps(float64(s2.ChordAngleBetweenPoints(c, p)), -dr))
				_ = r0
				cases++
				if try(c, r, p, neg) {
					hits++
					if shown < 40 {
						shown++
						show(c, r, p)
					}
				}
			}
		}
	}
	fmt.Printf("law4 mode %s neg=%v: cases=%d hits=%d\n", mode, neg, cases, hits)
}
