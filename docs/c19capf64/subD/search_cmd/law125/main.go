// law125: boundary-targeted search for counterexamples of
//  law 1 contains-sound, law 2 intersects-complete, law 5 interior-intersects.
// usage: law125 <law> <mode: axis|rand> <iters> <seed>
package main

import (
	"fmt"
	"math"
	"math/rand"
	"os"
	"strconv"

	"capsearch/ex"
	"github.com/golang/geo/r3"
	"github.com/golang/geo/s1"
	"github.com/golang/geo/s2"
)

var rng *rand.Rand

func cd(a, b s2.Point) s1.ChordAngle { return s2.ChordAngleBetweenPoints(a, b) }

func randUnit() r3.Vector {
	for {
		v := r3.Vector{X: rng.NormFloat64(), Y: rng.NormFloat64(), Z: rng.NormFloat64()}
		if v.Norm2() > 1e-3 {
			return v.Normalize()
		}
	}
}

// onCircle: point at angle th from c towards tangent t (c, t orthonormal-ish), normalised + verified.
func onCircle(c, t r3.Vector, th float64) (s2.Point, bool) {
	v := c.Mul(math.Cos(th)).Add(t.Mul(math.Sin(th)))
	p := s2.Point{Vector: v.Normalize()}
	return p, ex.NGrade(p.Vector)
}

var planar = os.Getenv("PLANAR") != ""
var neg = os.Getenv("NEG") != ""

func le0(v r3.Vector) bool { return ex.Dev(v).Sign() <= 0 }

func perturb(p s2.Point, k int) s2.Point {
	q := p
	q.X = ex.Ulps(q.X, rng.Intn(2*k+1)-k)
	q.Y = ex.Ulps(q.Y, rng.Intn(2*k+1)-k)
	if !planar {
		q.Z = ex.Ulps(q.Z, rng.Intn(2*k+1)-k)
	}
	return q
}

func logAngle() float64 { // log-uniform angle in (1e-9, pi)
	return math.Exp(rng.Float64()*math.Log(math.Pi/1e-9)) * 1e-9
}

func show(law int, c s2.Point, rc s1.ChordAngle, o s2.Point, ro s1.ChordAngle, p s2.Point) {
	fmt.Printf("WITNESS law%d c= %s r=%s  o= %s r=%s  p= %s\n", law, ex.HV(c.Vector), ex.H(float64(rc)), ex.HV(o.Vector), ex.H(float64(ro)), ex.HV(p.Vector))
	fmt.Printf("   c=%v rc=%.17g o=%v ro=%.17g p=%v dev(c,o,p)=%s %s %s\n", c, float64(rc), o, float64(ro), p, ex.DevS(c.Vector), ex.DevS(o.Vector), ex.DevS(p.Vector))
}

func main() {
	law, _ := strconv.Atoi(os.Args[1])
	mode := os.Args[2]
	iters, _ := strconv.Atoi(os.Args[3])
	seed, _ := strconv.Atoi(os.Args[4])
	rng = rand.New(rand.NewSource(int64(seed)))
	hits, cases, shown := 0, 0, 0
	for it := 0; it < iters; it++ {
		var cv, tv r3.Vector
		if mode == "axis" {
			cv, tv = r3.Vector{X: 1}, r3.Vector{Y: 1}
		} else {
			cv = randUnit()
			tv = cv.Cross(randUnit()).Normalize()
			tv = tv.Sub(cv.Mul(cv.Dot(tv))).Normalize()
		}
		c := s2.Point{Vector: cv}
		if !ex.NGrade(cv) {
			continue
		}
		alpha := logAngle()
		if mode == "axis" && rng.Intn(2) == 0 {
			alpha = math.Pi / 2
		}
		var o s2.Point
		var ok bool
		if mode == "axis" && alpha == math.Pi/2 {
			o, ok = s2.Point{Vector: r3.Vector{Y: 1}}, true
		} else {
			o, ok = onCircle(cv, tv, alpha)
		}
		if !ok {
			continue
		}
		d := cd(c, o)
		switch law {
		case 1:
			beta := logAngle()
			if alpha+beta >= math.Pi {
				continue
			}
			ro := s1.ChordAngleFromAngle(s1.Angle(beta))
			if mode == "axis" && rng.Intn(2) == 0 { // simple radius: k/2^j
				ro = s1.ChordAngle(float64(1+rng.Intn(15)) / float64(int(1)<<uint(rng.Intn(12))))
				if ro >= 4 {
					continue
				}
				beta = float64(ro.Angle())
				if alpha+beta >= math.Pi {
					continue
				}
			}
			rc := d.Add(ro)
			if rc >= 4 {
				continue
			}
			C := s2.CapFromCenterChordAngle(c, rc)
			O := s2.CapFromCenterChordAngle(o, ro)
			if !C.Contains(O) || !C.IsValid() || !O.IsValid() {
				panic("setup")
			}
			cases++
			// start point: far rim of o, pull back until inside o
			th := alpha + beta
			p, ok := onCircle(cv, tv, th)
			for k := 0; k < 200 && !(ok && O.ContainsPoint(p)); k++ {
				th = alpha + beta*(1-float64(k+1)*2e-16)
				p, ok = onCircle(cv, tv, th)
			}
			if !ok || !O.ContainsPoint(p) {
				continue
			}
			if neg {
				if !le0(o.Vector) {
					continue
				}
				for k := 0; k < 50 && !le0(p.Vector); k++ {
					q := perturb(p, 1)
					if O.ContainsPoint(q) && ex.Dev(q.Vector).Cmp(ex.Dev(p.Vector)) < 0 && ex.NGrade(q.Vector) {
						p = q
					}
				}
				if !le0(p.Vector) {
					continue
				}
			}
			best := cd(c, p)
			for k := 0; k < 300 && best <= rc; k++ {
				q := perturb(p, 2)
				if !O.ContainsPoint(q) || !ex.NGrade(q.Vector) || (neg && !le0(q.Vector)) {
					continue
				}
				if f := cd(c, q); f >= best {
					best, p = f, q
				}
			}
			if O.ContainsPoint(p) && !C.ContainsPoint(p) && ex.NGrade(p.Vector) {
				hits++
				if shown < 40 {
					shown++
					show(1, c, rc, o, ro, p)
				}
			}
		case 2, 5:
			// p between c and o on the geodesic; radii = exact computed distances
			f := rng.Float64()
			if rng.Intn(3) == 0 {
				f = 0.5
			}
			p, ok := onCircle(cv, tv, alpha*f)
			if !ok {
				continue
			}
			for k := 0; k < 20; k++ {
				q := p
				if k > 0 {
					q = perturb(p, 2)
					if !ex.NGrade(q.Vector) {
						continue
					}
				}
				rc, ro := cd(c, q), cd(o, q)
				if law == 5 {
					rc = s1.ChordAngle(math.Nextafter(float64(rc), 5))
				}
				if rc > 4 || ro > 4 || rc <= 0 {
					continue
				}
				C := s2.CapFromCenterChordAngle(c, rc)
				O := s2.CapFromCenterChordAngle(o, ro)
				cases++
				var fail bool
				if law == 2 {
					fail = C.ContainsPoint(q) && O.ContainsPoint(q) && !C.Intersects(O)
				} else {
					fail = C.InteriorContainsPoint(q) && O.ContainsPoint(q) && !C.InteriorIntersects(O)
				}
				if fail {
					hits++
					if shown < 40 {
						shown++
						show(law, c, rc, o, ro, q)
					}
					break
				}
			}
		}
	}
	fmt.Printf("law %d mode %s: cases=%d hits=%d\n", law, mode, cases, hits)
}
