// simple: look for SIMPLE witnesses (axis-aligned centres c=(1,0,0), o=(0,1,0), z=0) of laws 1,2,5.
package main

import (
	"fmt"
	"math"
	"math/big"

	"capsearch/ex"
	"github.com/golang/geo/s1"
	"github.com/golang/geo/s2"
)

func cd(a, b s2.Point) s1.ChordAngle { return s2.ChordAngleBetweenPoints(a, b) }

func absdev(p s2.Point) float64 { return math.Abs(ex.DevF(p.Vector)) }
func devLE0(p s2.Point) bool     { return ex.Dev(p.Vector).Cmp(new(big.Rat)) <= 0 }

func main() {
	c := ex.Pt(1, 0, 0)
	o := ex.Pt(0, 1, 0)
	d := cd(c, o)
	fmt.Println("d(c,o) =", ex.H(float64(d)), float64(d))
	// ---- law 1
	fmt.Println("== law 1: ro = k/2^j, p = (-x, y, 0)")
	n1 := 0
	for j := 0; j <= 10; j++ {
		for k := 1; k <= 7; k += 2 {
			ro := s1.ChordAngle(float64(k) / float64(int(1)<<uint(j)))
			if ro >= 2 {
				continue
			}
			rc := d.Add(ro)
			if rc >= 4 {
				continue
			}
			C := s2.CapFromCenterChordAngle(c, rc)
			O := s2.CapFromCenterChordAngle(o, ro)
			y0 := 1 - float64(ro)/2
			x0 := math.Sqrt(float64(ro) * (1 - float64(ro)/4))
			found := false
			for dy := 0; dy <= 2 && !found; dy++ {
				for dx := -4; dx <= 4 && !found; dx++ {
					p := ex.Pt(-ex.Ulps(x0, dx), ex.Ulps(y0, dy), 0)
					if !ex.NGrade(p.Vector) {
						continue
					}
					n1++
					if C.Contains(O) && O.ContainsPoint(p) && !C.ContainsPoint(p) {
						fmt.Printf("  L1 ro=%d/2^%d=%s rc=%s p=%s dy=%d dx=%d dev(p)=%s devLE0=%v |c-p|2=%s |o-p|2=%s\n", k, j, ex.H(float64(ro)), ex.H(float64(rc)), ex.HV(p.Vector), dy, dx, ex.DevS(p.Vector), devLE0(p), ex.H(float64(cd(c, p))), ex.H(float64(cd(o, p))))
						if devLE0(p) {
							found = true
						}
					}
				}
			}
		}
	}
	fmt.Println("law1 simple candidates:", n1)
	// ---- law 2 / 5: p = (a, b, 0) near the diagonal and elsewhere
	fmt.Println("== law 2/5: p = (s+i ulp, s+j ulp, 0), s = fl(sqrt(.5))")
	s := math.Sqrt(0.5)
	for i := -4; i <= 1; i++ {
		for j := -4; j <= 1; j++ {
			p := ex.Pt(ex.Ulps(s, i), ex.Ulps(s, j), 0)
			if !ex.NGrade(p.Vector) {
				continue
			}
			rc, ro := cd(c, p), cd(o, p)
			C := s2.CapFromCenterChordAngle(c, rc)
			O := s2.CapFromCenterChordAngle(o, ro)
			if C.ContainsPoint(p) && O.ContainsPoint(p) && !C.Intersects(O) {
				fmt.Printf("  L2 i=%d j=%d p=%s rc=%s ro=%s rc.Add(ro)=%s dev=%s\n", i, j, ex.HV(p.Vector), ex.H(float64(rc)), ex.H(float64(ro)), ex.H(float64(rc.Add(ro))), ex.DevS(p.Vector))
			}
			rc1 := s1.ChordAngle(math.Nextafter(float64(rc), 5))
			C1 := s2.CapFromCenterChordAngle(c, rc1)
			if C1.InteriorContainsPoint(p) && O.ContainsPoint(p) && !C1.InteriorIntersects(O) {
				fmt.Printf("  L5 i=%d j=%d p=%s rc=%s ro=%s rc.Add(ro)=%s dev=%s\n", i, j, ex.HV(p.Vector), ex.H(float64(rc1)), ex.H(float64(ro)), ex.H(float64(rc1.Add(ro))), ex.DevS(p.Vector))
			}
		}
	}
	// p = (a, b, 0) with a = k/2^j dyadic, b = sqrt(1-a^2) +- ulps
	fmt.Println("== law 2/5: p = (k/2^j, sqrt(1-a^2)+i ulp, 0)")
	for j := 1; j <= 6; j++ {
		for k := 1; k < 1<<uint(j); k += 2 {
			a := float64(k) / float64(int(1)<<uint(j))
			b0 := math.Sqrt(1 - a*a)
			for i := -3; i <= 3; i++ {
				p := ex.Pt(a, ex.Ulps(b0, i), 0)
				if !ex.NGrade(p.Vector) {
					continue
				}
				rc, ro := cd(c, p), cd(o, p)
				C := s2.CapFromCenterChordAngle(c, rc)
				O := s2.CapFromCenterChordAngle(o, ro)
				if C.ContainsPoint(p) && O.ContainsPoint(p) && !C.Intersects(O) {
					fmt.Printf("  L2 a=%d/2^%d i=%d p=%s rc=%s ro=%s rc.Add(ro)=%s dev=%s\n", k, j, i, ex.HV(p.Vector), ex.H(float64(rc)), ex.H(float64(ro)), ex.H(float64(rc.Add(ro))), ex.DevS(p.Vector))
				}
				rc1 := s1.ChordAngle(math.Nextafter(float64(rc), 5))
				C1 := s2.CapFromCenterChordAngle(c, rc1)
				if C1.InteriorContainsPoint(p) && O.ContainsPoint(p) && !C1.InteriorIntersects(O) {
					fmt.Printf("  L5 a=%d/2^%d i=%d p=%s rc=%s ro=%s rc.Add(ro)=%s dev=%s\n", k, j, i, ex.HV(p.Vector), ex.H(float64(rc1)), ex.H(float64(ro)), ex.H(float64(rc1.Add(ro))), ex.DevS(p.Vector))
				}
			}
		}
	}
}
