// law6: AddCap.  o.ContainsPoint(p) && !c.AddCap(o).ContainsPoint(p)
// usage: law6 <mode: ng|isunit|simple> <iters> <seed>
//   ng     : all three vectors Normalize-grade (exact check); adversarial; must NEVER fail
//   isunit : vectors pass IsUnit() but are scaled by 1 +- s (s up to 2.4e-14)
package main

import (
	"fmt"
	"math"
	"math/rand"
	"os"
	"strconv"

	"capsearch/ex"
	"github.com/golang/geo/r3"
	"github.com/golang/geo/s1"
	"github.com/golang/geo/s2"
)

var rng *rand.Rand

const dblEpsilon = 2.220446049250313e-16

func cd(a, b s2.Point) s1.ChordAngle { return s2.ChordAngleBetweenPoints(a, b) }

func logAngle() float64 { return math.Exp(rng.Float64()*math.Log(math.Pi/1e-9)) * 1e-9 }

// push the exact deviation of v towards sign*4 (Normalize-grade limit) by ulp walks
func pushDev(v r3.Vector, sign int) r3.Vector {
	for k := 0; k < 60; k++ {
		w := v
		switch rng.Intn(3) {
		case 0:
			w.X = ex.Ulps(w.X, sign*sgn(w.X))
		case 1:
			w.Y = ex.Ulps(w.Y, sign*sgn(w.Y))
		case 2:
			w.Z = ex.Ulps(w.Z, sign*sgn(w.Z))
		}
		if ex.NGrade(w) {
			v = w
		}
	}
	return v
}
func sgn(x float64) int {
	if x < 0 {
		return -1
	}
	return 1
}

func show(tag string, c s2.Point, rc s1.ChordAngle, o s2.Point, ro s1.ChordAngle, p s2.Point) {
	C := s2.CapFromCenterChordAngle(c, rc)
	O := s2.CapFromCenterChordAngle(o, ro)
	U := C.AddCap(O)
	fmt.Printf("WITNESS %s c= %s r=%s o= %s r=%s p= %s | union r=%s |c-p|2=%s |o-p|2=%s isUnit(c,o,p)=%v %v %v dev=%s %s %s\n", tag,
		ex.HV(c.Vector), ex.H(float64(rc)), ex.HV(o.Vector), ex.H(float64(ro)), ex.HV(p.Vector), ex.H(2*U.Height()),
		ex.H(float64(cd(c, p))), ex.H(float64(cd(o, p))), c.IsUnit(), o.IsUnit(), p.IsUnit(), ex.DevS(c.Vector), ex.DevS(o.Vector), ex.DevS(p.Vector))
}

func main() {
	mode := os.Args[1]
	iters, _ := strconv.Atoi(os.Args[2])
	seed, _ := strconv.Atoi(os.Args[3])
	rng = rand.New(rand.NewSource(int64(seed)))
	cases, hits, shown := 0, 0, 0
	minMargin := math.Inf(1) // (newRad - |c-p|^2) / (newRad - dist)   : fraction of the allowance left
	if mode == "simple" {
		for _, s := range []float64{2e-14, 1e-14, 5e-15, 2e-15, 1e-15} {
			c := ex.Pt(1+s, 0, 0)
			o := ex.Pt(0, 1-s, 0)
			for _, rof := range []float64{1, 0.5, 0.25, 0.125, 1.0 / 1024, 1e-6, 1e-10} {
				ro := s1.ChordAngle(rof)
				y0 := 1 - rof/2
				x0 := math.Sqrt(rof * (1 - rof/4))
				for dy := -3; dy <= 3; dy++ {
					for dx := -3; dx <= 3; dx++ {
						p := ex.Pt(-ex.Ulps(x0*(1+s), dx), ex.Ulps(y0*(1+s), dy), 0)
						// pull p into o if necessary by moving along y
						C := s2.CapFromCenterChordAngle(c, 0)
						O := s2.CapFromCenterChordAngle(o, ro)
						cases++
						if c.IsUnit() && o.IsUnit() && p.IsUnit() && O.ContainsPoint(p) && !C.AddCap(O).ContainsPoint(p) {
							hits++
							if dx == 0 && dy == 0 || shown < 5 {
								shown++
								fmt.Printf("s=%g ro=%g dx=%d dy=%d ", s, rof, dx, dy)
								show("law6", c, 0, o, ro, p)
							}
						}
					}
				}
			}
		}
		fmt.Println("simple cases", cases, "hits", hits)
		return
	}
	for it := 0; it < iters; it++ {
		var cv, tv r3.Vector
		if rng.Intn(2) == 0 {
			cv, tv = r3.Vector{X: 1}, r3.Vector{Y: 1}
		} else {
			cv = r3.Vector{X: rng.NormFloat64(), Y: rng.NormFloat64(), Z: rng.NormFloat64()}.Normalize()
			tv = cv.Cross(r3.Vector{X: rng.NormFloat64(), Y: rng.NormFloat64(), Z: rng.NormFloat64()}).Normalize()
		}
		alpha, beta := logAngle(), logAngle()
		if rng.Intn(4) == 0 {
			alpha = math.Pi * rng.Float64()
		}
		if rng.Intn(4) == 0 {
			beta = math.Pi * rng.Float64()
		}
		ov := cv.Mul(math.Cos(alpha)).Add(tv.Mul(math.Sin(alpha))).Normalize()
		th := alpha + beta
		if th > math.Pi {
			th = math.Pi
		}
		pv := cv.Mul(math.Cos(th)).Add(tv.Mul(math.Sin(th))).Normalize()
		var c, o, p s2.Point
		if mode == "ng" {
			// adversarial deviations: c and p long, o short (or random)
			sc, so, sp := 1, -1, 1
			if rng.Intn(3) == 0 {
				sc, so, sp = rng.Intn(3)-1, rng.Intn(3)-1, rng.Intn(3)-1
			}
			c = s2.Point{Vector: pushDev(cv, sc)}
			o = s2.Point{Vector: pushDev(ov, so)}
			p = s2.Point{Vector: pushDev(pv, sp)}
			if !ex.NGrade(c.Vector) || !ex.NGrade(o.Vector) || !ex.NGrade(p.Vector) {
				continue
			}
		} else {
			s := 2.4e-14 * rng.Float64()
			if len(os.Args) > 4 {
				s, _ = strconv.ParseFloat(os.Args[4], 64)
			}
			c = s2.Point{Vector: cv.Mul(1 + s)}
			o = s2.Point{Vector: ov.Mul(1 - s)}
			p = s2.Point{Vector: pv.Mul(1 + s)}
			if !c.IsUnit() || !o.IsUnit() || !p.IsUnit() {
				continue
			}
		}
		// o.radius := exactly the computed distance (p on the rim with equality), optionally +-
		ro := cd(o, p)
		if ro >= 4 {
			continue
		}
		// c.radius: small (so that the union radius is the computed one)
		rc := s1.ChordAngle(0)
		C := s2.CapFromCenterChordAngle(c, rc)
		O := s2.CapFromCenterChordAngle(o, ro)
		U := C.AddCap(O)
		// hill-climb p (only in ng mode, keeping grade) to maximise |c-p|2 with o containing p
		best := cd(c, p)
		if mode == "ng" {
			for k := 0; k < 100; k++ {
				q := p
				q.X = ex.Ulps(q.X, rng.Intn(5)-2)
				q.Y = ex.Ulps(q.Y, rng.Intn(5)-2)
				q.Z = ex.Ulps(q.Z, rng.Intn(5)-2)
				if !O.ContainsPoint(q) || !ex.NGrade(q.Vector) {
					continue
				}
				if f := cd(c, q); f >= best {
					best, p = f, q
				}
			}
		}
		cases++
		ur := s1.ChordAngle(2 * U.Height())
		dist := cd(c, o).Add(ro)
		if ur < 4 && ur > dist {
			m := float64(ur-best) / float64(ur-dist)
			if m < minMargin {
				minMargin = m
				if mode == "ng" {
					fmt.Printf("  new min margin fraction %.4f  (alpha=%g beta=%g)\n", m, alpha, beta)
				}
			}
		}
		if O.ContainsPoint(p) && !U.ContainsPoint(p) {
			hits++
			if shown < 10 {
				shown++
				show("law6-"+mode, c, rc, o, ro, p)
			}
		}
	}
	fmt.Printf("law6 mode %s: cases=%d hits=%d minMarginFraction=%.4f\n", mode, cases, hits, minMargin)
}
