module capreplay

go 1.21.0

require github.com/golang/geo v0.0.0

replace github.com/golang/geo => /repo
