#!/bin/sh
# Replays every witness of FINDINGS.md against the UNMODIFIED library (/repo, via go.mod replace).
export GOFLAGS=-mod=mod GOPROXY=off GOSUMDB=off GOTOOLCHAIN=local
cd /tmp/agents/c19capf64/subD/replay && go build -o replay . || exit 1
Z=0000000000000000; ONE=3ff0000000000000
echo "--- W1a"; ./replay law1 $ONE $Z $Z 400ddb3d742c2655  $Z $ONE $Z 3ff0000000000000  bfebb67ae8584cab 3fe0000000000000 $Z
echo "--- W1b"; ./replay law1 $ONE $Z $Z 400fdfdfbf5e3ab0  $Z $ONE $Z 3ffc000000000000  bfefbfbf7ebc755f 3fc0000000000000 $Z
echo "--- W1c"; ./replay law1 $ONE $Z $Z 3f905b4fcdfd7358  3feffffdfa921911 3f56bf3fc7e38d22 $Z 3f90000000000000  3fefbe92c0c80a32 3fc025207f5a8f85 $Z
echo "--- W2a"; ./replay law2 $ONE $Z $Z 3fe0000000000000  $Z $ONE $Z 3fe5ab00ac5a0e2c  3fe8000000000000 3fe52a7fa9d2f8ea $Z
echo "--- W2b"; ./replay law2 $ONE $Z $Z 3fe2bec333018866  $Z $ONE $Z 3fe2bec333018866  3fe6a09e667f3bcc 3fe6a09e667f3bcc $Z
echo "--- W4a"; ./replay law4 $ONE $Z $Z 4000000000000000  $Z 3ff0000000000001 $Z
echo "--- W4b"; ./replay law4 $ONE $Z $Z 3fe793c249647069  3fe4361edb4dc7cb 3fe8cf2b1fa6323a $Z
echo "--- W5";  ./replay law5 $ONE $Z $Z 3fe0000000000001  $Z $ONE $Z 3fe5ab00ac5a0e2c  3fe8000000000000 3fe52a7fa9d2f8ea $Z
echo "--- W6a"; ./replay law6 3ff000000000005a $Z $Z $Z  $Z 3fefffffffffff4c $Z 3fe0000000000000  bfe52a7fa9d2f961 3fe8000000000087 $Z
echo "--- W6b"; ./replay law6 3ff0000000000017 $Z $Z $Z  $Z 3fefffffffffffd3 $Z 3ff0000000000000  bfebb67ae8584cd2 3fe0000000000017 $Z
echo "--- W6c"; ./replay law6 3ff0000000000009 $Z $Z $Z  bfc46584f542ba7e 3fef97538b94b02d $Z 3e226d4b3b74e54b  bfc4670484f86d5c 3fef974410b3f1a7 $Z
