// replay: re-evaluates a cap-law witness against the UNMODIFIED library (/repo, see go.mod).
// All float64 arguments are 16-hex-digit IEEE-754 bit patterns.
//
//	replay law1|law2|law5|law6  cx cy cz cr  ox oy oz or  px py pz
//	replay law4                 cx cy cz cr  px py pz
//	replay law3                 r dc
package main

import (
	"fmt"
	"math"
	"math/big"
	"os"
	"strconv"

	"github.com/golang/geo/r3"
	"github.com/golang/geo/s1"
	"github.com/golang/geo/s2"
)

func pf(s string) float64 {
	u, err := strconv.ParseUint(s, 16, 64)
	if err != nil || len(s) != 16 {
		panic("bad bit pattern " + s)
	}
	return math.Float64frombits(u)
}
func h(f float64) string { return fmt.Sprintf("%016x", math.Float64bits(f)) }

// dev = (x^2+y^2+z^2-1)/2^-52, computed exactly with math/big.
func dev(v r3.Vector) *big.Rat {
	s := new(big.Rat)
	for _, c := range []float64{v.X, v.Y, v.Z} {
		r := new(big.Rat).SetFloat64(c)
		s.Add(s, new(big.Rat).Mul(r, r))
	}
	s.Sub(s, big.NewRat(1, 1))
	return s.Mul(s, new(big.Rat).SetInt(new(big.Int).Lsh(big.NewInt(1), 52)))
}
func grade(v r3.Vector) bool {
	d := dev(v)
	return d.Abs(d).Cmp(big.NewRat(4, 1)) <= 0
}
func vec(a []string) s2.Point { return s2.Point{Vector: r3.Vector{X: pf(a[0]), Y: pf(a[1]), Z: pf(a[2])}} }
func descr(name string, v s2.Point) {
	fmt.Printf("  %-8s = (%.17g, %.17g, %.17g)\n             (x^2+y^2+z^2-1)/2^-52 = %s exactly=%s  Normalize-grade(|.|<=4): %v  IsUnit(): %v\n",
		name, v.X, v.Y, v.Z, dev(v.Vector).FloatString(6), dev(v.Vector).String(), grade(v.Vector), v.IsUnit())
}

func main() {
	a := os.Args[1:]
	law := a[0]
	a = a[1:]
	switch law {
	case "law3":
		r, dc := s1.ChordAngle(pf(a[0])), s1.ChordAngle(pf(a[1]))
		fmt.Printf("r=%.17g dc=%.17g r.Add(dc)=%s (%.17g) dc.Add(r)=%s\n", float64(r), float64(dc), h(float64(r.Add(dc))), float64(r.Add(dc)), h(float64(dc.Add(r))))
		fmt.Println("r.Add(dc) < r :", r.Add(dc) < r, "  dc.Add(r) < r :", dc.Add(r) < r, "  r.Add(dc) < dc :", r.Add(dc) < dc)
	case "law4":
		c, rc, p := vec(a[0:3]), s1.ChordAngle(pf(a[3])), vec(a[4:7])
		C := s2.CapFromCenterChordAngle(c, rc)
		K := C.Complement()
		descr("c.center", c)
		descr("p", p)
		fmt.Printf("  c.radius = %s (%.17g)   complement: center=(%g,%g,%g) radius=%s (%.17g)\n", h(float64(rc)), float64(rc), K.Center().X, K.Center().Y, K.Center().Z, h(2*K.Height()), 2*K.Height())
		fmt.Printf("  |c-p|^2 = %s   |(-c)-p|^2 = %s\n", h(float64(s2.ChordAngleBetweenPoints(c, p))), h(float64(s2.ChordAngleBetweenPoints(K.Center(), p))))
		fmt.Println("  c.IsValid():", C.IsValid(), " c.Complement().IsValid():", K.IsValid())
		fmt.Println("  c.ContainsPoint(p):", C.ContainsPoint(p), "  c.Complement().ContainsPoint(p):", K.ContainsPoint(p))
		fmt.Println("  LAW 4 VIOLATED:", C.IsValid() && !C.ContainsPoint(p) && !K.ContainsPoint(p))
	default:
		c, rc := vec(a[0:3]), s1.ChordAngle(pf(a[3]))
		o, ro := vec(a[4:7]), s1.ChordAngle(pf(a[7]))
		p := vec(a[8:11])
		C := s2.CapFromCenterChordAngle(c, rc)
		O := s2.CapFromCenterChordAngle(o, ro)
		descr("c.center", c)
		descr("o.center", o)
		descr("p", p)
		d := s2.ChordAngleBetweenPoints(c, o)
		fmt.Printf("  c.radius=%s (%.17g)  o.radius=%s (%.17g)\n", h(float64(rc)), float64(rc), h(float64(ro)), float64(ro))
		fmt.Printf("  |c-o|^2=%s  |c-p|^2=%s  |o-p|^2=%s\n", h(float64(d)), h(float64(s2.ChordAngleBetweenPoints(c, p))), h(float64(s2.ChordAngleBetweenPoints(o, p))))
		fmt.Printf("  |c-o|^2.Add(o.radius)=%s   c.radius.Add(o.radius)=%s\n", h(float64(d.Add(ro))), h(float64(rc.Add(ro))))
		fmt.Println("  c.IsValid():", C.IsValid(), " o.IsValid():", O.IsValid())
		fmt.Println("  c.Contains(o):", C.Contains(O), " c.Intersects(o):", C.Intersects(O), " c.InteriorIntersects(o):", C.InteriorIntersects(O))
		fmt.Println("  c.ContainsPoint(p):", C.ContainsPoint(p), " c.InteriorContainsPoint(p):", C.InteriorContainsPoint(p), " o.ContainsPoint(p):", O.ContainsPoint(p))
		switch law {
		case "law1":
			fmt.Println("  LAW 1 VIOLATED (Contains && o has p && c lacks p):", C.Contains(O) && O.ContainsPoint(p) && !C.ContainsPoint(p))
		case "law2":
			fmt.Println("  LAW 2 VIOLATED (common point but !Intersects):", C.ContainsPoint(p) && O.ContainsPoint(p) && !C.Intersects(O))
		case "law5":
			fmt.Println("  LAW 5 VIOLATED (interior point of c in o but !InteriorIntersects):", C.InteriorContainsPoint(p) && O.ContainsPoint(p) && !C.InteriorIntersects(O))
		case "law6":
			U := C.AddCap(O)
			fmt.Printf("  c.AddCap(o).radius=%s (%.17g)\n", h(2*U.Height()), 2*U.Height())
			fmt.Println("  c.AddCap(o).ContainsPoint(p):", U.ContainsPoint(p))
			fmt.Println("  LAW 6 VIOLATED (o has p but c.AddCap(o) lacks p):", O.ContainsPoint(p) && !U.ContainsPoint(p))
		}
	}
}
