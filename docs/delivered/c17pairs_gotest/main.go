package main

import (
	"fmt"
	"math"
	"math/big"
	"math/rand"

	"github.com/golang/geo/r3"
	"github.com/golang/geo/s1"
	"github.com/golang/geo/s2"
)

func bf(x float64) *big.Float { return new(big.Float).SetPrec(300).SetFloat64(x) }
func dot(a, b r3.Vector) *big.Float {
	s := new(big.Float).SetPrec(300)
	s.Add(s, new(big.Float).Mul(bf(a.X), bf(b.X)))
	s.Add(s, new(big.Float).Mul(bf(a.Y), bf(b.Y)))
	s.Add(s, new(big.Float).Mul(bf(a.Z), bf(b.Z)))
	return s
}
// chord^2 between directions of x and (a+b)
func chordMid(x, a, b r3.Vector) float64 {
	// P = a/|a| + b/|b| normalised ; use big floats
	na := new(big.Float).Sqrt(dot(a, a))
	nb := new(big.Float).Sqrt(dot(b, b))
	nx := new(big.Float).Sqrt(dot(x, x))
	xa := new(big.Float).Quo(dot(x, a), na)
	xb := new(big.Float).Quo(dot(x, b), nb)
	ab := new(big.Float).Quo(dot(a, b), new(big.Float).Mul(na, nb))
	// |A+B|^2 = 2+2ab
	l2 := new(big.Float).Add(bf(2), new(big.Float).Mul(bf(2), ab))
	l := new(big.Float).Sqrt(l2)
	xp := new(big.Float).Quo(new(big.Float).Add(xa, xb), new(big.Float).Mul(l, nx))
	c := new(big.Float).Sub(bf(2), new(big.Float).Mul(bf(2), xp))
	f, _ := c.Float64()
	return f
}
func chordEnd(x, a r3.Vector) float64 {
	na := new(big.Float).Sqrt(dot(a, a))
	nx := new(big.Float).Sqrt(dot(x, x))
	xp := new(big.Float).Quo(dot(x, a), new(big.Float).Mul(na, nx))
	c := new(big.Float).Sub(bf(2), new(big.Float).Mul(bf(2), xp))
	f, _ := c.Float64()
	return f
}

func main() {
	rng := rand.New(rand.NewSource(1))
	worst := 0.0
	skipped := 0
	for it := 0; it < 3000000; it++ {
		d := math.Pow(10, -1-8*rng.Float64())
		a := s2.Point{r3.Vector{rng.NormFloat64() * 1e-3, -1, rng.NormFloat64() * 1e-3}.Normalize()}
		b := s2.Point{r3.Vector{-d + a.X*-1, 1, -a.Z + rng.NormFloat64()*d}.Normalize()}
		// pole-ish x : perpendicular to a and b, then tilt slightly away
		n := a.Cross(b.Vector).Normalize()
		eta := (rng.Float64()*4 - 1) * 1e-16
		x := s2.Point{n.Add(a.Add(b.Vector).Normalize().Mul(-eta * (1 + rng.Float64()*1e3))).Normalize()}
		res, _ := s2.UpdateMaxDistance(x, a, b, s1.NegativeChordAngle)
		tm := chordMid(x.Vector, a.Vector, b.Vector)
		te := math.Max(chordEnd(x.Vector, a.Vector), chordEnd(x.Vector, b.Vector))
		tr := math.Max(tm, te)
		if float64(res) <= 2 && te > 2 {
			skipped++
		}
		e := tr - float64(res)
		if e > worst {
			worst = e
			fmt.Printf("it=%d err=%.3e res=%.17g true>=%.17g te=%.17g d=%.2e\n x=%016x %016x %016x\n a=%016x %016x %016x\n b=%016x %016x %016x\n", it, e, float64(res), tr, te, d,
				math.Float64bits(x.X), math.Float64bits(x.Y), math.Float64bits(x.Z),
				math.Float64bits(a.X), math.Float64bits(a.Y), math.Float64bits(a.Z),
				math.Float64bits(b.X), math.Float64bits(b.Y), math.Float64bits(b.Z))
		}
	}
	fmt.Println("worst", worst, "skipped-with-true-endpoint>2:", skipped)
}
