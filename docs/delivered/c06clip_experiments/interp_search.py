import random, math
from fractions import Fraction as Fr
def interp(x,a,b,a1,b1):
    if a==b: return a1
    if abs(a-x) <= abs(b-x):
        return a1 + (b1-a1)*(x-a)/(b-a)
    return b1 + (a1-b1)*(x-b)/(a-b)
def exact(x,a,b,a1,b1):
    x,a,b,a1,b1 = map(Fr,(x,a,b,a1,b1))
    return a1 + (b1-a1)*(x-a)/(b-a)
eps = Fr(1,2**52)
random.seed(1)
best=0
def rnd(mode):
    if mode==0: return random.uniform(-1,1)
    if mode==1:
        s=random.choice([-1,1]); return s*(1-random.random()*2**-random.randint(1,52))
    if mode==2:
        return random.choice([-1,1])*math.ldexp(random.random(), -random.randint(0,60))
    return random.choice([-1.0,1.0])
for it in range(3000000):
    a=rnd(random.randint(0,3)); b=rnd(random.randint(0,3))
    a1=rnd(random.randint(0,3)); b1=rnd(random.randint(0,3))
    if a==b: continue
    lo,hi=min(a,b),max(a,b)
    m=random.randint(0,3)
    if m==0: x=random.uniform(lo,hi)
    elif m==1: x=(a+b)/2*(1+random.uniform(-1,1)*2**-random.randint(20,52))
    else: x = lo + (hi-lo)*random.random()
    if not (lo<=x<=hi): continue
    r=interp(x,a,b,a1,b1)
    e=abs(Fr(r)-exact(x,a,b,a1,b1))/eps
    if e>best:
        best=e; print(float(e), (x,a,b,a1,b1))
