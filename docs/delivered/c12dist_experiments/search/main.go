package main

import (
	"fmt"
	"math"
	"math/big"
	"math/rand"
	"os"
	"strconv"

	"github.com/golang/geo/r3"
	"github.com/golang/geo/s2"
)

const prec = 400

type bv struct{ x, y, z *big.Float }

func bf(f float64) *big.Float { return new(big.Float).SetPrec(prec).SetFloat64(f) }
func nb() *big.Float          { return new(big.Float).SetPrec(prec) }
func mul(a, b *big.Float) *big.Float { return nb().Mul(a, b) }
func add(a, b *big.Float) *big.Float { return nb().Add(a, b) }
func sub(a, b *big.Float) *big.Float { return nb().Sub(a, b) }
func quo(a, b *big.Float) *big.Float { return nb().Quo(a, b) }
func dot(a, b bv) *big.Float {
	return add(add(mul(a.x, b.x), mul(a.y, b.y)), mul(a.z, b.z))
}
func cross(a, b bv) bv {
	return bv{sub(mul(a.y, b.z), mul(a.z, b.y)), sub(mul(a.z, b.x), mul(a.x, b.z)), sub(mul(a.x, b.y), mul(a.y, b.x))}
}
func scale(a bv, s *big.Float) bv { return bv{mul(a.x, s), mul(a.y, s), mul(a.z, s)} }
func vsub(a, b bv) bv              { return bv{sub(a.x, b.x), sub(a.y, b.y), sub(a.z, b.z)} }
func sqrt(a *big.Float) *big.Float {
	if a.Sign() <= 0 {
		return nb()
	}
	return nb().Sqrt(a)
}

// true squared chord distance from the POINT p (uvw frame, not nec. unit) to the nearest unit point of the cell
// returns dist2 and a tag
func truth(p bv, u0, u1, v0, v1 float64) (*big.Float, string) {
	one := bf(1)
	V := []bv{{bf(u0), bf(v0), one}, {bf(u1), bf(v0), one}, {bf(u1), bf(v1), one}, {bf(u0), bf(v1), one}}
	// inside test
	inside := true
	for k := 0; k < 4; k++ {
		n := cross(V[k], V[(k+1)%4])
		if dot(p, n).Sign() < 0 {
			inside = false
		}
	}
	pp := dot(p, p)
	if inside {
		// (|p|-1)^2
		l := sqrt(pp)
		d := sub(l, one)
		return mul(d, d), "inside"
	}
	var best *big.Float
	tag := ""
	for k := 0; k < 4; k++ {
		A, B := V[k], V[(k+1)%4]
		n := cross(A, B)
		Q := vsub(p, scale(n, quo(dot(p, n), dot(n, n))))
		tA := cross(n, A)
		tB := cross(n, B)
		var m *big.Float
		t := ""
		if dot(Q, tA).Sign() > 0 && dot(Q, tB).Sign() < 0 {
			m = sqrt(dot(Q, Q))
			t = fmt.Sprintf("edge%d", k)
		} else {
			ma := quo(dot(p, A), sqrt(dot(A, A)))
			mb := quo(dot(p, B), sqrt(dot(B, B)))
			if ma.Cmp(mb) >= 0 {
				m = ma
				t = fmt.Sprintf("vert%d", k)
			} else {
				m = mb
				t = fmt.Sprintf("vert%d", (k+1)%4)
			}
		}
		if best == nil || m.Cmp(best) > 0 {
			best = m
			tag = t
		}
	}
	d := sub(add(pp, one), mul(bf(2), best))
	return d, tag
}

func main() {
	seed := int64(1)
	if len(os.Args) > 1 {
		seed, _ = strconv.ParseInt(os.Args[1], 10, 64)
	}
	level := 30
	if len(os.Args) > 2 {
		level, _ = strconv.Atoi(os.Args[2])
	}
	rng := rand.New(rand.NewSource(seed))
	worstUnder, worstOver := 0.0, 0.0
	for iter := 0; iter < 200000; iter++ {
		// a cell on face 0
		base := s2.PointFromCoords(1, 0.1+0.8*rng.Float64(), 0.1+0.8*rng.Float64())
		id := s2.CellFromPoint(base).ID().Parent(level)
		cell := s2.CellFromCellID(id)
		if cell.Face() != 0 {
			continue
		}
		r := cell.BoundUV()
		u0, u1, v0, v1 := r.X.Lo, r.X.Hi, r.Y.Lo, r.Y.Hi
		// choose an edge: 0 = left (u=u0), and target near -n_L, with Q behind the arc
		// uvw frame: n_L = (1,0,-u0)
		nl := math.Sqrt(1 + u0*u0)
		A := r3.Vector{X: u0, Y: (v0 + v1) / 2, Z: 1}.Normalize()
		beta := math.Ldexp(1+rng.Float64(), -18-rng.Intn(20))
		sgn := 1.0
		if rng.Intn(2) == 0 {
			sgn = -1
		}
		puvw := r3.Vector{X: -1 / nl, Y: 0, Z: u0 / nl}.Add(A.Mul(-sgn * beta))
		// noise
		puvw = puvw.Add(r3.Vector{X: rng.NormFloat64(), Y: rng.NormFloat64(), Z: rng.NormFloat64()}.Mul(math.Ldexp(1, -50-rng.Intn(8))))
		puvw = puvw.Normalize()
		// face 0: uvw = (y, z, x) => xyz = (w, u, v)
		p := s2.Point{Vector: r3.Vector{X: puvw.Z, Y: puvw.X, Z: puvw.Y}}
		got := float64(cell.Distance(p))
		tr, tag := truth(bv{bf(p.Y), bf(p.Z), bf(p.X)}, u0, u1, v0, v1)
		trf, _ := tr.Float64()
		diff := got - trf
		if diff < worstUnder {
			worstUnder = diff
			fmt.Printf("UNDER diff=%.3e got=%.17g true=%.17g tag=%s level=%d id=%016x p=%016x %016x %016x beta=%g\n", diff, got, trf, tag, level, uint64(id), math.Float64bits(p.X), math.Float64bits(p.Y), math.Float64bits(p.Z), sgn*beta)
		}
		if diff > worstOver {
			worstOver = diff
			fmt.Printf("OVER  diff=%.3e got=%.17g true=%.17g tag=%s level=%d id=%016x p=%016x %016x %016x beta=%g\n", diff, got, trf, tag, level, uint64(id), math.Float64bits(p.X), math.Float64bits(p.Y), math.Float64bits(p.Z), sgn*beta)
		}
	}
	fmt.Println("worstUnder", worstUnder, "worstOver", worstOver)
}
