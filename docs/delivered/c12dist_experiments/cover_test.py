import random, math
rng=random.Random(1)
def norm(t):
    n=math.sqrt(sum(a*a for a in t)); return [a/n for a in t]
def test(n):
    worst=0; cnt=0
    for it in range(n):
        if rng.random()<0.2:
            u0,u1,v0,v1=-1,1,-1,1
        else:
            u0,u1=sorted([rng.uniform(-1,1),rng.uniform(-1,1)]); v0,v1=sorted([rng.uniform(-1,1),rng.uniform(-1,1)])
            if rng.random()<0.5:
                s=10**rng.uniform(-6,0)
                u1=u0+(u1-u0)*s; v1=v0+(v1-v0)*s
        t=norm([rng.gauss(0,1) for _ in range(3)])
        if rng.random()<0.5:
            c=norm([rng.uniform(u0,u1),rng.uniform(v0,v1),1.0])
            sc=10**rng.uniform(-7,0)*max(u1-u0,v1-v0)
            t=norm([c[i]+rng.gauss(0,1)*sc for i in range(3)])
            if rng.random()<0.3: t=[-a for a in t]
        x,y,z=t
        sL=x-z*u0; sR=x-z*u1; sB=y-z*v0; sT=y-z*v1
        vT=lambda u,v: x*(-u*v)+y*(u*u+1)+z*(-v)
        uT=lambda v,u: x*(v*v+1)+y*(-u*v)+z*(-u)
        exL= sL<0 and vT(u0,v0)>0 and vT(u0,v1)<0
        exR= sR>0 and vT(u1,v0)>0 and vT(u1,v1)<0
        exB= sB<0 and uT(v0,u0)>0 and uT(v0,u1)<0
        exT= sT>0 and uT(v1,u0)>0 and uT(v1,u1)<0
        ins= sL>=0 and sR<=0 and sB>=0 and sT<=0
        if exL or exR or exB or exT or ins: continue
        cnt+=1
        m=-9
        N=60
        for i in range(N+1):
            U=u0+(u1-u0)*i/N
            for j in range(N+1):
                V=v0+(v1-v0)*j/N
                d=(x*U+y*V+z)/math.sqrt(1+U*U+V*V)
                if d>m: m=d
        vd=max((x*a+y*b+z)/math.sqrt(1+a*a+b*b) for a in (u0,u1) for b in (v0,v1))
        if m-vd>worst:
            worst=m-vd; print(it,worst,(u0,u1,v0,v1),t)
    print("vertex-branch cases",cnt,"worst excess",worst)
test(6000)
