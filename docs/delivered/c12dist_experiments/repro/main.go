// Reproducer (public API only, unmodified /repo): Cell.Distance / BoundaryDistance under-estimate the distance to a small cell
// by ~3e-8 rad when the target is (almost) a pole of the great circle of one of the cell's edges:
// uEdgeIsClosest / vEdgeIsClosest then decide on rounding noise and the "closest point on the great circle" is taken
// although it lies on the far side of the circle.
package main

import (
	"fmt"
	"math"
	"math/big"

	"github.com/golang/geo/r3"
	"github.com/golang/geo/s1"
	"github.com/golang/geo/s2"
)

const prec = 500

func bf(f float64) *big.Float { return new(big.Float).SetPrec(prec).SetFloat64(f) }

type bv [3]*big.Float

func nb() *big.Float { return new(big.Float).SetPrec(prec) }
func dot(a, b bv) *big.Float {
	s := nb()
	for i := 0; i < 3; i++ {
		s.Add(s, nb().Mul(a[i], b[i]))
	}
	return s
}
func cross(a, b bv) bv {
	return bv{nb().Sub(nb().Mul(a[1], b[2]), nb().Mul(a[2], b[1])), nb().Sub(nb().Mul(a[2], b[0]), nb().Mul(a[0], b[2])), nb().Sub(nb().Mul(a[0], b[1]), nb().Mul(a[1], b[0]))}
}
func vec(p r3.Vector) bv { return bv{bf(p.X), bf(p.Y), bf(p.Z)} }

// exact (500-bit) squared chord distance from the unit-ish point p to the boundary of the cell (p is outside)
func truth(cell s2.Cell, p s2.Point) *big.Float {
	P := vec(p.Vector)
	var best *big.Float
	for k := 0; k < 4; k++ {
		// the raw (unnormalised) vertices are exact float vectors (u,v,1) permuted to xyz
		A := vec(cell.VertexRaw(k).Vector)
		B := vec(cell.VertexRaw((k + 1) % 4).Vector)
		n := cross(A, B)
		c := nb().Quo(dot(P, n), dot(n, n))
		Q := bv{nb().Sub(P[0], nb().Mul(c, n[0])), nb().Sub(P[1], nb().Mul(c, n[1])), nb().Sub(P[2], nb().Mul(c, n[2]))}
		var m *big.Float
		if dot(Q, cross(n, A)).Sign() > 0 && dot(Q, cross(n, B)).Sign() < 0 {
			m = nb().Sqrt(dot(Q, Q))
		} else {
			ma := nb().Quo(dot(P, A), nb().Sqrt(dot(A, A)))
			mb := nb().Quo(dot(P, B), nb().Sqrt(dot(B, B)))
			m = ma
			if mb.Cmp(ma) > 0 {
				m = mb
			}
		}
		if best == nil || m.Cmp(best) > 0 {
			best = m
		}
	}
	d := nb().Add(dot(P, P), bf(1))
	return d.Sub(d, nb().Mul(bf(2), best))
}

func main() {
	for _, in := range []struct {
		id      uint64
		x, y, z uint64
	}{
		{0x151f46a85da62db5, 0x3fe2a80a50dbc9f0, 0xbfe9ffb2713669e0, 0xbe44895f347fad93}, // level 30
		{0x156cc6548fddd000, 0x3fe4a59a99c3cff5, 0xbfe872b1c2c4f23f, 0xbdd88854e355e548}, // level 24
	} {
		id := s2.CellID(in.id)
		p := s2.Point{Vector: r3.Vector{X: math.Float64frombits(in.x), Y: math.Float64frombits(in.y), Z: math.Float64frombits(in.z)}}
		cell := s2.CellFromCellID(id)
		got := cell.Distance(p)
		gotB := cell.BoundaryDistance(p)
		tr, _ := truth(cell, p).Float64()
		anti := s2.Point{Vector: p.Mul(-1)}
		gotMax := cell.MaxDistance(anti)
		// brute force over the 4 vertices and 1000 points per edge (float64, good to ~1e-15)
		brute := math.Inf(1)
		for k := 0; k < 4; k++ {
			a, b := cell.Vertex(k), cell.Vertex((k+1)%4)
			for i := 0; i <= 1000; i++ {
				q := s2.Interpolate(float64(i)/1000, a, b)
				if d := float64(s2.ChordAngleBetweenPoints(p, q)); d < brute {
					brute = d
				}
			}
		}
		fmt.Printf("cell %016x level %d valid=%v  p.IsUnit=%v contains=%v\n", in.id, id.Level(), id.IsValid(), p.IsUnit(), cell.ContainsPoint(p))
		fmt.Printf("  Distance         = %.17g  (%.12f rad)\n", float64(got), got.Angle().Radians())
		fmt.Printf("  BoundaryDistance = %.17g\n", float64(gotB))
		fmt.Printf("  exact (500 bit)  = %.17g  (%.12f rad)   brute force = %.17g\n", tr, s1.ChordAngle(tr).Angle().Radians(), brute)
		fmt.Printf("  error            = %.3e in chord^2 = %.3e rad (under-estimate)\n", float64(got)-tr, got.Angle().Radians()-s1.ChordAngle(tr).Angle().Radians())
		fmt.Printf("  MaxDistance(-p)  = %.17g  exact max = %.17g (over-estimate %.3e)\n", float64(gotMax), 2*(in2(anti)+1)-tr, float64(gotMax)-(2*(in2(anti)+1)-tr))
	}
}

func in2(p s2.Point) float64 { return p.Norm2() }
