import random, math, sys
rng=random.Random(int(sys.argv[1]) if len(sys.argv)>1 else 1)
def norm(t):
    n=math.sqrt(sum(a*a for a in t)); return [a/n for a in t]
def dot(a,b): return sum(x*y for x,y in zip(a,b))
def cross(a,b): return [a[1]*b[2]-a[2]*b[1],a[2]*b[0]-a[0]*b[2],a[0]*b[1]-a[1]*b[0]]
def trueM(t,u0,u1,v0,v1):
    V=[[u0,v0,1.0],[u1,v0,1.0],[u1,v1,1.0],[u0,v1,1.0]]
    ins=all(dot(t,cross(V[k],V[(k+1)%4]))>=0 for k in range(4))
    if ins: return math.sqrt(dot(t,t))
    best=-9
    for k in range(4):
        A,B=V[k],V[(k+1)%4]; n=cross(A,B)
        c=dot(t,n)/dot(n,n); Q=[t[i]-c*n[i] for i in range(3)]
        if dot(Q,cross(n,A))>0 and dot(Q,cross(n,B))<0: m=math.sqrt(dot(Q,Q))
        else: m=max(dot(t,A)/math.sqrt(dot(A,A)),dot(t,B)/math.sqrt(dot(B,B)))
        best=max(best,m)
    return best
def test(n,eps):
    worst=0;cnt=0
    for it in range(n):
        size=eps*2**rng.uniform(18,40)
        if size>2: size=2
        u0=rng.uniform(-1,1-size) if size<2 else -1; u1=u0+size*rng.uniform(0.5,1)
        v0=rng.uniform(-1,1-size) if size<2 else -1; v1=v0+size*rng.uniform(0.5,1)
        u1=min(u1,1); v1=min(v1,1)
        mode=rng.random()
        if mode<0.6:
            # near a vertex or edge, at scale eps..size
            a=rng.choice([u0,u1,rng.uniform(u0,u1)]); b=rng.choice([v0,v1,rng.uniform(v0,v1)])
            c=norm([a,b,1.0])
            sc=eps*2**rng.uniform(-3,12)
            t=norm([c[i]+rng.gauss(0,1)*sc for i in range(3)])
            if rng.random()<0.2: t=[-x for x in t]
        elif mode<0.8:
            # near a pole of an edge circle
            e=rng.randrange(4)
            nrm=[[1,0,-u0],[-1,0,u1],[0,1,-v0],[0,-1,v1]][e]
            nh=norm(nrm); sg=rng.choice([-1,1])
            sc=eps*2**rng.uniform(-3,30)
            t=norm([sg*nh[i]+rng.gauss(0,1)*sc for i in range(3)])
        else:
            t=norm([rng.gauss(0,1) for _ in range(3)])
        x,y,z=t
        sL=x-z*u0; sR=x-z*u1; sB=y-z*v0; sT=y-z*v1
        vT=lambda u,v: x*(-u*v)+y*(u*u+1)+z*(-v)
        uT=lambda v,u: x*(v*v+1)+y*(-u*v)+z*(-u)
        # per edge: out = outward signed quantity (positive = outside)
        edges=[(-sL,vT(u0,v0),vT(u0,v1)),(sR,vT(u1,v0),vT(u1,v1)),(-sB,uT(v0,u0),uT(v0,u1)),(sT,uT(v1,u0),uT(v1,u1))]
        ok=True; anyTrue=False
        for (o,a,b) in edges:
            canT = (o>-eps) and (a<=eps or b>=-eps)
            canF = (o<=eps)
            if not (canT or canF): ok=False
            if canT: anyTrue=True
        if not (ok and anyTrue): continue
        cnt+=1
        M=trueM(t,u0,u1,v0,v1)
        Vd=max((x*a+y*b+z)/math.sqrt(1+a*a+b*b) for a in (u0,u1) for b in (v0,v1))
        ex=(M-Vd)/eps
        if ex>worst:
            worst=ex; print(it,"excess/eps",ex,"size",size,(u0,u1,v0,v1),t,edges)
    print("cases",cnt,"worst",worst)
test(int(sys.argv[2]) if len(sys.argv)>2 else 200000,1e-9)
