package main

import (
	"fmt"
	"math"

	"github.com/golang/geo/r3"
	"github.com/golang/geo/s2"
)

func main() {
	cB := s2.CellFromCellID(s2.CellID(0x151f000000000000))
	cD := s2.CellFromCellID(s2.CellID(0x3010000000000000))
	P := s2.Point{Vector: r3.Vector{X: 0, Y: 0, Z: 1}}
	B := s2.Point{Vector: r3.Vector{X: 0, Y: 1, Z: 0}}
	A := s2.Point{Vector: r3.Vector{X: 1, Y: 0, Z: 0}}
	fmt.Printf("DistanceToEdge(cB, P, B) = %016x\n", math.Float64bits(float64(cB.DistanceToEdge(P, B))))
	fmt.Printf("DistanceToEdge(cB, A, B) = %016x\n", math.Float64bits(float64(cB.DistanceToEdge(A, B))))
	fmt.Printf("DistanceToCell(cB, cD)   = %016x\n", math.Float64bits(float64(cB.DistanceToCell(cD))))
	for k := 0; k < 4; k++ {
		v := cB.Vertex(k)
		fmt.Printf("vB%d = %d %d %d\n", k, math.Float64bits(v.X), math.Float64bits(v.Y), math.Float64bits(v.Z))
	}
	for k := 0; k < 4; k++ {
		v := cD.Vertex(k)
		fmt.Printf("vD%d = %d %d %d\n", k, math.Float64bits(v.X), math.Float64bits(v.Y), math.Float64bits(v.Z))
	}
}
