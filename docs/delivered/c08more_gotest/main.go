// Empirical companion of lean/S2Proofs/EdgeQuery/CellWorldEx.lean (package c08more): the closest-edge query with a CELL
// target on the two edges of the example index, run against the unmodified /repo.  Expected (Lean kernel evaluation):
//   target cell 0c40000000000000: edge 0 at 4595673941343881311, edge 1 at 4603687153151700380;
//   DistanceToCell(target, face 0 / child 0 / child 2) = 0, 4593970975539599539, 4582417255529727149
package main

import (
	"fmt"
	"math"

	"github.com/golang/geo/r3"
	"github.com/golang/geo/s2"
)

func f(b uint64) float64 { return math.Float64frombits(b) }
func pt(x, y, z float64) s2.Point { return s2.Point{Vector: r3.Vector{X: x, Y: y, Z: z}} }

func main() {
	t23, t13 := f(0x3FE5555555555555), f(0x3FD5555555555555)
	a0, b0 := pt(1, 0, 0), pt(t23, t23, t13)
	a1, b1 := pt(t23, -t23, -t13), pt(t23, -t13, -t23)
	index := s2.NewShapeIndex()
	l0 := s2.Polyline{a0, b0}
	l1 := s2.Polyline{a1, b1}
	index.Add(&l0)
	index.Add(&l1)
	target := s2.CellFromCellID(s2.CellID(0x0c40000000000000))
	for _, brute := range []bool{false, true} {
		for _, k := range []int{1, 2} {
			opts := s2.NewClosestEdgeQueryOptions().MaxResults(k).UseBruteForce(brute)
			q := s2.NewClosestEdgeQuery(index, opts)
			res := q.FindEdges(s2.NewMinDistanceToCellTarget(target))
			fmt.Printf("brute=%v maxResults=%d:", brute, k)
			for _, r := range res {
				fmt.Printf(" (shape %d edge %d dist %d)", r.ShapeID(), r.EdgeID(), math.Float64bits(float64(r.Distance())))
			}
			fmt.Println()
		}
	}
	for _, c := range []s2.CellID{s2.CellIDFromFace(0), s2.CellIDFromFace(0).Children()[0], s2.CellIDFromFace(0).Children()[2]} {
		fmt.Printf("DistanceToCell(target, cell %016x) = %d\n", uint64(c),
			math.Float64bits(float64(target.DistanceToCell(s2.CellFromCellID(c)))))
	}
	fmt.Printf("DistanceToEdge(target, e0) = %d\nDistanceToEdge(target, e1) = %d\n",
		math.Float64bits(float64(target.DistanceToEdge(a0, b0))), math.Float64bits(float64(target.DistanceToEdge(a1, b1))))
	// goal 3: FURTHEST-edge query with the EDGE target (1/3,2/3,2/3)->(2/3,1/3,2/3) (lean/S2Proofs/EdgeQuery/FarEdgeWorldEx.lean).
	// Expected (Lean kernel): MaxResults 1: edge 1 at 4613745647665100891; MaxResults 2: then edge 0 at 4608683618675807574;
	// MaxDistanceToEdge of the cells 1000…, 0400…, 1400…: 4614286172884572558, 4614286172884572558, 4608683618675807574
	tg0, tg1 := pt(t13, t23, t23), pt(t23, t13, t23)
	for _, brute := range []bool{false, true} {
		for _, k := range []int{1, 2} {
			opts := s2.NewFurthestEdgeQueryOptions().MaxResults(k).UseBruteForce(brute)
			q := s2.NewFurthestEdgeQuery(index, opts)
			res := q.FindEdges(s2.NewMaxDistanceToEdgeTarget(s2.Edge{V0: tg0, V1: tg1}))
			fmt.Printf("furthest edge target brute=%v maxResults=%d:", brute, k)
			for _, r := range res {
				fmt.Printf(" (shape %d edge %d dist %d)", r.ShapeID(), r.EdgeID(), math.Float64bits(float64(r.Distance())))
			}
			fmt.Println()
		}
	}
	for _, c := range []s2.CellID{s2.CellIDFromFace(0), s2.CellIDFromFace(0).Children()[0], s2.CellIDFromFace(0).Children()[2]} {
		fmt.Printf("MaxDistanceToEdge(cell %016x, target) = %d\n", uint64(c),
			math.Float64bits(float64(s2.CellFromCellID(c).MaxDistanceToEdge(tg0, tg1))))
	}
	for k := 0; k < 4; k++ {
		v := target.Vertex(k)
		fmt.Printf("vertex %d = (%d, %d, %d)\n", k, math.Float64bits(v.X), math.Float64bits(v.Y), math.Float64bits(v.Z))
	}
}
