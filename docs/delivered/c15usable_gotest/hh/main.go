//go:build verif

package main

import (
	"bytes"
	"encoding/hex"
	"fmt"

	"github.com/golang/geo/s2"
)

func main() {
	// [1, 1] ++ writeBool true ++ writeUint32 0 ++ encodeRect default  (default RectM = all-zero bit patterns)
	data := []byte{1, 1, 1, 0, 0, 0, 0, 1}
	data = append(data, make([]byte, 32)...)
	var p s2.Polygon
	fmt.Println("decode err:", p.Decode(bytes.NewReader(data)), "loops:", p.NumLoops(), "hasHoles:", s2.VerifPolygonHasHoles(&p))
	var b bytes.Buffer
	fmt.Println("encode err:", p.Encode(&b), "bytes:", hex.EncodeToString(b.Bytes()))
	var q s2.Polygon
	fmt.Println("re-decode err:", q.Decode(bytes.NewReader(b.Bytes())), "loops:", q.NumLoops(), "hasHoles:", s2.VerifPolygonHasHoles(&q))
}
