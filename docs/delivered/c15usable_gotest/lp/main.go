package main

import (
	"bytes"
	"encoding/binary"
	"fmt"
	"math"

	"github.com/golang/geo/s2"
)

func f64(b *bytes.Buffer, x float64) { binary.Write(b, binary.LittleEndian, math.Float64bits(x)) }
func u32(b *bytes.Buffer, x uint32)  { binary.Write(b, binary.LittleEndian, x) }

func pts(b *bytes.Buffer, n int) {
	for i := 0; i < n; i++ {
		a := 2 * math.Pi * float64(i) / float64(n)
		p := s2.PointFromCoords(1, 0.01*math.Cos(a), 0.01*math.Sin(a))
		f64(b, p.X)
		f64(b, p.Y)
		f64(b, p.Z)
	}
}

func shapeWalk(s s2.Shape) (msg string) {
	defer func() {
		if r := recover(); r != nil {
			msg = fmt.Sprintf("PANIC %v", r)
		}
	}()
	ne, nc := s.NumEdges(), s.NumChains()
	for e := 0; e < ne; e++ {
		ed := s.Edge(e)
		cp := s.ChainPosition(e)
		if s.ChainEdge(cp.ChainID, cp.Offset) != ed {
			return "MISMATCH"
		}
	}
	next := 0
	for i := 0; i < nc; i++ {
		c := s.Chain(i)
		if c.Start != next {
			return "TILE"
		}
		next += c.Length
		for j := 0; j < c.Length; j++ {
			_ = s.ChainEdge(i, j)
		}
	}
	if next != ne {
		return "TILE-END"
	}
	return fmt.Sprintf("ok ne=%d nc=%d", ne, nc)
}

func main() {
	for n := 0; n <= 4; n++ {
		for _, o := range []byte{0, 1} {
			var b bytes.Buffer
			b.WriteByte(1)
			u32(&b, uint32(n))
			pts(&b, n)
			b.WriteByte(o)
			u32(&b, 0xffffffff)
			b.WriteByte(1)
			f64(&b, 0); f64(&b, 1); f64(&b, 0); f64(&b, 1)
			var l s2.Loop
			if err := l.Decode(bytes.NewReader(b.Bytes())); err != nil {
				fmt.Println("loop decode error", err)
				continue
			}
			r := shapeWalk(&l)
			func() {
				defer func() {
					if rr := recover(); rr != nil {
						r += fmt.Sprintf(" QPANIC %v", rr)
					}
				}()
				_ = l.ContainsPoint(s2.PointFromCoords(1, 0, 0))
				_ = l.IsHole()
				_ = l.CapBound()
				var e bytes.Buffer
				if err := l.Encode(&e); err != nil {
					r += " encode error " + err.Error()
				}
				var l2 s2.Loop
				if err := l2.Decode(bytes.NewReader(e.Bytes())); err != nil {
					r += " redecode error " + err.Error()
				}
				r += fmt.Sprintf(" reenc-identical-bytes=%v n2=%d", bytes.Equal(e.Bytes(), b.Bytes()), l2.NumVertices())
			}()
			fmt.Printf("loop n=%d origin=%d: %s\n", n, o, r)
		}
	}
	for n := 0; n <= 3; n++ {
		var b bytes.Buffer
		b.WriteByte(1)
		u32(&b, uint32(n))
		pts(&b, n)
		var p s2.Polyline
		if err := p.Decode(bytes.NewReader(b.Bytes())); err != nil {
			fmt.Println("polyline decode error", err)
			continue
		}
		var e bytes.Buffer
		err := p.Encode(&e)
		fmt.Printf("polyline n=%d: %s reenc err=%v identical=%v\n", n, shapeWalk(&p), err, bytes.Equal(e.Bytes(), b.Bytes()))
	}
}
