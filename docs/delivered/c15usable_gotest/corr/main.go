// emits `c06shape polygon <sizes> decoded = st:… ne nc edges chains positions chainedges` lines (protocol of
// harness/c06a.go) for polygons obtained from Polygon.Decode, so that the oracle compares the accessor model on
// PolygonS.init(<decoded loops>) with the real accessors of the decoded value.
package main

import (
	"bytes"
	"encoding/binary"
	"fmt"
	"math"
	"math/rand"
	"strconv"
	"strings"

	"github.com/golang/geo/s2"
)

func is(i int) string { return strconv.Itoa(i) }

func f64(b *bytes.Buffer, x float64) { binary.Write(b, binary.LittleEndian, math.Float64bits(x)) }
func u32(b *bytes.Buffer, x uint32)  { binary.Write(b, binary.LittleEndian, x) }
func rect(b *bytes.Buffer) {
	b.WriteByte(1)
	f64(b, 0); f64(b, 0.5); f64(b, 0); f64(b, 0.5)
}

type lp struct {
	n      int
	origin bool
	depth  uint32
}

func polyLossless(loops []lp, hasHoles bool) []byte {
	var b bytes.Buffer
	b.WriteByte(1)
	b.WriteByte(1)
	if hasHoles { b.WriteByte(1) } else { b.WriteByte(0) }
	u32(&b, uint32(len(loops)))
	for k, l := range loops {
		b.WriteByte(1)
		u32(&b, uint32(l.n))
		for i := 0; i < l.n; i++ {
			a := 2 * math.Pi * float64(i) / float64(l.n)
			p := s2.PointFromCoords(1, 0.003*math.Cos(a)+0.01*float64(k%40)-0.2, 0.003*math.Sin(a)+0.01*float64(k/40))
			f64(&b, p.X); f64(&b, p.Y); f64(&b, p.Z)
		}
		if l.origin { b.WriteByte(1) } else { b.WriteByte(0) }
		u32(&b, l.depth)
		rect(&b)
	}
	rect(&b)
	return b.Bytes()
}

func guard(f func() string) (r string) {
	defer func() {
		if recover() != nil {
			r = "!"
		}
	}()
	return f()
}
func joinOr(l []string, sep string) string {
	if len(l) == 0 {
		return "-"
	}
	return strings.Join(l, sep)
}

func dumpShape(sh s2.Shape, lab map[s2.Point]string) []string {
	edgeTok := func(e s2.Edge) string {
		a, ok1 := lab[e.V0]
		b, ok2 := lab[e.V1]
		if !ok1 || !ok2 {
			return "?"
		}
		return a + "-" + b
	}
	neS := guard(func() string { return is(sh.NumEdges()) })
	ncS := guard(func() string { return is(sh.NumChains()) })
	ne, nc := sh.NumEdges(), sh.NumChains()
	var edges, chains, poss, ces []string
	for e := 0; e < ne; e++ {
		e := e
		edges = append(edges, guard(func() string { return edgeTok(sh.Edge(e)) }))
		poss = append(poss, guard(func() string { p := sh.ChainPosition(e); return is(p.ChainID) + "." + is(p.Offset) }))
	}
	for i := 0; i < nc; i++ {
		i := i
		ct := guard(func() string { c := sh.Chain(i); return is(c.Start) + "." + is(c.Length) })
		chains = append(chains, ct)
		if ct == "!" {
			continue
		}
		ln := sh.Chain(i).Length
		for j := 0; j < ln; j++ {
			j := j
			ces = append(ces, is(i)+"."+is(j)+"."+guard(func() string { return edgeTok(sh.ChainEdge(i, j)) }))
		}
	}
	return []string{neS, ncS, joinOr(edges, ";"), joinOr(chains, ";"), joinOr(poss, ";"), joinOr(ces, ";")}
}

func emit(ls []lp, data []byte) {
	var p s2.Polygon
	if err := p.Decode(bytes.NewReader(data)); err != nil {
		fmt.Println("# decode error", err)
		return
	}
	lab := map[s2.Point]string{}
	var st, sz []string
	for i, l := range p.Loops() {
		for k, v := range l.Vertices() {
			lab[v] = is(i) + "." + is(k)
		}
		o, d := 0, 0
		if l.ContainsOrigin() { o = 1 }
		if l.IsHole() { d = 1 }
		st = append(st, fmt.Sprintf("%d.%d.%d", l.NumVertices(), d, o))
		sz = append(sz, is(l.NumVertices()))
	}
	res := append([]string{"st:" + joinOr(st, ",")}, dumpShape(&p, lab)...)
	fmt.Println("c06shape polygon " + joinOr(sz, ",") + " decoded = " + strings.Join(res, " "))
}

func main() {
	rng := rand.New(rand.NewSource(1515))
	pick := []int{0, 0, 1, 1, 2, 3, 4, 7}
	for it := 0; it < 4000; it++ {
		nl := rng.Intn(18)
		switch rng.Intn(6) {
		case 0: nl = 12 + rng.Intn(3)
		case 1: nl = 1
		case 2: nl = 13 + rng.Intn(40)
		}
		var ls []lp
		for k := 0; k < nl; k++ {
			ls = append(ls, lp{pick[rng.Intn(len(pick))], rng.Intn(2) == 0, uint32(rng.Intn(4))})
		}
		emit(ls, polyLossless(ls, rng.Intn(2) == 0))
	}
	// compressed: one loop declaring zero vertices (becomes the 1-vertex empty loop), and no loops
	for _, d := range [][]byte{{4, 30, 1, 0, 0, 0, 3}, {4, 30, 0}, {4, 0, 1, 0, 0, 1, 0}} {
		emit(nil, d)
	}
}
