package main

import (
	"bytes"
	"encoding/binary"
	"encoding/hex"
	"fmt"
	"math"
	"math/rand"

	"github.com/golang/geo/s2"
)

func f64(b *bytes.Buffer, x float64) { binary.Write(b, binary.LittleEndian, math.Float64bits(x)) }
func u32(b *bytes.Buffer, x uint32)  { binary.Write(b, binary.LittleEndian, x) }

func rect(b *bytes.Buffer) {
	b.WriteByte(1)
	f64(b, 0)
	f64(b, 0.5)
	f64(b, 0)
	f64(b, 0.5)
}

// lossless loop with n vertices on a small circle
func loopLossless(b *bytes.Buffer, n int, origin bool, depth uint32, k int) {
	b.WriteByte(1)
	u32(b, uint32(n))
	for i := 0; i < n; i++ {
		a := 2 * math.Pi * float64(i) / float64(maxi(n, 1))
		p := s2.PointFromCoords(1, 0.01*float64(k+1)*math.Cos(a)+0.1*float64(k), 0.01*float64(k+1)*math.Sin(a))
		f64(b, p.X)
		f64(b, p.Y)
		f64(b, p.Z)
	}
	if origin {
		b.WriteByte(1)
	} else {
		b.WriteByte(0)
	}
	u32(b, depth)
	rect(b)
}
func maxi(a, b int) int {
	if a > b {
		return a
	}
	return b
}

type lp struct {
	n      int
	origin bool
	depth  uint32
}

func polyLossless(loops []lp, hasHoles bool) []byte {
	var b bytes.Buffer
	b.WriteByte(1)
	b.WriteByte(1)
	if hasHoles {
		b.WriteByte(1)
	} else {
		b.WriteByte(0)
	}
	u32(&b, uint32(len(loops)))
	for k, l := range loops {
		loopLossless(&b, l.n, l.origin, l.depth, k)
	}
	rect(&b)
	return b.Bytes()
}

func uv(b *bytes.Buffer, x uint64) {
	var buf [10]byte
	n := binary.PutUvarint(buf[:], x)
	b.Write(buf[:n])
}

// compressed polygon, all vertices off-centre is hard; use level-30 snapped vertices produced by the library itself:
// here only the degenerate shapes are hand-written: loops with 0 vertices (with or without the bound bit).
func polyCompressedDegenerate(specs []int) []byte { // spec: 0 = zero vertices no bound, 1 = zero vertices with bound bit
	var b bytes.Buffer
	b.WriteByte(4)
	b.WriteByte(30)
	uv(&b, uint64(len(specs)))
	for _, s := range specs {
		uv(&b, 0) // nvertices
		// decodePointsCompressed with 0 vertices: no face runs, no points, numOffCenter
		uv(&b, 0)
		if s == 0 {
			uv(&b, 0) // props
			uv(&b, 3) // depth
		} else {
			uv(&b, 2|1) // props: bound encoded, origin inside
			uv(&b, 1<<63+1) // depth: negative as Go int
			rect(&b)
		}
	}
	return b.Bytes()
}

var failures int

// query exercises the accessor-level API the way the index builder and the queries do, and checks the `Usable` clauses.
func query(name string, p *s2.Polygon) (msg string) {
	defer func() {
		if r := recover(); r != nil {
			msg = fmt.Sprintf("PANIC %v", r)
			failures++
		}
	}()
	ne, nc := p.NumEdges(), p.NumChains()
	bad := ""
	for e := 0; e < ne; e++ {
		ed := p.Edge(e)
		cp := p.ChainPosition(e)
		if cp.ChainID < 0 || cp.ChainID >= nc || cp.Offset < 0 {
			bad += fmt.Sprintf(" pos(%d)=%v", e, cp)
		}
		if ce := p.ChainEdge(cp.ChainID, cp.Offset); ce != ed {
			bad += fmt.Sprintf(" chainEdge(pos %d)!=edge", e)
		}
	}
	tiles := true
	next := 0
	for i := 0; i < nc; i++ {
		c := p.Chain(i)
		if c.Start < 0 || c.Length < 0 || c.Start+c.Length > ne {
			bad += fmt.Sprintf(" chain(%d)=%v", i, c)
		}
		if c.Start != next {
			tiles = false
		}
		next = c.Start + c.Length
		for j := 0; j < c.Length; j++ {
			ce := p.ChainEdge(i, j)
			if p.Edge(c.Start+j) != ce {
				bad += fmt.Sprintf(" edge(start+%d)!=chainEdge(%d,%d)", j, i, j)
			}
			if cp := p.ChainPosition(c.Start + j); cp.ChainID != i || cp.Offset != j {
				bad += fmt.Sprintf(" pos(start+j)!=(%d,%d)", i, j)
			}
		}
	}
	if next != ne {
		tiles = false
	}
	// loops as shapes
	for i := 0; i < p.NumLoops(); i++ {
		l := p.Loop(i)
		for e := 0; e < l.NumEdges(); e++ {
			_ = l.Edge(e)
			_ = l.ChainPosition(e)
		}
		for c := 0; c < l.NumChains(); c++ {
			ch := l.Chain(c)
			for j := 0; j < ch.Length; j++ {
				_ = l.ChainEdge(c, j)
			}
		}
	}
	// some real queries (index build, containment)
	_ = p.ContainsPoint(s2.PointFromCoords(1, 0.001, 0.001))
	_ = p.ContainsPoint(s2.PointFromCoords(-1, 0.3, 0.2))
	_ = p.IntersectsCell(s2.CellFromCellID(s2.CellIDFromFace(0)))
	_ = p.ContainsCell(s2.CellFromCellID(s2.CellIDFromFace(3).ChildBeginAtLevel(4)))
	_ = p.CapBound()
	_ = p.RectBound()
	_ = p.IsEmpty()
	_ = p.IsFull()
	_ = p.ReferencePoint()
	if bad != "" {
		failures++
	}
	return fmt.Sprintf("ne=%d nc=%d tiles=%v usableViolations=[%s]", ne, nc, tiles, bad)
}

func summary(p *s2.Polygon) string {
	s := fmt.Sprintf("loops=%d:", p.NumLoops())
	for i := 0; i < p.NumLoops(); i++ {
		l := p.Loop(i)
		s += fmt.Sprintf(" (n=%d,o=%v,hole=%v)", l.NumVertices(), l.ContainsOrigin(), l.IsHole())
	}
	return s
}

func reencode(name string, p *s2.Polygon) (msg string) {
	defer func() {
		if r := recover(); r != nil {
			msg = fmt.Sprintf("REENCODE PANIC %v", r)
			failures++
		}
	}()
	var b bytes.Buffer
	if err := p.Encode(&b); err != nil {
		failures++
		return "encode error: " + err.Error()
	}
	enc := b.Bytes()
	var q s2.Polygon
	if err := q.Decode(bytes.NewReader(enc)); err != nil {
		failures++
		return fmt.Sprintf("re-decode error: %v (bytes %s)", err, hex.EncodeToString(enc))
	}
	same := summary(p) == summary(&q)
	return fmt.Sprintf("re-encoded as version %d (%d bytes); same shape after re-decode: %v [%s] -> [%s]", enc[0], len(enc), same, summary(p), summary(&q))
}

func run(name string, data []byte) {
	var p s2.Polygon
	err := p.Decode(bytes.NewReader(data))
	if err != nil {
		fmt.Printf("%-28s decode error: %v\n", name, err)
		return
	}
	h := hex.EncodeToString(data)
	if len(h) > 60 {
		h = h[:60] + "…"
	}
	fmt.Printf("%-28s %s\n    bytes=%s (%d)\n    query:    %s\n    reencode: %s\n", name, summary(&p), h, len(data), query(name, &p), reencode(name, &p))
}

func main() {
	run("lossless-1loop-0v", polyLossless([]lp{{0, false, 0}}, false))
	run("lossless-0loops-holes", polyLossless(nil, true))
	run("lossless-1loop-1v-empty", polyLossless([]lp{{1, false, 0}}, false))
	run("lossless-1loop-1v-full", polyLossless([]lp{{1, true, 0}}, false))
	run("lossless-[1v,3v]", polyLossless([]lp{{1, false, 0}, {3, false, 0}}, false))
	run("lossless-[2v,0v,3v]", polyLossless([]lp{{2, false, 1}, {0, true, 5}, {3, false, 0}}, true))
	var many []lp
	for k := 0; k < 14; k++ {
		n := k%4 + 0
		if k == 5 || k == 13 || k == 0 {
			n = 0
		}
		many = append(many, lp{n, k%3 == 0, uint32(k)})
	}
	run("lossless-14loops-mixed", polyLossless(many, true))
	var many1 []lp
	for k := 0; k < 13; k++ {
		many1 = append(many1, lp{1, k%2 == 0, uint32(k)})
	}
	run("lossless-13loops-1v", polyLossless(many1, false))
	var many0 []lp
	for k := 0; k < 20; k++ {
		many0 = append(many0, lp{0, false, 0})
	}
	run("lossless-20loops-0v", polyLossless(many0, false))
	run("compressed-1loop-0v", polyCompressedDegenerate([]int{0}))
	run("compressed-1loop-0v-bound", polyCompressedDegenerate([]int{1}))
	run("compressed-[0v,0vb,0v]", polyCompressedDegenerate([]int{0, 1, 0}))
	var sp []int
	for k := 0; k < 15; k++ {
		sp = append(sp, k%2)
	}
	run("compressed-15loops-0v", polyCompressedDegenerate(sp))

	// random shapes, both search paths
	rng := rand.New(rand.NewSource(15))
	for it := 0; it < 3000; it++ {
		nl := rng.Intn(18)
		var ls []lp
		for k := 0; k < nl; k++ {
			ls = append(ls, lp{[]int{0, 0, 1, 1, 2, 3, 4, 7}[rng.Intn(8)], rng.Intn(2) == 0, uint32(rng.Intn(4))})
		}
		var p s2.Polygon
		data := polyLossless(ls, rng.Intn(2) == 0)
		if err := p.Decode(bytes.NewReader(data)); err != nil {
			fmt.Println("random: decode error", err)
			failures++
			continue
		}
		before := failures
		q := query("random", &p)
		r := reencode("random", &p)
		if failures != before {
			fmt.Printf("random %v: %s | %s\n", ls, q, r)
		}
	}
	fmt.Println("failures:", failures)
}
