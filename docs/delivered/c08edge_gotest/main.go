// Empirical companion of lean/S2Proofs/EdgeQuery/EdgeWorldEx.lean (package c08edge): the closest-edge query with an EDGE
// target on the two edges of the example index, run against the unmodified /repo.  Expected (Lean kernel evaluation):
//   target 1 (1/3,2/3,2/3)->(2/3,1/3,2/3): edge 0 at 3fc5d8e65d58f4a2, edge 1 at 4000000000000000
//   target 2 (2/3,1/3,2/3)->(2/3,2/3,-1/3): edge 0 at 0000000000000000 (crossing), edge 1 at 3ff1c71c71c71c72
package main

import (
	"fmt"
	"math"

	"github.com/golang/geo/r3"
	"github.com/golang/geo/s2"
)

func f(b uint64) float64 { return math.Float64frombits(b) }
func pt(x, y, z float64) s2.Point { return s2.Point{Vector: r3.Vector{X: x, Y: y, Z: z}} }

func main() {
	t23, t13 := f(0x3FE5555555555555), f(0x3FD5555555555555)
	a0, b0 := pt(1, 0, 0), pt(t23, t23, t13)
	a1, b1 := pt(t23, -t23, -t13), pt(t23, -t13, -t23)
	index := s2.NewShapeIndex()
	l0 := s2.Polyline{a0, b0}
	l1 := s2.Polyline{a1, b1}
	index.Add(&l0)
	index.Add(&l1)
	targets := [][2]s2.Point{{pt(t13, t23, t23), pt(t23, t13, t23)}, {pt(t23, t13, t23), pt(t23, t23, -t13)}}
	for ti, tg := range targets {
		for _, brute := range []bool{false, true} {
			for _, k := range []int{1, 2} {
				opts := s2.NewClosestEdgeQueryOptions().MaxResults(k).UseBruteForce(brute)
				q := s2.NewClosestEdgeQuery(index, opts)
				res := q.FindEdges(s2.NewMinDistanceToEdgeTarget(s2.Edge{V0: tg[0], V1: tg[1]}))
				fmt.Printf("target %d brute=%v maxResults=%d:", ti+1, brute, k)
				for _, r := range res {
					fmt.Printf(" (shape %d edge %d dist %016x)", r.ShapeID(), r.EdgeID(), math.Float64bits(float64(r.Distance())))
				}
				fmt.Println()
			}
		}
		for _, c := range []s2.CellID{s2.CellIDFromFace(0), s2.CellIDFromFace(0).Children()[0], s2.CellIDFromFace(0).Children()[2]} {
			fmt.Printf("target %d DistanceToEdge(cell %016x) = %d\n", ti+1, uint64(c),
				math.Float64bits(float64(s2.CellFromCellID(c).DistanceToEdge(tg[0], tg[1]))))
		}
	}
}
