// Empirical companion of lean/S2Proofs/EdgeQuery/FurthestWorldEx.lean (package c08more-subF): the FURTHEST-edge query with a
// POINT target on the two edges of the example index, run against the unmodified /repo.  Expected (Lean kernel evaluation):
//   MaxResults 1: edge 1 at 40075138cd15385b;  MaxResults 2: edge 1 at 40075138cd15385b, edge 0 at 3ff5555555555556
//   DistanceLimit 2, MaxResults 2: edge 1 only;  DistanceLimit 3: empty
//   Cell.MaxDistance(target) of the cells 1000…, 0400…, 1400…: 40093cd3a2c8198e, 40093cd3a2c8198e, 3ff5555555555556
//   UpdateMaxDistance(target, edge 0 / edge 1, -1): 3ff5555555555556, 40075138cd15385b
package main

import (
	"fmt"
	"math"

	"github.com/golang/geo/r3"
	"github.com/golang/geo/s1"
	"github.com/golang/geo/s2"
)

func f(b uint64) float64          { return math.Float64frombits(b) }
func pt(x, y, z float64) s2.Point { return s2.Point{Vector: r3.Vector{X: x, Y: y, Z: z}} }

func main() {
	t23, t13 := f(0x3FE5555555555555), f(0x3FD5555555555555)
	a0, b0 := pt(1, 0, 0), pt(t23, t23, t13)
	a1, b1 := pt(t23, -t23, -t13), pt(t23, -t13, -t23)
	p := pt(t13, t23, t23)
	index := s2.NewShapeIndex()
	l0 := s2.Polyline{a0, b0}
	l1 := s2.Polyline{a1, b1}
	index.Add(&l0)
	index.Add(&l1)
	for _, brute := range []bool{false, true} {
		for _, k := range []int{1, 2} {
			opts := s2.NewFurthestEdgeQueryOptions().MaxResults(k).UseBruteForce(brute)
			q := s2.NewFurthestEdgeQuery(index, opts)
			res := q.FindEdges(s2.NewMaxDistanceToPointTarget(p))
			fmt.Printf("brute=%v maxResults=%d:", brute, k)
			for _, r := range res {
				fmt.Printf(" (shape %d edge %d dist %016x)", r.ShapeID(), r.EdgeID(), math.Float64bits(float64(r.Distance())))
			}
			fmt.Println()
		}
	}
	for _, lim := range []float64{2, 3} {
		for _, brute := range []bool{false, true} {
			opts := s2.NewFurthestEdgeQueryOptions().MaxResults(2).UseBruteForce(brute).DistanceLimit(s1.ChordAngle(lim))
			q := s2.NewFurthestEdgeQuery(index, opts)
			res := q.FindEdges(s2.NewMaxDistanceToPointTarget(p))
			fmt.Printf("limit=%v brute=%v maxResults=2:", lim, brute)
			for _, r := range res {
				fmt.Printf(" (shape %d edge %d dist %016x)", r.ShapeID(), r.EdgeID(), math.Float64bits(float64(r.Distance())))
			}
			fmt.Println()
		}
	}
	for _, c := range []s2.CellID{s2.CellIDFromFace(0), s2.CellIDFromFace(0).Children()[0], s2.CellIDFromFace(0).Children()[2]} {
		fmt.Printf("MaxDistance(cell %016x) = %016x\n", uint64(c), math.Float64bits(float64(s2.CellFromCellID(c).MaxDistance(p))))
	}
	d0, ok0 := s2.UpdateMaxDistance(p, a0, b0, s1.NegativeChordAngle)
	d1, ok1 := s2.UpdateMaxDistance(p, a1, b1, s1.NegativeChordAngle)
	fmt.Printf("UpdateMaxDistance edge0 = %016x %v, edge1 = %016x %v\n", math.Float64bits(float64(d0)), ok0, math.Float64bits(float64(d1)), ok1)
}
