package s2

import (
	"math"
	"math/big"
	"testing"

	"github.com/golang/geo/r3"
)

// Observation of sub-worker subE (package c16acc): |projection(...) - x.N| <= bound holds with
// slack (ratio <= 0.71 seen) in the normal range, but FAILS when |x - a_k|^2 underflows
// (|x - a_k| <~ 2^-537): the "dist" term of the bound is lost (and the sign of proj can be wrong).
func TestSubEProjectionBound(t *testing.T) {
	P := func(x, y, z uint64) Point {
		return Point{r3.Vector{X: math.Float64frombits(x), Y: math.Float64frombits(y), Z: math.Float64frombits(z)}}
	}
	rat := func(f float64) *big.Rat { return new(big.Rat).SetFloat64(f) }
	type V [3]*big.Rat
	vec := func(p Point) V { return V{rat(p.X), rat(p.Y), rat(p.Z)} }
	sub := func(a, b V) V {
		return V{new(big.Rat).Sub(a[0], b[0]), new(big.Rat).Sub(a[1], b[1]), new(big.Rat).Sub(a[2], b[2])}
	}
	add := func(a, b V) V {
		return V{new(big.Rat).Add(a[0], b[0]), new(big.Rat).Add(a[1], b[1]), new(big.Rat).Add(a[2], b[2])}
	}
	mul := func(a, b *big.Rat) *big.Rat { return new(big.Rat).Mul(a, b) }
	cross := func(a, b V) V {
		return V{new(big.Rat).Sub(mul(a[1], b[2]), mul(a[2], b[1])),
			new(big.Rat).Sub(mul(a[2], b[0]), mul(a[0], b[2])),
			new(big.Rat).Sub(mul(a[0], b[1]), mul(a[1], b[0]))}
	}
	dot := func(a, b V) *big.Rat {
		s := mul(a[0], b[0])
		s.Add(s, mul(a[1], b[1]))
		return s.Add(s, mul(a[2], b[2]))
	}
	cases := []struct {
		name      string
		a0, a1, x Point
		wantOK    bool
	}{
		{"normal range, largest ratio found (0.706)",
			P(0xbfb0fc9e9ffffff5, 0x3fa85e6bdffffffc, 0x3fefe4a41ff6a780), P(0xbfbe2d0685c057aa, 0xbfb7bab476dce40d, 0x3fefa35f4fc6284f),
			P(0x3fc48263d891cc89, 0xb9f0fc9bb46ce93b, 0x3fef96287510c91d), true},
		{"normal range, largest ratio found overall (0.7355, a nearly antipodal)",
			P(0xbfeffffff6fd91e9, 0xbd6fd0f5e0000000, 0x3f28033d3ae3e2c0), P(0x3feffeaea55310a0, 0x3f492386e9a84900, 0x3f92598323036271),
			P(0x3feee9d7de3ff099, 0xbfd06fd5fbbf2308, 0x3f9ce8238a0276e4), true},
		{"deep tiny: |x-a0| = 3e-211, ratio 270",
			P(0x826d07382f30ad1b, 0xbff0000000000000, 0x819002b20a08ebb1), P(0xbeec7dd6db39c315, 0xbfefffffff2321aa, 0xbf0cdb71f4c25360),
			P(0x9418b9e60e1ac39e, 0xbff0000000000000, 0x9439030b4d0110c8), false},
		{"deep tiny: |x-a0| = 4e-163, proj has the wrong sign",
			P(0x8705418a2e9a98bc, 0x3ff0000000000000, 0x1b4b85bbed104fec), P(0xbeb66f2720dc3e58, 0x3fefffffffffdebb, 0x3e958d057ee431a9),
			P(0x9e36e34e307f1dbc, 0x3ff0000000000000, 0x1e15fc99c41753ca), false},
	}
	for _, c := range cases {
		aNorm := c.a0.Sub(c.a1.Vector).Cross(c.a0.Add(c.a1.Vector))
		proj, bound := projection(c.x.Vector, aNorm, aNorm.Norm(), c.a0, c.a1)
		N := cross(sub(vec(c.a0), vec(c.a1)), add(vec(c.a0), vec(c.a1)))
		Pex := dot(vec(c.x), N)
		diff := new(big.Rat).Sub(rat(proj), Pex)
		diff.Abs(diff)
		ok := diff.Cmp(rat(bound)) <= 0
		pf, _ := Pex.Float64()
		df, _ := diff.Float64()
		t.Logf("%s: proj=%g exact=%g |diff|=%g bound=%g holds=%v", c.name, proj, pf, df, bound, ok)
		if ok != c.wantOK {
			t.Errorf("%s: bound holds=%v, expected %v", c.name, ok, c.wantOK)
		}
	}
}
