//go:build verif

package s2

import (
	"math"

	"github.com/golang/geo/r3"
)

// Hooks for sub-worker subE of package c16acc (scratch copy only).

func VerifStableSorted(a0, a1, b0, b1 Point) (Point, bool) {
	return intersectionStableSorted(a0, a1, b0, b1)
}

func VerifProjection(x, aNorm r3.Vector, aNormLen float64, a0, a1 Point) (proj, bound float64) {
	return projection(x, aNorm, aNormLen, a0, a1)
}

func VerifCanonicalEdges(a0, a1, b0, b1 Point) (Point, Point, Point, Point) {
	return canonicalEdges(a0, a1, b0, b1)
}

// StableDetail holds the intermediates of intersectionStableSorted.
type StableDetail struct {
	ANorm                              r3.Vector
	ANormLen, BLen                     float64
	B0Dist, B0Error, B1Dist, B1Error   float64
	DistSum, ErrorSum                  float64
	X                                  r3.Vector
	Err, XLen2, XLen                   float64
	Stage                              int // 0 accepted, 1 distSum<=errorSum, 2 xLen2 tiny, 3 err too big
	Pt                                 Point
}

// VerifStableDetail is a line-by-line copy of intersectionStableSorted that
// also returns the intermediates.
func VerifStableDetail(a0, a1, b0, b1 Point) StableDetail {
	var d StableDetail
	aNorm := a0.Sub(a1.Vector).Cross(a0.Add(a1.Vector))
	aNormLen := aNorm.Norm()
	bLen := b1.Sub(b0.Vector).Norm()
	d.ANorm, d.ANormLen, d.BLen = aNorm, aNormLen, bLen
	b0Dist, b0Error := projection(b0.Vector, aNorm, aNormLen, a0, a1)
	b1Dist, b1Error := projection(b1.Vector, aNorm, aNormLen, a0, a1)
	d.B0Dist, d.B0Error, d.B1Dist, d.B1Error = b0Dist, b0Error, b1Dist, b1Error
	distSum := math.Abs(b0Dist - b1Dist)
	errorSum := b0Error + b1Error
	d.DistSum, d.ErrorSum = distSum, errorSum
	if distSum <= errorSum {
		d.Stage = 1
		return d
	}
	x := b1.Mul(b0Dist).Sub(b0.Mul(b1Dist))
	tErr := roundingEpsilon(x.X)
	err := bLen*math.Abs(b0Dist*b1Error-b1Dist*b0Error)/
		(distSum-errorSum) + 2*distSum*tErr
	d.X, d.Err = x, err
	xLen2 := x.Norm2()
	d.XLen2 = xLen2
	if xLen2 < minNormalFloat64 {
		d.Stage = 2
		return d
	}
	xLen := math.Sqrt(xLen2)
	d.XLen = xLen
	maxError := intersectionError
	if err > (float64(maxError)-tErr)*xLen {
		d.Stage = 3
		return d
	}
	d.Pt = Point{x.Mul(1 / xLen)}
	return d
}
