// Experiment 3: tiny regime end to end + |r|-1 statistics of Intersection.
package main

import (
	"flag"
	"fmt"
	"math"
	"math/rand"
	"sort"
	"sync"

	"github.com/golang/geo/r3"
	"github.com/golang/geo/s2"
	"subexp/ex"
)

const U = ex.U

type Case struct {
	a0, a1, b0, b1 s2.Point // canonical
	stage          int
	stRatio        float64 // stable: sinErr/(8u) (if accepted)
	stNorm         float64 // stable: ||r|-1|/u
	inRatio        float64 // Intersection: sinErr/(8u)
	inNorm         float64 // Intersection: ||r|-1|/u
	res            s2.Point
	d              s2.StableDetail
	tag            string
}

func logU(r *rand.Rand, lo, hi float64) float64 {
	return math.Exp(math.Log(lo) + r.Float64()*(math.Log(hi)-math.Log(lo)))
}
func randUnit(r *rand.Rand) r3.Vector {
	for {
		v := r3.Vector{X: r.NormFloat64(), Y: r.NormFloat64(), Z: r.NormFloat64()}
		if v.Norm2() > 1e-4 {
			return v.Normalize()
		}
	}
}

// gnomonic plane point (y,z) -> sphere point near (1,0,0)
func gp(y, z float64) s2.Point {
	if math.Abs(y) < 1e-9 && math.Abs(z) < 1e-9 {
		return s2.Point{Vector: r3.Vector{X: 1, Y: y, Z: z}}
	}
	return s2.Point{Vector: r3.Vector{X: 1, Y: y, Z: z}.Normalize()}
}

func sg(r *rand.Rand) float64 {
	if r.Intn(2) == 0 {
		return -1
	}
	return 1
}

// genTiny: tiny regime around the axis point (1,0,0) (then permuted).
func genTiny(r *rand.Rand) (a0, a1, b0, b1 s2.Point, tag string, ok bool) {
	var y0, z0 float64
	switch r.Intn(3) {
	case 0:
	case 1:
		y0, z0 = sg(r)*logU(r, 1e-300, 1e-100), sg(r)*logU(r, 1e-300, 1e-100)
	default:
		y0, z0 = sg(r)*logU(r, 1e-170, 1e-140), sg(r)*logU(r, 1e-170, 1e-140)
	}
	a0 = gp(y0, z0)
	var la float64
	switch r.Intn(4) {
	case 0:
		la = logU(r, 1e-160, 1e-140)
	case 1:
		la = logU(r, 1e-140, 1e-10)
	case 2:
		la = logU(r, 1e-10, 1)
	default:
		la = logU(r, 1e-80, 1e-70)
	}
	if r.Intn(2) == 0 {
		la = logU(r, 1e-14, 1)
	}
	phi := r.Float64() * 2 * math.Pi
	a1 = gp(y0+la*math.Cos(phi), z0+la*math.Sin(phi))
	if a1.X <= 0 {
		return
	}
	// actual direction in the gnomonic plane
	ey, ez := a1.Y/a1.X-y0, a1.Z/a1.X-z0
	el := math.Hypot(ey, ez)
	if el == 0 || math.IsInf(el, 0) {
		return
	}
	ey, ez = ey/el, ez/el
	py, pz := -ez, ey
	// target |x| ~ T
	var T float64
	switch r.Intn(4) {
	case 0:
		T = logU(r, 1.2e-154, 3e-154) // right at the 2^-1022 threshold for xLen2 (sqrt = 1.49e-154)
	case 1:
		T = logU(r, 1e-158, 1e-150)
	case 2:
		T = logU(r, 1e-170, 1e-140)
	default:
		T = logU(r, 1e-150, 1e-100)
	}
	theta := logU(r, 1e-12, math.Pi/2)
	if r.Intn(3) == 0 {
		theta = logU(r, 0.1, math.Pi/2)
	}
	lb := T / (2 * la * math.Sin(theta))
	if lb > 1 || lb < 1e-300 {
		return
	}
	s := el * (0.05 + 0.9*r.Float64())
	if r.Intn(2) == 0 {
		s = logU(r, 1e-170, el*0.9)
	}
	cy, cz := y0+s*ey, z0+s*ez
	f := 0.05 + 0.9*r.Float64()
	if r.Intn(3) == 0 {
		f = logU(r, 1e-8, 0.5)
	}
	wy := ey*math.Cos(theta) + py*math.Sin(theta)
	wz := ez*math.Cos(theta) + pz*math.Sin(theta)
	b0 = gp(cy-f*lb*wy, cz-f*lb*wz)
	b1 = gp(cy+(1-f)*lb*wy, cz+(1-f)*lb*wz)
	if a0 == a1 || b0 == b1 {
		return
	}
	perm := r.Perm(3)
	sgn := [3]float64{sg(r), sg(r), sg(r)}
	ap := func(p s2.Point) s2.Point {
		c := [3]float64{p.X, p.Y, p.Z}
		var o [3]float64
		for i := 0; i < 3; i++ {
			o[perm[i]] = c[i] * sgn[i]
		}
		return s2.Point{Vector: r3.Vector{X: o[0], Y: o[1], Z: o[2]}}
	}
	a0, a1, b0, b1 = ap(a0), ap(a1), ap(b0), ap(b1)
	tag = fmt.Sprintf("tiny la=%.1e lb=%.1e th=%.1e T=%.1e", la, lb, theta, T)
	ok = true
	return
}

// genGeneric: generic crossing edges of varied lengths/angles.
func genGeneric(r *rand.Rand) (a0, a1, b0, b1 s2.Point, tag string, ok bool) {
	c := randUnit(r)
	if r.Intn(3) == 0 {
		m1, m2 := r.Float64()*30, r.Float64()*30
		c = r3.Vector{X: 1, Y: sg(r) * math.Pow(10, -m1), Z: sg(r) * math.Pow(10, -m2)}.Normalize()
		p := r.Perm(3)
		cc := [3]float64{c.X, c.Y, c.Z}
		c = r3.Vector{X: cc[p[0]], Y: cc[p[1]], Z: cc[p[2]]}
	}
	v := randUnit(r)
	u := v.Sub(c.Mul(v.Dot(c))).Normalize()
	n := c.Cross(u).Normalize()
	theta := logU(r, 1e-16, math.Pi/2)
	w := u.Mul(math.Cos(theta)).Add(n.Mul(math.Sin(theta)))
	mv := func(d r3.Vector, l float64) s2.Point {
		if l < 1e-8 {
			return s2.Point{Vector: c.Add(d.Mul(l))}
		}
		return s2.Point{Vector: c.Mul(math.Cos(l)).Add(d.Mul(math.Sin(l))).Normalize()}
	}
	a0 = mv(u.Mul(-1), logU(r, 1e-15, 1.5))
	a1 = mv(u, logU(r, 1e-15, 1.5))
	b0 = mv(w.Mul(-1), logU(r, 1e-15, 1.5))
	b1 = mv(w, logU(r, 1e-15, 1.5))
	if a0 == a1 || b0 == b1 {
		return
	}
	tag = fmt.Sprintf("generic th=%.1e", theta)
	ok = true
	return
}

func eval(a0, a1, b0, b1 s2.Point) (c Case, ok bool) {
	if !(ex.InContract(a0) && ex.InContract(a1) && ex.InContract(b0) && ex.InContract(b1)) {
		return
	}
	if s2.CrossingSign(a0, a1, b0, b1) != s2.Cross {
		return
	}
	a0, a1, b0, b1 = s2.VerifCanonicalEdges(a0, a1, b0, b1)
	d := s2.VerifStableDetail(a0, a1, b0, b1)
	pt, acc := s2.VerifStableSorted(a0, a1, b0, b1)
	if acc != (d.Stage == 0) || (acc && pt != d.Pt) {
		panic("detail copy disagrees")
	}
	c = Case{a0: a0, a1: a1, b0: b0, b1: b1, stage: d.Stage, d: d}
	X := ex.ExactX(a0, a1, b0, b1)
	if X.IsZero() {
		return c, false
	}
	if acc {
		c.stRatio = ex.SinBetween(ex.FP(pt), X) / (8 * U)
		c.stNorm = math.Abs(ex.NormMinus1(ex.FP(pt))) / U
	}
	res := s2.Intersection(a0, a1, b0, b1)
	c.res = res
	if math.IsNaN(res.X) || math.IsNaN(res.Y) || math.IsNaN(res.Z) || res.Vector == (r3.Vector{}) {
		c.inRatio = math.Inf(1)
		c.inNorm = math.Inf(1)
		return c, true
	}
	c.inRatio = ex.SinBetween(ex.FP(res), X) / (8 * U)
	c.inNorm = math.Abs(ex.NormMinus1(ex.FP(res))) / U
	return c, true
}

type Top struct {
	n  int
	cs []Case
	by func(Case) float64
}

func (t *Top) add(c Case) {
	if len(t.cs) < t.n || t.by(c) > t.by(t.cs[len(t.cs)-1]) {
		t.cs = append(t.cs, c)
		sort.Slice(t.cs, func(i, j int) bool { return t.by(t.cs[i]) > t.by(t.cs[j]) })
		if len(t.cs) > t.n {
			t.cs = t.cs[:t.n]
		}
	}
}

func printCase(c Case) {
	fmt.Printf("  stage=%d stable: sinErr/(8u)=%.5f ||r|-1|/u=%.4f   Intersection: sinErr/(8u)=%.5f ||r|-1|/u=%.4f  tag=%s\n", c.stage, c.stRatio, c.stNorm, c.inRatio, c.inNorm, c.tag)
	fmt.Printf("    a0 %s\n    a1 %s\n    b0 %s\n    b1 %s\n    Intersection = %s\n", ex.Hex(c.a0), ex.Hex(c.a1), ex.Hex(c.b0), ex.Hex(c.b1), ex.Hex(c.res))
	d := c.d
	fmt.Printf("    b0Dist=%g b0Err=%g b1Dist=%g b1Err=%g err=%g xLen2=%g bLen=%g aNormLen=%g\n", d.B0Dist, d.B0Error, d.B1Dist, d.B1Error, d.Err, d.XLen2, d.BLen, d.ANormLen)
}

func main() {
	nPer := flag.Int("n", 100000, "configs per worker")
	workers := flag.Int("w", 16, "workers")
	seed := flag.Int64("seed", 1, "seed")
	generic := flag.Bool("generic", false, "generic generator")
	climbIters := flag.Int("climb", 0, "hill-climb iterations on ||r|-1| (Intersection) for top cases")
	flag.Parse()
	var mu sync.Mutex
	var wg sync.WaitGroup
	mk := func(f func(Case) float64) Top { return Top{n: 4, by: f} }
	tops := map[string]*Top{}
	for k, f := range map[string]func(Case) float64{
		"stable sinErr/(8u)":       func(c Case) float64 { return c.stRatio },
		"stable ||r|-1|/u":         func(c Case) float64 { return c.stNorm },
		"Intersection sinErr/(8u)": func(c Case) float64 { return c.inRatio },
		"Intersection ||r|-1|/u":   func(c Case) float64 { return c.inNorm },
		"stable accepted, smallest xLen2 (as -log)": func(c Case) float64 {
			if c.stage == 0 {
				return -math.Log(c.d.XLen2)
			}
			return -1e9
		},
		"stable accepted with bLen^2 subnormal: sinErr/(8u)": func(c Case) float64 {
			if c.stage == 0 && c.d.BLen*c.d.BLen < 0x1p-1022 {
				return c.stRatio
			}
			return -1
		},
	} {
		t := mk(f)
		tops[k] = &t
	}
	var stages [4]int
	total, gen := 0, 0
	nearThresh := 0
	var blZero, blZeroAcc, blSub, blSubAcc int
	for w := 0; w < *workers; w++ {
		wg.Add(1)
		go func(w int) {
			defer wg.Done()
			r := rand.New(rand.NewSource(*seed*1000 + int64(w)))
			local := []Case{}
			var lst [4]int
			lt, lg, lnear := 0, 0, 0
			flush := func() {
				mu.Lock()
				for _, c := range local {
					for _, t := range tops {
						t.add(c)
					}
				}
				mu.Unlock()
				local = local[:0]
			}
			for i := 0; i < *nPer; i++ {
				var a0, a1, b0, b1 s2.Point
				var tag string
				var ok bool
				if *generic {
					a0, a1, b0, b1, tag, ok = genGeneric(r)
				} else {
					a0, a1, b0, b1, tag, ok = genTiny(r)
				}
				if !ok {
					continue
				}
				lg++
				c, ok := eval(a0, a1, b0, b1)
				if !ok {
					continue
				}
				c.tag = tag
				lt++
				lst[c.stage]++
				if c.stage == 0 && c.d.XLen2 < 0x1p-1012 {
					lnear++
				}
				{
					bl2 := c.b1.Sub(c.b0.Vector).Norm2()
					mu.Lock()
					if bl2 == 0 {
						blZero++
						if c.stage == 0 {
							blZeroAcc++
						}
					} else if bl2 < 0x1p-1022 {
						blSub++
						if c.stage == 0 {
							blSubAcc++
						}
					}
					mu.Unlock()
				}
				if c.stRatio > 1 || c.inRatio > 1 || c.stNorm > 5 || c.inNorm > 5 {
					mu.Lock()
					fmt.Println("VIOLATION:")
					printCase(c)
					mu.Unlock()
				}
				local = append(local, c)
				if len(local) >= 2000 {
					flush()
				}
			}
			flush()
			mu.Lock()
			for i := range stages {
				stages[i] += lst[i]
			}
			total += lt
			gen += lg
			nearThresh += lnear
			mu.Unlock()
		}(w)
	}
	wg.Wait()
	fmt.Printf("generated=%d valid(in-contract, Cross)=%d  stable stages: accepted=%d distSum<=errorSum=%d xLen2<minNormal=%d errTooBig=%d; accepted with xLen2<2^-1012: %d\n",
		gen, total, stages[0], stages[1], stages[2], stages[3], nearThresh)
	if *climbIters > 0 {
		for _, key := range []string{"Intersection ||r|-1|/u", "Intersection sinErr/(8u)"} {
			src := tops[key].cs
			res := make([]Case, len(src))
			obj := tops[key].by
			for i := range src {
				wg.Add(1)
				go func(i int) {
					defer wg.Done()
					r := rand.New(rand.NewSource(*seed*991 + int64(i)))
					best := src[i]
					for it := 0; it < *climbIters; it++ {
						pts := [4]s2.Point{best.a0, best.a1, best.b0, best.b1}
						nm := 1 + r.Intn(3)
						for j := 0; j < nm; j++ {
							pi := r.Intn(4)
							k := 1 + r.Intn(3)
							if r.Intn(3) == 0 {
								k = 1 << uint(r.Intn(45))
							}
							p := pts[pi]
							switch r.Intn(3) {
							case 0:
								p.X = ex.AddUlps(p.X, r.Intn(2*k+1)-k)
							case 1:
								p.Y = ex.AddUlps(p.Y, r.Intn(2*k+1)-k)
							default:
								p.Z = ex.AddUlps(p.Z, r.Intn(2*k+1)-k)
							}
							pts[pi] = p
						}
						if pts[0] == pts[1] || pts[2] == pts[3] {
							continue
						}
						n, ok := eval(pts[0], pts[1], pts[2], pts[3])
						if !ok {
							continue
						}
						n.tag = best.tag
						if obj(n) > obj(best) {
							best = n
						}
					}
					best.tag += "+climb"
					res[i] = best
				}(i)
			}
			wg.Wait()
			fmt.Printf("CLIMBED by %s:\n", key)
			for _, c := range res {
				printCase(c)
			}
		}
	}
	fmt.Printf("bLen^2 == 0 (underflow): %d cases, accepted by stable: %d;  bLen^2 subnormal: %d cases, accepted: %d\n", blZero, blZeroAcc, blSub, blSubAcc)
	keys := []string{}
	for k := range tops {
		keys = append(keys, k)
	}
	sort.Strings(keys)
	for _, k := range keys {
		fmt.Printf("TOP by %s:\n", k)
		for _, c := range tops[k].cs {
			printCase(c)
		}
	}
}
