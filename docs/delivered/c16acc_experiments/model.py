# Model-level check: worst-case |t~ - t| over P0 in [d0-e0,d0+e0], P1 in [d1-e1,d1+e1] with P0>=0>=P1
# versus the formula |d0 e1 - d1 e0| / (distSum (distSum - errSum)), for same-sign d0,d1>0.
import random, math
from fractions import Fraction as Fr
random.seed(1)
best=(0,None)
def worst(d0,d1,e0,e1):
    tt=d0/(d0-d1)
    w=0
    lo0=max(0.0,d0-e0); hi0=d0+e0
    lo1=d1-e1; hi1=min(0.0,d1+e1)
    if lo1>hi1: return None
    for P0 in (lo0,hi0):
        for P1 in (lo1,hi1):
            if P0-P1<=0: continue
            t=P0/(P0-P1)
            w=max(w,abs(tt-t))
    return w
for it in range(3000000):
    e1=1.0
    e0=10**random.uniform(-6,6)
    d1=random.random()*e1
    if random.random()<0.3: d1=e1*(1-10**random.uniform(-8,0))
    g=10**random.uniform(-6,6)
    big=random.random()<0.5
    if big:
        d0=d1+e0+e1+g       # d0>d1
    else:
        # d1>d0 impossible with d1<=e1 and distSum>e0+e1
        d0=d1+e0+e1+g
    S=abs(d0-d1); ES=e0+e1
    if S<=ES: continue
    f=abs(d0*e1-d1*e0)/(S*(S-ES))
    w=worst(d0,d1,e0,e1)
    if w is None or f==0: continue
    R=w/f
    if R>best[0]:
        best=(R,(d0,d1,e0,e1,g))
print("max worstTrue/formula =",best)
