# Model-level check of the interpolation-fraction error formula used by intersectionStableSorted:
#   claimed: |t~ - t| <= |d0 e1 - d1 e0| / (S (S - E)),  S=|d0-d1|, E=e0+e1, accepted only if S>E
# where t~ = d0/(d0-d1), t = P0/(P0-P1), |P_i - d_i| <= e_i, and (in contract) P0 >= 0 >= P1 (or reversed).
import random
random.seed(7)
def worst(d0,d1,e0,e1):
    tt=d0/(d0-d1); w=0.0
    for sgn in (1,-1):           # P0>=0>=P1  or  P0<=0<=P1
        if sgn==1:
            lo0,hi0=max(0.0,d0-e0),d0+e0; lo1,hi1=d1-e1,min(0.0,d1+e1)
        else:
            lo0,hi0=d0-e0,min(0.0,d0+e0); lo1,hi1=max(0.0,d1-e1),d1+e1
        if lo0>hi0 or lo1>hi1: continue
        for P0 in (lo0,hi0):
            for P1 in (lo1,hi1):
                if P0==P1: continue
                w=max(w,abs(tt-P0/(P0-P1)))
    return w
best={'same':(0,None),'opp':(0,None)}
cnt={'same':0,'opp':0}
for it in range(4000000):
    e0=10**random.uniform(-6,6); e1=10**random.uniform(-6,6)
    d0=10**random.uniform(-7,7); d1=10**random.uniform(-7,7)
    if random.random()<0.5: d1=-d1
    if random.random()<0.3:  # near the acceptance boundary
        g=10**random.uniform(-6,2)
        d0=d1+e0+e1+g
        if d0<=0: continue
    S=abs(d0-d1); E=e0+e1
    if S<=E: continue
    f=abs(d0*e1-d1*e0)/(S*(S-E))
    w=worst(d0,d1,e0,e1)
    if w==0: continue
    k='same' if d0*d1>0 else 'opp'
    cnt[k]+=1
    if f==0: R=float('inf')
    else: R=w/f
    if R>best[k][0]: best[k]=(R,(d0,d1,e0,e1))
print(cnt); print(best)
