// Experiment 1: same-sign regime and near-threshold regime of intersectionStableSorted.
package main

import (
	"flag"
	"fmt"
	"math"
	"math/rand"
	"os"
	"sort"
	"strings"
	"sync"

	"github.com/golang/geo/r3"
	"github.com/golang/geo/s2"
	"subexp/ex"
)

const U = ex.U
const claim = 8 * U

type Case struct {
	a0, a1, b0, b1 s2.Point // canonical order
	ratio          float64  // sinErr/(8u)
	estRatio       float64  // sinErr/(err/xLen + u)  (library's own estimate incl. the normalisation allowance)
	xRound         float64  // perpendicular rounding error of x = b1*d0 - b0*d1 divided by 2*distSum*u
	interpRatio    float64  // true |t~-t|*|b1-b0|*|d0-d1| / first term of err
	same           bool
	nearThr        bool
	theta, L, s    float64
	tag            string
	d              s2.StableDetail
}

func randUnit(r *rand.Rand) r3.Vector {
	for {
		v := r3.Vector{X: r.NormFloat64(), Y: r.NormFloat64(), Z: r.NormFloat64()}
		if v.Norm2() > 1e-4 {
			return v.Normalize()
		}
	}
}

func logU(r *rand.Rand, lo, hi float64) float64 {
	return math.Exp(math.Log(lo) + r.Float64()*(math.Log(hi)-math.Log(lo)))
}

func perturb(r *rand.Rand, p s2.Point, k int) s2.Point {
	if k == 0 {
		return p
	}
	return s2.Point{Vector: r3.Vector{
		X: ex.AddUlps(p.X, r.Intn(2*k+1)-k),
		Y: ex.AddUlps(p.Y, r.Intn(2*k+1)-k),
		Z: ex.AddUlps(p.Z, r.Intn(2*k+1)-k)}}
}

var focusP = 0.0
var ulpP = 0.0
var antiP = 0.0
var topN = 5
var extremeP = 0.0

var ks = []int{0, 0, 0, 1, 1, 2, 3, 5, 10, 20}

func permute(r *rand.Rand, v r3.Vector) r3.Vector {
	c := [3]float64{v.X, v.Y, v.Z}
	r.Shuffle(3, func(i, j int) { c[i], c[j] = c[j], c[i] })
	for i := range c {
		if r.Intn(2) == 0 {
			c[i] = -c[i]
		}
	}
	return r3.Vector{X: c[0], Y: c[1], Z: c[2]}
}

// gen produces one configuration (not yet canonical).
func addU(p s2.Point, i, j, k int) s2.Point {
	return s2.Point{Vector: r3.Vector{X: ex.AddUlps(p.X, i), Y: ex.AddUlps(p.Y, j), Z: ex.AddUlps(p.Z, k)}}
}

// genUlp: few-ulp edges b in generic position (coarse lattice).
func genUlp(r *rand.Rand) (a0, a1, b0, b1 s2.Point, theta, L, s float64, tag string, ok bool) {
	ak := s2.Point{Vector: randUnit(r)}
	Ks := []int{1, 1, 2, 3, 5, 8, 12, 20, 30, 50, 100, 300}
	K := Ks[r.Intn(len(Ks))]
	if r.Intn(2) == 0 {
		// chord family: b1 exactly on the chord of a (P1 = 0 exactly when no binade is crossed)
		m := 1 + r.Intn(12)
		i, j, k := r.Intn(17)-8, r.Intn(17)-8, r.Intn(17)-8
		if i == 0 && j == 0 && k == 0 {
			return
		}
		ao := addU(ak, i<<uint(m), j<<uint(m), k<<uint(m))
		t := 1 + r.Intn((1<<uint(m))-1)
		b1 = addU(ak, i*t, j*t, k*t)
		if r.Intn(4) == 0 {
			b1 = perturb(r, b1, 1)
		}
		b0 = perturb(r, b1, K)
		a0, a1 = ak, ao
		tag = "chord"
		L = float64(K) * U
		s = float64(t) * U
	} else {
		v := randUnit(r)
		u := v.Sub(ak.Mul(v.Dot(ak.Vector))).Normalize()
		la := logU(r, 0.01, 3)
		ao := s2.Point{Vector: ak.Mul(math.Cos(la)).Add(u.Mul(math.Sin(la))).Normalize()}
		s = la * (0.01 + 0.49*r.Float64())
		if r.Intn(2) == 0 {
			s = logU(r, 1e-4, la/2)
		}
		diff := ao.Sub(ak.Vector)
		u2 := diff.Sub(ak.Mul(diff.Dot(ak.Vector))).Normalize()
		b1 = s2.Point{Vector: ak.Mul(math.Cos(s)).Add(u2.Mul(math.Sin(s))).Normalize()}
		if r.Intn(3) == 0 {
			b1 = perturb(r, b1, 1)
		}
		b0 = perturb(r, b1, K)
		a0, a1 = ak, ao
		tag = "longa-ulp"
		L = float64(K) * U
	}
	if b0 == b1 || a0 == a1 {
		return
	}
	ok = true
	return
}

func gen(r *rand.Rand) (a0, a1, b0, b1 s2.Point, theta, L, s float64, tag string, ok bool) {
	if r.Float64() < ulpP {
		return genUlp(r)
	}
	var ak s2.Point
	mode := r.Intn(10)
	focus := r.Float64() < focusP
	if focus && mode < 4 {
		mode = 4 + r.Intn(6)
	}
	switch {
	case focus && mode < 9:
		m1 := 14 + r.Float64()*16
		m2 := 14 + r.Float64()*16
		v := r3.Vector{X: 1, Y: math.Pow(10, -m1) * (1 + 9*r.Float64()), Z: math.Pow(10, -m2) * (1 + 9*r.Float64())}
		if r.Intn(8) == 0 {
			v.Z = 0
		}
		ak = s2.Point{Vector: permute(r, v.Normalize())}
		tag = "focus-nearaxis"
	case mode < 4:
		ak = s2.Point{Vector: randUnit(r)}
		tag = "generic"
	case mode < 9:
		m1 := r.Float64() * 30
		m2 := m1
		if r.Intn(2) == 0 {
			m2 = r.Float64() * 30
		}
		v := r3.Vector{X: 1, Y: math.Pow(10, -m1) * (1 + 9*r.Float64()), Z: math.Pow(10, -m2) * (1 + 9*r.Float64())}
		if r.Intn(8) == 0 {
			v.Z = 0
		}
		ak = s2.Point{Vector: permute(r, v.Normalize())}
		tag = "nearaxis"
	default:
		ak = s2.Point{Vector: permute(r, r3.Vector{X: 1, Y: 0, Z: 0})}
		tag = "axis"
	}
	// tangent
	v := randUnit(r)
	u := v.Sub(ak.Mul(v.Dot(ak.Vector))).Normalize()
	la := logU(r, 1e-15, 3)
	if r.Intn(3) == 0 {
		la = logU(r, 0.05, 3)
	}
	if antiP > 0 && r.Float64() < antiP {
		la = math.Pi - logU(r, 1e-15, 0.1)
		tag += "+antip"
	}
	var ao s2.Point
	if la < 1e-8 {
		ao = s2.Point{Vector: ak.Add(u.Mul(la))}
	} else {
		ao = s2.Point{Vector: ak.Mul(math.Cos(la)).Add(u.Mul(math.Sin(la))).Normalize()}
	}
	if ao == ak {
		return
	}
	// actual tangent from rounded points
	diff := ao.Sub(ak.Vector)
	u2 := diff.Sub(ak.Mul(diff.Dot(ak.Vector)))
	if u2.Norm2() == 0 {
		return
	}
	u2 = u2.Normalize()
	aN := ak.Sub(ao.Vector).Cross(ak.Add(ao.Vector))
	if aN.Norm2() == 0 {
		return
	}
	// n = unit normal with n = ak x u2 direction (aN = 2 ak x ao)
	n := aN.Normalize()

	// point on a
	smode := r.Intn(10)
	switch {
	case smode < 2:
		s = 0
	case smode < 6:
		s = logU(r, 1e-16, la/2+1e-16)
	default:
		s = la * (0.02 + 0.96*r.Float64())
	}
	if s > la {
		s = la / 2
	}
	if focus {
		s = logU(r, 1e-17, 1e-14)
		if s > la/2 {
			s = la / 2
		}
		if tag == "axis" {
			tag = "focus-axis"
		}
	}
	var c r3.Vector
	if s < 1e-8 {
		c = ak.Add(u2.Mul(s))
	} else {
		c = ak.Mul(math.Cos(s)).Add(u2.Mul(math.Sin(s))).Normalize()
	}
	b1 = perturb(r, s2.Point{Vector: c}, ks[r.Intn(len(ks))])
	if s == 0 {
		for b1 == ak {
			b1 = perturb(r, ak, 1+r.Intn(10))
		}
	}
	// exact side of b1
	N := ex.ExactN(ak, ao)
	sg := ex.FP(b1).Dot(N).Sign()
	if sg == 0 {
		sg = 1 - 2*r.Intn(2)
	}
	// theta
	if r.Intn(2) == 0 {
		theta = logU(r, 1e-16, 1e-6)
	} else {
		theta = math.Max(s, 1e-16) * math.Pow(10, -1+4*r.Float64())
		if theta > 1 {
			theta = 1
		}
	}
	if focus {
		theta = logU(r, 5e-16, 1e-12)
	}
	L = logU(r, 1e-15, 1)
	if L > la && r.Intn(5) != 0 {
		L = la * r.Float64()
		if L < 1e-15 {
			L = 1e-15
		}
	}
	dir := 1.0
	if s > 0 && r.Intn(3) == 0 {
		dir = -1
	}
	w := u2.Mul(dir * math.Cos(theta)).Add(n.Mul(-float64(sg) * math.Sin(theta)))
	if L < 1e-8 {
		b0 = s2.Point{Vector: b1.Add(w.Mul(L))}
	} else {
		b0 = s2.Point{Vector: b1.Mul(math.Cos(L)).Add(w.Mul(math.Sin(L))).Normalize()}
	}
	if r.Intn(3) == 0 {
		b0 = perturb(r, b0, ks[r.Intn(len(ks))])
	}
	if b0 == b1 {
		return
	}
	a0, a1 = ak, ao
	if extremeP > 0 && r.Float64() < extremeP {
		a0, a1, b0, b1 = extreme(r, a0), extreme(r, a1), extreme(r, b0), extreme(r, b1)
		tag += "+extreme"
	}
	ok = true
	return
}

// extreme moves p so that |p| is close to 1 +- 2^-51 (the limits of the contract).
func extreme(r *rand.Rand, p s2.Point) s2.Point {
	k := 4
	if r.Intn(2) == 0 {
		k = -4
	}
	q := p
	for i := 0; i < 8; i++ {
		t := s2.Point{Vector: r3.Vector{X: ex.AddUlps(q.X, k), Y: ex.AddUlps(q.Y, k), Z: ex.AddUlps(q.Z, k)}}
		if !ex.InContract(t) {
			k /= 2
			if k == 0 {
				break
			}
			continue
		}
		q = t
	}
	return q
}

func evalCase(a0, a1, b0, b1 s2.Point) (c Case, ok bool) {
	a0, a1, b0, b1 = s2.VerifCanonicalEdges(a0, a1, b0, b1)
	d := s2.VerifStableDetail(a0, a1, b0, b1)
	if d.Stage != 0 {
		return
	}
	if !(ex.InContract(a0) && ex.InContract(a1) && ex.InContract(b0) && ex.InContract(b1)) {
		return
	}
	if s2.CrossingSign(a0, a1, b0, b1) != s2.Cross {
		return
	}
	pt, acc := s2.VerifStableSorted(a0, a1, b0, b1)
	if !acc || pt != d.Pt {
		panic("detail copy disagrees with library")
	}
	X := ex.ExactX(a0, a1, b0, b1)
	if X.IsZero() {
		return
	}
	sinErr := ex.SinBetween(ex.FP(pt), X)
	c = Case{a0: a0, a1: a1, b0: b0, b1: b1, d: d}
	c.ratio = sinErr / claim
	c.estRatio = sinErr / (d.Err/d.XLen + U)
	{
		xt := ex.FP(b1).Scale(ex.F(d.B0Dist)).Sub(ex.FP(b0).Scale(ex.F(d.B1Dist)))
		if !xt.IsZero() {
			c.xRound = ex.SinBetween(ex.FV(d.X), xt) * d.XLen / (2 * d.DistSum * U)
		}
	}
	{
		// (c): true interpolation error (scaled by distSum) against the first term of err.
		N := ex.ExactN(a0, a1)
		P0, P1 := ex.FP(b0).Dot(N), ex.FP(b1).Dot(N)
		d0, d1 := ex.F(d.B0Dist), ex.F(d.B1Dist)
		num := P0.Mul(d1).Sub(d0.Mul(P1)).Abs()
		den := P0.Sub(P1).Abs()
		t1 := d.BLen * math.Abs(d.B0Dist*d.B1Error-d.B1Dist*d.B0Error) / (d.DistSum - d.ErrorSum)
		if den.Sign() != 0 && t1 > 0 {
			bl := math.Sqrt(ex.FP(b1).Sub(ex.FP(b0)).Norm2().F64())
			c.interpRatio = ex.Ratio(num, den) * bl / t1
		}
	}
	c.same = d.B0Dist*d.B1Dist > 0
	thr := (claim - U) * d.XLen
	c.nearThr = !c.same && d.Err >= 0.8*thr
	return c, true
}

type Top struct {
	n  int
	cs []Case
	by func(Case) float64
}

func (t *Top) add(c Case) {
	if len(t.cs) < t.n || t.by(c) > t.by(t.cs[len(t.cs)-1]) {
		t.cs = append(t.cs, c)
		sort.Slice(t.cs, func(i, j int) bool { return t.by(t.cs[i]) > t.by(t.cs[j]) })
		if len(t.cs) > t.n {
			t.cs = t.cs[:t.n]
		}
	}
}

type Stats struct {
	gen, accepted, valid, same, nearThr int
	sameExactZero                       int
	topSame, topNear, topAll, topEst    Top
	topInterpSame, topInterpOpp         Top
	topXRSame, topXROpp                 Top
	histInterpSame, histInterpOpp       [14]int
	decTheta                            map[int]float64 // max same-sign ratio per decade of theta
	decL                                map[int]float64
	decS                                map[int]float64
	cntTheta                            map[int]int
	hist                                [12]int // histogram of same-sign ratio in steps of 0.1
	histNear                            [12]int
	tagSame                             map[string]int
}

func newStats() *Stats {
	s := &Stats{decTheta: map[int]float64{}, decL: map[int]float64{}, decS: map[int]float64{}, cntTheta: map[int]int{}, tagSame: map[string]int{}}
	s.topSame = Top{n: topN, by: func(c Case) float64 {
		if c.same {
			return c.ratio
		}
		return -1
	}}
	s.topNear = Top{n: topN, by: func(c Case) float64 {
		if c.nearThr {
			return c.ratio
		}
		return -1
	}}
	s.topAll = Top{n: topN, by: func(c Case) float64 { return c.ratio }}
	s.topEst = Top{n: topN, by: func(c Case) float64 { return c.estRatio }}
	s.topXRSame = Top{n: 3, by: func(c Case) float64 {
		if c.same {
			return c.xRound
		}
		return -1
	}}
	s.topXROpp = Top{n: 3, by: func(c Case) float64 {
		if !c.same {
			return c.xRound
		}
		return -1
	}}
	s.topInterpSame = Top{n: topN, by: func(c Case) float64 {
		if c.same {
			return c.interpRatio
		}
		return -1
	}}
	s.topInterpOpp = Top{n: topN, by: func(c Case) float64 {
		if !c.same {
			return c.interpRatio
		}
		return -1
	}}
	return s
}

func dec(x float64) int {
	if x <= 0 {
		return -99
	}
	return int(math.Floor(math.Log10(x)))
}

func (s *Stats) record(c Case) {
	s.valid++
	s.topAll.add(c)
	s.topEst.add(c)
	{
		h := int(c.interpRatio * 10)
		if h > 13 || c.interpRatio > 1.3 {
			h = 13
		}
		if c.same {
			s.topXRSame.add(c)
		} else {
			s.topXROpp.add(c)
		}
		if c.same {
			s.topInterpSame.add(c)
			s.histInterpSame[h]++
		} else {
			s.topInterpOpp.add(c)
			s.histInterpOpp[h]++
		}
	}
	if c.same {
		s.same++
		s.topSame.add(c)
		k := dec(c.theta)
		if c.ratio > s.decTheta[k] {
			s.decTheta[k] = c.ratio
		}
		s.cntTheta[k]++
		k = dec(c.L)
		if c.ratio > s.decL[k] {
			s.decL[k] = c.ratio
		}
		k = dec(c.s)
		if c.ratio > s.decS[k] {
			s.decS[k] = c.ratio
		}
		h := int(c.ratio * 10)
		if h > 11 {
			h = 11
		}
		s.hist[h]++
		s.tagSame[c.tag]++
	}
	if c.nearThr {
		s.nearThr++
		s.topNear.add(c)
		h := int(c.ratio * 10)
		if h > 11 {
			h = 11
		}
		s.histNear[h]++
	}
}

func (s *Stats) merge(o *Stats) {
	s.gen += o.gen
	s.accepted += o.accepted
	s.valid += o.valid
	s.same += o.same
	s.nearThr += o.nearThr
	for _, c := range o.topSame.cs {
		s.topSame.add(c)
	}
	for _, c := range o.topNear.cs {
		s.topNear.add(c)
	}
	for _, c := range o.topAll.cs {
		s.topAll.add(c)
	}
	for _, c := range o.topEst.cs {
		s.topEst.add(c)
	}
	for _, c := range o.topInterpSame.cs {
		s.topInterpSame.add(c)
	}
	for _, c := range o.topXRSame.cs {
		s.topXRSame.add(c)
	}
	for _, c := range o.topXROpp.cs {
		s.topXROpp.add(c)
	}
	for _, c := range o.topInterpOpp.cs {
		s.topInterpOpp.add(c)
	}
	for i := range s.histInterpSame {
		s.histInterpSame[i] += o.histInterpSame[i]
		s.histInterpOpp[i] += o.histInterpOpp[i]
	}
	for k, v := range o.decTheta {
		if v > s.decTheta[k] {
			s.decTheta[k] = v
		}
	}
	for k, v := range o.cntTheta {
		s.cntTheta[k] += v
	}
	for k, v := range o.decL {
		if v > s.decL[k] {
			s.decL[k] = v
		}
	}
	for k, v := range o.decS {
		if v > s.decS[k] {
			s.decS[k] = v
		}
	}
	for i := range s.hist {
		s.hist[i] += o.hist[i]
		s.histNear[i] += o.histNear[i]
	}
	for k, v := range o.tagSame {
		s.tagSame[k] += v
	}
}

func printCase(c Case) {
	fmt.Printf("  ratio=sinErr/(8u)=%.6f  sinErr/estimate=%.6f interpErr/firstTerm=%.6f xRound/(2distSum u)=%.4f same=%v nearThr=%v tag=%s theta=%.3g L=%.3g s=%.3g\n", c.ratio, c.estRatio, c.interpRatio, c.xRound, c.same, c.nearThr, c.tag, c.theta, c.L, c.s)
	fmt.Printf("    a0 %s\n    a1 %s\n    b0 %s\n    b1 %s\n", ex.Hex(c.a0), ex.Hex(c.a1), ex.Hex(c.b0), ex.Hex(c.b1))
	d := c.d
	fmt.Printf("    b0Dist=%g b0Err=%g b1Dist=%g b1Err=%g err=%g xLen=%g thr=%g bLen=%g aNormLen=%g\n", d.B0Dist, d.B0Error, d.B1Dist, d.B1Error, d.Err, d.XLen, (claim-U)*d.XLen, d.BLen, d.ANormLen)
	fmt.Printf("    result %s\n", ex.Hex(d.Pt))
}

// climb does random local search maximising key over ulp perturbations.
func climb(r *rand.Rand, c Case, iters int, key func(Case) float64, needSame bool) Case {
	best := c
	for i := 0; i < iters; i++ {
		pts := [4]s2.Point{best.a0, best.a1, best.b0, best.b1}
		nm := 1 + r.Intn(3)
		for j := 0; j < nm; j++ {
			pi := r.Intn(4)
			k := 1 + r.Intn(3)
			if r.Intn(3) == 0 {
				k = 1 << uint(r.Intn(40))
			}
			p := pts[pi]
			switch r.Intn(3) {
			case 0:
				p.X = ex.AddUlps(p.X, r.Intn(2*k+1)-k)
			case 1:
				p.Y = ex.AddUlps(p.Y, r.Intn(2*k+1)-k)
			default:
				p.Z = ex.AddUlps(p.Z, r.Intn(2*k+1)-k)
			}
			pts[pi] = p
		}
		if pts[0] == pts[1] || pts[2] == pts[3] {
			continue
		}
		n, ok := evalCase(pts[0], pts[1], pts[2], pts[3])
		if !ok {
			continue
		}
		if needSame && !n.same {
			continue
		}
		n.tag, n.theta, n.L, n.s = strings.TrimSuffix(c.tag, "+climb")+"+climb", best.theta, best.L, best.s
		if key(n) > key(best) {
			best = n
		}
	}
	return best
}

func main() {
	nPer := flag.Int("n", 200000, "configs per worker")
	workers := flag.Int("w", 16, "workers")
	seed := flag.Int64("seed", 1, "seed")
	flag.Float64Var(&focusP, "focus", 0, "probability of focused generator")
	flag.Float64Var(&ulpP, "ulp", 0, "probability of few-ulp-edge generator")
	flag.IntVar(&topN, "top", 5, "size of top lists (= number of climb starts per category)")
	flag.Float64Var(&antiP, "antip", 0, "probability of a nearly antipodal edge a")
	flag.Float64Var(&extremeP, "extreme", 0, "probability of pushing all norms to the contract limits")
	climbIters := flag.Int("climb", 20000, "hill-climb iterations per top case")
	flag.Parse()
	total := newStats()
	var mu sync.Mutex
	var wg sync.WaitGroup
	for w := 0; w < *workers; w++ {
		wg.Add(1)
		go func(w int) {
			defer wg.Done()
			r := rand.New(rand.NewSource(*seed*1000 + int64(w)))
			st := newStats()
			for i := 0; i < *nPer; i++ {
				a0, a1, b0, b1, theta, L, s, tag, ok := gen(r)
				if !ok {
					continue
				}
				st.gen++
				c, ok := evalCase(a0, a1, b0, b1)
				if !ok {
					continue
				}
				c.theta, c.L, c.s, c.tag = theta, L, s, tag
				st.record(c)
				if c.ratio > 1 {
					mu.Lock()
					fmt.Println("DEFECT candidate:")
					printCase(c)
					mu.Unlock()
				}
			}
			mu.Lock()
			total.merge(st)
			mu.Unlock()
		}(w)
	}
	wg.Wait()
	fmt.Printf("generated=%d valid(accepted,in-contract,Cross)=%d same-sign=%d near-threshold(opposite sign)=%d\n", total.gen, total.valid, total.same, total.nearThr)
	fmt.Printf("same-sign by tag: %v\n", total.tagSame)
	fmt.Printf("same-sign ratio histogram (bins of 0.1): %v\n", total.hist)
	fmt.Printf("near-thr  ratio histogram (bins of 0.1): %v\n", total.histNear)
	pr := func(name string, m map[int]float64, cnt map[int]int) {
		keys := []int{}
		for k := range m {
			keys = append(keys, k)
		}
		sort.Ints(keys)
		fmt.Printf("max same-sign ratio per decade of %s:\n", name)
		for _, k := range keys {
			if cnt != nil {
				fmt.Printf("   1e%d: %.4f (n=%d)\n", k, m[k], cnt[k])
			} else {
				fmt.Printf("   1e%d: %.4f\n", k, m[k])
			}
		}
	}
	pr("theta", total.decTheta, total.cntTheta)
	pr("L", total.decL, nil)
	pr("s", total.decS, nil)
	fmt.Println("TOP same-sign:")
	for _, c := range total.topSame.cs {
		printCase(c)
	}
	fmt.Println("TOP near-threshold (opposite sign):")
	for _, c := range total.topNear.cs {
		printCase(c)
	}
	fmt.Println("TOP overall:")
	for _, c := range total.topAll.cs {
		printCase(c)
	}
	fmt.Printf("interpErr/firstTerm histogram same-sign (bins 0.1, last >1.3): %v\n", total.histInterpSame)
	fmt.Printf("interpErr/firstTerm histogram opp-sign  (bins 0.1, last >1.3): %v\n", total.histInterpOpp)
	fmt.Println("TOP interpErr/firstTerm, same-sign:")
	for _, c := range total.topInterpSame.cs {
		printCase(c)
	}
	fmt.Println("TOP interpErr/firstTerm, opposite-sign:")
	for _, c := range total.topInterpOpp.cs {
		printCase(c)
	}
	fmt.Println("TOP xRound, same-sign:")
	for _, c := range total.topXRSame.cs {
		printCase(c)
	}
	fmt.Println("TOP xRound, opposite-sign:")
	for _, c := range total.topXROpp.cs {
		printCase(c)
	}
	fmt.Println("TOP sinErr/(err/xLen+u):")
	for _, c := range total.topEst.cs {
		printCase(c)
	}
	if *climbIters > 0 {
		fmt.Println("HILL CLIMB:")
		type job struct {
			c        Case
			key      func(Case) float64
			needSame bool
			name     string
		}
		jobs := []job{}
		for _, c := range total.topSame.cs {
			jobs = append(jobs, job{c, func(c Case) float64 { return c.ratio }, true, "same/ratio"})
			jobs = append(jobs, job{c, func(c Case) float64 { return c.estRatio }, true, "same/est"})
		}
		for _, c := range total.topInterpSame.cs {
			jobs = append(jobs, job{c, func(c Case) float64 { return c.interpRatio }, true, "same/interp"})
		}
		for _, c := range total.topXRSame.cs {
			jobs = append(jobs, job{c, func(c Case) float64 { return c.xRound }, true, "same/xround"})
		}
		for _, c := range total.topAll.cs {
			jobs = append(jobs, job{c, func(c Case) float64 { return c.ratio }, false, "all/ratio"})
		}
		for _, c := range total.topEst.cs {
			jobs = append(jobs, job{c, func(c Case) float64 { return c.estRatio }, false, "all/est"})
		}
		res := make([]Case, len(jobs))
		for i := range jobs {
			wg.Add(1)
			go func(i int) {
				defer wg.Done()
				r := rand.New(rand.NewSource(*seed*7777 + int64(i)))
				res[i] = climb(r, jobs[i].c, *climbIters, jobs[i].key, jobs[i].needSame)
			}(i)
		}
		wg.Wait()
		for i := range jobs {
			fmt.Printf(" job %s: start %.4f/%.4f ->\n", jobs[i].name, jobs[i].c.ratio, jobs[i].c.estRatio)
			printCase(res[i])
		}
	}
	_ = os.Stdout
}
