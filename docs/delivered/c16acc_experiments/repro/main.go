// Reproduces the near-misses of REPORT.md against the unmodified /repo (public API only).
package main

import (
	"fmt"
	"math"

	"github.com/golang/geo/r3"
	"github.com/golang/geo/s2"
	"subrepro/ex"
)

func P(x, y, z uint64) s2.Point {
	return s2.Point{Vector: r3.Vector{X: math.Float64frombits(x), Y: math.Float64frombits(y), Z: math.Float64frombits(z)}}
}

type tc struct {
	name           string
	a0, a1, b0, b1 s2.Point
}

func main() {
	cases := []tc{
		{"E1 same-sign #1 (0.2896)",
			P(0x3fd689f4a60e96f1, 0xbfeddf669da3cf41, 0x3fb133d541ca7c2d), P(0x3fe81647104c738e, 0xbfc5be33fbc90579, 0x3fe45a83f3b07b66),
			P(0x3fca720976ce4faa, 0xbfef3c89bbb01ed7, 0x3fb11b44c769f39d), P(0x3fde0f315d671c1f, 0xbfeb911fd1a35ef1, 0x3fc8b6e92c2a679e)},
		{"E1 same-sign #2 (0.2764)",
			P(0xbfe408bd0a35ee3b, 0x3fdef004ee42dea0, 0x3fe3944ecde11103), P(0x3feffffffffffffe, 0xba5f82bc44d460f3, 0x3b6f6f4c3875d2f7),
			P(0x3fe9ea267ef128a4, 0x3fd746a35eeaadcd, 0x3fdd7608cc6eb0a4), P(0x3fe9ea268eba1d35, 0x3fd746a3951ab35b, 0x3fdd76086a14eb74)},
		{"E1 same-sign focus regime (0.2701)", // filled below from exp1_focus
			P(0, 0, 0), P(0, 0, 0), P(0, 0, 0), P(0, 0, 0)},
		{"E1 near-threshold #1 (0.3239)",
			P(0xbfd12e0c7651e267, 0xbfee2ef7c1e98b48, 0xbfc908e643ddfd72), P(0x3fb4627ce01440bd, 0x3fefc90a4e91eef7, 0xbfb577c621dfbbfe),
			P(0xbfe08e081414e3b6, 0xbfe2d432f5fef6b0, 0xbfe3e28b2529a327), P(0xbfe0612e17425aac, 0xbfe2c8b5d38da238, 0xbfe41253df2ec01c)},
		{"E1 near-threshold #2 (0.3165)",
			P(0xbfe957a7e37a6c7d, 0xbfe0b7f901243eb8, 0xbfd43944029eb67b), P(0x3fec553ea128f2b0, 0xbfbf0d40d988c16c, 0xbfdcb7b8b9222a76),
			P(0x3fdee924d0f51443, 0xbfdf539c366a5772, 0xbfe73bc2ebbd89fa), P(0x3fdf263567667490, 0xbfe09f1816a62f06, 0xbfe679c8dd230266)},
	}
	cases = append(cases, extra...)
	for _, c := range cases {
		if c.a0.Vector == (r3.Vector{}) {
			continue
		}
		ok := ex.InContract(c.a0) && ex.InContract(c.a1) && ex.InContract(c.b0) && ex.InContract(c.b1)
		cs := s2.CrossingSign(c.a0, c.a1, c.b0, c.b1)
		r := s2.Intersection(c.a0, c.a1, c.b0, c.b1)
		X := ex.ExactX(c.a0, c.a1, c.b0, c.b1)
		se := ex.SinBetween(ex.FP(r), X)
		fmt.Printf("%-40s inContract=%v crossing=%v  result=%s  sinErr/(8*2^-53)=%.6f  ||r|-1|/2^-53=%.4f\n",
			c.name, ok, cs, ex.Hex(r), se/(8*ex.U), math.Abs(ex.NormMinus1(ex.FP(r)))/ex.U)
	}
}
