// Package ex: exact dyadic arithmetic on scalars and 3-vectors.
package ex

import (
	"fmt"
	"math"
	"math/big"
	"math/bits"

	"github.com/golang/geo/r3"
	"github.com/golang/geo/s2"
)

// S is the exact dyadic number V * 2^E.
type S struct {
	V *big.Int
	E int
}

func F(f float64) S {
	if f == 0 {
		return S{new(big.Int), 0}
	}
	if math.IsInf(f, 0) || math.IsNaN(f) {
		panic("non-finite")
	}
	m, e := math.Frexp(f)
	mi := int64(m * (1 << 53))
	e -= 53
	tz := bits.TrailingZeros64(uint64(abs64(mi)))
	mi >>= uint(tz)
	e += tz
	return S{big.NewInt(mi), e}
}
func abs64(x int64) int64 {
	if x < 0 {
		return -x
	}
	return x
}

func (a S) Mul(b S) S { return S{new(big.Int).Mul(a.V, b.V), a.E + b.E} }
func (a S) Neg() S    { return S{new(big.Int).Neg(a.V), a.E} }
func (a S) Add(b S) S {
	if a.V.Sign() == 0 {
		return b
	}
	if b.V.Sign() == 0 {
		return a
	}
	if a.E == b.E {
		return S{new(big.Int).Add(a.V, b.V), a.E}
	}
	if a.E > b.E {
		t := new(big.Int).Lsh(a.V, uint(a.E-b.E))
		return S{t.Add(t, b.V), b.E}
	}
	t := new(big.Int).Lsh(b.V, uint(b.E-a.E))
	return S{t.Add(t, a.V), a.E}
}
func (a S) Sub(b S) S   { return a.Add(b.Neg()) }
func (a S) Sign() int   { return a.V.Sign() }
func (a S) Abs() S      { return S{new(big.Int).Abs(a.V), a.E} }
func (a S) Cmp(b S) int { return a.Sub(b).Sign() }

// BF converts to a big.Float of the given precision (rounded).
func (a S) BF(prec uint) *big.Float {
	f := new(big.Float).SetPrec(prec).SetInt(a.V)
	return f.SetMantExp(f, a.E)
}
func (a S) F64() float64 { f, _ := a.BF(64).Float64(); return f }

// Ratio returns a/b as float64 (rounded from 128-bit).
func Ratio(a, b S) float64 {
	q := new(big.Float).SetPrec(128).Quo(a.BF(128), b.BF(128))
	f, _ := q.Float64()
	return f
}

// SqrtRatio returns sqrt(a/b) as float64.
func SqrtRatio(a, b S) float64 {
	if a.Sign() == 0 {
		return 0
	}
	q := new(big.Float).SetPrec(128).Quo(a.BF(128), b.BF(128))
	// big.Float.Sqrt handles huge exponent ranges.
	q.Sqrt(q)
	f, _ := q.Float64()
	return f
}

type V struct{ X, Y, Z S }

func FV(v r3.Vector) V   { return V{F(v.X), F(v.Y), F(v.Z)} }
func FP(p s2.Point) V    { return FV(p.Vector) }
func (a V) Add(b V) V    { return V{a.X.Add(b.X), a.Y.Add(b.Y), a.Z.Add(b.Z)} }
func (a V) Sub(b V) V    { return V{a.X.Sub(b.X), a.Y.Sub(b.Y), a.Z.Sub(b.Z)} }
func (a V) Dot(b V) S    { return a.X.Mul(b.X).Add(a.Y.Mul(b.Y)).Add(a.Z.Mul(b.Z)) }
func (a V) Norm2() S     { return a.Dot(a) }
func (a V) Scale(s S) V  { return V{a.X.Mul(s), a.Y.Mul(s), a.Z.Mul(s)} }
func (a V) IsZero() bool { return a.X.Sign() == 0 && a.Y.Sign() == 0 && a.Z.Sign() == 0 }
func (a V) Cross(b V) V {
	return V{
		a.Y.Mul(b.Z).Sub(a.Z.Mul(b.Y)),
		a.Z.Mul(b.X).Sub(a.X.Mul(b.Z)),
		a.X.Mul(b.Y).Sub(a.Y.Mul(b.X)),
	}
}

// SinBetween returns |r x X| / (|r||X|).
func SinBetween(r, X V) float64 {
	c := r.Cross(X)
	return SqrtRatio(c.Norm2(), r.Norm2().Mul(X.Norm2()))
}

// NormMinus1 returns |p| - 1 as float64 (computed with 256 bits).
func NormMinus1(p V) float64 {
	n2 := p.Norm2().BF(256)
	n2.Sqrt(n2)
	n2.Sub(n2, big.NewFloat(1).SetPrec(256))
	f, _ := n2.Float64()
	return f
}

// ExactN returns (a0-a1) x (a0+a1) exactly.
func ExactN(a0, a1 s2.Point) V {
	A0, A1 := FP(a0), FP(a1)
	return A0.Sub(A1).Cross(A0.Add(A1))
}

// ExactX returns (a0 x a1) x (b0 x b1) exactly.
func ExactX(a0, a1, b0, b1 s2.Point) V {
	return FP(a0).Cross(FP(a1)).Cross(FP(b0).Cross(FP(b1)))
}

const U = 1.0 / (1 << 53) // 2^-53

// InContract: | |p| - 1 | <= 2^-51 (= 4.44e-16).
func InContract(p s2.Point) bool {
	n2 := p.Norm2()
	d := math.Abs(n2 - 1)
	if d <= 4e-16 {
		return true
	}
	if d > 1.3e-15 {
		return false
	}
	return math.Abs(NormMinus1(FP(p))) <= 1.0/(1<<51)
}

func Hex(p s2.Point) string {
	return fmt.Sprintf("%016x %016x %016x", math.Float64bits(p.X), math.Float64bits(p.Y), math.Float64bits(p.Z))
}
func GoLit(name string, p s2.Point) string {
	return fmt.Sprintf("%s := s2.Point{r3.Vector{X: math.Float64frombits(0x%016x), Y: math.Float64frombits(0x%016x), Z: math.Float64frombits(0x%016x)}}",
		name, math.Float64bits(p.X), math.Float64bits(p.Y), math.Float64bits(p.Z))
}

// AddUlps moves f by n ulps (n may be negative); stays on the same sign side (clamps at 0).
func AddUlps(f float64, n int) float64 {
	if n == 0 {
		return f
	}
	if f == 0 {
		return f
	}
	b := math.Float64bits(f)
	mag := int64(b &^ (1 << 63))
	mag += int64(n)
	if mag < 1 {
		mag = 1
	}
	return math.Float64frombits(uint64(mag) | (b & (1 << 63)))
}
