// exp4: maximise | |r|-1 | for r = x.Mul(1/sqrt(x.Norm2())) over float64 vectors x (the normalisation used by both paths).
package main

import (
	"flag"
	"fmt"
	"math"
	"math/rand"
	"sync"

	"github.com/golang/geo/r3"
	"github.com/golang/geo/s2"
	"subexp/ex"
)

func norm(x r3.Vector) r3.Vector { return x.Mul(1 / math.Sqrt(x.Norm2())) }

// quick estimate of |r|^2-1 with FMA-based error-free products
func n2m1(r r3.Vector) float64 {
	s := -1.0
	var c float64
	for _, v := range []float64{r.X, r.Y, r.Z} {
		p := v * v
		e := math.FMA(v, v, -p)
		// two-sum s+p
		t := s + p
		bb := t - s
		c += (s - (t - bb)) + (p - bb) + e
		s = t
	}
	return s + c
}

func main() {
	n := flag.Int("n", 20000000, "per worker")
	w := flag.Int("w", 16, "workers")
	flag.Parse()
	var mu sync.Mutex
	best := 0.0
	var bx r3.Vector
	var wg sync.WaitGroup
	for i := 0; i < *w; i++ {
		wg.Add(1)
		go func(i int) {
			defer wg.Done()
			r := rand.New(rand.NewSource(int64(100 + i)))
			lb := 0.0
			var lx r3.Vector
			for k := 0; k < *n; k++ {
				var x r3.Vector
				switch r.Intn(3) {
				case 0:
					x = r3.Vector{X: r.NormFloat64(), Y: r.NormFloat64(), Z: r.NormFloat64()}
				case 1:
					x = r3.Vector{X: r.NormFloat64(), Y: r.NormFloat64() * math.Pow(10, -8*r.Float64()), Z: r.NormFloat64() * math.Pow(10, -8*r.Float64())}
				default:
					x = r3.Vector{X: r.NormFloat64(), Y: r.NormFloat64(), Z: 0}
				}
				x = x.Mul(math.Pow(2, float64(r.Intn(3))/3) * (1 + r.Float64()))
				if x.Norm2() == 0 {
					continue
				}
				v := math.Abs(n2m1(norm(x))) / 2 / ex.U
				if v > lb {
					lb, lx = v, x
				}
			}
			// climb
			for k := 0; k < *n/4; k++ {
				y := lx
				kk := 1 << uint(r.Intn(30))
				switch r.Intn(3) {
				case 0:
					y.X = ex.AddUlps(y.X, r.Intn(2*kk+1)-kk)
				case 1:
					y.Y = ex.AddUlps(y.Y, r.Intn(2*kk+1)-kk)
				default:
					y.Z = ex.AddUlps(y.Z, r.Intn(2*kk+1)-kk)
				}
				v := math.Abs(n2m1(norm(y))) / 2 / ex.U
				if v > lb {
					lb, lx = v, y
				}
			}
			mu.Lock()
			if lb > best {
				best, bx = lb, lx
			}
			mu.Unlock()
		}(i)
	}
	wg.Wait()
	r := norm(bx)
	exact := math.Abs(ex.NormMinus1(ex.FV(r))) / ex.U
	fmt.Printf("max ||r|-1|/u over x-space search = %.4f (exact %.4f)\n  x = %s\n  r = %s\n", best, exact, ex.Hex(s2.Point{Vector: bx}), ex.Hex(s2.Point{Vector: r}))
}
