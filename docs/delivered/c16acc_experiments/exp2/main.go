// Experiment 2: is projection()'s bound a true bound?
package main

import (
	"flag"
	"fmt"
	"math"
	"math/rand"
	"sort"
	"strings"
	"sync"

	"github.com/golang/geo/r3"
	"github.com/golang/geo/s2"
	"subexp/ex"
)

type Case struct {
	a0, a1, x   s2.Point
	ratio       float64
	proj, bound float64
	P           float64
	tag         string
}

func randUnit(r *rand.Rand) r3.Vector {
	for {
		v := r3.Vector{X: r.NormFloat64(), Y: r.NormFloat64(), Z: r.NormFloat64()}
		if v.Norm2() > 1e-4 {
			return v.Normalize()
		}
	}
}
func logU(r *rand.Rand, lo, hi float64) float64 {
	return math.Exp(math.Log(lo) + r.Float64()*(math.Log(hi)-math.Log(lo)))
}
func perturb(r *rand.Rand, p s2.Point, k int) s2.Point {
	if k == 0 {
		return p
	}
	return s2.Point{Vector: r3.Vector{
		X: ex.AddUlps(p.X, r.Intn(2*k+1)-k),
		Y: ex.AddUlps(p.Y, r.Intn(2*k+1)-k),
		Z: ex.AddUlps(p.Z, r.Intn(2*k+1)-k)}}
}
func permute(r *rand.Rand, v r3.Vector) r3.Vector {
	c := [3]float64{v.X, v.Y, v.Z}
	r.Shuffle(3, func(i, j int) { c[i], c[j] = c[j], c[i] })
	for i := range c {
		if r.Intn(2) == 0 {
			c[i] = -c[i]
		}
	}
	return r3.Vector{X: c[0], Y: c[1], Z: c[2]}
}

// roundBits keeps k significant bits of f.
func roundBits(f float64, k int) float64 {
	if f == 0 || k >= 53 {
		return f
	}
	m, e := math.Frexp(f)
	s := math.Ldexp(1, k)
	return math.Ldexp(math.Round(m*s)/s, e)
}

// nice: two coordinates with k significant bits, third solved.
func nice(r *rand.Rand, p r3.Vector, k int) (r3.Vector, bool) {
	c := [3]float64{p.X, p.Y, p.Z}
	// solve the largest
	li := 0
	for i := 1; i < 3; i++ {
		if math.Abs(c[i]) > math.Abs(c[li]) {
			li = i
		}
	}
	var s float64
	for i := 0; i < 3; i++ {
		if i != li {
			c[i] = roundBits(c[i], k)
			s += c[i] * c[i]
		}
	}
	if s >= 1 {
		return p, false
	}
	v := math.Sqrt(1 - s)
	if c[li] < 0 {
		v = -v
	}
	c[li] = v
	return r3.Vector{X: c[0], Y: c[1], Z: c[2]}, true
}

// extreme scales p so that |p| is near 1 +- 4.4e-16.
func extreme(r *rand.Rand, p s2.Point) s2.Point {
	f := 1 + 4.2e-16
	if r.Intn(2) == 0 {
		f = 1 - 4.2e-16
	}
	// scaling by f in float: multiply each coord and pick ulps
	k := 4
	if f < 1 {
		k = -4
	}
	q := p
	for i := 0; i < 8; i++ {
		t := s2.Point{Vector: r3.Vector{X: ex.AddUlps(q.X, sgnk(k, q.X)), Y: ex.AddUlps(q.Y, sgnk(k, q.Y)), Z: ex.AddUlps(q.Z, sgnk(k, q.Z))}}
		if !ex.InContract(t) {
			k /= 2
			if k == 0 {
				break
			}
			continue
		}
		q = t
	}
	return q
}
func sgnk(k int, v float64) int { return k } // AddUlps moves magnitude

func genPoint(r *rand.Rand) (s2.Point, string) {
	switch r.Intn(6) {
	case 0, 1:
		return s2.Point{Vector: randUnit(r)}, "gen"
	case 2:
		m1 := r.Float64() * 30
		m2 := r.Float64() * 30
		v := r3.Vector{X: 1, Y: math.Pow(10, -m1) * (1 + 9*r.Float64()), Z: math.Pow(10, -m2) * (1 + 9*r.Float64())}
		if r.Intn(6) == 0 {
			v.Z = 0
		}
		return s2.Point{Vector: permute(r, v.Normalize())}, "nearaxis"
	case 3:
		return s2.Point{Vector: permute(r, r3.Vector{X: 1})}, "axis"
	default:
		k := 1 + r.Intn(30)
		v, ok := nice(r, randUnit(r), k)
		if !ok {
			return s2.Point{Vector: randUnit(r)}, "gen"
		}
		return s2.Point{Vector: v}, "nice"
	}
}

func tangentAt(r *rand.Rand, p s2.Point) r3.Vector {
	for {
		v := randUnit(r)
		u := v.Sub(p.Mul(v.Dot(p.Vector)))
		if u.Norm2() > 1e-3 {
			return u.Normalize()
		}
	}
}

func move(p s2.Point, u r3.Vector, d float64) s2.Point {
	if d < 1e-8 {
		return s2.Point{Vector: p.Add(u.Mul(d))}
	}
	return s2.Point{Vector: p.Mul(math.Cos(d)).Add(u.Mul(math.Sin(d))).Normalize()}
}

func gen(r *rand.Rand) (a0, a1, x s2.Point, tag string, ok bool) {
	var t1 string
	a0, t1 = genPoint(r)
	u := tangentAt(r, a0)
	var la float64
	switch r.Intn(3) {
	case 0:
		la = logU(r, 1e-15, 1e-3)
	case 1:
		la = logU(r, 1e-3, 3.1)
	default:
		la = logU(r, 1e-15, 3.1)
	}
	if r.Intn(12) == 0 {
		la = math.Pi - logU(r, 1e-15, 0.1)
		t1 += "+antip"
	}
	a1 = move(a0, u, la)
	if r.Intn(4) == 0 {
		// nice a1 too
		if v, okk := nice(r, a1.Vector, 1+r.Intn(40)); okk {
			a1 = s2.Point{Vector: v}
			t1 += "+nice1"
		}
	}
	if a1 == a0 {
		return
	}
	aN := a0.Sub(a1.Vector).Cross(a0.Add(a1.Vector))
	if aN.Norm2() == 0 {
		return
	}
	n := aN.Normalize()
	ak := a0
	if r.Intn(2) == 0 {
		ak = a1
	}
	var t2 string
	switch r.Intn(6) {
	case 5:
		// x0 parallel to N: x straight "above" the endpoint
		d := logU(r, 1e-15, 1.5)
		w := n
		if r.Intn(2) == 0 {
			w = n.Mul(-1)
		}
		x = move(ak, w, d)
		t2 = "xperp"
	case 0:
		x, _ = genPoint(r)
		t2 = "xfar"
	case 1:
		x = move(ak, tangentAt(r, ak), logU(r, 1e-15, 1e-3))
		t2 = "xnear"
	case 2:
		// on great circle at random position + off-plane offset
		diff := a1.Sub(a0.Vector)
		u2 := diff.Sub(a0.Mul(diff.Dot(a0.Vector)))
		if u2.Norm2() == 0 {
			return
		}
		u2 = u2.Normalize()
		var s float64
		if r.Intn(2) == 0 {
			s = la * (-0.5 + 2*r.Float64())
		} else {
			s = (r.Float64() - 0.5) * 6
		}
		c := move(a0, u2, math.Abs(s))
		if s < 0 {
			c = move(a0, u2.Mul(-1), -s)
		}
		off := 0.0
		if r.Intn(3) != 0 {
			off = logU(r, 1e-18, 1e-3)
		}
		if r.Intn(2) == 0 {
			off = -off
		}
		x = s2.Point{Vector: c.Add(n.Mul(off))}
		if math.Abs(off) > 1e-8 {
			x = s2.Point{Vector: x.Normalize()}
		}
		t2 = "xplane"
	default:
		// near endpoint and nearly in plane
		diff := a1.Sub(a0.Vector)
		u2 := diff.Sub(a0.Mul(diff.Dot(a0.Vector)))
		if u2.Norm2() == 0 {
			return
		}
		u2 = u2.Normalize()
		if ak == a1 {
			// tangent at a1 along the circle
			u2 = n.Cross(a1.Vector).Normalize()
		}
		if r.Intn(2) == 0 {
			u2 = u2.Mul(-1)
		}
		d := logU(r, 1e-15, 1e-3)
		ang := logU(r, 1e-17, 1)
		if r.Intn(2) == 0 {
			ang = -ang
		}
		w := u2.Mul(math.Cos(ang)).Add(n.Mul(math.Sin(ang)))
		x = move(ak, w, d)
		t2 = "xnearplane"
	}
	if r.Intn(3) == 0 {
		x = perturb(r, x, 1+r.Intn(3))
		t2 += "+ulp"
	}
	if r.Intn(6) == 0 {
		x = extreme(r, x)
		a0 = extreme(r, a0)
		a1 = extreme(r, a1)
		t2 += "+extreme"
	}
	tag = t1 + "/" + t2
	ok = true
	return
}

func eval(a0, a1, x s2.Point, checkContract bool) (c Case, ok bool) {
	if a0 == a1 {
		return
	}
	if checkContract && !(ex.InContract(a0) && ex.InContract(a1) && ex.InContract(x)) {
		return
	}
	aNorm := a0.Sub(a1.Vector).Cross(a0.Add(a1.Vector))
	aNormLen := aNorm.Norm()
	proj, bound := s2.VerifProjection(x.Vector, aNorm, aNormLen, a0, a1)
	P := ex.FP(x).Dot(ex.ExactN(a0, a1))
	diff := ex.F(proj).Sub(P).Abs()
	c = Case{a0: a0, a1: a1, x: x, proj: proj, bound: bound, P: P.F64()}
	if diff.Sign() == 0 {
		c.ratio = 0
		return c, true
	}
	if bound == 0 {
		c.ratio = math.Inf(1)
		return c, true
	}
	c.ratio = ex.Ratio(diff, ex.F(bound))
	return c, true
}

type Top struct {
	n  int
	cs []Case
}

func (t *Top) add(c Case) {
	if len(t.cs) < t.n || c.ratio > t.cs[len(t.cs)-1].ratio {
		t.cs = append(t.cs, c)
		sort.Slice(t.cs, func(i, j int) bool { return t.cs[i].ratio > t.cs[j].ratio })
		if len(t.cs) > t.n {
			t.cs = t.cs[:t.n]
		}
	}
}

func printCase(c Case) {
	fmt.Printf("  |proj-P|/bound=%.6f tag=%s proj=%g bound=%g P=%g\n", c.ratio, c.tag, c.proj, c.bound, c.P)
	fmt.Printf("    a0 %s\n    a1 %s\n    x  %s\n", ex.Hex(c.a0), ex.Hex(c.a1), ex.Hex(c.x))
}

func climb(r *rand.Rand, c Case, iters int, checkContract bool) Case {
	best := c
	for i := 0; i < iters; i++ {
		pts := [3]s2.Point{best.a0, best.a1, best.x}
		nm := 1 + r.Intn(3)
		for j := 0; j < nm; j++ {
			pi := r.Intn(3)
			k := 1 + r.Intn(3)
			if r.Intn(4) == 0 {
				k = 1 << uint(r.Intn(30))
			}
			p := pts[pi]
			switch r.Intn(3) {
			case 0:
				p.X = ex.AddUlps(p.X, r.Intn(2*k+1)-k)
			case 1:
				p.Y = ex.AddUlps(p.Y, r.Intn(2*k+1)-k)
			default:
				p.Z = ex.AddUlps(p.Z, r.Intn(2*k+1)-k)
			}
			pts[pi] = p
		}
		n, ok := eval(pts[0], pts[1], pts[2], checkContract)
		if !ok {
			continue
		}
		n.tag = best.tag
		if n.ratio > best.ratio {
			best = n
		}
	}
	best.tag += "+climb"
	return best
}

// ---- deep tiny regime ----
func genTiny(r *rand.Rand) (a0, a1, x s2.Point, tag string, ok bool) {
	// a_k at or near an axis, other coords tiny or zero
	mk := func(y, z float64) s2.Point { return s2.Point{Vector: r3.Vector{X: 1, Y: y, Z: z}} }
	sg := func() float64 {
		if r.Intn(2) == 0 {
			return -1
		}
		return 1
	}
	var y0, z0 float64
	switch r.Intn(3) {
	case 0:
	case 1:
		y0 = sg() * logU(r, 1e-300, 1e-100)
		z0 = sg() * logU(r, 1e-300, 1e-100)
	default:
		y0 = sg() * logU(r, 1e-320, 1e-290)
		z0 = sg() * logU(r, 1e-320, 1e-290)
	}
	a0 = mk(y0, z0)
	var la float64
	switch r.Intn(3) {
	case 0:
		la = logU(r, 1e-150, 1e-10)
	case 1:
		la = logU(r, 1e-300, 1e-150)
	default:
		la = logU(r, 1e-10, 1)
	}
	th := r.Float64() * 2 * math.Pi
	if la < 1e-8 {
		a1 = mk(y0+la*math.Cos(th), z0+la*math.Sin(th))
	} else {
		a1 = s2.Point{Vector: r3.Vector{X: math.Cos(la), Y: math.Sin(la) * math.Cos(th), Z: math.Sin(la) * math.Sin(th)}.Normalize()}
	}
	d := logU(r, 1e-300, 1e-160)
	if r.Intn(4) == 0 {
		d = logU(r, 1e-323, 1e-300)
	}
	if r.Intn(4) == 0 {
		d = logU(r, 1e-160, 1e-140)
	}
	ph := th + sg()*logU(r, 1e-17, 3)
	if r.Intn(3) == 0 {
		ph = r.Float64() * 2 * math.Pi
	}
	ak := a0
	if r.Intn(3) == 0 && la < 1e-8 {
		ak = a1
	}
	x = mk(ak.Y+d*math.Cos(ph), ak.Z+d*math.Sin(ph))
	if x == a0 || x == a1 || a0 == a1 {
		return
	}
	// random axis permutation applied consistently
	perm := r.Perm(3)
	sgn := [3]float64{sg(), sg(), sg()}
	ap := func(p s2.Point) s2.Point {
		c := [3]float64{p.X, p.Y, p.Z}
		var o [3]float64
		for i := 0; i < 3; i++ {
			o[perm[i]] = c[i] * sgn[i]
		}
		return s2.Point{Vector: r3.Vector{X: o[0], Y: o[1], Z: o[2]}}
	}
	a0, a1, x = ap(a0), ap(a1), ap(x)
	tag = fmt.Sprintf("tiny la=%.1e d=%.1e", la, d)
	ok = true
	return
}

func main() {
	nPer := flag.Int("n", 200000, "configs per worker")
	workers := flag.Int("w", 16, "workers")
	seed := flag.Int64("seed", 1, "seed")
	climbIters := flag.Int("climb", 20000, "climb iters")
	tiny := flag.Bool("tiny", false, "deep tiny regime")
	topN := flag.Int("top", 8, "number of top cases kept / climbed")
	flag.Parse()
	var mu sync.Mutex
	var wg sync.WaitGroup
	top := Top{n: *topN}
	famMax := map[string]float64{}
	famCnt := map[string]int{}
	var hist [14]int
	total := 0
	fails := 0
	type dstat struct {
		n, fails, ninf int
		max            float64
		worst          Case
	}
	dstats := map[int]*dstat{}
	var maxFailDist float64
	var maxFailCase Case
	safeDist := func(p, q s2.Point) float64 {
		return math.Hypot(math.Hypot(p.X-q.X, p.Y-q.Y), p.Z-q.Z)
	}
	for w := 0; w < *workers; w++ {
		wg.Add(1)
		go func(w int) {
			defer wg.Done()
			r := rand.New(rand.NewSource(*seed*1000 + int64(w)))
			ltop := Top{n: *topN}
			lmax := map[string]float64{}
			lcnt := map[string]int{}
			var lhist [14]int
			ltotal := 0
			lfails := 0
			for i := 0; i < *nPer; i++ {
				var a0, a1, x s2.Point
				var tag string
				var ok bool
				if *tiny {
					a0, a1, x, tag, ok = genTiny(r)
				} else {
					a0, a1, x, tag, ok = gen(r)
				}
				if !ok {
					continue
				}
				c, ok := eval(a0, a1, x, true)
				if !ok {
					continue
				}
				c.tag = tag
				ltotal++
				ft := tag
				if *tiny {
					ft = "tiny"
				}
				fts := []string{ft}
				if !*tiny {
					i := strings.Index(tag, "/")
					fts = []string{"A:" + tag[:i], "X:" + tag[i+1:]}
				}
				for _, ft := range fts {
					if c.ratio > lmax[ft] {
						lmax[ft] = c.ratio
					}
					lcnt[ft]++
				}
				h := int(c.ratio * 10)
				if h > 13 || c.ratio > 1.3 {
					h = 13
				}
				lhist[h]++
				ltop.add(c)
				if *tiny {
					var la, d float64
					fmt.Sscanf(tag, "tiny la=%e d=%e", &la, &d)
					k := int(math.Floor(math.Log10(d) / 10))
					mu.Lock()
					ds := dstats[k]
					if ds == nil {
						ds = &dstat{}
						dstats[k] = ds
					}
					ds.n++
					if c.ratio > 1 {
						ds.fails++
						ad := math.Min(safeDist(c.x, c.a0), safeDist(c.x, c.a1))
						if ad > maxFailDist {
							maxFailDist = ad
							maxFailCase = c
						}
					}
					if math.IsInf(c.ratio, 1) {
						ds.ninf++
					} else if c.ratio > ds.max {
						ds.max = c.ratio
						ds.worst = c
					}
					mu.Unlock()
				}
				if c.ratio > 1 {
					lfails++
					if lfails <= 3 && !*tiny {
						mu.Lock()
						fmt.Println("FAIL (ratio>1):")
						printCase(c)
						mu.Unlock()
					}
				}
			}
			mu.Lock()
			for _, c := range ltop.cs {
				top.add(c)
			}
			for k, v := range lmax {
				if v > famMax[k] {
					famMax[k] = v
				}
			}
			for k, v := range lcnt {
				famCnt[k] += v
			}
			for i := range hist {
				hist[i] += lhist[i]
			}
			total += ltotal
			fails += lfails
			mu.Unlock()
		}(w)
	}
	wg.Wait()
	fmt.Printf("total evaluated (in contract)=%d  ratio>1: %d\n", total, fails)
	fmt.Printf("histogram of ratio (bins 0.1, last = >1.3): %v\n", hist)
	keys := []string{}
	for k := range famMax {
		keys = append(keys, k)
	}
	sort.Strings(keys)
	for _, k := range keys {
		fmt.Printf("  family %-40s n=%8d max=%.4f\n", k, famCnt[k], famMax[k])
	}
	if *tiny {
		ks := []int{}
		for k := range dstats {
			ks = append(ks, k)
		}
		sort.Ints(ks)
		fmt.Println("per bucket of d = |x - a_k| (10 decades each): n, fails(ratio>1), of which bound==0 (ratio=Inf), max finite ratio")
		for _, k := range ks {
			ds := dstats[k]
			fmt.Printf("  d in [1e%d,1e%d): n=%d fails=%d inf=%d maxFinite=%.4g\n", 10*k, 10*k+10, ds.n, ds.fails, ds.ninf, ds.max)
		}
		fmt.Printf("largest actual min(|x-a0|,|x-a1|) among failures: %g = 2^%.2f\n", maxFailDist, math.Log2(maxFailDist))
		printCase(maxFailCase)
		for _, k := range ks {
			if k >= -17 {
				fmt.Printf("worst finite in bucket 1e%d:\n", 10*k)
				printCase(dstats[k].worst)
			}
		}
	}
	fmt.Println("TOP:")
	for _, c := range top.cs {
		printCase(c)
	}
	if *climbIters > 0 {
		res := make([]Case, len(top.cs))
		for i := range top.cs {
			wg.Add(1)
			go func(i int) {
				defer wg.Done()
				r := rand.New(rand.NewSource(*seed*7777 + int64(i)))
				res[i] = climb(r, top.cs[i], *climbIters, true)
			}(i)
		}
		wg.Wait()
		fmt.Println("CLIMBED:")
		for _, c := range res {
			printCase(c)
		}
	}
}
