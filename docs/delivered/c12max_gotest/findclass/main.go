package main

import (
	"fmt"
	"math"
	"math/rand"

	"github.com/golang/geo/r3"
	"github.com/golang/geo/s2"
)

func main() {
	cB := s2.CellFromCellID(s2.CellID(0x151f000000000000))
	A := s2.Point{Vector: r3.Vector{X: 1, Y: 0, Z: 0}}
	rng := rand.New(rand.NewSource(5))
	lo := 2 - math.Ldexp(1, -46)
	for it := 0; it < 5000000; it++ {
		v := cB.Vertex(rng.Intn(4)).Vector
		tmp := r3.Vector{X: rng.NormFloat64(), Y: rng.NormFloat64(), Z: rng.NormFloat64()}
		d := v.Cross(tmp).Normalize()
		a := s2.Point{Vector: d.Add(v.Mul(math.Ldexp(rng.Float64(), -50))).Normalize()}
		m := float64(cB.MaxDistance(a))
		if m > lo && m <= 2 && a.IsUnit() {
			n2 := a.X*a.X + a.Y*a.Y + a.Z*a.Z
			fmt.Printf("a = %016x %016x %016x  (%v) n2-1=%g\n", math.Float64bits(a.X), math.Float64bits(a.Y), math.Float64bits(a.Z), a.Vector, n2-1)
			fmt.Printf("MaxDistance(a) = %016x %.17g  2-m=%g\n", math.Float64bits(m), m, 2-m)
			fmt.Printf("MaxDistance(A) = %016x\n", math.Float64bits(float64(cB.MaxDistance(A))))
			fmt.Printf("MaxDistanceToEdge(a,A) = %016x\n", math.Float64bits(float64(cB.MaxDistanceToEdge(a, A))))
			fmt.Printf("MaxDistanceToEdge(A,a) = %016x\n", math.Float64bits(float64(cB.MaxDistanceToEdge(A, a))))
			return
		}
	}
	fmt.Println("none")
}
