package main

import (
	"fmt"
	"math"
	"math/rand"

	"github.com/golang/geo/r3"
	"github.com/golang/geo/s1"
	"github.com/golang/geo/s2"
)

func bits(c s1.ChordAngle) string { return fmt.Sprintf("%016x", math.Float64bits(float64(c))) }

func neg(p s2.Point) s2.Point { return s2.Point{Vector: p.Mul(-1)} }

// brute force maximum of chord^2 between the arc ab and the cell boundary+interior samples
func brute(c s2.Cell, a, b s2.Point, na, nc int) float64 {
	// arc points
	arc := make([]r3.Vector, 0, na+1)
	for i := 0; i <= na; i++ {
		t := float64(i) / float64(na)
		arc = append(arc, s2.Interpolate(t, a, b).Vector)
	}
	arc = append(arc, a.Vector, b.Vector)
	best := -1.0
	// cell samples: boundary (the max of a convex function of q over the cone is on the boundary… just sample boundary + vertices)
	var vs [4]s2.Point
	for k := 0; k < 4; k++ {
		vs[k] = c.Vertex(k)
	}
	for k := 0; k < 4; k++ {
		for j := 0; j <= nc; j++ {
			t := float64(j) / float64(nc)
			q := s2.Interpolate(t, vs[k], vs[(k+1)&3]).Vector
			for _, r := range arc {
				d := q.Sub(r).Norm2()
				if d > best {
					best = d
				}
			}
		}
	}
	return best
}

func main() {
	cB := s2.CellFromCellID(s2.CellID(0x151f000000000000))
	cD := s2.CellFromCellID(s2.CellID(0x3010000000000000))
	P := s2.Point{Vector: r3.Vector{X: 0, Y: 0, Z: 1}}
	B := s2.Point{Vector: r3.Vector{X: 0, Y: 1, Z: 0}}
	fmt.Println("MaxDistanceToEdge(cB, P, B)   =", bits(cB.MaxDistanceToEdge(P, B)), float64(cB.MaxDistanceToEdge(P, B)))
	fmt.Println("MaxDistanceToEdge(cB, -P, -B) =", bits(cB.MaxDistanceToEdge(neg(P), neg(B))), float64(cB.MaxDistanceToEdge(neg(P), neg(B))))
	fmt.Println("MaxDistance(cB, P), (cB, B)   =", bits(cB.MaxDistance(P)), bits(cB.MaxDistance(B)))
	fmt.Println("MaxDistance(cB,-P), (cB,-B)   =", bits(cB.MaxDistance(neg(P))), bits(cB.MaxDistance(neg(B))))
	fmt.Println("DistanceToEdge(cB, P, B)      =", bits(cB.DistanceToEdge(P, B)))
	fmt.Println("MaxDistanceToCell(cB, cD)     =", bits(cB.MaxDistanceToCell(cD)), float64(cB.MaxDistanceToCell(cD)))
	fmt.Println("MaxDistanceToCell(cD, cB)     =", bits(cD.MaxDistanceToCell(cB)))

	// adversarial search for the right-angle class: nearly antipodal edges whose plane pole is near the cell,
	// endpoint maxima within a few ulps of 2.
	rng := rand.New(rand.NewSource(12))
	worst := 0.0
	var wdesc string
	nclass := 0
	n := 0
	for iter := 0; iter < 200000; iter++ {
		level := rng.Intn(31)
		id := s2.CellIDFromFace(rng.Intn(6))
		for l := 0; l < level; l++ {
			id = id.Children()[rng.Intn(4)]
		}
		c := s2.CellFromCellID(id)
		// a cell point that will be (nearly) at right angle from a: a vertex
		v := c.Vertex(rng.Intn(4)).Vector
		// choose direction d orthogonal to v
		tmp := r3.Vector{X: rng.NormFloat64(), Y: rng.NormFloat64(), Z: rng.NormFloat64()}
		d := v.Cross(tmp).Normalize()
		// a = d tilted by tiny angle towards +/- v so that max chord over the cell is ~ 2 +- tiny
		tilt := math.Ldexp(rng.Float64()*2-1, -rng.Intn(20)-33)
		a := s2.Point{Vector: d.Add(v.Mul(tilt)).Normalize()}
		// b nearly antipodal to a, at angle pi - delta, the arc's midpoint direction either towards or away from the cell
		delta := math.Ldexp(1+rng.Float64(), -rng.Intn(30)-3)
		e := a.Vector.Cross(v).Normalize() // orthogonal to a, and roughly orthogonal to v
		if rng.Intn(2) == 0 {
			e = e.Mul(-1)
		}
		if rng.Intn(2) == 0 {
			// midpoint direction = +-v-ish: arc passes near the cell or its antipode
			e = v.Sub(a.Vector.Mul(v.Dot(a.Vector))).Normalize()
			if rng.Intn(2) == 0 {
				e = e.Mul(-1)
			}
		}
		b := s2.Point{Vector: a.Vector.Mul(-math.Cos(delta)).Add(e.Mul(math.Sin(delta))).Normalize()}
		ma, mb := float64(c.MaxDistance(a)), float64(c.MaxDistance(b))
		m := math.Max(ma, mb)
		rep := float64(c.MaxDistanceToEdge(a, b))
		if m <= 2 && m > 2-1e-13 {
			nclass++
		}
		if m > 2+1e-9 || m < 2-1e-6 {
			// still test a fraction of them
			if rng.Intn(10) != 0 {
				continue
			}
		}
		n++
		tr := brute(c, a, b, 400, 40)
		if tr-rep > worst {
			worst = tr - rep
			wdesc = fmt.Sprintf("cell %016x level %d a=%016x %016x %016x b=%016x %016x %016x endMax=%.17g reported=%.17g brute=%.17g",
				uint64(id), level, math.Float64bits(a.X), math.Float64bits(a.Y), math.Float64bits(a.Z),
				math.Float64bits(b.X), math.Float64bits(b.Y), math.Float64bits(b.Z), m, rep, tr)
		}
	}
	fmt.Printf("tested %d edges (%d in the right-angle class 2-1e-13 < endMax <= 2); worst (brute - reported) = %.3g\n%s\n", n, nclass, worst, wdesc)
}
