// Empirical companion of package c17pairs2 (run against the unmodified /repo, build tag verif):
//   cp /repo/go.sum . ; GOFLAGS=-mod=mod GOPROXY=off GOSUMDB=off GOTOOLCHAIN=local go run -tags verif .      (≈ 20 s)
//  1. the concrete touching / perturbation-crossing samples of Properties/C17_Pairs2.lean;
//  2. Project(x,a,b) outside the class NearPole: error of chord^2(x,Project) against the exact point-to-arc distance
//     (claimed <= 2^-40 by project_within), and how often the hypothesis ProjDecisionExact fails;
//  3. updateEdgePairMinDistance(+Inf) against the exact edge-pair distance on non-crossing pairs (claimed <= 200u).
package main

import (
	"fmt"
	"math"
	"math/big"
	"math/rand"

	"github.com/golang/geo/r3"
	"github.com/golang/geo/s1"
	"github.com/golang/geo/s2"
)

const prec = 500

type bv struct{ x, y, z *big.Float }

func bf(f float64) *big.Float { return new(big.Float).SetPrec(prec).SetFloat64(f) }
func toB(p s2.Point) bv       { return bv{bf(p.X), bf(p.Y), bf(p.Z)} }
func mul(a, b *big.Float) *big.Float {
	return new(big.Float).SetPrec(prec).Mul(a, b)
}
func add(a, b *big.Float) *big.Float { return new(big.Float).SetPrec(prec).Add(a, b) }
func sub(a, b *big.Float) *big.Float { return new(big.Float).SetPrec(prec).Sub(a, b) }
func quo(a, b *big.Float) *big.Float { return new(big.Float).SetPrec(prec).Quo(a, b) }
func sqrt(a *big.Float) *big.Float   { return new(big.Float).SetPrec(prec).Sqrt(a) }
func dot(a, b bv) *big.Float         { return add(add(mul(a.x, b.x), mul(a.y, b.y)), mul(a.z, b.z)) }
func cross(a, b bv) bv {
	return bv{sub(mul(a.y, b.z), mul(a.z, b.y)), sub(mul(a.z, b.x), mul(a.x, b.z)), sub(mul(a.x, b.y), mul(a.y, b.x))}
}
func norm(a bv) *big.Float { return sqrt(dot(a, a)) }
func two() *big.Float     { return bf(2) }

// chord^2 between the directions of p and q
func chord2(p, q bv) *big.Float {
	return sub(two(), mul(two(), quo(dot(p, q), mul(norm(p), norm(q)))))
}
func inWedge(x, a, b bv) bool {
	n := cross(a, b)
	return dot(x, cross(n, a)).Sign() > 0 && dot(x, cross(n, b)).Sign() < 0
}
func trueDist2(x, a, b bv) *big.Float {
	if inWedge(x, a, b) {
		n := cross(a, b)
		return sub(two(), mul(two(), quo(norm(cross(n, x)), mul(norm(n), norm(x)))))
	}
	da, db := chord2(x, a), chord2(x, b)
	if da.Cmp(db) <= 0 {
		return da
	}
	return db
}
func nearPole(x, a, b bv) bool {
	n := cross(a, b)
	l := mul(dot(cross(n, x), cross(n, x)), bf(128))
	r := mul(dot(n, n), dot(x, x))
	return l.Cmp(r) < 0
}
// ProjMargin of Properties/C17_Pairs2.lean: both exact wedge functionals exceed 66u|a x b|
func projMargin(x, a, b bv) bool {
	n := cross(a, b)
	lim := mul(mul(bf(66), bf(math.Pow(2, -53))), norm(n))
	wa := new(big.Float).Abs(dot(x, cross(n, a)))
	wb := new(big.Float).Abs(dot(x, cross(n, b)))
	return wa.Cmp(lim) > 0 && wb.Cmp(lim) > 0
}
func f64(a *big.Float) float64 { f, _ := a.Float64(); return f }

func randPoint(r *rand.Rand) s2.Point {
	return s2.Point{Vector: r3.Vector{X: r.NormFloat64(), Y: r.NormFloat64(), Z: r.NormFloat64()}.Normalize()}
}
func perturb(r *rand.Rand, p s2.Point, eps float64) s2.Point {
	return s2.Point{Vector: p.Add(r3.Vector{X: r.NormFloat64(), Y: r.NormFloat64(), Z: r.NormFloat64()}.Mul(eps)).Normalize()}
}
func pt(x, y, z float64) s2.Point { return s2.Point{Vector: r3.Vector{X: x, Y: y, Z: z}} }

func projDecision(x, a, b s2.Point) bool {
	aXb := a.PointCross(b)
	p := x.Sub(aXb.Mul(x.Dot(aXb.Vector) / aXb.Norm2()))
	return s2.Sign(aXb, a, s2.Point{Vector: p}) && s2.Sign(s2.Point{Vector: p}, b, aXb)
}

func main() {
	// 1. samples
	A, B := pt(1, 0, 0), pt(0, 1, 0)
	X, Xn := pt(2.0/3, 2.0/3, 1.0/3), pt(2.0/3, 2.0/3, -1.0/3)
	T := pt(0.6, 0.8, 0)
	d1, ok1 := s2.VerifUpdateEdgePairMinDistance(A, B, T, Xn, s1.InfChordAngle())
	d2, ok2 := s2.VerifUpdateEdgePairMinDistance(A, B, T, X, s1.InfChordAngle())
	fmt.Printf("touching  (A-B,T-Xn): CrossingSign=%v  dist=%016x ok=%v\n", s2.CrossingSign(A, B, T, Xn), math.Float64bits(float64(d1)), ok1)
	fmt.Printf("perturbed (A-B,T-X ): CrossingSign=%v  dist=%016x ok=%v\n", s2.CrossingSign(A, B, T, X), math.Float64bits(float64(d2)), ok2)

	r := rand.New(rand.NewSource(17))
	// 2. Project
	const N = 300000
	worst, worstArc := 0.0, 0.0
	var wx, wa, wb s2.Point
	skipped, mism, interior := 0, 0, 0
	marginOK, marginViol := 0, 0
	worstMism := 0.0
	for i := 0; i < N; i++ {
		a := randPoint(r)
		var b s2.Point
		switch i % 5 {
		case 0:
			b = randPoint(r)
		case 1:
			b = perturb(r, a, math.Pow(10, -1-8*r.Float64())) // short edges down to 1e-9
		case 2:
			b = perturb(r, s2.Point{Vector: a.Mul(-1)}, math.Pow(10, -1-7*r.Float64())) // nearly antipodal
		default:
			b = perturb(r, a, 0.5*r.Float64())
		}
		var x s2.Point
		switch i % 4 {
		case 0:
			x = randPoint(r)
		case 1: // near the edge
			t := r.Float64()
			x = perturb(r, s2.Point{Vector: a.Mul(1 - t).Add(b.Mul(t)).Normalize()}, math.Pow(10, -1-14*r.Float64()))
		case 2: // near the meridian through an endpoint (wedge boundary)
			n := a.PointCross(b).Normalize()
			x = perturb(r, s2.Point{Vector: a.Add(n.Mul(r.NormFloat64())).Normalize()}, math.Pow(10, -3-13*r.Float64()))
		default:
			x = perturb(r, a, math.Pow(10, -14*r.Float64()))
		}
		bx, ba, bb := toB(x), toB(a), toB(b)
		nn := cross(ba, bb)
		if f64(dot(nn, nn)) < math.Pow(2, -70) { // EdgeOK: |2 a x b|^2 >= 2^-68
			skipped++
			continue
		}
		if nearPole(bx, ba, bb) {
			skipped++
			continue
		}
		q := s2.Project(x, a, b)
		bq := toB(q)
		td := trueDist2(bx, ba, bb)
		err := math.Abs(f64(sub(chord2(bx, bq), td)))
		dec := projDecision(x, a, b)
		if dec {
			interior++
		}
		pm := projMargin(bx, ba, bb)
		if pm {
			marginOK++
			if dec != inWedge(bx, ba, bb) {
				marginViol++
			}
		}
		if dec != inWedge(bx, ba, bb) {
			mism++
			if err > worstMism {
				worstMism = err
			}
			continue
		}
		if err > worst {
			worst, wx, wa, wb = err, x, a, b
		}
		// distance of the returned point from the arc
		arc := math.Abs(f64(trueDist2(bq, ba, bb)))
		if arc > worstArc {
			worstArc = arc
		}
	}
	fmt.Printf("Project: %d inputs (%d skipped: NearPole or not EdgeOK), interior branch %d, decision mismatches %d (worst error there %.3g)\n",
		N, skipped, interior, mism, worstMism)
	fmt.Printf("  ProjMargin holds for %d inputs; decision mismatches among them: %d (theorem projDecisionExact_of_margin: must be 0)\n", marginOK, marginViol)
	fmt.Printf("  worst |chord2(x,Project) - true| = %.3g = %.3f * 2^-40   (claimed <= 2^-40);  worst distance of Project from the arc %.3g\n",
		worst, worst*math.Pow(2, 40), worstArc)
	fmt.Printf("  at x=%v a=%v b=%v\n", wx, wa, wb)

	// 3. edge pairs, threshold +Inf, non-crossing: exact = min of the four point-arc distances
	worstP := 0.0
	cnt := 0
	for i := 0; i < 100000; i++ {
		a0 := randPoint(r)
		a1 := perturb(r, a0, math.Pow(10, -6*r.Float64()))
		b0 := perturb(r, a0, math.Pow(10, -8*r.Float64()))
		b1 := perturb(r, b0, math.Pow(10, -6*r.Float64()))
		if s2.CrossingSign(a0, a1, b0, b1) == s2.Cross {
			continue
		}
		d, _ := s2.VerifUpdateEdgePairMinDistance(a0, a1, b0, b1, s1.InfChordAngle())
		A0, A1, B0, B1 := toB(a0), toB(a1), toB(b0), toB(b1)
		m := trueDist2(A0, B0, B1)
		for _, t := range []*big.Float{trueDist2(A1, B0, B1), trueDist2(B0, A0, A1), trueDist2(B1, A0, A1)} {
			if t.Cmp(m) < 0 {
				m = t
			}
		}
		e := math.Abs(float64(d) - f64(m))
		if e > worstP {
			worstP = e
		}
		cnt++
	}
	fmt.Printf("edge pairs (+Inf, CrossingSign != Cross): %d pairs, worst |R - pairMin4| = %.3g = %.2f u   (claimed <= 200u)\n",
		cnt, worstP, worstP*math.Pow(2, 53))
}
