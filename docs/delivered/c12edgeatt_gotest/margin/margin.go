// margin.go: exact-arithmetic margin left by Cell.CapBound's padding at the worst expanded uv corner.
// For each cell of levels 0..4 and each corner: d^2 = | C - n |^2 where C is the float cap centre
// (as given, not renormalised) and n the exact unit direction of the face point
// (uc + su*2.76eps, vc + sv*2.76eps, 1); prints per level min (radius-d^2)/eps and /(eps*sqrt(radius)).
package main

import (
	"fmt"
	"math"
	"math/big"
	"unsafe"

	"github.com/golang/geo/s1"
	"github.com/golang/geo/s2"
)

const prec = 300
const dblEps = 2.220446049250313e-16 // 2^-52
const expand = 2.76                  // in units of eps

type capMirror struct {
	center s2.Point
	radius s1.ChordAngle
}

func capRadius(c s2.Cap) float64 { return float64((*capMirror)(unsafe.Pointer(&c)).radius) }

func bf(x float64) *big.Float { return new(big.Float).SetPrec(prec).SetFloat64(x) }
func nb() *big.Float          { return new(big.Float).SetPrec(prec) }

// faceUVToXYZ in exact arithmetic
func faceUVToXYZ(face int, u, v *big.Float) [3]*big.Float {
	one := bf(1)
	neg := func(x *big.Float) *big.Float { return nb().Neg(x) }
	switch face {
	case 0:
		return [3]*big.Float{one, u, v}
	case 1:
		return [3]*big.Float{neg(u), one, v}
	case 2:
		return [3]*big.Float{neg(u), neg(v), one}
	case 3:
		return [3]*big.Float{neg(one), neg(v), neg(u)}
	case 4:
		return [3]*big.Float{v, neg(one), neg(u)}
	default:
		return [3]*big.Float{v, u, neg(one)}
	}
}

type rec struct {
	set        bool
	mAbs, mRel float64
	desc       string
}

func main() {
	eps := bf(dblEps)
	ex := nb().Mul(bf(expand), eps) // 2.76 (as float64) * 2^-52, exact product
	fmt.Printf("expansion = %v * 2^-52 per coordinate; eps = 2^-52; prec = %d bits\n", expand, prec)
	for level := 0; level <= 4; level++ {
		var minAbs, minRel rec
		var minAbs0, minRel0 rec // same with expansion 0 (the exact cell corner) for comparison
		for f := 0; f < 6; f++ {
			root := s2.CellIDFromFace(f)
			for id := root.ChildBeginAtLevel(level); id != root.ChildEndAtLevel(level); id = id.Next() {
				cell := s2.CellFromCellID(id)
				cp := cell.CapBound()
				ctr := cp.Center()
				rad := capRadius(cp)
				uv := cell.BoundUV()
				for corner := 0; corner < 4; corner++ {
					var uc, vc float64
					su, sv := 1, 1
					if corner&1 == 0 {
						uc, su = uv.X.Lo, -1
					} else {
						uc = uv.X.Hi
					}
					if corner&2 == 0 {
						vc, sv = uv.Y.Lo, -1
					} else {
						vc = uv.Y.Hi
					}
					for pass := 0; pass < 2; pass++ {
						e := ex
						if pass == 1 {
							e = nb()
						}
						u := bf(uc)
						if su < 0 {
							u.Sub(u, e)
						} else {
							u.Add(u, e)
						}
						v := bf(vc)
						if sv < 0 {
							v.Sub(v, e)
						} else {
							v.Add(v, e)
						}
						q := faceUVToXYZ(f, u, v)
						n2 := nb()
						for i := 0; i < 3; i++ {
							n2.Add(n2, nb().Mul(q[i], q[i]))
						}
						n := nb().Sqrt(n2)
						c := [3]*big.Float{bf(ctr.X), bf(ctr.Y), bf(ctr.Z)}
						d2 := nb()
						for i := 0; i < 3; i++ {
							t := nb().Quo(q[i], n)
							t.Sub(c[i], t)
							d2.Add(d2, nb().Mul(t, t))
						}
						m := nb().Sub(bf(rad), d2)
						mAbsB := nb().Quo(m, eps)
						mAbs, _ := mAbsB.Float64()
						mRel := mAbs / math.Sqrt(rad)
						d2f, _ := d2.Float64()
						desc := fmt.Sprintf("cell %#016x token=%s face=%d corner=%d uc=%.17g vc=%.17g radius=%.17g (%016x) d2=%.17g (radius-d2)/eps=%.4f /(eps*sqrt(radius))=%.4f /(eps*radius)=%.4f",
							uint64(id), id.ToToken(), f, corner, uc, vc, rad, math.Float64bits(rad), d2f, mAbs, mRel, mAbs/rad)
						pa, pr := &minAbs, &minRel
						if pass == 1 {
							pa, pr = &minAbs0, &minRel0
						}
						if !pa.set || mAbs < pa.mAbs {
							*pa = rec{true, mAbs, mRel, desc}
						}
						if !pr.set || mRel < pr.mRel {
							*pr = rec{true, mAbs, mRel, desc}
						}
					}
				}
			}
		}
		fmt.Printf("=== level %d (%d cells)\n", level, 6*(1<<(2*uint(level))))
		fmt.Printf("  expanded corner (2.76 eps): min (radius-d2)/eps               = %.4f\n      at %s\n", minAbs.mAbs, minAbs.desc)
		fmt.Printf("  expanded corner (2.76 eps): min (radius-d2)/(eps*sqrt(radius)) = %.4f\n      at %s\n", minRel.mRel, minRel.desc)
		fmt.Printf("  exact corner    (0 eps)   : min (radius-d2)/eps               = %.4f\n      at %s\n", minAbs0.mAbs, minAbs0.desc)
		fmt.Printf("  exact corner    (0 eps)   : min (radius-d2)/(eps*sqrt(radius)) = %.4f\n      at %s\n", minRel0.mRel, minRel0.desc)
	}
}
