// search.go: targeted search for a point p with Cell.ContainsPoint(p) && !Cell.CapBound().ContainsPoint(p)
// for all cells of levels 0..3, around the four expanded uv corners.
package main

import (
	"fmt"
	"math"
	"math/big"
	"os"
	"time"
	"unsafe"

	"github.com/golang/geo/r3"
	"github.com/golang/geo/s1"
	"github.com/golang/geo/s2"
)

const dblEps = 2.220446049250313e-16 // 2^-52
const prec = 200

type capMirror struct {
	center s2.Point
	radius s1.ChordAngle
}

func capRadius(c s2.Cap) float64 {
	return float64((*capMirror)(unsafe.Pointer(&c)).radius)
}

func faceUVToXYZ(face int, u, v float64) r3.Vector {
	switch face {
	case 0:
		return r3.Vector{X: 1, Y: u, Z: v}
	case 1:
		return r3.Vector{X: -u, Y: 1, Z: v}
	case 2:
		return r3.Vector{X: -u, Y: -v, Z: 1}
	case 3:
		return r3.Vector{X: -1, Y: -v, Z: -u}
	case 4:
		return r3.Vector{X: v, Y: -1, Z: -u}
	default:
		return r3.Vector{X: v, Y: u, Z: -1}
	}
}

func bf(x float64) *big.Float { return new(big.Float).SetPrec(prec).SetFloat64(x) }

func norm2Big(p r3.Vector) *big.Float {
	x, y, z := bf(p.X), bf(p.Y), bf(p.Z)
	s := new(big.Float).SetPrec(prec).Mul(x, x)
	t := new(big.Float).SetPrec(prec).Mul(y, y)
	s.Add(s, t)
	t.Mul(z, z)
	s.Add(s, t)
	return s
}

var one = bf(1)
var gradeTol = bf(4.5 * dblEps)

// isNormalizeGrade: | |p|^2 - 1 | <= 4.5 * 2^-52 exactly.
func isNormalizeGrade(p r3.Vector) bool {
	n2 := norm2Big(p)
	n2.Sub(n2, one)
	n2.Abs(n2)
	return n2.Cmp(gradeTol) <= 0
}

// exact squared chord between unit directions of c and p: 2 - 2 (c.p)/sqrt(|c|^2 |p|^2)
func exactDirChord2(c, p r3.Vector) *big.Float {
	dot := new(big.Float).SetPrec(prec)
	t := new(big.Float).SetPrec(prec)
	dot.Mul(bf(c.X), bf(p.X))
	t.Mul(bf(c.Y), bf(p.Y))
	dot.Add(dot, t)
	t.Mul(bf(c.Z), bf(p.Z))
	dot.Add(dot, t)
	nn := new(big.Float).SetPrec(prec).Mul(norm2Big(c), norm2Big(p))
	nn.Sqrt(nn)
	dot.Quo(dot, nn)
	dot.Mul(dot, bf(2))
	r := new(big.Float).SetPrec(prec).Sub(bf(2), dot)
	return r
}

// exact |c-p|^2 of the given (not renormalised) vectors
func exactRawChord2(c, p r3.Vector) *big.Float {
	s := new(big.Float).SetPrec(prec)
	for _, pr := range [][2]float64{{c.X, p.X}, {c.Y, p.Y}, {c.Z, p.Z}} {
		d := new(big.Float).SetPrec(prec).Sub(bf(pr[0]), bf(pr[1]))
		d.Mul(d, d)
		s.Add(s, d)
	}
	return s
}

func step(x float64, j int) float64 {
	for ; j > 0; j-- {
		x = math.Nextafter(x, math.Inf(1))
	}
	for ; j < 0; j++ {
		x = math.Nextafter(x, math.Inf(-1))
	}
	return x
}

type best struct {
	set    bool
	margin float64 // in units of 2^-52
	desc   string
}

type levelStats struct {
	candidates          int64 // Normalize-grade candidates generated
	accepted            int64 // cell.ContainsPoint true
	capOK               int64
	capRejected         int64
	minMargin           best // smallest float margin among accepted
	maxPush             best // accepted candidate with the smallest exact margin (radius - exact dir chord^2), i.e. the largest push
	maxPushExact        *big.Float
	climbSteps          int64
	minCornerPushMargin best // min over corners of the float margin of the per-corner max-exact-angle candidate
}

func describe(cell s2.Cell, corner int, U, V float64, p r3.Vector, cp s2.Cap, tag string) string {
	ctr := cp.Center()
	rad := capRadius(cp)
	d := float64(s2.ChordAngleBetweenPoints(ctr, s2.Point{Vector: p}))
	return fmt.Sprintf("cell id=%#016x token=%s level=%d face=%d corner=%d tag=%s\n"+
		"    U=%.17g (%016x) V=%.17g (%016x)\n"+
		"    p.X=%.17g (%016x)\n    p.Y=%.17g (%016x)\n    p.Z=%.17g (%016x)\n"+
		"    cap centre X=%.17g (%016x) Y=%.17g (%016x) Z=%.17g (%016x)\n"+
		"    cap radius(chord^2)=%.17g (%016x)  computed dist=%.17g (%016x)  (radius-dist)/2^-52=%.4f",
		uint64(cell.ID()), cell.ID().ToToken(), cell.Level(), cell.Face(), corner, tag,
		U, math.Float64bits(U), V, math.Float64bits(V),
		p.X, math.Float64bits(p.X), p.Y, math.Float64bits(p.Y), p.Z, math.Float64bits(p.Z),
		ctr.X, math.Float64bits(ctr.X), ctr.Y, math.Float64bits(ctr.Y), ctr.Z, math.Float64bits(ctr.Z),
		rad, math.Float64bits(rad), d, math.Float64bits(d), (rad-d)/dblEps)
}

func main() {
	start := time.Now()
	out := os.Stdout
	const maxLevel = 3
	const nbr = 2 // neighbours: each coordinate moved by -nbr..+nbr ulps (5^3=125 >= the required 27)
	stats := make([]levelStats, maxLevel+1)
	violations := 0
	ts := []float64{1, 1 - 0x1p-53, 1 + 0x1p-52, 1 - 0x1p-52, 1 + 0x1p-51, 1 - 0x1p-51}

	for level := 0; level <= maxLevel; level++ {
		st := &stats[level]
		for f := 0; f < 6; f++ {
			root := s2.CellIDFromFace(f)
			for id := root.ChildBeginAtLevel(level); id != root.ChildEndAtLevel(level); id = id.Next() {
				cell := s2.CellFromCellID(id)
				cp := cell.CapBound()
				ctr := cp.Center()
				rad := capRadius(cp)
				radBig := bf(rad)
				uv := cell.BoundUV()
				for corner := 0; corner < 4; corner++ {
					var uc, vc, su, sv float64
					if corner&1 == 0 {
						uc, su = uv.X.Lo, -1
					} else {
						uc, su = uv.X.Hi, 1
					}
					if corner&2 == 0 {
						vc, sv = uv.Y.Lo, -1
					} else {
						vc, sv = uv.Y.Hi, 1
					}
					// exactly what ExpandedByMargin computes
					var U0, V0 float64
					margin := 2 * dblEps
					if su < 0 {
						U0 = uc - margin
					} else {
						U0 = uc + margin
					}
					if sv < 0 {
						V0 = vc - margin
					} else {
						V0 = vc + margin
					}
					var cornerBestExact *big.Float
					var cornerBestMargin float64
					var cornerBestDesc string
					var cornerRawBest *big.Float
					var cornerRawP r3.Vector

					try := func(p r3.Vector, U, V float64, tag string) {
						if !isNormalizeGrade(p) {
							return
						}
						st.candidates++
						pt := s2.Point{Vector: p}
						if !cell.ContainsPoint(pt) {
							return
						}
						st.accepted++
						inCap := cp.ContainsPoint(pt)
						d := float64(s2.ChordAngleBetweenPoints(ctr, pt))
						m := (rad - d) / dblEps
						if inCap {
							st.capOK++
						} else {
							st.capRejected++
							violations++
							if violations <= 200 {
								fmt.Fprintf(out, "!!!!!! C12 VIOLATION !!!!!! ContainsPoint true but CapBound().ContainsPoint false:\n%s\n", describe(cell, corner, U, V, p, cp, tag))
							}
						}
						if !st.minMargin.set || m < st.minMargin.margin {
							st.minMargin = best{true, m, describe(cell, corner, U, V, p, cp, tag)}
						}
						ex := exactDirChord2(ctr.Vector, p)
						// per corner: largest exact raw |C-p|^2 (what Cap.ContainsPoint approximates), for the hill climb
						raw := exactRawChord2(ctr.Vector, p)
						if cornerRawBest == nil || raw.Cmp(cornerRawBest) > 0 {
							cornerRawBest = raw
							cornerRawP = p
						}
						// per corner: largest exact angle from the cap centre
						if cornerBestExact == nil || ex.Cmp(cornerBestExact) > 0 {
							cornerBestExact = ex
							cornerBestMargin = m
							cornerBestDesc = describe(cell, corner, U, V, p, cp, tag)
						}
						// per level: smallest exact margin radius - exact chord^2
						em := new(big.Float).SetPrec(prec).Sub(radBig, ex)
						if st.maxPushExact == nil || em.Cmp(st.maxPushExact) < 0 {
							st.maxPushExact = em
							emf, _ := em.Float64()
							st.maxPush = best{true, emf / dblEps, describe(cell, corner, U, V, p, cp, tag)}
						}
					}

					for ju := -3; ju <= 3; ju++ {
						U := step(U0, ju)
						for jv := -3; jv <= 3; jv++ {
							V := step(V0, jv)
							q := faceUVToXYZ(cell.Face(), U, V)
							p0 := q.Normalize()
							try(p0, U, V, "Normalize")
							n2 := q.Norm2()
							n := math.Sqrt(n2)
							inv := 1 / n
							for ti, t := range ts {
								try(q.Mul(t*inv), U, V, fmt.Sprintf("q*(t*inv),t#%d", ti))
								try(q.Mul(t/n), U, V, fmt.Sprintf("q*(t/n),t#%d", ti))
								try(q.Mul(inv).Mul(t), U, V, fmt.Sprintf("q*inv*t,t#%d", ti))
								try(r3.Vector{X: q.X / (n * t), Y: q.Y / (n * t), Z: q.Z / (n * t)}, U, V, fmt.Sprintf("q/(n*t),t#%d", ti))
								try(r3.Vector{X: q.X * t / n, Y: q.Y * t / n, Z: q.Z * t / n}, U, V, fmt.Sprintf("q*t/n,t#%d", ti))
							}
							// neighbours of p0
							for dx := -nbr; dx <= nbr; dx++ {
								for dy := -nbr; dy <= nbr; dy++ {
									for dz := -nbr; dz <= nbr; dz++ {
										if dx == 0 && dy == 0 && dz == 0 {
											continue
										}
										p := r3.Vector{X: step(p0.X, dx), Y: step(p0.Y, dy), Z: step(p0.Z, dz)}
										try(p, U, V, fmt.Sprintf("nbr(%d,%d,%d)", dx, dy, dz))
									}
								}
							}
						}
					}
					// hill climb: from the accepted candidate with the largest exact |C-p|^2, explore all
					// (+-3 ulp)^3 neighbours repeatedly while an accepted Normalize-grade neighbour is farther.
					if cornerRawBest != nil {
						for iter := 0; iter < 200; iter++ {
							prev := cornerRawP
							for dx := -3; dx <= 3; dx++ {
								for dy := -3; dy <= 3; dy++ {
									for dz := -3; dz <= 3; dz++ {
										if dx == 0 && dy == 0 && dz == 0 {
											continue
										}
										p := r3.Vector{X: step(prev.X, dx), Y: step(prev.Y, dy), Z: step(prev.Z, dz)}
										try(p, math.NaN(), math.NaN(), fmt.Sprintf("climb%d(%d,%d,%d)", iter, dx, dy, dz))
									}
								}
							}
							if cornerRawP == prev {
								break
							}
							st.climbSteps++
						}
					}
					if cornerBestExact != nil {
						if !st.minCornerPushMargin.set || cornerBestMargin < st.minCornerPushMargin.margin {
							st.minCornerPushMargin = best{true, cornerBestMargin, cornerBestDesc}
						}
					}
				}
			}
		}
		fmt.Fprintf(out, "=== level %d: cells=%d normalize-grade candidates=%d cell-accepted=%d cap-accepted=%d cap-REJECTED=%d hill-climb-steps=%d (elapsed %v)\n",
			level, 6*(1<<(2*uint(level))), st.candidates, st.accepted, st.capOK, st.capRejected, st.climbSteps, time.Since(start).Round(time.Millisecond))
		if st.minMargin.set {
			fmt.Fprintf(out, "  smallest float margin (radius - ChordAngleBetweenPoints(centre,p)) among cell-accepted = %.4f * 2^-52\n  %s\n", st.minMargin.margin, st.minMargin.desc)
		}
		if st.maxPush.set {
			fmt.Fprintf(out, "  smallest EXACT margin (radius - exact squared chord between directions of centre and p) among cell-accepted = %.4f * 2^-52\n  %s\n", st.maxPush.margin, st.maxPush.desc)
		}
		if st.minCornerPushMargin.set {
			fmt.Fprintf(out, "  min over corners of float margin of the per-corner max-exact-angle accepted candidate = %.4f * 2^-52\n  %s\n", st.minCornerPushMargin.margin, st.minCornerPushMargin.desc)
		}
	}
	fmt.Fprintf(out, "\nSUMMARY\n")
	for level := 0; level <= maxLevel; level++ {
		st := &stats[level]
		fmt.Fprintf(out, "level %d: candidates=%d accepted=%d capOK=%d capREJECTED=%d minFloatMargin=%.4f eps minExactMargin=%.4f eps\n",
			level, st.candidates, st.accepted, st.capOK, st.capRejected, st.minMargin.margin, st.maxPush.margin)
	}
	if violations == 0 {
		fmt.Fprintf(out, "NO C12 VIOLATION FOUND (total rejected = 0)\n")
	} else {
		fmt.Fprintf(out, "C12 VIOLATIONS FOUND: %d\n", violations)
	}
	fmt.Fprintf(out, "total elapsed %v\n", time.Since(start).Round(time.Millisecond))
}
