module c12edgeatt_gotest

go 1.21.0

toolchain go1.23.5

require github.com/golang/geo v0.0.0

replace github.com/golang/geo => /repo
