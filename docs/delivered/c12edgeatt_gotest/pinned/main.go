// Pinned instances of lean/S2Proofs/Properties/C12_Attained2.lean against the unmodified /repo.
package main

import (
	"fmt"
	"math"

	"github.com/golang/geo/r3"
	"github.com/golang/geo/s2"
)

func pt(x, y, z uint64) s2.Point {
	return s2.Point{Vector: r3.Vector{X: math.Float64frombits(x), Y: math.Float64frombits(y), Z: math.Float64frombits(z)}}
}

func main() {
	c := s2.CellFromCellID(s2.CellID(0x151f000000000000))
	a := pt(0x3fe4cc156ec0eda1, 0x3fe1174c2d370f41, 0x3fe14d6bb31226ab)
	b := pt(0x3fe67da04882f597, 0x3fdaed7919b3def3, 0x3fe25ac9d83af239)
	fmt.Printf("Distance(a)=%016x Distance(b)=%016x\n", math.Float64bits(float64(c.Distance(a))), math.Float64bits(float64(c.Distance(b))))
	fmt.Printf("DistanceToEdge(cellB, crA, crB) = %016x (expect 0: crossing-loop return)\n", math.Float64bits(float64(c.DistanceToEdge(a, b))))
	for k := 0; k < 4; k++ {
		fmt.Printf("  CrossingSign(a,b,V%d,V%d) = %v\n", (k+3)%4, k, s2.CrossingSign(a, b, c.Vertex((k+3)%4), c.Vertex(k)))
	}
	p := pt(0x3fe598895dbbef9a, 0x3fdf4875a69d1244, 0x3fe1b0d4317e2911)
	fmt.Printf("pOutB: Cell.ContainsPoint = %v, CapBound().ContainsPoint = %v, u=y/x = %.20g, u1 = %.20g\n",
		c.ContainsPoint(p), c.CapBound().ContainsPoint(p), p.Y/p.X, c.BoundUV().X.Hi)
	f0 := s2.CellFromCellID(s2.CellID(0x1000000000000000))
	pc := pt(0x3fe279a74590331d, 0xbfe279a74590331f, 0xbfe279a74590331f)
	capf := f0.CapBound()
	fmt.Printf("pCorner (face cell 1000…): Cell.ContainsPoint = %v, CapBound().ContainsPoint = %v, y/x = %.20g, z/x = %.20g, cap = %v\n",
		f0.ContainsPoint(pc), capf.ContainsPoint(pc), pc.Y/pc.X, pc.Z/pc.X, capf)
}
