// Witness for the C17 finding "ChordAngle.MaxPointError (minUpdateDistanceMaxError) is not an upper bound for
// outputs of Normalize".  Stand-alone; runs against the repository under /repo:
//
//	cd docs/findings/c17err_maxpointerror
//	GOFLAGS=-mod=mod GOPROXY=off GOSUMDB=off GOTOOLCHAIN=local go run .
//
// It normalises two given vectors with r3.Vector.Normalize, evaluates ChordAngleBetweenPoints and
// UpdateMinDistance (degenerate edge and a proper edge whose nearest point is the vertex a), and compares with the
// exact squared chord between the DIRECTIONS of the points (math/big, 400 bits).
// Kernel-checked counterpart: lean/S2Proofs/C17Err/Witness.lean, S2Proofs.C17.not_vertexBoundOnNormalizeOutputs.
package main

import (
	"fmt"
	"math"
	"math/big"

	"github.com/golang/geo/r3"
	"github.com/golang/geo/s1"
	"github.com/golang/geo/s2"
)

const prec = 400

func bf(x float64) *big.Float { return new(big.Float).SetPrec(prec).SetFloat64(x) }
func dotB(a, b r3.Vector) *big.Float {
	s := new(big.Float).SetPrec(prec)
	for _, p := range [][2]float64{{a.X, b.X}, {a.Y, b.Y}, {a.Z, b.Z}} {
		t := bf(p[0])
		t.Mul(t, bf(p[1]))
		s.Add(s, t)
	}
	return s
}
func trueChord2(a, b r3.Vector) *big.Float {
	na := new(big.Float).SetPrec(prec).Sqrt(dotB(a, a))
	nb := new(big.Float).SetPrec(prec).Sqrt(dotB(b, b))
	d := dotB(a, b)
	d.Quo(d, na.Mul(na, nb))
	d.Mul(d, bf(2))
	r := bf(2)
	return r.Sub(r, d)
}
func normErrU(v r3.Vector) float64 {
	s := dotB(v, v)
	s.Sub(s, bf(1))
	f, _ := s.Float64()
	return f / 2 / math.Ldexp(1, -53)
}
func vec(x, y, z uint64) r3.Vector {
	return r3.Vector{X: math.Float64frombits(x), Y: math.Float64frombits(y), Z: math.Float64frombits(z)}
}
func hx(v r3.Vector) string {
	return fmt.Sprintf("%016x %016x %016x", math.Float64bits(v.X), math.Float64bits(v.Y), math.Float64bits(v.Z))
}

func main() {
	u := math.Ldexp(1, -53)
	v := vec(0x3ea5baa702fea83e, 0x3fe1ca3a26234dfc, 0x3f3a7092ff079dca)
	w := vec(0xbfe1e9d3c4c09b7c, 0xbf24f701ae9ed18f, 0x3e8796ae33ea9e76)
	x, a := s2.Point{Vector: v.Normalize()}, s2.Point{Vector: w.Normalize()}
	fmt.Println("x = Normalize(v) =", hx(x.Vector), fmt.Sprintf("  |x|-1 = %.3f * 2^-53", normErrU(x.Vector)))
	fmt.Println("a = Normalize(w) =", hx(a.Vector), fmt.Sprintf("  |a|-1 = %.3f * 2^-53", normErrU(a.Vector)))
	T := trueChord2(x.Vector, a.Vector)
	report := func(name string, d s1.ChordAngle) {
		e := new(big.Float).SetPrec(prec).Sub(bf(float64(d)), T)
		ef, _ := e.Float64()
		fmt.Printf("%-34s = %016x  error %.3f * 2^-53   MaxPointError %016x = %.3f * 2^-53   %s\n", name,
			math.Float64bits(float64(d)), ef/u, math.Float64bits(d.MaxPointError()), d.MaxPointError()/u,
			map[bool]string{true: "VIOLATED", false: "ok"}[math.Abs(ef) > d.MaxPointError()])
	}
	fmt.Printf("true squared chord of the directions = %s\n", T.Text('g', 32))
	report("ChordAngleBetweenPoints(x,a)", s2.ChordAngleBetweenPoints(x, a))
	d1, _ := s2.UpdateMinDistance(x, a, a, s1.InfChordAngle())
	report("UpdateMinDistance(x,a,a,Inf)", d1)
	// a proper edge a -> b that leads away from x (b = reflection of x in a, renormalised): the nearest point is a
	b := s2.Point{Vector: a.Vector.Mul(2 * a.Vector.Dot(x.Vector)).Sub(x.Vector).Normalize()}
	fmt.Println("b                =", hx(b.Vector))
	d2, _ := s2.UpdateMinDistance(x, a, b, s1.InfChordAngle())
	report("UpdateMinDistance(x,a,b,Inf)", d2)
	// for dist >= 2 (more than 90 degrees) minUpdateDistanceMaxError(dist) = max(0, dist.MaxPointError())
}
