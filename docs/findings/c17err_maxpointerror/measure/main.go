// Measures the range of |Normalize(v)| - 1 in units of 2^-53 over 2e7 random vectors (observed: -2.99 .. +3.18).
// Run: GOFLAGS=-mod=mod GOPROXY=off GOSUMDB=off GOTOOLCHAIN=local go run ./measure
package main

import (
	"fmt"
	"math"
	"math/big"
	"math/rand"

	"github.com/golang/geo/r3"
)

func n2err(v r3.Vector) float64 {
	s := new(big.Float).SetPrec(300)
	for _, c := range []float64{v.X, v.Y, v.Z} {
		t := new(big.Float).SetPrec(300).SetFloat64(c)
		t.Mul(t, t)
		s.Add(s, t)
	}
	s.Sub(s, big.NewFloat(1))
	f, _ := s.Float64()
	return f / 2 // ≈ |p| − 1
}

func main() {
	rng := rand.New(rand.NewSource(1))
	u := math.Ldexp(1, -53)
	maxp, maxn := 0.0, 0.0
	var wp, wn r3.Vector
	N := 20000000
	for i := 0; i < N; i++ {
		var v r3.Vector
		switch i % 4 {
		case 0:
			v = r3.Vector{rng.NormFloat64(), rng.NormFloat64(), rng.NormFloat64()}
		case 1:
			v = r3.Vector{rng.Float64(), rng.Float64() * 1e-3, rng.Float64() * 1e-6}
		case 2:
			v = r3.Vector{1 + rng.Float64(), 1 + rng.Float64(), 1 + rng.Float64()}
		default:
			v = r3.Vector{rng.Float64(), rng.Float64(), 0}
		}
		p := v.Normalize()
		e := n2err(p) / u
		if e > maxp {
			maxp, wp = e, v
		}
		if e < maxn {
			maxn, wn = e, v
		}
	}
	fmt.Printf("N=%d  max (|p|-1)/u = %.4f  min = %.4f\n", N, maxp, maxn)
	fmt.Printf("worst+ %x %x %x\nworst- %x %x %x\n", math.Float64bits(wp.X), math.Float64bits(wp.Y), math.Float64bits(wp.Z),
		math.Float64bits(wn.X), math.Float64bits(wn.Y), math.Float64bits(wn.Z))
}
