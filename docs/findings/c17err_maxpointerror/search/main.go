// Random search that found the witness: pool of Normalize outputs that are >= 2.75*2^-53 too long, all pairs.
// Run: GOFLAGS=-mod=mod GOPROXY=off GOSUMDB=off GOTOOLCHAIN=local go run ./search
package main

import (
	"fmt"
	"math"
	"math/big"
	"math/rand"

	"github.com/golang/geo/r3"
	"github.com/golang/geo/s2"
)

const prec = 300

func bf(x float64) *big.Float { return new(big.Float).SetPrec(prec).SetFloat64(x) }

func dotB(a, b r3.Vector) *big.Float {
	s := new(big.Float).SetPrec(prec)
	for _, p := range [][2]float64{{a.X, b.X}, {a.Y, b.Y}, {a.Z, b.Z}} {
		t := bf(p[0])
		t.Mul(t, bf(p[1]))
		s.Add(s, t)
	}
	return s
}

// exact squared chord between the directions of a and b
func trueChord2(a, b r3.Vector) *big.Float {
	na := new(big.Float).SetPrec(prec).Sqrt(dotB(a, a))
	nb := new(big.Float).SetPrec(prec).Sqrt(dotB(b, b))
	d := dotB(a, b)
	d.Quo(d, na.Mul(na, nb))
	d.Mul(d, bf(2))
	r := bf(2)
	return r.Sub(r, d)
}

func normErrU(v r3.Vector) float64 {
	s := dotB(v, v)
	s.Sub(s, bf(1))
	f, _ := s.Float64()
	return f / 2 / math.Ldexp(1, -53)
}

func main() {
	rng := rand.New(rand.NewSource(7))
	var long []s2.Point
	N := 60000000
	for i := 0; i < N && len(long) < 400; i++ {
		var v r3.Vector
		if i%2 == 0 {
			v = r3.Vector{rng.Float64(), rng.Float64() * 1e-3, rng.Float64() * 1e-6}
		} else {
			v = r3.Vector{rng.NormFloat64(), rng.NormFloat64(), rng.NormFloat64()}
		}
		// random permutation / signs
		switch rng.Intn(3) {
		case 1:
			v = r3.Vector{v.Y, v.Z, v.X}
		case 2:
			v = r3.Vector{v.Z, v.X, v.Y}
		}
		if rng.Intn(2) == 0 {
			v.X = -v.X
		}
		if rng.Intn(2) == 0 {
			v.Y = -v.Y
		}
		p := v.Normalize()
		// cheap float filter first
		n2 := p.X*p.X + p.Y*p.Y + p.Z*p.Z
		if n2 < 1+2.5*math.Ldexp(1, -52) {
			continue
		}
		if normErrU(p) >= 2.75 {
			long = append(long, s2.Point{Vector: p})
		}
	}
	fmt.Println("pool of long unit vectors:", len(long))
	u := math.Ldexp(1, -53)
	worst := 0.0
	cnt := 0
	for i := range long {
		for j := range long {
			if i == j {
				continue
			}
			x, a := long[i], long[j]
			d := s2.ChordAngleBetweenPoints(x, a)
			T := trueChord2(x.Vector, a.Vector)
			e := new(big.Float).SetPrec(prec).Sub(bf(float64(d)), T)
			ef, _ := e.Float64()
			bound := d.MaxPointError()
			r := math.Abs(ef) / bound
			if r > worst {
				worst = r
				fmt.Printf("ratio %.4f  err %.3f u*d  d=%.6f  x=%016x %016x %016x (|x|-1=%.2fu) a=%016x %016x %016x (|a|-1=%.2fu)\n",
					r, ef/u/float64(d), float64(d),
					math.Float64bits(x.X), math.Float64bits(x.Y), math.Float64bits(x.Z), normErrU(x.Vector),
					math.Float64bits(a.X), math.Float64bits(a.Y), math.Float64bits(a.Z), normErrU(a.Vector))
			}
			if r > 1 {
				cnt++
			}
		}
	}
	fmt.Println("violations:", cnt, "worst ratio", worst)
}
