package main

// Statements: a Go statement list becomes the body of a `do` block of the monad Dec.

import (
	"fmt"
	"go/ast"
	"go/constant"
	"go/token"
	"go/types"
	"strings"
)

type snapshot struct {
	env    map[types.Object]val
	fields map[string]val
	effect []string
	elemF  map[string]val
	elemW  *val
}

func (c *fctx) snap() snapshot {
	s := snapshot{env: map[types.Object]val{}, fields: map[string]val{}, effect: append([]string{}, c.effect...)}
	for k, v := range c.env {
		s.env[k] = v
	}
	for k, v := range c.fields {
		s.fields[k] = v
	}
	if c.elem != nil {
		s.elemF = map[string]val{}
		for k, v := range c.elem.fields {
			s.elemF[k] = v
		}
		s.elemW = c.elem.whole
	}
	return s
}

func (c *fctx) restore(s snapshot) {
	c.env, c.fields, c.effect = map[types.Object]val{}, map[string]val{}, append([]string{}, s.effect...)
	for k, v := range s.env {
		c.env[k] = v
	}
	for k, v := range s.fields {
		c.fields[k] = v
	}
	if c.elem != nil {
		c.elem.fields = map[string]val{}
		for k, v := range s.elemF {
			c.elem.fields[k] = v
		}
		c.elem.whole = s.elemW
	}
}

func (c *fctx) flush(ind string) string {
	out := ""
	for _, l := range c.pre {
		out += ind + l + "\n"
	}
	c.pre = nil
	return out
}

// isErrChk: `if d.err != nil { return … }`
func (c *fctx) isErrChk(s ast.Stmt) bool {
	is, ok := s.(*ast.IfStmt)
	if !ok || is.Init != nil || is.Else != nil || len(is.Body.List) != 1 {
		return false
	}
	if eq, ok := c.errIs(is.Cond); !ok || eq {
		return false
	}
	_, ok = is.Body.List[0].(*ast.ReturnStmt)
	return ok
}

// isSetErr: `d.err = fmt.Errorf(…)` / `errors.New(…)`
func (c *fctx) isSetErr(s ast.Stmt) bool {
	a, ok := s.(*ast.AssignStmt)
	if !ok || a.Tok != token.ASSIGN || len(a.Lhs) != 1 || len(a.Rhs) != 1 || !c.isErr(a.Lhs[0]) {
		return false
	}
	return isErrorCtor(a.Rhs[0])
}

func isErrorCtor(e ast.Expr) bool {
	call, ok := unparen(e).(*ast.CallExpr)
	if !ok {
		return false
	}
	k := oneLine(call.Fun)
	return k == "fmt.Errorf" || k == "errors.New"
}

func (c *fctx) opaqueKey(s ast.Stmt) (string, bool) {
	k := c.key + "|" + oneLine(s)
	_, ok := opaque[k]
	return k, ok
}

// seq translates list; k produces what follows the list (the rest of the enclosing block / the function result).
func (c *fctx) seq(list []ast.Stmt, ind string, k func(ind string) string) string {
	if len(list) == 0 {
		return k(ind)
	}
	s := list[0]
	rest := func(ind string) string { return c.seq(list[1:], ind, k) }
	if c.isErrChk(s) {
		return rest(ind)
	}
	if c.isSetErr(s) {
		// whatever follows is executed with d.err != nil: only `return` is accepted
		for _, r := range list[1:] {
			if _, ok := r.(*ast.ReturnStmt); !ok {
				fatal(r.Pos(), "statement after `d.err = …` is not a return")
			}
		}
		return ind + "Dec.fail\n"
	}
	if ok, eff := c.opaqueStmt(s); ok {
		if eff != "" {
			c.effect = append(c.effect, eff)
		}
		return rest(ind)
	}
	switch s := s.(type) {
	case *ast.IfStmt:
		return c.ifStmt(s, ind, rest)
	case *ast.AssignStmt:
		code := c.assign(s, ind)
		return code + rest(ind)
	case *ast.DeclStmt:
		c.declStmt(s)
		return c.flush(ind) + rest(ind)
	case *ast.ExprStmt:
		code := c.exprStmt(s, ind)
		return code + rest(ind)
	case *ast.ReturnStmt:
		return c.returnStmt(s, ind)
	case *ast.RangeStmt:
		code := c.rangeStmt(s, ind)
		return code + rest(ind)
	case *ast.ForStmt:
		code := c.forStmt(s, ind)
		return code + rest(ind)
	case *ast.SwitchStmt:
		return c.switchStmt(s, ind, rest)
	case *ast.IncDecStmt:
		fatal(s.Pos(), "statement `%s` is not translated outside a loop header", oneLine(s))
	}
	fatal(s.Pos(), "statement `%s` (%T) is not translated", oneLine(s), s)
	return ""
}

func (c *fctx) opaqueStmt(s ast.Stmt) (bool, string) {
	k, ok := c.opaqueKey(s)
	if !ok {
		return false, ""
	}
	eff := opaque[k]
	if eff == "initBoundC" {
		v, ok := c.fields["vertices"]
		if !ok || v.ln == "" {
			fatal(s.Pos(), "initBound before the vertices are decoded")
		}
		eff = "initBoundC " + paren(v.ln)
	}
	return true, eff
}

func (c *fctx) ifStmt(s *ast.IfStmt, ind string, rest func(string) string) string {
	if s.Init != nil {
		if code, ok := c.facesNextPattern(s, ind, rest); ok {
			return code
		}
		cp := *s
		cp.Init = nil
		return c.seq([]ast.Stmt{s.Init, &cp}, ind, rest)
	}
	// `if C { f = g }` for a function-valued local
	if s.Else == nil && len(s.Body.List) == 1 {
		if a, ok := s.Body.List[0].(*ast.AssignStmt); ok && a.Tok == token.ASSIGN && len(a.Lhs) == 1 {
			if id, ok := unparen(a.Lhs[0]).(*ast.Ident); ok {
				if v, ok := c.env[c.obj(id)]; ok && v.c == "Func" {
					t, _ := c.cond(s.Cond)
					nv := c.funcValue(a.Rhs[0])
					c.env[c.obj(id)] = val{c: "Func", fn: &funcAlt{cond: t, then: nv.fn, els: v.fn}}
					c.noteGuard(s, t)
					return c.flush(ind) + rest(ind)
				}
			}
		}
	}
	if eq, ok := c.errIs(s.Cond); ok && eq && s.Else == nil {
		// `if d.err == nil { S }`: the condition holds on the translated path
		return c.seq(s.Body.List, ind, rest)
	}
	t, _ := c.cond(s.Cond)
	pre := c.flush(ind)
	c.noteGuard(s, t)
	sn := c.snap()
	thenCode := c.seq(s.Body.List, ind+"  ", rest)
	c.restore(sn)
	var elseList []ast.Stmt
	switch e := s.Else.(type) {
	case nil:
	case *ast.BlockStmt:
		elseList = e.List
	default:
		elseList = []ast.Stmt{e}
	}
	elseCode := c.seq(elseList, ind+"  ", rest)
	return pre + ind + "if " + t + " then do\n" + thenCode + ind + "else do\n" + elseCode
}

// `if ok := it.next(); !ok && d.err == nil { d.err = …; return }` for a facesIterator `it`:
// match facesNext it with | none => Dec.fail | some (curFace, it') => rest
func (c *fctx) facesNextPattern(s *ast.IfStmt, ind string, rest func(string) string) (string, bool) {
	a, ok := s.Init.(*ast.AssignStmt)
	if !ok || a.Tok != token.DEFINE || len(a.Lhs) != 1 || len(a.Rhs) != 1 {
		return "", false
	}
	call, ok := unparen(a.Rhs[0]).(*ast.CallExpr)
	if !ok {
		return "", false
	}
	key, _ := c.callee(call)
	if key != "s2.facesIterator.next" {
		return "", false
	}
	se := unparen(call.Fun).(*ast.SelectorExpr)
	itID, ok := unparen(se.X).(*ast.Ident)
	if !ok {
		fatal(call.Pos(), "facesIterator.next on `%s`", oneLine(se.X))
	}
	itObj := c.obj(itID)
	it, ok := c.env[itObj]
	if !ok || it.c != "FacesIt" {
		fatal(call.Pos(), "`%s` is not a faces iterator", itID.Name)
	}
	okID := a.Lhs[0].(*ast.Ident)
	// the condition must be `!ok && d.err == nil` and the body `d.err = …; return`
	want := "!" + okID.Name + " && " + oneLine(c.fd.Type.Params.List[0].Names[0]) + ".err == nil"
	if c.dobj != nil {
		want = "!" + okID.Name + " && " + c.dobj.Name() + ".err == nil"
	}
	if oneLine(s.Cond) != want || s.Else != nil || len(s.Body.List) != 2 || !c.isSetErr(s.Body.List[0]) {
		fatal(s.Pos(), "use of facesIterator.next is not of the form `if ok := it.next(); !ok && d.err == nil { d.err = …; return }`")
	}
	if _, ok := s.Body.List[1].(*ast.ReturnStmt); !ok {
		fatal(s.Pos(), "facesIterator.next: error branch does not return")
	}
	n := c.fresh(itID.Name)
	c.env[itObj] = val{t: n, c: "FacesIt"}
	c.noteGuard(s, "(S2.Codec.facesNext "+it.t+").isNone")
	out := ind + "match S2.Codec.facesNext " + it.t + " with\n"
	out += ind + "| none => Dec.fail\n"
	out += ind + "| some (" + n + "_curFace, " + n + ") => do\n"
	out += rest(ind + "  ")
	return out, true
}

func (c *fctx) funcValue(e ast.Expr) val {
	e = unparen(e)
	switch x := e.(type) {
	case *ast.Ident:
		if fn, ok := c.obj(x).(*types.Func); ok {
			return val{c: "Func", fn: &funcAlt{name: funcKey(fn)}}
		}
	case *ast.SelectorExpr:
		if sel, ok := c.info().Selections[x]; ok && sel.Kind() == types.MethodVal {
			if !c.isRecv(x.X) {
				fatal(x.Pos(), "method value `%s` of something that is not the receiver", oneLine(x))
			}
			return val{c: "Func", fn: &funcAlt{name: funcKey(sel.Obj().(*types.Func)) + "@recv"}}
		}
	}
	fatal(e.Pos(), "function value `%s` is not translated", oneLine(e))
	return val{}
}

func (c *fctx) declStmt(s *ast.DeclStmt) {
	gd, ok := s.Decl.(*ast.GenDecl)
	if !ok || gd.Tok != token.VAR {
		fatal(s.Pos(), "declaration `%s` is not translated", oneLine(s))
	}
	for _, sp := range gd.Specs {
		vs := sp.(*ast.ValueSpec)
		if len(vs.Values) != 0 {
			fatal(vs.Pos(), "var with initialiser: `%s`", oneLine(s))
		}
		for _, id := range vs.Names {
			o := c.obj(id)
			tk := typeKey(o.Type())
			switch tk {
			case "int8":
				c.env[o] = val{t: "0", c: "Byte"}
			case "uint64":
				n := c.fresh(id.Name)
				c.pre = append(c.pre, "let "+n+" : UInt64 := 0")
				c.env[o] = val{t: n, c: "UInt64"}
			case "[]s2.faceRun":
				n := c.fresh(id.Name)
				c.pre = append(c.pre, "let "+n+" : List (Nat × Nat) := []")
				c.env[o] = val{t: n, c: "List (Nat × Nat)"}
			default:
				if _, isSig := o.Type().Underlying().(*types.Signature); isSig {
					c.env[o] = val{c: "Func"}
					continue
				}
				fatal(id.Pos(), "var of type %s is not translated", tk)
			}
		}
	}
}

// slot: where an assignment / decode call stores its value
type slot struct {
	kind string // var | field | whole | elemField | elemWhole | blank | index | indexField
	obj  types.Object
	path string
	name string
	idx  ast.Expr
}

// listVar: e is an identifier bound to a list value
func (c *fctx) listVar(e ast.Expr) (types.Object, bool) {
	id, ok := unparen(e).(*ast.Ident)
	if !ok {
		return nil, false
	}
	v, ok := c.env[c.obj(id)]
	return c.obj(id), ok && strings.HasPrefix(v.c, "List ")
}

func (c *fctx) idxNat(e ast.Expr) string {
	v := c.ex(e)
	switch v.c {
	case "Nat", "Const":
		return paren(c.asNat(v, e.Pos()))
	case "Int":
		return paren(v.t) + ".toNat"
	}
	fatal(e.Pos(), "index of carrier %s", v.c)
	return ""
}

func (c *fctx) slotOf(e ast.Expr) slot {
	e = unparen(e)
	if id, ok := e.(*ast.Ident); ok {
		if id.Name == "_" {
			return slot{kind: "blank"}
		}
		if c.isRecv(id) {
			return slot{kind: "whole", name: id.Name}
		}
		return slot{kind: "var", obj: c.obj(id), name: id.Name}
	}
	if st, ok := e.(*ast.StarExpr); ok && c.isRecv(st.X) {
		return slot{kind: "whole", name: oneLine(st.X)}
	}
	if c.isElem(e) {
		return slot{kind: "elemWhole", name: "e"}
	}
	if ix, ok := e.(*ast.IndexExpr); ok {
		if o, ok := c.listVar(ix.X); ok {
			return slot{kind: "index", obj: o, name: o.Name(), idx: ix.Index}
		}
	}
	root, path := c.selPath(e)
	if path != "" {
		last := path[strings.LastIndex(path, ".")+1:]
		if ix, ok := unparen(root).(*ast.IndexExpr); ok {
			if o, ok := c.listVar(ix.X); ok {
				return slot{kind: "indexField", obj: o, name: o.Name(), idx: ix.Index, path: path}
			}
		}
		if c.isRecv(root) {
			return slot{kind: "field", path: path, name: last}
		}
		if c.isElem(root) {
			return slot{kind: "elemField", path: path, name: last}
		}
	}
	fatal(e.Pos(), "assignment target `%s` is not translated", oneLine(e))
	return slot{}
}

func (c *fctx) store(sl slot, v val, p token.Pos) {
	switch sl.kind {
	case "blank":
	case "var":
		c.env[sl.obj] = v
	case "field":
		c.fields[sl.path] = v
	case "whole":
		c.fields["*"] = v
	case "elemField":
		c.elem.fields[sl.path] = v
	case "elemWhole":
		vv := v
		c.elem.whole = &vv
	case "index":
		old := c.env[sl.obj]
		if old.c != "List "+v.c {
			fatal(p, "storing a %s into a %s", v.c, old.c)
		}
		n := c.fresh(sl.name)
		c.pre = append(c.pre, "let "+n+" : "+leanType(old.c)+" := "+old.t+".set "+c.idxNat(sl.idx)+" "+paren(v.t))
		c.env[sl.obj] = val{t: n, c: old.c, ln: old.ln}
	case "indexField":
		old := c.env[sl.obj]
		f, ok := map[string]string{"X": "x", "Y": "y", "Z": "z"}[sl.path]
		if old.c != "List V3" || !ok || v.c != "F64" {
			fatal(p, "element field update %s of a %s with a %s is not translated", sl.path, old.c, v.c)
		}
		n := c.fresh(sl.name)
		c.pre = append(c.pre, "let "+n+" : "+leanType(old.c)+" := "+old.t+".modify "+c.idxNat(sl.idx)+" (fun q => { q with "+f+" := "+v.t+" })")
		c.env[sl.obj] = val{t: n, c: old.c, ln: old.ln}
	default:
		fatal(p, "bad slot")
	}
}

func (c *fctx) load(sl slot) (val, bool) {
	switch sl.kind {
	case "var":
		v, ok := c.env[sl.obj]
		return v, ok
	case "field":
		v, ok := c.fields[sl.path]
		return v, ok
	case "whole":
		v, ok := c.fields["*"]
		return v, ok
	case "elemField":
		v, ok := c.elem.fields[sl.path]
		return v, ok
	case "elemWhole":
		if c.elem.whole != nil {
			return *c.elem.whole, true
		}
	}
	return val{}, false
}

// want: how an `int(uvarint)` stored into this slot is carried
func (c *fctx) wantOf(sl slot) string {
	k := c.key + "|" + sl.kind + "|" + sl.path
	if sl.kind == "var" {
		k = c.key + "|var|" + sl.name
	}
	if natInts[k] {
		return "Nat"
	}
	return ""
}

// bindPure: `let n : T := term`, returns the variable
func (c *fctx) bindPure(hint string, v val) val {
	switch v.c {
	case "Const", "Fresh", "Func", "Coder", "FacesIt":
		return v
	}
	if !strings.ContainsAny(v.t, " ") {
		return v // a variable or literal already
	}
	n := c.fresh(hint)
	ty := leanType(v.c)
	c.pre = append(c.pre, "let "+n+" : "+ty+" := "+v.t)
	return val{t: n, c: v.c, ln: v.ln}
}

func (c *fctx) assign(s *ast.AssignStmt, ind string) string {
	p := s.Pos()
	// primitives: `d.err = binary.Read(d.r, binary.LittleEndian, &x)`, `x, d.err = d.r.ReadByte()`, …
	if code, ok := c.primAssign(s, ind); ok {
		return code
	}
	if len(s.Lhs) == 2 && len(s.Rhs) == 1 {
		call, ok := unparen(s.Rhs[0]).(*ast.CallExpr)
		if !ok {
			fatal(p, "tuple assignment `%s` is not translated", oneLine(s))
		}
		key, _ := c.callee(call)
		if key == "s2.deinterleaveUint32" {
			v := c.ex(call)
			t := c.fresh("t")
			c.pre = append(c.pre, "let "+t+" := "+v.t)
			a, b := c.slotOf(s.Lhs[0]), c.slotOf(s.Lhs[1])
			c.store(a, val{t: t + ".1", c: "UInt32"}, p)
			c.store(b, val{t: t + ".2", c: "UInt32"}, p)
			return c.flush(ind)
		}
		// a decoder function with two results and threaded coders
		return c.decoderCall(call, []slot{c.slotOf(s.Lhs[0]), c.slotOf(s.Lhs[1])}, ind)
	}
	if len(s.Lhs) != 1 || len(s.Rhs) != 1 {
		fatal(p, "assignment `%s` is not translated", oneLine(s))
	}
	sl := c.slotOf(s.Lhs[0])
	rhs := unparen(s.Rhs[0])
	switch s.Tok {
	case token.DEFINE, token.ASSIGN:
	case token.ADD_ASSIGN, token.OR_ASSIGN:
		old, ok := c.load(sl)
		if !ok {
			fatal(p, "`%s`: the target has no value yet", oneLine(s))
		}
		c.hint = sl.name
		r := c.exAs(rhs, c.wantOf(sl))
		var nv val
		switch {
		case s.Tok == token.ADD_ASSIGN && old.c == "Nat" && (r.c == "Nat" || r.c == "Const"):
			nv = val{t: old.t + " + " + c.asNat(r, p), c: "Nat"}
		case s.Tok == token.OR_ASSIGN && old.c == "UInt64" && r.c == "UInt64":
			nv = val{t: paren(old.t) + " ||| " + paren(r.t), c: "UInt64"}
		default:
			fatal(p, "`%s` on carriers %s, %s is not translated", s.Tok, old.c, r.c)
		}
		c.store(sl, c.bindPure(sl.name, nv), p)
		return c.flush(ind)
	default:
		fatal(p, "assignment operator %s is not translated", s.Tok)
	}
	// d := &decoder{r: asByteReader(r)}
	if u, ok := rhs.(*ast.UnaryExpr); ok && u.Op == token.AND {
		if cl, ok := unparen(u.X).(*ast.CompositeLit); ok && typeKey(c.tv(cl).Type) == "s2.decoder" {
			if len(cl.Elts) != 1 || !strings.HasPrefix(oneLine(cl.Elts[0]), "r: asByteReader(") || sl.kind != "var" {
				fatal(p, "decoder construction `%s` is not of the form &decoder{r: asByteReader(r)}", oneLine(s))
			}
			c.dobj = sl.obj
			return ""
		}
	}
	if call, ok := rhs.(*ast.CallExpr); ok && !c.tv(call.Fun).IsType() {
		key, _ := c.callee(call)
		switch key {
		case "builtin.make":
			n := c.ex(call.Args[1])
			var cnt string
			switch n.c {
			case "UInt32", "UInt8", "Nat", "Const":
				cnt = c.asNat(n, p)
			case "Int":
				cnt = paren(n.t) + ".toNat"
			default:
				fatal(p, "make with a count of carrier %s", n.c)
			}
			c.noteAlloc(s, call)
			c.store(sl, val{t: cnt, c: "Fresh", ln: cnt}, p)
			return c.flush(ind)
		case "builtin.new":
			if sl.kind != "elemWhole" {
				fatal(p, "new(T) outside a slice element")
			}
			c.elem.whole = nil
			c.elem.fields = map[string]val{}
			return ""
		case "builtin.append":
			old, ok := c.load(sl)
			if !ok || oneLine(call.Args[0]) != oneLine(s.Lhs[0]) || len(call.Args) != 2 {
				fatal(p, "append `%s` is not of the form x = append(x, v)", oneLine(s))
			}
			v := c.ex(call.Args[1])
			if old.c != "List ("+v.c+")" && old.c != "List "+v.c {
				fatal(p, "append of carrier %s to %s", v.c, old.c)
			}
			c.store(sl, c.bindPure(sl.name, val{t: old.t + " ++ [" + v.t + "]", c: old.c}), p)
			return c.flush(ind)
		case "s2.newNthDerivativeCoder":
			k := c.ex(call.Args[0])
			if k.c != "Const" || k.k.ExactString() != derivOrder(c.g) {
				fatal(p, "coder not created with derivativeEncodingOrder")
			}
			n := c.fresh(sl.name)
			c.pre = append(c.pre, "let "+n+" : List UInt32 := []")
			c.store(sl, val{t: n, c: "Coder"}, p)
			return c.flush(ind)
		case "s2.decoder.buffer":
			c.store(sl, val{c: "Buf", ln: bufferLen(c.g)}, p)
			return ""
		}
		if _, ok := decoderFuncs[key]; ok {
			return c.decoderCall(call, []slot{sl}, ind)
		}
		if v, ok := c.funcVarOf(call); ok && v.c == "Func" {
			return c.decoderCall(call, []slot{sl}, ind)
		}
	}
	if cl, ok := rhs.(*ast.CompositeLit); ok && typeKey(c.tv(cl).Type) == "s2.facesIterator" {
		if len(cl.Elts) != 1 {
			fatal(p, "facesIterator literal must set exactly `faces`")
		}
		kv, ok := cl.Elts[0].(*ast.KeyValueExpr)
		if !ok || oneLine(kv.Key) != "faces" {
			fatal(p, "facesIterator literal must set exactly `faces`")
		}
		f := c.ex(kv.Value)
		if f.c != "List (Nat × Nat)" {
			fatal(p, "faces of carrier %s", f.c)
		}
		n := c.fresh(sl.name)
		c.pre = append(c.pre, "let "+n+" : List (Nat × Nat) × Nat := ("+f.t+", 0)")
		c.store(sl, val{t: n, c: "FacesIt"}, p)
		return c.flush(ind)
	}
	if sl.kind == "var" {
		if _, isSig := sl.obj.Type().Underlying().(*types.Signature); isSig {
			c.store(sl, c.funcValue(rhs), p)
			return ""
		}
	}
	c.hint = sl.name
	v := c.exAs(rhs, c.wantOf(sl))
	c.hint = ""
	v = c.bindPure(sl.name, v)
	c.store(sl, v, p)
	return c.flush(ind)
}

func (c *fctx) funcVarOf(call *ast.CallExpr) (val, bool) {
	id, ok := unparen(call.Fun).(*ast.Ident)
	if !ok {
		return val{}, false
	}
	v, ok := c.env[c.obj(id)]
	return v, ok
}

func (c *fctx) exprStmt(s *ast.ExprStmt, ind string) string {
	call, ok := unparen(s.X).(*ast.CallExpr)
	if !ok {
		fatal(s.Pos(), "expression statement `%s` is not translated", oneLine(s))
	}
	key, _ := c.callee(call)
	if _, ok := readers[key]; ok {
		// a read whose value is dropped
		v := c.ex(call)
		_ = v
		return c.flush(ind)
	}
	return c.decoderCall(call, nil, ind)
}

// decoderCall: a call of a decoder function / method; `outs` receive explicit results.
func (c *fctx) decoderCall(call *ast.CallExpr, outs []slot, ind string) string {
	p := call.Pos()
	key, _ := c.callee(call)
	var alt *funcAlt
	var recvX ast.Expr
	args := call.Args
	if key == "" {
		v, ok := c.funcVarOf(call)
		if !ok || v.c != "Func" || v.fn == nil {
			fatal(p, "call `%s` is not translated", oneLine(call))
		}
		alt = v.fn
	} else {
		alt = &funcAlt{name: key}
		if se, ok := unparen(call.Fun).(*ast.SelectorExpr); ok {
			if _, isM := c.info().Selections[se]; isM {
				recvX = se.X
			}
		}
	}
	// one application per alternative
	var build func(a *funcAlt) (string, dspec)
	var spec0 *dspec
	build = func(a *funcAlt) (string, dspec) {
		if a.cond != "" {
			t1, s1 := build(a.then)
			t2, s2 := build(a.els)
			if s1.ret != s2.ret {
				fatal(p, "alternatives of a function value return different carriers")
			}
			return "(if " + a.cond + " then " + t1 + " else " + t2 + ")", s1
		}
		name := strings.TrimSuffix(a.name, "@recv")
		sp, ok := decoderFuncs[name]
		if !ok {
			fatal(p, "callee %s of `%s` is not a registered decoder", name, oneLine(call))
		}
		if len(args) != len(sp.params) {
			fatal(p, "callee %s: %d arguments, %d expected", name, len(args), len(sp.params))
		}
		t := sp.lean
		for i, a := range args {
			switch sp.params[i] {
			case "-":
				if !c.isD(a) {
					fatal(a.Pos(), "argument `%s` is not the decoder", oneLine(a))
				}
			case "Nat":
				t = strings.ReplaceAll(t, fmt.Sprintf("$%d", i+1), paren(c.asNat(c.ex(a), a.Pos())))
			case "Coder":
				v := c.ex(a)
				if v.c != "Coder" {
					fatal(a.Pos(), "argument `%s` is not a coder", oneLine(a))
				}
				t = strings.ReplaceAll(t, fmt.Sprintf("$%d", i+1), v.t)
			case "Target":
				v, ok := c.load(c.slotOf(a))
				if !ok || v.ln == "" {
					fatal(a.Pos(), "target slice `%s` has no known length", oneLine(a))
				}
				t = strings.ReplaceAll(t, fmt.Sprintf("$%d", i+1), paren(v.ln))
			default:
				fatal(a.Pos(), "bad parameter kind %s", sp.params[i])
			}
		}
		return t, sp
	}
	term, sp := build(alt)
	spec0 = &sp
	hint := "r"
	if len(outs) == 1 && outs[0].name != "" {
		hint = outs[0].name
	}
	if recvX != nil {
		hint = c.slotOf(recvX).name
	}
	n := c.fresh(hint)
	out := c.flush(ind) + ind + "let " + n + " ← " + term + "\n"
	switch spec0.ret {
	case "PointCoders": // (pi, qi, piCoder', qiCoder') : Nat × Nat × List UInt32 × List UInt32
		if len(outs) != 2 {
			fatal(p, "two results expected")
		}
		c.store(outs[0], val{t: n + ".1", c: "Nat"}, p)
		c.store(outs[1], val{t: n + ".2.1", c: "Nat"}, p)
		j := 0
		for i, a := range args {
			if spec0.params[i] == "Coder" {
				proj := []string{".2.2.1", ".2.2.2"}[j]
				j++
				id := unparen(a).(*ast.Ident)
				c.env[c.obj(id)] = val{t: n + proj, c: "Coder"}
			}
		}
	case "Target": // the callee fills the slice passed as the last argument
		sl := c.slotOf(args[len(args)-1])
		old, _ := c.load(sl)
		c.store(sl, val{t: n, c: "List V3", ln: old.ln}, p)
	default:
		v := val{t: n, c: spec0.ret}
		switch {
		case recvX != nil:
			c.store(c.slotOf(recvX), v, p)
		case strings.HasSuffix(alt.name, "@recv"):
			c.fields["*"] = v
		case len(outs) == 1:
			c.store(outs[0], v, p)
		default:
			fatal(p, "result of `%s` is dropped", oneLine(call))
		}
	}
	return out
}

func (c *fctx) returnStmt(s *ast.ReturnStmt, ind string) string {
	p := s.Pos()
	switch c.spec.kind {
	case "method":
		if len(s.Results) != 0 {
			fatal(p, "method returns a value")
		}
		return c.flush(ind) + ind + "pure " + c.buildRecv(p) + "\n"
	case "wrapper":
		if len(s.Results) != 1 {
			fatal(p, "Decode must return one value")
		}
		if c.isErr(s.Results[0]) {
			return c.flush(ind) + ind + "pure " + c.buildRecv(p) + "\n"
		}
		if isErrorCtor(s.Results[0]) {
			return ind + "Dec.fail\n"
		}
		fatal(p, "return value `%s` of a Decode method is not translated", oneLine(s.Results[0]))
	case "prim":
		if len(s.Results) == 0 {
			if len(c.named) != 1 {
				fatal(p, "bare return without a named result")
			}
			v := c.env[c.named[0]]
			return c.flush(ind) + ind + "pure " + paren(v.t) + "\n"
		}
		v := c.ex(s.Results[0])
		return c.flush(ind) + ind + "pure " + paren(v.t) + "\n"
	case "func":
		var parts []string
		for i, r := range s.Results {
			want := ""
			if i < len(c.spec.results) {
				want = c.spec.results[i]
			}
			v := c.exAs(r, want)
			switch want {
			case "Nat":
				parts = append(parts, c.asNat(v, r.Pos()))
			default:
				if v.c != want {
					fatal(r.Pos(), "result `%s` has carrier %s, %s expected", oneLine(r), v.c, want)
				}
				parts = append(parts, v.t)
			}
		}
		for _, o := range c.spec.threaded(c) {
			parts = append(parts, c.env[o].t)
		}
		t := strings.Join(parts, ", ")
		if len(parts) > 1 {
			t = "(" + t + ")"
		} else {
			t = paren(t)
		}
		return c.flush(ind) + ind + "pure " + t + "\n"
	}
	fatal(p, "return in a function of kind %s", c.spec.kind)
	return ""
}

func (c *fctx) buildRecv(p token.Pos) string {
	if c.target != nil {
		return c.env[c.target].t
	}
	t := c.spec.tmpl
	for i, f := range c.spec.fields {
		opt := strings.HasSuffix(f, "?")
		f = strings.TrimSuffix(f, "?")
		v, ok := c.fields[f]
		var s string
		switch {
		case ok && opt:
			s = "(some " + paren(v.t) + ")"
		case ok:
			s = paren(v.t)
			if v.c == "Fresh" {
				fatal(p, "receiver field %s is an allocated slice that was never filled", f)
			}
		case opt:
			s = "none"
		default:
			fatal(p, "receiver field `%s` of %s is not assigned on this path", f, c.key)
		}
		t = strings.ReplaceAll(t, fmt.Sprintf("$%d", i+1), s)
	}
	eff := ""
	for _, e := range c.effect {
		eff += e + " "
	}
	if strings.Contains(t, "$E") {
		t = strings.ReplaceAll(t, "$E", eff)
	} else if eff != "" {
		fatal(p, "%s: effect %s but the template has no place for it", c.key, eff)
	}
	return t
}

func (c *fctx) switchStmt(s *ast.SwitchStmt, ind string, rest func(string) string) string {
	if s.Init != nil || s.Tag == nil {
		fatal(s.Pos(), "switch form is not translated")
	}
	tag := c.ex(s.Tag)
	pre := c.flush(ind)
	var dflt *ast.CaseClause
	type arm struct {
		cond string
		body []ast.Stmt
	}
	var arms []arm
	for _, cs := range s.Body.List {
		cc := cs.(*ast.CaseClause)
		if cc.List == nil {
			dflt = cc
			continue
		}
		if len(cc.List) != 1 {
			fatal(cc.Pos(), "case with several values")
		}
		k := c.ex(cc.List[0])
		if k.c != "Const" {
			fatal(cc.Pos(), "case value is not a constant")
		}
		if tag.c == "Byte" && (constant.Sign(k.k) < 0 || constant.Compare(k.k, token.GTR, constant.MakeInt64(127))) {
			fatal(cc.Pos(), "int8 case value outside 0..127")
		}
		arms = append(arms, arm{c.asNatB(tag, s.Pos()) + " == " + k.k.ExactString(), cc.Body})
		c.noteGuardExpr(cc, s.Tag, cc.List[0], arms[len(arms)-1].cond)
	}
	out := pre
	cur := ind
	for _, a := range arms {
		sn := c.snap()
		body := c.seq(a.body, cur+"  ", rest)
		c.restore(sn)
		out += cur + "if " + a.cond + " then do\n" + body + cur + "else do\n"
		cur += "  "
	}
	var db []ast.Stmt
	if dflt != nil {
		db = dflt.Body
	}
	out += c.seq(db, cur, rest)
	return out
}
