// Command translator_c15b re-reads <repo> (type-checked with go/types, constants evaluated with go/constant exactly as
// the compiler does) and emits Lean definitions, STATEMENT BY STATEMENT and EXPRESSION BY EXPRESSION, of the DECODERS of
// golang/geo's s2 package as programs of the decoder monad `S2.Codec.Dec` of the hand model (lean/S2/Codec/*.lean):
//
//   - the decoder primitives of s2/encode.go (readBool, readInt8, readInt64, readUint8, readUint32, readUint64,
//     readFloat64, readUvarint, buffer),
//   - decodeFaceRun, decodeFaces, decodePointCompressed, decodeFirstPointFixedLength, decodePointsCompressed of
//     s2/pointcompression.go,
//   - the decode / decodeCompressed / Decode methods of Point, Cap, Rect, CellID, Cell, CellUnion, Polyline, Loop, Polygon
//
// into <out>/DecodeFns.lean (property C09) and the list of bound checks of every decoder as expressions of the decoder IR
// of property C15 into <out>/DecodeGuards.lean.  lean/S2Proofs/Ties/C09_Decode.lean proves `hand model decoder =
// generated decoder`; lean/S2Proofs/Ties/C15_Decode.lean proves that the bound checks found here are, in order and
// content, the `failIf` / `errIf` / `ite` / `alloc` / `loop` / `whileLt` expressions of the IR that translator_c15 extracts, and
// (for the limit / version / negative-count checks) that the IR guard evaluates, with the IR semantics, to the Boolean on
// which the Dec program fails.
//
// THE READING OF A GO DECODER AS A Dec PROGRAM ("no-error continuation").  The Go decoder `d` has a sticky error: once
// `d.err != nil` every `d.readX()` is a no-op that returns zero, and every caller finally returns `d.err`.  The observable
// result of a failed decode is "error", the `none` of `Dec`.  The translation follows the path on which `d.err == nil`:
//
//	x := d.readX()                      let x ← S2.Codec.readX         (bind = "and stop with `none` if the read failed")
//	if d.err != nil { return … }        nothing (recorded in `<F>_shape` as `errchk`)
//	d.err == nil  /  d.err != nil       true / false:  `C && d.err == nil` is `C` (recorded in the shape as `&&errnil`)
//	d.err = fmt.Errorf(…)/errors.New(…) Dec.fail, and whatever follows it is dropped (it must be `return`)
//	if C { …d.err = E…; return } rest   if C then Dec.fail else rest
//	f(d, a…) / x.decode(d)              let x ← <hand model decoder of the callee> a…   (table `registry`; each callee has its own tie)
//	return v / end of a method          pure v / pure <the receiver, rebuilt from the fields assigned in the body>
//	xs = make([]T, n); for i := range xs { body }   let xs ← S2.Codec.readN (do body; pure <xs[i]>) n
//	other loops                         the loop body is emitted as a step function `<F>_loop<k>` of the loop-carried
//	                                    variables, the condition as `<F>_loop<k>_cond`; the ties prove the recursion equations
//	                                    of the hand model's loop functions from them
//	post-decode bookkeeping (table `opaque`: NewShapeIndex, index.Add, ExpandForSubregions, initBound, initLoopProperties,
//	initEdgesAndIndex, CellFromCellID, numVertices +=, *p = Polygon{} …)  recorded by source text in `<F>_shape`; where the
//	                                    model value is affected the effect is a FIXED definition of the preamble
//	                                    (`initBoundC`, `initLoopPropertiesD`), not regenerated
//
// What the reading assumes (and C15 shows on the IR): the statements executed after a failed read with the zero values
// neither panic, hang nor allocate without bound.
//
// Carriers (which Lean type stands for which Go value; hand model conventions):
//
//	uint8/uint32/uint64(fixed width), CellID -> UInt8/UInt32/UInt64;  uint64 from readUvarint -> Nat (< 2^64)
//	int8 (from readInt8 / int8(uint8))  -> the unsigned byte as Nat; only `==`/`!=`/switch against constants 0..127 are accepted
//	int64 from readInt64                -> Int
//	int(x), x uint8/uint32              -> x.toNat;  int(x), x uvarint -> `S2.Codec.toInt64 x : Int` unless the table `natInts`
//	                                       lists the variable / field as carried unsigned (Loop.depth, faceRun fields)
//	int parameters (level, snapLevel, numVertices), len(xs) -> Nat
//	float64 from readFloat64            -> the bit pattern bound as UInt64, used as `(⟨bits⟩ : S2.F64)`
//	a < b on machine integers           -> compared on `.toNat`; Int against Nat/constant -> the Nat side cast to Int
//	*nthDerivativeCoder                 -> its memory `List UInt32`, order `S2.Codec.derivativeEncodingOrder` (checked where created)
//
// Anything else inside a function it is asked to translate is a fatal error (exit 1 with file:line).
// Output is a pure function of the source tree (fixed orders, no maps iterated).
//
// usage: translator_c15b -repo /repo -out lean/S2/Generated [-facts facts.json]
package main

import (
	"bytes"
	"crypto/sha256"
	"encoding/json"
	"flag"
	"fmt"
	"go/ast"
	"go/build"
	"go/importer"
	"go/parser"
	"go/printer"
	"go/token"
	"go/types"
	"os"
	"path/filepath"
	"sort"
	"strings"
)

const tool = "translator_c15b"

// ---------------------------------------------------------------- loading

const modPrefix = "github.com/golang/geo/"

type loader struct {
	fset *token.FileSet
	repo string
	std  types.Importer
	pk   map[string]*pkgInfo
}

type pkgInfo struct {
	pkg   *types.Package
	info  *types.Info
	files []*ast.File
	names []string
}

func (m *loader) Import(path string) (*types.Package, error) {
	if strings.HasPrefix(path, modPrefix) {
		p, err := m.load(path)
		if err != nil {
			return nil, err
		}
		return p.pkg, nil
	}
	return m.std.Import(path)
}

func (m *loader) load(path string) (*pkgInfo, error) {
	if p, ok := m.pk[path]; ok {
		return p, nil
	}
	dir := filepath.Join(m.repo, strings.TrimPrefix(path, modPrefix))
	ctx := build.Default
	ctx.BuildTags = nil // hooks (`//go:build verif`) are not part of the translated source
	bp, err := ctx.ImportDir(dir, 0)
	if err != nil {
		return nil, err
	}
	pi := &pkgInfo{}
	names := append([]string{}, bp.GoFiles...)
	sort.Strings(names)
	for _, f := range names {
		af, err := parser.ParseFile(m.fset, filepath.Join(dir, f), nil, parser.ParseComments)
		if err != nil {
			return nil, err
		}
		pi.files = append(pi.files, af)
		pi.names = append(pi.names, f)
	}
	pi.info = &types.Info{
		Types:      map[ast.Expr]types.TypeAndValue{},
		Defs:       map[*ast.Ident]types.Object{},
		Uses:       map[*ast.Ident]types.Object{},
		Selections: map[*ast.SelectorExpr]*types.Selection{},
		Scopes:     map[ast.Node]*types.Scope{},
	}
	conf := types.Config{Importer: m}
	pi.pkg, err = conf.Check(path, m.fset, pi.files, pi.info)
	if err != nil {
		return nil, err
	}
	m.pk[path] = pi
	return pi, nil
}

// ---------------------------------------------------------------- errors / helpers

var fset = token.NewFileSet()
var repoRoot string

func relpos(p token.Pos) string {
	pos := fset.Position(p)
	if r, err := filepath.Rel(repoRoot, pos.Filename); err == nil {
		pos.Filename = r
	}
	return fmt.Sprintf("%s:%d:%d", pos.Filename, pos.Line, pos.Column)
}

func relline(p token.Pos) string {
	pos := fset.Position(p)
	if r, err := filepath.Rel(repoRoot, pos.Filename); err == nil {
		pos.Filename = r
	}
	return fmt.Sprintf("%s:%d", pos.Filename, pos.Line)
}

func fatal(p token.Pos, format string, a ...interface{}) {
	fmt.Fprintf(os.Stderr, "%s: %s: %s\n", tool, relpos(p), fmt.Sprintf(format, a...))
	os.Exit(1)
}

func die(format string, a ...interface{}) {
	fmt.Fprintf(os.Stderr, "%s: %s\n", tool, fmt.Sprintf(format, a...))
	os.Exit(1)
}

func src(n ast.Node) string {
	var b bytes.Buffer
	printer.Fprint(&b, fset, n)
	return b.String()
}

func oneLine(n ast.Node) string {
	s := strings.Join(strings.Fields(src(n)), " ")
	s = strings.ReplaceAll(s, "-/", "- /")
	s = strings.ReplaceAll(s, "/-", "/ -")
	return s
}

func sha(s string) string {
	h := sha256.Sum256([]byte(s))
	return fmt.Sprintf("%x", h[:])
}

var reserved = map[string]bool{"at": true, "from": true, "end": true, "fun": true, "show": true, "have": true, "open": true,
	"in": true, "then": true, "else": true, "if": true, "let": true, "do": true, "match": true, "with": true, "def": true,
	"theorem": true, "where": true, "by": true, "this": true, "variable": true, "section": true, "namespace": true, "instance": true,
	"structure": true, "class": true, "deriving": true, "mutual": true, "private": true, "protected": true, "export": true,
	"import": true, "return": true, "for": true, "nomatch": true, "Type": true, "Prop": true, "Sort": true, "decide": true,
	"true": true, "false": true, "some": true, "none": true, "max": true, "min": true, "pi": true}

func leanLocal(name string) string {
	if reserved[name] {
		return name + "'"
	}
	return name
}

func unparen(e ast.Expr) ast.Expr {
	for {
		p, ok := e.(*ast.ParenExpr)
		if !ok {
			return e
		}
		e = p.X
	}
}

type fact struct {
	Name   string `json:"name"`
	Kind   string `json:"kind"`
	Pos    string `json:"pos"`
	Lean   string `json:"lean"`
	Sha256 string `json:"sha256"`
}

// findFunc finds `Name` or `Recv.Name` in the package.
func findFunc(pi *pkgInfo, key string) *ast.FuncDecl {
	recv, name := "", key
	if i := strings.Index(key, "."); i >= 0 {
		recv, name = key[:i], key[i+1:]
	}
	var found *ast.FuncDecl
	for _, f := range pi.files {
		for _, d := range f.Decls {
			fd, ok := d.(*ast.FuncDecl)
			if !ok || fd.Name.Name != name {
				continue
			}
			r := ""
			if fd.Recv != nil && len(fd.Recv.List) == 1 {
				t := fd.Recv.List[0].Type
				if s, ok := t.(*ast.StarExpr); ok {
					t = s.X
				}
				if id, ok := t.(*ast.Ident); ok {
					r = id.Name
				}
			}
			if r != recv {
				continue
			}
			if found != nil {
				die("%s.%s declared twice", pi.pkg.Name(), key)
			}
			found = fd
		}
	}
	if found == nil || found.Body == nil {
		die("function %s.%s not found in %s — the translated source changed shape", pi.pkg.Name(), key, pi.pkg.Path())
	}
	return found
}

func typeKey(t types.Type) string {
	switch v := t.(type) {
	case *types.Named:
		if v.Obj().Pkg() == nil {
			return v.Obj().Name()
		}
		return v.Obj().Pkg().Name() + "." + v.Obj().Name()
	case *types.Basic:
		if v.Kind() == types.Uint8 {
			return "uint8"
		}
		return v.Name()
	case *types.Pointer:
		return "*" + typeKey(v.Elem())
	case *types.Slice:
		return "[]" + typeKey(v.Elem())
	case *types.Array:
		return fmt.Sprintf("[%d]%s", v.Len(), typeKey(v.Elem()))
	}
	return t.String()
}

func funcKey(f *types.Func) string {
	sig := f.Type().(*types.Signature)
	pk := ""
	if f.Pkg() != nil {
		pk = f.Pkg().Name() + "."
	}
	if r := sig.Recv(); r != nil {
		t := r.Type()
		if p, ok := t.(*types.Pointer); ok {
			t = p.Elem()
		}
		if n, ok := t.(*types.Named); ok {
			return pk + n.Obj().Name() + "." + f.Name()
		}
	}
	return pk + f.Name()
}

// ---------------------------------------------------------------- main

func writeFile(dir, name, content string) {
	if err := os.WriteFile(filepath.Join(dir, name), []byte(content), 0o644); err != nil {
		die("%v", err)
	}
}

func main() {
	repo := flag.String("repo", "/repo", "golang/geo checkout")
	outDir := flag.String("out", "", "output directory (lean/S2/Generated)")
	factsPath := flag.String("facts", "", "facts.json to write")
	flag.Parse()
	if *outDir == "" {
		fmt.Fprintln(os.Stderr, "need -out")
		os.Exit(2)
	}
	abs, err := filepath.Abs(*repo)
	if err != nil {
		die("%v", err)
	}
	repoRoot = abs
	ld := &loader{fset: fset, repo: abs, std: importer.ForCompiler(fset, "source", nil), pk: map[string]*pkgInfo{}}
	if err := os.MkdirAll(*outDir, 0o755); err != nil {
		die("%v", err)
	}
	pi, err := ld.load(modPrefix + "s2")
	if err != nil {
		die("loading s2: %v", err)
	}
	G := &gen{pi: pi}
	files := map[string]string{}
	files["DecodeFns.lean"] = genDecode(G)
	files["DecodeGuards.lean"] = genGuards(G)
	names := []string{"DecodeFns.lean", "DecodeGuards.lean"}
	sort.Strings(names)
	type fileFact struct {
		File   string `json:"file"`
		Sha256 string `json:"sha256"`
	}
	var ff []fileFact
	for _, n := range names {
		writeFile(*outDir, n, files[n])
		ff = append(ff, fileFact{n, sha(files[n])})
	}
	if *factsPath != "" {
		js, _ := json.MarshalIndent(map[string]interface{}{"translator": tool, "files": ff, "items": G.facts}, "", " ")
		if err := os.WriteFile(*factsPath, append(js, '\n'), 0o644); err != nil {
			die("%v", err)
		}
	}
	fmt.Printf("%s: %d items translated into %d files\n", tool, len(G.facts), len(names))
}

var _ = bytes.NewBuffer
var _ = token.NoPos
var _ = strings.TrimSpace
