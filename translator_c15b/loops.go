package main

// Loops: `xs = make([]T, n); for i := range xs { … }` is S2.Codec.readN; every other loop becomes a step function of its
// loop-carried variables, run by forDec / whileDec of the preamble.

import (
	"fmt"
	"go/ast"
	"go/token"
	"go/types"
	"strings"
)

func leanType(carrier string) string {
	switch carrier {
	case "Coder":
		return "List UInt32"
	case "FacesIt":
		return "List (Nat × Nat) × Nat"
	case "List V3":
		return "List S2.V3"
	case "V3":
		return "S2.V3"
	case "F64":
		return "S2.F64"
	case "Byte":
		return "Nat"
	}
	return carrier
}

func (c *fctx) rangeStmt(s *ast.RangeStmt, ind string) string {
	p := s.Pos()
	if s.Value != nil || s.Key == nil || s.Tok != token.DEFINE {
		fatal(p, "range loop `for %s` is not of the form `for i := range xs`", oneLine(s.X))
	}
	key := s.Key.(*ast.Ident)
	sl := c.slotOf(s.X)
	v, ok := c.load(sl)
	if !ok {
		fatal(p, "range over `%s`: no value", oneLine(s.X))
	}
	if v.c == "Fresh" {
		return c.readN(s, sl, v, ind)
	}
	if !strings.HasPrefix(v.c, "List ") || v.ln == "" {
		fatal(p, "range over carrier %s", v.c)
	}
	c.noteLoop(s, "len", s.X)
	return c.stepLoop(s, s.Body, nil, c.obj(key), v.ln, "", nil, ind)
}

func (c *fctx) readN(s *ast.RangeStmt, sl slot, v val, ind string) string {
	p := s.Pos()
	st, ok := c.tv(s.X).Type.Underlying().(*types.Slice)
	if !ok {
		fatal(p, "range over a non-slice")
	}
	c.noteLoop(s, "len", s.X)
	if c.elem != nil {
		fatal(p, "nested element loops are not translated")
	}
	sn := c.snap()
	c.elem = &elemCtx{base: oneLine(unparen(s.X)), idx: c.obj(s.Key.(*ast.Ident)), fields: map[string]val{}, tkey: typeKey(st.Elem())}
	ecar := ""
	body := c.seq(s.Body.List, ind+"    ", func(ind string) string {
		t, car := c.buildElem(p)
		ecar = car
		return c.flush(ind) + ind + "pure " + t + "\n"
	})
	c.elem = nil
	c.restore(sn)
	n := c.fresh(sl.name)
	code := ind + "let " + n + " ← S2.Codec.readN (do\n" + body + ind + "  ) " + paren(v.t) + "\n"
	lc := "List " + ecar
	if strings.Contains(ecar, " ") {
		lc = "List (" + ecar + ")"
	}
	c.store(sl, val{t: n, c: lc, ln: v.t}, p)
	return code
}

func (c *fctx) buildElem(p token.Pos) (string, string) {
	e := c.elem
	switch e.tkey {
	case "s2.Point":
		if e.whole != nil {
			return paren(e.whole.t), "V3"
		}
		var fs []string
		for _, f := range []string{"X", "Y", "Z"} {
			v, ok := e.fields[f]
			if !ok || v.c != "F64" {
				fatal(p, "element field %s is not assigned a float64", f)
			}
			fs = append(fs, v.t)
		}
		if len(e.fields) != 3 {
			fatal(p, "unexpected element fields")
		}
		return "(⟨" + strings.Join(fs, ", ") + "⟩ : S2.V3)", "V3"
	case "s2.CellID", "*s2.Loop":
		if e.whole == nil || len(e.fields) != 0 {
			fatal(p, "element of type %s is not decoded as a whole", e.tkey)
		}
		return paren(e.whole.t), e.whole.c
	}
	fatal(p, "slice element type %s is not translated", e.tkey)
	return "", ""
}

func (c *fctx) forStmt(s *ast.ForStmt, ind string) string {
	p := s.Pos()
	// for i := 0; i < n; i++ { … }
	init, ok := s.Init.(*ast.AssignStmt)
	if !ok || init.Tok != token.DEFINE || len(init.Lhs) != 1 || oneLine(init.Rhs[0]) != "0" {
		fatal(p, "for loop header `%s` is not translated", oneLine(s.Init))
	}
	iv := init.Lhs[0].(*ast.Ident)
	iobj := c.obj(iv)
	cond, ok := unparen(s.Cond).(*ast.BinaryExpr)
	if !ok || cond.Op != token.LSS || oneLine(cond.X) != iv.Name {
		fatal(p, "for loop condition `%s` is not of the form i < n", oneLine(s.Cond))
	}
	if s.Post != nil {
		inc, ok := s.Post.(*ast.IncDecStmt)
		if !ok || inc.Tok != token.INC || oneLine(inc.X) != iv.Name {
			fatal(p, "for loop post statement `%s` is not i++", oneLine(s.Post))
		}
		n := c.ex(cond.Y)
		var cnt string
		switch n.c {
		case "Nat", "Const":
			cnt = c.asNat(n, p)
		case "Int":
			cnt = paren(n.t) + ".toNat"
		default:
			fatal(p, "loop bound of carrier %s", n.c)
		}
		pre := c.flush(ind)
		c.noteLoop(s, "expr", cond.Y)
		return pre + c.stepLoop(s, s.Body, nil, iobj, cnt, "", nil, ind)
	}
	// for x := 0; x < N; { …; x += c }: x is loop-carried, fuel = N - 0
	n := c.ex(cond.Y)
	if n.c != "Nat" {
		fatal(p, "while-loop bound of carrier %s", n.c)
	}
	c.noteWhile(s, cond)
	x := c.fresh(iv.Name)
	c.env[iobj] = val{t: x, c: "Nat"}
	pre := c.flush(ind) + ind + "let " + x + " : Nat := 0\n"
	return pre + c.stepLoop(s, s.Body, cond, nil, "", n.t, iobj, ind)
}

// stepLoop emits the step function of the loop and the forDec / whileDec application.
// counted: idx != nil, count = number of iterations.  while: wobj = the variable of `wobj < bound`, fuel = bound - wobj.
func (c *fctx) stepLoop(loop ast.Stmt, blk *ast.BlockStmt, wcond ast.Expr, idx types.Object, count, bound string, wobj types.Object, ind string) string {
	p := loop.Pos()
	body := blk.List
	inside := func(o types.Object) bool { return o.Pos() >= blk.Pos() && o.Pos() < blk.End() }
	var carried, free []types.Object
	seen := map[types.Object]bool{}
	addCarried := func(o types.Object) {
		if o == nil || seen[o] || inside(o) {
			return
		}
		if _, ok := c.env[o]; !ok {
			return
		}
		seen[o] = true
		carried = append(carried, o)
	}
	if wobj != nil {
		addCarried(wobj)
	}
	baseIdent := func(e ast.Expr) *ast.Ident {
		for {
			switch x := unparen(e).(type) {
			case *ast.Ident:
				return x
			case *ast.IndexExpr:
				e = x.X
			case *ast.SelectorExpr:
				e = x.X
			default:
				return nil
			}
		}
	}
	for _, st := range body {
		ast.Inspect(st, func(n ast.Node) bool {
			switch x := n.(type) {
			case *ast.AssignStmt:
				for _, l := range x.Lhs {
					if id := baseIdent(l); id != nil && id.Name != "_" {
						addCarried(c.obj(id))
					}
				}
			case *ast.Ident:
				if o := c.obj(x); o != nil {
					if v, ok := c.env[o]; ok && (v.c == "Coder" || v.c == "FacesIt") {
						addCarried(o)
					}
				}
			}
			return true
		})
	}
	scan := []ast.Node{}
	if wcond != nil {
		scan = append(scan, wcond)
	}
	for _, st := range body {
		scan = append(scan, st)
	}
	for _, st := range scan {
		ast.Inspect(st, func(n ast.Node) bool {
			if x, ok := n.(*ast.Ident); ok {
				o := c.obj(x)
				if o == nil || seen[o] || inside(o) || o == c.dobj {
					return true
				}
				if v, ok := c.env[o]; ok && v.c != "Func" {
					seen[o] = true
					free = append(free, o)
				}
			}
			return true
		})
	}
	if len(carried) == 0 {
		fatal(p, "loop without loop-carried variables")
	}
	c.nloop++
	name := fmt.Sprintf("%s_loop%d", c.lname, c.nloop-1)
	// ---- the step function, translated in a scope of its own
	sn := c.snap()
	oldUsed, oldPre, oldDobjHint := c.used, c.pre, c.hint
	c.used, c.pre = map[string]int{}, nil
	sig, call := "", name
	for _, o := range free {
		v := c.env[o]
		n := c.fresh(o.Name())
		sig += " (" + n + " : " + leanType(v.c) + ")"
		call += " " + paren(v.t)
		nv := val{t: n, c: v.c}
		if v.ln != "" {
			nv.ln = n + ".length"
		}
		c.env[o] = nv
	}
	if idx != nil {
		n := c.fresh(idx.Name())
		sig += " (" + n + " : Nat)"
		c.env[idx] = val{t: n, c: "Nat"}
		call += " i'"
	}
	var tys, inits []string
	for _, o := range carried {
		v := c.env[o]
		n := c.fresh(o.Name())
		sig += " (" + n + " : " + leanType(v.c) + ")"
		if lt := leanType(v.c); strings.Contains(lt, "×") {
			tys = append(tys, "("+lt+")")
		} else {
			tys = append(tys, lt)
		}
		inits = append(inits, v.t)
		nv := val{t: n, c: v.c}
		if v.ln != "" {
			nv.ln = n + ".length"
		}
		c.env[o] = nv
	}
	condDef := ""
	if wobj != nil {
		condDef = fmt.Sprintf("def %s_cond%s : Bool :=\n  decide (%s < %s)\n", name, sig, c.env[wobj].t, func() string {
			// the bound inside the step scope
			for _, o := range free {
				if c.envOuter(sn, o).t == bound {
					return c.env[o].t
				}
			}
			return bound
		}())
	}
	stBody := c.seq(body, "  ", func(ind string) string {
		var parts []string
		for _, o := range carried {
			parts = append(parts, c.env[o].t)
		}
		t := strings.Join(parts, ", ")
		if len(parts) > 1 {
			t = "(" + t + ")"
		}
		return c.flush(ind) + ind + "pure " + t + "\n"
	})
	c.used, c.pre, c.hint = oldUsed, oldPre, oldDobjHint
	c.restore(sn)
	ty := strings.Join(tys, " × ")
	def := fmt.Sprintf("/-- %s: body of the loop `%s` of %s; loop-carried: %s -/\n", relline(p), loopHeader(loop), c.key, objNames(carried))
	def += condDef
	def += fmt.Sprintf("def %s%s : Dec (%s) := do\n%s\n", name, sig, ty, stBody)
	c.defs = append(c.defs, def)
	// ---- the application
	st := c.fresh("st")
	projs := tupleProjs(st, len(carried))
	app := call
	for _, pr := range projs {
		app += " " + pr
	}
	init := strings.Join(inits, ", ")
	if len(inits) > 1 {
		init = "(" + init + ")"
	}
	var out string
	if wobj == nil {
		out = ind + "let " + st + " ← forDec " + paren(count) + " " + init + " (fun i' " + st + " => " + app + ")\n"
	} else {
		cnd := strings.Replace(app, name, name+"_cond", 1)
		out = ind + "let " + st + " ← whileDec (fun " + st + " => " + cnd + ") (fun " + st + " => " + app + ") (" + bound + " - " + c.env[wobj].t + ") " + init + "\n"
	}
	for i, o := range carried {
		v := c.env[o]
		n := c.fresh(o.Name())
		out += ind + "let " + n + " : " + leanType(v.c) + " := " + projs[i] + "\n"
		c.env[o] = val{t: n, c: v.c, ln: v.ln}
	}
	return out
}

func (c *fctx) envOuter(sn snapshot, o types.Object) val { return sn.env[o] }

func tupleProjs(st string, n int) []string {
	if n == 1 {
		return []string{st}
	}
	var out []string
	pre := st
	for i := 0; i < n; i++ {
		if i == n-1 {
			out = append(out, pre+".2")
		} else {
			out = append(out, pre+".1")
			if i < n-2 {
				pre += ".2"
			}
		}
	}
	// fix: projections of a right-nested tuple (a, b, c, d): .1, .2.1, .2.2.1, .2.2.2
	out = out[:0]
	for i := 0; i < n; i++ {
		s := st + strings.Repeat(".2", i)
		if i < n-1 {
			s += ".1"
		}
		out = append(out, s)
	}
	return out
}

func objNames(os []types.Object) string {
	var ns []string
	for _, o := range os {
		ns = append(ns, o.Name())
	}
	return strings.Join(ns, ", ")
}

func loopHeader(s ast.Stmt) string {
	switch x := s.(type) {
	case *ast.RangeStmt:
		return "for " + oneLine(x.Key) + " := range " + oneLine(x.X)
	case *ast.ForStmt:
		h := "for "
		if x.Init != nil {
			h += oneLine(x.Init)
		}
		h += "; " + oneLine(x.Cond) + ";"
		if x.Post != nil {
			h += " " + oneLine(x.Post)
		}
		return h
	}
	return "for"
}
