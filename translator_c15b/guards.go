package main

// The bound checks of the decoders as expressions of the decoder IR of property C15 (S2.DecoderIR.Expr), read from the Go
// source INDEPENDENTLY of translator_c15 (go/types constants, own walk).  Ties/C15_Decode.lean proves that the list
// produced here for a function is, in order and content, the list of failIf / errIf / ite / alloc / loop / whileLt
// expressions of the IR statement that translator_c15 extracts for the same function.
//
// Rules (they describe the IR, S2/DecoderIR.lean):
//
//	constant expression                       Expr.lit k            (folded by go/types)
//	x, p.f, *p, len(x)                        Expr.var (vid "<Function>.<path>")   (ids are looked up by NAME in the variable
//	                                          table of the IR file: the numbering belongs to translator_c15)
//	T(x), T an integer type                   Expr.conv Ty.T x
//	a op b (comparison, &&, ||, &, / %)       Expr.bin BinOp.op a b ;  + - * are wrapped: Expr.conv Ty.<type> (Expr.bin …)
//	!a, d.err == nil, x.IsValid()             Expr.lnot a, Expr.errNil, Expr.cellIDValid x
//	it.next() of a facesIterator              Expr.lit 1 (the intrinsic of translator_c15)
//	if C { …d.err = E…; return }              ("failIf", C);  without return: ("errIf", C);  if d.err != nil { return }: nothing
//	any other if C                            ("ite", C), then the branches
//	make([]T, n) / new(T)                     ("alloc", n) / ("alloc", lit 1)
//	for i := range xs / for i := 0; i < n; i++   ("loop", xs) / ("loop", n), then the body
//	for x := 0; x < n; { … }                  ("whileLt", n), then the body
//	switch t { case a: f = g; case b: f = h; default: return err }; f(d)
//	                                          ("failIf", !(t == a || t == b)) at the switch, ("ite", t == a), ("ite", t == b) at the call
//	f := g; if C { f = h }; f(d, …)           ("ite", C) at the call
//	v := decodeFaceRun(d)                     the checks of decodeFaceRun with its result variable renamed to v (it is inlined in the IR)

import (
	"fmt"
	"go/ast"
	"go/constant"
	"go/token"
	"go/types"
	"strings"
)

type gw struct {
	g      *gen
	fd     *ast.FuncDecl
	def    string // IR name of the function whose variables are referenced
	dname  string
	ren    map[string]string
	out    []guardRec
	fconds map[string][]ast.Expr // function-valued local -> conditions under which it was reassigned
	iters  map[string]bool
}

var irTy = map[string]string{"uint8": "u8", "byte": "u8", "int8": "i8", "uint32": "u32", "int32": "i32",
	"uint64": "u64", "uint": "u64", "int64": "i64", "int": "int", "bool": "bool"}

func (w *gw) info() *types.Info { return w.g.pi.info }

func (w *gw) key(e ast.Expr) string {
	switch x := e.(type) {
	case *ast.Ident:
		if r, ok := w.ren[x.Name]; ok {
			return r
		}
		return x.Name
	case *ast.ParenExpr:
		return w.key(x.X)
	case *ast.StarExpr:
		return w.key(x.X)
	case *ast.IndexExpr:
		return w.key(x.X)
	case *ast.SelectorExpr:
		return w.key(x.X) + "." + x.Sel.Name
	}
	fatal(e.Pos(), "guards: `%s` is not a variable path", oneLine(e))
	return ""
}

func (w *gw) v(k string) string { return fmt.Sprintf("(Expr.var (vid %q))", w.def+"."+k) }

func irLit(k constant.Value) string {
	if constant.Sign(k) < 0 {
		return "(Expr.lit (" + k.ExactString() + "))"
	}
	return "(Expr.lit " + k.ExactString() + ")"
}

func (w *gw) isErr(e ast.Expr) bool {
	se, ok := unparen(e).(*ast.SelectorExpr)
	if !ok || se.Sel.Name != "err" {
		return false
	}
	id, ok := se.X.(*ast.Ident)
	return ok && id.Name == w.dname
}

var irOp = map[token.Token]string{token.LAND: "land", token.LOR: "lor", token.LSS: "lt", token.LEQ: "le", token.GTR: "gt",
	token.GEQ: "ge", token.EQL: "eq", token.NEQ: "ne", token.ADD: "add", token.SUB: "sub", token.MUL: "mul", token.QUO: "div",
	token.REM: "mod", token.AND: "band"}

func (w *gw) expr(e ast.Expr) string {
	if tv, ok := w.info().Types[e]; ok && tv.Value != nil {
		switch tv.Value.Kind() {
		case constant.Int:
			return irLit(tv.Value)
		case constant.Bool:
			if constant.BoolVal(tv.Value) {
				return "(Expr.lit 1)"
			}
			return "(Expr.lit 0)"
		}
	}
	switch x := e.(type) {
	case *ast.ParenExpr:
		return w.expr(x.X)
	case *ast.Ident, *ast.SelectorExpr, *ast.StarExpr:
		return w.v(w.key(e))
	case *ast.UnaryExpr:
		if x.Op == token.NOT {
			return "(Expr.lnot " + w.expr(x.X) + ")"
		}
	case *ast.CallExpr:
		f := oneLine(x.Fun)
		if f == "len" && len(x.Args) == 1 {
			return w.v(w.key(x.Args[0]))
		}
		if w.info().Types[x.Fun].IsType() && len(x.Args) == 1 {
			ty, ok := irTy[typeKey(w.info().Types[x.Fun].Type)]
			if !ok {
				fatal(x.Pos(), "guards: conversion to %s", oneLine(x.Fun))
			}
			return "(Expr.conv Ty." + ty + " " + w.expr(x.Args[0]) + ")"
		}
		if se, ok := x.Fun.(*ast.SelectorExpr); ok && len(x.Args) == 0 {
			switch se.Sel.Name {
			case "IsValid":
				if typeKey(w.info().Types[se.X].Type) != "s2.CellID" {
					fatal(x.Pos(), "guards: IsValid on a %s", typeKey(w.info().Types[se.X].Type))
				}
				return "(Expr.cellIDValid " + w.v(w.key(se.X)) + ")"
			case "next":
				if id, ok := se.X.(*ast.Ident); ok && w.iters[id.Name] {
					return "(Expr.lit 1)"
				}
			}
		}
	case *ast.BinaryExpr:
		if w.isErr(x.X) && oneLine(x.Y) == "nil" {
			switch x.Op {
			case token.EQL:
				return "Expr.errNil"
			case token.NEQ:
				return "Expr.errSet"
			}
		}
		op, ok := irOp[x.Op]
		if !ok {
			fatal(x.Pos(), "guards: operator %s", x.Op)
		}
		bin := "(Expr.bin BinOp." + op + " " + w.expr(x.X) + " " + w.expr(x.Y) + ")"
		switch x.Op {
		case token.ADD, token.SUB, token.MUL:
			ty, ok := irTy[typeKey(w.info().Types[e].Type)]
			if !ok {
				fatal(x.Pos(), "guards: arithmetic on %s", typeKey(w.info().Types[e].Type))
			}
			return "(Expr.conv Ty." + ty + " " + bin + ")"
		}
		return bin
	}
	fatal(e.Pos(), "guards: expression `%s` is not translated", oneLine(e))
	return ""
}

func (w *gw) add(kind, ir string, n ast.Node, srcText string) {
	w.out = append(w.out, guardRec{kind: kind, ir: ir, pos: relline(n.Pos()), src: srcText})
}

func (w *gw) errIs(e ast.Expr, op token.Token) bool {
	b, ok := unparen(e).(*ast.BinaryExpr)
	return ok && b.Op == op && w.isErr(b.X) && oneLine(b.Y) == "nil"
}

// setsErr: the block assigns d.err (possibly under `if d.err == nil`)
func (w *gw) setsErr(list []ast.Stmt) bool {
	for _, s := range list {
		switch x := s.(type) {
		case *ast.AssignStmt:
			if len(x.Lhs) == 1 && w.isErr(x.Lhs[0]) && x.Tok == token.ASSIGN {
				return true
			}
		case *ast.IfStmt:
			if x.Init == nil && x.Else == nil && w.errIs(x.Cond, token.EQL) && w.setsErr(x.Body.List) {
				return true
			}
		}
	}
	return false
}

func endsInReturn(list []ast.Stmt) bool {
	if len(list) == 0 {
		return false
	}
	_, ok := list[len(list)-1].(*ast.ReturnStmt)
	return ok
}

func (w *gw) isFuncVar(e ast.Expr) (string, bool) {
	id, ok := unparen(e).(*ast.Ident)
	if !ok {
		return "", false
	}
	o := w.info().Uses[id]
	if o == nil {
		o = w.info().Defs[id]
	}
	if v, ok := o.(*types.Var); ok {
		if _, isSig := v.Type().Underlying().(*types.Signature); isSig {
			return id.Name, true
		}
	}
	return "", false
}

func (w *gw) stmts(list []ast.Stmt) {
	for _, s := range list {
		w.stmt(s)
	}
}

func (w *gw) callSite(call *ast.CallExpr, lhs []ast.Expr) {
	if w.info().Types[call.Fun].IsType() {
		return
	}
	f := oneLine(call.Fun)
	switch f {
	case "make":
		if len(call.Args) == 2 {
			w.add("alloc", w.expr(call.Args[1]), call, oneLine(call))
		}
		return
	case "new":
		w.add("alloc", "(Expr.lit 1)", call, oneLine(call))
		return
	}
	if name, ok := w.isFuncVar(call.Fun); ok {
		for _, c := range w.fconds[name] {
			w.add("ite", w.expr(c), call, oneLine(c)+" (at the call of "+name+")")
		}
		return
	}
	if f == "decodeFaceRun" && w.fd.Name.Name != "decodeFaceRun" {
		// inlined in the IR: the callee's checks over the caller's variables, result variable renamed
		callee := findFunc(w.g.pi, "decodeFaceRun")
		if len(lhs) != 1 {
			fatal(call.Pos(), "guards: decodeFaceRun result is not bound to one variable")
		}
		res := ""
		ast.Inspect(callee.Body, func(n ast.Node) bool {
			if r, ok := n.(*ast.ReturnStmt); ok && len(r.Results) == 1 {
				if id, ok := r.Results[0].(*ast.Ident); ok {
					res = id.Name
				}
			}
			return true
		})
		if res == "" {
			fatal(callee.Pos(), "guards: decodeFaceRun does not return a variable")
		}
		sub := &gw{g: w.g, fd: callee, def: w.def, dname: callee.Type.Params.List[0].Names[0].Name, ren: map[string]string{res: w.key(lhs[0])},
			fconds: map[string][]ast.Expr{}, iters: map[string]bool{}}
		sub.stmts(callee.Body.List)
		w.out = append(w.out, sub.out...)
	}
}

func (w *gw) stmt(s ast.Stmt) {
	switch x := s.(type) {
	case *ast.IfStmt:
		if x.Init != nil {
			w.stmt(x.Init)
		}
		if x.Init == nil && x.Else == nil && w.errIs(x.Cond, token.NEQ) && len(x.Body.List) == 1 && endsInReturn(x.Body.List) {
			return // if d.err != nil { return }
		}
		// `if C { f = g }`, f function-valued
		if x.Else == nil && len(x.Body.List) == 1 {
			if a, ok := x.Body.List[0].(*ast.AssignStmt); ok && len(a.Lhs) == 1 {
				if name, ok := w.isFuncVar(a.Lhs[0]); ok {
					w.fconds[name] = append(w.fconds[name], x.Cond)
					return
				}
			}
		}
		switch {
		case w.setsErr(x.Body.List) && endsInReturn(x.Body.List) && x.Else == nil:
			w.add("failIf", w.expr(x.Cond), x, oneLine(x.Cond))
		case w.setsErr(x.Body.List) && x.Else == nil:
			w.add("errIf", w.expr(x.Cond), x, oneLine(x.Cond))
		default:
			w.add("ite", w.expr(x.Cond), x, oneLine(x.Cond))
			w.stmts(x.Body.List)
			switch e := x.Else.(type) {
			case *ast.BlockStmt:
				w.stmts(e.List)
			case *ast.IfStmt:
				w.stmt(e)
			}
		}
	case *ast.AssignStmt:
		for _, r := range x.Rhs {
			if cl, ok := unparen(r).(*ast.CompositeLit); ok && strings.HasSuffix(oneLine(cl.Type), "facesIterator") && len(x.Lhs) == 1 {
				w.iters[oneLine(x.Lhs[0])] = true
			}
			if call, ok := unparen(r).(*ast.CallExpr); ok {
				w.callSite(call, x.Lhs)
			}
		}
	case *ast.ExprStmt:
		if call, ok := unparen(x.X).(*ast.CallExpr); ok {
			w.callSite(call, nil)
		}
	case *ast.RangeStmt:
		w.add("loop", w.v(w.key(x.X)), x, "range "+oneLine(x.X))
		w.stmts(x.Body.List)
	case *ast.ForStmt:
		cond, ok := unparen(x.Cond).(*ast.BinaryExpr)
		if !ok || cond.Op != token.LSS {
			fatal(x.Pos(), "guards: loop condition `%s`", oneLine(x.Cond))
		}
		if x.Post != nil {
			w.add("loop", w.expr(cond.Y), x, oneLine(x.Cond))
		} else {
			w.add("whileLt", w.expr(cond.Y), x, oneLine(x.Cond))
		}
		w.stmts(x.Body.List)
	case *ast.SwitchStmt:
		// switch t { case k: f = g … default: return <error> }
		if x.Tag == nil || x.Init != nil {
			fatal(x.Pos(), "guards: switch form")
		}
		var conds []string
		var fname string
		hasDefault := false
		for _, cs := range x.Body.List {
			cc := cs.(*ast.CaseClause)
			if cc.List == nil {
				hasDefault = true
				if len(cc.Body) != 1 || !endsInReturn(cc.Body) {
					fatal(cc.Pos(), "guards: default clause is not a single return")
				}
				continue
			}
			if len(cc.List) != 1 || len(cc.Body) != 1 {
				fatal(cc.Pos(), "guards: case clause form")
			}
			a, ok := cc.Body[0].(*ast.AssignStmt)
			if !ok || len(a.Lhs) != 1 {
				fatal(cc.Pos(), "guards: case body is not `f = g`")
			}
			name, ok := w.isFuncVar(a.Lhs[0])
			if !ok {
				fatal(cc.Pos(), "guards: case body is not an assignment of a function value")
			}
			fname = name
			eq := &ast.BinaryExpr{X: x.Tag, Op: token.EQL, Y: cc.List[0]}
			conds = append(conds, "(Expr.bin BinOp.eq "+w.expr(x.Tag)+" "+w.expr(cc.List[0])+")")
			w.fconds[name] = append(w.fconds[name], eq)
		}
		if !hasDefault || len(conds) == 0 {
			fatal(x.Pos(), "guards: switch without default / cases")
		}
		all := conds[0]
		for _, c := range conds[1:] {
			all = "(Expr.bin BinOp.lor " + all + " " + c + ")"
		}
		_ = fname
		w.add("failIf", "(Expr.lnot "+all+")", x, "switch "+oneLine(x.Tag)+" default")
	}
}

func (w *gw) exprEq(e *ast.BinaryExpr) string {
	return "(Expr.bin BinOp.eq " + w.expr(e.X) + " " + w.expr(e.Y) + ")"
}

func (c *fctx) noteGuard(s *ast.IfStmt, lean string)                   {}
func (c *fctx) noteGuardExpr(n ast.Node, tag, k ast.Expr, lean string) {}
func (c *fctx) noteAlloc(s ast.Stmt, call *ast.CallExpr)               {}
func (c *fctx) noteLoop(s ast.Stmt, kind string, e ast.Expr)           {}
func (c *fctx) noteWhile(s *ast.ForStmt, cond *ast.BinaryExpr)         {}

func genGuards(g *gen) string {
	var b strings.Builder
	b.WriteString(`/-
  GENERATED by translator_c15b — do not edit.  The bound checks (error guards, allocation counts, loop bounds) of every
  decoder of s2, read from the Go source independently of translator_c15, as expressions of the decoder IR of C15.
  Rules: header of translator_c15b/guards.go.  Tied to the IR statements of S2/Generated/DecoderIR.lean in
  S2Proofs/Ties/C15_Decode.lean.
-/
import S2.Generated.DecoderIR
namespace S2
namespace Generated
namespace DecodeGuards
open S2.DecoderIR

/-- id of a variable of the IR, by its name in the variable table written by translator_c15 -/
def vid (s : String) : Nat :=
  match S2.Generated.DecoderIR.varNames.find? (fun p => p.2 == s) with
  | some p => p.1
  | none => 4294967295

`)
	var names []string
	for _, sp := range targets {
		if sp.kind == "prim" {
			continue
		}
		fd := findFunc(g.pi, sp.key)
		w := &gw{g: g, fd: fd, def: leanName(sp.key), ren: map[string]string{}, fconds: map[string][]ast.Expr{}, iters: map[string]bool{}}
		for _, f := range fd.Type.Params.List {
			if typeKey(g.pi.info.Types[f.Type].Type) == "*s2.decoder" {
				w.dname = f.Names[0].Name
			}
		}
		if w.dname == "" {
			// Decode wrappers: d := &decoder{…}
			ast.Inspect(fd.Body, func(n ast.Node) bool {
				if a, ok := n.(*ast.AssignStmt); ok && a.Tok == token.DEFINE && len(a.Lhs) == 1 && strings.HasPrefix(oneLine(a.Rhs[0]), "&decoder{") {
					w.dname = oneLine(a.Lhs[0])
				}
				return true
			})
		}
		w.stmts(fd.Body.List)
		name := leanName(sp.key) + "_guards"
		names = append(names, leanName(sp.key))
		fmt.Fprintf(&b, "/-- %s: %s -/\ndef %s : List (String × Expr) := [", relline(fd.Pos()), sp.key, name)
		for i, r := range w.out {
			sep := ","
			if i == len(w.out)-1 {
				sep = ""
			}
			fmt.Fprintf(&b, "\n  (%q, %s)%s  -- %s `%s`", r.kind, strings.TrimSuffix(strings.TrimPrefix(r.ir, "("), ")"), sep, r.pos, r.src)
		}
		b.WriteString("\n]\n\n")
	}
	b.WriteString("def functions : List String := [")
	for i, n := range names {
		if i > 0 {
			b.WriteString(", ")
		}
		fmt.Fprintf(&b, "%q", n)
	}
	b.WriteString("]\n\nend DecodeGuards\nend Generated\nend S2\n")
	return b.String()
}
