#!/usr/bin/env python3
"""Print the `shape_*` theorems (statement skeleton pins) for Ties/C09_Decode.lean from a generated DecodeFns.lean.
usage: mkpins.py <lean/S2/Generated/DecodeFns.lean>     (refresh the pins after an INTENDED change of the Go source)"""
import re, sys
src = open(sys.argv[1]).read()
for m in re.finditer(r'def (\w+)_shape : String :=\n  ("(?:[^"\\]|\\.)*")', src):
    print(f'theorem shape_{m.group(1)} : DecodeFns.{m.group(1)}_shape =\n    {m.group(2)} := rfl')
