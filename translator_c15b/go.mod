module translator_c15b

go 1.21
