package main

// The decoder engine: Go decoder bodies -> programs of the monad S2.Codec.Dec (rules: header of main.go).

import (
	"fmt"
	"go/ast"
	"go/constant"
	"go/token"
	"go/types"
	"sort"
	"strings"
)

// val: a translated expression.  c = carrier:
//
//	UInt8 UInt32 UInt64 Nat Int Bool F64 V3   plain Lean types
//	Byte      an int8, carried as its unsigned byte (Nat)
//	Const     integer constant (k)
//	Fresh     make([]T, n): t = the count as a Nat term
//	Coder     *nthDerivativeCoder: List UInt32
//	FacesIt   facesIterator: List (Nat × Nat) × Nat
//	Func      function-valued local
//	other     the Lean type itself ("Nat × Nat", "List V3", "RectM", …)
type val struct {
	t  string
	c  string
	k  constant.Value
	ln string   // known length (Nat term) of a slice value
	fn *funcAlt // c == "Func"
}

type funcAlt struct {
	cond      string // "" = unconditional
	name      string // callee key when cond == ""
	then, els *funcAlt
}

type gen struct {
	pi     *pkgInfo
	facts  []fact
	guards []guardSet
}

type guardSet struct {
	fn     string // Lean name of the function
	gokey  string // Go key "Point.decode"
	guards []guardRec
}

type guardRec struct {
	kind string // failIf | errIf | ite | whileLt | loop | alloc
	ir   string // IR expression
	pos  string
	src  string
	lean string // name of the Lean Bool definition the Dec program branches on ("" = none)
	args []guardArg
}

type guardArg struct {
	name, carrier, irvar, irty string
}

type fctx struct {
	g       *gen
	fd      *ast.FuncDecl
	key     string
	lname   string
	spec    fnSpec
	env     map[types.Object]val
	dobj    types.Object
	recv    types.Object
	fields  map[string]val
	effect  []string
	used    map[string]int
	pre     []string // hoisted lines of the statement being translated
	hint    string
	defs    []string // auxiliary top-level definitions (loop steps), emitted before the function
	nloop   int
	elem    *elemCtx
	named   []types.Object // named results
	gs      *guardSet
	inLoop  *loopCtx
	wantInt string
	target  types.Object
}

type elemCtx struct {
	base   string // source text of the slice expression
	idx    types.Object
	fields map[string]val
	whole  *val
	tkey   string
}

type loopCtx struct {
	carried []types.Object
	names   []string
}

func (c *fctx) info() *types.Info { return c.g.pi.info }
func (c *fctx) tv(e ast.Expr) types.TypeAndValue {
	return c.info().Types[e]
}
func (c *fctx) obj(id *ast.Ident) types.Object {
	if o := c.info().Defs[id]; o != nil {
		return o
	}
	return c.info().Uses[id]
}

func (c *fctx) fresh(hint string) string {
	hint = strings.Map(func(r rune) rune {
		if r == '.' || r == '*' || r == '[' || r == ']' || r == '(' || r == ')' {
			return '_'
		}
		return r
	}, hint)
	if hint == "" || hint == "_" {
		hint = "t"
	}
	hint = leanLocal(hint)
	c.used[hint]++
	if c.used[hint] == 1 {
		return hint
	}
	return fmt.Sprintf("%s_%d", hint, c.used[hint])
}

func (c *fctx) isD(x ast.Expr) bool {
	id, ok := unparen(x).(*ast.Ident)
	return ok && c.dobj != nil && c.obj(id) == c.dobj
}
func (c *fctx) isErr(x ast.Expr) bool {
	se, ok := unparen(x).(*ast.SelectorExpr)
	return ok && se.Sel.Name == "err" && c.isD(se.X)
}
func isNil(x ast.Expr) bool {
	id, ok := unparen(x).(*ast.Ident)
	return ok && id.Name == "nil"
}

// errIs: `d.err == nil` (eq = true) or `d.err != nil` (eq = false)
func (c *fctx) errIs(e ast.Expr) (eq bool, ok bool) {
	b, isB := unparen(e).(*ast.BinaryExpr)
	if !isB || !c.isErr(b.X) || !isNil(b.Y) {
		return false, false
	}
	switch b.Op {
	case token.EQL:
		return true, true
	case token.NEQ:
		return false, true
	}
	return false, false
}

func paren(s string) string {
	if strings.ContainsAny(s, " ") && !(strings.HasPrefix(s, "(") && balanced(s)) {
		return "(" + s + ")"
	}
	return s
}

// balanced: s starts with '(' and its matching ')' is the last character
func balanced(s string) bool {
	d := 0
	for i, r := range s {
		switch r {
		case '(', '⟨':
			d++
		case ')', '⟩':
			d--
			if d == 0 && i != len(s)-len(string(r)) {
				return false
			}
		}
	}
	return d == 0
}

func natLit(k constant.Value, p token.Pos) string {
	if constant.Sign(k) < 0 {
		fatal(p, "negative constant %s where a natural number is expected", k.ExactString())
	}
	return k.ExactString()
}

func intLit(k constant.Value) string {
	if constant.Sign(k) < 0 {
		return "(" + k.ExactString() + " : Int)"
	}
	return "(" + k.ExactString() + " : Int)"
}

// asNat: the value as a Nat term
func (c *fctx) asNat(v val, p token.Pos) string {
	switch v.c {
	case "Nat", "Byte":
		return v.t
	case "Const":
		return natLit(v.k, p)
	case "UInt8", "UInt32", "UInt64":
		return paren(v.t) + ".toNat"
	}
	fatal(p, "carrier %s where a natural number is needed", v.c)
	return ""
}

func (c *fctx) asInt(v val, p token.Pos) string {
	switch v.c {
	case "Int":
		return v.t
	case "Const":
		return intLit(v.k)
	case "Nat":
		return "(" + v.t + " : Int)"
	case "UInt8", "UInt32", "UInt64":
		return "(" + paren(v.t) + ".toNat : Int)"
	}
	fatal(p, "carrier %s where an integer is needed", v.c)
	return ""
}

// ---------------------------------------------------------------- expressions

func (c *fctx) ex(e ast.Expr) val {
	e = unparen(e)
	tv := c.tv(e)
	if tv.Value != nil {
		switch tv.Value.Kind() {
		case constant.Int:
			return val{t: tv.Value.ExactString(), c: "Const", k: tv.Value}
		case constant.Bool:
			if constant.BoolVal(tv.Value) {
				return val{t: "true", c: "Bool"}
			}
			return val{t: "false", c: "Bool"}
		}
		fatal(e.Pos(), "constant `%s` of kind %v", oneLine(e), tv.Value.Kind())
	}
	switch x := e.(type) {
	case *ast.Ident:
		o := c.obj(x)
		if v, ok := c.env[o]; ok {
			return v
		}
		fatal(x.Pos(), "identifier `%s` has no translated value here", x.Name)
	case *ast.StarExpr:
		if id, ok := unparen(x.X).(*ast.Ident); ok && c.recv != nil && c.obj(id) == c.recv {
			if v, ok := c.fields["*"]; ok {
				return v
			}
			fatal(x.Pos(), "`%s` is read before it is assigned", oneLine(x))
		}
	case *ast.SelectorExpr:
		return c.selector(x)
	case *ast.IndexExpr:
		return c.index(x)
	case *ast.CallExpr:
		return c.call(x)
	case *ast.UnaryExpr:
		if x.Op == token.NOT {
			t, prop := c.cond(x.X)
			if prop {
				t = "decide (" + t + ")"
			}
			return val{t: "(!" + paren(t) + ")", c: "Bool"}
		}
	case *ast.BinaryExpr:
		return c.binary(x)
	case *ast.CompositeLit:
		return c.composite(x)
	}
	fatal(e.Pos(), "expression `%s` (%T) is not translated", oneLine(e), e)
	return val{}
}

// path of a selector chain rooted at an identifier: (root object, "a.b.c")
func (c *fctx) selPath(e ast.Expr) (ast.Expr, string) {
	e = unparen(e)
	if se, ok := e.(*ast.SelectorExpr); ok {
		if _, isField := c.info().Selections[se]; isField {
			root, p := c.selPath(se.X)
			if p == "" {
				return root, se.Sel.Name
			}
			return root, p + "." + se.Sel.Name
		}
	}
	return e, ""
}

func (c *fctx) isRecv(e ast.Expr) bool {
	id, ok := unparen(e).(*ast.Ident)
	return ok && c.recv != nil && c.obj(id) == c.recv
}

// isElem: e is `<slice>[i]` of the readN loop being translated
func (c *fctx) isElem(e ast.Expr) bool {
	ix, ok := unparen(e).(*ast.IndexExpr)
	if !ok || c.elem == nil {
		return false
	}
	id, ok := unparen(ix.Index).(*ast.Ident)
	return ok && c.obj(id) == c.elem.idx && oneLine(unparen(ix.X)) == c.elem.base
}

var structFields = map[string]map[string][2]string{ // carrier -> Go field -> (projection, carrier)
	"Nat × Nat": {"face": {"1", "Nat"}, "count": {"2", "Nat"}},
	"V3":        {"X": {"x", "F64"}, "Y": {"y", "F64"}, "Z": {"z", "F64"}},
	"LoopM":     {"vertices": {"vertices", "List V3"}},
	"LoopC":     {"vertices": {"vertices", "List V3"}},
}

func (c *fctx) selector(x *ast.SelectorExpr) val {
	if c.isErr(x) {
		fatal(x.Pos(), "`%s` outside a nil test", oneLine(x))
	}
	root, path := c.selPath(x)
	if path == "" {
		fatal(x.Pos(), "selector `%s` is not a field path", oneLine(x))
	}
	if c.isRecv(root) {
		if v, ok := c.fields[path]; ok {
			return v
		}
		fatal(x.Pos(), "receiver field `%s` is read before the decoder assigned it", oneLine(x))
	}
	if c.isElem(root) {
		if v, ok := c.elem.fields[path]; ok {
			return v
		}
		if c.elem.whole != nil {
			return c.project(*c.elem.whole, path, x.Pos())
		}
		fatal(x.Pos(), "element field `%s` is read before it is assigned", oneLine(x))
	}
	if id, ok := unparen(root).(*ast.Ident); ok {
		if v, ok := c.env[c.obj(id)]; ok {
			if v.c == "FacesIt" && path == "curFace" {
				return val{t: v.t + "_curFace", c: "Nat"}
			}
			return c.project(v, path, x.Pos())
		}
	}
	fatal(x.Pos(), "field path `%s` is not translated", oneLine(x))
	return val{}
}

func (c *fctx) project(v val, path string, p token.Pos) val {
	for _, f := range strings.Split(path, ".") {
		m, ok := structFields[v.c]
		if !ok {
			fatal(p, "no field table for carrier %s (field %s)", v.c, f)
		}
		pr, ok := m[f]
		if !ok {
			fatal(p, "carrier %s has no field %s", v.c, f)
		}
		v = val{t: paren(v.t) + "." + pr[0], c: pr[1]}
	}
	return v
}

func (c *fctx) index(x *ast.IndexExpr) val {
	fatal(x.Pos(), "index expression `%s` is not translated here", oneLine(x))
	return val{}
}

func (c *fctx) composite(x *ast.CompositeLit) val {
	tk := typeKey(c.tv(x).Type)
	switch tk {
	case "s2.faceRun":
		var face, count *val
		for _, el := range x.Elts {
			kv, ok := el.(*ast.KeyValueExpr)
			if !ok {
				fatal(el.Pos(), "faceRun literal without field names")
			}
			v := c.exAs(kv.Value, "Nat")
			switch oneLine(kv.Key) {
			case "face":
				face = &v
			case "count":
				count = &v
			default:
				fatal(kv.Pos(), "unknown faceRun field %s", oneLine(kv.Key))
			}
		}
		if face == nil || count == nil {
			fatal(x.Pos(), "faceRun literal must set face and count")
		}
		return val{t: "(" + face.t + ", " + count.t + ")", c: "Nat × Nat"}
	case "s2.Point":
		if len(x.Elts) == 1 {
			if _, isKV := x.Elts[0].(*ast.KeyValueExpr); !isKV {
				v := c.ex(x.Elts[0])
				if v.c != "V3" {
					fatal(x.Pos(), "Point{…} of carrier %s", v.c)
				}
				return v
			}
		}
	}
	fatal(x.Pos(), "composite literal `%s` is not translated", oneLine(x))
	return val{}
}

// exAs: translate e whose value is stored into a slot of carrier `want` (decides how `int(uvarint)` is carried)
func (c *fctx) exAs(e ast.Expr, want string) val {
	old := c.wantInt
	c.wantInt = want
	v := c.ex(e)
	c.wantInt = old
	return v
}

// conversion T(x)
func (c *fctx) conv(call *ast.CallExpr) val {
	to := typeKey(c.tv(call.Fun).Type)
	arg := call.Args[0]
	from := typeKey(c.tv(arg).Type)
	v := c.ex(arg)
	p := call.Pos()
	bad := func() val {
		fatal(p, "conversion `%s` (%s -> %s, carrier %s) is not translated", oneLine(call), from, to, v.c)
		return val{}
	}
	if v.c == "Const" {
		return v
	}
	switch to {
	case "int8":
		if v.c == "UInt8" {
			return val{t: paren(v.t) + ".toNat", c: "Byte"}
		}
	case "int":
		switch v.c {
		case "UInt8", "UInt32":
			return val{t: paren(v.t) + ".toNat", c: "Nat"}
		case "Byte":
			return v
		case "Nat":
			if from == "uint64" {
				if c.wantInt == "Nat" {
					return v // carried unsigned (table natInts)
				}
				return val{t: "S2.Codec.toInt64 " + paren(v.t), c: "Int"}
			}
			return v
		}
	case "uint":
		if v.c == "Nat" && from == "int" {
			return v
		}
	case "uint64":
		switch v.c {
		case "UInt8":
			return val{t: paren(v.t) + ".toUInt64", c: "UInt64"}
		case "UInt64":
			return v
		}
	case "uint32":
		if v.c == "UInt32" {
			return v
		}
	case "int32":
		if v.c == "UInt32" {
			return v
		}
	case "s2.CellID":
		if v.c == "UInt64" {
			return v
		}
	case "s1.ChordAngle", "float64":
		if v.c == "F64" {
			return v
		}
	}
	return bad()
}

func (c *fctx) binary(x *ast.BinaryExpr) val {
	switch x.Op {
	case token.LAND, token.LOR, token.EQL, token.NEQ, token.LSS, token.LEQ, token.GTR, token.GEQ:
		t, prop := c.cond(x)
		if prop {
			t = "decide (" + t + ")"
		}
		return val{t: t, c: "Bool"}
	}
	a, b := c.ex(x.X), c.ex(x.Y)
	p := x.Pos()
	natural := func(v val) bool { return v.c == "Nat" || v.c == "Const" }
	op := map[token.Token]string{token.ADD: "+", token.MUL: "*", token.QUO: "/", token.REM: "%", token.AND: "&&&", token.OR: "|||"}[x.Op]
	switch {
	case natural(a) && natural(b) && op != "":
		return val{t: paren(c.asNat(a, p)) + " " + op + " " + paren(c.asNat(b, p)), c: "Nat"}
	case a.c == "UInt64" && b.c == "UInt64" && (x.Op == token.OR || x.Op == token.AND):
		return val{t: paren(a.t) + " " + op + " " + paren(b.t), c: "UInt64"}
	case a.c == "UInt64" && natural(b) && x.Op == token.SHL:
		// Go: a shift count >= 64 gives 0 (Lean's <<< on UInt64 reduces the count mod 64)
		return val{t: "shl64 " + paren(a.t) + " " + paren(c.asNat(b, p)), c: "UInt64"}
	}
	fatal(p, "operator `%s` on carriers %s, %s is not translated: `%s`", x.Op, a.c, b.c, oneLine(x))
	return val{}
}

// cond: a Boolean expression as (Lean term, isProp)
func (c *fctx) cond(e ast.Expr) (string, bool) {
	e = unparen(e)
	if eq, ok := c.errIs(e); ok {
		if eq {
			return "true", false
		}
		return "false", false
	}
	switch x := e.(type) {
	case *ast.BinaryExpr:
		switch x.Op {
		case token.LAND:
			// `C && d.err == nil`: on the translated path d.err == nil holds
			if eq, ok := c.errIs(x.Y); ok && eq {
				return c.cond(x.X)
			}
			if eq, ok := c.errIs(x.X); ok && eq {
				return c.cond(x.Y)
			}
			a, pa := c.cond(x.X)
			b, pb := c.cond(x.Y)
			return "(" + boolOf(a, pa) + " && " + boolOf(b, pb) + ")", false
		case token.LOR:
			a, pa := c.cond(x.X)
			b, pb := c.cond(x.Y)
			return "(" + boolOf(a, pa) + " || " + boolOf(b, pb) + ")", false
		case token.EQL, token.NEQ, token.LSS, token.LEQ, token.GTR, token.GEQ:
			return c.compare(x)
		}
	case *ast.UnaryExpr:
		if x.Op == token.NOT {
			a, pa := c.cond(x.X)
			return "(!" + paren(boolOf(a, pa)) + ")", false
		}
	}
	v := c.ex(e)
	if v.c != "Bool" {
		fatal(e.Pos(), "condition `%s` has carrier %s", oneLine(e), v.c)
	}
	return v.t, false
}

func boolOf(t string, prop bool) string {
	if prop {
		return "decide (" + t + ")"
	}
	return t
}

func (c *fctx) compare(x *ast.BinaryExpr) (string, bool) {
	a, b := c.ex(x.X), c.ex(x.Y)
	p := x.Pos()
	op := map[token.Token]string{token.EQL: "==", token.NEQ: "!=", token.LSS: "<", token.LEQ: "≤", token.GTR: ">", token.GEQ: "≥"}[x.Op]
	prop := x.Op != token.EQL && x.Op != token.NEQ
	if a.c == "Byte" || b.c == "Byte" {
		// an int8 carried as its unsigned byte: only (in)equality with a constant 0..127 means the same on both readings
		o := b
		if b.c == "Byte" {
			o = a
		}
		if prop || o.c != "Const" || constant.Sign(o.k) < 0 || constant.Compare(o.k, token.GTR, constant.MakeInt64(127)) {
			fatal(p, "int8 comparison `%s`: only ==/!= against a constant 0..127 is translated", oneLine(x))
		}
		return paren(c.asNatB(a, p)) + " " + op + " " + paren(c.asNatB(b, p)), false
	}
	if a.c == "Int" || b.c == "Int" {
		return paren(c.asInt(a, p)) + " " + op + " " + paren(c.asInt(b, p)), prop
	}
	if a.c == "Bool" && b.c == "Bool" && !prop {
		return paren(a.t) + " " + op + " " + paren(b.t), false
	}
	return paren(c.asNat(a, p)) + " " + op + " " + paren(c.asNat(b, p)), prop
}

func (c *fctx) asNatB(v val, p token.Pos) string {
	if v.c == "Byte" {
		return v.t
	}
	return c.asNat(v, p)
}

// ---------------------------------------------------------------- calls

func (c *fctx) callee(call *ast.CallExpr) (string, *types.Func) {
	switch f := unparen(call.Fun).(type) {
	case *ast.Ident:
		if fn, ok := c.obj(f).(*types.Func); ok {
			return funcKey(fn), fn
		}
		if b, ok := c.obj(f).(*types.Builtin); ok {
			return "builtin." + b.Name(), nil
		}
	case *ast.SelectorExpr:
		if sel, ok := c.info().Selections[f]; ok {
			if fn, ok := sel.Obj().(*types.Func); ok {
				return funcKey(fn), fn
			}
		}
		if fn, ok := c.info().Uses[f.Sel].(*types.Func); ok {
			return funcKey(fn), fn
		}
	}
	return "", nil
}

// read primitives of the decoder as used by the other decoders: hand model function, carrier of the result
var readers = map[string][2]string{
	"s2.decoder.readBool":    {"S2.Codec.readBool", "Bool"},
	"s2.decoder.readInt8":    {"S2.Codec.readInt8", "Byte"},
	"s2.decoder.readInt64":   {"S2.Codec.readInt64", "Int"},
	"s2.decoder.readUint8":   {"S2.Codec.readUint8", "UInt8"},
	"s2.decoder.readUint32":  {"S2.Codec.readUint32", "UInt32"},
	"s2.decoder.readUint64":  {"S2.Codec.readUint64", "UInt64"},
	"s2.decoder.readFloat64": {"S2.Codec.readFloat64Bits", "Bits"},
	"s2.decoder.readUvarint": {"S2.Codec.readUvarint", "Nat"},
}

func (c *fctx) bindRead(lean, carrier string) val {
	n := c.fresh(c.hint)
	c.pre = append(c.pre, "let "+n+" ← "+lean)
	if carrier == "Bits" {
		return val{t: "(⟨" + n + "⟩ : S2.F64)", c: "F64"}
	}
	return val{t: n, c: carrier}
}

func (c *fctx) call(call *ast.CallExpr) val {
	if c.tv(call.Fun).IsType() {
		if len(call.Args) != 1 {
			fatal(call.Pos(), "conversion with %d arguments", len(call.Args))
		}
		return c.conv(call)
	}
	key, _ := c.callee(call)
	if r, ok := readers[key]; ok {
		se := unparen(call.Fun).(*ast.SelectorExpr)
		if !c.isD(se.X) || len(call.Args) != 0 {
			fatal(call.Pos(), "read `%s` on something that is not the decoder", oneLine(call))
		}
		return c.bindRead(r[0], r[1])
	}
	switch key {
	case "builtin.len":
		v := c.ex(call.Args[0])
		if v.ln != "" {
			return val{t: v.ln, c: "Nat"}
		}
		if v.c == "Fresh" {
			return val{t: v.t, c: "Nat"}
		}
		if strings.HasPrefix(v.c, "List ") {
			return val{t: paren(v.t) + ".length", c: "Nat"}
		}
		fatal(call.Pos(), "len of carrier %s", v.c)
	case "s2.CellID.IsValid":
		se := unparen(call.Fun).(*ast.SelectorExpr)
		v := c.ex(se.X)
		if v.c != "UInt64" {
			fatal(call.Pos(), "IsValid on carrier %s", v.c)
		}
		return val{t: "S2.CellID.isValid " + paren(v.t), c: "Bool"}
	case "binary.littleEndian.Uint64":
		if oneLine(call.Fun) != "binary.LittleEndian.Uint64" || len(call.Args) != 1 {
			fatal(call.Pos(), "`%s` is not binary.LittleEndian.Uint64(buf)", oneLine(call))
		}
		v := c.ex(call.Args[0])
		if v.c != "BufVal" || v.ln != "8" {
			fatal(call.Pos(), "LittleEndian.Uint64 of something that is not the 8 bytes just read")
		}
		return val{t: "UInt64.ofNat " + v.t, c: "UInt64"}
	case "math.Float64frombits":
		v := c.ex(call.Args[0])
		if v.c != "UInt64" {
			fatal(call.Pos(), "Float64frombits of carrier %s", v.c)
		}
		return val{t: "(⟨" + v.t + "⟩ : S2.F64)", c: "F64"}
	case "s2.deinterleaveUint32":
		v := c.ex(call.Args[0])
		a := v.t
		switch v.c {
		case "Nat":
			a = "UInt64.ofNat " + paren(v.t)
		case "UInt64":
		default:
			fatal(call.Pos(), "deinterleaveUint32 of carrier %s", v.c)
		}
		return val{t: "S2.Codec.deinterleaveUint32 (" + a + ")", c: "UInt32 × UInt32"}
	case "s2.zigzagDecode":
		v := c.ex(call.Args[0])
		if v.c != "UInt32" {
			fatal(call.Pos(), "zigzagDecode of carrier %s", v.c)
		}
		return val{t: "S2.Codec.zigzagDecode " + paren(v.t), c: "UInt32"}
	case "s2.facePiQitoXYZ":
		if len(call.Args) != 4 {
			fatal(call.Pos(), "facePiQitoXYZ with %d arguments", len(call.Args))
		}
		var as []string
		for _, a := range call.Args {
			as = append(as, paren(c.asNat(c.ex(a), a.Pos())))
		}
		return val{t: "S2.Codec.facePiQiToXYZ " + strings.Join(as, " "), c: "V3"}
	case "s2.nthDerivativeCoder.decode":
		se := unparen(call.Fun).(*ast.SelectorExpr)
		id, ok := unparen(se.X).(*ast.Ident)
		if !ok {
			fatal(call.Pos(), "coder call on `%s`", oneLine(se.X))
		}
		o := c.obj(id)
		cv, ok := c.env[o]
		if !ok || cv.c != "Coder" {
			fatal(call.Pos(), "`%s` is not a coder", id.Name)
		}
		k := c.ex(call.Args[0])
		if k.c != "UInt32" {
			fatal(call.Pos(), "coder.decode of carrier %s", k.c)
		}
		s := c.fresh("s")
		c.pre = append(c.pre, "let "+s+" := S2.Codec.coderDecode S2.Codec.derivativeEncodingOrder "+cv.t+" "+paren(k.t))
		n := c.fresh(id.Name)
		c.pre = append(c.pre, "let "+n+" := "+s+".1")
		c.env[o] = val{t: n, c: "Coder"}
		return val{t: s + ".2", c: "UInt32"}
	}
	fatal(call.Pos(), "call `%s` (%s) is not translated in an expression", oneLine(call), key)
	return val{}
}

func sortedKeys(m map[string]val) []string {
	var ks []string
	for k := range m {
		ks = append(ks, k)
	}
	sort.Strings(ks)
	return ks
}
