package main

// Tables (which Lean carrier / hand model function stands for which Go thing) and the driver.

import (
	"fmt"
	"go/ast"
	"go/constant"
	"go/token"
	"go/types"
	"strings"
)

type fnSpec struct {
	key     string
	kind    string            // prim | method | func | wrapper
	ret     string            // Lean type of the decoded value
	fields  []string          // receiver fields, in template order ("f?" = optional: some/none)
	tmpl    string            // receiver value; $1… = fields, $E = effects of opaque calls
	params  map[string]string // parameter name -> Nat | Coder | Target
	results []string          // func: carriers of the explicit results
	thread  []string          // func: parameters whose final state is appended to the result
	hand    string            // the hand model function this is tied to (documentation only)
}

func (s fnSpec) threaded(c *fctx) []types.Object {
	var out []types.Object
	for _, n := range s.thread {
		for _, f := range c.fd.Type.Params.List {
			for _, id := range f.Names {
				if id.Name == n {
					out = append(out, c.obj(id))
				}
			}
		}
	}
	return out
}

const v3Tmpl = "(⟨$1, $2, $3⟩ : S2.V3)"

var targets = []fnSpec{
	{key: "decoder.readBool", kind: "prim", ret: "Bool", hand: "readBool"},
	{key: "decoder.readInt8", kind: "prim", ret: "Nat", hand: "readInt8"},
	{key: "decoder.readInt64", kind: "prim", ret: "Int", hand: "readInt64"},
	{key: "decoder.readUint8", kind: "prim", ret: "UInt8", hand: "readUint8"},
	{key: "decoder.readUint32", kind: "prim", ret: "UInt32", hand: "readUint32"},
	{key: "decoder.readUint64", kind: "prim", ret: "UInt64", hand: "readUint64"},
	{key: "decoder.readFloat64", kind: "prim", ret: "S2.F64", hand: "readFloat64Bits"},
	{key: "decoder.readUvarint", kind: "prim", ret: "Nat", hand: "readUvarint"},

	{key: "decodeFaceRun", kind: "func", ret: "Nat × Nat", results: []string{"Nat × Nat"}, hand: "decodeFaceRun"},
	{key: "decodeFaces", kind: "func", ret: "List (Nat × Nat)", params: map[string]string{"numVertices": "Nat"},
		results: []string{"List (Nat × Nat)"}, hand: "decodeFaces"},
	{key: "decodePointCompressed", kind: "func", ret: "Nat × Nat × List UInt32 × List UInt32",
		params:  map[string]string{"level": "Nat", "piCoder": "Coder", "qiCoder": "Coder"},
		results: []string{"Nat", "Nat"}, thread: []string{"piCoder", "qiCoder"}, hand: "decodePoint"},
	{key: "decodeFirstPointFixedLength", kind: "func", ret: "Nat × Nat × List UInt32 × List UInt32",
		params:  map[string]string{"level": "Nat", "piCoder": "Coder", "qiCoder": "Coder"},
		results: []string{"Nat", "Nat"}, thread: []string{"piCoder", "qiCoder"}, hand: "decodeFirstPoint"},
	{key: "decodePointsCompressed", kind: "method", ret: "List S2.V3", fields: []string{"*"}, tmpl: "$1",
		params: map[string]string{"level": "Nat", "target": "Target"}, hand: "decodePointsCompressed"},

	{key: "Point.decode", kind: "method", ret: "S2.V3", fields: []string{"X", "Y", "Z"}, tmpl: v3Tmpl, hand: "decodePoint'"},
	{key: "Cap.decode", kind: "method", ret: "CapM", fields: []string{"center.X", "center.Y", "center.Z", "radius"},
		tmpl: "(⟨⟨$1, $2, $3⟩, $4⟩ : CapM)", hand: "decodeCap"},
	{key: "Rect.decode", kind: "method", ret: "RectM", fields: []string{"Lat.Lo", "Lat.Hi", "Lng.Lo", "Lng.Hi"},
		tmpl: "(⟨$1, $2, $3, $4⟩ : RectM)", hand: "decodeRect"},
	{key: "CellID.decode", kind: "method", ret: "UInt64", fields: []string{"*"}, tmpl: "$1", hand: "decodeCellID"},
	{key: "Cell.decode", kind: "method", ret: "UInt64", fields: []string{"id"}, tmpl: "$1", hand: "decodeCell"},
	{key: "CellUnion.decode", kind: "method", ret: "List UInt64", fields: []string{"*"}, tmpl: "$1", hand: "decodeCellUnion"},
	{key: "Polyline.decode", kind: "method", ret: "List S2.V3", fields: []string{"*"}, tmpl: "$1", hand: "decodePolyline"},
	{key: "Loop.decode", kind: "method", ret: "LoopM", fields: []string{"vertices", "originInside", "depth", "bound"},
		tmpl: "(⟨$1, $2, $3, $4⟩ : LoopM)", hand: "decodeLoop"},
	{key: "Loop.decodeCompressed", kind: "method", ret: "LoopC", fields: []string{"vertices", "originInside", "depth", "bound?"},
		tmpl: "($E(⟨$1, $2, $3, $4⟩ : LoopC))", params: map[string]string{"snapLevel": "Nat"}, hand: "decodeLoopCompressed"},
	{key: "Polygon.decode", kind: "method", ret: "PolygonD", fields: []string{"loops", "hasHoles", "bound"},
		tmpl: "(⟨($1).map LoopM.toC, $2, some $3⟩ : PolygonD)", hand: "decodePolygonLossless"},
	{key: "Polygon.decodeCompressed", kind: "method", ret: "PolygonD", fields: []string{"loops"},
		tmpl: "($E$1 : PolygonD)", hand: "decodePolygonCompressed"},

	{key: "Point.Decode", kind: "wrapper", ret: "S2.V3", fields: []string{"*"}, tmpl: "$1", hand: "decodePoint'"},
	{key: "Cap.Decode", kind: "wrapper", ret: "CapM", fields: []string{"*"}, tmpl: "$1", hand: "decodeCap"},
	{key: "Rect.Decode", kind: "wrapper", ret: "RectM", fields: []string{"*"}, tmpl: "$1", hand: "decodeRect"},
	{key: "CellID.Decode", kind: "wrapper", ret: "UInt64", fields: []string{"*"}, tmpl: "$1", hand: "decodeCellID"},
	{key: "Cell.Decode", kind: "wrapper", ret: "UInt64", fields: []string{"*"}, tmpl: "$1", hand: "decodeCell"},
	{key: "CellUnion.Decode", kind: "wrapper", ret: "List UInt64", fields: []string{"*"}, tmpl: "$1", hand: "decodeCellUnion"},
	{key: "Polyline.Decode", kind: "wrapper", ret: "List S2.V3", fields: []string{"*"}, tmpl: "$1", hand: "decodePolyline"},
	{key: "Loop.Decode", kind: "wrapper", ret: "LoopM", fields: []string{"*"}, tmpl: "$1", hand: "decodeLoop"},
	{key: "Polygon.Decode", kind: "wrapper", ret: "PolygonD", fields: []string{"*"}, tmpl: "$1", hand: "decodePolygon"},
}

type dspec struct {
	lean   string
	params []string // per Go argument: "-" decoder | Nat | Coder | Target
	ret    string
}

// Go decoder function -> hand model decoder (S2/Codec/*.lean).  $k = k-th Go argument.
var decoderFuncs = map[string]dspec{
	"s2.Point.decode":                {"S2.Codec.decodePoint'", []string{"-"}, "V3"},
	"s2.Cap.decode":                  {"S2.Codec.decodeCap", []string{"-"}, "CapM"},
	"s2.Rect.decode":                 {"S2.Codec.decodeRect", []string{"-"}, "RectM"},
	"s2.CellID.decode":               {"S2.Codec.decodeCellID", []string{"-"}, "UInt64"},
	"s2.Cell.decode":                 {"S2.Codec.decodeCell", []string{"-"}, "UInt64"},
	"s2.CellUnion.decode":            {"S2.Codec.decodeCellUnion", []string{"-"}, "List UInt64"},
	"s2.Polyline.decode":             {"S2.Codec.decodePolyline", []string{"-"}, "List V3"},
	"s2.Loop.decode":                 {"S2.Codec.decodeLoop", []string{"-"}, "LoopM"},
	"s2.Loop.decodeCompressed":       {"S2.Codec.decodeLoopCompressed $2", []string{"-", "Nat"}, "LoopC"},
	"s2.Polygon.decode":              {"S2.Codec.decodePolygonLossless", []string{"-"}, "PolygonD"},
	"s2.Polygon.decodeCompressed":    {"S2.Codec.decodePolygonCompressed", []string{"-"}, "PolygonD"},
	"s2.decodeFaceRun":               {"S2.Codec.decodeFaceRun", []string{"-"}, "Nat × Nat"},
	"s2.decodeFaces":                 {"S2.Codec.decodeFaces $1", []string{"Nat", "-"}, "List (Nat × Nat)"},
	"s2.decodePointsCompressed":      {"S2.Codec.decodePointsCompressed $2 $3", []string{"-", "Nat", "Target"}, "Target"},
	"s2.decodeFirstPointFixedLength": {"S2.Codec.decodeFirstPoint $2 $3 $4", []string{"-", "Nat", "Coder", "Coder"}, "PointCoders"},
	"s2.decodePointCompressed":       {"S2.Codec.decodePoint $3 $4", []string{"-", "Nat", "Coder", "Coder"}, "PointCoders"},
}

// post-decode bookkeeping, keyed by "<function>|<statement text>": recorded in the shape only; the value is the name of
// the fixed preamble definition that models its effect on the decoded value ("" = none).
var opaque = map[string]string{
	"Loop.decode|l.index = NewShapeIndex()":                                 "",
	"Loop.decode|l.subregionBound = ExpandForSubregions(l.bound)":           "",
	"Loop.decode|l.index.Add(l)":                                            "",
	"Loop.Decode|*l = Loop{}":                                               "",
	"Loop.decodeCompressed|l.index = NewShapeIndex()":                       "",
	"Loop.decodeCompressed|l.subregionBound = ExpandForSubregions(l.bound)": "",
	"Loop.decodeCompressed|l.initBound()":                                   "initBoundC",
	"Loop.decodeCompressed|l.index.Add(l)":                                  "",
	"Cell.decode|*c = CellFromCellID(c.id)":                                 "",
	"Polygon.decode|*p = Polygon{}":                                         "",
	"Polygon.decode|p.numVertices += len(p.loops[i].vertices)":              "",
	"Polygon.decode|p.subregionBound = ExpandForSubregions(p.bound)":        "",
	"Polygon.decode|p.initEdgesAndIndex()":                                  "",
	"Polygon.decodeCompressed|p.initLoopProperties()":                       "initLoopPropertiesD",
}

// slots in which an `int(<uvarint>)` is carried as the unsigned value (hand model convention, see DELIVER.md)
var natInts = map[string]bool{
	"Loop.decodeCompressed|field|depth": true,
	"decodeFaceRun|var|ret":             true,
}

func leanName(key string) string { return strings.ReplaceAll(key, ".", "_") }

func derivOrder(g *gen) string {
	o := g.pi.pkg.Scope().Lookup("derivativeEncodingOrder")
	k, ok := o.(*types.Const)
	if !ok {
		die("constant derivativeEncodingOrder not found")
	}
	return k.Val().ExactString()
}

// bufferLen: the N of `make([]byte, N)` in decoder.buffer
func bufferLen(g *gen) string {
	fd := findFunc(g.pi, "decoder.buffer")
	n := ""
	ast.Inspect(fd.Body, func(x ast.Node) bool {
		call, ok := x.(*ast.CallExpr)
		if !ok || oneLine(call.Fun) != "make" || len(call.Args) != 2 || oneLine(call.Args[0]) != "[]byte" {
			return true
		}
		tv := g.pi.info.Types[call.Args[1]]
		if tv.Value == nil || tv.Value.Kind() != constant.Int {
			fatal(call.Pos(), "decoder.buffer: size is not a constant")
		}
		if n != "" {
			fatal(call.Pos(), "decoder.buffer: two allocations")
		}
		n = tv.Value.ExactString()
		return true
	})
	if n == "" {
		fatal(fd.Pos(), "decoder.buffer: no `make([]byte, N)` found")
	}
	want := "{ if d.buf == nil { d.buf = make([]byte, " + n + ") } return d.buf }"
	if oneLine(fd.Body) != want {
		fatal(fd.Pos(), "decoder.buffer changed shape: `%s`", oneLine(fd.Body))
	}
	return n
}

const preamble = `/-
  GENERATED by translator_c15b from s2/encode.go, pointcompression.go and the Decode / decode / decodeCompressed methods
  of point.go, cap.go, rect.go, cellid.go, cell.go, cellunion.go, polyline.go, loop.go, polygon.go — do not edit.
  Rules: header of translator_c15b/main.go.  A Go decoder is read as a program of the monad S2.Codec.Dec along the path
  on which d.err == nil; a call of another decoder is a call of the hand model decoder of the callee (S2.Codec.*).
  The hand model decoders are tied to these definitions in S2Proofs/Ties/C09_Decode.lean.
-/
import S2.Codec
set_option linter.unusedVariables false
namespace S2
namespace Generated
namespace DecodeFns
open S2.Codec

/-- io.ByteReader.ReadByte on the unread input (model of the standard library, not regenerated) -/
def readByte : Dec UInt8 := fun bs =>
  match bs with
  | [] => none
  | b :: r => some (b, r)

/-- Go ` + "`x << s`" + ` on uint64: zero once the count reaches the width -/
def shl64 (x : UInt64) (s : Nat) : UInt64 := if s < 64 then x <<< UInt64.ofNat s else 0

/-- ` + "`for i := 0; i < n; i++ { body }`" + ` in a decoder: body i s = the new values of the loop-carried variables -/
def forDecAux (f : Nat → σ → Dec σ) : Nat → Nat → σ → Dec σ
  | 0, _, s => pure s
  | k+1, i, s => do let s' ← f i s; forDecAux f k (i + 1) s'
def forDec (n : Nat) (s : σ) (f : Nat → σ → Dec σ) : Dec σ := forDecAux f n 0 s

/-- ` + "`for ; cond; { body }`" + ` whose variant decreases at least by one per iteration: fuel = the initial distance -/
def whileDec (cond : σ → Bool) (f : σ → Dec σ) : Nat → σ → Dec σ
  | 0, s => pure s
  | k+1, s => if cond s then do let s' ← f s; whileDec cond f k s' else pure s

/-- model of the effect of the opaque ` + "`l.initBound()`" + ` on the decoded value (not regenerated): a loop without
    vertices is replaced by the empty loop; otherwise only the (unmodelled) bound is computed -/
def initBoundC (n : Nat) (l : LoopC) : LoopC := if n == 0 then emptyLoopC else l

/-- model of the effect of the opaque ` + "`p.initLoopProperties()`" + ` (not regenerated): hasHoles := some loop is a hole
    (odd depth); the bound is recomputed (unmodelled) -/
def initLoopPropertiesD (loops : List LoopC) : PolygonD := ⟨loops, loops.any (fun l => l.depth % 2 == 1), none⟩

`

func genDecode(g *gen) string {
	var b strings.Builder
	b.WriteString(preamble)
	fmt.Fprintf(&b, "/-- `derivativeEncodingOrder` -/\ndef derivativeEncodingOrder_go : Nat := %s\n", derivOrder(g))
	fmt.Fprintf(&b, "/-- the N of `make([]byte, N)` in `decoder.buffer` -/\ndef bufferLen_go : Nat := %s\n\n", bufferLen(g))
	for _, sp := range targets {
		b.WriteString(genFunc(g, sp))
	}
	b.WriteString("end DecodeFns\nend Generated\nend S2\n")
	return b.String()
}

func genFunc(g *gen, sp fnSpec) string {
	fd := findFunc(g.pi, sp.key)
	c := &fctx{g: g, fd: fd, key: sp.key, lname: leanName(sp.key), spec: sp, env: map[types.Object]val{},
		fields: map[string]val{}, used: map[string]int{}}
	c.gs = &guardSet{fn: c.lname, gokey: sp.key}
	if fd.Recv != nil {
		if sp.kind == "prim" {
			c.dobj = c.obj(fd.Recv.List[0].Names[0])
		} else {
			c.recv = c.obj(fd.Recv.List[0].Names[0])
		}
	}
	sig := ""
	for _, f := range fd.Type.Params.List {
		tk := typeKey(c.tv(f.Type).Type)
		for _, id := range f.Names {
			o := c.obj(id)
			if tk == "*s2.decoder" {
				c.dobj = o
				continue
			}
			if sp.kind == "wrapper" && tk == "io.Reader" {
				continue
			}
			kind, ok := sp.params[id.Name]
			if !ok {
				fatal(id.Pos(), "%s: parameter %s has no carrier in the table", sp.key, id.Name)
			}
			n := c.fresh(id.Name)
			switch kind {
			case "Nat":
				if tk != "int" {
					fatal(id.Pos(), "%s: parameter %s is %s, int expected", sp.key, id.Name, tk)
				}
				c.env[o] = val{t: n, c: "Nat"}
				sig += " (" + n + " : Nat)"
			case "Coder":
				if tk != "*s2.nthDerivativeCoder" {
					fatal(id.Pos(), "%s: parameter %s is %s", sp.key, id.Name, tk)
				}
				c.env[o] = val{t: n, c: "Coder"}
				sig += " (" + n + " : List UInt32)"
			case "Target":
				if tk != "[]s2.Point" {
					fatal(id.Pos(), "%s: parameter %s is %s", sp.key, id.Name, tk)
				}
				c.env[o] = val{t: n, c: "List V3", ln: n + ".length"}
				c.recv = nil
				c.target = o
				sig += " (" + n + " : List S2.V3)"
			}
		}
	}
	if fd.Type.Results != nil {
		for _, f := range fd.Type.Results.List {
			for _, id := range f.Names {
				o := c.obj(id)
				c.named = append(c.named, o)
				switch tk := typeKey(o.Type()); tk {
				case "bool":
					c.env[o] = val{t: "false", c: "Bool"}
				case "int8":
					c.env[o] = val{t: "0", c: "Byte"}
				case "int64":
					c.env[o] = val{t: "0", c: "Int"}
				case "uint8":
					c.env[o] = val{t: "0", c: "UInt8"}
				case "uint32":
					c.env[o] = val{t: "0", c: "UInt32"}
				case "uint64":
					c.env[o] = val{t: "0", c: "UInt64"}
				default:
					fatal(id.Pos(), "named result of type %s", tk)
				}
			}
		}
	}
	body := c.seq(fd.Body.List, "  ", func(ind string) string {
		switch sp.kind {
		case "method":
			return ind + "pure " + c.buildRecv(fd.Body.Rbrace) + "\n"
		}
		fatal(fd.Body.Rbrace, "%s: control reaches the end of the function without a return", sp.key)
		return ""
	})
	var b strings.Builder
	for _, d := range c.defs {
		b.WriteString(d)
	}
	fmt.Fprintf(&b, "/-- %s: `%s`  (hand model: S2.Codec.%s) -/\n", relline(fd.Pos()), oneLine(&ast.FuncDecl{Recv: fd.Recv, Name: fd.Name, Type: fd.Type}), sp.hand)
	fmt.Fprintf(&b, "def %s%s : Dec (%s) := do\n%s", c.lname, sig, sp.ret, body)
	fmt.Fprintf(&b, "def %s_shape : String :=\n  %q\n\n", c.lname, c.shape(fd.Body.List))
	g.facts = append(g.facts, fact{Name: sp.key, Kind: sp.kind, Pos: relline(fd.Pos()), Lean: "S2.Generated.DecodeFns." + c.lname, Sha256: sha(src(fd))})
	g.guards = append(g.guards, *c.gs)
	return b.String()
}

// shape: the statement skeleton; everything that the Dec program does NOT contain is kept as source text
func (c *fctx) shape(list []ast.Stmt) string {
	var parts []string
	for _, s := range list {
		switch {
		case c.isErrChk(s):
			parts = append(parts, "errchk["+oneLine(s.(*ast.IfStmt).Body.List[0])+"]")
			continue
		case c.isSetErr(s):
			parts = append(parts, "fail")
			continue
		}
		if _, ok := c.opaqueKey(s); ok {
			parts = append(parts, "opaque["+oneLine(s)+"]")
			continue
		}
		switch x := s.(type) {
		case *ast.IfStmt:
			t := "if"
			if x.Init != nil {
				t += "(" + c.shape([]ast.Stmt{x.Init}) + ")"
			}
			if strings.Contains(oneLine(x.Cond), ".err == nil") {
				t += "&&errnil"
			}
			t += "{" + c.shape(x.Body.List) + "}"
			switch e := x.Else.(type) {
			case *ast.BlockStmt:
				t += "else{" + c.shape(e.List) + "}"
			case *ast.IfStmt:
				t += "else{" + c.shape([]ast.Stmt{e}) + "}"
			}
			parts = append(parts, t)
		case *ast.RangeStmt:
			parts = append(parts, "range{"+c.shape(x.Body.List)+"}")
		case *ast.ForStmt:
			parts = append(parts, "for{"+c.shape(x.Body.List)+"}")
		case *ast.SwitchStmt:
			t := "switch{"
			for _, cs := range x.Body.List {
				cc := cs.(*ast.CaseClause)
				if cc.List == nil {
					t += "default{" + c.shape(cc.Body) + "}"
				} else {
					t += "case{" + c.shape(cc.Body) + "}"
				}
			}
			parts = append(parts, t+"}")
		case *ast.ReturnStmt:
			parts = append(parts, "ret")
		case *ast.AssignStmt:
			parts = append(parts, "asg")
		case *ast.DeclStmt:
			parts = append(parts, "var")
		case *ast.ExprStmt:
			parts = append(parts, "call")
		default:
			parts = append(parts, fmt.Sprintf("%T", s))
		}
	}
	return strings.Join(parts, ";")
}

// ---------------------------------------------------------------- primitives (encode.go)

func (c *fctx) primAssign(s *ast.AssignStmt, ind string) (string, bool) {
	p := s.Pos()
	if len(s.Rhs) != 1 {
		return "", false
	}
	call, ok := unparen(s.Rhs[0]).(*ast.CallExpr)
	if !ok {
		return "", false
	}
	key, _ := c.callee(call)
	isDR := func(e ast.Expr) bool {
		se, ok := unparen(e).(*ast.SelectorExpr)
		return ok && se.Sel.Name == "r" && c.isD(se.X)
	}
	switch key {
	case "binary.Read":
		if len(s.Lhs) != 1 || !c.isErr(s.Lhs[0]) || s.Tok != token.ASSIGN || len(call.Args) != 3 || !isDR(call.Args[0]) ||
			oneLine(call.Args[1]) != "binary.LittleEndian" {
			fatal(p, "`%s` is not of the form d.err = binary.Read(d.r, binary.LittleEndian, &x)", oneLine(s))
		}
		u, ok := unparen(call.Args[2]).(*ast.UnaryExpr)
		if !ok || u.Op != token.AND {
			fatal(p, "binary.Read: destination is not &x")
		}
		id, ok := unparen(u.X).(*ast.Ident)
		if !ok {
			fatal(p, "binary.Read: destination is not a variable")
		}
		o := c.obj(id)
		n := c.fresh(id.Name)
		var w string
		var v val
		switch tk := typeKey(o.Type()); tk {
		case "int8":
			w, v = "1", val{t: n, c: "Byte"}
		case "uint32":
			w, v = "4", val{t: "UInt32.ofNat " + n, c: "UInt32"}
		case "uint64":
			w, v = "8", val{t: "UInt64.ofNat " + n, c: "UInt64"}
		case "int64":
			w, v = "8", val{t: "if " + n + " ≥ 9223372036854775808 then (" + n + " : Int) - 18446744073709551616 else " + n, c: "Int"}
		default:
			fatal(p, "binary.Read into a %s is not translated", tk)
		}
		c.env[o] = v
		return ind + "let " + n + " ← S2.Codec.readLE " + w + "\n", true
	case "io.ByteReader.ReadByte", "s2.byteReader.ReadByte":
		if len(s.Lhs) != 2 || !c.isErr(s.Lhs[1]) || oneLine(call) != c.dobj.Name()+".r.ReadByte()" {
			fatal(p, "`%s` is not of the form x, d.err = d.r.ReadByte()", oneLine(s))
		}
		sl := c.slotOf(s.Lhs[0])
		n := c.fresh(sl.name)
		c.store(sl, val{t: n, c: "UInt8"}, p)
		return ind + "let " + n + " ← readByte\n", true
	case "io.ReadFull":
		if len(s.Lhs) != 2 || oneLine(s.Lhs[0]) != "_" || !c.isErr(s.Lhs[1]) || len(call.Args) != 2 || !isDR(call.Args[0]) {
			fatal(p, "`%s` is not of the form _, d.err = io.ReadFull(d.r, buf)", oneLine(s))
		}
		id, ok := unparen(call.Args[1]).(*ast.Ident)
		if !ok {
			fatal(p, "io.ReadFull: buffer is not a variable")
		}
		bv, ok := c.env[c.obj(id)]
		if !ok || bv.c != "Buf" {
			fatal(p, "io.ReadFull: `%s` is not the decoder's buffer", id.Name)
		}
		n := c.fresh(id.Name)
		c.env[c.obj(id)] = val{t: n, c: "BufVal", ln: bv.ln}
		return ind + "let " + n + " ← S2.Codec.readLE " + bv.ln + "\n", true
	case "binary.ReadUvarint":
		if len(s.Lhs) != 2 || !c.isErr(s.Lhs[1]) || len(call.Args) != 1 || !isDR(call.Args[0]) {
			fatal(p, "`%s` is not of the form x, d.err = binary.ReadUvarint(d.r)", oneLine(s))
		}
		sl := c.slotOf(s.Lhs[0])
		n := c.fresh(sl.name)
		c.store(sl, val{t: n, c: "Nat"}, p)
		return ind + "let " + n + " ← S2.Codec.readUvarintAux " + c.maxVarintLen(p) + " 0 0\n", true
	}
	return "", false
}

// binary.MaxVarintLen64 as the compiler sees it
func (c *fctx) maxVarintLen(p token.Pos) string {
	for _, imp := range c.g.pi.pkg.Imports() {
		if imp.Path() == "encoding/binary" {
			if k, ok := imp.Scope().Lookup("MaxVarintLen64").(*types.Const); ok {
				return k.Val().ExactString()
			}
		}
	}
	fatal(p, "encoding/binary.MaxVarintLen64 not found")
	return ""
}
