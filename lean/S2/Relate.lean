/-
  S2.Relate — EXACT brute-force model of the loop / polygon relations of s2/loop.go, s2/polygon.go,
  s2/wedge_relations.go (core-only, executable).  This is the ORACLE of property C07.

  What is modelled is the *semantics the Go code intends*, not its index walk: the parallel walk
  of two ShapeIndexes (`hasCrossingRelation`, `loopCrosser`, `cellCrossesAnySubcell`, the
  `containsCenter` early exits) and the bounding-rectangle shortcuts are replaced by
      * the test of ALL pairs of edges by the exact crossing criterion,
      * at every shared vertex the wedge test of the relation
        (`WedgeContains`, `WedgeIntersects`, `wedgeContainsSemiwedge`),
      * if neither decides: vertex containment, exactly as `Contains` / `Intersects` /
        `compareBoundary` do after the crossing pass (incl. the empty / full special cases).
  That the index walk agrees with this is decided by the correspondence check (op `rel`).

  The geometry is abstract: a `Geo α` gives the orientation predicate `sg` (Go: `RobustSign`,
  -1/0/+1), the reference direction `ref` (Go: `Ortho`, used by `VertexCrossing` /
  `AngleContainsVertex`), the fixed `OriginPoint()` and the test `z < 0` (empty/full loops).
  The oracle instantiates it with exact integer arithmetic (`geoExact`, `Pred.exactDecisionI`);
  the theorems of S2Proofs.C07 are stated for every `Geo` satisfying explicit laws.

  Pieces that will be unified later with c03 (`S2.Crossing`) and c04 (`S2.Contain`):
  `crossingSign`, `vertexCrossing`, `edgeOrVertexCrossing`, `Loop.containsPoint`, `Loop.init`.
-/
import S2.Exact
import S2.Pred
namespace S2.Relate
open S2

/-- abstract exact geometry -/
structure Geo (α : Type) where
  /-- `RobustSign(a,b,c)` : -1 / 0 / +1 ; 0 iff two arguments are equal -/
  sg : α → α → α → Int
  /-- `Ortho(p)` = `p.referenceDir()` -/
  ref : α → α
  /-- `OriginPoint()` -/
  origin : α
  /-- `p.Z < 0` (origin containment of the one-vertex empty / full loops) -/
  zNeg : α → Bool

section generic
variable {α : Type} [DecidableEq α] (G : Geo α)

/-! ### predicates on points -/

/-- `OrderedCCW(a,b,c,o)` (s2/point.go) -/
def orderedCCW (a b c o : α) : Bool :=
  let s1 : Nat := if G.sg b o a != -1 then 1 else 0
  let s2 : Nat := if G.sg c o b != -1 then 1 else 0
  let s3 : Nat := if G.sg a o c == 1 then 1 else 0
  s1 + s2 + s3 ≥ 2

/-- `CrossingSign(a,b,c,d)` given the two orientations `abc = sg a b c`, `abd = sg a b d`
    (the exact content of `EdgeCrosser.crossingSign`): 0 = MaybeCross (a vertex is shared),
    -1 = DoNotCross, +1 = Cross. -/
def crossingSignS (a b c d : α) (abc abd : Int) : Int :=
  if a = c ∨ a = d ∨ b = c ∨ b = d then 0
  else if a = b ∨ c = d then -1
  else
    let acb := -abc
    if abd ≠ acb then -1
    else if -(G.sg c d b) ≠ acb then -1
    else if G.sg c d a ≠ acb then -1
    else 1

/-- `CrossingSign(a,b,c,d)` -/
def crossingSign (a b c d : α) : Int := crossingSignS G a b c d (G.sg a b c) (G.sg a b d)

/-- `VertexCrossing(a,b,c,d)` (s2/edge_crossings.go) -/
def vertexCrossing (a b c d : α) : Bool :=
  if a = b ∨ c = d then false
  else if a = c then (b = d) || orderedCCW G (G.ref a) d b a
  else if b = d then orderedCCW G (G.ref b) c a b
  else if a = d then (b = c) || orderedCCW G (G.ref a) c b a
  else if b = c then orderedCCW G (G.ref b) d a b
  else false

/-- `EdgeOrVertexCrossing(a,b,c,d)` -/
def edgeOrVertexCrossing (a b c d : α) : Bool :=
  let s := crossingSign G a b c d
  if s == -1 then false else if s == 1 then true else vertexCrossing G a b c d

/-- `AngleContainsVertex(a,b,c)` -/
def angleContainsVertex (a b c : α) : Bool := !orderedCCW G (G.ref b) c a b

/-! ### wedges (s2/wedge_relations.go, s2/loop.go) -/

/-- `WedgeContains(a0,ab1,a2,b0,b2)` -/
def wedgeContains (a0 ab1 a2 b0 b2 : α) : Bool :=
  orderedCCW G a2 b2 b0 ab1 && orderedCCW G b0 a0 a2 ab1

/-- `WedgeIntersects(a0,ab1,a2,b0,b2)` -/
def wedgeIntersects (a0 ab1 a2 b0 b2 : α) : Bool :=
  !orderedCCW G a0 b2 b0 ab1 || !orderedCCW G b0 a2 a0 ab1

/-- `wedgeContainsSemiwedge(a0,ab1,a2,b2,reverse)` -/
def wedgeContainsSemiwedge (a0 ab1 a2 b2 : α) (reverse : Bool) : Bool :=
  if b2 = a0 ∨ b2 = a2 then decide (b2 = a0) == reverse
  else orderedCCW G a0 a2 b2 ab1

/-! ### loops -/

/-- a loop: vertices, `originInside`, nesting depth -/
structure Loop (α : Type) where
  vs : Array α
  originInside : Bool
  depth : Nat := 0

instance : Inhabited (Loop α) := ⟨⟨#[], false, 0⟩⟩

namespace Loop
variable (L : Loop α)

def n : Nat := L.vs.size
/-- `l.Vertex(i)` = `vertices[i % len]` -/
def vertex (i : Nat) : α := L.vs.getD (i % L.vs.size) G.origin
def isEmptyOrFull : Bool := L.vs.size == 1
def isEmpty : Bool := L.isEmptyOrFull && !L.originInside
def isFull : Bool := L.isEmptyOrFull && L.originInside
def isHole : Bool := L.depth &&& 1 != 0
/-- number of edges of the loop as a Shape (`NumEdges`): the empty / full loops have none -/
def numEdges : Nat := if L.isEmptyOrFull then 0 else L.vs.size

/-- `bruteForceContainsPoint(p)` : crossing parity of the edge origin→p with all loop edges
    (edge k = (vertex k, vertex (k+1)), k < len; for the one-vertex loops this is one degenerate
    edge that never crosses, so the answer is `originInside`). -/
def containsPoint (p : α) : Bool :=
  (List.range L.vs.size).foldl
    (fun inside k => inside != edgeOrVertexCrossing G G.origin p (L.vertex G k) (L.vertex G (k + 1)))
    L.originInside

/-- `Loop.Invert` : reverse the vertex order and flip `originInside` (for the one-vertex loops Go
    replaces the vertex by the other special point; only `originInside` is observable). -/
def invert : Loop α := { vs := L.vs.reverse, originInside := !L.originInside, depth := L.depth }

/-- `findVertex(p)` : index in 1..n of the vertex equal to p -/
def findVertex (p : α) : Option Nat :=
  ((List.range L.vs.size).map (· + 1)).find? (fun i => L.vertex G i = p)

end Loop

/-- `LoopFromPoints` / `initOriginAndBound` : determine `originInside` -/
def Loop.init (vs : Array α) : Loop α :=
  if vs.size < 3 then
    if vs.size != 1 then { vs := vs, originInside := false }
    else { vs := vs, originInside := G.zNeg (vs.getD 0 G.origin) }
  else
    let v0 := vs.getD 0 G.origin
    let v1 := vs.getD 1 G.origin
    let v2 := vs.getD 2 G.origin
    let v1Inside := decide (v0 ≠ v1) && decide (v2 ≠ v1) && angleContainsVertex G v0 v1 v2
    let L0 : Loop α := { vs := vs, originInside := false }
    { vs := vs, originInside := v1Inside != L0.containsPoint G v1 }

/-! ### the crossing pass over all pairs of edges -/

/-- summary of the pass: does some pair of edges cross properly; the pairs (i,j) with
    `A.vertex i = B.vertex j` (0 ≤ i < n, 0 ≤ j < m) -/
structure Scan where
  crossing : Bool
  shared : List (Nat × Nat)
deriving Repr, BEq, DecidableEq

/-- some edge of A crosses some edge of B at a point interior to both -/
def anyCrossing (A B : Loop α) : Bool :=
  (List.range A.numEdges).any fun i =>
    let a := A.vertex G i
    let b := A.vertex G (i + 1)
    (List.range B.numEdges).any fun j =>
      crossingSign G a b (B.vertex G j) (B.vertex G (j + 1)) == 1

/-- all pairs of equal vertices -/
def sharedVertices (A B : Loop α) : List (Nat × Nat) :=
  (List.range A.numEdges).flatMap fun i =>
    (List.range B.numEdges).filterMap fun j =>
      if A.vertex G i = B.vertex G j then some (i, j) else none

def scan (A B : Loop α) : Scan := { crossing := anyCrossing G A B, shared := sharedVertices G A B }

/-- the scan of (invert A, B) expressed from the scan of (A, B): vertex i of A is vertex n-1-i of
    the inverted loop, proper crossings do not depend on the direction of the edges -/
def Scan.revA (s : Scan) (n : Nat) : Scan :=
  { crossing := s.crossing, shared := s.shared.map fun p => (n - 1 - p.1, p.2) }
def Scan.revB (s : Scan) (m : Nat) : Scan :=
  { crossing := s.crossing, shared := s.shared.map fun p => (p.1, m - 1 - p.2) }
def Scan.swap (s : Scan) : Scan :=
  { crossing := s.crossing, shared := s.shared.map fun p => (p.2, p.1) }

/-- wedge of A at its vertex i: (a0, ab1, a2) = (vertex (i-1), vertex i, vertex (i+1)) -/
def Loop.prev (L : Loop α) (i : Nat) : α := L.vertex G (i + L.vs.size - 1)
def Loop.next (L : Loop α) (i : Nat) : α := L.vertex G (i + 1)

/-- `containsRelation.wedgesCross` at the shared vertex A[i] = B[j] -/
def containsWedgeCross (A B : Loop α) (p : Nat × Nat) : Bool :=
  !wedgeContains G (A.prev G p.1) (A.vertex G p.1) (A.next G p.1) (B.prev G p.2) (B.next G p.2)

/-- `intersectsRelation.wedgesCross` -/
def intersectsWedgeCross (A B : Loop α) (p : Nat × Nat) : Bool :=
  wedgeIntersects G (A.prev G p.1) (A.vertex G p.1) (A.next G p.1) (B.prev G p.2) (B.next G p.2)

/-- `compareBoundaryRelation` : does A contain the semiwedge of B's edge leaving the shared vertex -/
def semiwedgeContained (A B : Loop α) (reverse : Bool) (p : Nat × Nat) : Bool :=
  wedgeContainsSemiwedge G (A.prev G p.1) (A.vertex G p.1) (A.next G p.1) (B.next G p.2) reverse

/-! ### loop relations -/

/-- `Loop.Contains` given the scan of (A,B) -/
def containsWith (s : Scan) (A B : Loop α) : Bool :=
  if A.isEmptyOrFull || B.isEmptyOrFull then A.isFull || B.isEmpty
  else if s.crossing then false
  else if s.shared.any (containsWedgeCross G A B) then false
  else if !s.shared.isEmpty then true
  else A.containsPoint G (B.vertex G 0) && !B.containsPoint G (A.vertex G 0)

/-- `Loop.Intersects` given the scan of (A,B) -/
def intersectsWith (s : Scan) (A B : Loop α) : Bool :=
  if A.isEmpty || B.isEmpty then false          -- `!l.bound.Intersects(o.bound)` for the empty rect
  else if s.crossing then true
  else if s.shared.any (intersectsWedgeCross G A B) then true
  else if !s.shared.isEmpty then false
  else A.containsPoint G (B.vertex G 0) || B.containsPoint G (A.vertex G 0)

/-- `Loop.compareBoundary` given the scan: +1 contains the boundary of B, -1 excludes it, 0 crosses.
    Go requires: neither loop empty; if B is full it is not a hole. -/
def compareBoundaryWith (s : Scan) (A B : Loop α) : Int :=
  if A.isEmpty || B.isEmpty then -1              -- bounds do not intersect
  else if A.isFull then 1
  else if B.isFull then -1
  else if s.crossing then 0
  else
    let cs := s.shared.map (semiwedgeContained G A B B.isHole)
    if cs.any id && cs.any not then 0
    else if !cs.isEmpty then (if cs.any id then 1 else -1)
    else if A.containsPoint G (B.vertex G 0) then 1 else -1

def contains (A B : Loop α) : Bool := containsWith G (scan G A B) A B
def intersects (A B : Loop α) : Bool := intersectsWith G (scan G A B) A B
def compareBoundary (A B : Loop α) : Int := compareBoundaryWith G (scan G A B) A B

/-- `Loop.ContainsNested` (no crossing test; requires the polygon conditions on the two loops) -/
def containsNested (A B : Loop α) : Bool :=
  if A.isEmptyOrFull || B.vs.size < 2 then A.isFull || B.isEmpty
  else match A.findVertex G (B.vertex G 1) with
    | none => A.containsPoint G (B.vertex G 1)
    | some m => wedgeContains G (A.vertex G (m - 1)) (A.vertex G m) (A.vertex G (m + 1))
                  (B.vertex G 0) (B.vertex G 2)

/-- `Loop.containsNonCrossingBoundary(other, reverseOther)` -/
def containsNonCrossingBoundary (A B : Loop α) (reverse : Bool) : Bool :=
  if A.isEmpty || B.isEmpty then false
  else if A.isFull then true
  else if B.isFull then false
  else match A.findVertex G (B.vertex G 0) with
    | none => A.containsPoint G (B.vertex G 0)
    | some m => wedgeContainsSemiwedge G (A.vertex G (m - 1)) (A.vertex G m) (A.vertex G (m + 1))
                  (B.vertex G 1) reverse

/-! ### polygons (s2/polygon.go) -/

/-- a polygon: its loops in pre-order with depths (empty polygon = no loops; full = one full loop) -/
structure Polygon (α : Type) where
  loops : List (Loop α)

namespace Polygon
variable (P Q : Polygon α)

def isEmpty : Bool := P.loops.isEmpty
def isFull : Bool := match P.loops with | [l] => l.isFull | _ => false
def hasHoles : Bool := P.loops.any (·.isHole)

/-- `Polygon.ContainsPoint` semantics: inside an odd number of loops -/
def containsPoint (p : α) : Bool :=
  P.loops.foldl (fun ins l => ins != l.containsPoint G p) false

/-- `Polygon.compareBoundary(o *Loop)` -/
def compareBoundary (o : Loop α) : Int :=
  P.loops.foldl (fun r l => if r == 0 then r else r * (-(Relate.compareBoundary G l o))) (-1)

def containsBoundary : Bool := Q.loops.all fun l => P.compareBoundary G l > 0
def excludesBoundary : Bool := Q.loops.all fun l => P.compareBoundary G l < 0

/-- `Polygon.containsNonCrossingBoundary(o *Loop, reverse)` -/
def containsNonCrossingBoundary (o : Loop α) (reverse : Bool) : Bool :=
  P.loops.foldl (fun ins l => ins != Relate.containsNonCrossingBoundary G l o reverse) false

/-- `p.excludesNonCrossingShells(o)` -/
def excludesNonCrossingShells : Bool :=
  Q.loops.all fun l => l.isHole || !P.containsNonCrossingBoundary G l false

/-- `p.excludesNonCrossingComplementShells(o)` -/
def excludesNonCrossingComplementShells : Bool :=
  if Q.isEmpty then !P.isFull
  else if Q.isFull then true
  else (List.zip (List.range Q.loops.length) Q.loops).all fun (j, l) =>
    (decide (j > 0) && !l.isHole) || !P.containsNonCrossingBoundary G l (j == 0)

def anyLoopContains (o : Loop α) : Bool := P.loops.any fun l => Relate.contains G l o
def anyLoopIntersects (o : Loop α) : Bool := P.loops.any fun l => Relate.intersects G l o

/-- `Polygon.Contains` (the bounding-rectangle rejections are shortcuts and not modelled) -/
def contains : Bool :=
  match P.loops, Q.loops with
  | [a], [b] => Relate.contains G a b
  | _, _ =>
    if !P.hasHoles && !Q.hasHoles then Q.loops.all fun l => P.anyLoopContains G l
    else P.containsBoundary G Q && Q.excludesNonCrossingComplementShells G P

/-- `Polygon.Intersects` -/
def intersects : Bool :=
  match P.loops, Q.loops with
  | [a], [b] => Relate.intersects G a b
  | _, _ =>
    if P.isEmpty || Q.isEmpty then false          -- empty bound
    else if !P.hasHoles && !Q.hasHoles then Q.loops.any fun l => P.anyLoopIntersects G l
    else !P.excludesBoundary G Q || !Q.excludesNonCrossingShells G P

end Polygon
end generic

/-! ### the exact instance -/
open S2.Exact

/-- exact `RobustSign` on integer vectors: the sign of the determinant when it is non-zero
    (a permutation-invariant quantity up to the permutation sign, so the sorting step of
    `exactSign` is not needed), otherwise `Pred.exactDecisionI` (0 for equal arguments, else the
    symbolic perturbation). -/
def sgExact (a b c : IV3) : Int :=
  let d := det3 a b c
  if d > 0 then 1 else if d < 0 then -1 else Pred.exactDecisionI a b c

/-- the exact geometry: integer vectors at one common exponent; `refs` lists (p, Ortho p) for the
    points whose reference direction can be needed -/
def geoExact (origin : IV3) (refs : List (IV3 × IV3)) : Geo IV3 :=
  { sg := sgExact
    ref := fun p => match refs.find? (fun e => e.1 == p) with | some e => e.2 | none => ⟨0, 0, 0⟩
    origin := origin
    zNeg := fun p => p.z < 0 }

/-- `OriginPoint()` as float64 bit patterns (validated by the oracle op `c07const`) -/
def originV3 : V3 := ⟨⟨0xbf847a99aa86ed3b⟩, ⟨0x3f653cc5488bec88⟩, ⟨0x3fefff901a72d2ac⟩⟩

/-- `s2.Ortho(p)` (s2/point.go; NOT r3.Vector.Ortho) in the soft-float -/
def orthoV3 (a : V3) : V3 :=
  let t : V3 := ⟨⟨0x3f889374bc6a7efa⟩, ⟨0x3f75b573eab367a1⟩, ⟨0x3f72b7fe08aefb2b⟩⟩  -- 0.012, 0.0053, 0.00457
  let temp : V3 := match a.largestComponent with
    | 0 => { t with z := F64.one }
    | 1 => { t with x := F64.one }
    | _ => { t with y := F64.one }
  (a.cross temp).normalize

end S2.Relate
