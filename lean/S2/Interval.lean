/-
  S2.Interval — model of the interval / rectangle algebra of golang/geo (property C19):
    r1.Interval (`R1`), s1.Interval (`S1`), r2.Rect (`R2Rect`), the lat-lng s2.Rect (`LLRect`).

  The definitions follow the Go code branch by branch (r1/interval.go, s1/interval.go, r2/rect.go,
  s2/rect.go) and are GENERIC over the number carrier `α`:

  * the order part (`≤`, `<`, `max`, `min`) comes from ordinary core classes
    (`LE`, `LT`, `DecidableLE`, `DecidableLT`, `Max`, `Min`), so that any Mathlib `LinearOrder`
    instantiates it without translation;
  * everything else the Go code uses (float `==`, `+`, `-`, `0.5*x`, `2*x`, `math.Abs`,
    `math.Remainder(·, 2π)`, and the constants) is the class `IvlOps`.

  Instances:  `S2.F64` (soft-float, bit-exact with Go; scoped instances in `S2.IvlF64`), used by the oracle;
  abstract linear orders in the proofs (`S2Proofs.IntervalLemmas`), and `Int` (exact arithmetic, π := 4)
  as a witness that the assumed laws are satisfiable.

  Go `a >= b` is written `b ≤ a`; this is the same thing for non-NaN floats (NaN inputs are outside
  the documented domain of these packages).
-/
import S2.F64
import S2.F64Extra
namespace S2

/-- Non-order operations of the number carrier used by the interval code. -/
class IvlOps (α : Type) where
  /-- float `==` (on floats: `+0 == -0`) -/
  feq : α → α → Bool
  add : α → α → α
  sub : α → α → α
  /-- `0.5 * x` -/
  half : α → α
  /-- `2 * x` -/
  dbl : α → α
  /-- `math.Abs` -/
  abs : α → α
  /-- `math.Remainder(x, 2*math.Pi)` -/
  rem2pi : α → α
  zero : α
  one : α
  negOne : α
  /-- `math.Pi` -/
  pi : α
  /-- `-math.Pi` -/
  negPi : α
  /-- `2*math.Pi` -/
  twoPi : α
  /-- `math.Pi/2` -/
  halfPi : α
  /-- `-math.Pi/2` -/
  negHalfPi : α
  /-- `2*dblEpsilon` of package s1 (`dblEpsilon = 2.220446049e-16`, a `var`) -/
  twoEps : α

open IvlOps

section
variable {α : Type} [LE α] [LT α] [DecidableLE α] [DecidableLT α] [Max α] [Min α] [IvlOps α]

/-! ## r1.Interval -/

/-- r1.Interval: closed interval on the line, empty iff `lo > hi`. -/
structure R1 (α : Type) where
  lo : α
  hi : α
deriving Repr, BEq, DecidableEq, Inhabited

namespace R1

/-- `r1.EmptyInterval()` = `{1, 0}` -/
def empty : R1 α := ⟨one, zero⟩
def fromPoint (p : α) : R1 α := ⟨p, p⟩
def isEmpty (i : R1 α) : Bool := decide (i.hi < i.lo)
def equal (i o : R1 α) : Bool := (feq i.lo o.lo && feq i.hi o.hi) || (i.isEmpty && o.isEmpty)
def center (i : R1 α) : α := half (add i.lo i.hi)
def length (i : R1 α) : α := sub i.hi i.lo
def contains (i : R1 α) (p : α) : Bool := decide (i.lo ≤ p) && decide (p ≤ i.hi)
def containsInterval (i o : R1 α) : Bool :=
  if o.isEmpty then true else decide (i.lo ≤ o.lo) && decide (o.hi ≤ i.hi)
def interiorContains (i : R1 α) (p : α) : Bool := decide (i.lo < p) && decide (p < i.hi)
def interiorContainsInterval (i o : R1 α) : Bool :=
  if o.isEmpty then true else decide (i.lo < o.lo) && decide (o.hi < i.hi)
def intersects (i o : R1 α) : Bool :=
  if i.lo ≤ o.lo then decide (o.lo ≤ i.hi) && decide (o.lo ≤ o.hi)
  else decide (i.lo ≤ o.hi) && decide (i.lo ≤ i.hi)
def interiorIntersects (i o : R1 α) : Bool :=
  decide (o.lo < i.hi) && decide (i.lo < o.hi) && decide (i.lo < i.hi) && decide (o.lo ≤ o.hi)
def intersection (i j : R1 α) : R1 α := ⟨max i.lo j.lo, min i.hi j.hi⟩
def addPoint (i : R1 α) (p : α) : R1 α :=
  if i.isEmpty then ⟨p, p⟩
  else if p < i.lo then ⟨p, i.hi⟩
  else if i.hi < p then ⟨i.lo, p⟩
  else i
def clampPoint (i : R1 α) (p : α) : α := max i.lo (min i.hi p)
def expanded (i : R1 α) (margin : α) : R1 α :=
  if i.isEmpty then i else ⟨sub i.lo margin, add i.hi margin⟩
def union (i o : R1 α) : R1 α :=
  if i.isEmpty then o
  else if o.isEmpty then i
  else ⟨min i.lo o.lo, max i.hi o.hi⟩

end R1

/-! ## s1.Interval -/

/-- s1.Interval: closed interval on the circle; `lo > hi` = inverted; empty = `[π, -π]`, full = `[-π, π]`. -/
structure S1 (α : Type) where
  lo : α
  hi : α
deriving Repr, BEq, DecidableEq, Inhabited

namespace S1

def fromEndpoints (lo hi : α) : S1 α :=
  let l := if feq lo negPi && !feq hi pi then pi else lo
  let h := if feq hi negPi && !feq lo pi then pi else hi
  ⟨l, h⟩

/-- `positiveDistance(a, b)` -/
def positiveDistance (a b : α) : α :=
  let d := sub b a
  if (zero : α) ≤ d then d else sub (add b pi) (sub a pi)

def fromPointPair (a b : α) : S1 α :=
  let a := if feq a negPi then pi else a
  let b := if feq b negPi then pi else b
  if positiveDistance a b ≤ (pi : α) then ⟨a, b⟩ else ⟨b, a⟩

def empty : S1 α := ⟨pi, negPi⟩
def full : S1 α := ⟨negPi, pi⟩

def isValid (i : S1 α) : Bool :=
  decide (abs i.lo ≤ (pi : α)) && decide (abs i.hi ≤ (pi : α)) &&
    !(feq i.lo negPi && !feq i.hi pi) && !(feq i.hi negPi && !feq i.lo pi)

def isFull (i : S1 α) : Bool := feq i.lo negPi && feq i.hi pi
def isEmpty (i : S1 α) : Bool := feq i.lo pi && feq i.hi negPi
def isInverted (i : S1 α) : Bool := decide (i.hi < i.lo)
def invert (i : S1 α) : S1 α := ⟨i.hi, i.lo⟩

def center (i : S1 α) : α :=
  let c := half (add i.lo i.hi)
  if !i.isInverted then c
  else if c ≤ (zero : α) then add c pi else sub c pi

def length (i : S1 α) : α :=
  let l := sub i.hi i.lo
  if (zero : α) ≤ l then l
  else
    let l := add l twoPi
    if (zero : α) < l then l
    else if i.isEmpty then negOne
    else zero

/-- assumes p ∈ (-π, π] -/
def fastContains (i : S1 α) (p : α) : Bool :=
  if i.isInverted then (decide (i.lo ≤ p) || decide (p ≤ i.hi)) && !i.isEmpty
  else decide (i.lo ≤ p) && decide (p ≤ i.hi)

/-- the `if p == -math.Pi { p = math.Pi }` prologue -/
def normPoint (p : α) : α := if feq p negPi then pi else p

/-- assumes p ∈ [-π, π] -/
def contains (i : S1 α) (p : α) : Bool := i.fastContains (normPoint p)

def containsInterval (i o : S1 α) : Bool :=
  if i.isInverted then
    if o.isInverted then decide (i.lo ≤ o.lo) && decide (o.hi ≤ i.hi)
    else (decide (i.lo ≤ o.lo) || decide (o.hi ≤ i.hi)) && !i.isEmpty
  else if o.isInverted then i.isFull || o.isEmpty
  else decide (i.lo ≤ o.lo) && decide (o.hi ≤ i.hi)

def interiorContains (i : S1 α) (p : α) : Bool :=
  let p := normPoint p
  if i.isInverted then decide (i.lo < p) || decide (p < i.hi)
  else (decide (i.lo < p) && decide (p < i.hi)) || i.isFull

def interiorContainsInterval (i o : S1 α) : Bool :=
  if i.isInverted then
    if o.isInverted then (decide (i.lo < o.lo) && decide (o.hi < i.hi)) || o.isEmpty
    else decide (i.lo < o.lo) || decide (o.hi < i.hi)
  else if o.isInverted then i.isFull || o.isEmpty
  else (decide (i.lo < o.lo) && decide (o.hi < i.hi)) || i.isFull

def intersects (i o : S1 α) : Bool :=
  if i.isEmpty || o.isEmpty then false
  else if i.isInverted then o.isInverted || decide (o.lo ≤ i.hi) || decide (i.lo ≤ o.hi)
  else if o.isInverted then decide (o.lo ≤ i.hi) || decide (i.lo ≤ o.hi)
  else decide (o.lo ≤ i.hi) && decide (i.lo ≤ o.hi)

def interiorIntersects (i o : S1 α) : Bool :=
  if i.isEmpty || o.isEmpty || feq i.lo i.hi then false
  else if i.isInverted then o.isInverted || decide (o.lo < i.hi) || decide (i.lo < o.hi)
  else if o.isInverted then decide (o.lo < i.hi) || decide (i.lo < o.hi)
  else (decide (o.lo < i.hi) && decide (i.lo < o.hi)) || i.isFull

def union (i o : S1 α) : S1 α :=
  if o.isEmpty then i
  else if i.fastContains o.lo then
    if i.fastContains o.hi then
      if i.containsInterval o then i else full
    else ⟨i.lo, o.hi⟩
  else if i.fastContains o.hi then ⟨o.lo, i.hi⟩
  else if i.isEmpty || o.fastContains i.lo then o
  else if positiveDistance o.hi i.lo < positiveDistance i.hi o.lo then ⟨o.lo, i.hi⟩
  else ⟨i.lo, o.hi⟩

def intersection (i o : S1 α) : S1 α :=
  if o.isEmpty then empty
  else if i.fastContains o.lo then
    if i.fastContains o.hi then
      if o.length < i.length then o else i
    else ⟨o.lo, i.hi⟩
  else if i.fastContains o.hi then ⟨i.lo, o.hi⟩
  else if o.fastContains i.lo then i
  else empty

def addPoint (i : S1 α) (p : α) : S1 α :=
  if (pi : α) < abs p then i
  else
    let p := normPoint p
    if i.fastContains p then i
    else if i.isEmpty then ⟨p, p⟩
    else if positiveDistance p i.lo < positiveDistance i.hi p then ⟨p, i.hi⟩
    else ⟨i.lo, p⟩

/-- the common tail of `Expanded` up to and including the `result.Lo <= -π → π` normalisation -/
def expandedRaw (i : S1 α) (margin : α) : S1 α :=
  let result := fromEndpoints (rem2pi (sub i.lo margin)) (rem2pi (add i.hi margin))
  if result.lo ≤ (negPi : α) then ⟨pi, result.hi⟩ else result

/-- … followed by the check added by repair 636e942: an expansion (margin ≥ 0) whose computed endpoints
    passed each other (so that the result no longer contains the original) becomes Full -/
def expandedTail (i : S1 α) (margin : α) : S1 α :=
  let result := expandedRaw i margin
  if decide ((zero : α) ≤ margin) && !result.containsInterval i then full else result

def expanded (i : S1 α) (margin : α) : S1 α :=
  if (zero : α) ≤ margin then
    if i.isEmpty then i
    else if (twoPi : α) ≤ add (add i.length (dbl margin)) twoEps then full
    else expandedTail i margin
  else
    if i.isFull then i
    else if sub (add i.length (dbl margin)) twoEps ≤ (zero : α) then empty
    else expandedTail i margin

def complement (i : S1 α) : S1 α :=
  if feq i.lo i.hi then full else ⟨i.hi, i.lo⟩

def complementCenter (i : S1 α) : α :=
  if !feq i.lo i.hi then i.complement.center
  else if i.hi ≤ (zero : α) then add i.hi pi else sub i.hi pi

/-- the interval must be non-empty -/
def project (i : S1 α) (p : α) : α :=
  let p := normPoint p
  if i.fastContains p then p
  else
    let dlo := positiveDistance p i.lo
    let dhi := positiveDistance i.hi p
    if dlo < dhi then i.lo else i.hi

end S1

/-! ## r2.Rect -/

structure R2Point (α : Type) where
  x : α
  y : α
deriving Repr, BEq, DecidableEq, Inhabited

structure R2Rect (α : Type) where
  x : R1 α
  y : R1 α
deriving Repr, BEq, DecidableEq, Inhabited

namespace R2Rect

def empty : R2Rect α := ⟨R1.empty, R1.empty⟩
def isValid (r : R2Rect α) : Bool := r.x.isEmpty == r.y.isEmpty
def isEmpty (r : R2Rect α) : Bool := r.x.isEmpty
def fromCenterSize (c s : R2Point α) : R2Rect α :=
  ⟨⟨sub c.x (half s.x), add c.x (half s.x)⟩, ⟨sub c.y (half s.y), add c.y (half s.y)⟩⟩
def center (r : R2Rect α) : R2Point α := ⟨r.x.center, r.y.center⟩
def size (r : R2Rect α) : R2Point α := ⟨r.x.length, r.y.length⟩
def containsPoint (r : R2Rect α) (p : R2Point α) : Bool := r.x.contains p.x && r.y.contains p.y
def interiorContainsPoint (r : R2Rect α) (p : R2Point α) : Bool :=
  r.x.interiorContains p.x && r.y.interiorContains p.y
def contains (r o : R2Rect α) : Bool := r.x.containsInterval o.x && r.y.containsInterval o.y
def interiorContains (r o : R2Rect α) : Bool :=
  r.x.interiorContainsInterval o.x && r.y.interiorContainsInterval o.y
def intersects (r o : R2Rect α) : Bool := r.x.intersects o.x && r.y.intersects o.y
def interiorIntersects (r o : R2Rect α) : Bool :=
  r.x.interiorIntersects o.x && r.y.interiorIntersects o.y
def addPoint (r : R2Rect α) (p : R2Point α) : R2Rect α := ⟨r.x.addPoint p.x, r.y.addPoint p.y⟩
def addRect (r o : R2Rect α) : R2Rect α := ⟨r.x.union o.x, r.y.union o.y⟩
def clampPoint (r : R2Rect α) (p : R2Point α) : R2Point α := ⟨r.x.clampPoint p.x, r.y.clampPoint p.y⟩
def expanded (r : R2Rect α) (m : R2Point α) : R2Rect α :=
  let xx := r.x.expanded m.x
  let yy := r.y.expanded m.y
  if xx.isEmpty || yy.isEmpty then empty else ⟨xx, yy⟩
def union (r o : R2Rect α) : R2Rect α := ⟨r.x.union o.x, r.y.union o.y⟩
def intersection (r o : R2Rect α) : R2Rect α :=
  let xx := r.x.intersection o.x
  let yy := r.y.intersection o.y
  if xx.isEmpty || yy.isEmpty then empty else ⟨xx, yy⟩

end R2Rect

/-! ## s2.Rect (latitude-longitude rectangle) -/

structure LatLng (α : Type) where
  lat : α
  lng : α
deriving Repr, BEq, DecidableEq, Inhabited

/-- `LatLng.IsValid` -/
def LatLng.isValid (ll : LatLng α) : Bool :=
  decide (abs ll.lat ≤ (halfPi : α)) && decide (abs ll.lng ≤ (pi : α))

structure LLRect (α : Type) where
  lat : R1 α
  lng : S1 α
deriving Repr, BEq, DecidableEq, Inhabited

namespace LLRect

def validLat : R1 α := ⟨negHalfPi, halfPi⟩
def empty : LLRect α := ⟨R1.empty, S1.empty⟩
def full : LLRect α := ⟨validLat, S1.full⟩
def fromLatLng (p : LatLng α) : LLRect α := ⟨⟨p.lat, p.lat⟩, ⟨p.lng, p.lng⟩⟩

def isValid (r : LLRect α) : Bool :=
  decide (abs r.lat.lo ≤ (halfPi : α)) && decide (abs r.lat.hi ≤ (halfPi : α)) &&
    r.lng.isValid && (r.lat.isEmpty == r.lng.isEmpty)

def isEmpty (r : LLRect α) : Bool := r.lat.isEmpty
def isFull (r : LLRect α) : Bool := r.lat.equal validLat && r.lng.isFull
def isPoint (r : LLRect α) : Bool := feq r.lat.lo r.lat.hi && feq r.lng.lo r.lng.hi
def center (r : LLRect α) : LatLng α := ⟨r.lat.center, r.lng.center⟩
def size (r : LLRect α) : LatLng α := ⟨r.lat.length, r.lng.length⟩

def addPoint (r : LLRect α) (ll : LatLng α) : LLRect α :=
  if !ll.isValid then r else ⟨r.lat.addPoint ll.lat, r.lng.addPoint ll.lng⟩

/-- the unexported `expanded` -/
def expanded (r : LLRect α) (margin : LatLng α) : LLRect α :=
  let lat := r.lat.expanded margin.lat
  let lng := r.lng.expanded margin.lng
  if lat.isEmpty || lng.isEmpty then empty
  else ⟨lat.intersection validLat, lng⟩

/-- `RectFromCenterSize` (`size/2` and `0.5*size` are the same correctly rounded value) -/
def fromCenterSize (c s : LatLng α) : LLRect α :=
  (fromLatLng c).expanded ⟨half s.lat, half s.lng⟩

def polarClosure (r : LLRect α) : LLRect α :=
  if feq r.lat.lo negHalfPi || feq r.lat.hi halfPi then ⟨r.lat, S1.full⟩ else r

def union (r o : LLRect α) : LLRect α := ⟨r.lat.union o.lat, r.lng.union o.lng⟩

def intersection (r o : LLRect α) : LLRect α :=
  let lat := r.lat.intersection o.lat
  let lng := r.lng.intersection o.lng
  if lat.isEmpty || lng.isEmpty then empty else ⟨lat, lng⟩

def intersects (r o : LLRect α) : Bool := r.lat.intersects o.lat && r.lng.intersects o.lng
def contains (r o : LLRect α) : Bool := r.lat.containsInterval o.lat && r.lng.containsInterval o.lng

def containsLatLng (r : LLRect α) (ll : LatLng α) : Bool :=
  if !ll.isValid then false else r.lat.contains ll.lat && r.lng.contains ll.lng

end LLRect
end

/-! ## The soft-float instance (bit-exact with Go) -/

namespace IvlF64

scoped instance : LE F64 := ⟨fun a b => F64.le a b = true⟩
scoped instance : LT F64 := ⟨fun a b => F64.lt a b = true⟩
scoped instance : DecidableLE F64 := fun a b => inferInstanceAs (Decidable (F64.le a b = true))
scoped instance : DecidableLT F64 := fun a b => inferInstanceAs (Decidable (F64.lt a b = true))
scoped instance : Max F64 := ⟨F64.fmax⟩
scoped instance : Min F64 := ⟨F64.fmin⟩

def f64Pi : F64 := ⟨0x400921fb54442d18⟩
def f64TwoPi : F64 := ⟨0x401921fb54442d18⟩

scoped instance : IvlOps F64 where
  feq := F64.feq
  add := F64.add
  sub := F64.sub
  half := fun x => F64.mul F64.half x
  dbl := fun x => F64.mul F64.two x
  abs := F64.abs
  rem2pi := fun x => F64.remainder x f64TwoPi
  zero := F64.zero false
  one := F64.one
  negOne := ⟨0xbff0000000000000⟩
  pi := f64Pi
  negPi := ⟨0xc00921fb54442d18⟩
  twoPi := f64TwoPi
  halfPi := ⟨0x3ff921fb54442d18⟩
  negHalfPi := ⟨0xbff921fb54442d18⟩
  twoEps := ⟨0x3cbffffffff081a2⟩

end IvlF64

/-! ## An exact-arithmetic instance: `Int` with π := 4 (so π/2 = 2, 2π = 8).
    It shows that the laws assumed in the proofs are satisfiable, and serves for `decide` examples. -/

namespace IvlInt

/-- IEEE-style remainder on integers modulo 8 (ties to even) -/
def rem8 (x : Int) : Int := x - 8 * F64.roundDivHalfEven x 8

scoped instance : IvlOps Int where
  feq := fun a b => a == b
  add := (· + ·)
  sub := (· - ·)
  half := fun x => x / 2
  dbl := fun x => 2 * x
  abs := fun x => if x < 0 then -x else x
  rem2pi := rem8
  zero := 0
  one := 1
  negOne := -1
  pi := 4
  negPi := -4
  twoPi := 8
  halfPi := 2
  negHalfPi := -2
  twoEps := 0

end IvlInt

end S2
