import S2.CellID
/-
  S2.DecoderIR — intermediate representation of the `decode` bodies of golang/geo (s2/encode.go,
  point.go, cap.go, rect.go, cellid.go, cell.go, cellunion.go, polyline.go, loop.go, polygon.go,
  pointcompression.go), a TOTAL interpreter for it, and the decidable static predicates
  `AllocGuarded`, `ErrChecked`, `ErrPropagated` used by property C15.

  The IR values are produced by `translator_c15` (Go, go/ast) into `S2/Generated/DecoderIR.lean`.

  Semantics (faithful to Go 1.23 / encoding/binary on linux/amd64):
  * the decoder has a STICKY error: once `d.err != nil` every `d.readX()` is a no-op returning 0;
  * a fixed-width read that hits end of input sets the error and returns 0 (binary.Read does not store);
    `readUvarint` returns the PARTIAL value accumulated so far together with the error (binary.ReadUvarint);
  * integers are Go integers: every conversion / typed arithmetic result is wrapped by `conv`;
  * `make([]T, n)` panics when `n < 0` or `n * sizeof T > maxAlloc = 2^48` (runtime.makeslice), and the
    process dies with "out of memory" when the cumulative allocation exceeds the memory available
    (`Cfg.memCap`, a parameter): outcomes `panic` and `allocTooLarge`;
  * `x[i]` panics when `i < 0 ∨ i ≥ len x`;
  * counted loops run `max n 0` times; the one `for nparsed < n { …; nparsed += c }` loop is run with
    fuel `n - nparsed`; an iteration that does not make progress yields the outcome `hang`;
  * slices are represented by their length only; floats by their bit pattern (never inspected).
  Core-only (linked into the oracle executable).
-/
namespace S2.DecoderIR

abbrev Var := Nat

/-- wire / Go scalar types.  `int` = 64-bit Go `int`; `uvarint` has range of `uint64`. -/
inductive Ty | u8 | i8 | u32 | i32 | u64 | i64 | int | f64 | bool | uvarint | f64v
  deriving DecidableEq, Repr, Inhabited

inductive BinOp | add | sub | mul | div | mod | band | lt | le | gt | ge | eq | ne | land | lor
  deriving DecidableEq, Repr, Inhabited

inductive Expr
  | lit (n : Int)
  | var (x : Var)
  | conv (t : Ty) (e : Expr)
  | bin (op : BinOp) (a b : Expr)
  | lnot (a : Expr)
  | cellIDValid (e : Expr)   -- CellID(e).IsValid()   (the real definition, S2.CellID.isValid)
  | errNil            -- d.err == nil
  | errSet            -- d.err != nil
  deriving DecidableEq, Repr, Inhabited

inductive Stmt
  | skip
  | seq (a b : Stmt)
  | read (t : Ty) (x : Var)                    -- x := d.readT()
  | failIfErr                                  -- if d.err != nil { return }
  | failIf (c : Expr)                          -- if c { d.err = …; return }   (error kept if already set)
  | errIf (c : Expr)                           -- if c { d.err = … }           (NO return)
  | assign (x : Var) (e : Expr)
  | alloc (x : Var) (n : Expr) (elemSize : Nat) -- x = make([]T, n)  /  new(T) with n = 1
  | append (x : Var) (elemSize : Nat)          -- x = append(x, v)
  | index (x : Var) (i : Expr)                 -- x[i] is accessed
  | loop (i : Var) (n : Expr) (body : Stmt)    -- for i := 0; i < n; i++ / for i := range make(…, n)
  | whileLt (x : Var) (bnd : Expr) (body : Stmt) (inc : Expr)  -- for ; x < bnd; { body; x += inc }
  | ite (c : Expr) (t e : Stmt)
  | call (name : String) (body : Stmt)         -- callee gets the decoder by pointer
  | callByValue (name : String) (body : Stmt)  -- callee gets a COPY of the decoder: its error is lost
  | opaque (name : String)                     -- call of a non-decoding function (index build, bounds, …)
  | ret
  deriving Repr, Inhabited

/-- right-nested sequence of a statement list (the translator emits `block […]`). -/
def block : List Stmt → Stmt
  | [] => .skip
  | [s] => s
  | s :: r => .seq s (block r)

/-! ## Environments -/

abbrev Env := List (Var × Int)

def get : Env → Var → Int
  | [], _ => 0
  | (y, v) :: r, x => if x = y then v else get r x

/-- remove the first binding of `x`. -/
def eraseKey : Env → Var → Env
  | [], _ => []
  | (y, w) :: r, x => if x = y then r else (y, w) :: eraseKey r x

/-- move-to-front update: the variables of a hot loop stay at the head of the list. -/
def set (e : Env) (x : Var) (v : Int) : Env := (x, v) :: eraseKey e x

theorem get_eraseKey (e : Env) (x y : Var) (h : y ≠ x) : get (eraseKey e x) y = get e y := by
  induction e with
  | nil => simp [eraseKey]
  | cons p r ih =>
    obtain ⟨z, w⟩ := p
    by_cases hxz : x = z
    · subst hxz; simp [eraseKey, get, h]
    · by_cases hyz : y = z
      · simp [eraseKey, get, hxz, hyz]
      · simp [eraseKey, get, hxz, hyz, ih]

theorem get_set (e : Env) (x y : Var) (v : Int) :
    get (set e x v) y = if y = x then v else get e y := by
  by_cases h : y = x
  · simp [set, get, h]
  · simp [set, get, h, get_eraseKey e x y h]

/-! ## State and configuration -/

structure St where
  inp : List UInt8       -- unread input
  err : Bool             -- d.err != nil
  env : Env
  allocd : Nat           -- bytes allocated so far
  lost : Bool            -- some callee's error was dropped (by-value decoder)
  nonfinite : Bool       -- some float64 read as a VERTEX COORDINATE (Ty.f64v) was NaN or ±Inf
  deriving Repr, Inhabited

structure Cfg where
  memCap : Nat           -- bytes the process may allocate before the runtime dies with out-of-memory
  deriving Repr, Inhabited

/-- runtime.maxAlloc on linux/amd64 (heapAddrBits = 48). -/
def goMaxAlloc : Nat := 2 ^ 48

inductive Out
  | cont (s : St)        -- fell through
  | retn (s : St)        -- executed `return`
  | panic (why : String)
  | allocTooLarge
  | hang
  deriving Repr, Inhabited

/-! ## Integer semantics -/

def wrapU (bits : Nat) (v : Int) : Int := v % (2 ^ bits : Nat)
def wrapS (bits : Nat) (v : Int) : Int :=
  let u := v % (2 ^ bits : Nat)
  if u < (2 ^ (bits - 1) : Nat) then u else u - (2 ^ bits : Nat)

def Ty.lo : Ty → Int
  | .u8 | .u32 | .u64 | .uvarint | .bool | .f64 | .f64v => 0
  | .i8 => -128 | .i32 => -2147483648 | .i64 | .int => -9223372036854775808
def Ty.hi : Ty → Int
  | .u8 => 255 | .u32 => 4294967295 | .u64 | .uvarint | .f64 | .f64v => 18446744073709551615
  | .bool => 1
  | .i8 => 127 | .i32 => 2147483647 | .i64 | .int => 9223372036854775807

def conv (t : Ty) (v : Int) : Int :=
  match t with
  | .u8 => wrapU 8 v | .u32 => wrapU 32 v | .u64 | .uvarint | .f64 | .f64v => wrapU 64 v
  | .i8 => wrapS 8 v | .i32 => wrapS 32 v | .i64 | .int => wrapS 64 v
  | .bool => if v = 0 then 0 else 1

def b2i (b : Bool) : Int := if b then 1 else 0

def evalBin (op : BinOp) (a b : Int) : Int :=
  match op with
  | .add => a + b | .sub => a - b | .mul => a * b
  | .div => Int.tdiv a b | .mod => Int.tmod a b      -- Go truncates; ÷0 is excluded statically
  | .band => (((wrapU 64 a).toNat &&& (wrapU 64 b).toNat : Nat) : Int)   -- operands are unsigned in the sources
  | .lt => b2i (a < b) | .le => b2i (a ≤ b) | .gt => b2i (a > b) | .ge => b2i (a ≥ b)
  | .eq => b2i (a = b) | .ne => b2i (a ≠ b)
  | .land => b2i (a ≠ 0 ∧ b ≠ 0) | .lor => b2i (a ≠ 0 ∨ b ≠ 0)

def eval (err : Bool) (env : Env) : Expr → Int
  | .lit n => n
  | .var x => get env x
  | .conv t e => conv t (eval err env e)
  | .bin op a b => evalBin op (eval err env a) (eval err env b)
  | .lnot a => b2i (eval err env a = 0)
  | .cellIDValid e => b2i (S2.CellID.isValid (UInt64.ofNat (wrapU 64 (eval err env e)).toNat))
  | .errNil => b2i (!err)
  | .errSet => b2i err

/-! ## Reads -/

def leNat : List UInt8 → Nat
  | [] => 0
  | b :: r => b.toNat + 256 * leNat r

def Ty.width : Ty → Nat
  | .u8 | .i8 | .bool => 1
  | .u32 | .i32 => 4
  | .u64 | .i64 | .int | .f64 | .f64v => 8
  | .uvarint => 0

/-- binary.ReadUvarint: (value, ok, rest).  `k` = bytes still allowed (10 at the start). -/
def readUvarintAux : Nat → Nat → Nat → List UInt8 → Nat × Bool × List UInt8
  | 0, x, _, inp => (x, false, inp)                       -- 10 continuation bytes: overflow
  | _ + 1, x, _, [] => (x, false, [])                     -- EOF: partial value and error
  | k + 1, x, s, b :: r =>
    if b.toNat < 128 then
      if k = 0 ∧ b.toNat > 1 then (x, false, r)           -- 10th byte > 1: overflow
      else ((x ||| (b.toNat <<< s)) % 2 ^ 64, true, r)
    else readUvarintAux k ((x ||| ((b.toNat % 128) <<< s)) % 2 ^ 64) (s + 7) r

/-- one `d.readT()` on a decoder WITHOUT error: (value, ok, rest). -/
def readRaw (t : Ty) (inp : List UInt8) : Int × Bool × List UInt8 :=
  match t with
  | .uvarint => let (v, ok, r) := readUvarintAux 10 0 0 inp; ((v : Int), ok, r)
  | _ =>
    let w := t.width
    if inp.length < w then (0, false, [])                 -- short read: error, nothing stored
    else
      let v : Int := leNat (inp.take w)
      let v := match t with
        | .bool => b2i (conv .i8 v = 1)                   -- readBool: int8 == 1
        | t => conv t v
      (v, true, inp.drop w)

/-- binary64 bit pattern with all exponent bits set: NaN or ±Inf. -/
def nonFiniteBits (v : Int) : Bool := (v.toNat / 2 ^ 52) % 2048 == 2047

def doRead (t : Ty) (x : Var) (s : St) : St :=
  if s.err then { s with env := set s.env x 0 }
  else
    let (v, ok, r) := readRaw t s.inp
    { s with inp := r, err := !ok, env := set s.env x v,
             nonfinite := s.nonfinite || (t == .f64v && ok && nonFiniteBits v) }

/-! ## The interpreter -/

def iterLoop (f : St → Out) (i : Var) : Nat → Nat → St → Out
  | 0, _, s => .cont s
  | k + 1, j, s =>
    match f { s with env := set s.env i j } with
    | .cont s' => iterLoop f i k (j + 1) s'
    | o => o

def iterWhile (f : St → Out) (x : Var) (bnd inc : Expr) : Nat → St → Out
  | fuel, s =>
    if get s.env x < eval s.err s.env bnd then
      match fuel with
      | 0 => .hang
      | k + 1 =>
        match f s with
        | .cont s' =>
          let x' := conv .int (get s'.env x + eval s'.err s'.env inc)
          if x' ≤ get s.env x then .hang          -- no progress: `for` never ends
          else iterWhile f x bnd inc k { s' with env := set s'.env x x' }
        | o => o
    else .cont s

def doAlloc (cfg : Cfg) (x : Var) (n : Int) (size : Nat) (s : St) : Out :=
  if n < 0 then .panic "makeslice: len out of range"
  else if n.toNat * size > goMaxAlloc then .panic "makeslice: len out of range"
  else if s.allocd + n.toNat * size > cfg.memCap then .allocTooLarge
  else .cont { s with allocd := s.allocd + n.toNat * size, env := set s.env x n }

/-- cumulative allocation charged to one `append` (Go grows by ×2 / ×1.25: the arrays allocated over
    the life of a slice of final length n sum to < 8·n elements). -/
def appendCharge (size : Nat) : Nat := 8 * size

def exec (cfg : Cfg) : Stmt → St → Out
  | .skip, s => .cont s
  | .seq a b, s =>
    match exec cfg a s with
    | .cont s' => exec cfg b s'
    | o => o
  | .read t x, s => .cont (doRead t x s)
  | .failIfErr, s => if s.err then .retn s else .cont s
  | .failIf c, s => if eval s.err s.env c ≠ 0 then .retn { s with err := true } else .cont s
  | .errIf c, s => if eval s.err s.env c ≠ 0 then .cont { s with err := true } else .cont s
  | .assign x e, s => .cont { s with env := set s.env x (eval s.err s.env e) }
  | .alloc x n size, s => doAlloc cfg x (eval s.err s.env n) size s
  | .append x size, s =>
    if s.allocd + appendCharge size > cfg.memCap then .allocTooLarge
    else .cont { s with allocd := s.allocd + appendCharge size, env := set s.env x (get s.env x + 1) }
  | .index x i, s =>
    let v := eval s.err s.env i
    if v < 0 ∨ v ≥ get s.env x then .panic "index out of range" else .cont s
  | .loop i n body, s => iterLoop (exec cfg body) i (eval s.err s.env n).toNat 0 s
  | .whileLt x bnd body inc, s =>
    iterWhile (exec cfg body) x bnd inc (eval s.err s.env bnd - get s.env x).toNat s
  | .ite c t e, s => if eval s.err s.env c ≠ 0 then exec cfg t s else exec cfg e s
  | .call _ body, s =>
    match exec cfg body s with
    | .retn s' => .cont s'
    | o => o
  | .callByValue _ body, s =>
    match exec cfg body s with
    | .retn s' | .cont s' => .cont { s' with err := s.err, lost := s'.lost || (s'.err && !s.err) }
    | o => o
  | .opaque _, s => .cont s
  | .ret, s => .retn s

/-- Observable result of a `Decode` method. -/
inductive Result
  | error (allocd : Nat)
  | value (allocd : Nat) (lostError : Bool)
  | panic (why : String)
  | allocTooLarge
  | hang
  deriving Repr, DecidableEq, Inhabited

def St.init (input : List UInt8) : St :=
  { inp := input, err := false, env := [], allocd := 0, lost := false, nonfinite := false }

/-- `run` is a total function: every decoder IR terminates on every input, by construction of the
    interpreter (structural recursion; loops are bounded by their evaluated count / fuel). What the
    theorems add is that the outcome is never `panic`, `allocTooLarge` or `hang` for guarded programs. -/
def resultOf : Out → Result
  | .cont s | .retn s => if s.err then .error s.allocd else .value s.allocd s.lost
  | .panic w => .panic w
  | .allocTooLarge => .allocTooLarge
  | .hang => .hang

def run (cfg : Cfg) (p : Stmt) (input : List UInt8) : Result := resultOf (exec cfg p (St.init input))

/-- did the decoder read a NaN / ±Inf vertex coordinate (finding D21: such values are accepted)? -/
def nonfiniteOf : Out → Bool
  | .cont s | .retn s => s.nonfinite
  | _ => false

/-! ## Static analysis: intervals + strict order facts -/

structure Abs where
  bnd : List (Var × Int × Int)     -- lo ≤ x ≤ hi
  lts : List (Var × Var)           -- a < b
  pend : List Expr                 -- if d.err == nil then each of these conditions is false
  deriving Repr, Inhabited

def Abs.empty : Abs := ⟨[], [], []⟩

def Abs.clearPend (a : Abs) : Abs := ⟨a.bnd, a.lts, []⟩

def Abs.killAll (a : Abs) (xs : List Var) : Abs :=
  ⟨a.bnd.filter (fun p => !xs.contains p.1), a.lts.filter (fun p => !xs.contains p.1 && !xs.contains p.2), a.pend⟩

def Abs.kill (a : Abs) (x : Var) : Abs := a.killAll [x]

def Abs.look (a : Abs) (x : Var) : Option (Int × Int) :=
  match a.bnd.find? (fun p => p.1 = x) with
  | some p => some p.2
  | none => none

def Abs.setB (a : Abs) (x : Var) (r : Option (Int × Int)) : Abs :=
  let k := a.kill x
  match r with
  | some (lo, hi) => ⟨(x, lo, hi) :: k.bnd, k.lts, k.pend⟩
  | none => k

/-- tighten (never kills): add a further bound for x. -/
def Abs.addB (a : Abs) (x : Var) (lo hi : Int) : Abs := ⟨(x, lo, hi) :: a.bnd, a.lts, a.pend⟩

def inRange (t : Ty) (lo hi : Int) : Bool := t.lo ≤ lo && hi ≤ t.hi

def ivalBin (op : BinOp) (rx ry : Option (Int × Int)) : Option (Int × Int) :=
  match op with
  | .add => match rx, ry with
    | some (l1, h1), some (l2, h2) => some (l1 + l2, h1 + h2)
    | _, _ => none
  | .sub => match rx, ry with
    | some (l1, h1), some (l2, h2) => some (l1 - h2, h1 - l2)
    | _, _ => none
  | .mul => match rx, ry with
    | some (l1, h1), some (l2, h2) => if 0 ≤ l1 ∧ 0 ≤ l2 then some (l1 * l2, h1 * h2) else none
    | _, _ => none
  | .div => match rx, ry with
    | some (l1, h1), some (l2, h2) => if 0 ≤ l1 ∧ 0 < l2 ∧ l2 = h2 then some (l1 / l2, h1 / l2) else none
    | _, _ => none
  | .mod => match rx, ry with
    | some (l1, _), some (l2, h2) => if 0 ≤ l1 ∧ 0 < l2 ∧ l2 = h2 then some (0, l2 - 1) else none
    | _, _ => none
  | .band => none
  | .lt | .le | .gt | .ge | .eq | .ne | .land | .lor => some (0, 1)

def ivalConv (t : Ty) (r : Option (Int × Int)) : Option (Int × Int) :=
  if t = .f64 ∨ t = .f64v then none else
  match r with
  | some (lo, hi) => if t.lo ≤ lo ∧ hi ≤ t.hi ∧ t ≠ .bool then some (lo, hi) else some (t.lo, t.hi)
  | none => some (t.lo, t.hi)

/-- interval of an expression (sound for every environment satisfying `a`). -/
def ival (a : Abs) : Expr → Option (Int × Int)
  | .lit n => some (n, n)
  | .var x => a.look x
  | .conv t e => ivalConv t (ival a e)
  | .bin op x y => ivalBin op (ival a x) (ival a y)
  | .lnot _ => some (0, 1)
  | .cellIDValid _ => some (0, 1)
  | .errNil => some (0, 1)
  | .errSet => some (0, 1)

/-- knowledge gained when condition `c` is known to be FALSE (only known variables are tightened). -/
def refineNot (a : Abs) : Expr → Abs
  | .bin .gt (.var x) e =>                      -- ¬ (x > e)  ⇒  x ≤ e
    match ival a e, a.look x with
    | some (_, h), some (l, h0) => a.addB x l (min h h0)
    | _, _ => a
  | .bin .ge (.var x) (.var y) =>               -- ¬ (x ≥ y)  ⇒  x < y
    ⟨a.bnd, (x, y) :: a.lts, a.pend⟩
  | .bin .lt (.var x) e =>                      -- ¬ (x < e)  ⇒  x ≥ e
    match ival a e, a.look x with
    | some (l, _), some (l0, h) => a.addB x (max l l0) h
    | _, _ => a
  | .bin .le (.var x) e =>                      -- ¬ (x ≤ e)  ⇒  x ≥ e + 1
    match ival a e, a.look x with
    | some (l, _), some (l0, h) => a.addB x (max (l + 1) l0) h
    | _, _ => a
  | .bin .lor c₁ c₂ => refineNot (refineNot a c₁) c₂
  | _ => a

/-! ## Syntactic helpers -/

def Expr.vars : Expr → List Var
  | .lit _ | .errNil | .errSet => []
  | .var x => [x]
  | .conv _ e | .lnot e | .cellIDValid e => e.vars
  | .bin _ a b => a.vars ++ b.vars

/-- every division / remainder has a positive literal divisor (so `eval`'s totalisation of ÷0 is never used). -/
def Expr.ok : Expr → Bool
  | .lit _ | .errNil | .errSet | .var _ => true
  | .conv _ e | .lnot e | .cellIDValid e => e.ok
  | .bin op a b =>
    a.ok && b.ok && (match op, b with
      | .div, .lit k | .mod, .lit k => decide (0 < k)
      | .div, _ | .mod, _ => false
      | _, _ => true)

def defs : Stmt → List Var
  | .skip | .failIfErr | .failIf _ | .errIf _ | .index _ _ | .opaque _ | .ret => []
  | .seq a b => defs a ++ defs b
  | .read _ x | .assign x _ | .alloc x _ _ | .append x _ => [x]
  | .loop i _ b => i :: defs b
  | .whileLt x _ b _ => x :: defs b
  | .ite _ t e => defs t ++ defs e
  | .call _ b | .callByValue _ b => defs b

/-- the bound expression of a `whileLt` must be loop-invariant: a literal or a variable not assigned in the loop. -/
def invariantBnd (xs : List Var) : Expr → Bool
  | .lit _ => true
  | .var b => !xs.contains b
  | _ => false

/-- `if C && d.err == nil { d.err = … }`: after the next `d.err` check, `C` is known to be false. -/
def pendOf : Expr → Option Expr
  | .bin .land c' .errNil => some c'
  | _ => none

def maxInt64 : Int := 9223372036854775807

/-- `chk a p = some (a', B)`: starting in any state satisfying `a`, `p` never panics / hangs, allocates at
    most `B` bytes, and if it falls through the state satisfies `a'`. -/
def chk : Abs → Stmt → Option (Abs × Nat)
  | a, .skip => some (a, 0)
  | a, .seq s₁ s₂ =>
    match chk a s₁ with
    | some (a₁, b₁) =>
      match chk a₁ s₂ with
      | some (a₂, b₂) => some (a₂, b₁ + b₂)
      | none => none
    | none => none
  | a, .read t x => some ((a.setB x (some (t.lo, t.hi))).clearPend, 0)
  | a, .failIfErr => some (a.pend.foldl refineNot a.clearPend, 0)
  | a, .failIf c => if c.ok then some (refineNot a c, 0) else none
  | a, .errIf c =>
    if c.ok then
      match pendOf c with
      | some c' => some (⟨a.bnd, a.lts, c' :: a.pend⟩, 0)
      | none => some (a, 0)
    else none
  | a, .assign x e => if e.ok then some ((a.setB x (ival a e)).clearPend, 0) else none
  | a, .alloc x n sz =>
    if n.ok then
      match ival a n with
      | some (lo, hi) =>
        if 0 ≤ lo && hi.toNat * sz ≤ goMaxAlloc then some ((a.setB x (some (lo, hi))).clearPend, hi.toNat * sz)
        else none
      | none => none
    else none
  | a, .append x sz =>
    some ((a.setB x (match a.look x with | some (l, h) => some (l + 1, h + 1) | none => none)).clearPend,
          appendCharge sz)
  | a, .index x i =>
    match i with
    | .var j =>
      match a.look j with
      | some (lo, _) => if 0 ≤ lo && a.lts.contains (j, x) then some (a, 0) else none
      | none => none
    | _ => none
  | a, .loop i n body =>
    if n.ok then
      match ival a n with
      | some (_, hi) =>
        let a₀ := (a.killAll (i :: defs body)).clearPend
        match chk (a₀.addB i 0 hi) body with
        | some (_, bb) => some (a₀, hi.toNat * bb)
        | none => none
      | none => none
    else none
  | a, .whileLt x bnd body inc =>
    if bnd.ok && inc.ok && invariantBnd (x :: defs body) bnd && !(defs body).contains x then
      match ival a bnd, a.look x with
      | some (_, hb), some (lx, _) =>
        let a₀ := (a.killAll (x :: defs body)).clearPend
        match chk (a₀.addB x lx (hb - 1)) body with
        | some (a₁, bb) =>
          match ival a₁ inc with
          | some (li, hi) =>
            if 1 ≤ li && hb - 1 + hi ≤ maxInt64 && -maxInt64 ≤ lx then some (a₀, (hb - lx).toNat * bb) else none
          | none => none
        | none => none
      | _, _ => none
    else none
  | a, .ite c t e =>
    if c.ok then
      match chk a t, chk a e with
      | some (_, b₁), some (_, b₂) => some ((a.killAll (defs t ++ defs e)).clearPend, max b₁ b₂)
      | _, _ => none
    else none
  | a, .call _ body =>
    match chk a body with
    | some (_, b) => some ((a.killAll (defs body)).clearPend, b)
    | none => none
  | a, .callByValue _ body =>
    match chk a body with
    | some (_, b) => some ((a.killAll (defs body)).clearPend, b)
    | none => none
  | a, .opaque _ => some (a, 0)
  | a, .ret => some (a, 0)

/-- static allocation bound of a guarded program (0 if not guarded). -/
def allocBound (p : Stmt) : Nat := match chk Abs.empty p with | some (_, b) => b | none => 0

/-! ## Error-check discipline: a count that came from `readUvarint` (which returns a partial, possibly huge
    value on failure) must not reach `make`, a loop bound or an index before `d.err` has been checked.
    Fixed-width reads return 0 on failure and are always clean. -/

def anyIn (xs : List Var) (e : Expr) : Bool := e.vars.any xs.contains

def errChk : List Var → Stmt → Option (List Var)
  | d, .skip | d, .opaque _ | d, .ret | d, .failIf _ | d, .errIf _ => some d
  | d, .seq a b => match errChk d a with | some d₁ => errChk d₁ b | none => none
  | d, .read t x => some (if t = .uvarint then x :: d else d.filter (· ≠ x))
  | _, .failIfErr => some []
  | d, .assign x e => some (if anyIn d e then x :: d else d.filter (· ≠ x))
  | d, .alloc x n _ => if anyIn d n then none else some (d.filter (· ≠ x))
  | d, .append _ _ => some d
  | d, .index _ i => if anyIn d i then none else some d
  | d, .loop _ n body =>
    if anyIn d n then none else
    match errChk (d ++ defs body) body with | some d₁ => some (d ++ d₁ ++ defs body) | none => none
  | d, .whileLt _ bnd body _ =>
    if anyIn d bnd then none else
    match errChk (d ++ defs body) body with | some d₁ => some (d ++ d₁ ++ defs body) | none => none
  | d, .ite _ t e =>
    match errChk d t, errChk d e with | some d₁, some d₂ => some (d₁ ++ d₂) | _, _ => none
  | d, .call _ body => match errChk d body with | some d₁ => some (d ++ d₁ ++ defs body) | none => none
  | d, .callByValue _ body => match errChk d body with | some d₁ => some (d ++ d₁ ++ defs body) | none => none

/-- no callee receives the decoder by value (so no callee error can be dropped). -/
def ErrPropagated : Stmt → Bool
  | .callByValue _ _ => false
  | .seq a b => ErrPropagated a && ErrPropagated b
  | .loop _ _ b | .whileLt _ _ b _ | .call _ b => ErrPropagated b
  | .ite _ t e => ErrPropagated t && ErrPropagated e
  | _ => true

/-- every `make` / loop bound / index is dominated on all paths by checks implying `0 ≤ n ≤ limit`
    (resp. `0 ≤ i < len`), every `for x < n` loop makes progress, no division can be by zero. -/
def Bounded (p : Stmt) : Bool := (chk Abs.empty p).isSome

/-- … and by an error check of the `readUvarint` that produced the count. -/
def ErrChecked (p : Stmt) : Bool := (errChk [] p).isSome

def AllocGuarded (p : Stmt) : Bool := Bounded p && ErrChecked p

/-- the per-decoder obligation of C15. -/
def Guarded (p : Stmt) : Bool := AllocGuarded p && ErrPropagated p

end S2.DecoderIR
