/-
  S2.Pred — model of s2/predicates.go (orientation and distance predicates), core-only.

  Float stages (`triageSign`, `stableSign`, `triageCompare*`, `triageSignDotProd`, `sign`) are
  modelled bit-exactly in the soft-float `S2.F64`; the exact stages (`exactSign`,
  `symbolicallyPerturbedSign`, `exactCompareDistances`, `exactCompareDistance`, exact `SignDotProd`)
  over `S2.Exact.IV3` (integers at the common scale 2^1074), which is what r3.PreciseVector
  computes (big.Float at 2^26 bits never rounds here).

  Direction / comparison results are `Int` : -1 / 0 / +1.

  Constants: Go evaluates untyped constant expressions exactly and rounds ONCE when the constant
  is converted to float64; they are reproduced here as `roundNE` of the exact rational
  (`Q`), and compared with the values the Go compiler produced by the oracle op `c02const`.

  Out of contract (the real code panics: big.Float cannot hold NaN, `Inf·0`): NaN / Inf
  coordinates, NaN chord angle.  The model is total there but nothing is claimed.

  Repair D54 (floaterr3): `triageCompareCosDistance` uses `math.Abs(cosR)` in `cosRError`; the model follows the
  REPAIRED code (the pre-repair functions are kept as `…Old` in `S2Proofs/Properties/C02_DistanceExact.lean`).
-/
import S2.F64
import S2.STUV
import S2.Exact
namespace S2.Pred
open S2 S2.Exact

/-! ### constants -/

/-- non-negative rational n/d used for Go's exact untyped-constant arithmetic -/
structure Q where
  n : Nat
  d : Nat

namespace Q
def mul (a b : Q) : Q := ⟨a.n * b.n, a.d * b.d⟩
def add (a b : Q) : Q := ⟨a.n * b.d + b.n * a.d, a.d * b.d⟩
/-- a - b, requires a ≥ b -/
def sub (a b : Q) : Q := ⟨a.n * b.d - b.n * a.d, a.d * b.d⟩
def inv (a : Q) : Q := ⟨a.d, a.n⟩
def ofNat (k : Nat) : Q := ⟨k, 1⟩
/-- conversion of the constant to float64 (one rounding) -/
def toF64 (a : Q) : F64 := F64.roundNE false a.n a.d
instance : Mul Q := ⟨mul⟩
instance : Add Q := ⟨add⟩
end Q

/-- `dblEpsilon = 2.220446049250313e-16` (the decimal literal, NOT exactly 2^-52) -/
def qDblEpsilon : Q := ⟨2220446049250313, 10 ^ 31⟩
/-- `dblError = 1.110223024625156e-16` -/
def qDblError : Q := ⟨1110223024625156, 10 ^ 31⟩
/-- `sqrt3 = 1.73205080756887729352744634150587236694280525381038062805580` -/
def qSqrt3 : Q := ⟨173205080756887729352744634150587236694280525381038062805580, 10 ^ 59⟩
/-- `math.Sqrt2 = 1.41421356237309504880168872420969807856967187537694807317667974` -/
def qSqrt2 : Q := ⟨141421356237309504880168872420969807856967187537694807317667974, 10 ^ 62⟩

/-- `maxDeterminantError = 1.8274 * dblEpsilon` -/
def maxDeterminantError : F64 := (Q.mk 18274 10000 * qDblEpsilon).toF64
/-- `detErrorMultiplier = 3.2321 * dblEpsilon` -/
def detErrorMultiplier : F64 := (Q.mk 32321 10000 * qDblEpsilon).toF64
/-- `9.5*dblError` (cosDistance) -/
def cosErrMul : F64 := (Q.mk 95 10 * qDblError).toF64
/-- `1.5*dblError` (cosDistance) -/
def cosErrAdd : F64 := (Q.mk 15 10 * qDblError).toF64
/-- `(21+4*sqrt3)*dblError` (sin2Distance) -/
def sin2ErrA : F64 := ((Q.ofNat 21 + Q.ofNat 4 * qSqrt3) * qDblError).toF64
/-- `32*sqrt3*dblError*dblError` (sin2Distance) -/
def sin2ErrB : F64 := (Q.ofNat 32 * qSqrt3 * qDblError * qDblError).toF64
/-- `768*dblError*dblError*dblError*dblError` (sin2Distance) -/
def sin2ErrC : F64 := (Q.ofNat 768 * qDblError * qDblError * qDblError * qDblError).toF64
/-- `2.0*dblError` (triageCompareCosDistance) -/
def twoDblError : F64 := (Q.ofNat 2 * qDblError).toF64
/-- `3.0*dblError` (triageCompareSin2Distance) -/
def threeDblError : F64 := (Q.ofNat 3 * qDblError).toF64
/-- `3.046875 * dblEpsilon` (triageSignDotProd) -/
def sdpMaxError : F64 := (Q.mk 3046875 1000000 * qDblEpsilon).toF64
/-- `1/math.Sqrt2` -/
def invSqrt2 : F64 := qSqrt2.inv.toF64
/-- `ca45Degrees = ChordAngleFromSquaredLength(2 - math.Sqrt2)` (2-√2 ≤ 4, so no clamping) -/
def ca45Degrees : F64 := ((Q.ofNat 2).sub qSqrt2).toF64
def quarter : F64 := ⟨0x3FD0000000000000⟩
def fzero : F64 := F64.zero false

/-- all constants in the order of the oracle op `c02const` -/
def allConstants : List F64 :=
  [maxDeterminantError, detErrorMultiplier, cosErrMul, cosErrAdd, sin2ErrA, sin2ErrB, sin2ErrC,
   twoDblError, threeDblError, sdpMaxError, invSqrt2, ca45Degrees]

/-! ### orientation -/

/-- `Sign(a,b,c)` : `c.Cross(a).Dot(b) > 0` -/
def sign (a b c : V3) : Bool := F64.gt ((c.cross a).dot b) fzero

/-- generic "value beyond ±err" test used by every triage stage: +1 / -1 / 0 -/
def threshold (det err : F64) : Int :=
  if F64.gt det err then 1 else if F64.lt det (-err) then -1 else 0

/-- `triageSign` -/
def triageSign (a b c : V3) : Int :=
  threshold ((a.cross b).dot c) maxDeterminantError

/-- `minStableSignNorm2Product = 0x1p-1000` -/
def minStableSignNorm2Product : F64 := ⟨0x0170000000000000⟩

/-- the float determinant, the error bound and the product `|e1|²·|e2|²` computed by `stableSign` -/
def stableParts (a b c : V3) : F64 × F64 × F64 :=
  let ab := b.sub a
  let ab2 := ab.norm2
  let bc := c.sub b
  let bc2 := bc.norm2
  let ca := a.sub c
  let ca2 := ca.norm2
  let (e1, e2, op) : V3 × V3 × V3 :=
    if F64.ge ab2 bc2 && F64.ge ab2 ca2 then (ca, bc, c)
    else if F64.ge bc2 ca2 then (ab, ca, a)
    else (bc, ab, b)
  let det := -((e1.cross e2).dot op)
  let n2p := e1.norm2 * e2.norm2
  let maxErr := detErrorMultiplier * F64.sqrt n2p
  (det, maxErr, n2p)

/-- the float determinant and error bound computed by `stableSign` -/
def stableDetErr (a b c : V3) : F64 × F64 :=
  ((stableParts a b c).1, (stableParts a b c).2.1)

/-- `stableSign`: `Indeterminate` when the product of squared norms (and with it the error bound)
    is in the underflow range, else the thresholded determinant. -/
def stableSign (a b c : V3) : Int :=
  if F64.lt (stableParts a b c).2.2 minStableSignNorm2Product then 0
  else threshold (stableDetErr a b c).1 (stableDetErr a b c).2

/-- `symbolicallyPerturbedSign(a, b, c, bCrossC)` : exactly the cascade of tests of the Go source.
    Never returns 0. -/
def symbolicallyPerturbedSign (a b c bxc : IV3) : Int :=
  if bxc.z ≠ 0 then sgn bxc.z                                        -- da.Z
  else if bxc.y ≠ 0 then sgn bxc.y                                   -- da.Y
  else if bxc.x ≠ 0 then sgn bxc.x                                   -- da.X
  else if c.x * a.y - c.y * a.x ≠ 0 then sgn (c.x * a.y - c.y * a.x) -- db.Z
  else if c.x ≠ 0 then sgn c.x                                       -- db.Z * da.Y
  else if c.y ≠ 0 then -(sgn c.y)                                    -- db.Z * da.X
  else if c.z * a.x - c.x * a.z ≠ 0 then sgn (c.z * a.x - c.x * a.z) -- db.Y
  else if c.z ≠ 0 then sgn c.z                                       -- db.Y * da.X
  -- (db.X test omitted in the code: C == 0 here)
  else if a.x * b.y - a.y * b.x ≠ 0 then sgn (a.x * b.y - a.y * b.x) -- dc.Z
  else if b.x ≠ 0 then -(sgn b.x)                                    -- dc.Z * da.Y
  else if b.y ≠ 0 then sgn b.y                                       -- dc.Z * da.X
  else if a.x ≠ 0 then sgn a.x                                       -- dc.Z * db.Y
  else 1                                                             -- dc.Z * db.Y * da.X

/-- The three compare-exchange steps of `exactSign`, generic in the comparison
    (`gt x y` ⇔ `x.Cmp(y) > 0`); returns the sorted triple and the permutation sign. -/
def sort3 {α : Type} (gt : α → α → Bool) (a b c : α) : α × α × α × Int :=
  let (pa, pb, s) : α × α × Int := if gt a b then (b, a, -1) else (a, b, 1)
  let (pb, pc, s) : α × α × Int := if gt pb c then (c, pb, -s) else (pb, c, s)
  let (pa, pb, s) : α × α × Int := if gt pa pb then (pb, pa, -s) else (pa, pb, s)
  (pa, pb, pc, s)

/-- exact part of `exactSign` on already-sorted exact vectors -/
def exactSignSorted (xa xb xc : IV3) (perturb : Bool) : Int :=
  let bxc := xb.cross xc
  let det := xa.dot bxc
  let detSign := sgn det
  if detSign == 0 && perturb then symbolicallyPerturbedSign xa xb xc bxc else detSign

/-- `exactSign(a, b, c, perturb)` : sort with the float `Cmp`, then exact arithmetic -/
def exactSign (a b c : V3) (perturb : Bool) : Int :=
  let (pa, pb, pc, permSign) := sort3 (fun u v => decide (V3.cmp u v > 0)) a b c
  permSign * exactSignSorted (ofV3 pa) (ofV3 pb) (ofV3 pc) perturb

/-- the same decision on exact integer vectors (sorting by the exact lexicographic order);
    this is the object of the theorems, `exactSign a b c p = exactSignI (ofV3 a) …` for finite inputs -/
def exactSignI (a b c : IV3) (perturb : Bool) : Int :=
  let (pa, pb, pc, permSign) := sort3 (fun u v => decide (IV3.cmp u v > 0)) a b c
  permSign * exactSignSorted pa pb pc perturb

/-- `expensiveSign` with the stage that decided: 1 = equal points, 2 = stableSign, 3 = exact
    determinant non-zero, 4 = symbolic perturbation -/
def expensiveSignS (a b c : V3) : Int × Nat :=
  if V3.feq a b || V3.feq b c || V3.feq c a then (0, 1)
  else
    let s := stableSign a b c
    if s != 0 then (s, 2)
    else
      let u := exactSign a b c false
      if u != 0 then (u, 3) else (exactSign a b c true, 4)

def expensiveSign (a b c : V3) : Int := (expensiveSignS a b c).1

/-- `RobustSign` with the deciding stage (0 = triageSign, else as `expensiveSignS`) -/
def robustSignS (a b c : V3) : Int × Nat :=
  let s := triageSign a b c
  if s != 0 then (s, 0) else expensiveSignS a b c

/-- `RobustSign(a,b,c)` : -1 (Clockwise) / 0 (Indeterminate) / +1 (CounterClockwise) -/
def robustSign (a b c : V3) : Int := (robustSignS a b c).1

/-- The exact + symbolic layer of `RobustSign` (what `RobustSign` returns when no float fast path
    answers, and — by the `…_given_error_bound` theorems — what it returns always if the error
    constants are sufficient). -/
def exactDecision (a b c : V3) : Int :=
  if V3.feq a b || V3.feq b c || V3.feq c a then 0 else exactSign a b c true

/-- exact-integer version of `exactDecision` -/
def exactDecisionI (a b c : IV3) : Int :=
  if a = b ∨ b = c ∨ c = a then 0 else exactSignI a b c true

/-- `OrderedCCW(a,b,c,o)` over any orientation function -/
def orderedCCWWith (rs : V3 → V3 → V3 → Int) (a b c o : V3) : Bool :=
  let s1 : Nat := if rs b o a != -1 then 1 else 0
  let s2 : Nat := if rs c o b != -1 then 1 else 0
  let s3 : Nat := if rs a o c == 1 then 1 else 0
  s1 + s2 + s3 ≥ 2

/-- `OrderedCCW(a,b,c,o)` -/
def orderedCCW (a b c o : V3) : Bool := orderedCCWWith robustSign a b c o

/-! ### distances -/

/-- `cosDistance(x,y)` : (cos, err) -/
def cosDistance (x y : V3) : F64 × F64 :=
  let cos := x.dot y
  (cos, cosErrMul * cos.abs + cosErrAdd)

/-- `sin2Distance(x,y)` : (sin2, err) -/
def sin2Distance (x y : V3) : F64 × F64 :=
  let n := (x.sub y).cross (x.add y)
  let sin2 := quarter * n.norm2
  let err := sin2ErrA * sin2 + sin2ErrB * F64.sqrt sin2 + sin2ErrC
  (sin2, err)

/-- (diff, err) of `triageCompareCosDistances` -/
def cosDistancesDiffErr (x a b : V3) : F64 × F64 :=
  let (cosAX, eA) := cosDistance a x
  let (cosBX, eB) := cosDistance b x
  (cosAX - cosBX, eA + eB)

/-- `triageCompareCosDistances` -/
def triageCompareCosDistances (x a b : V3) : Int :=
  let (diff, err) := cosDistancesDiffErr x a b
  Int.neg (threshold diff err)

/-- (diff, err) of `triageCompareSin2Distances` -/
def sin2DistancesDiffErr (x a b : V3) : F64 × F64 :=
  let (sA, eA) := sin2Distance a x
  let (sB, eB) := sin2Distance b x
  (sA - sB, eA + eB)

/-- `triageCompareSin2Distances` -/
def triageCompareSin2Distances (x a b : V3) : Int :=
  let (diff, err) := sin2DistancesDiffErr x a b
  threshold diff err

/-- `exactCompareDistances(x,a,b)` on exact vectors -/
def exactCompareDistances (x a b : IV3) : Int :=
  let cosAX := x.dot a
  let cosBX := x.dot b
  let aSign := sgn cosAX
  let bSign := sgn cosBX
  if aSign ≠ bSign then (if aSign > bSign then -1 else 1)
  else
    let cmp := cosBX * cosBX * a.norm2 - cosAX * cosAX * b.norm2
    aSign * sgn cmp

/-- `symbolicCompareDistances(x,a,b)` : float `Cmp` of a and b -/
def symbolicCompareDistances (_x a b : V3) : Int :=
  let c := V3.cmp a b
  if c == -1 then 1 else if c == 1 then -1 else 0

/-- exact-integer version -/
def symbolicCompareDistancesI (a b : IV3) : Int :=
  let c := IV3.cmp a b
  if c == -1 then 1 else if c == 1 then -1 else 0

/-- the value `sign` holds after the sin² block of `CompareDistances` (0 if the block is skipped) -/
def sin2StageDistances (x a b : V3) : Int :=
  let cosAX := a.dot x
  if F64.gt cosAX invSqrt2 then triageCompareSin2Distances x a b
  else if F64.lt cosAX (-invSqrt2) then -(triageCompareSin2Distances x a b)
  else 0

/-- `CompareDistances` with the deciding stage: 0 cos triage, 1 a==b, 2 sin² triage, 3 exact, 4 symbolic -/
def compareDistancesS (x a b : V3) : Int × Nat :=
  let s := triageCompareCosDistances x a b
  if s != 0 then (s, 0)
  else if V3.feq a b then (0, 1)
  else
    let s := sin2StageDistances x a b
    if s != 0 then (s, 2)
    else
      let s := exactCompareDistances (ofV3 x) (ofV3 a) (ofV3 b)
      if s != 0 then (s, 3) else (symbolicCompareDistances x a b, 4)

/-- `CompareDistances(x,a,b)` : -1 if AX < BX, +1 if AX > BX, 0 iff a == b -/
def compareDistances (x a b : V3) : Int := (compareDistancesS x a b).1

/-- exact + symbolic layer of `CompareDistances` on exact vectors -/
def exactDistancesDecisionI (x a b : IV3) : Int :=
  let s := exactCompareDistances x a b
  if s ≠ 0 then s else symbolicCompareDistancesI a b

/-- exact + symbolic layer of `CompareDistances` on float vectors -/
def exactDistancesDecision (x a b : V3) : Int :=
  if V3.feq a b then 0 else
  let s := exactCompareDistances (ofV3 x) (ofV3 a) (ofV3 b)
  if s != 0 then s else symbolicCompareDistances x a b

/-- (diff, err) of `triageCompareCosDistance(x,y,r2)`; `cosRError = 2·dblError·|cosR|` (repair D54: the code
    used `cosR` without `math.Abs`, which made the bound SHRINK for limits beyond 90°) -/
def cosDistanceDiffErr (x y : V3) (r2 : F64) : F64 × F64 :=
  let (cosXY, eXY) := cosDistance x y
  let cosR := F64.one - F64.half * r2
  let cosRError := twoDblError * cosR.abs
  (cosXY - cosR, eXY + cosRError)

/-- `triageCompareCosDistance` -/
def triageCompareCosDistance (x y : V3) (r2 : F64) : Int :=
  let (diff, err) := cosDistanceDiffErr x y r2
  Int.neg (threshold diff err)

/-- (diff, err) of `triageCompareSin2Distance(x,y,r2)` -/
def sin2DistanceDiffErr (x y : V3) (r2 : F64) : F64 × F64 :=
  let (sXY, eXY) := sin2Distance x y
  let sin2R := r2 * (F64.one - quarter * r2)
  let sin2RError := threeDblError * sin2R
  (sXY - sin2R, eXY + sin2RError)

/-- `triageCompareSin2Distance` -/
def triageCompareSin2Distance (x y : V3) (r2 : F64) : Int :=
  let (diff, err) := sin2DistanceDiffErr x y r2
  threshold diff err

/-- `exactCompareDistance(x,y,r2)` with vectors and `r2` as integers at scale `S`
    (value = integer / S): `cosR = 1 - r2/2 = (2S - r2)/(2S)`, and the Go expression
    `cosR²·|x|²|y|² − cosXY²` is multiplied by the positive factor `4·S⁶`. -/
def exactCompareDistanceS (S : Int) (x y : IV3) (r2 : Int) : Int :=
  let cosXY := x.dot y
  let cosR2 := 2 * S - r2          -- 2·S·cosR
  let xySign := sgn cosXY
  let rSign := sgn cosR2
  if xySign ≠ rSign then (if xySign > rSign then -1 else 1)
  else
    let cmp := cosR2 * cosR2 * (x.norm2 * y.norm2) - 4 * S * S * (cosXY * cosXY)
    xySign * sgn cmp

/-- `exactCompareDistance` on float inputs.  Finite r2: exact integers.  r2 = ±Inf (`big.NewFloat(±Inf)`; reached for
    `InfChordAngle` since repair D54, before it the cos triage decided): `cosR = 1 − ½·(±Inf) = ∓Inf`, and with
    big.Float's infinity arithmetic both branches return the sign of −cosR: −1 for +Inf (every distance is below
    the limit), +1 for −Inf (non-zero vectors; `Inf·0` panics).  NaN: Go panics, the model returns 0. -/
def exactCompareDistance (x y : V3) (r2 : F64) : Int :=
  if !r2.isFinite then (if r2.isNaN then 0 else if r2.signBit then 1 else -1)
  else exactCompareDistanceS scale (ofV3 x) (ofV3 y) (toInt r2)

/-- `CompareDistance(x,y,r)` with deciding stage: 0 cos triage, 2 sin² triage, 3 exact -/
def compareDistanceS (x y : V3) (r : F64) : Int × Nat :=
  let s := triageCompareCosDistance x y r
  if s != 0 then (s, 0)
  else
    let s := if F64.lt r ca45Degrees then triageCompareSin2Distance x y r else 0
    if s != 0 then (s, 2) else (exactCompareDistance x y r, 3)

/-- `CompareDistance(x,y,r)` : -1 / 0 / +1 for XY < r, = r, > r -/
def compareDistance (x y : V3) (r : F64) : Int := (compareDistanceS x y r).1

/-- `triageSignDotProd` -/
def triageSignDotProd (a b : V3) : Int :=
  let na := a.dot b
  if F64.le na.abs sdpMaxError then 0
  else if F64.gt na fzero then 1 else -1

/-- `SignDotProd` with stage: 0 triage, 3 exact -/
def signDotProdS (a b : V3) : Int × Nat :=
  let s := triageSignDotProd a b
  if s != 0 then (s, 0) else (dotSign a b, 3)

/-- `SignDotProd(a,b)` -/
def signDotProd (a b : V3) : Int := (signDotProdS a b).1

end S2.Pred
