/-
  S2.Shapes — model of the Shape accessor arithmetic of golang/geo (property C06, discrete half):
  `NumEdges / Edge / NumChains / Chain / ChainEdge / ChainPosition` of Loop, Polyline, LaxPolyline,
  PointVector, LaxLoop, LaxPolygon, Polygon and the test-only edgeVectorShape.

  The state abstraction and the primitives are in `S2.ShapesBase` (vertices are opaque labels,
  Go `int` = `Int`, a Go panic = `none`).  Every definition follows the Go source expression by
  expression and is written in the same shape the extractor `translator_c06` emits, so that
  the tie `S2.Shapes.X.f = S2.Generated.X.f` (S2Proofs/Ties/C06.lean) is closed by `rfl`.  The Go
  text is quoted above each definition.  `Polygon.Edge / Chain / ChainPosition` are modelled by
  structural recursion over the slices (`linSearch`, `cumSearch`, `sumLens`); the extractor emits them
  with the fuelled loop primitives of S2/ShapesLoops.lean and S2Proofs/Ties/C06_Polygon.lean PROVES the
  two equal (these three ties are theorems by induction, not `rfl`).

  The model is FAITHFUL to the current tree, including three defects (D11 LaxLoop.ChainEdge,
  D12 PointVector.ChainEdge, D13 LaxPolygon.ChainPosition); the repaired accessors are the
  `…Fixed` definitions.
-/
import S2.ShapesBase
set_option linter.unusedVariables false
namespace S2
namespace Shapes

namespace Loop
/-- { return len(l.vertices) == 1 } -/
def isEmptyOrFull (s : LoopS) : Bool :=
  (decide ((s.n : Int) = 1))
/-- { return l.originInside } -/
def ContainsOrigin (s : LoopS) : Bool :=
  s.originInside
/-- { return l.isEmptyOrFull() && !l.ContainsOrigin() } -/
def IsEmpty (s : LoopS) : Bool :=
  ((Loop.isEmptyOrFull s) && (!(Loop.ContainsOrigin s)))
/-- { return l.isEmptyOrFull() && l.ContainsOrigin() } -/
def IsFull (s : LoopS) : Bool :=
  ((Loop.isEmptyOrFull s) && (Loop.ContainsOrigin s))
/-- { return l.depth&1 != 0 } -/
def IsHole (s : LoopS) : Bool :=
  (decide ((andI (s.depth : Int) 1) ≠ 0))
/-- { return l.vertices[i%len(l.vertices)] } -/
def Vertex (s : LoopS) (i : Int) : Option (Int) := do
  let t1 ← modI i (s.n : Int)
  let t2 ← vtx s.n t1
  pure t2
/-- { j := i - len(l.vertices) if j < 0 { j = i } if l.IsHole() { j = len(l.vertices) - 1 - j } return l.Vertex(j) } -/
def OrientedVertex (s : LoopS) (i : Int) : Option (Int) := do
  let j : Int := (i - (s.n : Int))
  let j : Int := if j < 0 then i else j
  let j : Int := if (Loop.IsHole s) = true then (((s.n : Int) - 1) - j) else j
  let t1 ← Loop.Vertex s j
  pure t1
/-- { if l.isEmptyOrFull() { return 0 } return len(l.vertices) } -/
def NumEdges (s : LoopS) : Int :=
  if (Loop.isEmptyOrFull s) = true then
    0
  else
    (s.n : Int)
/-- { return Edge{l.Vertex(i), l.Vertex(i + 1)} } -/
def Edge (s : LoopS) (i : Int) : Option (EdgeL) := do
  let t1 ← Loop.Vertex s i
  let t2 ← Loop.Vertex s (i + 1)
  pure (t1, t2)
/-- { if l.IsEmpty() { return 0 } return 1 } -/
def NumChains (s : LoopS) : Int :=
  if (Loop.IsEmpty s) = true then
    0
  else
    1
/-- { return Chain{0, l.NumEdges()} } -/
def Chain (s : LoopS) (chainID : Int) : Int × Int :=
  (0, (Loop.NumEdges s))
/-- { return Edge{l.Vertex(offset), l.Vertex(offset + 1)} } -/
def ChainEdge (s : LoopS) (chainID offset : Int) : Option (EdgeL) := do
  let t1 ← Loop.Vertex s offset
  let t2 ← Loop.Vertex s (offset + 1)
  pure (t1, t2)
/-- { return ChainPosition{0, edgeID} } -/
def ChainPosition (s : LoopS) (edgeID : Int) : Int × Int :=
  (0, edgeID)
end Loop

namespace Polyline
/-- { if len(*p) == 0 { return 0 } return len(*p) - 1 } -/
def NumEdges (s : SeqS) : Int :=
  if (s.n : Int) = 0 then
    0
  else
    ((s.n : Int) - 1)
/-- { return Edge{(*p)[i], (*p)[i+1]} } -/
def Edge (s : SeqS) (i : Int) : Option (EdgeL) := do
  let t1 ← vtx s.n i
  let t2 ← vtx s.n (i + 1)
  pure (t1, t2)
/-- { return minInt(1, p.NumEdges()) } -/
def NumChains (s : SeqS) : Int :=
  (minInt 1 (Polyline.NumEdges s))
/-- { return Chain{0, p.NumEdges()} } -/
def Chain (s : SeqS) (chainID : Int) : Int × Int :=
  (0, (Polyline.NumEdges s))
/-- { return Edge{(*p)[offset], (*p)[offset+1]} } -/
def ChainEdge (s : SeqS) (chainID offset : Int) : Option (EdgeL) := do
  let t1 ← vtx s.n offset
  let t2 ← vtx s.n (offset + 1)
  pure (t1, t2)
/-- { return ChainPosition{0, edgeID} } -/
def ChainPosition (s : SeqS) (edgeID : Int) : Int × Int :=
  (0, edgeID)
end Polyline

namespace LaxPolyline
/-- { return maxInt(0, len(l.vertices)-1) } -/
def NumEdges (s : SeqS) : Int :=
  (maxInt 0 ((s.n : Int) - 1))
/-- { return Edge{l.vertices[e], l.vertices[e+1]} } -/
def Edge (s : SeqS) (e : Int) : Option (EdgeL) := do
  let t1 ← vtx s.n e
  let t2 ← vtx s.n (e + 1)
  pure (t1, t2)
/-- { return minInt(1, l.NumEdges()) } -/
def NumChains (s : SeqS) : Int :=
  (minInt 1 (LaxPolyline.NumEdges s))
/-- { return Chain{0, l.NumEdges()} } -/
def Chain (s : SeqS) (i : Int) : Int × Int :=
  (0, (LaxPolyline.NumEdges s))
/-- { return Edge{l.vertices[j], l.vertices[j+1]} } -/
def ChainEdge (s : SeqS) (i j : Int) : Option (EdgeL) := do
  let t1 ← vtx s.n j
  let t2 ← vtx s.n (j + 1)
  pure (t1, t2)
/-- { return ChainPosition{0, e} } -/
def ChainPosition (s : SeqS) (e : Int) : Int × Int :=
  (0, e)
end LaxPolyline

namespace PointVector
/-- { return len(*p) } -/
def NumEdges (s : SeqS) : Int :=
  (s.n : Int)
/-- { return Edge{(*p)[i], (*p)[i]} } -/
def Edge (s : SeqS) (i : Int) : Option (EdgeL) := do
  let t1 ← vtx s.n i
  let t2 ← vtx s.n i
  pure (t1, t2)
/-- { return len(*p) } -/
def NumChains (s : SeqS) : Int :=
  (s.n : Int)
/-- { return Chain{i, 1} } -/
def Chain (s : SeqS) (i : Int) : Int × Int :=
  (i, 1)
/-- { return Edge{(*p)[i], (*p)[j]} } -/
def ChainEdge (s : SeqS) (i j : Int) : Option (EdgeL) := do
  let t1 ← vtx s.n i
  let t2 ← vtx s.n j
  pure (t1, t2)
/-- { return ChainPosition{e, 0} } -/
def ChainPosition (s : SeqS) (e : Int) : Int × Int :=
  (e, 0)
end PointVector

namespace LaxLoop
/-- { return l.numVertices } -/
def NumEdges (s : LaxLoopS) : Int :=
  s.numVertices
/-- { e1 := e + 1 if e1 == l.numVertices { e1 = 0 } return Edge{l.vertices[e], l.vertices[e1]} } -/
def Edge (s : LaxLoopS) (e : Int) : Option (EdgeL) := do
  let e1 : Int := (e + 1)
  let e1 : Int := if e1 = s.numVertices then 0 else e1
  let t1 ← vtx s.nv e
  let t2 ← vtx s.nv e1
  pure (t1, t2)
/-- { return minInt(1, l.numVertices) } -/
def NumChains (s : LaxLoopS) : Int :=
  (minInt 1 s.numVertices)
/-- { return Chain{0, l.numVertices} } -/
def Chain (s : LaxLoopS) (i : Int) : Int × Int :=
  (0, s.numVertices)
/-- { var k int if j+1 == l.numVertices { k = j + 1 } return Edge{l.vertices[j], l.vertices[k]} } -/
def ChainEdge (s : LaxLoopS) (i j : Int) : Option (EdgeL) := do
  let k : Int := 0
  let k : Int := if (j + 1) = s.numVertices then (j + 1) else k
  let t1 ← vtx s.nv j
  let t2 ← vtx s.nv k
  pure (t1, t2)
/-- { return ChainPosition{0, e} } -/
def ChainPosition (s : LaxLoopS) (e : Int) : Int × Int :=
  (0, e)
end LaxLoop

namespace LaxPolygon
/-- { if p.numLoops <= 1 { return p.numVerts } return p.cumulativeVertices[p.numLoops] } -/
def numVertices (s : LaxPolygonS) : Option (Int) := do
  if s.numLoops ≤ 1 then
    pure s.numVerts
  else
    (do let t1 ← s.cumAt s.numLoops
        pure t1)
/-- { if p.numLoops == 1 { return p.numVerts } return p.cumulativeVertices[i+1] - p.cumulativeVertices[i] } -/
def numLoopVertices (s : LaxPolygonS) (i : Int) : Option (Int) := do
  if s.numLoops = 1 then
    pure s.numVerts
  else
    (do let t1 ← s.cumAt (i + 1)
        let t2 ← s.cumAt i
        pure (t1 - t2))
/-- { return p.numVertices() } -/
def NumEdges (s : LaxPolygonS) : Option (Int) := do
  let t1 ← LaxPolygon.numVertices s
  pure t1
/-- { e1 := e + 1 if p.numLoops == 1 { if e1 == p.numVerts { e1 = 0 } return Edge{p.vertices[e], p.vertices[e1]} } nextLoop := 0 for p.cumulativeVertices[nextLoop] <= e { nextLoop++ } if e1 == p.cumulativeVertices[nextLoop] { e1 = p.cumulativeVertices[nextLoop-1] } return Edge{p.vertices[e], p.vertices[e1]} } -/
def Edge (s : LaxPolygonS) (e : Int) : Option (EdgeL) := do
  let e1 : Int := (e + 1)
  if s.numLoops = 1 then
    (do let e1 : Int := if e1 = s.numVerts then 0 else e1
        let t1 ← vtx s.nv e
        let t2 ← vtx s.nv e1
        pure (t1, t2))
  else
    (do let nextLoop : Int := 0
        let nextLoop : Int ← whileInc (fun nextLoop => do let t103 ← s.cumAt nextLoop; pure (decide (t103 ≤ e))) s.fuel nextLoop
        let t3 ← s.cumAt nextLoop
        let e1 : Int ← if e1 = t3 then (do let t4 ← s.cumAt (nextLoop - 1); pure t4) else pure e1
        let t5 ← vtx s.nv e
        let t6 ← vtx s.nv e1
        pure (t5, t6))
/-- { return p.numLoops } -/
def NumChains (s : LaxPolygonS) : Int :=
  s.numLoops
/-- { if p.numLoops == 1 { return Chain{0, p.numVertices()} } start := p.cumulativeVertices[i] return Chain{start, p.cumulativeVertices[i+1] - start} } -/
def Chain (s : LaxPolygonS) (i : Int) : Option (Int × Int) := do
  if s.numLoops = 1 then
    (do let t1 ← LaxPolygon.numVertices s
        pure (0, t1))
  else
    (do let t2 ← s.cumAt i
        let start : Int := t2
        let t3 ← s.cumAt (i + 1)
        pure (start, (t3 - start)))
/-- { n := p.numLoopVertices(i) k := 0 if j+1 != n { k = j + 1 } if p.numLoops == 1 { return Edge{p.vertices[j], p.vertices[k]} } base := p.cumulativeVertices[i] return Edge{p.vertices[base+j], p.vertices[base+k]} } -/
def ChainEdge (s : LaxPolygonS) (i j : Int) : Option (EdgeL) := do
  let t1 ← LaxPolygon.numLoopVertices s i
  let n : Int := t1
  let k : Int := 0
  let k : Int := if (j + 1) ≠ n then (j + 1) else k
  if s.numLoops = 1 then
    (do let t2 ← vtx s.nv j
        let t3 ← vtx s.nv k
        pure (t2, t3))
  else
    (do let t4 ← s.cumAt i
        let base : Int := t4
        let t5 ← vtx s.nv (base + j)
        let t6 ← vtx s.nv (base + k)
        pure (t5, t6))
/-- { if p.numLoops == 1 { return ChainPosition{0, e} } nextLoop := 1 for p.cumulativeVertices[nextLoop] <= e { nextLoop++ } return ChainPosition{p.cumulativeVertices[nextLoop] - p.cumulativeVertices[1], e - p.cumulativeVertices[nextLoop-1]} } -/
def ChainPosition (s : LaxPolygonS) (e : Int) : Option (Int × Int) := do
  if s.numLoops = 1 then
    pure (0, e)
  else
    (do let nextLoop : Int := 1
        let nextLoop : Int ← whileInc (fun nextLoop => do let t101 ← s.cumAt nextLoop; pure (decide (t101 ≤ e))) s.fuel nextLoop
        let t1 ← s.cumAt nextLoop
        let t2 ← s.cumAt 1
        let t3 ← s.cumAt (nextLoop - 1)
        pure ((t1 - t2), (e - t3)))
end LaxPolygon

namespace Polygon
/-- { return len(p.loops) } -/
def NumLoops (s : PolygonS) : Int :=
  (s.loops.length : Int)
/-- { return p.numEdges } -/
def NumEdges (s : PolygonS) : Int :=
  s.numEdges
/-- { return p.NumLoops() } -/
def NumChains (s : PolygonS) : Int :=
  (Polygon.NumLoops s)
/-- { return Edge{p.Loop(i).OrientedVertex(j), p.Loop(i).OrientedVertex(j + 1)} } -/
def ChainEdge (s : PolygonS) (i j : Int) : Option ((Int × Int) × (Int × Int)) := do
  let t1 ← s.loopAt i
  let t2 ← Loop.OrientedVertex t1 j
  let t3 ← s.loopAt i
  let t4 ← Loop.OrientedVertex t3 (j + 1)
  pure ((i, t2), (i, t4))
end Polygon

namespace EdgeVector
/-- { return len(e.edges) } -/
def NumEdges (s : SeqS) : Int :=
  (s.n : Int)
/-- { return e.edges[id] } -/
def Edge (s : SeqS) (id : Int) : Option (EdgeL) := do
  let t1 ← edgeAt s.n id
  pure t1
/-- { return len(e.edges) } -/
def NumChains (s : SeqS) : Int :=
  (s.n : Int)
/-- { return Chain{chainID, 1} } -/
def Chain (s : SeqS) (chainID : Int) : Int × Int :=
  (chainID, 1)
/-- { return e.edges[chainID] } -/
def ChainEdge (s : SeqS) (chainID offset : Int) : Option (EdgeL) := do
  let t1 ← edgeAt s.n chainID
  pure t1
/-- { return ChainPosition{edgeID, 0} } -/
def ChainPosition (s : SeqS) (edgeID : Int) : Int × Int :=
  (edgeID, 0)
end EdgeVector

/-! ### Polygon: the accessors with search loops (hand model) -/
namespace Polygon

/-- `for i = 0; e >= len(p.Loop(i).vertices); i++ { e -= len(p.Loop(i).vertices) }`
    (the list is `p.loops[i:]`; `p.Loop(i)` panics past the end). -/
def linSearch : List LoopS → Int → Int → Option (Int × Int)
  | [], _, _ => none
  | l :: rest, i, e => if e ≥ (l.n : Int) then linSearch rest (i + 1) (e - (l.n : Int)) else some (i, e)

/-- `for i = range cum { if i+1 >= len(cum) || e < cum[i+1] { e -= cum[i]; break } }`
    (the list is `cum[i:]`; the last element always breaks, so the `[]` case is unreachable for a
    non-empty slice). -/
def cumSearch : List Int → Int → Int → Int × Int
  | [], i, e => (i, e)
  | [c], i, e => (i, e - c)
  | c :: c' :: rest, i, e => if e < c' then (i, e - c) else cumSearch (c' :: rest) (i + 1) e

/-- the common prefix of `Edge` and `ChainPosition`: `(i, e)` after the search. -/
def search (s : PolygonS) (e : Int) : Option (Int × Int) :=
  if s.cumLen > 0 then
    match s.cumulativeEdges with
    | some c => some (cumSearch c 0 e)
    | none => none
  else linSearch s.loops 0 e

/-- { var i int; <search>; return Edge{p.Loop(i).OrientedVertex(e), p.Loop(i).OrientedVertex(e + 1)} } -/
def Edge (s : PolygonS) (e : Int) : Option ((Int × Int) × (Int × Int)) := do
  let (i, e) ← search s e
  let t1 ← s.loopAt i
  let t2 ← Loop.OrientedVertex t1 e
  let t3 ← s.loopAt i
  let t4 ← Loop.OrientedVertex t3 (e + 1)
  pure ((i, t2), (i, t4))

/-- `e := 0; for j := 0; j < chainID; j++ { e += len(p.Loop(j).vertices) }` (list = `p.loops[j:]`). -/
def sumLens : List LoopS → Int → Int → Int → Option Int
  | [], j, chainID, e => if j < chainID then none else some e
  | l :: rest, j, chainID, e => if j < chainID then sumLens rest (j + 1) chainID (e + (l.n : Int)) else some e

/-- { if p.cumulativeEdges != nil { return Chain{p.cumulativeEdges[chainID], len(p.Loop(chainID).vertices)} }
      e := 0; for … ; if numVertices := p.Loop(chainID).NumVertices(); numVertices != 1 { return Chain{e, numVertices} }
      return Chain{e, 0} } -/
def Chain (s : PolygonS) (chainID : Int) : Option (Int × Int) :=
  match s.cumulativeEdges with
  | some c => do
    let t1 ← getI c chainID
    let t2 ← s.loopAt chainID
    pure (t1, (t2.n : Int))
  | none => do
    let e ← sumLens s.loops 0 chainID 0
    let t1 ← s.loopAt chainID
    let numVertices : Int := (t1.n : Int)
    if numVertices ≠ 1 then pure (e, numVertices) else pure (e, 0)

/-- { var i int; <search>; return ChainPosition{i, edgeID} } -/
def ChainPosition (s : PolygonS) (edgeID : Int) : Option (Int × Int) := do
  let (i, edgeID) ← search s edgeID
  pure (i, edgeID)

end Polygon

/-! ### Repaired accessors (fix_D11.diff, fix_D12.diff, fix_D13.diff) -/

/-- D11 repaired: { k := 0; if j+1 != l.numVertices { k = j + 1 }; return Edge{l.vertices[j], l.vertices[k]} } -/
def LaxLoop.ChainEdgeFixed (s : LaxLoopS) (i j : Int) : Option (EdgeL) := do
  let k : Int := 0
  let k : Int := if (j + 1) ≠ s.numVertices then (j + 1) else k
  let t1 ← vtx s.nv j
  let t2 ← vtx s.nv k
  pure (t1, t2)

/-- D12 repaired: { return Edge{(*p)[i], (*p)[i]} } -/
def PointVector.ChainEdgeFixed (s : SeqS) (i j : Int) : Option (EdgeL) := do
  let t1 ← vtx s.n i
  let t2 ← vtx s.n i
  pure (t1, t2)

/-- D13 repaired: … return ChainPosition{nextLoop - 1, e - p.cumulativeVertices[nextLoop-1]} -/
def LaxPolygon.ChainPositionFixed (s : LaxPolygonS) (e : Int) : Option (Int × Int) := do
  if s.numLoops = 1 then
    pure (0, e)
  else
    (do let nextLoop : Int := 1
        let nextLoop : Int ← whileInc (fun nextLoop => do let t101 ← s.cumAt nextLoop; pure (decide (t101 ≤ e))) s.fuel nextLoop
        let t1 ← s.cumAt (nextLoop - 1)
        pure ((nextLoop - 1), (e - t1)))

/-! ### The accessor record and the Shape contract -/

/-- the six accessors of one shape value; `V` = vertex label type -/
structure ShapeAcc (V : Type) where
  numEdges : Option Int
  numChains : Option Int
  edge : Int → Option (V × V)
  chain : Int → Option (Int × Int)
  chainEdge : Int → Int → Option (V × V)
  chainPosition : Int → Option (Int × Int)

def Loop.acc (s : LoopS) : ShapeAcc Int :=
  ⟨some (Loop.NumEdges s), some (Loop.NumChains s), Loop.Edge s, fun i => some (Loop.Chain s i),
   Loop.ChainEdge s, fun e => some (Loop.ChainPosition s e)⟩
def Polyline.acc (s : SeqS) : ShapeAcc Int :=
  ⟨some (Polyline.NumEdges s), some (Polyline.NumChains s), Polyline.Edge s, fun i => some (Polyline.Chain s i),
   Polyline.ChainEdge s, fun e => some (Polyline.ChainPosition s e)⟩
def LaxPolyline.acc (s : SeqS) : ShapeAcc Int :=
  ⟨some (LaxPolyline.NumEdges s), some (LaxPolyline.NumChains s), LaxPolyline.Edge s, fun i => some (LaxPolyline.Chain s i),
   LaxPolyline.ChainEdge s, fun e => some (LaxPolyline.ChainPosition s e)⟩
def PointVector.accWith (ce : SeqS → Int → Int → Option EdgeL) (s : SeqS) : ShapeAcc Int :=
  ⟨some (PointVector.NumEdges s), some (PointVector.NumChains s), PointVector.Edge s, fun i => some (PointVector.Chain s i),
   ce s, fun e => some (PointVector.ChainPosition s e)⟩
def PointVector.acc := PointVector.accWith PointVector.ChainEdge
def PointVector.accFixed := PointVector.accWith PointVector.ChainEdgeFixed
def LaxLoop.accWith (ce : LaxLoopS → Int → Int → Option EdgeL) (s : LaxLoopS) : ShapeAcc Int :=
  ⟨some (LaxLoop.NumEdges s), some (LaxLoop.NumChains s), LaxLoop.Edge s, fun i => some (LaxLoop.Chain s i),
   ce s, fun e => some (LaxLoop.ChainPosition s e)⟩
def LaxLoop.acc := LaxLoop.accWith LaxLoop.ChainEdge
def LaxLoop.accFixed := LaxLoop.accWith LaxLoop.ChainEdgeFixed
def LaxPolygon.accWith (cp : LaxPolygonS → Int → Option (Int × Int)) (s : LaxPolygonS) : ShapeAcc Int :=
  ⟨LaxPolygon.NumEdges s, some (LaxPolygon.NumChains s), LaxPolygon.Edge s, LaxPolygon.Chain s,
   LaxPolygon.ChainEdge s, cp s⟩
def LaxPolygon.acc := LaxPolygon.accWith LaxPolygon.ChainPosition
def LaxPolygon.accFixed := LaxPolygon.accWith LaxPolygon.ChainPositionFixed
def Polygon.acc (s : PolygonS) : ShapeAcc (Int × Int) :=
  ⟨some (Polygon.NumEdges s), some (Polygon.NumChains s), Polygon.Edge s, Polygon.Chain s,
   Polygon.ChainEdge s, Polygon.ChainPosition s⟩
def EdgeVector.acc (s : SeqS) : ShapeAcc Int :=
  ⟨some (EdgeVector.NumEdges s), some (EdgeVector.NumChains s), EdgeVector.Edge s, fun i => some (EdgeVector.Chain s i),
   EdgeVector.ChainEdge s, fun e => some (EdgeVector.ChainPosition s e)⟩

/-- The Shape contract (s2/shape.go, interface comment) for a shape with `ne` edges and `nc`
    chains.  Clause names: (i) `pos_edge`, (ii) `chain_inv`, (iii) `tile_*`, (iv) the `∃ … = some …`
    in every clause (no accessor panics on in-range arguments). -/
structure Contract {V : Type} (A : ShapeAcc V) (ne nc : Int) : Prop where
  numEdges_eq : A.numEdges = some ne
  numChains_eq : A.numChains = some nc
  ne_nonneg : 0 ≤ ne
  nc_nonneg : 0 ≤ nc
  /-- (i) `ChainPosition(e)` is an in-range (chain, offset) with `Chain(c).Start + o = e`, and
      `ChainEdge(c, o) = Edge(e)`; nothing panics. -/
  pos_edge : ∀ e, 0 ≤ e → e < ne → ∃ c o st len ed,
      A.chainPosition e = some (c, o) ∧ 0 ≤ c ∧ c < nc ∧ A.chain c = some (st, len) ∧
      st + o = e ∧ 0 ≤ o ∧ o < len ∧ A.edge e = some ed ∧ A.chainEdge c o = some ed
  /-- (ii) chain positions invert chain lookup and both enumerations give the same edge. -/
  chain_inv : ∀ i, 0 ≤ i → i < nc → ∃ st len, A.chain i = some (st, len) ∧ 0 ≤ len ∧
      ∀ j, 0 ≤ j → j < len → ∃ ed, A.chainPosition (st + j) = some (i, j) ∧
        A.edge (st + j) = some ed ∧ A.chainEdge i j = some ed
  /-- (iii) the chains tile `[0, ne)` in order. -/
  tile_first : ∀ st len, 0 < nc → A.chain 0 = some (st, len) → st = 0
  tile_step : ∀ i st len st' len', 0 ≤ i → i + 1 < nc → A.chain i = some (st, len) →
      A.chain (i + 1) = some (st', len') → st + len = st'
  tile_last : ∀ st len, 0 < nc → A.chain (nc - 1) = some (st, len) → st + len = ne
  tile_empty : nc = 0 → ne = 0

/-! ### Executable contract check on a finite table of implementation outputs (oracle) -/

/-- first violated clause of the contract on the range `[0,ne) × [0,nc)`, `none` = holds.
    `eq` compares edges. -/
def checkContract {V : Type} [BEq V] (A : ShapeAcc V) (ne nc : Int) : Option String :=
  if A.numEdges != some ne then some "numEdges" else
  if A.numChains != some nc then some "numChains" else
  if ne < 0 || nc < 0 then some "negative-count" else
  let es := (List.range ne.toNat).map (fun (k : Nat) => (k : Int))
  let cs := (List.range nc.toNat).map (fun (k : Nat) => (k : Int))
  let c1 := es.findSome? fun e =>
    match A.chainPosition e, A.edge e with
    | some (c, o), some ed =>
      if !(0 ≤ c && c < nc) then some s!"(i)chainPosition-chain-out-of-range:e={e}" else
      match A.chain c with
      | some (st, len) =>
        if st + o != e then some s!"(i)chain-start+offset≠e:e={e}" else
        if !(0 ≤ o && o < len) then some s!"(i)offset-out-of-range:e={e}" else
        if A.chainEdge c o != some ed then some s!"(i)chainEdge(chainPosition-e)≠edge-e:e={e}" else none
      | none => some s!"(iv)chain-panics:c={c}"
    | none, _ => some s!"(iv)chainPosition-panics:e={e}"
    | _, none => some s!"(iv)edge-panics:e={e}"
  match c1 with
  | some m => some m
  | none =>
  let c2 := cs.findSome? fun i =>
    match A.chain i with
    | none => some s!"(iv)chain-panics:i={i}"
    | some (st, len) =>
      if len < 0 then some s!"(iii)negative-length:i={i}" else
      ((List.range len.toNat).map (fun (k : Nat) => (k : Int))).findSome? fun j =>
        match A.chainEdge i j with
        | none => some s!"(iv)chainEdge-panics:i={i},j={j}"
        | some ed =>
          if A.chainPosition (st + j) != some (i, j) then some s!"(ii)chainPosition(start+j)≠(i,j):i={i},j={j}" else
          if A.edge (st + j) != some ed then some s!"(ii)edge(start+j)≠chainEdge(i,j):i={i},j={j}" else none
  match c2 with
  | some m => some m
  | none =>
  if nc == 0 then (if ne == 0 then none else some "(iii)no-chains-but-edges") else
  let starts := cs.map fun i => A.chain i
  let rec tile (l : List (Option (Int × Int))) (expect : Int) : Option String :=
    match l with
    | [] => if expect == ne then none else some "(iii)last-chain-end≠numEdges"
    | none :: _ => some "(iv)chain-panics"
    | some (st, len) :: rest => if st != expect then some s!"(iii)chain-start≠prefix-sum:expected={expect},got={st}" else tile rest (st + len)
  tile starts 0

end Shapes
end S2
