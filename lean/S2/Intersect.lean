/-
  S2.Intersect — executable model of s2/s2intersect/s2intersect.go (`Find`).

  Pipeline of the Go code, function by function:
    cellUnionsToOverlaps = Normalize each union, `cellUnionToIntervalLimits`, `collapseLimits`,
                           `intervalOverlaps`
    overlapsToIntersections = group overlaps by their index set, tile each `[start, end]` with
                           `CellUnionFromRange(start, end.Next())`, Normalize.

  Two places of the Go code are order-nondeterministic, both unobservable in the result *set*:
  * `collapseLimits` sorts with the unstable `sort.Slice` and a comparator that only orders by
    (leaf, start-before-end); limits with equal (leaf, typ) are merged and their index lists sorted
    (the index list of the very last limit is left unsorted by Go; it is an `end` limit, only used
    to delete from the `open` set).  The model sorts stably and sorts every index list.
  * `overlapsToIntersections` ranges over a Go map; "the ordering of the output is undefined".
    The model (and the harness, on the implementation's output) orders the result by index list.

  Contract: every cell id of every union is valid.  Core-only.
-/
import S2.CellUnion
namespace S2
namespace Intersect
open CellID CellUnion

/-- `limit`; `typ = false` is `start`, `typ = true` is `end` (inclusive) -/
structure Limit where
  leaf : CellID
  typ : Bool
  indices : List Nat
deriving Repr, BEq, DecidableEq, Inhabited

/-- `overlap` -/
structure Overlap where
  indices : List Nat
  start : CellID
  «end» : CellID
deriving Repr, BEq, DecidableEq, Inhabited

/-- `Intersection` -/
structure Intersection where
  indices : List Nat
  cells : CU
deriving Repr, BEq, DecidableEq, Inhabited

/-- `cellUnionToIntervalLimits`; the loop state is `(lims reversed, lastend)` -/
def cellUnionToIntervalLimits (cu : CU) (idx : Nat) : List Limit :=
  if cu.isEmpty then [] else
  let st := cu.foldl (fun (st : List Limit × CellID) cID =>
      let (lims, lastend) := st
      let startLeaf := rangeMin cID
      let lims :=
        if lastend == 0 then ({ leaf := startLeaf, typ := false, indices := [idx] } : Limit) :: lims
        else if next lastend != startLeaf then
          { leaf := startLeaf, typ := false, indices := [idx] } ::
          { leaf := lastend, typ := true, indices := [idx] } :: lims
        else lims
      (lims, rangeMax cID)) (([] : List Limit), (0 : CellID))
  (({ leaf := st.2, typ := true, indices := [idx] } : Limit) :: st.1).reverse

def insertNat (x : Nat) : List Nat → List Nat
  | [] => [x]
  | y :: ys => if x ≤ y then x :: y :: ys else y :: insertNat x ys

/-- `sort.Ints` -/
def sortNats (l : List Nat) : List Nat := l.foldr insertNat []

/-- key order of `collapseLimits`: by leaf, start before end -/
def limitLE (a b : Limit) : Bool :=
  a.leaf < b.leaf || (a.leaf == b.leaf && (!a.typ || b.typ))

/-- the merging loop of `collapseLimits` on the sorted list -/
def collapseSorted : List Limit → List Limit
  | [] => []
  | l :: rest => go l rest
where
  go (last : Limit) : List Limit → List Limit
    | [] => [{ last with indices := sortNats last.indices }]
    | l :: rest =>
      if l.leaf == last.leaf && l.typ == last.typ then
        go { last with indices := last.indices ++ l.indices } rest
      else { last with indices := sortNats last.indices } :: go l rest

def collapseLimits (lims : List Limit) : List Limit :=
  collapseSorted (lims.mergeSort limitLE)

/-- the set `open` as a sorted duplicate-free list -/
def setInsert (x : Nat) : List Nat → List Nat
  | [] => [x]
  | y :: ys => if x < y then x :: y :: ys else if x == y then y :: ys else y :: setInsert x ys

/-- `intervalOverlaps`; state `(open, lastStart, overlaps reversed)` -/
def intervalOverlaps (lims : List Limit) : List Overlap :=
  (lims.foldl (fun (st : List Nat × CellID × List Overlap) l =>
      let (opn, lastStart, overlaps) := st
      let overlaps :=
        if opn.length > 1 then
          let endLeaf := if !l.typ then prev l.leaf else l.leaf
          { indices := opn, start := lastStart, «end» := endLeaf } :: overlaps
        else overlaps
      let opn :=
        if !l.typ then l.indices.foldl (fun o i => setInsert i o) opn
        else opn.filter (fun i => !l.indices.contains i)
      let lastStart :=
        if opn.length > 1 then (if l.typ then next l.leaf else l.leaf) else lastStart
      (opn, lastStart, overlaps)) (([] : List Nat), (0 : CellID), ([] : List Overlap))).2.2.reverse

def cellUnionsToOverlaps (cus : List CU) : List Overlap :=
  let lims := (cus.zipIdx.map fun (cu, i) => cellUnionToIntervalLimits (normalize cu) i).flatten
  if lims.isEmpty then [] else intervalOverlaps (collapseLimits lims)

/-- add the tiles of one overlap to the entry with the same index list (first-appearance order) -/
def addOverlap (o : Overlap) : List Intersection → List Intersection
  | [] => [{ indices := o.indices, cells := fromRange o.start (next o.«end») }]
  | i :: rest =>
    if i.indices == o.indices then { i with cells := i.cells ++ fromRange o.start (next o.«end») } :: rest
    else i :: addOverlap o rest

def lexLE : List Nat → List Nat → Bool
  | [], _ => true
  | _ :: _, [] => false
  | a :: as, b :: bs => a < b || (a == b && lexLE as bs)

def overlapsToIntersections (overlaps : List Overlap) : List Intersection :=
  let set := overlaps.foldl (fun s o => addOverlap o s) []
  (set.map fun i => { i with cells := normalize i.cells }).mergeSort (fun a b => lexLE a.indices b.indices)

/-- `Find`, result ordered by index list -/
def find (cus : List CU) : List Intersection :=
  overlapsToIntersections (cellUnionsToOverlaps cus)

/-! ### Specification in leaf-set semantics -/

/-- the set of indices of the unions that cover position `x` -/
def coveringAt (cus : List CU) (x : Nat) : List Nat :=
  (cus.zipIdx.filter fun (cu, _) => coversLeaf cu x).map (·.2)

end Intersect
end S2
