/-
  S2.Bounds — model of the COMPOSITION logic of the bounding objects of golang/geo (property C10).

  What is modelled line by line (s2/rect_bounder.go, s2/loop.go, s2/polygon.go, s2/convex_hull_query.go):

  * `RectBounder`: the fold over the vertex chain.  The numeric heart of `AddPoint` (cross product,
    atan2 / asin latitude extremum, padding constants) uses libm and is kept ABSTRACT as
    `EdgeBounder.edge a b : Option (LLRect α)`:   `none`  = the "nearly antipodal" branch that ASSIGNS
    `FullRect()`,  `some r` = the rectangle that is united into the running bound (the nearly-identical
    branch `RectFromLatLng(aLL).AddPoint(bLL)` or the general `Rect{latAB, lngAB}`).  The first-vertex
    branch, the union accumulation, and the final `expanded(2ε, 0).PolarClosure()` are concrete
    (`S2.LLRect` of `S2.Interval`, generic over the number carrier, bit-exact on `S2.F64`).
  * `Loop.initBound` (special empty / full loops, vertex 0 added twice, north / south pole logic),
    `Loop.Invert`'s bound handling, `Polygon.initOneLoop` / `initLoopProperties` (union of the
    bounds of the loops that are not holes).
  * `ExpandForSubregions`: branch structure generic (`SubOps`: the numeric "may contain nearly
    antipodal points" test, the `lngGap <= 0` test and the latitude expansion are parameters); the
    concrete float formulas (no libm is involved) are given bit-exactly for `F64` (`subOpsF64`).
  * `ConvexHullQuery.ConvexHull` / `monotoneChain` over an abstract orientation predicate
    `sgn : P → P → P → Int` (`RobustSign`: +1 = CounterClockwise) incl. duplicate removal, the sort
    around `origin`, and the 0 / 1 / 2 point cases.  `singlePointLoop` / `singleEdgeLoop` stay
    symbolic (`Hull.single`, `Hull.edge`): the latter needs `Interpolate` (libm).
-/
import S2.Interval
namespace S2.Bounds
open S2 S2.IvlOps

/-! ## RectBounder -/

section rect
variable {α : Type} [LE α] [LT α] [DecidableLE α] [DecidableLT α] [Max α] [Min α] [IvlOps α]
variable {P : Type}

/-- The abstract per-edge part of `RectBounder.AddPoint`. -/
structure EdgeBounder (P α : Type) where
  /-- `LatLngFromPoint` (the COMPUTED latitude / longitude) -/
  ll : P → LatLng α
  /-- what `AddPoint(b)` does with the edge from the previous vertex `a` when the bound is not empty:
      `none` = `r.bound = FullRect()` (nearly antipodal), `some r` = `r.bound = r.bound.Union(r)` -/
  edge : P → P → Option (LLRect α)
  /-- `2 * dblEpsilon` (package s2), the latitude padding of `RectBound()` -/
  pad : α

/-- `RectBounder` state: previous vertex and running bound (`aLL` is always `ll a`). -/
structure RB (P α : Type) where
  a : P
  bound : LLRect α

/-- `NewRectBounder()` (the zero `Point` is never read while the bound is empty) -/
def RB.init [Inhabited P] : RB P α := ⟨default, LLRect.empty⟩

/-- `RectBounder.AddPoint(b)` -/
def RB.addPoint (E : EdgeBounder P α) (st : RB P α) (b : P) : RB P α :=
  if st.bound.isEmpty then ⟨b, st.bound.addPoint (E.ll b)⟩
  else match E.edge st.a b with
    | none => ⟨b, LLRect.full⟩
    | some r => ⟨b, st.bound.union r⟩

/-- `RectBounder.RectBound()` : `bound.expanded(LatLng{2ε, 0}).PolarClosure()` -/
def RB.rectBound (E : EdgeBounder P α) (st : RB P α) : LLRect α :=
  (st.bound.expanded ⟨E.pad, zero⟩).polarClosure

/-- the bounder run over a vertex chain -/
def runChain [Inhabited P] (E : EdgeBounder P α) (vs : List P) : RB P α :=
  vs.foldl (RB.addPoint E) RB.init

/-- `Polyline.RectBound()` : bound of the open chain `vs` -/
def chainBound [Inhabited P] (E : EdgeBounder P α) (vs : List P) : LLRect α :=
  (runChain E vs).rectBound E

/-! ## Loop.initBound / Invert / polygon -/

/-- which `Loop` : the one-vertex empty / full loops are special -/
inductive LoopKind where
  | empty | full | normal
deriving DecidableEq, Repr, Inhabited

/-- the pole part of `initBound`: `b` is the `RectBounder` result, `cN` / `cS` the answers of
    `l.ContainsPoint(north)` / `l.ContainsPoint(south)` (the latter is only consulted when the
    longitude is full). -/
def poleAdjust (b : LLRect α) (cN cS : Bool) : LLRect α :=
  let b := if cN then (⟨⟨b.lat.lo, halfPi⟩, S1.full⟩ : LLRect α) else b
  if b.lng.isFull && cS then ⟨⟨negHalfPi, b.lat.hi⟩, b.lng⟩ else b

/-- closed chain fed to the bounder: `for i := 0; i <= len(l.vertices); i++` (vertex 0 twice) -/
def closeChain (vs : List P) : List P := vs ++ vs.take 1

/-- `Loop.initBound` : the value of `l.bound` -/
def loopBound [Inhabited P] (E : EdgeBounder P α) (k : LoopKind) (vs : List P) (cN cS : Bool) : LLRect α :=
  match k with
  | .empty => LLRect.empty
  | .full => LLRect.full
  | .normal => poleAdjust (chainBound E (closeChain vs)) cN cS

def LoopKind.invert : LoopKind → LoopKind
  | .empty => .full
  | .full => .empty
  | .normal => .normal

/-- the bound part of `Loop.Invert()`: `bound` is the bound before the call, `vs` the vertices before
    the call (they are reversed), `cN` / `cS` the pole answers of the INVERTED loop. -/
def invertBound [Inhabited P] (E : EdgeBounder P α) (k : LoopKind) (vs : List P) (bound : LLRect α)
    (cN cS : Bool) : LLRect α :=
  if (negHalfPi : α) < bound.lat.lo ∧ bound.lat.hi < (halfPi : α) then LLRect.full
  else loopBound E k.invert vs.reverse cN cS

/-- `Polygon.initOneLoop` / `initLoopProperties`: loops as (IsHole, RectBound) in polygon order -/
def polygonBound (loops : List (Bool × LLRect α)) : LLRect α :=
  match loops with
  | [(_, b)] => b
  | _ => loops.foldl (fun acc l => if l.1 then acc else acc.union l.2) LLRect.empty

/-! ## ExpandForSubregions -/

/-- the numeric ingredients of `ExpandForSubregions` -/
structure SubOps (α : Type) where
  /-- the three-way test ending in `return FullRect()` (bound may contain nearly antipodal points) -/
  nearlyAntipodal : LLRect α → Bool
  /-- `lngGap <= 0` -/
  lngGapNonpos : LLRect α → Bool
  /-- `9 * dblEpsilon` -/
  latExpansion : α

/-- `ExpandForSubregions(bound)` -/
def expandForSubregions (O : SubOps α) (b : LLRect α) : LLRect α :=
  if b.isEmpty then b
  else if O.nearlyAntipodal b then LLRect.full
  else (b.expanded ⟨O.latExpansion, if O.lngGapNonpos b then pi else zero⟩).polarClosure

end rect

/-! ## ExpandForSubregions on float64 (bit-exact; no libm involved) -/

namespace SubF64
open S2.IvlF64

def cTwoHalfEps : F64 := ⟨0x3cc4000000000000⟩   -- 2.5 * dblEpsilon
def cNineEps : F64 := ⟨0x3ce2000000000000⟩      -- 9 * dblEpsilon
def cTwoEps : F64 := ⟨0x3cc0000000000000⟩       -- 2 * dblEpsilon
def c1354 : F64 := ⟨0x3cd864390df0867a⟩         -- 1.354e-15
def c1687 : F64 := ⟨0x3cde63ea106c26fc⟩         -- 1.687e-15
def c1765 : F64 := ⟨0x3cdfcba035e7ab24⟩         -- 1.765e-15
def fHalfPi : F64 := ⟨0x3ff921fb54442d18⟩
def fZero : F64 := F64.zero false

/-- `lngGap := math.Max(0, math.Pi-bound.Lng.Length()-2.5*dblEpsilon)` -/
def lngGap (b : LLRect F64) : F64 := F64.fmax fZero (f64Pi - b.lng.length - cTwoHalfEps)

def nearlyAntipodal (b : LLRect F64) : Bool :=
  let lngGap := lngGap b
  let minAbsLat := F64.fmax b.lat.lo (-b.lat.hi)
  let latGapSouth := fHalfPi + b.lat.lo
  let latGapNorth := fHalfPi - b.lat.hi
  if F64.ge minAbsLat fZero then F64.lt (F64.two * minAbsLat + lngGap) c1354
  else if F64.ge lngGap fHalfPi then F64.lt (latGapSouth + latGapNorth) c1687
  else F64.lt (F64.fmax latGapSouth latGapNorth * lngGap) c1765

def subOpsF64 : SubOps F64 := ⟨nearlyAntipodal, fun b => F64.le (lngGap b) fZero, cNineEps⟩

/-- `ExpandForSubregions` on float64 -/
def expandForSubregionsF64 (b : LLRect F64) : LLRect F64 := expandForSubregions subOpsF64 b

/-- `RectBounder.RectBound()` applied to a running bound -/
def rectBoundF64 (b : LLRect F64) : LLRect F64 := (b.expanded ⟨cTwoEps, fZero⟩).polarClosure

end SubF64

/-! ## ConvexHullQuery -/

section hull
variable {P : Type} (sgn : P → P → P → Int)

/-- the inner `for len(output) >= 2 && RobustSign(output[len-2], output[len-1], p) != CounterClockwise`
    loop; the stack is kept REVERSED (head = last element of `output`) -/
def chainPop : List P → P → List P
  | b :: a :: rest, p => if sgn a b p != 1 then chainPop (a :: rest) p else b :: a :: rest
  | st, _ => st

/-- one iteration of the outer loop: pop, then `output = append(output, p)` -/
def chainPush (st : List P) (p : P) : List P := p :: chainPop sgn st p

/-- `monotoneChain()` over `q.points = pts` -/
def monotoneChain (pts : List P) : List P := (pts.foldl (chainPush sgn) []).reverse

/-- the duplicate removal of `ConvexHull` (`map[Point]bool`: first occurrences, in order) -/
def dedupBy (eq : P → P → Bool) (pts : List P) : List P :=
  (pts.foldl (fun acc p => if acc.any (eq p) then acc else p :: acc) []).reverse

/-- the comparator of the `sort.Slice` call -/
def lessAround (origin a b : P) : Bool := sgn origin a b == 1

/-- the sort around `origin`.  `sort.Slice` is not stable; when `lessAround` is a strict total order on
    the points the sorted sequence is unique, which is what the correspondence check relies on. -/
def sortAround (origin : P) (pts : List P) : List P :=
  pts.mergeSort fun a b => !lessAround sgn origin b a

/-- result of `ConvexHull()` -/
inductive Hull (P : Type) where
  | full | empty
  | single (p : P)
  | edge (a b : P)
  | loop (vs : List P)
deriving Repr

/-- the part of `ConvexHull` after the sort -/
def convexHullSorted (pts : List P) : Hull P :=
  match pts with
  | [] => .empty
  | [p] => .single p
  | [a, b] => .edge a b
  | _ => .loop ((monotoneChain sgn pts).dropLast ++ (monotoneChain sgn pts.reverse).dropLast)

/-- `ConvexHull()`: `capNotConvex` = `c.Height() >= 1`, `origin` = `c.Center().Ortho()` -/
def convexHull (eq : P → P → Bool) (capNotConvex : Bool) (origin : P) (pts : List P) : Hull P :=
  if capNotConvex then .full
  else convexHullSorted sgn (sortAround sgn origin (dedupBy eq pts))

end hull

end S2.Bounds
