/-
  S2.Hilbert — the (face,i,j) <-> Hilbert position conversion of s2/cellid.go:
  `initLookupCell`, `lookupPos`, `lookupIJ`, `cellIDFromFaceIJ`, `faceIJOrientation`,
  `faceSiTi` / `centerFaceSiTi`.
-/
import S2.CellID
namespace S2
namespace Hilbert
open CellID

def lookupBits : Nat := 4
def swapMask : Nat := 1
def invertMask : Nat := 2

def posToIJ : Array (Array Nat) := #[#[0, 1, 3, 2], #[0, 2, 3, 1], #[3, 2, 0, 1], #[3, 1, 0, 2]]
def ijToPos : Array (Array Nat) := #[#[0, 1, 3, 2], #[0, 3, 1, 2], #[2, 3, 1, 0], #[2, 1, 3, 0]]
def posToOrientation : Array Nat := #[1, 0, 0, 3]

/-- The two tables as (lookupPos, lookupIJ). -/
abbrev Tables := Array Nat × Array Nat

def initLookupCell : Nat → Nat → Nat → Nat → Nat → Nat → Nat → Tables → Tables
  | 0, _, i, j, origOrientation, pos, orientation, (lp, lij) =>
      let ij := (i <<< lookupBits) + j
      (lp.setIfInBounds ((ij <<< 2) + origOrientation) ((pos <<< 2) + orientation),
       lij.setIfInBounds ((pos <<< 2) + origOrientation) ((ij <<< 2) + orientation))
  | fuel+1, level, i, j, origOrientation, pos, orientation, t =>
      if level == lookupBits then
        initLookupCell 0 level i j origOrientation pos orientation t
      else
        let level := level + 1
        let i := i <<< 1
        let j := j <<< 1
        let pos := pos <<< 2
        let r := posToIJ[orientation]!
        let t := initLookupCell fuel level (i + (r[0]! >>> 1)) (j + (r[0]! &&& 1)) origOrientation pos (orientation ^^^ posToOrientation[0]!) t
        let t := initLookupCell fuel level (i + (r[1]! >>> 1)) (j + (r[1]! &&& 1)) origOrientation (pos+1) (orientation ^^^ posToOrientation[1]!) t
        let t := initLookupCell fuel level (i + (r[2]! >>> 1)) (j + (r[2]! &&& 1)) origOrientation (pos+2) (orientation ^^^ posToOrientation[2]!) t
        initLookupCell fuel level (i + (r[3]! >>> 1)) (j + (r[3]! &&& 1)) origOrientation (pos+3) (orientation ^^^ posToOrientation[3]!) t

def tables : Tables :=
  let t : Tables := (Array.replicate 1024 0, Array.replicate 1024 0)
  let t := initLookupCell 5 0 0 0 0 0 0 t
  let t := initLookupCell 5 0 0 0 swapMask 0 swapMask t
  let t := initLookupCell 5 0 0 0 invertMask 0 invertMask t
  initLookupCell 5 0 0 0 (swapMask ||| invertMask) 0 (swapMask ||| invertMask) t

def lookupPos : Array Nat := tables.1
def lookupIJ : Array Nat := tables.2

/-- `cellIDFromFaceIJ(f,i,j)`; i and j are in `[0, 2^30)`. -/
def cellIDFromFaceIJ (f i j : Nat) : CellID :=
  let n0 : UInt64 := UInt64.ofNat f <<< 60
  let step := fun (st : UInt64 × Nat) (k : Nat) =>
    let (n, bits) := st
    let mask := (1 <<< lookupBits) - 1
    let bits := bits + (((i >>> (k * lookupBits)) &&& mask) <<< (lookupBits + 2))
    let bits := bits + (((j >>> (k * lookupBits)) &&& mask) <<< 2)
    let bits := lookupPos[bits]!
    let n := n ||| (UInt64.ofNat (bits >>> 2) <<< UInt64.ofNat (k * 2 * lookupBits))
    (n, bits &&& (swapMask ||| invertMask))
  let (n, _) := [7,6,5,4,3,2,1,0].foldl step (n0, f &&& swapMask)
  n * 2 + 1

/-- `faceIJOrientation` : (face, i, j, orientation). -/
def faceIJOrientation (ci : CellID) : Nat × Nat × Nat × Nat :=
  let f := face ci
  let step := fun (st : Nat × Nat × Nat) (k : Nat) =>
    let (i, j, orientation) := st
    let nbits := if k == 7 then maxLevel - 7 * lookupBits else lookupBits
    let orientation := orientation +
      ((((ci >>> UInt64.ofNat (k * 2 * lookupBits + 1)).toNat) &&& ((1 <<< (2 * nbits)) - 1)) <<< 2)
    let orientation := lookupIJ[orientation]!
    let i := i + ((orientation >>> (lookupBits + 2)) <<< (k * lookupBits))
    let j := j + (((orientation >>> 2) &&& ((1 <<< lookupBits) - 1)) <<< (k * lookupBits))
    (i, j, orientation &&& (swapMask ||| invertMask))
  let (i, j, orientation) := [7,6,5,4,3,2,1,0].foldl step (0, 0, f &&& swapMask)
  let orientation := if lsb ci &&& 0x1111111111111110 != 0 then orientation ^^^ swapMask else orientation
  (f, i, j, orientation)

/-- `centerFaceSiTi` / `faceSiTi`. -/
def faceSiTi (ci : CellID) : Nat × Nat × Nat :=
  let (f, i, j, _) := faceIJOrientation ci
  let delta :=
    if isLeaf ci then 1
    else if ((i ^^^ (ci >>> 2).toNat) &&& 1) != 0 then 2 else 0
  (f, 2 * i + delta, 2 * j + delta)

def sizeIJ (level : Nat) : Nat := 1 <<< (maxLevel - level)

end Hilbert
end S2
