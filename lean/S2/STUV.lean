/-
  S2.STUV — soft-float model of r3.Vector and of s2/stuv.go, plus the float
  parts of s2/cellid.go (`cellIDFromPoint`, `cellIDFromFaceIJWrap`, neighbours).
-/
import S2.F64
import S2.CellID
import S2.Hilbert
namespace S2

structure V3 where
  x : F64
  y : F64
  z : F64
deriving BEq, DecidableEq, Inhabited, Hashable

namespace V3
def abs (v : V3) : V3 := ⟨v.x.abs, v.y.abs, v.z.abs⟩
def add (v o : V3) : V3 := ⟨v.x + o.x, v.y + o.y, v.z + o.z⟩
def sub (v o : V3) : V3 := ⟨v.x - o.x, v.y - o.y, v.z - o.z⟩
def mul (v : V3) (m : F64) : V3 := ⟨m * v.x, m * v.y, m * v.z⟩
def neg (v : V3) : V3 := ⟨-v.x, -v.y, -v.z⟩
def dot (v o : V3) : F64 := v.x * o.x + v.y * o.y + v.z * o.z
def cross (v o : V3) : V3 :=
  ⟨v.y * o.z - v.z * o.y, v.z * o.x - v.x * o.z, v.x * o.y - v.y * o.x⟩
def norm2 (v : V3) : F64 := v.dot v
def norm (v : V3) : F64 := F64.sqrt (v.dot v)
def normalize (v : V3) : V3 :=
  let n2 := v.norm2
  if F64.feq n2 (F64.zero false) then ⟨F64.zero false, F64.zero false, F64.zero false⟩
  else v.mul (F64.one / F64.sqrt n2)
/-- 0 = X, 1 = Y, 2 = Z -/
def largestComponent (v : V3) : Nat :=
  let t := v.abs
  if F64.gt t.x t.y then (if F64.gt t.x t.z then 0 else 2)
  else if F64.gt t.y t.z then 1 else 2
def smallestComponent (v : V3) : Nat :=
  let t := v.abs
  if F64.lt t.x t.y then (if F64.lt t.x t.z then 0 else 2)
  else if F64.lt t.y t.z then 1 else 2
/-- IEEE component-wise equality (Go `==` on the struct) -/
def feq (v o : V3) : Bool := F64.feq v.x o.x && F64.feq v.y o.y && F64.feq v.z o.z
def cmp (v o : V3) : Int :=
  if F64.lt v.x o.x then -1 else if F64.gt v.x o.x then 1
  else if F64.lt v.y o.y then -1 else if F64.gt v.y o.y then 1
  else if F64.lt v.z o.z then -1 else if F64.gt v.z o.z then 1 else 0
def ortho (v : V3) : V3 :=
  let z := F64.zero false
  let ov : V3 := match v.largestComponent with
    | 0 => ⟨z, z, F64.one⟩
    | 1 => ⟨F64.one, z, z⟩
    | _ => ⟨z, F64.one, z⟩
  (v.cross ov).normalize
end V3

namespace STUV
open CellID Hilbert

def maxSiTi : Nat := 2147483648  -- 1 << 31
def third : F64 := ⟨0x3FD5555555555555⟩  -- float64(1/3.)
def fMaxSize : F64 := F64.ofNat 1073741824
def fMaxSiTi : F64 := F64.ofNat 2147483648

def siTiToST (si : Nat) : F64 :=
  if si > maxSiTi then F64.one else F64.ofNat si / fMaxSiTi

/-- Go `uint32(f)` for an in-range non-negative float truncates. -/
def stToSiTi (s : F64) : Nat :=
  let v := if F64.lt s (F64.zero false) then (s * fMaxSiTi - F64.half) else (s * fMaxSiTi + F64.half)
  ((F64.toIntTrunc v) % 4294967296).toNat

def stToUV (s : F64) : F64 :=
  if F64.ge s F64.half then third * (F64.four * s * s - F64.one)
  else third * (F64.one - F64.four * (F64.one - s) * (F64.one - s))

def uvToST (u : F64) : F64 :=
  if F64.ge u (F64.zero false) then F64.half * F64.sqrt (F64.one + F64.three * u)
  else F64.one - F64.half * F64.sqrt (F64.one - F64.three * u)

def face (r : V3) : Nat :=
  let f := r.largestComponent
  let z := F64.zero false
  if f == 0 && F64.lt r.x z then 3
  else if f == 1 && F64.lt r.y z then 4
  else if f == 2 && F64.lt r.z z then 5
  else f

def ijToSTMin (i : Int) : F64 := F64.ofInt i / fMaxSize

def clampInt (x lo hi : Int) : Int := if x < lo then lo else if x > hi then hi else x

def stToIJ (s : F64) : Int :=
  clampInt (F64.toIntTrunc (F64.floor (fMaxSize * s))) 0 (1073741824 - 1)

def validFaceXYZToUV (face : Nat) (r : V3) : F64 × F64 :=
  match face with
  | 0 => (r.y / r.x, r.z / r.x)
  | 1 => (-r.x / r.y, r.z / r.y)
  | 2 => (-r.x / r.z, -r.y / r.z)
  | 3 => (r.z / r.x, r.y / r.x)
  | 4 => (r.z / r.y, -r.x / r.y)
  | _ => (-r.y / r.z, -r.x / r.z)

def xyzToFaceUV (r : V3) : Nat × F64 × F64 :=
  let f := face r
  let (u, v) := validFaceXYZToUV f r
  (f, u, v)

def faceUVToXYZ (face : Nat) (u v : F64) : V3 :=
  match face with
  | 0 => ⟨F64.one, u, v⟩
  | 1 => ⟨-u, F64.one, v⟩
  | 2 => ⟨-u, -v, F64.one⟩
  | 3 => ⟨-F64.one, -v, -u⟩
  | 4 => ⟨v, -F64.one, -u⟩
  | _ => ⟨v, u, -F64.one⟩

def faceSiTiToXYZ (face si ti : Nat) : V3 :=
  faceUVToXYZ face (stToUV (siTiToST si)) (stToUV (siTiToST ti))

def cellIDFromPoint (p : V3) : CellID :=
  let (f, u, v) := xyzToFaceUV p
  let i := stToIJ (uvToST u)
  let j := stToIJ (uvToST v)
  cellIDFromFaceIJ f i.toNat j.toNat

def cellIDFromFaceIJWrap (f : Nat) (i j : Int) : CellID :=
  let i := clampInt i (-1) 1073741824
  let j := clampInt j (-1) 1073741824
  let scale : F64 := ⟨0x3E10000000000000⟩  -- 1.0 / MaxSize = 2^-30
  let limit : F64 := ⟨0x3FF0000000000001⟩  -- math.Nextafter(1, 2)
  let u := F64.fmax (-limit) (F64.fmin limit (scale * F64.ofInt (2 * i + 1 - 1073741824)))
  let v := F64.fmax (-limit) (F64.fmin limit (scale * F64.ofInt (2 * j + 1 - 1073741824)))
  let (f, u, v) := xyzToFaceUV (faceUVToXYZ f u v)
  cellIDFromFaceIJ f (stToIJ (F64.half * (u + F64.one))).toNat (stToIJ (F64.half * (v + F64.one))).toNat

def cellIDFromFaceIJSame (f : Nat) (i j : Int) (same : Bool) : CellID :=
  if same then cellIDFromFaceIJ f i.toNat j.toNat else cellIDFromFaceIJWrap f i j

def edgeNeighbors (ci : CellID) : List CellID :=
  let lvl := level ci
  let size : Int := sizeIJ lvl
  let (f, i, j, _) := faceIJOrientation ci
  let i : Int := i
  let j : Int := j
  [parent (cellIDFromFaceIJWrap f i (j - size)) lvl,
   parent (cellIDFromFaceIJWrap f (i + size) j) lvl,
   parent (cellIDFromFaceIJWrap f i (j + size)) lvl,
   parent (cellIDFromFaceIJWrap f (i - size) j) lvl]

def vertexNeighbors (ci : CellID) (lvl : Nat) : List CellID :=
  let halfSize := sizeIJ (lvl + 1)
  let size : Int := halfSize <<< 1
  let (f, i, j, _) := faceIJOrientation ci
  let (ioffset, isame) : Int × Bool :=
    if i &&& halfSize != 0 then (size, decide ((i : Int) + size < 1073741824)) else (-size, decide ((i : Int) - size ≥ 0))
  let (joffset, jsame) : Int × Bool :=
    if j &&& halfSize != 0 then (size, decide ((j : Int) + size < 1073741824)) else (-size, decide ((j : Int) - size ≥ 0))
  let i : Int := i
  let j : Int := j
  let r := [parent ci lvl,
            parent (cellIDFromFaceIJSame f (i + ioffset) j isame) lvl,
            parent (cellIDFromFaceIJSame f i (j + joffset) jsame) lvl]
  if isame || jsame then r ++ [parent (cellIDFromFaceIJSame f (i + ioffset) (j + joffset) (isame && jsame)) lvl]
  else r

def allNeighbors (ci : CellID) (lvl : Nat) : List CellID :=
  if lvl < level ci || lvl > maxLevel then [] else
  let (face, i, j, _) := faceIJOrientation ci
  let sizeN := sizeIJ (level ci)
  let size : Int := sizeN
  let i : Int := i - i % sizeN
  let j : Int := j - j % sizeN
  let nbrSize : Int := sizeIJ lvl
  let count := (sizeN / sizeIJ lvl) + 2   -- k = -nbrSize, 0, …, size
  ((List.range count).map fun (t : Nat) =>
    let k : Int := ((t : Nat) : Int) * nbrSize - nbrSize
    let (sameFace, tb) : Bool × List CellID :=
      if k < 0 then (decide (j + k ≥ 0), [])
      else if k ≥ size then (decide (j + k < 1073741824), [])
      else (true,
        [parent (cellIDFromFaceIJSame face (i + k) (j - nbrSize) (decide (j - size ≥ 0))) lvl,
         parent (cellIDFromFaceIJSame face (i + k) (j + size) (decide (j + size < 1073741824))) lvl])
    tb ++
      [parent (cellIDFromFaceIJSame face (i - nbrSize) (j + k) (sameFace && decide (i - size ≥ 0))) lvl,
       parent (cellIDFromFaceIJSame face (i + size) (j + k) (sameFace && decide (i + size < 1073741824))) lvl]).flatten

end STUV
end S2
