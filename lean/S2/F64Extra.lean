/-
  S2.F64Extra — additions to the soft-float needed by the interval model (C19):
  the IEEE-754 remainder (`math.Remainder`), which is exactly computable with integers.
-/
import S2.F64
namespace S2
namespace F64

/-- round-half-even integer quotient of `a / b` for `b > 0` -/
def roundDivHalfEven (a : Int) (b : Int) : Int :=
  let q := a / b          -- floor division (b > 0)
  let r := a - q * b      -- 0 ≤ r < b
  if 2 * r > b then q + 1
  else if 2 * r < b then q
  else if q % 2 == 0 then q else q + 1

/-- `math.Remainder(x, y)`: `x - n*y` with `n` the integer nearest to the exact quotient `x/y`
    (ties to even); the result is exact (always representable).  A zero result takes the sign of `x`. -/
def remainder (x y : F64) : F64 :=
  if x.isNaN || y.isNaN || x.isInf || y.isZero then nan
  else if y.isInf then x
  else if x.isZero then x
  else
    let e := min x.expo y.expo
    let X : Int := x.toIntAt e
    let Y : Int := (y.toIntAt e).natAbs
    let n := roundDivHalfEven X Y
    let r : Int := X - n * Y
    if r == 0 then zero x.signBit
    else roundDyadic (r < 0) r.natAbs e

end F64
end S2
