/-
  S2.CapM — model of s2.Cap (s2/cap.go) and of the part of s1.ChordAngle (s1/chordangle.go) it uses
  (property C19, caps).

  A cap is (centre, radius) with the radius an `s1.ChordAngle` = squared chord length.  As for the
  intervals the Cap methods are written GENERICALLY over a point type `P` and a number carrier `α`:
  the order part comes from core classes, everything else (`ChordAngleBetweenPoints`, negation of a
  point, `ChordAngle.Add/Sub/Expanded`, constants) is the class `CapOps`.

  * `S2.CapF64`: the bit-exact instance (`P = V3`, `α = F64`) with the ChordAngle arithmetic transcribed
    from chordangle.go (only `+ − × sqrt min max nextafter`); used by the oracle.
  * abstract carriers in `S2Proofs` (laws stated explicitly there).

  NOT modelled (need libm): `ChordAngleFromAngle` (sin), `ChordAngle.Angle` (asin), `Cap.Union`,
  `Cap.RectBound`, `Cap.Radius`, `CapFromCenterAngle`.  `Cap.Expanded(distance)` takes the already converted
  `ChordAngleFromAngle(distance)` as its argument (the harness passes Go's value).
-/
import S2.F64
import S2.STUV
namespace S2

/-- point-side operations of the cap code -/
class CapPt (P : Type) where
  /-- `Point{p.Mul(-1)}` -/
  neg : P → P
  /-- `p.IsUnit()` -/
  isUnit : P → Bool
  /-- Go `==` on points (component-wise float `==`) -/
  peq : P → P → Bool
  /-- `PointFromCoords(1, 0, 0)` -/
  centerPoint : P

/-- number-side operations of the cap code that are not plain order comparisons -/
class CapOps (P : outParam Type) (α : Type) where
  /-- `ChordAngleBetweenPoints(x, y)` = `min(4, |x − y|²)` -/
  dist : P → P → α
  /-- float `==` -/
  feq : α → α → Bool
  /-- `ChordAngle.Add` -/
  cadd : α → α → α
  /-- `ChordAngle.Sub` -/
  csub : α → α → α
  /-- `ChordAngle.Expanded(e)` -/
  cexp : α → α → α
  /-- the rounding allowance of `Cap.AddCap` (repair of finding "AddCap slack"): `1.5 * maxErr` computed from
      `centerDist`, `other.radius` and `dist = centerDist.Add(other.radius)` (see s2/cap.go) -/
  addCapSlack : α → α → α → α
  /-- `0.5 * c` -/
  half : α → α
  zero : α
  /-- `StraightChordAngle` = 4 -/
  four : α
  /-- `NegativeChordAngle` = -1 -/
  negOne : α

open CapOps CapPt

structure CapM (P : Type) (α : Type) where
  center : P
  radius : α
deriving Repr, BEq, DecidableEq, Inhabited

section
variable {P α : Type} [LE α] [LT α] [DecidableLE α] [DecidableLT α] [CapPt P] [CapOps P α]

namespace CapM

def fromPoint (p : P) : CapM P α := ⟨p, zero⟩
def empty : CapM P α := ⟨centerPoint, negOne⟩
def full : CapM P α := ⟨centerPoint, four⟩
def isValid (c : CapM P α) : Bool := isUnit c.center && decide (c.radius ≤ (four : α))
def isEmpty (c : CapM P α) : Bool := decide (c.radius < (zero : α))
def isFull (c : CapM P α) : Bool := feq c.radius (four : α)
def height (c : CapM P α) : α := half c.radius

def contains (c o : CapM P α) : Bool :=
  if c.isFull || o.isEmpty then true
  else decide (cadd (dist c.center o.center) o.radius ≤ c.radius)

def intersects (c o : CapM P α) : Bool :=
  if c.isEmpty || o.isEmpty then false
  else decide (dist c.center o.center ≤ cadd c.radius o.radius)

def interiorIntersects (c o : CapM P α) : Bool :=
  if decide (c.radius ≤ (zero : α)) || o.isEmpty then false
  else decide (dist c.center o.center < cadd c.radius o.radius)

def containsPoint (c : CapM P α) (p : P) : Bool := decide (dist c.center p ≤ c.radius)

def interiorContainsPoint (c : CapM P α) (p : P) : Bool :=
  c.isFull || decide (dist c.center p < c.radius)

def complement (c : CapM P α) : CapM P α :=
  if c.isFull then empty
  else if c.isEmpty then full
  else ⟨neg c.center, csub (four : α) c.radius⟩

def equal (c o : CapM P α) : Bool :=
  (feq c.radius o.radius && peq c.center o.center) || (c.isEmpty && o.isEmpty) || (c.isFull && o.isFull)

def addPoint (c : CapM P α) (p : P) : CapM P α :=
  if c.isEmpty then ⟨p, zero⟩
  else
    let newRad : α := dist c.center p
    if c.radius < newRad then ⟨c.center, newRad⟩ else c

def addCap (c o : CapM P α) : CapM P α :=
  if c.isEmpty then o
  else if o.isEmpty then c
  else
    let centerDist : α := dist c.center o.center
    let d : α := cadd centerDist o.radius
    let newRad : α := cexp d (addCapSlack centerDist o.radius d)
    if c.radius < newRad then ⟨c.center, newRad⟩ else c

/-- `Cap.Union` after the repair: the trigonometric part is NOT modelled — its two outcomes enter as parameters:
    `containedByAngles` (the test `cRadius >= distance+otherRadius`) and `t` (the cap built from
    `InterpolateAtDistance` / `CapFromCenterAngle`).  What follows them is modelled exactly:
    every return path ends in `AddCap`, which has the rounding allowance. -/
def unionWith (c o : CapM P α) (containedByAngles : Bool) (t : CapM P α) : CapM P α :=
  let big := if c.radius < o.radius then o else c
  let small := if c.radius < o.radius then c else o
  if big.isFull || small.isEmpty then big
  else if containedByAngles then big.addCap small
  else if !t.isValid then big.addCap small
  else (t.addCap big).addCap small

/-- `Cap.Expanded(distance)` where `dc = ChordAngleFromAngle(distance)` -/
def expanded (c : CapM P α) (dc : α) : CapM P α :=
  if c.isEmpty then empty else ⟨c.center, cadd c.radius dc⟩

end CapM
end

/-! ## s1.ChordAngle arithmetic on the soft-float, and the bit-exact cap instance -/

namespace Chord
open F64

def f0 : F64 := F64.zero false
def f4 : F64 := F64.four
def fNeg1 : F64 := ⟨0xbff0000000000000⟩
def fQuarter : F64 := ⟨0x3fd0000000000000⟩
def f10 : F64 := ⟨0x4024000000000000⟩
def fNeg10 : F64 := ⟨0xc024000000000000⟩
def dblEpsilon : F64 := ⟨0x3cb0000000000000⟩
/-- package s1's `dblEpsilon = 2.220446049e-16` (a `var`) -/
def dblEpsilonS1 : F64 := ⟨0x3caffffffff081a2⟩

/-- `ChordAngle.MaxPointError` = `4.5*dblEpsilon*float64(c) + 16*dblEpsilon*dblEpsilon` (s1's dblEpsilon) -/
def maxPointError (c : F64) : F64 :=
  (⟨0x4012000000000000⟩ * dblEpsilonS1) * c + (⟨0x4030000000000000⟩ * dblEpsilonS1) * dblEpsilonS1

/-- the allowance of the repaired `Cap.AddCap`:
    `delta := 2.25*dblEpsilon*(sqrt(centerDist)+sqrt(other.radius))`,
    `maxErr := 2*sqrt(dist)*delta + delta*delta + dist.MaxPointError() + 3*dblEpsilon*dist`, result `1.5*maxErr` -/
def addCapSlack (centerDist otherRadius dist : F64) : F64 :=
  let delta := (⟨0x3cc2000000000000⟩ : F64) * (F64.sqrt centerDist + F64.sqrt otherRadius)
  let maxErr := F64.two * F64.sqrt dist * delta + delta * delta + maxPointError dist +
    (⟨0x3cc8000000000000⟩ : F64) * dist
  (⟨0x3ff8000000000000⟩ : F64) * maxErr

def isInfinity (c : F64) : Bool := c.isInf && !c.signBit
def isSpecial (c : F64) : Bool := lt c f0 || isInfinity c
def isValid (c : F64) : Bool := (ge c f0 && le c f4) || isSpecial c
def fromSquaredLength (l : F64) : F64 := if gt l f4 then f4 else l
def expanded (c e : F64) : F64 := if isSpecial c then c else fmax f0 (fmin f4 (c + e))
def successor (c : F64) : F64 :=
  if ge c f4 then F64.inf false else if lt c f0 then f0 else nextafter c f10
def predecessor (c : F64) : F64 :=
  if le c f0 then fNeg1 else if gt c f4 then f4 else nextafter c fNeg10

def add (c o : F64) : F64 :=
  if feq o f0 then c
  else if ge (c + o) f4 then f4
  else
    let x := c * (F64.one - fQuarter * o)
    let y := o * (F64.one - fQuarter * c)
    fmin f4 (x + y + F64.two * F64.sqrt (x * y))

def sub (c o : F64) : F64 :=
  if feq o f0 then c
  else if le c o then f0
  else
    let x := c * (F64.one - fQuarter * o)
    let y := o * (F64.one - fQuarter * c)
    fmax f0 (x + y - F64.two * F64.sqrt (x * y))

def sin2 (c : F64) : F64 := c * (F64.one - fQuarter * c)
def cos (c : F64) : F64 := F64.one - F64.half * c

/-- `ChordAngleBetweenPoints` -/
def between (x y : V3) : F64 := fmin f4 (x.sub y).norm2

/-- `r3.Vector.IsUnit` -/
def isUnit (v : V3) : Bool := le (F64.abs (v.norm2 - F64.one)) ⟨0x3d2c25c268497682⟩  -- 5e-14

end Chord

namespace CapF64

scoped instance : LE F64 := ⟨fun a b => F64.le a b = true⟩
scoped instance : LT F64 := ⟨fun a b => F64.lt a b = true⟩
scoped instance : DecidableLE F64 := fun a b => inferInstanceAs (Decidable (F64.le a b = true))
scoped instance : DecidableLT F64 := fun a b => inferInstanceAs (Decidable (F64.lt a b = true))

scoped instance : CapPt V3 where
  neg := fun p => p.mul Chord.fNeg1
  isUnit := Chord.isUnit
  peq := V3.feq
  centerPoint := ⟨F64.one, Chord.f0, Chord.f0⟩

scoped instance : CapOps V3 F64 where
  dist := Chord.between
  feq := F64.feq
  cadd := Chord.add
  csub := Chord.sub
  cexp := Chord.expanded
  addCapSlack := Chord.addCapSlack
  half := fun c => F64.half * c
  zero := Chord.f0
  four := Chord.f4
  negOne := Chord.fNeg1

abbrev Cap := CapM V3 F64

end CapF64
end S2
