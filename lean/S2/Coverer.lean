/-
  S2.Coverer — executable model of s2/regioncoverer.go over an ABSTRACT region.

  A region is two predicates on cell ids (`Region.containsCell`, `Region.intersectsCell`,
  the model of `Region.ContainsCell` / `Region.IntersectsCell` applied to `CellFromCellID id`)
  plus, where needed, the list returned by `Region.CellUnionBound()`.

  Everything follows the Go source statement by statement:
    newCandidate, expandChildren, addCandidate, adjustLevel, adjustCellLevels,
    initialCandidates, coveringInternal, newCoverer, Covering, InteriorCovering, CellUnion,
    InteriorCellUnion, FastCovering, normalizeCovering, isCanonical, containsAllChildren,
    replaceCellsWithAncestor (including the slice aliasing of its double `append`).

  The priority queue is a parameter (`PQOps`): the theorems of `S2Proofs.Properties.C05`
  hold for every lawful queue, i.e. for every pop order; the executable instance `heapOps`
  is `container/heap` on a slice with `Less(i,j) = pq[i].priority > pq[j].priority`
  (same `up`/`down`, same tie behaviour), so the oracle can compare cell for cell.

  Two places need data the model cannot compute (floating-point geometry):
   * `Region.CellUnionBound()` – passed in as the list `bound`;
   * the re-covering `rc.Covering(covering)` inside `normalizeCovering` (taken when the covering is
     non-canonical and `excess*len > 10000`; since repair e130a30 `rc` carries the coverer's OWN
     options) – `normalizeCovering` takes it as the function `recover`; `normalizeCoveringRec`
     ties the knot as the code does (Covering → initialCandidates → temp.FastCovering →
     normalizeCovering → …), the only external datum being `geo cu` = `(&cu).CellUnionBound()`.
  Core-only.
-/
import S2.CellID
import S2.CellUnion
namespace S2
namespace Coverer
open CellID CellUnion

/-- `RegionCoverer` as the user may set it (any ints). -/
structure Options where
  minLevel : Int
  maxLevel : Int
  levelMod : Int
  maxCells : Int
  deriving Repr, DecidableEq

/-- `NewRegionCoverer()` -/
def defaultOptions : Options := ⟨0, 30, 1, 8⟩

/-- the clamped parameters held by `coverer` -/
structure Config where
  minLevel : Nat
  maxLevel : Nat
  levelMod : Nat
  maxCells : Int
  deriving Repr, DecidableEq

/-- `maxInt(lo, minInt(hi, x))` -/
def clamp (lo hi : Nat) (x : Int) : Nat := (max (lo : Int) (min (hi : Int) x)).toNat

/-- `RegionCoverer.newCoverer` (note: nothing forces `maxLevel ≥ minLevel`). -/
def newCoverer (o : Options) : Config :=
  { minLevel := clamp 0 30 o.minLevel
    maxLevel := clamp 0 30 o.maxLevel
    levelMod := clamp 1 3 o.levelMod
    maxCells := o.maxCells }

structure Region where
  containsCell : CellID → Bool
  intersectsCell : CellID → Bool

/-- a freshly created candidate (`newCandidate` result): no children yet -/
structure Child where
  id : CellID
  terminal : Bool
  deriving Repr, DecidableEq, Inhabited

/-- a candidate that went through `addCandidate` and sits in the queue -/
structure Cand where
  id : CellID
  numChildren : Nat
  children : List Child
  priority : Int
  deriving Repr, DecidableEq, Inhabited

/-- `coverer.newCandidate` -/
def newCandidate (cfg : Config) (interior : Bool) (R : Region) (id : CellID) : Option Child :=
  if !R.intersectsCell id then none else
  let lvl := level id
  if lvl ≥ cfg.minLevel then
    if interior then
      if R.containsCell id then some ⟨id, true⟩
      else if lvl + cfg.levelMod > cfg.maxLevel then none
      else some ⟨id, false⟩
    else if lvl + cfg.levelMod > cfg.maxLevel || R.containsCell id then some ⟨id, true⟩
    else some ⟨id, false⟩
  else some ⟨id, false⟩

/-- `coverer.expandChildren(cand, cell, numLevels)`: the children appended to `cand.children`
    (in order); the returned `numTerminals` is the number of terminal ones among them. -/
def expandChildren (cfg : Config) (interior : Bool) (R : Region) : Nat → CellID → List Child
  | 0, _ => []
  | n+1, id =>
    (childrenList id).flatMap fun ci =>
      if n > 0 then
        (if R.intersectsCell ci then expandChildren cfg interior R n ci else [])
      else
        match newCandidate cfg interior R ci with
        | some c => [c]
        | none => []

def numTerminals (cs : List Child) : Nat := cs.countP (·.terminal)

/-- the priority computed in `addCandidate` -/
def priorityOf (cfg : Config) (lvl numChildren numTerm : Nat) : Int :=
  let sh := 2 * cfg.levelMod
  let v : Nat := (((lvl <<< sh) + numChildren) <<< sh) + numTerm
  Int.neg (v : Int)

/-! ### priority queue -/

structure PQOps (Q : Type) where
  empty : Q
  push : Q → Cand → Q
  pop? : Q → Option (Cand × Q)
  size : Q → Nat

namespace Heap
/-- `priorityQueue.Less` -/
def less (a : Array Cand) (i j : Nat) : Bool := decide (a[i]!.priority > a[j]!.priority)

def swap (a : Array Cand) (i j : Nat) : Array Cand :=
  if h : i < a.size ∧ j < a.size then a.swap i j h.1 h.2 else a

/-- `heap.up` -/
def up : Nat → Array Cand → Nat → Array Cand
  | 0, a, _ => a
  | fuel+1, a, j =>
    if j = 0 then a else
    let i := (j - 1) / 2
    if i = j || !less a j i then a else up fuel (swap a i j) i

/-- `heap.down(i0, n)` -/
def down : Nat → Array Cand → Nat → Nat → Array Cand
  | 0, a, _, _ => a
  | fuel+1, a, i, n =>
    let j1 := 2 * i + 1
    if j1 ≥ n then a else
    let j := if j1 + 1 < n && less a (j1 + 1) j1 then j1 + 1 else j1
    if !less a j i then a else down fuel (swap a i j) j n

/-- `heap.Push` -/
def push (a : Array Cand) (x : Cand) : Array Cand :=
  let a := a.push x
  up a.size a (a.size - 1)

/-- `heap.Pop` -/
def pop? (a : Array Cand) : Option (Cand × Array Cand) :=
  if a.size = 0 then none else
  let n := a.size - 1
  let a := swap a 0 n
  let a := down a.size a 0 n
  some (a[n]!, a.pop)
end Heap

/-- Go's `container/heap` on `priorityQueue` -/
def heapOps : PQOps (Array Cand) := ⟨#[], Heap.push, Heap.pop?, Array.size⟩

/-- a LIFO list: another lawful queue (used for non-vacuity and for order-independence tests) -/
def stackOps : PQOps (List Cand) :=
  ⟨[], fun q c => c :: q, fun q => match q with | [] => none | c :: q => some (c, q), List.length⟩

/-! ### the search -/

/-- `coverer.result` (most recent first) and `coverer.pq` -/
structure St (Q : Type) where
  result : List CellID
  pq : Q

variable {Q : Type}

/-- `coverer.addCandidate` applied to a fresh candidate -/
def addCandidate (ops : PQOps Q) (cfg : Config) (interior : Bool) (R : Region) (st : St Q) (ch : Child) : St Q :=
  if ch.terminal then { st with result := ch.id :: st.result } else
  let lvl := level ch.id
  let numLevels := if lvl < cfg.minLevel then 1 else cfg.levelMod
  let children := expandChildren cfg interior R numLevels ch.id
  let nT := numTerminals children
  if children.length = 0 then st
  else if !interior && nT == 1 <<< (2 * cfg.levelMod) && lvl ≥ cfg.minLevel then
    { st with result := ch.id :: st.result }
  else
    { st with pq := ops.push st.pq ⟨ch.id, children.length, children, priorityOf cfg lvl children.length nT⟩ }

/-- `addCandidate(newCandidate(CellFromCellID(ci)))` -/
def addStart (ops : PQOps Q) (cfg : Config) (interior : Bool) (R : Region) (st : St Q) (ci : CellID) : St Q :=
  match newCandidate cfg interior R ci with
  | none => st
  | some ch => addCandidate ops cfg interior R st ch

/-- `coverer.adjustLevel` -/
def adjustLevel (cfg : Config) (lvl : Nat) : Nat :=
  if cfg.levelMod > 1 && lvl > cfg.minLevel then lvl - (lvl - cfg.minLevel) % cfg.levelMod else lvl

def adjustStep (cfg : Config) (out : List CellID) (ci : CellID) : List CellID :=
  let lvl := level ci
  let nl := adjustLevel cfg lvl
  let ci := if nl != lvl then parent ci nl else ci
  match out with
  | last :: _ =>
    if contains last ci then out
    else ci :: out.dropWhile (fun o => contains ci o)
  | [] => [ci]

/-- `coverer.adjustCellLevels` (in-place compaction; `out` is kept reversed) -/
def adjustCellLevels (cfg : Config) (cells : CU) : CU :=
  if cfg.levelMod = 1 then cells else (cells.foldl (adjustStep cfg) []).reverse

/-- the body of the `for` loop of `coveringInternal`, one iteration per unit of fuel -/
def coverLoop (ops : PQOps Q) (cfg : Config) (interior : Bool) (R : Region) : Nat → St Q → St Q
  | 0, st => st
  | fuel+1, st =>
    if ops.size st.pq > 0 && (!interior || (st.result.length : Int) < cfg.maxCells) then
      match ops.pop? st.pq with
      | none => st
      | some (cand, q) =>
        let st : St Q := { st with pq := q }
        if interior || level cand.id < cfg.minLevel || cand.numChildren == 1 ||
            ((st.result.length + ops.size q + cand.numChildren : Nat) : Int) ≤ cfg.maxCells then
          coverLoop ops cfg interior R fuel
            (cand.children.foldl (fun st ch =>
              if !interior || (st.result.length : Int) < cfg.maxCells then addCandidate ops cfg interior R st ch else st) st)
        else
          coverLoop ops cfg interior R fuel { st with result := cand.id :: st.result }
    else st

/-- fuel that is never exhausted (see `S2Proofs.C05.coverLoop_terminates`): every pop removes a
    candidate of level `l` and pushes at most 64 candidates of level `> l`. -/
def loopFuel (start : CU) : Nat := (start.length + 1) * 65 ^ 31

/-- the state after `initialCandidates` (given the cells returned by the temporary `FastCovering`) -/
def initState (ops : PQOps Q) (cfg : Config) (interior : Bool) (R : Region) (start : CU) : St Q :=
  (adjustCellLevels cfg start).foldl (addStart ops cfg interior R) ⟨[], ops.empty⟩

/-- the raw `c.result` at the end of the `for` loop of `coveringInternal` (in append order) -/
def rawResult (ops : PQOps Q) (cfg : Config) (interior : Bool) (R : Region) (start : CU) : CU :=
  (coverLoop ops cfg interior R (loopFuel start) (initState ops cfg interior R start)).result.reverse

/-- `coverer.coveringInternal`: returns `c.result`.  `start` is the result of
    `temp.FastCovering(region)` inside `initialCandidates`. -/
def coveringInternal (ops : PQOps Q) (cfg : Config) (interior : Bool) (R : Region) (start : CU) : CU :=
  let r := normalize (rawResult ops cfg interior R start)
  if cfg.minLevel > 0 || cfg.levelMod > 1 then denormalize r cfg.minLevel cfg.levelMod else r

/-- `RegionCoverer.CellUnion` / `InteriorCellUnion` -/
def cellUnionWith (ops : PQOps Q) (o : Options) (interior : Bool) (R : Region) (start : CU) : CU :=
  normalize (coveringInternal ops (newCoverer o) interior R start)

/-- `RegionCoverer.Covering` / `InteriorCovering` -/
def coveringWith (ops : PQOps Q) (o : Options) (interior : Bool) (R : Region) (start : CU) : CU :=
  let cfg := newCoverer o
  denormalize (cellUnionWith ops o interior R start) cfg.minLevel cfg.levelMod

def cellUnion (o : Options) (R : Region) (start : CU) : CU := cellUnionWith heapOps o false R start
def interiorCellUnion (o : Options) (R : Region) (start : CU) : CU := cellUnionWith heapOps o true R start
def covering (o : Options) (R : Region) (start : CU) : CU := coveringWith heapOps o false R start
def interiorCovering (o : Options) (R : Region) (start : CU) : CU := coveringWith heapOps o true R start

/-! ### isCanonical, normalizeCovering, FastCovering -/

/-- `trueMax` of `isCanonical` (Go `%` truncates towards zero) -/
def trueMax (cfg : Config) : Int :=
  if cfg.levelMod != 1 then
    (cfg.maxLevel : Int) - Int.tmod ((cfg.maxLevel : Int) - cfg.minLevel) cfg.levelMod
  else cfg.maxLevel

/-- loop state of `isCanonical`: `prevID`, `sameParentCount` -/
def canonStep (cfg : Config) (tooMany : Bool) (s : Option (CellID × Nat)) (id : CellID) : Option (CellID × Nat) :=
  match s with
  | none => none
  | some (prevID, cnt) =>
    if !isValid id then none else
    let lvl := level id
    if (lvl : Int) < cfg.minLevel || (lvl : Int) > trueMax cfg then none
    else if cfg.levelMod > 1 && (lvl - cfg.minLevel) % cfg.levelMod != 0 then none
    else if prevID != 0 then
      if rangeMax prevID ≥ rangeMin id then none
      else
        let bad := match commonAncestorLevel id prevID with
          | some lev => tooMany && lev ≥ cfg.minLevel
          | none => false
        if bad then none
        else
          if lvl < cfg.minLevel + cfg.levelMod || lvl != level prevID ||
              parent id (lvl - cfg.levelMod) != parent prevID (lvl - cfg.levelMod) then some (id, 1)
          else if cnt + 1 == 1 <<< (2 * cfg.levelMod) then none
          else some (id, cnt + 1)
    else some (id, cnt)

/-- `coverer.isCanonical` -/
def isCanonical (cfg : Config) (cov : CU) : Bool :=
  let tooMany := decide ((cov.length : Int) > cfg.maxCells)
  (cov.foldl (canonStep cfg tooMany) (some (0, 1))).isSome

/-- `sort.Search(n, f)` -/
def sortSearch (n : Nat) (f : Nat → Bool) : Nat :=
  go n 0 n
where
  go : Nat → Nat → Nat → Nat
    | 0, i, _ => i
    | fuel+1, i, j =>
      if i < j then
        let h := (i + j) / 2
        if !f h then go fuel (h + 1) j else go fuel i h
      else i

/-- `coverer.replaceCellsWithAncestor`, including what the double `append` does to the shared
    backing array when `begin = end` (the precondition "covering contains a descendant of id"
    excludes that case) -/
def replaceCellsWithAncestor (cov : CU) (id : CellID) : CU :=
  let a := cov.toArray
  let b := sortSearch a.size (fun i => a[i]! ≥ rangeMin id)
  let e := sortSearch a.size (fun i => a[i]! > rangeMax id)
  -- `append(covering[:b], id)` writes `id` at index `b` of the backing array when `b < len`
  let a' := if b < a.size then a.set! b id else a
  cov.take b ++ id :: (a'.toList.drop e)

/-- `coverer.containsAllChildren` -/
def containsAllChildren (cfg : Config) (cov : CU) (id : CellID) : Bool :=
  let a := cov.toArray
  let pos := sortSearch a.size (fun i => a[i]! ≥ rangeMin id)
  let kids := childrenAtLevel id (level id + cfg.levelMod)
  (List.range kids.length).all fun k => pos + k < a.size && a[pos + k]! == kids[k]!

/-- scan of adjacent pairs: `(bestIndex, bestLevel)`, both `-1` when there is none -/
def bestPair (cfg : Config) (cov : CU) : Int × Int :=
  let a := cov.toArray
  (List.range (a.size - 1)).foldl (fun (best : Int × Int) i =>
    match commonAncestorLevel a[i]! a[i+1]! with
    | none => best
    | some lev =>
      let lev := adjustLevel cfg lev
      if (lev : Int) > best.2 then ((i : Int), (lev : Int)) else best) (-1, -1)

/-- the inner `for bestLevel > c.minLevel` loop -/
def mergeUp (cfg : Config) : Nat → CU → CellID → Int → CU
  | 0, cov, _, _ => cov
  | fuel+1, cov, id, bestLevel =>
    if bestLevel > cfg.minLevel then
      let bestLevel := bestLevel - cfg.levelMod
      let id := parent id bestLevel.toNat
      if !containsAllChildren cfg cov id then cov
      else mergeUp cfg fuel (replaceCellsWithAncestor cov id) id bestLevel
    else cov

/-- the outer `for len(*covering) > c.maxCells` loop.  Every round replaces at least two cells by
    one (since repair cd338c8 `replaceCellsWithAncestor` uses `>=` = C++ `lower_bound`; before, a
    LEAF cell equal to the ancestor's RangeMin was kept and Go span forever), so `fuel = len` rounds
    always suffice. -/
def mergeLoop (cfg : Config) : Nat → CU → CU
  | 0, cov => cov
  | fuel+1, cov =>
    if (cov.length : Int) > cfg.maxCells then
      let (bestIndex, bestLevel) := bestPair cfg cov
      if bestLevel < cfg.minLevel then cov
      else
        let id := parent (cov.toArray[bestIndex.toNat]!) bestLevel.toNat
        let cov := replaceCellsWithAncestor cov id
        mergeLoop cfg fuel (mergeUp cfg 31 cov id bestLevel)
    else cov

/-- first block of `normalizeCovering` -/
def clampLevels (cfg : Config) (cov : CU) : CU :=
  if cfg.maxLevel < maxLevel || cfg.levelMod > 1 then
    cov.map fun ci =>
      let lvl := level ci
      let nl := adjustLevel cfg (min lvl cfg.maxLevel)
      if nl != lvl then parent ci nl else ci
  else cov

/-- the covering just before the size test of `normalizeCovering` -/
def preNormalize (cfg : Config) (cov : CU) : CU :=
  let cov := normalize (clampLevels cfg cov)
  if cfg.minLevel > 0 || cfg.levelMod > 1 then denormalize cov cfg.minLevel cfg.levelMod else cov

/-- does `normalizeCovering` take the `rc.Covering(covering)` branch? -/
def takesRecover (cfg : Config) (cov : CU) : Bool :=
  let cov := preNormalize cfg cov
  let excess : Int := (cov.length : Int) - cfg.maxCells
  !(excess ≤ 0 || isCanonical cfg cov) && excess * cov.length > 10000

/-- `coverer.normalizeCovering`; `recover cov` stands for `rc.Covering(&cov)` (`rc` = own options). -/
def normalizeCovering (cfg : Config) (recover : CU → CU) (cov : CU) : CU :=
  let cov := preNormalize cfg cov
  let excess : Int := (cov.length : Int) - cfg.maxCells
  if excess ≤ 0 || isCanonical cfg cov then cov
  else if excess * cov.length > 10000 then recover cov
  else mergeLoop cfg cov.length cov

/-- `RegionCoverer.FastCovering`; `bound` = `region.CellUnionBound()` -/
def fastCovering (o : Options) (recover : CU → CU) (bound : CU) : CU :=
  normalizeCovering (newCoverer o) recover bound

/-- the options of `temp` in `initialCandidates` -/
def tempOptions (cfg : Config) : Options := ⟨0, cfg.maxLevel, 1, min 4 cfg.maxCells⟩

/-- a `CellUnion` used as a region -/
def cellUnionRegion (cu : CU) : Region := ⟨containsCellID cu, intersectsCellID cu⟩

/-- the `RegionCoverer` literal built in the re-cover branch:
    `&RegionCoverer{MinLevel: c.minLevel, MaxLevel: c.MaxLevel, LevelMod: c.levelMod, MaxCells: c.maxCells}` -/
def optionsOf (cfg : Config) : Options := ⟨cfg.minLevel, cfg.maxLevel, cfg.levelMod, cfg.maxCells⟩

/-- `rc.Covering(&cu)` of the re-cover branch, given the start cells of that inner search -/
def recoverOwn (cfg : Config) (innerStart : CU → CU) (cu : CU) : CU :=
  covering (optionsOf cfg) (cellUnionRegion cu) (innerStart cu)

/-- `normalizeCovering` with the re-cover recursion of the code spelled out:
    `rc.Covering(&cov)` → `coveringInternal` → `initialCandidates` → `temp.FastCovering(&cov)` →
    `temp.normalizeCovering((&cov).CellUnionBound())` → (possibly) re-cover again → …
    `geo cu` stands for `(&cu).CellUnionBound()` (= `cu.CapBound().CellUnionBound()`, float geometry).
    Whether the real recursion ends depends on that geometry (the cap bound grows at every round until
    face cells, which are canonical, are reached); the model stops after `fuel` nested re-coverings
    and then keeps the pre-normalised covering (which already satisfies the level limits). -/
def normalizeCoveringRec : Nat → (CU → CU) → Config → CU → CU
  | 0, _, cfg, cov => normalizeCovering cfg (fun c => c) cov
  | fuel+1, geo, cfg, cov =>
    normalizeCovering cfg
      (fun c => recoverOwn cfg
        (fun c' => normalizeCoveringRec fuel geo (newCoverer (tempOptions cfg)) (geo c')) c) cov

/-- `RegionCoverer.FastCovering` with the recursion spelled out -/
def fastCoveringRec (fuel : Nat) (geo : CU → CU) (o : Options) (bound : CU) : CU :=
  normalizeCoveringRec fuel geo (newCoverer o) bound

/-- the start cells computed by `initialCandidates`, recursion spelled out -/
def startCellsRec (fuel : Nat) (geo : CU → CU) (o : Options) (bound : CU) : CU :=
  fastCoveringRec fuel geo (tempOptions (newCoverer o)) bound

/-- the whole of `Covering` / `InteriorCovering` / `CellUnion` from `CellUnionBound()` on -/
def startCells (o : Options) (recover : CU → CU) (bound : CU) : CU :=
  fastCovering (tempOptions (newCoverer o)) recover bound

/-! ### level discipline as a decidable predicate (used by the oracle and by the theorems) -/

/-- `minLevel ≤ level ≤ maxLevel ∧ (level - minLevel) % levelMod = 0` for a valid cell -/
def levelOK (cfg : Config) (c : CellID) : Bool :=
  isValid c && decide (cfg.minLevel ≤ level c) && decide (level c ≤ cfg.maxLevel) &&
    decide ((level c - cfg.minLevel) % cfg.levelMod = 0)

end Coverer
end S2
