/-
  S2.BigF — carrier of `*big.Float` values for the regenerated definitions of translator_c02 (core-only).

  Every `*big.Float` of s2/predicates.go and r3/precisevector.go is obtained from float64 values by
  `SetFloat64`, `Add`, `Sub`, `Mul` at precision `big.MaxPrec` / `r3.MaxPrec`, which never rounds on these
  inputs (S2/Exact.lean: the largest intermediate needs < 13000 bits).  A finite float64 is an integer
  multiple of 2^-1074 (`Exact.toInt`), so every such value is

        n / scale^k          (scale = 2^1074)

  for an integer `n` and a "degree" `k`.  `BigF` keeps the pair (n, k); `add` / `sub` first bring both
  operands to the larger degree (multiplying by a power of `scale`, exact), `mul` adds the degrees.
  Only `sign` observes a value, and `scale^k > 0`, so `sign` is the sign of `n`.

  For the homogeneous polynomials of `exactSign`, `exactCompareDistances`, `SignDotProd` the numerators
  are exactly the integers of the hand model `S2.Exact.IV3` (degree 1 components); `exactCompareDistance`
  mixes degrees (`1 - r2/2`) and is handled by the alignment.

  Out of contract as in S2.Exact: NaN (big.Float panics) and ±Inf inputs (`toInt` is garbage there).
-/
import S2.F64
import S2.Exact
namespace S2

structure BigF where
  n : Int
  k : Nat
deriving DecidableEq, Inhabited

namespace BigF

/-- the integer `scale` as an `Int` -/
def S : Int := (Exact.scale : Int)

/-- `new(big.Float).SetPrec(MaxPrec).SetFloat64(f)` / `big.NewFloat(f)` -/
def ofF64 (f : F64) : BigF := ⟨Exact.toInt f, 1⟩

def mul (a b : BigF) : BigF := ⟨a.n * b.n, a.k + b.k⟩

def add (a b : BigF) : BigF :=
  if a.k = b.k then ⟨a.n + b.n, a.k⟩
  else if a.k < b.k then ⟨a.n * S ^ (b.k - a.k) + b.n, b.k⟩
  else ⟨a.n + b.n * S ^ (a.k - b.k), a.k⟩

def sub (a b : BigF) : BigF :=
  if a.k = b.k then ⟨a.n - b.n, a.k⟩
  else if a.k < b.k then ⟨a.n * S ^ (b.k - a.k) - b.n, b.k⟩
  else ⟨a.n - b.n * S ^ (a.k - b.k), a.k⟩

/-- `x.Sign()` : -1 / 0 / +1 -/
def sign (a : BigF) : Int := Exact.sgn a.n

end BigF
end S2
