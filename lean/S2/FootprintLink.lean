/-
  S2.FootprintLink — the protocol-level reading of a checked function body (core-only): the map from the
  footprint IR (`S2.Footprint`) to programs of the proved protocol model (`S2.Protocol`).

  For ONE index expression x of ONE function, an item is
    * an ESTABLISHING event   (`freshAfter c it = some x`: unconditional `x.maybeApplyUpdates()`, `x.Build()`,
      `x.Iterator()`, …, `guarded x`, or a creation site whose iterator method starts with `guarded`), or
    * a USE that needs freshness (`needsFresh`: a read of a builder-written field through x outside an iterator
      method, or a creation site `NewShapeIndexIterator(x …)` that does not establish freshness itself), or
    * irrelevant for x.
  `proto c x body` is the program the goroutine executes against the shared state of index x AT THE LEVEL OF
  ABSTRACTION OF `S2.Protocol`: the first establishing event becomes the regenerated instruction list of
  `maybeApplyUpdates`, every use becomes `readCells`.  Two abstractions are made and are NOT proved here:
    (A1) establishing events AFTER the first one are dropped: they are further rounds of `maybeApplyUpdates`;
         `S2Proofs.C14Footprint.post_sees_fresh` shows that in the model a goroutine that has completed one round
         always finds `status = fresh`, so a further round is one atomic load that skips the block;
    (A2) the reads performed INSIDE iterator methods (rule (b) of the checker) appear here only through the
         creation site of the iterator; that every iterator reaching such a method was created at a checked site
         is an object-level fact (assumption "iterators are used by the goroutine that created them").
  At `rebind x` the projection stops: the rest of the body concerns another index object under the same name and
  is covered by the same statement for the suffix (the checker forgets the freshness of x there).
-/
import S2.Footprint
import S2.Protocol
import S2.Generated.ProtocolIR
namespace S2.Footprint
open S2.Protocol

/-- a use of the cell data of index `x` whose safety the checker derives from `fresh.contains x` -/
def needsFresh (c : Ctx) (x : Nat) (it : Item) : Bool :=
  match it.ev with
  | .acc fld .read y => y == x && mem c.bw fld
  | .create (.newIter p) y =>
    y == x && !(match c.dispatch.lookup p with
      | some m => mem c.ensFirst m
      | none => false)
  | _ => false

def isRebind (x : Nat) (it : Item) : Bool :=
  match it.ev with
  | .rebind y => y == x
  | _ => false

/-- after the first establishing event: uses are reads of the (complete) cell data -/
def protoAfter (c : Ctx) (x : Nat) : List Item → Prog
  | [] => []
  | it :: t =>
    if isRebind x it then []
    else if needsFresh c x it then .readCells :: protoAfter c x t
    else protoAfter c x t

/-- the protocol program of a function body for index `x` -/
def proto (c : Ctx) (x : Nat) : List Item → Prog
  | [] => []
  | it :: t =>
    if freshAfter c it == some x then S2.Generated.ProtocolIR.maybeApplyUpdates ++ protoAfter c x t
    else if needsFresh c x it then .readCells :: proto c x t
    else proto c x t

end S2.Footprint
