/-
  S2.ShapesBase — the abstract state of every `Shape` implementation of golang/geo and the
  primitives the accessor arithmetic is written in (shared by the hand-written model
  `S2.Shapes` and by the regenerated `S2.Generated.ShapeAccessors`).

  Abstraction.  The accessors `NumEdges / Edge / NumChains / Chain / ChainEdge / ChainPosition`
  depend on the *lengths* of the vertex slices only; the vertices themselves are opaque.  A
  vertex is therefore represented by its **label**: the index at which the implementation reads
  it (`l.vertices[k]` ↦ label `k`; for `Polygon`, `p.Loop(i).vertices[k]` ↦ label `(i,k)`), and
  "the same edge" means "the same pair of labels".  Go `int` is modelled by `Int` (no accessor
  computes anything near 2^63 from in-range arguments: every intermediate value is bounded by the
  total number of vertices + 1); an index-out-of-range / divide-by-zero **panic** is `none`.

  Core-only (linked into the oracle executable).
-/
namespace S2
namespace Shapes

/-- an edge as a pair of vertex labels -/
abbrev EdgeL := Int × Int

/-- `s[i]` on a slice of length `n` whose elements are opaque: yields the label `i`, panics
    (none) when `i` is out of range. -/
def vtx (n : Nat) (i : Int) : Option Int :=
  if 0 ≤ i ∧ i < (n : Int) then some i else none

/-- `edges[i]` on an `[]Edge` slice of length `n` (edgeVectorShape): edge `i` has the labels
    `(2i, 2i+1)`. -/
def edgeAt (n : Nat) (i : Int) : Option EdgeL :=
  if 0 ≤ i ∧ i < (n : Int) then some (2 * i, 2 * i + 1) else none

/-- `s[i]` on an `[]int` slice. -/
def getI (l : List Int) (i : Int) : Option Int :=
  if 0 ≤ i then l[i.toNat]? else none

/-- Go `a % b` on ints (truncated; panics on b = 0). -/
def modI (a b : Int) : Option Int :=
  if b = 0 then none else some (Int.tmod a b)

/-- Go `a & b` on 64-bit ints (two's complement). -/
def andI (a b : Int) : Int := ((BitVec.ofInt 64 a) &&& (BitVec.ofInt 64 b)).toInt

def minInt (a b : Int) : Int := if a < b then a else b
def maxInt (a b : Int) : Int := if a > b then a else b

/-- `for cond(x) { x++ }` — `cond` may panic.  `fuel` only has to exceed the number of
    iterations; every use below has a `cond` that indexes a slice with `x`, so the loop ends
    (normally or by a panic) within `len + 1` iterations and the `0` case is unreachable. -/
def whileInc (cond : Int → Option Bool) : Nat → Int → Option Int
  | 0, _ => none
  | fuel+1, x =>
    match cond x with
    | none => none
    | some false => some x
    | some true => whileInc cond fuel (x + 1)

/-! ### States -/

/-- `Loop`: `len(l.vertices)`, `l.originInside`, `l.depth`. -/
structure LoopS where
  n : Nat
  originInside : Bool := false
  depth : Nat := 0
deriving Repr, DecidableEq

/-- `Polyline` (`[]Point`), `LaxPolyline` (`vertices`), `PointVector` (`[]Point`): the length. -/
structure SeqS where
  n : Nat
deriving Repr, DecidableEq

/-- `LaxLoop`: `numVertices`, `len(vertices)`. Both constructors set them equal. -/
structure LaxLoopS where
  numVertices : Int
  nv : Nat
deriving Repr, DecidableEq

/-- `LaxLoopFromPoints` / `LaxLoopFromLoop` (a non-full loop; the empty loop gives n = 0). -/
def LaxLoopS.ofLen (n : Nat) : LaxLoopS := ⟨n, n⟩

/-- `LaxPolygon`: `numLoops`, `len(vertices)`, `numVerts`, `cumulativeVertices` (`none` = nil). -/
structure LaxPolygonS where
  numLoops : Int
  nv : Nat
  numVerts : Int
  cum : Option (List Int)
deriving Repr, DecidableEq

/-- prefix sums `[0, n0, n0+n1, …]` (length `ns.length + 1`) starting from `acc`. -/
def prefixSums (acc : Int) : List Nat → List Int
  | [] => [acc]
  | n :: rest => acc :: prefixSums (acc + n) rest

def sumNat (ns : List Nat) : Nat := ns.foldl (· + ·) 0

/-- `LaxPolygonFromPoints(loops)` where `ns` are the loop lengths. -/
def LaxPolygonS.ofLens (ns : List Nat) : LaxPolygonS :=
  match ns with
  | [] => { numLoops := 0, nv := 0, numVerts := 0, cum := none }
  | [n] => { numLoops := 1, nv := n, numVerts := n, cum := none }
  | _ => { numLoops := ns.length, nv := sumNat ns, numVerts := 0, cum := some (prefixSums 0 ns) }

/-- fuel for the `for p.cumulativeVertices[nextLoop] <= e` searches -/
def LaxPolygonS.fuel (s : LaxPolygonS) : Nat :=
  match s.cum with
  | some c => c.length + 1
  | none => 1

/-- indexing a nil slice panics for every index -/
def LaxPolygonS.cumAt (s : LaxPolygonS) (i : Int) : Option Int :=
  match s.cum with
  | some c => getI c i
  | none => none

/-- `Polygon`: the loops, `numEdges`, `cumulativeEdges` (`none` = nil). -/
structure PolygonS where
  loops : List LoopS
  numEdges : Int
  cumulativeEdges : Option (List Int)
deriving Repr, DecidableEq

def LoopS.isEmptyOrFullB (l : LoopS) : Bool := l.n == 1
def LoopS.isFullB (l : LoopS) : Bool := l.isEmptyOrFullB && l.originInside
def LoopS.isEmptyB (l : LoopS) : Bool := l.isEmptyOrFullB && !l.originInside

def maxLinearSearchLoops : Nat := 12

/-- `initEdgesAndIndex` on a given loop list. -/
def PolygonS.init (loops : List LoopS) : PolygonS :=
  let isFull := match loops with
    | [l] => l.isFullB
    | _ => false
  if isFull then { loops := loops, numEdges := 0, cumulativeEdges := none }
  else
    let ns := loops.map (·.n)
    { loops := loops
      numEdges := sumNat ns
      cumulativeEdges :=
        if loops.length > maxLinearSearchLoops then some ((prefixSums 0 ns).take loops.length) else none }

/-- `PolygonFromLoops`: a single empty loop gives the polygon without loops; the loop order
    (changed by `initNested`) is whatever the caller passes here — the accessors do not depend
    on how it was obtained. -/
def PolygonS.fromLoops (loops : List LoopS) : PolygonS :=
  match loops with
  | [l] => if l.isEmptyB then PolygonS.init [] else PolygonS.init [l]
  | _ => PolygonS.init loops

def PolygonS.loopAt (p : PolygonS) (i : Int) : Option LoopS :=
  if 0 ≤ i then p.loops[i.toNat]? else none

def PolygonS.cumAt (p : PolygonS) (i : Int) : Option Int :=
  match p.cumulativeEdges with
  | some c => getI c i
  | none => none

def PolygonS.cumLen (p : PolygonS) : Int :=
  match p.cumulativeEdges with
  | some c => c.length
  | none => 0

end Shapes
end S2
