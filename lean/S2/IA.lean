/-
  S2.IA — exact rationals, rational interval arithmetic with integer-square-root enclosures, and the
  exact / enclosure JUDGES for the numeric edge primitives (C16, C17).  Core-only, executable.

  * `Q`   : un-normalised fraction `num / den` (den : Nat, > 0 by construction) — no gcd, the
            computations here are a handful of operations deep.
  * `isqrt` : ⌊√n⌋.  The fast Newton iteration of `F64.isqrt` is used as a CANDIDATE and checked
            (`r² ≤ n < (r+1)²`) at run time; if the check fails the (slow) provably correct
            recursion `isqrtSlow` is used.  Spec proved in S2Proofs.IALemmas for all n.
  * `I`   : closed interval `[lo, hi]` of `Q`; add / sub / neg / multiplication and division of
            non-negative intervals / square root.  Containment lemmas in S2Proofs.IALemmas.
  * geometry on exact integer vectors (`Exact.IV3`, all vectors of one computation at ONE common
    scale — every predicate below is homogeneous, so the scale never matters):
      `angleLe P X ε`      is the angle between the directions P and X at most ε ?  (three-valued:
                           decided with  ε − ε³/4 < sin ε ≤ ε ; the undecided band is ~ε³ wide)
      `chord2 P Q`         enclosure of |P/|P| − Q/|Q||²  (the s1.ChordAngle of the two directions)
      `trueMinDist2 X A B` enclosure of the squared chord distance from direction X to the geodesic
                           edge AB (shorter arc), and whether it is attained in the interior
      `trueMaxDist2`       the same for the maximum distance ( = 4 − min distance from −X )
-/
import S2.F64
import S2.Exact
namespace S2.IA
open S2 S2.Exact

/-! ### fractions -/

structure Q where
  num : Int
  den : Nat
deriving Inhabited, Repr

namespace Q
def ofInt (i : Int) : Q := ⟨i, 1⟩
def ofNat (n : Nat) : Q := ⟨n, 1⟩
def mk' (n : Int) (d : Nat) : Q := ⟨n, if d == 0 then 1 else d⟩
def zero : Q := ⟨0, 1⟩
def one : Q := ⟨1, 1⟩
def add (a b : Q) : Q := ⟨a.num * b.den + b.num * a.den, a.den * b.den⟩
def neg (a : Q) : Q := ⟨-a.num, a.den⟩
def sub (a b : Q) : Q := ⟨a.num * b.den - b.num * a.den, a.den * b.den⟩
def mul (a b : Q) : Q := ⟨a.num * b.num, a.den * b.den⟩
/-- a / b for b > 0 (for b ≤ 0 the result is meaningless; callers guard) -/
def div (a b : Q) : Q := ⟨a.num * b.den, a.den * b.num.toNat⟩
def le (a b : Q) : Bool := decide (a.num * b.den ≤ b.num * a.den)
def lt (a b : Q) : Bool := decide (a.num * b.den < b.num * a.den)
def isNonneg (a : Q) : Bool := decide (0 ≤ a.num)
def isPos (a : Q) : Bool := decide (0 < a.num)
def min (a b : Q) : Q := if le a b then a else b
def max (a b : Q) : Q := if le a b then b else a
def abs (a : Q) : Q := ⟨a.num.natAbs, a.den⟩
def sq (a : Q) : Q := mul a a
instance : Add Q := ⟨add⟩
instance : Sub Q := ⟨sub⟩
instance : Mul Q := ⟨mul⟩
instance : Neg Q := ⟨neg⟩

/-- largest multiple of 2^-p below q -/
def floorTo (q : Q) (p : Nat) : Q := ⟨(q.num * (2 ^ p : Nat)) / (q.den : Int), 2 ^ p⟩
/-- smallest multiple of 2^-p above q -/
def ceilTo (q : Q) (p : Nat) : Q := ⟨-((-q.num * (2 ^ p : Nat)) / (q.den : Int)), 2 ^ p⟩
/-- number of fraction bits that gives about `bits` significant bits for q -/
def precFor (q : Q) (bits : Nat) : Nat := (bits + q.den.log2 + 2) - Nat.min (bits + q.den.log2 + 2) q.num.natAbs.log2

/-- exact value of a finite float -/
def ofF64 (x : F64) : Q := ⟨toInt x, Exact.scale⟩
end Q

/-! ### integer square root -/

/-- provably correct (and slow) ⌊√n⌋ : one binary digit per level -/
def isqrtSlow (n : Nat) : Nat :=
  if h : n = 0 then 0 else
    let r := 2 * isqrtSlow (n / 4)
    if (r + 1) * (r + 1) ≤ n then r + 1 else r
termination_by n
decreasing_by omega

/-- ⌊√n⌋ : checked Newton candidate, verified fallback -/
def isqrt (n : Nat) : Nat :=
  let r := F64.isqrt n
  if r * r ≤ n ∧ n < (r + 1) * (r + 1) then r else isqrtSlow n

/-- lower bound of √q at resolution 2^-k (q ≥ 0) -/
def sqrtLo (q : Q) (k : Nat) : Q := ⟨isqrt (q.num.toNat * q.den * 4 ^ k), q.den * 2 ^ k⟩
/-- upper bound of √q at resolution 2^-k (q ≥ 0) -/
def sqrtHi (q : Q) (k : Nat) : Q := ⟨isqrt (q.num.toNat * q.den * 4 ^ k) + 1, q.den * 2 ^ k⟩

/-! ### intervals -/

structure I where
  lo : Q
  hi : Q
deriving Inhabited, Repr

namespace I
def pt (q : Q) : I := ⟨q, q⟩
def add (a b : I) : I := ⟨a.lo + b.lo, a.hi + b.hi⟩
def neg (a : I) : I := ⟨-a.hi, -a.lo⟩
def sub (a b : I) : I := ⟨a.lo - b.hi, a.hi - b.lo⟩
/-- product of two intervals with non-negative lower ends -/
def mulNN (a b : I) : I := ⟨a.lo * b.lo, a.hi * b.hi⟩
/-- a / b for a.lo ≥ 0, b.lo > 0 -/
def divNN (a b : I) : I := ⟨Q.div a.lo b.hi, Q.div a.hi b.lo⟩
def scale (k : Q) (a : I) : I := if k.isNonneg then ⟨k * a.lo, k * a.hi⟩ else ⟨k * a.hi, k * a.lo⟩
def min (a b : I) : I := ⟨Q.min a.lo b.lo, Q.min a.hi b.hi⟩
def max (a b : I) : I := ⟨Q.max a.lo b.lo, Q.max a.hi b.hi⟩
/-- outward rounding to about `bits` significant bits (keeps the numbers small) -/
def trim (a : I) (bits : Nat) : I :=
  ⟨a.lo.floorTo (a.lo.precFor bits), a.hi.ceilTo (a.hi.precFor bits)⟩
/-- √ of an interval with lo ≥ 0 (a negative lo is clamped to 0), about `bits` significant bits -/
def sqrt (a : I) (bits : Nat) : I :=
  let t := a.trim (2 * bits)
  let lo := if t.lo.isNonneg then t.lo else Q.zero
  let hi := if t.hi.isNonneg then t.hi else Q.zero
  ⟨sqrtLo lo (lo.precFor (2 * bits) / 2 + 1), sqrtHi hi (hi.precFor (2 * bits) / 2 + 1)⟩
/-- certainly a ≤ b -/
def certLe (a b : I) : Bool := Q.le a.hi b.lo
/-- certainly a > b -/
def certGt (a b : I) : Bool := Q.lt b.hi a.lo
def width (a : I) : Q := a.hi - a.lo
end I

/-- significant bits used by the judges -/
def prec : Nat := 160

/-! ### three-valued answers -/

inductive Tri where
  | yes | no | unk
deriving DecidableEq, Repr, Inhabited

def Tri.ok : Tri → Bool
  | .no => false
  | _ => true

/-- is `x ≤ y` for enclosures x, y -/
def triLe (x y : I) : Tri := if I.certLe x y then .yes else if I.certGt x y then .no else .unk

/-! ### sine bounds -/

/-- a lower bound of sin ε for 0 < ε ≤ 1 :  ε − ε³/4  (Mathlib `Real.sin_gt_sub_cube`) -/
def sinLo (e : Q) : Q := e - (e * e * e) * ⟨1, 4⟩

/-- enclosure of sin t for 0 ≤ t ≤ 2 by the alternating Taylor series: 2m terms below, 2m+1 above
    (terms decrease from the first one on because t² < 6) -/
def sinEncl (t : Q) (m : Nat) : I := Id.run do
  let t2 := t * t
  let mut term := t        -- t^(2k+1)/(2k+1)!
  let mut s := t
  let mut lo := Q.zero
  let mut hi := t
  for k in [1:2*m+1] do
    term := term * t2 * ⟨1, (2 * k) * (2 * k + 1)⟩
    if k % 2 == 1 then
      s := s - term
      lo := s
    else
      s := s + term
      hi := s
  return ⟨lo, hi⟩

/-! ### geometry on exact vectors -/

def idot (a b : IV3) : Int := a.dot b
def inorm2 (a : IV3) : Int := a.dot a

/-- Is the angle between the directions of P and X (both non-zero) at most ε (0 < ε ≤ 1)?
    yes: `P·X > 0` and `|P×X|² ≤ (ε − ε³/4)²·|P|²|X|²`;  no: `P·X ≤ 0` or `|P×X|² > ε²·|P|²|X|²`. -/
def angleLe (P X : IV3) (eps : Q) : Tri :=
  if idot P X ≤ 0 then .no else
  let c : Q := Q.ofInt (inorm2 (P.cross X))
  let m : Q := Q.ofInt (inorm2 P * inorm2 X)
  let sl := sinLo eps
  if Q.le c (sl * sl * m) then .yes
  else if Q.lt (eps * eps * m) c then .no
  else .unk

/-- sin² of the angle between the directions P and X, exactly -/
def sin2Between (P X : IV3) : Q := Q.mk' (inorm2 (P.cross X)) (inorm2 P * inorm2 X).toNat

/-- squared chord from sin² s of the angle and the sign of its cosine -/
def chord2OfSin2 (s : Q) (cosNonneg : Bool) : I :=
  let r := I.sqrt (I.pt (Q.one - s)) prec          -- |cos|
  if cosNonneg then
    -- 2(1 − c) = 2 s / (1 + c)
    I.divNN (I.pt (Q.ofNat 2 * s)) (I.add (I.pt Q.one) r)
  else
    I.add (I.pt (Q.ofNat 2)) (I.scale (Q.ofNat 2) r)

/-- enclosure of the squared chord between the unit vectors P/|P| and X/|X| -/
def chord2 (P X : IV3) : I := chord2OfSin2 (sin2Between P X) (decide (0 ≤ idot P X))

/-- Does the direction X project into the open arc (A,B) of the great circle through A, B
    (shorter arc; N = A×B ≠ 0)? -/
def inWedge (X A B N : IV3) : Bool := decide (0 < det3 A X N) && decide (0 < det3 X B N)

/-- true squared chord distance from direction X to the edge AB, and "attained in the interior" -/
def trueMinDist2 (X A B : IV3) : I × Bool :=
  let N := A.cross B
  let v := I.min (chord2 X A) (chord2 X B)
  if N.isZero then (v, false)
  else if inWedge X A B N then
    -- sin² of the angle between X and the plane
    let d := idot X N
    let q := Q.mk' (d * d) (inorm2 X * inorm2 N).toNat
    (chord2OfSin2 q true, true)
  else (v, false)

/-- true squared chord of the maximum distance from X to the edge AB -/
def trueMaxDist2 (X A B : IV3) : I :=
  I.sub (I.pt (Q.ofNat 4)) (trueMinDist2 X.neg A B).1

/-- |sin| of the angle between direction P and the plane with normal N is at most ε -/
def nearPlane (P N : IV3) (eps : Q) : Tri :=
  let d := idot P N
  let c : Q := Q.ofInt (d * d)
  let m : Q := Q.ofInt (inorm2 P * inorm2 N)
  let sl := sinLo eps
  if Q.le c (sl * sl * m) then .yes else if Q.lt (eps * eps * m) c then .no else .unk

/-- P lies in the closed arc AB of their great circle (sign tests only; P is assumed near the plane) -/
def inArcClosed (P A B : IV3) : Bool :=
  let N := A.cross B
  decide (0 ≤ det3 A P N) && decide (0 ≤ det3 P B N)

/-- exact: do the open shorter arcs (A0,A1) and (B0,B1) cross at a single interior point?
    returns the crossing direction (an integer vector, correctly signed) -/
def exactCrossing (A0 A1 B0 B1 : IV3) : Option IV3 :=
  let NA := A0.cross A1
  let NB := B0.cross B1
  let X := NA.cross NB
  if X.isZero then none else
  let ok (Y : IV3) : Bool := inWedge Y A0 A1 NA && inWedge Y B0 B1 NB
  if ok X then some X else if ok X.neg then some X.neg else none

/-- the same with closed arcs (crossing at an endpoint allowed) -/
def exactCrossingClosed (A0 A1 B0 B1 : IV3) : Option IV3 :=
  let NA := A0.cross A1
  let NB := B0.cross B1
  let X := NA.cross NB
  if X.isZero then none else
  let ok (Y : IV3) : Bool :=
    decide (0 ≤ det3 A0 Y NA) && decide (0 ≤ det3 Y A1 NA) && decide (0 ≤ det3 B0 Y NB) && decide (0 ≤ det3 Y B1 NB)
  -- X and −X can both pass only when all four determinants vanish (X is an endpoint of both edges):
  -- then the side of the vertices decides
  let pos (Y : IV3) : Bool := decide (0 < idot Y ((A0.add A1).add (B0.add B1)))
  if ok X && ok X.neg then (if pos X then some X else some X.neg)
  else if ok X then some X else if ok X.neg then some X.neg else none

end S2.IA
