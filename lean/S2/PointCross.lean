/-
  S2.PointCross — model of `Point.PointCross` of s2/point.go AFTER repair D60 (docs/fixes/fix_D60.diff), core-only,
  together with the exact vectors of r3/precisevector.go it needs (`SZ`, `PV`: moved here unchanged from S2/EdgeNum.lean;
  the namespace stays `S2.EdgeNum`, so every name is what it was).

      x := p.Add(op.Vector).Cross(op.Sub(p.Vector))
      if x.Norm2() >= pointCrossMinNorm2 { return Point{x} }
      ex := r3.PreciseVectorFromVector(p.Vector).Cross(r3.PreciseVectorFromVector(op.Vector))
      if !ex.IsZero() { return Point{ex.Vector()} }
      return Point{p.Ortho()}

  `pointCrossMinNorm2 = 1.6052e-29` (C++ kMinNorm², untyped constant, rounded ONCE to float64 = 0x39f4592bfc9d09d9).
  The exact cross product never rounds (math/big at 2^26 bits); `Vector()` scales by the power of two that brings the largest
  component into [0.5,1), rounds each component to float64 to nearest even (sign of zero kept) and calls the float
  `Normalize()`.  `IsZero` is `Sign() == 0` on all three components (±0 both count).

  `pointCrossOld` is the faithful PRE-repair function (exact-zero test, no fallback); `pointCrossFloat` the raw float formula.
-/
import S2.F64
import S2.STUV
import S2.Exact
import S2.Pred
namespace S2.EdgeNum
open S2 S2.Exact S2.Pred

def fz : F64 := F64.zero false
def zero3 : V3 := ⟨fz, fz, fz⟩

/-! #### exact path: math/big.Float values with their signed zero -/

/-- an exact value `v / 2^k` (k known from context) as big.Float holds it: `nz` = the `neg` flag of
    a zero value (meaningful only when `v = 0`) -/
structure SZ where
  v : Int
  nz : Bool
deriving DecidableEq, Inhabited

namespace SZ
/-- big.Float `neg` flag -/
def isNeg (s : SZ) : Bool := if s.v == 0 then s.nz else decide (s.v < 0)
/-- `SetFloat64` -/
def ofF64 (x : F64) : SZ := ⟨toInt x, x.signBit⟩
/-- big.Float.Mul : `z.neg = x.neg != y.neg`, also for zeros -/
def mul (a b : SZ) : SZ := ⟨a.v * b.v, a.isNeg != b.isNeg⟩
/-- big.Float.Sub in mode ToNearestEven: `(±0) − (±0)` is `−0` only for `(−0) − (+0)`;
    an exact cancellation of non-zero values gives `+0` -/
def sub (a b : SZ) : SZ := ⟨a.v - b.v, a.v == 0 && b.v == 0 && a.nz && !b.nz⟩
/-- `Float64()` of the value `v · 2^e` : one rounding to nearest even -/
def toF64 (s : SZ) (e : Int) : F64 := F64.roundDyadic s.isNeg s.v.natAbs e
end SZ

structure PV where
  x : SZ
  y : SZ
  z : SZ
deriving DecidableEq, Inhabited

/-- `PreciseVectorFromVector` (scale 2^-1074) -/
def PV.ofV3 (v : V3) : PV := ⟨SZ.ofF64 v.x, SZ.ofF64 v.y, SZ.ofF64 v.z⟩
/-- `PreciseVector.Cross` -/
def PV.cross (v o : PV) : PV :=
  ⟨(v.y.mul o.z).sub (v.z.mul o.y), (v.z.mul o.x).sub (v.x.mul o.z), (v.x.mul o.y).sub (v.y.mul o.x)⟩
/-- bit length of |v| : big.Float's `MantExp` exponent of the integer v -/
def SZ.bitLen (s : SZ) : Nat := if s.v == 0 then 0 else s.v.natAbs.log2 + 1
/-- `PreciseVector.Vector()` : the vector is first scaled by the power of two that brings its largest
    component into [0.5, 1) (so the common scale `2^e` of the components does not matter any more),
    then three roundings to float64, then the float `Normalize()`. -/
def PV.toVector (v : PV) (_e : Int) : V3 :=
  let m : Int := (max v.x.bitLen (max v.y.bitLen v.z.bitLen) : Nat)
  (V3.mk (v.x.toF64 (-m)) (v.y.toF64 (-m)) (v.z.toF64 (-m))).normalize
def PV.toIV3 (v : PV) : IV3 := ⟨v.x.v, v.y.v, v.z.v⟩

/-- `PreciseVector.IsZero` : `v.X.Sign() == 0 && v.Y.Sign() == 0 && v.Z.Sign() == 0` -/
def PV.isZero (v : PV) : Bool := v.x.v == 0 && v.y.v == 0 && v.z.v == 0

/-! ### `Point.PointCross` -/

/-- `pointCrossMinNorm2 = 1.6052e-29` as the float64 the untyped Go constant rounds to -/
def pointCrossMinNorm2 : F64 := ⟨0x39f4592bfc9d09d9⟩

/-- the float formula `(p + op) × (op − p)` -/
def pointCrossFloat (p op : V3) : V3 := (p.add op).cross (op.sub p)

/-- the exact fallback of `PointCross`: the exact cross product, converted by `Vector()` (scaled, rounded per component,
    float-normalised), or `p.Ortho()` when the exact product is zero -/
def pointCrossExact (p op : V3) : V3 :=
  let ex := (PV.ofV3 p).cross (PV.ofV3 op)
  if !ex.isZero then ex.toVector (-2148) else p.ortho

/-- `Point.PointCross` (repaired, D60): the float value when its squared norm is at least `pointCrossMinNorm2`,
    else the exact cross product -/
def pointCross (p op : V3) : V3 :=
  let x := (p.add op).cross (op.sub p)
  if F64.ge x.norm2 pointCrossMinNorm2 then x else pointCrossExact p op

/-- `Point.PointCross` BEFORE repair D60: `(p+op) × (op−p)`, or `p.Ortho()` when that is exactly the zero vector -/
def pointCrossOld (p op : V3) : V3 :=
  let x := (p.add op).cross (op.sub p)
  if V3.feq x zero3 then p.ortho else x

/-- THE BRIDGE: above the threshold the repaired function is the float formula -/
theorem pointCross_eq_float_of_ge (p op : V3)
    (h : F64.ge (pointCrossFloat p op).norm2 pointCrossMinNorm2 = true) :
    pointCross p op = pointCrossFloat p op := by
  unfold pointCross pointCrossFloat at *
  simp only [h, if_true]

/-- below the threshold (or NaN) it is the exact fallback -/
theorem pointCross_eq_exact_of_not_ge (p op : V3)
    (h : F64.ge (pointCrossFloat p op).norm2 pointCrossMinNorm2 = false) :
    pointCross p op = pointCrossExact p op := by
  unfold pointCross pointCrossFloat at *
  simp [h]

end S2.EdgeNum
