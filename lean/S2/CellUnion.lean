/-
  S2.CellUnion — executable model of s2/cellunion.go (the id algebra) and the
  leaf-set semantics (`canon`) used as specification and as the oracle's judge.
-/
import S2.CellID
import S2.Hilbert
namespace S2
namespace CellUnion
open CellID

abbrev CU := List CellID

def areSiblings (a b c d : CellID) : Bool :=
  if (a ^^^ b ^^^ c) != d then false else
  let mask := lsb d <<< 1
  let mask := ~~~(mask + (mask <<< 1))
  let idMasked := d &&& mask
  (a &&& mask) == idMasked && (b &&& mask) == idMasked && (c &&& mask) == idMasked && !isFace d

/-- The collapse loop of `Normalize`: `out` is the accepted list, last element first. -/
def collapse : List CellID → CellID → List CellID
  | c :: b :: a :: rest, ci =>
    if areSiblings a b c ci then collapse rest (immediateParent ci) else ci :: c :: b :: a :: rest
  | out, ci => ci :: out

/-- One iteration of the main loop of `Normalize` (`out` reversed). -/
def normStep (out : List CellID) (ci : CellID) : List CellID :=
  match out with
  | last :: _ =>
    if contains last ci then out
    else collapse (out.dropWhile (fun o => contains ci o)) ci
  | [] => collapse [] ci

def sortIDs (cu : CU) : CU := cu.mergeSort (fun a b => a ≤ b)

/-- `Normalize` after sorting. -/
def normalizeSorted (cu : CU) : CU := (cu.foldl normStep []).reverse

def normalize (cu : CU) : CU := normalizeSorted (sortIDs cu)

def isValidCU (cu : CU) : Bool :=
  match cu with
  | [] => true
  | c :: rest => isValid c && go c rest
where
  go : CellID → List CellID → Bool
    | _, [] => true
    | p, c :: rest => isValid c && !(rangeMax p ≥ rangeMin c) && go c rest

def isNormalizedCU (cu : CU) : Bool :=
  let a := cu.toArray
  (List.range a.size).all fun i =>
    isValid a[i]! &&
    (i == 0 || !(rangeMax a[i-1]! ≥ rangeMin a[i]!)) &&
    (i < 3 || !areSiblings a[i-3]! a[i-2]! a[i-1]! a[i]!)

/-- `sort.Search(len, func(i) { return id < cu[i] })`: first index with id < cu[i], assuming sorted.
    Modelled as the real binary search so that it agrees with Go on unsorted input too. -/
def searchGT (a : Array CellID) (id : CellID) : Nat :=
  go a.size 0 a.size
where
  go : Nat → Nat → Nat → Nat
    | 0, i, _ => i
    | fuel+1, i, j =>
      if i < j then
        let h := (i + j) / 2
        if !(id < a[h]!) then go fuel (h+1) j else go fuel i h
      else i

def intersectsCellID (cu : CU) (id : CellID) : Bool :=
  let a := cu.toArray
  let i := searchGT a id
  if i != a.size && rangeMin a[i]! ≤ rangeMax id then true
  else i != 0 && rangeMax a[i-1]! ≥ rangeMin id

def containsCellID (cu : CU) (id : CellID) : Bool :=
  let a := cu.toArray
  let i := searchGT a id
  if i != a.size && rangeMin a[i]! ≤ id then true
  else i != 0 && rangeMax a[i-1]! ≥ id

def containsCU (cu o : CU) : Bool := o.all fun id => containsCellID cu id
def intersectsCU (cu o : CU) : Bool := cu.any fun c => intersectsCellID o c

def lowerBound (a : Array CellID) (b e : Nat) (id : CellID) : Nat :=
  go (e - b) b
where
  go : Nat → Nat → Nat
    | 0, _ => e
    | fuel+1, i => if i < e then (if a[i]! ≥ id then i else go fuel (i+1)) else e

/-- The two-pointer loop of `CellUnionFromIntersection` (before the final Normalize). -/
def intersectionRaw (xl yl : CU) : CU :=
  let x := xl.toArray
  let y := yl.toArray
  (go x y (2 * (x.size + y.size) + 4) 0 0 []).reverse
where
  go (x y : Array CellID) : Nat → Nat → Nat → List CellID → List CellID
    | 0, _, _, acc => acc
    | fuel+1, i, j, acc =>
      if i < x.size && j < y.size then
        let iMin := rangeMin x[i]!
        let jMin := rangeMin y[j]!
        if iMin > jMin then
          if x[i]! ≤ rangeMax y[j]! then go x y fuel (i+1) j (x[i]! :: acc)
          else
            let j' := lowerBound y (j+1) y.size iMin
            let j' := if x[i]! ≤ rangeMax y[j'-1]! then j' - 1 else j'
            go x y fuel i j' acc
        else if jMin > iMin then
          if y[j]! ≤ rangeMax x[i]! then go x y fuel i (j+1) (y[j]! :: acc)
          else
            let i' := lowerBound x (i+1) x.size jMin
            let i' := if y[j]! ≤ rangeMax x[i'-1]! then i' - 1 else i'
            go x y fuel i' j acc
        else
          if x[i]! < y[j]! then go x y fuel (i+1) j (x[i]! :: acc)
          else go x y fuel i (j+1) (y[j]! :: acc)
      else acc

def intersection (x y : CU) : CU := normalize (intersectionRaw x y)

def union (cus : List CU) : CU := normalize cus.flatten

def intersectionWithCellID (x : CU) (id : CellID) : CU :=
  if containsCellID x id then normalize [id]
  else
    let a := x.toArray
    let idmax := rangeMax id
    let start := lowerBound a 0 a.size (rangeMin id)
    normalize (((a.toList.drop start).takeWhile (fun c => c ≤ idmax)))

/-- `cellUnionDifferenceInternal`; the recursion descends at most 30 levels. -/
def differenceInternal (other : CU) : Nat → CellID → List CellID → List CellID
  | 0, _, acc => acc
  | fuel+1, id, acc =>
    if !intersectsCellID other id then id :: acc
    else if !containsCellID other id then
      (childrenList id).foldl (fun acc ch => differenceInternal other fuel ch acc) acc
    else acc

def difference (x y : CU) : CU :=
  (x.foldl (fun acc id => differenceInternal y 32 id acc) []).reverse

/-- Cells from `ChildBeginAtLevel` up to `ChildEndAtLevel` by `Next`. -/
def childrenAtLevel (id : CellID) (lvl : Nat) : List CellID :=
  let b := childBeginAtLevel id lvl
  let step := lsbForLevel lvl <<< 1
  let n := 4 ^ (lvl - level id)
  (List.range n).map fun k => b + UInt64.ofNat k * step

def denormalize (cu : CU) (minLevel levelMod : Nat) : CU :=
  cu.flatMap fun id =>
    let lvl := level id
    let newLevel := if lvl < minLevel then minLevel else lvl
    let newLevel :=
      if levelMod > 1 then
        let nl := newLevel + (maxLevel - (newLevel - minLevel)) % levelMod
        if nl > maxLevel then maxLevel else nl
      else newLevel
    if newLevel == lvl then [id] else childrenAtLevel id newLevel

def leafCellsCovered (cu : CU) : Nat :=
  cu.foldl (fun n c => n + (1 <<< ((maxLevel - level c) <<< 1))) 0

/-- `CellUnionFromRange(begin,end)` for leaf `begin ≤ end`. -/
def fromRange (b e : CellID) : CU :=
  (go 400 (maxTile b e) []).reverse
where
  go : Nat → CellID → List CellID → List CellID
    | 0, _, acc => acc
    | fuel+1, id, acc => if id == e then acc else go fuel (maxTile (next id) e) (id :: acc)

/-! ### Leaf-set semantics

A valid cell covers the leaf ids `rangeMin … rangeMax` (both odd).  The canonical
form of a union is the sorted list of maximal runs `(lo, hi)` of covered leaves. -/

def ranges (cu : CU) : List (Nat × Nat) := cu.map fun c => ((rangeMin c).toNat, (rangeMax c).toNat)

/-- Merge a list of closed leaf intervals sorted by `lo` (leaf ids are odd: neighbours differ by 2). -/
def mergeRuns : List (Nat × Nat) → List (Nat × Nat)
  | [] => []
  | (lo, hi) :: rest => go lo hi rest
where
  go (lo hi : Nat) : List (Nat × Nat) → List (Nat × Nat)
    | [] => [(lo, hi)]
    | (lo', hi') :: rest =>
      if lo' ≤ hi + 2 then go lo (max hi hi') rest
      else (lo, hi) :: go lo' hi' rest

def canon (cu : CU) : List (Nat × Nat) :=
  mergeRuns ((ranges cu).mergeSort (fun a b => a.1 ≤ b.1))

/-- leaf membership, the specification all operations are measured against -/
def coversLeaf (cu : CU) (x : Nat) : Bool := cu.any fun c => (rangeMin c).toNat ≤ x && x ≤ (rangeMax c).toNat

/-- runs-level set operations (on canonical run lists) used by the judge -/
def runsInter : Nat → List (Nat × Nat) → List (Nat × Nat) → List (Nat × Nat)
  | 0, _, _ => []
  | _, [], _ => []
  | _, _, [] => []
  | fuel+1, (a, b) :: xs, (c, d) :: ys =>
    let lo := max a c
    let hi := min b d
    let rest := if b < d then runsInter fuel xs ((c, d) :: ys) else runsInter fuel ((a, b) :: xs) ys
    if lo ≤ hi then (lo, hi) :: rest else rest

def runsDiff : Nat → List (Nat × Nat) → List (Nat × Nat) → List (Nat × Nat)
  | 0, _, _ => []
  | _, [], _ => []
  | _, xs, [] => xs
  | fuel+1, (a, b) :: xs, (c, d) :: ys =>
    if d < a then runsDiff fuel ((a, b) :: xs) ys
    else if b < c then (a, b) :: runsDiff fuel xs ((c, d) :: ys)
    else
      -- overlap
      let left := if a < c then [(a, c - 2)] else []
      if d < b then left ++ runsDiff fuel ((d + 2, b) :: xs) ys
      else left ++ runsDiff fuel xs ((c, d) :: ys)

def runsSubset (xs ys : List (Nat × Nat)) : Bool :=
  xs.all fun (a, b) => ys.any fun (c, d) => c ≤ a && b ≤ d

def runsMeet (xs ys : List (Nat × Nat)) : Bool :=
  xs.any fun (a, b) => ys.any fun (c, d) => max a c ≤ min b d

def runsCount (xs : List (Nat × Nat)) : Nat := xs.foldl (fun n (a, b) => n + (b - a) / 2 + 1) 0

end CellUnion
end S2
