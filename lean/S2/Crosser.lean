/-
  S2.Crosser — the EdgeCrosser of s2/edge_crosser.go as a state machine.  Core-only.

  `St` has exactly the Go fields; `init` = NewEdgeCrosser; `step` executes one public method call
  and returns the new state and the value the method returns.  The method bodies are the pure
  functions `S2.Crossing.chainSign` / `slowSign` (which follow the Go code line by line) applied to
  the fields, followed by the state update the Go code performs (on the fast path the two
  assignments, on the slow path the deferred closure).
-/
import S2.Crossing
namespace S2.Crosser
open S2 S2.Pred S2.Crossing

/-- `type EdgeCrosser struct` -/
structure St where
  a : V3
  b : V3
  aXb : V3          -- stored by NewEdgeCrosser, never read
  aTangent : V3
  bTangent : V3
  c : V3            -- previous vertex of the chain
  acb : Int         -- cached orientation of ACB (0 = Indeterminate = not known)
deriving DecidableEq, Inhabited

/-- `NewEdgeCrosser(a, b)`; `c` and `acb` keep their Go zero values -/
def init (a b : V3) : St :=
  { a := a, b := b, aXb := a.cross b, aTangent := (tangents a b).1, bTangent := (tangents a b).2,
    c := zero3, acb := 0 }

/-- one public method call -/
inductive Op where
  | restartAt (c : V3)
  | chainCrossingSign (d : V3)
  | crossingSign (c d : V3)
  | edgeOrVertexCrossing (c d : V3)
  | edgeOrVertexChainCrossing (d : V3)
deriving DecidableEq, Inhabited

/-- what the call returns -/
inductive Out where
  | none                 -- RestartAt
  | sign (s : Int)       -- Crossing: +1 Cross, 0 MaybeCross, -1 DoNotCross
  | bool (b : Bool)
deriving DecidableEq, Inhabited

/-- `RestartAt(c)` -/
def restartAt (e : St) (c : V3) : St :=
  { e with c := c, acb := -(triageSign e.a e.b c) }

/-- `ChainCrossingSign(d)` -/
def chainCrossingSign (e : St) (d : V3) : St × Int :=
  let (r, acb') := chainSign e.a e.b e.aTangent e.bTangent e.c e.acb d
  ({ e with c := d, acb := acb' }, r)

/-- `CrossingSign(c, d)` -/
def crossingSign (e : St) (c d : V3) : St × Int :=
  let e := if !(V3.feq c e.c) then restartAt e c else e
  chainCrossingSign e d

/-- `EdgeOrVertexChainCrossing(d)` -/
def edgeOrVertexChainCrossing (e : St) (d : V3) : St × Bool :=
  let c := e.c
  let (e', s) := chainCrossingSign e d
  (e', if s == -1 then false else if s == 1 then true else vertexCrossing e.a e.b c d)

/-- `EdgeOrVertexCrossing(c, d)` -/
def edgeOrVertexCrossing (e : St) (c d : V3) : St × Bool :=
  let e := if !(V3.feq c e.c) then restartAt e c else e
  edgeOrVertexChainCrossing e d

def step (e : St) : Op → St × Out
  | .restartAt c => (restartAt e c, .none)
  | .chainCrossingSign d => let (e', s) := chainCrossingSign e d; (e', .sign s)
  | .crossingSign c d => let (e', s) := crossingSign e c d; (e', .sign s)
  | .edgeOrVertexCrossing c d => let (e', r) := edgeOrVertexCrossing e c d; (e', .bool r)
  | .edgeOrVertexChainCrossing d => let (e', r) := edgeOrVertexChainCrossing e d; (e', .bool r)

/-- run a history, collecting the outputs -/
def run (e : St) : List Op → List Out
  | [] => []
  | op :: rest => let (e', o) := step e op; o :: run e' rest

/-- `NewChainEdgeCrosser(a, b, c)` -/
def initChain (a b c : V3) : St := restartAt (init a b) c

/-- Go's stateless `CrossingSign(a,b,c,d)` literally: a fresh chain crosser and one call. -/
def statelessViaCrosser (a b c d : V3) : Int := (chainCrossingSign (initChain a b c) d).2

/-! ### the stateless reading of a history

  The "current first vertex" is the only thing a caller can know about the crosser: it is the
  argument of the last `RestartAt`, or the `d` of the last crossing call.  `spec` answers every call
  with the stateless functions of `S2.Crossing` applied to the fixed edge and (current vertex, d). -/

def specStep (a b : V3) (cur : V3) : Op → V3 × Out
  | .restartAt c => (c, .none)
  | .chainCrossingSign d => (d, .sign (Crossing.crossingSign a b cur d))
  | .crossingSign c d => (d, .sign (Crossing.crossingSign a b c d))
  | .edgeOrVertexCrossing c d => (d, .bool (Crossing.edgeOrVertexCrossing a b c d))
  | .edgeOrVertexChainCrossing d => (d, .bool (Crossing.edgeOrVertexCrossing a b cur d))

def spec (a b : V3) (cur : V3) : List Op → List Out
  | [] => []
  | op :: rest => let (cur', o) := specStep a b cur op; o :: spec a b cur' rest

/-- points mentioned by an op -/
def Op.points : Op → List V3
  | .restartAt c => [c]
  | .chainCrossingSign d => [d]
  | .crossingSign c d => [c, d]
  | .edgeOrVertexCrossing c d => [c, d]
  | .edgeOrVertexChainCrossing d => [d]

/-- a chain call needs a current vertex: the Go contract ("uses the last vertex passed to one of
    the crossing methods (or RestartAt)") is violated by a history that STARTS with a chain call -/
def Op.isChain : Op → Bool
  | .chainCrossingSign _ => true
  | .edgeOrVertexChainCrossing _ => true
  | _ => false

def wellFormed : List Op → Bool
  | [] => true
  | op :: _ => !op.isChain

end S2.Crosser
