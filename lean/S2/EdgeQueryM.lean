/-
  S2.EdgeQueryM — model of the closest / furthest edge query (s2/edge_query.go).

  Three parts, each following the Go control flow statement by statement:

  (a) result post-processing: `EdgeQueryResult.Less`, `sortAndUniqueResults`, the truncation to
      `maxResults` in `findEdges`, the default result of `findEdge`;
  (b) `initCovering` / `addInitialRange` over the sorted cell-id list of the index
      (`index.cells`, iterator = a position, `S2.Locate`), in two variants: the code as repaired
      (`initCovering`) and the code with the stray `break` of defect D7 (`initCoveringD7`);
  (c) the search itself over an ABSTRACT index: `findEdgesInternal`, `addResult`,
      `maybeAddResult` (repaired duplicate filter and the inverted one of defect D9),
      `findEdgesBruteForce`, `findEdgesOptimized`, `processOrEnqueue`, `processEdges`,
      `initQueue`.  Geometry is abstract: a cell is a tree node carrying the value
      `updateDistanceToCell` computes for it, an edge carries its key `(shapeID, edgeID)`, and the
      target's `updateDistanceToEdge` is a function parameter.  Distances are a type `D` with the
      operations of the Go `distance` interface (`less`, `zero`, `infinity`, `sub`); the two
      instantiations `minDist` / `maxDist` mirror `minDistance` / `maxDistance`.

  The option bookkeeping of the query object (which options a call uses, what it restores) is
  modelled in `S2.History` (C13) and not repeated here: every function below takes the effective
  options of the call.
  Core-only.
-/
import S2.CellID
import S2.Locate
namespace S2
namespace EdgeQueryM

/-! ## The `distance` interface -/

/-- the operations of the Go `distance` interface that the query uses.  `sub d e` is
    `d.sub(fromChordAngle(e))`: the error `e` travels as a value of the same type. -/
structure DistI (D : Type) where
  less : D → D → Bool
  zero : D
  infinity : D
  sub : D → D → D

/-- `minDistance` over integers (a chord angle in arbitrary integer units, `top` = 180°):
    `less = <`, `zero = 0`, `infinity = top+1` (anything above `top` plays `+Inf`),
    `sub` = `ChordAngle.Sub` clamped at 0, and identity on infinite / negative values. -/
def minDist (top : Int) : DistI Int where
  less a b := decide (a < b)
  zero := 0
  infinity := top + 1
  sub a e := if a > top ∨ a < 0 then a else if e == 0 then a else if a ≤ e then 0 else a - e

/-- `maxDistance`: `less = >`, `zero = top` (180°), `infinity = -1` (`NegativeChordAngle`),
    `sub` = `ChordAngle.Add` clamped at `top`, identity on infinite / negative values. -/
def maxDist (top : Int) : DistI Int where
  less a b := decide (a > b)
  zero := top
  infinity := -1
  sub a e := if a > top ∨ a < 0 then a else if e == 0 then a else if a + e ≥ top then top else a + e

/-! ## (a) Results and their post-processing -/

/-- `EdgeQueryResult` -/
structure Result (D : Type) where
  dist : D
  shape : Int
  edge : Int
deriving DecidableEq, Repr

/-- `EdgeQueryResult.Less`: by distance, then shape id, then edge id.
    (`e.distance.chordAngle() != other.distance.chordAngle()` is `≠` on `D`.) -/
def Result.less {D : Type} [DecidableEq D] (I : DistI D) (a b : Result D) : Bool :=
  if a.dist ≠ b.dist then I.less a.dist b.dist
  else if a.shape ≠ b.shape then decide (a.shape < b.shape)
  else decide (a.edge < b.edge)

/-- insertion into a list sorted by `lt` (before the first element that is strictly greater is
    NOT what we do: we insert after all elements that are not greater, any stable choice gives the
    same list when `lt` is a strict total order, which is what `sort.Slice` is given). -/
def insertBy {α : Type} (lt : α → α → Bool) (x : α) : List α → List α
  | [] => [x]
  | y :: ys => if lt x y then x :: y :: ys else y :: insertBy lt x ys

/-- `sort.Slice(results, Less)`.  Go does not specify the algorithm; for a strict total order the
    sorted permutation is unique (theorem `sort_unique` in the proofs), so insertion sort is as
    good a model as any. -/
def sortBy {α : Type} (lt : α → α → Bool) : List α → List α
  | [] => []
  | x :: xs => insertBy lt x (sortBy lt xs)

/-- the de-duplication loop of `sortAndUniqueResults`
    `j := 0; for i := 1..: if results[j] == results[i] { continue }; j++; results[j] = results[i]`
    with `last = results[j]`: keeps an element iff it differs from the last element kept. -/
def uniqLoop {α : Type} [DecidableEq α] (last : α) : List α → List α
  | [] => []
  | x :: xs => if last = x then uniqLoop last xs else x :: uniqLoop x xs

def uniqAdj {α : Type} [DecidableEq α] : List α → List α
  | [] => []
  | x :: xs => x :: uniqLoop x xs

/-- `sortAndUniqueResults` (`len ≤ 1` returns the slice unchanged, which is what the general
    path computes as well). -/
def sortAndUniqueResults {D : Type} [DecidableEq D] (I : DistI D) (rs : List (Result D)) : List (Result D) :=
  if rs.length ≤ 1 then rs else uniqAdj (sortBy (Result.less I) rs)

/-- the tail of `findEdges`: sort, de-duplicate, `if len(results) > maxResults { results[:maxResults] }`.
    (`maxResults : Nat`: Go panics on the slice expression for a negative value; the options
    document `MaxResults ≥ 1`.) -/
def postProcess {D : Type} [DecidableEq D] (I : DistI D) (maxResults : Nat) (rs : List (Result D)) : List (Result D) :=
  let rs := sortAndUniqueResults I rs
  if rs.length > maxResults then rs.take maxResults else rs

/-! ## (b) `initCovering` / `addInitialRange` -/

open CellID Locate

/-- `addInitialRange(first, last)`: the covering cell and whether an index-cell pointer is stored
    (`true`) or `nil` (`false`).  `level, _ := CommonAncestorLevel(..)` leaves `level = 0` when
    there is no common ancestor. -/
def addInitialRange (cells : List CellID) (first last : Nat) : CellID × Bool :=
  let f := idAt cells first
  let l := idAt cells last
  if f == l then (f, true)
  else
    let level := (commonAncestorLevel f l).getD 0
    (parent f level, false)

/-- the `for id := …; id != lastID; id = id.Next()` loop of `initCovering`.
    `next` is the position of the iterator `next`; returns its final position and the entries
    appended.  `stray = true` is the code with the stray `break` (defect D7).  `none`: the fuel ran
    out (never for valid cells: at most 5 iterations, see the proofs). -/
def coverLoop (stray : Bool) (cells : List CellID) (lastID : CellID) :
    Nat → CellID → Nat → List (CellID × Bool) → Option (Nat × List (CellID × Bool))
  | 0, _, _, _ => none
  | fuel+1, id, next, acc =>
    if id == lastID then some (next, acc)
    else if rangeMax id < idAt cells next then
      coverLoop stray cells lastID fuel (CellID.next id) next acc            -- continue
    else
      let cellFirst := next
      let next' := seek cells (CellID.next (rangeMax id))
      let cellLast := (Locate.prev next').2
      let acc' := acc ++ [addInitialRange cells cellFirst cellLast]
      if stray then some (next', acc')                                          -- break
      else coverLoop stray cells lastID fuel (CellID.next id) next' acc'

/-- `initCovering` on the sorted cell list of a non-empty index. The Go code is only reached
    with an index of at least one cell (the optimized path needs more edges than the brute-force
    threshold). `fuel = 8` bounds the loop (at most 5 iterations happen for valid cells). -/
def initCoveringGen (stray : Bool) (cells : List CellID) : Option (List (CellID × Bool)) :=
  let next := 0                               -- IteratorBegin
  let last := (Locate.prev cells.length).2    -- IteratorEnd; last.Prev()
  if idAt cells next != idAt cells last then
    let level := match commonAncestorLevel (idAt cells next) (idAt cells last) with
      | none => 0
      | some l => l + 1
    let lastID := parent (idAt cells last) level
    match coverLoop stray cells lastID 8 (parent (idAt cells next) level) next [] with
    | none => none
    | some (next', acc) => some (acc ++ [addInitialRange cells next' last])
  else
    some [addInitialRange cells next last]

/-- the repaired code -/
def initCovering (cells : List CellID) : Option (List (CellID × Bool)) := initCoveringGen false cells
/-- the code with the stray `break` (defect D7) -/
def initCoveringD7 (cells : List CellID) : Option (List (CellID × Bool)) := initCoveringGen true cells

/-! ## (c) The search over an abstract index -/

/-- an edge as the search sees it: its key `(shapeID, edgeID)`; the same key may occur in several
    index cells. -/
structure EdgeKey where
  shape : Int
  edge : Int
deriving DecidableEq, Repr

/-- A cell of the (pruned) cell tree below the initial covering.
    `index cd edges`: a `ShapeIndexCell` with its clipped edges in iteration order;
    `node cd kids`: a proper ancestor of index cells, `kids` = its children that contain at least
    one index cell, in the order `findEdgesOptimized` visits them (child 1, 0, 3, 2).
    `cd lim` is `target.updateDistanceToCell(cell, lim)`: `some x` = `(x, true)`, `none` = not ok.
    (For targets that use `maxError` the value may depend on the limit handed in.) -/
inductive Cell (D : Type) where
  | index (cd : D → Option D) (edges : List EdgeKey) : Cell D
  | node (cd : D → Option D) (kids : List (Cell D)) : Cell D

def Cell.cd {D : Type} : Cell D → D → Option D
  | .index cd _ => cd
  | .node cd _ => cd

/-- effective options of one call plus what the target type contributes -/
structure Opts (D : Type) where
  maxResults : Nat
  distanceLimit : D            -- `fromChordAngle(opts.distanceLimit)`
  maxError : D                 -- `fromChordAngle(opts.maxError)`
  includeInteriors : Bool
  useBruteForce : Bool
  /-- `target.setMaxError(..)`: does the target take advantage of `maxError` -/
  targetUsesMaxError : Bool
  /-- defect D9 switch: `true` = the inverted filter of the unrepaired code -/
  invertedFilter : Bool := false

/-- the abstract index and target -/
structure World (D : Type) where
  /-- `updateDistanceToEdge(edge, dist)`: `some d` = (d, true) -/
  updEdge : EdgeKey → D → Option D
  /-- every edge in brute-force scan order -/
  allEdges : List EdgeKey
  /-- shapes reported by `visitContainingShapes` (already cut at `maxResults` by the callback) -/
  interiors : List Int
  /-- `indexNumEdges < minOptimizedEdges` -/
  small : Bool
  /-- `capBound().IsEmpty()` -/
  emptyTarget : Bool
  /-- the edges of the index cell containing the centre of the target's cap bound
      (`iter.LocatePoint(cb.Center())`), `none` if there is no such cell -/
  located : Option (List EdgeKey)
  /-- the cells `initQueue` hands to `processOrEnqueue` as a function of the current distance
      limit (`indexCovering` when the limit is infinite, else its intersection with the covering
      of the search disc, cleaned up) -/
  roots : D → List (Cell D)

/-- mutable query state -/
structure St (D : Type) where
  limit : D
  results : List (Result D)
  tested : List EdgeKey
  queue : List (D × Cell D)

variable {D : Type} [DecidableEq D]

/-- `addResult` -/
def addResult (I : DistI D) (o : Opts D) (s : St D) (r : Result D) : St D :=
  let s := { s with results := s.results ++ [r] }
  if o.maxResults == 1 then { s with limit := I.sub r.dist o.maxError } else s

/-- `maybeAddResult`.  Repaired: `if avoidDuplicates { if tested { return }; insert }`.
    Unrepaired (D9): `if avoidDuplicates && !tested { return }` and nothing is ever inserted. -/
def maybeAddResult (I : DistI D) (o : Opts D) (w : World D) (avoidDuplicates : Bool) (s : St D) (e : EdgeKey) : St D :=
  if o.invertedFilter then
    if avoidDuplicates && !(s.tested.contains e) then s
    else match w.updEdge e s.limit with
      | some d => addResult I o s ⟨d, e.shape, e.edge⟩
      | none => s
  else
    if avoidDuplicates && s.tested.contains e then s
    else
      let s := if avoidDuplicates then { s with tested := e :: s.tested } else s
      match w.updEdge e s.limit with
      | some d => addResult I o s ⟨d, e.shape, e.edge⟩
      | none => s

/-- `processEdges` -/
def processEdges (I : DistI D) (o : Opts D) (w : World D) (avoid : Bool) (s : St D) (edges : List EdgeKey) : St D :=
  edges.foldl (maybeAddResult I o w avoid) s

/-- `findEdgesBruteForce` (`avoidDuplicates = false`) -/
def findEdgesBruteForce (I : DistI D) (o : Opts D) (w : World D) (s : St D) : St D :=
  processEdges I o w false s w.allEdges

/-- `processOrEnqueue` (`minEdgesToEnqueue = 10`) -/
def processOrEnqueue (I : DistI D) (o : Opts D) (w : World D) (avoid conservative : Bool) (s : St D) (c : Cell D) : St D :=
  let enqueue (s : St D) : St D :=
    -- `dist := e.distanceLimit; if dist, ok = target.updateDistanceToCell(cell, dist); !ok { return }`
    match c.cd s.limit with
    | none => s
    | some x =>
      let d := if conservative then I.sub x o.maxError else x
      { s with queue := s.queue ++ [(d, c)] }
  match c with
  | .index _ edges =>
    if edges.length == 0 then s
    else if edges.length < 10 then processEdges I o w avoid s edges
    else enqueue s
  | .node _ _ => enqueue s

/-- position of the first entry that no other entry is `less` than (the heap's minimum; among
    equal keys `container/heap` may pick another one — the theorems do not depend on the choice) -/
def popMin (I : DistI D) : List (D × Cell D) → Option ((D × Cell D) × List (D × Cell D))
  | [] => none
  | x :: xs =>
    match popMin I xs with
    | none => some (x, [])
    | some (m, rest) => if I.less m.1 x.1 then some (m, x :: rest) else some (x, xs)

/-- the main loop of `findEdgesOptimized`; `none` = fuel exhausted -/
def searchLoop (I : DistI D) (o : Opts D) (w : World D) (avoid conservative : Bool) : Nat → St D → Option (St D)
  | 0, _ => none
  | fuel+1, s =>
    match popMin I s.queue with
    | none => some s
    | some ((d, c), rest) =>
      let s := { s with queue := rest }
      if !(I.less d s.limit) then some { s with queue := [] }
      else match c with
        | .index _ edges => searchLoop I o w avoid conservative fuel (processEdges I o w avoid s edges)
        | .node _ kids =>
          searchLoop I o w avoid conservative fuel (kids.foldl (processOrEnqueue I o w avoid conservative) s)

/-- `initQueue` -/
def initQueue (I : DistI D) (o : Opts D) (w : World D) (avoid conservative : Bool) (s : St D) : St D :=
  if w.emptyTarget then s else
  let s :=
    if o.maxResults == 1 then
      match w.located with
      | some edges => processEdges I o w avoid s edges
      | none => s
    else s
  if o.maxResults == 1 && w.located.isSome && s.limit == I.zero then s
  else (w.roots s.limit).foldl (processOrEnqueue I o w avoid conservative) s

mutual
/-- number of cells of a subtree (bounds the number of queue pops) -/
def Cell.size : Cell D → Nat
  | .index _ _ => 1
  | .node _ kids => 1 + Cell.sizeList kids
def Cell.sizeList : List (Cell D) → Nat
  | [] => 0
  | c :: cs => Cell.size c + Cell.sizeList cs
end

/-- `findEdgesOptimized`; the fuel is the number of cells below the roots plus one -/
def findEdgesOptimized (I : DistI D) (o : Opts D) (w : World D) (avoid conservative : Bool) (s : St D) : Option (St D) :=
  let s := initQueue I o w avoid conservative s
  searchLoop I o w avoid conservative (Cell.sizeList (s.queue.map (·.2)) + 1) s

/-- `findEdgesInternal`; returns the final state (`none` only if the loop fuel ran out, which the
    proofs exclude). -/
def findEdgesInternal (I : DistI D) (o : Opts D) (w : World D) : Option (St D) :=
  let s : St D := { limit := o.distanceLimit, results := [], tested := [], queue := [] }
  if s.limit == I.zero then some s else
  let s := if o.includeInteriors then
      w.interiors.foldl (fun s sh => addResult I o s ⟨I.zero, sh, -1⟩) s
    else s
  if o.includeInteriors && s.limit == I.zero then some s else
  -- `opts.maxError != target.distance().zero().chordAngle() && target.setMaxError(..)`:
  -- the comparison is against the DISTANCE zero (180° for a furthest query), as in the Go code
  let targetUses := o.maxError != I.zero && o.targetUsesMaxError
  let conservative := targetUses &&
    (s.limit == I.infinity || I.less I.zero (I.sub s.limit o.maxError))
  if o.useBruteForce || w.small then
    some (findEdgesBruteForce I o w s)
  else
    let avoid := targetUses && decide (o.maxResults > 1)
    findEdgesOptimized I o w avoid conservative s

/-- `findEdges` -/
def findEdges (I : DistI D) (o : Opts D) (w : World D) : Option (List (Result D)) :=
  (findEdgesInternal I o w).map fun s => postProcess I o.maxResults s.results

/-- `findEdge`: `MaxResults(1)` on a copy, first result or `newEdgeQueryResult` -/
def findEdge (I : DistI D) (o : Opts D) (w : World D) : Option (Result D) :=
  (findEdges I { o with maxResults := 1 } w).map fun rs =>
    match rs with
    | r :: _ => r
    | [] => ⟨I.infinity, -1, -1⟩

/-- `Distance` -/
def distance (I : DistI D) (o : Opts D) (w : World D) : Option D := (findEdge I o w).map (·.dist)

/-- `IsDistanceLess` (and `IsDistanceGreater`, which delegates to it): `MaxResults(1)`,
    `DistanceLimit(limit)`, `MaxError(StraightChordAngle)`; `straight = fromChordAngle(4)`.
    `!IsEmpty()` is `shapeID ≥ 0`. -/
def isDistanceLess (I : DistI D) (straight : D) (o : Opts D) (w : World D) (limit : D) : Option Bool :=
  (findEdge I { o with maxResults := 1, distanceLimit := limit, maxError := straight } w).map
    fun r => decide (r.shape ≥ 0)

end EdgeQueryM
end S2
