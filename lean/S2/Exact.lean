/-
  S2.Exact — exact arithmetic on float64 values (core-only).

  Every finite binary64 is an integer multiple of 2^-1074.  `toInt x` is that integer:
      value(x) = toInt x / 2^1074            (`scale = 2^1074`)
  so a float64 3-vector becomes an integer vector `IV3` at ONE fixed common exponent, and every
  homogeneous polynomial predicate (3×3 determinant, dot products, squared norms, the cosine
  comparisons of s2/predicates.go) is decided exactly by `Int` arithmetic.  This is the model of
  `r3.PreciseVector` (math/big.Float at 2^26 bits of precision never rounds on these inputs:
  the largest intermediate needs < 13000 bits).

  API used by the other packages:
    `toInt`, `scale`, `IV3` (+ `add sub neg dot cross norm2 cmp`), `ofV3`, `det3`, `sgn`,
    `V3.isFinite`, `detSign` (exact orientation sign of three float vectors).
-/
import S2.F64
import S2.STUV
namespace S2.Exact
open S2

/-- the common scale: value(x) = toInt x / scale -/
def scale : Nat := 2 ^ 1074

/-- exact integer `value(x) · 2^1074` of a finite float (garbage for Inf/NaN: callers guard) -/
def toInt (x : F64) : Int := x.toIntAt (-1074)

/-- -1 / 0 / +1 -/
def sgn (i : Int) : Int := Int.sign i

structure IV3 where
  x : Int
  y : Int
  z : Int
deriving BEq, DecidableEq, Inhabited, Repr

namespace IV3
def add (v o : IV3) : IV3 := ⟨v.x + o.x, v.y + o.y, v.z + o.z⟩
def sub (v o : IV3) : IV3 := ⟨v.x - o.x, v.y - o.y, v.z - o.z⟩
def neg (v : IV3) : IV3 := ⟨-v.x, -v.y, -v.z⟩
def smul (k : Int) (v : IV3) : IV3 := ⟨k * v.x, k * v.y, k * v.z⟩
/-- r3.PreciseVector.Dot -/
def dot (v o : IV3) : Int := v.x * o.x + (v.y * o.y + v.z * o.z)
/-- r3.PreciseVector.Cross -/
def cross (v o : IV3) : IV3 :=
  ⟨v.y * o.z - v.z * o.y, v.z * o.x - v.x * o.z, v.x * o.y - v.y * o.x⟩
def norm2 (v : IV3) : Int := v.dot v
def isZero (v : IV3) : Bool := v.x == 0 && v.y == 0 && v.z == 0
/-- lexicographic comparison, the exact counterpart of r3.Vector.Cmp -/
def cmp (v o : IV3) : Int :=
  if v.x < o.x then -1 else if v.x > o.x then 1
  else if v.y < o.y then -1 else if v.y > o.y then 1
  else if v.z < o.z then -1 else if v.z > o.z then 1 else 0
end IV3

/-- exact 3×3 determinant  a · (b × c)  (rows a, b, c) -/
def det3 (a b c : IV3) : Int := a.dot (b.cross c)

def finite3 (v : V3) : Bool := v.x.isFinite && v.y.isFinite && v.z.isFinite

/-- float vector → exact integer vector at scale 2^1074 -/
def ofV3 (v : V3) : IV3 := ⟨toInt v.x, toInt v.y, toInt v.z⟩

/-- exact sign of det(a,b,c) for float vectors (all finite) -/
def detSign (a b c : V3) : Int := sgn (det3 (ofV3 a) (ofV3 b) (ofV3 c))

/-- exact sign of a·b for float vectors -/
def dotSign (a b : V3) : Int := sgn ((ofV3 a).dot (ofV3 b))

end S2.Exact
