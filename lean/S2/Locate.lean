/-
  S2.Locate — cell location in the sorted cell-id list of a ShapeIndex
  (s2/shapeindex.go: ShapeIndexIterator.refresh / seek / Prev / LocatePoint / LocateCellID).

  The iterator state relevant here is `position`; `id` is a function of it (`refresh`).
  `cells` models `index.cells` (a sorted []CellID).  `sort.Search` is modelled loop by loop.
  Core-only.
-/
import S2.CellID
namespace S2
namespace Locate
open CellID

inductive Relation | indexed | subdivided | disjoint
deriving Repr, DecidableEq

def Relation.toNat : Relation → Nat
  | .indexed => 0 | .subdivided => 1 | .disjoint => 2

/-- `sort.Search(n, f)`:
    `i, j := 0, n; for i < j { h := int(uint(i+j) >> 1); if !f(h) { i = h + 1 } else { j = h } }; return i` -/
def sortSearchLoop (f : Nat → Bool) : Nat → Nat → Nat → Nat
  | 0, i, _ => i
  | fuel+1, i, j =>
    if i < j then
      let h := (i + j) >>> 1
      if !f h then sortSearchLoop f fuel (h + 1) j else sortSearchLoop f fuel i h
    else i

/-- `fuel = n + 1` is never exhausted: the interval `[i,j)` shrinks in every iteration. -/
def sortSearch (n : Nat) (f : Nat → Bool) : Nat := sortSearchLoop f (n + 1) 0 n

/-- `refresh`: the id at a position (`SentinelCellID` at or after the end). -/
def idAt (cells : List CellID) (pos : Nat) : CellID := cells.getD pos sentinel

/-- `Done()` -/
def done (cells : List CellID) (pos : Nat) : Bool := idAt cells pos == sentinel

/-- `seek(target)`: `sort.Search(len(cells), func(i) { return cells[i] >= target })` -/
def seek (cells : List CellID) (target : CellID) : Nat :=
  sortSearch cells.length (fun i => decide (cells.getD i sentinel ≥ target))

/-- `Prev()`: (moved?, new position) -/
def prev (pos : Nat) : Bool × Nat := if pos ≤ 0 then (false, pos) else (true, pos - 1)

/-- `LocatePoint(p)` with `target = cellIDFromPoint(p)`; returns (found, final position). -/
def locatePoint (cells : List CellID) (target : CellID) : Bool × Nat :=
  let pos := seek cells target
  if !done cells pos && rangeMin (idAt cells pos) ≤ target then (true, pos)
  else
    let (moved, pos) := prev pos
    if moved && rangeMax (idAt cells pos) ≥ target then (true, pos) else (false, pos)

/-- `LocateCellID(target)`; returns (relation, final position). -/
def locateCellID (cells : List CellID) (target : CellID) : Relation × Nat :=
  let pos := seek cells (rangeMin target)
  if !done cells pos && (idAt cells pos ≥ target && rangeMin (idAt cells pos) ≤ target) then (.indexed, pos)
  else if !done cells pos && idAt cells pos ≤ rangeMax target then (.subdivided, pos)
  else
    let (moved, pos) := prev pos
    if moved && rangeMax (idAt cells pos) ≥ target then (.indexed, pos) else (.disjoint, pos)

end Locate
end S2
