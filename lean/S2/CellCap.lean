/-
  S2.CellCap — executable model of `Cell.CapBound` (s2/cell.go) and `padCapBound` (s2/rect.go), line by line.

      cap := CapFromPoint(Point{faceUVToXYZ(int(c.face), c.uv.Center().X, c.uv.Center().Y).Normalize()})
      for k := 0; k < 4; k++ { cap = cap.AddPoint(c.Vertex(k)) }
      return padCapBound(cap, cellCapBoundSlack)                       // cellCapBoundSlack = 6

      func padCapBound(c Cap, slack float64) Cap {
          c = c.Expanded(s1.Angle(slack * dblEpsilon))
          c.radius = c.radius.Expanded(c.radius.MaxAngleError() + c.radius.MaxPointError())
          return c }

  Everything is bit-exact soft-float (`S2.CapF64.Cap`: centre `V3`, radius = squared chord length `F64`) EXCEPT the single libm
  call: `Cap.Expanded(a)` converts the angle with `s1.ChordAngleFromAngle(a) = (2·sin(a/2))²` (`math.Sin`).  As in `S2.CapM.expanded`
  the converted value `dc` is a PARAMETER of the model.  For `a = 6·2^-52` every faithful `sin` returns `sin(3·2^-52) = 3·2^-52`
  (the cubic term is 2^-103 relative), so Go's value is `capSlackChord = 36·2^-104` exactly (checked against /repo, see DELIVER).
  Core-only.
-/
import S2.CellM
import S2.CapM
namespace S2
namespace CellM
open CellID Hilbert STUV CapF64

/-- `c.uv.Center()` (r2.Rect.Center: the two r1.Interval.Center `0.5 * (Lo + Hi)`) -/
def uvCenter (c : Cell) : F64 × F64 := (Ivl.center c.uv.1, Ivl.center c.uv.2)

/-- the un-normalised axis `faceUVToXYZ(face, c.uv.Center().X, c.uv.Center().Y)` -/
def capAxisRaw (c : Cell) : V3 := faceUVToXYZ c.face (uvCenter c).1 (uvCenter c).2

/-- the centre of the bounding cap -/
def capCenter (c : Cell) : V3 := (capAxisRaw c).normalize

/-- the cap before `padCapBound`: `CapFromPoint(centre)` followed by `AddPoint(c.Vertex(k))`, k = 0..3 -/
def capBoundRaw (c : Cell) : Cap :=
  ((((CapM.fromPoint (capCenter c) : Cap).addPoint (vertex c 0)).addPoint (vertex c 1)).addPoint (vertex c 2)).addPoint (vertex c 3)

/-- `ChordAngle.MaxAngleError` = `dblEpsilon * float64(c)` (package s1's `dblEpsilon = 2.220446049e-16`) -/
def maxAngleError (r : F64) : F64 := Chord.dblEpsilonS1 * r

/-- the second line of `padCapBound`: `r.Expanded(r.MaxAngleError() + r.MaxPointError())` -/
def padRadius (r : F64) : F64 := Chord.expanded r (maxAngleError r + Chord.maxPointError r)

/-- `padCapBound(c, slack)`; `dc = ChordAngleFromAngle(s1.Angle(slack * dblEpsilon))` -/
def padCapBound (c : Cap) (dc : F64) : Cap :=
  let c1 := c.expanded dc
  ⟨c1.center, padRadius c1.radius⟩

/-- `Cell.CapBound()`; `dc = ChordAngleFromAngle(s1.Angle(6 * dblEpsilon))` -/
def capBound (c : Cell) (dc : F64) : Cap := padCapBound (capBoundRaw c) dc

/-- `s1.Angle(cellCapBoundSlack * dblEpsilon)` = `6 * 2^-52` (s2's `dblEpsilon` is exactly 2^-52) -/
def capSlackAngle : F64 := F64.mul ⟨0x4018000000000000⟩ dblEpsilon

/-- Go's `s1.ChordAngleFromAngle(6 * 2^-52)` = `(2 * 3·2^-52)²` = `36 · 2^-104` = `1.125 · 2^-99` -/
def capSlackChord : F64 := ⟨0x39c2000000000000⟩

end CellM
end S2
