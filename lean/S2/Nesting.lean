/-
  S2.Nesting — model of the loop-nesting discovery of s2/polygon.go (core-only, executable):
  `Polygon.initNested`, `loopMap.insertLoop`, `Polygon.initLoops`, `Loop.IsHole`, `Polygon.LastDescendant`,
  `Polygon.Parent`.

  Loops are abstract ids (`Nat`); the geometric test `a.ContainsNested(b)` is an abstract decidable
  function `c a b : Bool` ("loop a contains loop b").

  Representation.  Go keeps `loopMap = map[*Loop][]*Loop` (loop ↦ ORDERED list of its immediate
  children, key `nil` = the virtual root).  Here the same data is a first-child / next-sibling
  forest:
        `Forest.node x kids rest`   ⇔   x is the head of a children list, `lm[x] = roots kids`,
                                         `rest` = the remaining entries of the same children list.
  `lm[nil]` is the top-level forest.  The order of every children list is preserved exactly, so
  the output order of `initLoops` is reproduced exactly (tied by the oracle op `nest`).

  * `insertLoop`:   Go descends from `parent = nil`: while some child of `parent` (FIRST in list
    order) satisfies `child.ContainsNested(newLoop)`, `parent = child`.  Then every child of the
    final parent with `newLoop.ContainsNested(child)` is moved (order kept) to `lm[newLoop]`, and
    `newLoop` is appended at the END of the parent's children list.
  * `initLoops`:    explicit stack, children pushed in reverse order ⇒ pre-order traversal visiting
    children in list order; `child.depth = depth(parent) + 1`, top level depth 0.
  * `PolygonFromLoops` does NOT invert loops by sign (the C++ `InitNested` does not either); the
    hole status is `depth & 1 != 0`.
  * `initNested` with exactly one loop takes the `initOneLoop` path: depth 0.  The general path
    gives the same answer (`initNested_single`).
-/
namespace S2.Nesting

/-- ordered forest in first-child / next-sibling form -/
inductive Forest where
  | nil : Forest
  | node (id : Nat) (kids : Forest) (rest : Forest) : Forest
deriving Repr, DecidableEq, Inhabited

namespace Forest

/-- ids in pre-order -/
def ids : Forest → List Nat
  | nil => []
  | node x k r => x :: (ids k ++ ids r)

/-- the roots of the sibling chain (one Go children list) -/
def roots : Forest → List Nat
  | nil => []
  | node x _ r => x :: roots r

/-- append one tree at the end of a children list: `append(children, newLoop)` -/
def snoc (x : Nat) (kids : Forest) : Forest → Forest
  | nil => node x kids nil
  | node y k r => node y k (snoc x kids r)

variable (c : Nat → Nat → Bool) (new : Nat)

/-- the children moved below the new loop: those with `newLoop.ContainsNested(child)`, order kept -/
def inside : Forest → Forest
  | nil => nil
  | node x k r => if c new x then node x k (inside r) else inside r

/-- the children that stay -/
def outside : Forest → Forest
  | nil => nil
  | node x k r => if c new x then outside r else node x k (outside r)

/-- second half of `insertLoop`, once the parent is found: `f` is the parent's children list -/
def place (f : Forest) : Forest := snoc new (inside c new f) (outside c new f)

/-- first half of `insertLoop`: descend below the FIRST child that contains the new loop
    (`none` = no child of this list contains it, i.e. the descent stops at this parent). -/
def descend : Forest → Option Forest
  | nil => none
  | node x k r =>
    if c x new then
      some (node x (match descend k with | some k' => k' | none => place c new k) r)
    else (descend r).map (node x k)

/-- `lm.insertLoop(newLoop, nil)` -/
def insertLoop (f : Forest) : Forest := (descend c new f).getD (place c new f)

/-- `initLoops`: pre-order traversal, `depth(child) = depth(parent) + 1` -/
def flat (d : Nat) : Forest → List (Nat × Nat)
  | nil => []
  | node x k r => (x, d) :: (flat (d + 1) k ++ flat d r)

end Forest

/-- the loop map after inserting the loops in the given order -/
def buildForest (c : Nat → Nat → Bool) (order : List Nat) : Forest :=
  order.foldl (fun f x => Forest.insertLoop c x f) Forest.nil

/-- `Polygon.initNested`: (loop id, depth) in the final order of `p.loops` -/
def initNested (c : Nat → Nat → Bool) (order : List Nat) : List (Nat × Nat) :=
  match order with
  | [x] => [(x, 0)]                                 -- initOneLoop
  | _ => (buildForest c order).flat 0

/-- `Loop.IsHole` : `depth & 1 != 0` -/
def isHole (depth : Nat) : Bool := depth &&& 1 != 0

/-- `Polygon.LastDescendant(k)` on the list of depths (k ≥ 0): index of the last entry of the
    maximal run of depths `> depth[k]` that follows position `k`. -/
def lastDescendant (depths : List Nat) (k : Nat) : Nat :=
  let d := depths.getD k 0
  k + ((depths.drop (k + 1)).takeWhile (fun e => e > d)).length

/-- `Polygon.Parent(k)`: the nearest earlier entry with a smaller depth (`none` at depth 0) -/
def parent (depths : List Nat) (k : Nat) : Option Nat :=
  let d := depths.getD k 0
  if d == 0 then none else
    let before := (depths.take k).reverse          -- positions k-1, k-2, …
    let skipped := (before.takeWhile (fun e => e ≥ d)).length
    if skipped < k then some (k - 1 - skipped) else none

/-- `Polygon.Parent(k)` AS WRITTEN in polygon.go: the backward scan skips entries with
    `depth <= own depth` (the C++ original skips `depth >= own depth`), so it walks past the real
    parent; result -1 = "no parent" at depth 0, otherwise the index where the scan stops (can be -1
    with ok = true).  Recorded as an observation outside the text of C07 (see DELIVER.md). -/
def parentGo (depths : List Nat) (k : Nat) : Int × Bool :=
  let d := depths.getD k 0
  if d == 0 then (-1, false) else
    let before := (depths.take k).reverse
    let skipped := (before.takeWhile (fun e => e ≤ d)).length
    ((k : Int) - 1 - skipped, true)

end S2.Nesting
