/-
  S2.CovererRegions — the two `Region` implementations whose predicates are exact cell-id arithmetic,
  as instances of the abstract `S2.Coverer.Region`:

    * `Cell`       (s2/cell.go):       `c.ContainsCell(oc)   = c.id.Contains(oc.id)`
                                       `c.IntersectsCell(oc) = c.id.Intersects(oc.id)`
    * `*CellUnion` (s2/cellunion.go):  `cu.ContainsCell(c)   = cu.ContainsCellID(c.id)`
                                       `cu.IntersectsCell(c) = cu.IntersectsCellID(c.id)`   (binary search)
      — this one is `S2.Coverer.cellUnionRegion` (it is needed by the re-cover branch of
      `normalizeCovering` and therefore lives in `S2.Coverer`).

  `CellUnionBound()` of both types is `CapBound().CellUnionBound()`, float geometry; it enters the
  coverer model only as the list `bound` (and, in the re-cover recursion, as the function `geo`).
  `RegionKind` + `regionOf` is the one place where the oracle (`Oracle.C05`, region kinds
  `cell` / `cu` / `cub`) and the theorems (`S2Proofs.Properties.C05_Cells`) take the model region from.
  Core-only.
-/
import S2.Coverer
namespace S2
namespace Coverer
open CellID CellUnion

/-- a `Cell` used as a `Region` (`Cell.ContainsCell`, `Cell.IntersectsCell`) -/
def cellRegion (id : CellID) : Region := ⟨fun c => contains id c, fun c => intersects id c⟩

/-- the regions with exact id predicates -/
inductive RegionKind where
  | cell (id : CellID)
  | cellUnion (cells : CU)
  deriving Repr, DecidableEq

/-- the model `Region` of a cell / cell-union region -/
def regionOf : RegionKind → Region
  | .cell id => cellRegion id
  | .cellUnion cells => cellUnionRegion cells

/-- the cells of the region as a cell union (its leaf set is the point set of the region) -/
def RegionKind.cells : RegionKind → CU
  | .cell id => [id]
  | .cellUnion cells => cells

/-- `rc.Covering(region)` / `rc.InteriorCovering(region)` from `region.CellUnionBound()` on:
    `initialCandidates` derives the start cells by `temp.FastCovering(region)` (`startCellsRec`),
    `geo cu` = `(&cu).CellUnionBound()` for the re-cover branch of `normalizeCovering`. -/
def coveringFromBound (fuel : Nat) (geo : CU → CU) (o : Options) (interior : Bool) (R : Region) (bound : CU) : CU :=
  coveringWith heapOps o interior R (startCellsRec fuel geo o bound)

/-- `rc.CellUnion(region)` / `rc.InteriorCellUnion(region)` from `region.CellUnionBound()` on -/
def cellUnionFromBound (fuel : Nat) (geo : CU → CU) (o : Options) (interior : Bool) (R : Region) (bound : CU) : CU :=
  cellUnionWith heapOps o interior R (startCellsRec fuel geo o bound)

end Coverer
end S2
