/-
  S2.Approx — models for property C20 (approximation operators), core-only.

  * `subsampleVertices`  : the loop of `Polyline.SubsampleVertices` (s2/polyline.go) over an abstract
                           `findEndVertex` and an abstract vertex equality (Go `==` on `Point`).
  * `findEndVertex`      : the control flow of `findEndVertex` over abstract geometry (distance from the
                           origin, wedge state) with the real float comparisons of the guards.
  * `appendProjected` / `appendUnprojected` : the recursive bisection of s2/edge_tessellator.go over an abstract
                           projection, abstract midpoint / interpolation and an abstract acceptance test
                           (`estimateMaxError(pa,a,pb,b) <= scaledTolerance`).
                           TERMINATION: the Go code has NO depth bound (the comment "maximum recursion depth
                           < 45" is an expectation about the error estimate, not a check); if the estimate never
                           drops below the tolerance (e.g. projection rounding error above the tolerance) the Go
                           recursion does not terminate.  The model therefore takes FUEL and returns `none` when
                           the fuel runs out; all theorems are about `some` results.
  * `wrapCoord` / `wrapDestination` / `interpolate` : bit-exact soft-float models of s2/projections.go
                           (`math.Remainder` is exact: `F64.remainder`).
  * snap functions       : `cellPoint` (= `CellID.Point()`), `snapCellID` (= `CellIDSnapper.SnapPoint`),
                           `minSnapRadiusForLevel`, `levelForMaxSnapRadius` (via `Metric.MinLevel`),
                           `minSnapRadiusForExponent` — bit-exact soft-float.  `IntLatLngSnapper.SnapPoint` and
                           `exponentForMaxSnapRadius` use libm (atan2, sin, cos, log10) and are not modelled;
                           the arithmetic between them (`snapDegreeCoord`: degrees, `math.Round`, grid) is.
-/
import S2.F64
import S2.F64Extra
import S2.STUV
namespace S2.Approx
open S2

/-! ## SubsampleVertices -/

/-- The `for index := 0; index+1 < len(p); { … }` loop of `SubsampleVertices`, as the stream of indices it
    appends.  `n = len(p)`, `fev index = findEndVertex(p, clampedTolerance, index)`,
    `same i j = (p[i] == p[j])` (Go struct `==`: IEEE on the three coordinates).
    The Go loop runs until `index+1 >= n`; it terminates only because `findEndVertex` returns an index larger
    than its argument, so the model carries fuel (`n` suffices under that contract: `subsampleFrom_fuel`). -/
def subsampleFrom (n : Nat) (fev : Nat → Nat) (same : Nat → Nat → Bool) : Nat → Nat → List Nat
  | 0, _ => []
  | fuel + 1, index =>
    if index + 1 < n then
      let next := fev index
      -- "Don't create duplicate adjacent vertices."
      (if same next index then [] else [next]) ++ subsampleFrom n fev same fuel next
    else []

/-- `Polyline.SubsampleVertices`: `nil` for an empty polyline, otherwise index 0 followed by the loop output. -/
def subsampleVertices (n : Nat) (fev : Nat → Nat) (same : Nat → Nat → Bool) : List Nat :=
  if n < 1 then [] else 0 :: subsampleFrom n fev same n 0

/-! ## findEndVertex (control flow) -/

def piOver2 : F64 := ⟨0x3FF921FB54442D18⟩
def fzero : F64 := F64.zero false

/-- the geometry `findEndVertex` uses, abstract: `dist o c = origin.Distance(p[c])`, a wedge state `W`
    (an `s1.Interval`), `inWedge w o c = currentWedge.Contains(atan2(direction of p[c] in the frame of p[o]))`,
    `restrict w o c tol d = currentWedge.Intersection(target)`. -/
structure FEVGeom (W : Type) where
  dist : Nat → Nat → F64
  full : W
  inWedge : W → Nat → Nat → Bool
  restrict : W → Nat → Nat → F64 → F64 → W

/-- the `for index++; index < len(p); index++` loop; returns the value of `index` at loop exit -/
def fevLoop {W : Type} (G : FEVGeom W) (n : Nat) (tol : F64) (origin : Nat) : Nat → Nat → W → F64 → Nat
  | 0, index, _, _ => index
  | fuel + 1, index, w, last =>
    if index < n then
      let d := G.dist origin index
      if F64.gt d piOver2 && F64.gt last fzero then index
      else if F64.lt d last && F64.gt last tol then index
      else if F64.le d tol then fevLoop G n tol origin fuel (index + 1) w d
      else if !G.inWedge w origin index then index
      else fevLoop G n tol origin fuel (index + 1) (G.restrict w origin index tol d) d
    else index

/-- `findEndVertex(p, tolerance, index)`: "back up by one vertex" -/
def findEndVertex {W : Type} (G : FEVGeom W) (n : Nat) (tol : F64) (index : Nat) : Nat :=
  fevLoop G n tol index n (index + 1) G.full fzero - 1

/-! ## EdgeTessellator -/

/-- what the tessellator needs: `S` = points on the sphere, `P` = points in the plane -/
structure TessOps (S P : Type) where
  project : S → P
  unproject : P → S
  wrapDest : P → P → P                 -- projection.WrapDestination(a, b)
  interpHalf : P → P → P               -- projection.Interpolate(0.5, pa, pb)
  midpoint : S → S → S                 -- Point{a.Add(b.Vector).Normalize()}
  accept : P → S → P → S → Bool        -- estimateMaxError(pa, a, pb, b) <= scaledTolerance

/-- an accepted leaf of the bisection: the arguments of the `estimateMaxError` call that passed -/
structure Seg (S P : Type) where
  pa : P
  a : S
  pb : P
  b : S
deriving DecidableEq, Repr

/-- the accepted leaves of `appendProjected(pa, a, pbIn, b, …)`, left to right.
    (Repaired code, commit 9410333: the right half continues from the vertex the left half actually emitted,
    `vertices[len(vertices)-1]` = the `pb` of the last leaf of the left half, not from `pmid`.) -/
def projectedSegs {S P : Type} (O : TessOps S P) : Nat → P → S → P → S → Option (List (Seg S P))
  | 0, _, _, _, _ => none
  | fuel + 1, pa, a, pbIn, b =>
    let pb := O.wrapDest pa pbIn
    if O.accept pa a pb b then some [⟨pa, a, pb, b⟩]
    else
      let mid := O.midpoint a b
      let pmid := O.wrapDest pa (O.project mid)
      match projectedSegs O fuel pa a pmid mid with
      | some l =>
        match l.getLast? with
        | some sl =>
          match projectedSegs O fuel sl.pb mid pb b with
          | some r => some (l ++ r)
          | none => none
        | none => none            -- unreachable: a successful half has at least one leaf
      | none => none

/-- `EdgeTessellator.appendProjected`, statement by statement (threading `vertices`) -/
def appendProjected {S P : Type} (O : TessOps S P) : Nat → P → S → P → S → List P → Option (List P)
  | 0, _, _, _, _, _ => none
  | fuel + 1, pa, a, pbIn, b, vertices =>
    let pb := O.wrapDest pa pbIn
    if O.accept pa a pb b then some (vertices ++ [pb])
    else
      let mid := O.midpoint a b
      let pmid := O.wrapDest pa (O.project mid)
      match appendProjected O fuel pa a pmid mid vertices with
      | some vs =>
        match vs.getLast? with
        | some last => appendProjected O fuel last mid pb b vs   -- vertices[len(vertices)-1]
        | none => none            -- Go: index out of range; unreachable (the left half appended a vertex)
      | none => none

/-- `EdgeTessellator.AppendProjected(a, b, vertices)` -/
def AppendProjected {S P : Type} (O : TessOps S P) (fuel : Nat) (a b : S) (vertices : List P) : Option (List P) :=
  let pa0 := O.project a
  let (pa, vertices) := match vertices.getLast? with
    | none => (pa0, [pa0])
    | some l => (O.wrapDest l pa0, vertices)
  appendProjected O fuel pa a (O.project b) b vertices

def unprojectedSegs {S P : Type} (O : TessOps S P) : Nat → P → S → P → S → Option (List (Seg S P))
  | 0, _, _, _, _ => none
  | fuel + 1, pa, a, pbIn, b =>
    let pb := O.wrapDest pa pbIn
    if O.accept pa a pb b then some [⟨pa, a, pb, b⟩]
    else
      let pmid := O.interpHalf pa pb
      let mid := O.unproject pmid
      match unprojectedSegs O fuel pa a pmid mid, unprojectedSegs O fuel pmid mid pb b with
      | some l, some r => some (l ++ r)
      | _, _ => none

/-- `EdgeTessellator.appendUnprojected` -/
def appendUnprojected {S P : Type} (O : TessOps S P) : Nat → P → S → P → S → List S → Option (List S)
  | 0, _, _, _, _, _ => none
  | fuel + 1, pa, a, pbIn, b, vertices =>
    let pb := O.wrapDest pa pbIn
    if O.accept pa a pb b then some (vertices ++ [b])
    else
      let pmid := O.interpHalf pa pb
      let mid := O.unproject pmid
      match appendUnprojected O fuel pa a pmid mid vertices with
      | some vs => appendUnprojected O fuel pmid mid pb b vs
      | none => none

/-- `EdgeTessellator.AppendUnprojected(pa, pb, vertices)` -/
def AppendUnprojected {S P : Type} (O : TessOps S P) (fuel : Nat) (pa pb : P) (vertices : List S) : Option (List S) :=
  let a := O.unproject pa
  let b := O.unproject pb
  let vertices := if vertices.isEmpty then [a] else vertices
  appendUnprojected O fuel pa a pb b vertices

/-- `NewEdgeTessellator`: the angle that is handed to `s1.ChordAngleFromAngle`,
    `tessellationScaleFactor * maxAngle(tolerance, minTessellationTolerance)` (repaired code, commit 041e3e4;
    `scaledToleranceArgUnscaled` is what the code computed before).  `ChordAngleFromAngle` itself uses `math.Sin`
    and is judged by enclosure (op `c20scaled`). -/
def minTessellationTolerance : F64 := ⟨0x3D3C25C268497682⟩   -- 1e-13
def tessellationScaleFactor : F64 := ⟨0x3FEAD35A5DA3B5CB⟩    -- 0.83829992569888509
def maxAngle (a b : F64) : F64 := if F64.gt b a then b else a  -- s2/util.go maxAngle(x, others...)
def scaledToleranceArg (tol : F64) : F64 := tessellationScaleFactor * maxAngle tol minTessellationTolerance
def scaledToleranceArgUnscaled (tol : F64) : F64 := maxAngle tol minTessellationTolerance

/-! ## projections.go: wrapping and interpolation (bit-exact) -/

/-- one coordinate of `wrapDestination` -/
def wrapCoord (a x w : F64) : F64 :=
  if F64.gt w fzero && F64.gt (F64.abs (x - a)) (F64.half * w) then a + F64.remainder (x - a) w else x

/-- `wrapDestination(a, b, wrapDistance)` -/
def wrapDestination (a b wrap : F64 × F64) : F64 × F64 :=
  (wrapCoord a.1 b.1 wrap.1, wrapCoord a.2 b.2 wrap.2)

/-- `WrapDistance()` of both projections: `{xWrap, 0}` with `xWrap = 2 * scale` -/
def wrapDistance (scale : F64) : F64 × F64 := (F64.two * scale, fzero)

/-- `Interpolate(f, a, b) = a.Mul(1 - f).Add(b.Mul(f))` (both projections) -/
def interpolate (f : F64) (a b : F64 × F64) : F64 × F64 :=
  let g := F64.one - f
  (a.1 * g + b.1 * f, a.2 * g + b.2 * f)

/-! ## snap functions -/

/-- exact power of two as a float, `-1022 ≤ k ≤ 1023` -/
def pow2 (k : Int) : F64 := ⟨UInt64.ofNat ((k + 1023).toNat) <<< 52⟩

/-- `CellID.rawPoint()` -/
def cellRawPoint (ci : CellID) : V3 :=
  let (f, si, ti) := Hilbert.faceSiTi ci
  let sc : F64 := pow2 (-31)            -- 0.5 / MaxSize
  STUV.faceUVToXYZ f (STUV.stToUV (sc * F64.ofNat si)) (STUV.stToUV (sc * F64.ofNat ti))

/-- `CellID.Point()` -/
def cellPoint (ci : CellID) : V3 := (cellRawPoint ci).normalize

/-- `CellIDSnapper.SnapPoint`: `CellFromPoint(point).id.Parent(sf.level).Point()` -/
def snapCellID (level : Nat) (p : V3) : V3 := cellPoint (CellID.parent (STUV.cellIDFromPoint p) level)

def maxDiagDeriv : F64 := ⟨0x4003825D570AAC93⟩   -- MaxDiagMetric.Deriv = 2.438654594434021032
def fourEps : F64 := ⟨0x3CD0000000000000⟩        -- 4 * dblEpsilon (dblEpsilon = 2^-52 in this port)

/-- `Metric.Value(level)` for a metric of dimension 1: `math.Ldexp(deriv, -level)` (exact for level ≤ 30) -/
def metricValue1 (deriv : F64) (level : Nat) : F64 := deriv * pow2 (-(level : Int))

/-- `CellIDSnapper.minSnapRadiusForLevel` -/
def minSnapRadiusForLevel (level : Nat) : F64 := F64.half * metricValue1 maxDiagDeriv level + fourEps

/-- `NewCellIDSnapper().SnapRadius()`: `NewCellIDSnapper() = CellIDSnapperForLevel(MaxLevel)` (repaired code,
    commit 63aa3dd; before, the radius was left at 0). -/
def newCellIDSnapperRadius : F64 := minSnapRadiusForLevel 30

/-- `math.Ilogb` of a finite non-zero float: ⌊log2 |x|⌋ -/
def ilogb (x : F64) : Int := (x.mant.log2 : Int) + x.expo

/-- `Metric.MinLevel(val)` for dimension 1 (`>> 0`), `val` finite -/
def minLevel1 (deriv val : F64) : Nat :=
  if F64.lt val fzero then 30 else
  let q := val / deriv
  if q.isZero then 30            -- Ilogb(0) = MinInt32, level = huge, clamped
  else if q.isInf || q.isNaN then 0
  else
    let level : Int := -(ilogb q)
    if level > 30 then 30 else if level < 0 then 0 else level.toNat

/-- `CellIDSnapper.levelForMaxSnapRadius` -/
def levelForMaxSnapRadius (r : F64) : Nat := minLevel1 maxDiagDeriv (F64.two * (r - fourEps))

def degree : F64 := ⟨0x3F91DF46A2529D39⟩          -- s1.Degree
def invSqrt2 : F64 := ⟨0x3FE6A09E667F3BCD⟩        -- float64(1 / math.Sqrt2)
def intLatLngErr : F64 := ⟨0x3CEC74B2334F2346⟩    -- float64((9*math.Sqrt2 + 1.5) * dblEpsilon)

/-- `math.Pow10(e)` for 0 ≤ e ≤ 22 (exact) -/
def pow10 (e : Nat) : F64 := F64.ofNat (10 ^ e)

/-- `IntLatLngSnapper.minSnapRadiusForExponent` -/
def minSnapRadiusForExponent (e : Nat) : F64 := degree * (invSqrt2 / pow10 e) + intLatLngErr

/-- `math.Round` as an integer: nearest integer, halves away from zero (finite argument).  Exact: computed on
    the mantissa, no float addition. -/
def roundHalfAwayInt (x : F64) : Int :=
  if !x.isFinite then 0 else
  let e := x.expo
  let k : Nat :=
    if e ≥ 0 then x.mant * 2 ^ e.toNat
    else
      let p := 2 ^ (-e).toNat
      let q := x.mant / p
      if 2 * (x.mant % p) ≥ p then q + 1 else q
  if x.signBit then -(k : Int) else k

/-- `math.Round(x)` as a float (`Round(-0.3) = -0`, non-finite values are returned unchanged) -/
def roundHalfAway (x : F64) : F64 :=
  if !x.isFinite then x else
  let k := roundHalfAwayInt x
  if k == 0 then F64.zero x.signBit else F64.ofInt k

/-- `Angle.Degrees()`: `float64(a / Degree)` -/
def toDegrees (a : F64) : F64 := a / degree

/-- one coordinate of `IntLatLngSnapper.SnapPoint` (repaired code, commit 63aa3dd), from the angle `LatLngFromPoint`
    returned (radians; `math.Atan2` is not modelled) to the integer grid coordinate and the angle handed to
    `PointFromLatLng`:  `k = math.Round(a.Degrees() * from)`,  `LatLngFromDegrees(k * to) = Angle(k * to) * Degree`
    with `from = 10^e`, `to = 1 / from`. -/
def snapDegreeCoord (e : Nat) (a : F64) : Int × F64 :=
  let from' := pow10 e
  let to := F64.one / from'
  let x := toDegrees a * from'
  (roundHalfAwayInt x, (roundHalfAway x * to) * degree)

end S2.Approx
