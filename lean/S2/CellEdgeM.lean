/-
  S2.CellEdgeM — executable model of the edge / cell targets of s2/cell.go, line by line:
  `DistanceToEdge`, `MaxDistanceToEdge`, `DistanceToCell`, `MaxDistanceToCell`.

  They are compositions of functions that are already modelled bit-exactly:
    * `Cell.Distance`, `Cell.MaxDistance`, `Cell.Vertex`            — `S2.CellM`
    * `NewChainEdgeCrosser`, `ChainCrossingSign`                     — `S2.Crosser` (state machine of s2/edge_crosser.go)
    * `UpdateMinDistance`, `UpdateMaxDistance`                       — `S2.EdgeNum`
    * `minChordAngle`, `maxChordAngle`, `r2.Rect.Intersects`         — `S2.CellM`
  A chord angle is its `float64` (squared chord length); `s1.InfChordAngle()` = +Inf, `s1.NegativeChordAngle` = −1,
  `s1.RightChordAngle` = 2, `s1.StraightChordAngle` = 4; `DoNotCross` = −1, `MaybeCross` = 0, `Cross` = +1.
  Core-only (linked into the oracle executable).
-/
import S2.CellM
import S2.Crosser
import S2.EdgeNum
namespace S2
namespace CellEdgeM
open CellM

/-- the loop `for i := 0; i < 4; i++ { if crosser.ChainCrossingSign(c.Vertex(i)) != DoNotCross { return 0 } }` of
    `DistanceToEdge`, on the list of the remaining vertices: `true` = some call did not answer `DoNotCross`
    (the calls after the first such answer are not made) -/
def anyCrossing (e : Crosser.St) : List V3 → Bool
  | [] => false
  | v :: rest =>
    let r := Crosser.chainCrossingSign e v
    if r.2 != -1 then true else anyCrossing r.1 rest

/-- the four cell vertices `c.Vertex(0..3)` -/
def vertices (c : Cell) : List V3 := [vertex c 0, vertex c 1, vertex c 2, vertex c 3]

/-- the loop `for i := 0; i < 4; i++ { minDist, _ = UpdateMinDistance(c.Vertex(i), a, b, minDist) }` -/
def vertexChain (a b : V3) (minDist : F64) (vs : List V3) : F64 :=
  vs.foldl (fun m v => (EdgeNum.updateMinDistancePub v a b m).1) minDist

/-- `func (c Cell) DistanceToEdge(a, b Point) s1.ChordAngle` -/
def distanceToEdge (c : Cell) (a b : V3) : F64 :=
  -- minDist := minChordAngle(c.Distance(a), c.Distance(b))
  let minDist := minChord (distance c a) [distance c b]
  -- if minDist == 0 { return minDist }
  if F64.feq minDist fzero then minDist
  -- crosser := NewChainEdgeCrosser(a, b, c.Vertex(3)); for i … ChainCrossingSign(c.Vertex(i)) != DoNotCross → return 0
  else if anyCrossing (Crosser.initChain a b (vertex c 3)) (vertices c) then fzero
  -- for i … minDist, _ = UpdateMinDistance(c.Vertex(i), a, b, minDist)
  else vertexChain a b minDist (vertices c)

/-- `func (c Cell) MaxDistanceToEdge(a, b Point) s1.ChordAngle` -/
def maxDistanceToEdge (c : Cell) (a b : V3) : F64 :=
  let maxDist := maxChord (maxDistance c a) [maxDistance c b]
  if F64.le maxDist F64.two then maxDist
  else F64.four - distanceToEdge c (a.mul negOne) (b.mul negOne)

/-- the 32 calls of the double loop of `DistanceToCell` / `MaxDistanceToCell`, in the order of the Go code:
    for i, for j: `(va[i], vb[j], vb[(j+1)&3])` then `(vb[i], va[j], va[(j+1)&3])` -/
def pairCalls (va vb : List V3) : List (V3 × V3 × V3) :=
  (List.range 4).flatMap fun i => (List.range 4).flatMap fun j =>
    [ (va[i]!, vb[j]!, vb[(j + 1) % 4]!), (vb[i]!, va[j]!, va[(j + 1) % 4]!) ]

/-- `func (c Cell) DistanceToCell(target Cell) s1.ChordAngle` -/
def distanceToCell (c target : Cell) : F64 :=
  -- if c.face == target.face && c.uv.Intersects(target.uv) { return 0 }
  if c.face == target.face && Rect2.intersects c.uv target.uv then fzero
  else
    (pairCalls (vertices c) (vertices target)).foldl
      (fun m t => (EdgeNum.updateMinDistancePub t.1 t.2.1 t.2.2 m).1) (F64.inf false)

/-- `s1.NegativeChordAngle` -/
def negativeChord : F64 := ⟨0xBFF0000000000000⟩

/-- `func (c Cell) MaxDistanceToCell(target Cell) s1.ChordAngle` -/
def maxDistanceToCell (c target : Cell) : F64 :=
  -- antipodalUV := r2.Rect{X: target.uv.Y, Y: target.uv.X}
  let antipodalUV : Rect2 := (target.uv.2, target.uv.1)
  -- if int(c.face) == oppositeFace(int(target.face)) && c.uv.Intersects(antipodalUV) { return s1.StraightChordAngle }
  if c.face == (target.face + 3) % 6 && Rect2.intersects c.uv antipodalUV then F64.four
  else
    (pairCalls (vertices c) (vertices target)).foldl
      (fun m t => (EdgeNum.updateMaxDistance t.1 t.2.1 t.2.2 m).1) negativeChord

end CellEdgeM
end S2
