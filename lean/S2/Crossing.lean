/-
  S2.Crossing — model of s2/edge_crossings.go (CrossingSign, VertexCrossing, EdgeOrVertexCrossing,
  AngleContainsVertex), of the pure bodies of the EdgeCrosser methods of s2/edge_crosser.go
  (ChainCrossingSign / crossingSign, as functions of the crosser fields), and of the pieces of
  s2/point.go they use (PointCross, Ortho, referenceDir).  Core-only.

  Crossing results are `Int`:  +1 = Cross, 0 = MaybeCross, -1 = DoNotCross
  (the Go enum is Cross = 0, MaybeCross = 1, DoNotCross = 2; the oracle translates).
  Directions are `Int` -1 / 0 / +1 as in `S2.Pred`.

  The code that exists (this Go port, not the C++ original):
    * `NewEdgeCrosser` computes BOTH tangents eagerly.  Before the repair of finding D48 it used
      `norm := a.PointCross(b)`, which is NOT normalised (|norm| = 2 sin(angle AB), or an arbitrary
      unit orthogonal vector when the float `(a+b)×(b-a)` is exactly zero — also for nearly antipodal
      a, b with a×b ≠ 0, where the tangents then point anywhere).  The repaired code normalises
      `(a+b)×(b-a)` and leaves both tangents zero when its squared norm is below `0x1p-80`.
      There is no `haveTangents` flag.  The field `aXb` is stored and never read:
      `ChainCrossingSign` calls `triageSign(e.a, e.b, d)`, which recomputes `a.Cross(b).Dot(d)`.
    * `maxError := (1.5 + 1/math.Sqrt(3)) * dblEpsilon` is evaluated at RUN TIME in float64
      (math.Sqrt is a function call, so this is not a Go constant expression).
    * the slow path `crossingSign` updates `e.c`, `e.acb` in a `defer` closure that reads the
      variable `bda` AFTER it may have been overwritten by `expensiveSign`.
    * point equality is Go `==` on float triples (IEEE: -0 == +0, NaN != NaN) = `V3.feq`.
-/
import S2.F64
import S2.STUV
import S2.Exact
import S2.Pred
import S2.PointCross
namespace S2.Crossing
open S2 S2.Exact S2.Pred

/-! ### s2/point.go -/

def zero3 : V3 := ⟨F64.zero false, F64.zero false, F64.zero false⟩

/-- `Ortho(a)` of s2/point.go (NOT r3.Vector.Ortho): cross product with a fixed slightly skewed axis -/
def s2Ortho (a : V3) : V3 :=
  let t0 : F64 := (Q.mk 12 1000).toF64      -- 0.012
  let t1 : F64 := (Q.mk 53 10000).toF64     -- 0.0053
  let t2 : F64 := (Q.mk 457 100000).toF64   -- 0.00457
  let temp : V3 := match a.largestComponent with
    | 0 => ⟨t0, t1, F64.one⟩
    | 1 => ⟨F64.one, t1, t2⟩
    | _ => ⟨t0, F64.one, t2⟩
  (a.cross temp).normalize

/-- `Point.referenceDir` -/
def referenceDir (a : V3) : V3 := s2Ortho a

/-- `Point.PointCross` (repaired, D60) : `(p+op) × (op-p)` when its float squared norm is at least `pointCrossMinNorm2`,
    else the EXACT cross product converted back by `PreciseVector.Vector()`, or `p.Ortho()` (the r3 one) when the exact product
    is zero.  One model for the whole development: `S2.EdgeNum.pointCross` (S2/PointCross.lean). -/
abbrev pointCross (p op : V3) : V3 := EdgeNum.pointCross p op

/-- `Point.PointCross` BEFORE repair D60 (exact-zero test of the float value, no exact fallback) -/
abbrev pointCrossOld (p op : V3) : V3 := EdgeNum.pointCrossOld p op

/-! ### EdgeCrosser pieces as pure functions of the crosser fields -/

/-- `dblEpsilon` as a float64 -/
def dblEpsilon : F64 := qDblEpsilon.toF64

/-- `maxError := (1.5 + 1/math.Sqrt(3)) * dblEpsilon`, float64 arithmetic at run time -/
def maxError : F64 :=
  ((⟨0x3FF8000000000000⟩ : F64) + F64.one / F64.sqrt F64.three) * dblEpsilon

/-- `minTangentNorm2 = 0x1p-80` -/
def minTangentNorm2 : F64 := ⟨0x3AF0000000000000⟩

/-- the two tangents computed by `NewEdgeCrosser` : (aTangent, bTangent).
    Repaired code (finding D48): the normal `(a+b) × (b-a)` is normalised, and when its float squared
    norm is below `minTangentNorm2` both tangents stay the Go zero value (the test of `tangentReject`
    can then not succeed). -/
def tangents (a b : V3) : V3 × V3 :=
  let norm := (a.add b).cross (b.sub a)
  if F64.ge norm.norm2 minTangentNorm2 then
    let norm := norm.normalize
    (a.cross norm, norm.cross b)
  else (zero3, zero3)

/-- the outward-tangent early rejection of `crossingSign` -/
def tangentReject (aT bT c d : V3) : Bool :=
  (F64.gt (c.dot aT) maxError && F64.gt (d.dot aT) maxError) ||
  (F64.gt (c.dot bT) maxError && F64.gt (d.dot bT) maxError)

/-- Body of `(*EdgeCrosser).crossingSign(d, bda)` (the slow path) as a function of the fields
    `a b aTangent bTangent c acb`.  Returns (result, value of the local `bda` when the deferred
    closure runs); the deferred closure then sets `e.c = d`, `e.acb = -bda`. -/
def slowSign (a b aT bT c : V3) (acb : Int) (d : V3) (bda : Int) : Int × Int :=
  if tangentReject aT bT c d then (-1, bda)
  else if V3.feq a c || V3.feq a d || V3.feq b c || V3.feq b d then (0, bda)
  else if V3.feq a b || V3.feq c d then (-1, bda)
  else
    let acb : Int := if acb == 0 then -(expensiveSign a b c) else acb
    let bda : Int := if bda == 0 then expensiveSign a b d else bda
    if bda != acb then (-1, bda)
    else
      let cbd : Int := -(robustSign c d b)
      if cbd != acb then (-1, bda)
      else
        let dac : Int := robustSign c d a
        if dac != acb then (-1, bda) else (1, bda)

/-- Body of `(*EdgeCrosser).ChainCrossingSign(d)`: returns (result, new value of `e.acb`);
    the new value of `e.c` is always `d`. -/
def chainSign (a b aT bT c : V3) (acb : Int) (d : V3) : Int × Int :=
  let bda := triageSign a b d
  if acb == -bda && bda != 0 then (-1, -bda)
  else
    let (r, bda') := slowSign a b aT bT c acb d bda
    (r, -bda')

/-! ### s2/edge_crossings.go -/

/-- `CrossingSign(a,b,c,d)` = `NewChainEdgeCrosser(a,b,c).ChainCrossingSign(d)`:
    `RestartAt(c)` sets `acb = -triageSign(a,b,c)`. -/
def crossingSign (a b c d : V3) : Int :=
  let (aT, bT) := tangents a b
  (chainSign a b aT bT c (-(triageSign a b c)) d).1

/-- `VertexCrossing(a,b,c,d)` over any `OrderedCCW` -/
def vertexCrossingWith (occw : V3 → V3 → V3 → V3 → Bool) (a b c d : V3) : Bool :=
  if V3.feq a b || V3.feq c d then false
  else if V3.feq a c then V3.feq b d || occw (referenceDir a) d b a
  else if V3.feq b d then occw (referenceDir b) c a b
  else if V3.feq a d then V3.feq b c || occw (referenceDir a) c b a
  else if V3.feq b c then occw (referenceDir b) d a b
  else false

/-- `VertexCrossing(a,b,c,d)` -/
def vertexCrossing (a b c d : V3) : Bool := vertexCrossingWith orderedCCW a b c d

/-- `EdgeOrVertexCrossing(a,b,c,d)` -/
def edgeOrVertexCrossing (a b c d : V3) : Bool :=
  let s := crossingSign a b c d
  if s == -1 then false
  else if s == 1 then true
  else vertexCrossing a b c d

/-- `AngleContainsVertex(a,b,c)` -/
def angleContainsVertex (a b c : V3) : Bool :=
  !(orderedCCW (referenceDir b) c a b)

/-! ### the specification: four-orientation criterion in exact arithmetic -/

/-- two vertices from different edges are the same point (Go `==`) -/
def sharesEndpoint (a b c d : V3) : Bool :=
  V3.feq a c || V3.feq a d || V3.feq b c || V3.feq b d

/-- The four triangles ACB, CBD, BDA, DAC have the same non-zero orientation, with the exact sign
    `E` (for the library: `Pred.exactDecision`, the exact determinant sign with the symbolic
    perturbation, 0 iff two of the points coincide). -/
def fourSameWith (E : V3 → V3 → V3 → Int) (a b c d : V3) : Bool :=
  E a c b != 0 && E c b d == E a c b && E b d a == E a c b && E d a c == E a c b

/-- `exactCrossing` over any exact sign -/
def exactCrossingWith (E : V3 → V3 → V3 → Int) (a b c d : V3) : Int :=
  if sharesEndpoint a b c d then 0 else if fourSameWith E a b c d then 1 else -1

/-- The specification of `CrossingSign`: MaybeCross iff the edges share an endpoint, otherwise Cross
    iff the four-orientation criterion holds in exact arithmetic with the library's perturbation. -/
def exactCrossing (a b c d : V3) : Int := exactCrossingWith exactDecision a b c d

/-- specification of `VertexCrossing` / `EdgeOrVertexCrossing` with all orientations exact -/
def exactVertexCrossing (a b c d : V3) : Bool :=
  vertexCrossingWith (orderedCCWWith exactDecision) a b c d

def exactEdgeOrVertexCrossing (a b c d : V3) : Bool :=
  let s := exactCrossing a b c d
  if s == -1 then false else if s == 1 then true else exactVertexCrossing a b c d

end S2.Crossing
