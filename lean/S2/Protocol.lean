/-
  S2.Protocol — the lazy-build locking protocol of ShapeIndex (property C14), core-only.

  N threads (N arbitrary) each run the same *program* — a list of `Instr` given as DATA, regenerated
  from the Go AST of `maybeApplyUpdates` by `translator_c14` into `S2/Generated/ProtocolIR.lean`,
  followed by reader accesses of the cell map — against the shared state
      status (atomic word), mu (owner), pending (are there un-applied additions), cells.
  Interleaving semantics, sequentially consistent atomics (Go memory model: sync/atomic operations
  behave as if executed in a sequentially consistent order; Lock/Unlock synchronise).
  Non-atomic accesses of `cells` take TWO steps (begin / end) so that "one thread writes while
  another reads" is a reachable-state predicate (`Race`).

  A thread is represented by its *continuation* (the instructions still to execute), so that
  well-formedness is a structural predicate on lists and no pc arithmetic is needed.
-/
namespace S2.Protocol

inductive St | stale | updating | fresh
deriving DecidableEq, Repr, Inhabited

inductive Instr
  | sched (k : Nat)            -- verifSchedPoint(k): no effect
  | ifFreshSkip (n : Nat)      -- `if atomic.LoadInt32(&s.status) != fresh {` : load; when fresh skip the next n
  | lock                       -- s.mu.Lock()
  | unlock                     -- s.mu.Unlock()
  | apply                      -- s.applyUpdatesInternal(): writes cellMap/cells iff something is pending
  | storeStatus (v : St)       -- atomic.StoreInt32(&s.status, v)
  | loadStatus                 -- atomic.LoadInt32(&s.status) whose value is only returned (IsFresh)
  | readCells                  -- a reader-side access of cells / cellMap (iterator refresh, seek, …)
  | writeShapes                -- mutator: s.shapes[...] = …, s.nextID…   (Add / Reset; not a query)
  | writeCells                 -- mutator: s.cellMap = …, s.cells = nil    (Reset)
deriving DecidableEq, Repr, Inhabited

abbrev Prog := List Instr

/-- ghost phase of a thread (a summary of what it has executed) -/
inductive Phase | start | entered | locked0 | locked1 | stored | post
deriving DecidableEq, Repr, Inhabited

structure Thread where
  k : Prog            -- continuation
  ph : Phase
  mid : Bool          -- in the middle of the non-atomic access that is the head of `k`
  readsOK : Bool      -- every completed read saw the complete index
deriving DecidableEq, Repr, Inhabited

structure Shared where
  status : St
  owner : Option Nat
  pending : Bool      -- pendingAdditionsPos < len(shapes)
  complete : Bool     -- cells hold every shape
  applied : Nat       -- number of applications that wrote
  fault : Bool        -- Unlock of a mutex not held, or a mutator instruction in a query program
deriving DecidableEq, Repr, Inhabited

structure Cfg where
  sh : Shared
  th : Nat → Thread

def upd (f : Nat → Thread) (i : Nat) (t : Thread) : Nat → Thread := fun j => if j = i then t else f j

/-- ghost phase transition -/
def nextPhase (ph : Phase) (ins : Instr) (fresh : Bool) : Phase :=
  match ins with
  | .ifFreshSkip _ => if fresh then .post else .entered
  | .lock => .locked0
  | .apply => if ph == .locked0 then .locked1 else ph
  | .storeStatus .fresh => if ph == .locked1 then .stored else ph
  | .unlock => .post
  | _ => ph

/-- thread `i` has executed `ins`: new shared state, continuation, ghost phase -/
def adv (c : Cfg) (i : Nat) (ins : Instr) (s' : Shared) (fresh : Bool) (k' : Prog) (ok : Bool) : Option Cfg :=
  some ⟨s', upd c.th i ⟨k', nextPhase (c.th i).ph ins fresh, false, ok⟩⟩

/-- one step of thread `i`; `none` = finished or blocked -/
def stepThread (i : Nat) (c : Cfg) : Option Cfg :=
  let t := c.th i
  let s := c.sh
  match t.k with
  | [] => none
  | ins :: rest =>
    match ins with
    | .sched _ => adv c i ins s false rest t.readsOK
    | .ifFreshSkip n =>
      if s.status == .fresh then adv c i ins s true (rest.drop n) t.readsOK
      else adv c i ins s false rest t.readsOK
    | .lock => if s.owner.isNone then adv c i ins { s with owner := some i } false rest t.readsOK else none
    | .unlock =>
      if s.owner == some i then adv c i ins { s with owner := none } false rest t.readsOK
      else adv c i ins { s with fault := true } false rest t.readsOK
    | .apply =>
      if t.mid then
        adv c i ins { s with pending := false, complete := true, applied := s.applied + 1 } false rest t.readsOK
      else if s.pending then some ⟨s, upd c.th i { t with mid := true }⟩      -- begin the write
      else adv c i ins s false rest t.readsOK                                   -- nothing pending: no write
    | .storeStatus v => adv c i ins { s with status := v } false rest t.readsOK
    | .loadStatus => adv c i ins s false rest t.readsOK
    | .readCells =>
      if t.mid then adv c i ins s false rest (t.readsOK && s.complete)
      else some ⟨s, upd c.th i { t with mid := true }⟩                          -- begin the read
    | .writeShapes => adv c i ins { s with fault := true } false rest t.readsOK
    | .writeCells => adv c i ins { s with fault := true } false rest t.readsOK

def Step (N : Nat) (c c' : Cfg) : Prop := ∃ i, i < N ∧ stepThread i c = some c'

inductive Reach (N : Nat) (c0 : Cfg) : Cfg → Prop
  | refl : Reach N c0 c0
  | step {c c'} : Reach N c0 c → Step N c c' → Reach N c0 c'

def isWriter (t : Thread) : Bool := t.mid && t.k.head? == some .apply

/-- a data race on the cell map: a writer in mid-write while another thread is in mid-access -/
def Race (N : Nat) (c : Cfg) : Prop :=
  ∃ i j, i < N ∧ j < N ∧ i ≠ j ∧ isWriter (c.th i) = true ∧ (c.th j).mid = true

def done (t : Thread) : Bool := t.k.isEmpty

/-- initial configuration: every thread about to run `p`; the index either already built or with
    pending additions (then status is stale, as `Add` stored it) -/
def init (p : Prog) (pending : Bool) : Cfg :=
  ⟨⟨if pending then .stale else .fresh, none, pending, !pending, 0, false⟩,
   fun _ => ⟨p, .start, false, true⟩⟩

/-! ### Well-formedness: structural, decidable -/

/-- after the protocol: only schedule points and reads -/
def Post : Prog → Bool
  | [] => true
  | .sched _ :: t => Post t
  | .readCells :: t => Post t
  | _ => false

/-- status stored, lock still held: schedule points, then Unlock, then `Post` -/
def Stored : Prog → Bool
  | .sched _ :: t => Stored t
  | .unlock :: t => Post t
  | _ => false

/-- lock held, updates applied: further (no-op) applications allowed, then the store of fresh -/
def Locked1 : Prog → Bool
  | .sched _ :: t => Locked1 t
  | .apply :: t => Locked1 t
  | .storeStatus .fresh :: t => Stored t
  | _ => false

/-- lock held, nothing applied yet: the first application must come before the store -/
def Locked0 : Prog → Bool
  | .sched _ :: t => Locked0 t
  | .apply :: t => Locked1 t
  | _ => false

/-- inside the guarded block, lock not yet taken -/
def Entered : Prog → Bool
  | .sched _ :: t => Entered t
  | .lock :: t => Locked0 t
  | _ => false

/-- the whole program: schedule points, then the status check guarding a block of the above shape;
    the skip target must be a `Post` continuation -/
def Start : Prog → Bool
  | .sched _ :: t => Start t
  | .ifFreshSkip n :: t => Entered t && Post (t.drop n) && decide (n ≤ t.length)
  | _ => false

/-- "status is checked before Lock; every write to cells happens between Lock and Unlock; the store
    of fresh precedes Unlock and follows the writes; readers touch cells only after the protocol" -/
def WellFormed (p : Prog) : Bool := Start p

def shapeOK : Phase → Prog → Bool
  | .start => Start | .entered => Entered | .locked0 => Locked0
  | .locked1 => Locked1 | .stored => Stored | .post => Post

/-! ### Executable helpers for the oracle -/

/-- run thread `i` while it can step, at most `fuel` steps, stopping *before* a schedule point
    (after having executed at least one instruction) -/
def runToSched (i : Nat) : Nat → Bool → Cfg → Cfg
  | 0, _, c => c
  | fuel + 1, moved, c =>
    match (c.th i).k with
    | .sched _ :: _ => if moved then c else
        match stepThread i c with
        | some c' => runToSched i fuel true c'
        | none => c
    | _ =>
      match stepThread i c with
      | some c' => runToSched i fuel true c'
      | none => c

/-- where a thread is parked: `some k` at schedule point k -/
def parkedAt (t : Thread) : Option Nat :=
  match t.k with
  | .sched k :: _ => some k
  | _ => none

def blocked (i : Nat) (c : Cfg) : Bool :=
  match (c.th i).k with
  | .lock :: _ => !(c.sh.owner.isNone) && c.sh.owner != some i
  | _ => false

end S2.Protocol
