/-
  S2.Codec.Prim — byte-level primitives of s2/encode.go (little-endian fixed width ints and
  floats, uvarint of encoding/binary), zig-zag (s2/pointcompression.go), bit interleaving
  (s2/interleave.go) and the N-th derivative coder (s2/nthderivative.go).

  Bytes are `List UInt8`.  An encoder is a function into `Bytes` (Go: the bytes written to
  the `io.Writer`; `bytes.Buffer` never fails).  A decoder is `Dec α = Bytes → Option (α × Bytes)`:
  `none` exactly where the Go decoder ends with `d.err != nil` (the Go decoder's error is
  sticky: once set every later read is a no-op, and every caller returns the error, so the
  observable result "error" is the `none` of the option monad).
  Core-only: linked into the oracle executable.
-/
namespace S2
namespace Codec

abbrev Bytes := List UInt8

/-! ## decoder monad -/

def Dec (α : Type) : Type := Bytes → Option (α × Bytes)

namespace Dec
@[inline] def pure (a : α) : Dec α := fun bs => some (a, bs)
@[inline] def bind (m : Dec α) (f : α → Dec β) : Dec β := fun bs =>
  match m bs with
  | none => none
  | some (a, r) => f a r
/-- Go: `d.err = errors.New(…)` -/
@[inline] def fail : Dec α := fun _ => none
instance : Monad Dec where
  pure := Dec.pure
  bind := Dec.bind
end Dec

/-! ## little-endian fixed width (binary.Write / binary.Read with binary.LittleEndian) -/

/-- the `k` low-order bytes of `x`, least significant first -/
def leBytes : Nat → Nat → Bytes
  | 0, _ => []
  | k+1, x => UInt8.ofNat (x % 256) :: leBytes k (x / 256)

/-- value of a little-endian byte string -/
def leVal : Bytes → Nat
  | [] => 0
  | b :: bs => b.toNat + 256 * leVal bs

/-- read `k` bytes (error on short input: io.EOF / io.ErrUnexpectedEOF) -/
def readLE (k : Nat) : Dec Nat := fun bs =>
  if bs.length < k then none else some (leVal (bs.take k), bs.drop k)

def writeUint8 (x : UInt8) : Bytes := [x]
def writeUint32 (x : UInt32) : Bytes := leBytes 4 x.toNat
def writeUint64 (x : UInt64) : Bytes := leBytes 8 x.toNat
/-- `writeInt8` of a small non-negative constant (the only use: version numbers) -/
def writeInt8 (x : Nat) : Bytes := leBytes 1 x
/-- Go `writeInt32(int32(x))` for a Go `int` `x ≥ 0`: the low 32 bits in two's complement -/
def writeInt32OfNat (x : Nat) : Bytes := leBytes 4 (x % 4294967296)
/-- Go `writeInt64(int64(len))` for a length -/
def writeInt64OfNat (x : Nat) : Bytes := leBytes 8 (x % 18446744073709551616)
def writeBool (b : Bool) : Bytes := leBytes 1 (if b then 1 else 0)
/-- float64 as its IEEE bit pattern -/
def writeFloat64Bits (bits : UInt64) : Bytes := leBytes 8 bits.toNat

def readUint8 : Dec UInt8 := fun bs =>
  match bs with
  | [] => none
  | b :: r => some (b, r)
def readUint32 : Dec UInt32 := do let v ← readLE 4; pure (UInt32.ofNat v)
def readUint64 : Dec UInt64 := do let v ← readLE 8; pure (UInt64.ofNat v)
/-- `readInt8` as the unsigned byte (callers compare with small positive constants) -/
def readInt8 : Dec Nat := readLE 1
/-- `readInt64` as a signed value -/
def readInt64 : Dec Int := do
  let v ← readLE 8
  pure (if v ≥ 9223372036854775808 then (v : Int) - 18446744073709551616 else v)
/-- `readBool`: `val == 1` -/
def readBool : Dec Bool := do let v ← readLE 1; pure (v == 1)
def readFloat64Bits : Dec UInt64 := readUint64

/-! ## uvarint (encoding/binary PutUvarint / ReadUvarint, go1.23) -/

/-- `PutUvarint`: `for x >= 0x80 { buf[i] = byte(x) | 0x80; x >>= 7 }; buf[i] = byte(x)`.
    (`byte(x) | 0x80 = x % 128 + 128`.) -/
def putUvarint (x : Nat) : Bytes :=
  if h : x < 128 then [UInt8.ofNat x] else UInt8.ofNat (x % 128 + 128) :: putUvarint (x / 128)
termination_by x
decreasing_by omega

/-- `ReadUvarint`.  `fuel = MaxVarintLen64 - i`; `x < 2^s` always, so `x | b<<s = x + b·2^s`;
    no 64-bit truncation can occur (at `i = 9`, `s = 63` and the accepted byte is ≤ 1). -/
def readUvarintAux : Nat → Nat → Nat → Dec Nat
  | 0, _, _, _ => none                  -- 10 continuation bytes: errOverflow
  | _+1, _, _, [] => none               -- io.EOF / io.ErrUnexpectedEOF
  | fuel+1, x, s, b :: bs =>
    if b < 0x80 then
      if fuel == 0 && b > 1 then none   -- i == MaxVarintLen64-1 && b > 1: errOverflow
      else some (x + b.toNat * 2 ^ s, bs)
    else readUvarintAux fuel (x + (b.toNat - 128) * 2 ^ s) (s + 7) bs

def readUvarint : Dec Nat := readUvarintAux 10 0 0

/-- Go `int(x)` of a `uint64` (two's complement reinterpretation) -/
def toInt64 (v : Nat) : Int :=
  if v % 18446744073709551616 ≥ 9223372036854775808 then ((v % 18446744073709551616 : Nat) : Int) - 18446744073709551616
  else ((v % 18446744073709551616 : Nat) : Int)

/-! ## zig-zag.  `int32` values are carried as their two's complement `UInt32`. -/

/-- `(uint32(x) << 1) ^ uint32(x>>31)` (arithmetic shift: all ones iff negative) -/
def zigzagEncode (x : UInt32) : UInt32 :=
  (x <<< 1) ^^^ (if x >>> 31 == 1 then 0xFFFFFFFF else 0)

/-- `int32((x >> 1) ^ uint32((int32(x&1)<<31)>>31))` -/
def zigzagDecode (x : UInt32) : UInt32 :=
  (x >>> 1) ^^^ (if x &&& 1 == 1 then 0xFFFFFFFF else 0)

/-! ## interleave (tables of s2/interleave.go packed into one numeral each) -/

/-- `deinterleaveLookup`, 4 bits per entry -/
def deinterleaveLookupPacked : Nat :=
  0xfffefffefffedddcfffefffefffedddcfffefffefffedddcbbbabbbabbba9998fffefffefffedddcfffefffefffedddcfffefffefffedddcbbbabbbabbba9998fffefffefffedddcfffefffefffedddcfffefffefffedddcbbbabbbabbba99987776777677765554777677767776555477767776777655543332333233321110

/-- `interleaveLookup`, 16 bits per entry -/
def interleaveLookupPacked : Nat :=
  0x5555555455515550554555445541554055155514551155105505550455015500545554545451545054455444544154405415541454115410540554045401540051555154515151505145514451415140511551145111511051055104510151005055505450515050504550445041504050155014501150105005500450015000455545544551455045454544454145404515451445114510450545044501450044554454445144504445444444414440441544144411441044054404440144004155415441514150414541444141414041154114411141104105410441014100405540544051405040454044404140404015401440114010400540044001400015551554155115501545154415411540151515141511151015051504150115001455145414511450144514441441144014151414141114101405140414011400115511541151115011451144114111401115111411111110110511041101110010551054105110501045104410411040101510141011101010051004100110000555055405510550054505440541054005150514051105100505050405010500045504540451045004450444044104400415041404110410040504040401040001550154015101500145014401410140011501140111011001050104010101000055005400510050004500440041004000150014001100100005000400010000

/-- `deinterleaveLookup[i]` for `i < 256` -/
def deLut (i : Nat) : Nat := (deinterleaveLookupPacked >>> (4 * i)) &&& 15
/-- `interleaveLookup[i]` for `i < 256` -/
def ilLut (i : Nat) : Nat := (interleaveLookupPacked >>> (16 * i)) &&& 65535

/-- `interleaveUint32` on naturals (`x y < 2^32`); the result is `< 2^64` -/
def interleaveNat (x y : Nat) : Nat :=
  (ilLut (x &&& 0xff)) |||
  (ilLut ((x >>> 8) &&& 0xff) <<< 16) |||
  (ilLut ((x >>> 16) &&& 0xff) <<< 32) |||
  (ilLut (x >>> 24) <<< 48) |||
  (ilLut (y &&& 0xff) <<< 1) |||
  (ilLut ((y >>> 8) &&& 0xff) <<< 17) |||
  (ilLut ((y >>> 16) &&& 0xff) <<< 33) |||
  (ilLut (y >>> 24) <<< 49)

def interleaveUint32 (x y : UInt32) : UInt64 := UInt64.ofNat (interleaveNat x.toNat y.toNat)

def deinterleaveHalf (code mask : Nat) : Nat :=
  (deLut (code &&& mask)) |||
  (deLut ((code >>> 8) &&& mask) <<< 4) |||
  (deLut ((code >>> 16) &&& mask) <<< 8) |||
  (deLut ((code >>> 24) &&& mask) <<< 12) |||
  (deLut ((code >>> 32) &&& mask) <<< 16) |||
  (deLut ((code >>> 40) &&& mask) <<< 20) |||
  (deLut ((code >>> 48) &&& mask) <<< 24) |||
  (deLut ((code >>> 56) &&& mask) <<< 28)

/-- `deinterleaveUint32` on naturals (`code < 2^64`) -/
def deinterleaveNat (code : Nat) : Nat × Nat :=
  (deinterleaveHalf code 0x55, deinterleaveHalf code 0xaa)

def deinterleaveUint32 (code : UInt64) : UInt32 × UInt32 :=
  let r := deinterleaveNat code.toNat
  (UInt32.ofNat r.1, UInt32.ofNat r.2)

/-! ## N-th derivative coder.
  Go state: `n`, `m`, `memory [10]int32` of which only `memory[0..m)` is ever read.
  Model state: the list `memory[0..m)` (so `m = mem.length`), values mod 2^32. -/

/-- the `for i := 0; i < c.m; i++` loop of `encode`: returns the new memory and the final `k` -/
def encLoop : List UInt32 → UInt32 → List UInt32 × UInt32
  | [], k => ([], k)
  | m0 :: ms, k =>
    let r := encLoop ms (k - m0)
    (k :: r.1, r.2)

/-- `nthDerivativeCoder.encode` -/
def coderEncode (n : Nat) (mem : List UInt32) (k : UInt32) : List UInt32 × UInt32 :=
  let r := encLoop mem k
  if mem.length < n then (r.1 ++ [r.2], r.2) else r

/-- the `for i := c.m - 1; i >= 0; i--` loop of `decode` (highest index first) -/
def decLoop : List UInt32 → UInt32 → List UInt32 × UInt32
  | [], k => ([], k)
  | m0 :: ms, k =>
    let r := decLoop ms k
    ((m0 + r.2) :: r.1, m0 + r.2)

/-- `nthDerivativeCoder.decode` (`if c.m < c.n { c.m++ }` exposes one more zero cell) -/
def coderDecode (n : Nat) (mem : List UInt32) (k : UInt32) : List UInt32 × UInt32 :=
  decLoop (if mem.length < n then mem ++ [0] else mem) k

/-- run the encoder over a whole stream -/
def coderEncodeAll (n : Nat) : List UInt32 → List UInt32 → List UInt32
  | _, [] => []
  | mem, k :: ks => let r := coderEncode n mem k; r.2 :: coderEncodeAll n r.1 ks

def coderDecodeAll (n : Nat) : List UInt32 → List UInt32 → List UInt32
  | _, [] => []
  | mem, k :: ks => let r := coderDecode n mem k; r.2 :: coderDecodeAll n r.1 ks

end Codec
end S2
