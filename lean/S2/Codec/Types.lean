/-
  S2.Codec.Types — the Encode/Decode methods of Point, Cap, Rect, CellID, Cell, CellUnion,
  Polyline, Loop (lossless and compressed) and Polygon (format choice, lossless, compressed).

  The model values carry the *encoded observable* fields only (floats as bit patterns in `F64`):
  derived state that the Go decoders rebuild (shape index, subregion bound, Cell geometry,
  cumulative edges) is not part of the model.  Where the compressed format does not transmit a
  field and the decoder recomputes it with float / libm code (`Loop.initBound`, the polygon bound),
  the decoded model value carries `none`.
-/
import S2.Codec.Points
namespace S2
namespace Codec
open STUV

def encodingVersion : Nat := 1
def encodingCompressedVersion : Nat := 4
def maxEncodedLoops : Nat := 10000000
/-- Go `maxEncodedCells` (package level; used by both `CellUnion.encode` and `decode`) -/
def maxCells : Nat := 1000000

/-! ### Point -/

def encodePoint' (p : V3) : Bytes := writeInt8 encodingVersion ++ writePoint p

def decodePoint' : Dec V3 := do
  let version ← readInt8
  if version != encodingVersion then Dec.fail else readPoint

/-! ### Cap -/
structure CapM where
  center : V3
  radius : F64     -- s1.ChordAngle
deriving DecidableEq, Inhabited

def encodeCap (c : CapM) : Bytes := writePoint c.center ++ writeFloat64Bits c.radius.bits

def decodeCap : Dec CapM := do
  let c ← readPoint
  let r ← readFloat64Bits
  pure ⟨c, ⟨r⟩⟩

/-! ### Rect -/
structure RectM where
  latLo : F64
  latHi : F64
  lngLo : F64
  lngHi : F64
deriving DecidableEq, Inhabited

def encodeRect (r : RectM) : Bytes :=
  writeInt8 encodingVersion ++ writeFloat64Bits r.latLo.bits ++ writeFloat64Bits r.latHi.bits ++
  writeFloat64Bits r.lngLo.bits ++ writeFloat64Bits r.lngHi.bits

/-- `Rect.decode`: `readUint8`, `int8(version) != encodingVersion` -/
def decodeRect : Dec RectM := do
  let version ← readUint8
  if version.toNat != encodingVersion then Dec.fail
  else do
    let a ← readFloat64Bits; let b ← readFloat64Bits; let c ← readFloat64Bits; let d ← readFloat64Bits
    pure ⟨⟨a⟩, ⟨b⟩, ⟨c⟩, ⟨d⟩⟩

/-! ### CellID, Cell (a Cell is rebuilt from its id by `CellFromCellID`) -/

def encodeCellID (ci : UInt64) : Bytes := writeUint64 ci
def decodeCellID : Dec UInt64 := readUint64
def encodeCell (id : UInt64) : Bytes := encodeCellID id
/-- `Cell.decode`: the id must be a valid cell id (checked since the repair of D25), otherwise an error. -/
def decodeCell : Dec UInt64 := fun bs =>
  match decodeCellID bs with
  | some (id, rest) => if S2.CellID.isValid id then some (id, rest) else none
  | none => none

/-! ### CellUnion -/

/-- `CellUnion.encode`; `none` where Go sets `e.err` (more than `maxEncodedCells` cells; nothing is written) -/
def encodeCellUnion (cu : List UInt64) : Option Bytes :=
  if cu.length > maxCells then none
  else some (writeInt8 encodingVersion ++ writeInt64OfNat cu.length ++ (cu.map encodeCellID).flatten)

def readN (rd : Dec α) : Nat → Dec (List α)
  | 0 => pure []
  | n+1 => do let a ← rd; let r ← readN rd n; pure (a :: r)

/-- `CellUnion.decode`.  A negative count makes Go's `make` panic — modelled as `none`. -/
def decodeCellUnion : Dec (List UInt64) := do
  let version ← readInt8
  if version != encodingVersion then Dec.fail
  else do
    let n ← readInt64
    if n > (maxCells : Int) then Dec.fail
    else if n < 0 then Dec.fail     -- Go: panic (makeslice: len out of range)
    else readN decodeCellID n.toNat

/-! ### Polyline -/

def encodePolyline (p : List V3) : Bytes :=
  writeInt8 encodingVersion ++ writeUint32 (UInt32.ofNat p.length) ++ (p.map writePoint).flatten

/-- `Polyline.decode` (the inner method).  NOTE: the exported `Polyline.Decode` passes the decoder
    *by value*, so the error computed here never reaches the caller: `Decode` always returns nil. -/
def decodePolyline : Dec (List V3) := do
  let version ← readInt8
  if version != encodingVersion then Dec.fail
  else do
    let n ← readUint32
    if n.toNat > maxEncodedVertices then Dec.fail
    else readN readPoint n.toNat

/-! ### Loop -/
structure LoopM where
  vertices : List V3
  originInside : Bool
  depth : Nat
  bound : RectM
deriving DecidableEq, Inhabited

/-- `Loop.encode` (lossless) -/
def encodeLoop (l : LoopM) : Bytes :=
  writeInt8 encodingVersion ++ writeUint32 (UInt32.ofNat l.vertices.length) ++
  (l.vertices.map writePoint).flatten ++
  writeBool l.originInside ++ writeInt32OfNat l.depth ++ encodeRect l.bound

/-- `Loop.decode` -/
def decodeLoop : Dec LoopM := do
  let version ← readUint8
  if version.toNat != encodingVersion then Dec.fail
  else do
    let n ← readUint32
    if n.toNat > maxEncodedVertices then Dec.fail
    else do
      let vs ← readN readPoint n.toNat
      let oi ← readBool
      let depth ← readUint32
      let bound ← decodeRect
      pure ⟨vs, oi, depth.toNat, bound⟩

/-- a loop as decoded from the compressed format: the bound is `some` only if it was encoded
    (≥ 64 vertices); otherwise Go recomputes it with `initBound` (RectBounder, not modelled) -/
structure LoopC where
  vertices : List V3
  originInside : Bool
  depth : Nat
  bound : Option RectM
deriving DecidableEq, Inhabited

/-- `compressedEncodingProperties` -/
def compressedProps (l : LoopM) : Nat :=
  (if l.originInside then 1 else 0) ||| (if l.vertices.length ≥ 64 then 2 else 0)

/-- `Loop.encodeCompressed`; `none` where Go sets `e.err` (too many vertices) -/
def encodeLoopCompressed (l : LoopM) (snapLevel : Nat) (vertices : List XFST) : Option Bytes :=
  if vertices.length > maxEncodedVertices then none
  else some (
    putUvarint vertices.length ++ encodePointsCompressed vertices snapLevel ++
    putUvarint (compressedProps l) ++ putUvarint l.depth ++
    (if compressedProps l &&& 2 != 0 then encodeRect l.bound else []))

/-- the empty loop that `initBound` substitutes for a 0-vertex loop (`*l = *EmptyLoop()`) -/
def emptyLoopC : LoopC :=
  ⟨[⟨F64.zero false, F64.zero false, F64.one⟩], false, 0, none⟩

/-- `Loop.decodeCompressed` -/
def decodeLoopCompressed (snapLevel : Nat) : Dec LoopC := do
  let n ← readUvarint
  if n > maxEncodedVertices then Dec.fail
  else do
    let vs ← decodePointsCompressed snapLevel n
    let props ← readUvarint
    let oi := props &&& 1 != 0
    let depth ← readUvarint          -- `int(uvarint)`; kept as the unsigned value
    if props &&& 2 != 0 then do
      let b ← decodeRect
      pure ⟨vs, oi, depth, some b⟩
    else if n == 0 then pure emptyLoopC     -- initBound: `*l = *EmptyLoop()`
    else pure ⟨vs, oi, depth, none⟩

/-! ### Polygon -/
structure PolygonM where
  loops : List LoopM
  hasHoles : Bool
  bound : RectM
deriving DecidableEq, Inhabited

/-- Go field `numVertices` (invariant: the sum of the loops' vertex counts) -/
def PolygonM.numVertices (p : PolygonM) : Nat := (p.loops.map (·.vertices.length)).sum

/-- `histogram[l+1]`: the number of vertices snapped at level `l` -/
def countLevel (vs : List XFST) (l : Nat) : Nat := (vs.filter fun v => v.level == (l : Int)).length

/-- the `for level, h := range histogram[1:]` loop: first level with the maximal count -/
def pickSnapLevel (vs : List XFST) : Nat → Nat × Nat → Nat × Nat
  | 0, best => best
  | k+1, best =>
    let level := 30 - k
    let h := countLevel vs level
    pickSnapLevel vs k (if h > best.2 then (level, h) else best)

/-- (snapLevel, numSnapped) -/
def snapLevelOf (vs : List XFST) : Nat × Nat := pickSnapLevel vs 31 (0, 0)

/-- the format test of `Polygon.encode`: `compressedSize < losslessSize` -/
def useCompressed (numVertices numSnapped : Nat) : Bool :=
  4 * numVertices + (24 + 2) * (numVertices - numSnapped) < 24 * numVertices

/-- `Polygon.encodeLossless` -/
def encodePolygonLossless (p : PolygonM) : Option Bytes :=
  if p.loops.length > maxEncodedLoops then none
  else some (
    writeInt8 encodingVersion ++ writeBool true ++ writeBool p.hasHoles ++
    writeUint32 (UInt32.ofNat p.loops.length) ++ (p.loops.map encodeLoop).flatten ++ encodeRect p.bound)

/-- the loop of `Polygon.encodeCompressed` (slices `vertices` per loop) -/
def encodeLoopsCompressed (snapLevel : Nat) : List LoopM → List XFST → Option Bytes
  | [], _ => some []
  | l :: ls, vs =>
    match encodeLoopCompressed l snapLevel (vs.take l.vertices.length),
          encodeLoopsCompressed snapLevel ls (vs.drop l.vertices.length) with
    | some a, some b => some (a ++ b)
    | _, _ => none

/-- `Polygon.encodeCompressed` -/
def encodePolygonCompressed (p : PolygonM) (snapLevel : Nat) (vertices : List XFST) : Option Bytes :=
  if p.loops.length > maxEncodedLoops then none
  else (encodeLoopsCompressed snapLevel p.loops vertices).map fun b =>
    writeUint8 (UInt8.ofNat encodingCompressedVersion) ++ writeUint8 (UInt8.ofNat snapLevel) ++
    putUvarint p.loops.length ++ b

/-- all vertices of the polygon in `xyzFaceSiTi` form -/
def polygonXFST (p : PolygonM) : List XFST := (p.loops.map fun l => xyzFaceSiTiVertices l.vertices).flatten

/-- which format `Polygon.encode` selects: `true` = compressed -/
def polygonChoosesCompressed (p : PolygonM) : Bool :=
  if p.numVertices == 0 then true
  else useCompressed p.numVertices (snapLevelOf (polygonXFST p)).2

/-- `Polygon.encode` -/
def encodePolygon (p : PolygonM) : Option Bytes :=
  if p.numVertices == 0 then encodePolygonCompressed p 30 []
  else
    let vs := polygonXFST p
    let sl := snapLevelOf vs
    if useCompressed p.numVertices sl.2 then encodePolygonCompressed p sl.1 vs
    else encodePolygonLossless p

/-- a polygon as decoded: lossless carries `hasHoles` and the bound as encoded; compressed
    recomputes `hasHoles` from the depths (`initLoopProperties`) and the bound from the loop bounds -/
structure PolygonD where
  loops : List LoopC
  hasHoles : Bool
  bound : Option RectM
deriving DecidableEq, Inhabited

def LoopM.toC (l : LoopM) : LoopC := ⟨l.vertices, l.originInside, l.depth, some l.bound⟩

/-- `Polygon.decode` (lossless, after the version byte) -/
def decodePolygonLossless : Dec PolygonD := do
  let _ ← readUint8                -- owns_loops, ignored
  let hasHoles ← readBool
  let nloops ← readUint32
  if nloops.toNat > maxEncodedLoops then Dec.fail
  else do
    let loops ← readN decodeLoop nloops.toNat
    let bound ← decodeRect
    pure ⟨loops.map LoopM.toC, hasHoles, some bound⟩

/-- `Polygon.decodeCompressed` (after the version byte); `hasHoles` := some loop has odd depth -/
def decodePolygonCompressed : Dec PolygonD := do
  let snapLevel ← readUint8
  if snapLevel.toNat > 30 then Dec.fail
  else do
    let nloops ← readUvarint
    -- Go: `nloops := int(uvarint)`; `nloops > maxEncodedLoops` sets the error (a negative
    -- value passes the test and panics in `make`; modelled as `none`)
    if toInt64 nloops > (maxEncodedLoops : Int) then Dec.fail
    else if toInt64 nloops < 0 then Dec.fail
    else do
      let loops ← readN (decodeLoopCompressed snapLevel.toNat) (toInt64 nloops).toNat
      pure ⟨loops, loops.any (fun l => l.depth % 2 == 1), none⟩

/-- `Polygon.Decode` -/
def decodePolygon : Dec PolygonD := do
  let version ← readUint8
  if version.toNat == encodingVersion then decodePolygonLossless
  else if version.toNat == encodingCompressedVersion then decodePolygonCompressed
  else Dec.fail

end Codec
end S2
