/-
  S2.Codec.Points — s2/pointcompression.go: face runs, (pi,qi) coordinates, the compressed
  point list with its off-centre exceptions, and the snap detection `xyzToFaceSiTi`
  (s2/stuv.go) on the soft-float.
-/
import S2.Codec.Prim
import S2.STUV
namespace S2
namespace Codec
open STUV

def maxEncodedVertices : Nat := 50000000
def derivativeEncodingOrder : Nat := 2

/-- Go `xyzFaceSiTi` -/
structure XFST where
  xyz : V3
  face : Nat
  si : Nat
  ti : Nat
  level : Int
deriving DecidableEq, Inhabited

/-! ### snap detection -/

/-- `MaxLevel - findLSBSetNonZero64(uint64(si|maxSiTi))` -/
def siTiLevel (si : Nat) : Int :=
  30 - (CellID.trailingZeros (UInt64.ofNat (si ||| 2147483648)) : Int)

/-- `xyzToFaceSiTi` -/
def xyzToFaceSiTi (p : V3) : XFST :=
  let fuv := xyzToFaceUV p
  let face := fuv.1
  let si := stToSiTi (uvToST fuv.2.1)
  let ti := stToSiTi (uvToST fuv.2.2)
  let level := siTiLevel si
  if level < 0 || level != siTiLevel ti then ⟨p, face, si, ti, -1⟩
  -- bit-pattern comparison of X, Y, Z (math.Float64bits), not Go `==`: −0 ≠ +0 here
  else if p = (faceSiTiToXYZ face si ti).normalize then ⟨p, face, si, ti, level⟩
  else ⟨p, face, si, ti, -1⟩

/-- `Loop.xyzFaceSiTiVertices` -/
def xyzFaceSiTiVertices (vs : List V3) : List XFST := vs.map xyzToFaceSiTi

/-! ### (pi,qi) -/

/-- `siTitoPiQi` for `0 ≤ level ≤ 30`: clamp to `maxSiTi-1`, shift by `MaxLevel+1-level` -/
def siTiToPiQi (siTi level : Nat) : Nat :=
  (if siTi > 2147483647 then 2147483647 else siTi) >>> (31 - level)

/-- `piQiToST`: `(float64(pi) + 0.5) / float64(int(1)<<uint(level))` -/
def piQiToST (pi level : Nat) : F64 :=
  (F64.ofNat pi + F64.half) / F64.ofNat (2 ^ level)

/-- `facePiQitoXYZ` -/
def facePiQiToXYZ (face pi qi level : Nat) : V3 :=
  (faceUVToXYZ face (stToUV (piQiToST pi level)) (stToUV (piQiToST qi level))).normalize

/-! ### face runs.  A run is `(face, count)`. -/

/-- `appendFace`, on the reversed run list (head = Go's last element) -/
def appendFaceR (rrev : List (Nat × Nat)) (face : Nat) : List (Nat × Nat) :=
  match rrev with
  | (g, c) :: rs => if g != face then (face, 1) :: (g, c) :: rs else (g, c + 1) :: rs
  | [] => [(face, 1)]

def faceRunsOf (faces : List Nat) : List (Nat × Nat) :=
  (faces.foldl appendFaceR []).reverse

/-- `encodeFaceRun`: uvarint of `NumFaces*count + face` -/
def encodeFaceRun (fr : Nat × Nat) : Bytes := putUvarint (6 * fr.2 + fr.1)

def encodeFaces (frs : List (Nat × Nat)) : Bytes := (frs.map encodeFaceRun).flatten

/-- `decodeFaceRun`: error on `count <= 0` (count is `int(faceAndCount / 6) < 2^62`, never negative) -/
def decodeFaceRun : Dec (Nat × Nat) := do
  let fc ← readUvarint
  if fc / 6 == 0 then Dec.fail else pure (fc % 6, fc / 6)

/-- `decodeFaces`: read runs until `nparsed >= numVertices`.  `fuel` bounds the number of runs
    (each has count ≥ 1, so `numVertices` runs always suffice). -/
def decodeFacesAux : Nat → Nat → Nat → Dec (List (Nat × Nat))
  | 0, _, _ => pure []
  | fuel+1, numVertices, nparsed =>
    if nparsed < numVertices then do
      let fr ← decodeFaceRun
      let rest ← decodeFacesAux fuel numVertices (nparsed + fr.2)
      pure (fr :: rest)
    else pure []

def decodeFaces (numVertices : Nat) : Dec (List (Nat × Nat)) :=
  decodeFacesAux numVertices numVertices 0

/-- `facesIterator.next`: state = (remaining runs, numCurrentFaceShown); returns the face -/
def facesNext (st : List (Nat × Nat) × Nat) : Option (Nat × (List (Nat × Nat) × Nat)) :=
  match st.1 with
  | [] => none
  | (f, c) :: rs =>
    let shown := st.2 + 1
    if c ≤ shown then some (f, (rs, 0)) else some (f, ((f, c) :: rs, shown))

/-! ### points -/

/-- `encodeFirstPointFixedLength` (coders are fresh, so `encode` returns its argument; the model
    still runs the coder).  `bytesRequired = (level+7)/8*2`; writes the low bytes. -/
def encodeFirstPoint (level : Nat) (cp cq : List UInt32) (pi qi : Nat) :
    Bytes × List UInt32 × List UInt32 :=
  let rp := coderEncode derivativeEncodingOrder cp (UInt32.ofNat pi)
  let rq := coderEncode derivativeEncodingOrder cq (UInt32.ofNat qi)
  let inter := interleaveUint32 rp.2 rq.2
  (leBytes ((level + 7) / 8 * 2) inter.toNat, rp.1, rq.1)

/-- `encodePointCompressed` -/
def encodePoint (cp cq : List UInt32) (pi qi : Nat) : Bytes × List UInt32 × List UInt32 :=
  let rp := coderEncode derivativeEncodingOrder cp (UInt32.ofNat pi)
  let rq := coderEncode derivativeEncodingOrder cq (UInt32.ofNat qi)
  let inter := interleaveUint32 (zigzagEncode rp.2) (zigzagEncode rq.2)
  (putUvarint inter.toNat, rp.1, rq.1)

/-- the `for i, v := range verticesPiQi` loop -/
def encodePointsLoop (level : Nat) : Bool → List UInt32 → List UInt32 → List (Nat × Nat) → Bytes
  | _, _, _, [] => []
  | first, cp, cq, (pi, qi) :: rest =>
    let r := if first then encodeFirstPoint level cp cq pi qi else encodePoint cp cq pi qi
    r.1 ++ encodePointsLoop level false r.2.1 r.2.2 rest

/-- indices (ascending) and coordinates of the vertices with `level != snapLevel` -/
def offCenterAux (level : Nat) : Nat → List XFST → List (Nat × V3)
  | _, [] => []
  | i, v :: vs =>
    if v.level != (level : Int) then (i, v.xyz) :: offCenterAux level (i + 1) vs
    else offCenterAux level (i + 1) vs

def writePoint (p : V3) : Bytes :=
  writeFloat64Bits p.x.bits ++ writeFloat64Bits p.y.bits ++ writeFloat64Bits p.z.bits

def encodeOffCenter (oc : List (Nat × V3)) : Bytes :=
  putUvarint oc.length ++ (oc.map fun e => putUvarint e.1 ++ writePoint e.2).flatten

/-- `encodePointsCompressed(e, vertices, level)`, `0 ≤ level ≤ 30` -/
def encodePointsCompressed (vertices : List XFST) (level : Nat) : Bytes :=
  encodeFaces (faceRunsOf (vertices.map (·.face))) ++
  encodePointsLoop level true [] [] (vertices.map fun v => (siTiToPiQi v.si level, siTiToPiQi v.ti level)) ++
  encodeOffCenter (offCenterAux level 0 vertices)

def readPoint : Dec V3 := do
  let x ← readFloat64Bits; let y ← readFloat64Bits; let z ← readFloat64Bits
  pure ⟨⟨x⟩, ⟨y⟩, ⟨z⟩⟩

/-- `decodeFirstPointFixedLength` -/
def decodeFirstPoint (level : Nat) (cp cq : List UInt32) : Dec (Nat × Nat × List UInt32 × List UInt32) := do
  let inter ← readLE ((level + 7) / 8 * 2)
  let pq := deinterleaveUint32 (UInt64.ofNat inter)
  let rp := coderDecode derivativeEncodingOrder cp pq.1
  let rq := coderDecode derivativeEncodingOrder cq pq.2
  pure (rp.2.toNat, rq.2.toNat, rp.1, rq.1)

/-- `decodePointCompressed` -/
def decodePoint (cp cq : List UInt32) : Dec (Nat × Nat × List UInt32 × List UInt32) := do
  let inter ← readUvarint
  let pq := deinterleaveUint32 (UInt64.ofNat inter)
  let rp := coderDecode derivativeEncodingOrder cp (zigzagDecode pq.1)
  let rq := coderDecode derivativeEncodingOrder cq (zigzagDecode pq.2)
  pure (rp.2.toNat, rq.2.toNat, rp.1, rq.1)

/-- the `for i := range target` loop: `n` points still to read -/
def decodePointsLoop (level : Nat) : Nat → Bool → List UInt32 → List UInt32 →
    (List (Nat × Nat) × Nat) → Dec (List V3)
  | 0, _, _, _, _ => pure []
  | n+1, first, cp, cq, it => do
    let r ← if first then decodeFirstPoint level cp cq else decodePoint cp cq
    match facesNext it with
    | none => Dec.fail            -- "ran out of faces"
    | some (face, it') =>
      let p := facePiQiToXYZ face r.1 r.2.1 level
      let rest ← decodePointsLoop level n false r.2.2.1 r.2.2.2 it'
      pure (p :: rest)

/-- the off-centre loop: `numOff` entries, each `idx` must be `< len(target)`.
    (Go: `idx := int(uvarint)`; a value ≥ 2^63 becomes negative, passes the `idx >= len` test and
    panics on the slice index — modelled as `none`.) -/
def decodeOffCenter : Nat → List V3 → Dec (List V3)
  | 0, target => pure target
  | k+1, target => do
    let idx ← readUvarint
    if toInt64 idx ≥ (target.length : Int) then Dec.fail
    else if toInt64 idx < 0 then Dec.fail   -- Go panics here (index out of range)
    else do
      let p ← readPoint
      decodeOffCenter k (target.set idx p)

/-- `decodePointsCompressed(d, level, target)` with `len(target) = n` -/
def decodePointsCompressed (level n : Nat) : Dec (List V3) := do
  let faces ← decodeFaces n
  let target ← decodePointsLoop level n true [] [] (faces, 0)
  let numOff ← readUvarint
  -- `numOffCenter := int(uvarint)`: a value ≥ 2^63 is negative, passes the check, loop body never runs
  if toInt64 numOff > (n : Int) then Dec.fail
  else decodeOffCenter (toInt64 numOff).toNat target

end Codec
end S2
