/-
  S2.CellID — executable model of the discrete part of s2/cellid.go.

  A cell id is a `UInt64`, every method follows the Go source line by line
  (same bit expressions, same wrap-around arithmetic).  Go `int` values that
  are known to be small and may be negative (i, j, steps) are `Int`.
  Core-only: this file is linked into the oracle executable.
-/
namespace S2

abbrev CellID := UInt64

namespace CellID

def maxLevel : Nat := 30
def posBits : Nat := 61
def numFaces : Nat := 6
def maxSize : Nat := 1073741824  -- 1 << 30
def wrapOffset : UInt64 := 13835058055282163712  -- 6 << 61
def sentinel : UInt64 := 18446744073709551615

/-- `lsbForLevel(level) = 1 << uint64(2*(MaxLevel-level))` (Go: shift count ≥ 64 gives 0). -/
def lsbForLevel (level : Nat) : UInt64 :=
  if 2 * (maxLevel - level) < 64 then (1 : UInt64) <<< (UInt64.ofNat (2 * (maxLevel - level))) else 0

/-- `uint64(ci) & -uint64(ci)` -/
def lsb (ci : CellID) : UInt64 := ci &&& (0 - ci)

def face (ci : CellID) : Nat := (ci >>> 61).toNat

def pos (ci : CellID) : UInt64 := ci &&& ((18446744073709551615 : UInt64) >>> 3)

def isValid (ci : CellID) : Bool :=
  decide (face ci < numFaces) && (lsb ci &&& 0x1555555555555555 != 0)

/-- number of trailing zero bits of a non-zero word (Go: `findLSBSetNonZero64`). -/
def trailingZeros (x : UInt64) : Nat :=
  go 64 0 x
where
  go : Nat → Nat → UInt64 → Nat
    | 0, acc, _ => acc
    | fuel+1, acc, x => if x &&& 1 != 0 then acc else go fuel (acc+1) (x >>> 1)

/-- position of the most significant set bit (Go: `findMSBSetNonZero64`). -/
def msbPos (x : UInt64) : Nat := x.toNat.log2

/-- `MaxLevel - findLSBSetNonZero64(uint64(ci))>>1`  (Go precedence: `>>` binds tighter than `-`). -/
def level (ci : CellID) : Nat := maxLevel - (trailingZeros ci >>> 1)

def isLeaf (ci : CellID) : Bool := ci &&& 1 != 0

def childPosition (ci : CellID) (level : Nat) : Nat :=
  ((ci >>> UInt64.ofNat (2 * (maxLevel - level) + 1)) &&& 3).toNat

def parent (ci : CellID) (level : Nat) : CellID :=
  let l := lsbForLevel level
  (ci &&& (0 - l)) ||| l

def immediateParent (ci : CellID) : CellID :=
  let nlsb := lsb ci <<< 2
  (ci &&& (0 - nlsb)) ||| nlsb

def isFace (ci : CellID) : Bool := ci &&& (lsbForLevel 0 - 1) == 0

def children (ci : CellID) : CellID × CellID × CellID × CellID :=
  let l := lsb ci
  let c0 := ci - l + (l >>> 2)
  let l1 := l >>> 1
  let c1 := c0 + l1
  let c2 := c1 + l1
  let c3 := c2 + l1
  (c0, c1, c2, c3)

def child (ci : CellID) (k : Nat) : CellID :=
  let (c0, c1, c2, c3) := children ci
  match k with
  | 0 => c0 | 1 => c1 | 2 => c2 | _ => c3

def childrenList (ci : CellID) : List CellID :=
  let (c0, c1, c2, c3) := children ci
  [c0, c1, c2, c3]

def rangeMin (ci : CellID) : CellID := ci - (lsb ci - 1)
def rangeMax (ci : CellID) : CellID := ci + (lsb ci - 1)

def contains (ci oci : CellID) : Bool := rangeMin ci ≤ oci && oci ≤ rangeMax ci

def intersects (ci oci : CellID) : Bool :=
  rangeMin oci ≤ rangeMax ci && rangeMax oci ≥ rangeMin ci

def childBegin (ci : CellID) : CellID := let ol := lsb ci; ci - ol + (ol >>> 2)
def childBeginAtLevel (ci : CellID) (level : Nat) : CellID := ci - lsb ci + lsbForLevel level
def childEnd (ci : CellID) : CellID := let ol := lsb ci; ci + ol + (ol >>> 2)
def childEndAtLevel (ci : CellID) (level : Nat) : CellID := ci + lsb ci + lsbForLevel level

def next (ci : CellID) : CellID := ci + (lsb ci <<< 1)
def prev (ci : CellID) : CellID := ci - (lsb ci <<< 1)

def nextWrap (ci : CellID) : CellID :=
  let n := next ci
  if n < wrapOffset then n else n - wrapOffset

def prevWrap (ci : CellID) : CellID :=
  let p := prev ci
  if p < wrapOffset then p else p + wrapOffset

def fromFace (face : Nat) : CellID := (UInt64.ofNat face <<< 61) + lsbForLevel 0

/-- `CellID(uint64(face)<<PosBits + pos | 1).Parent(level)` — Go precedence: `+` and `|`
    have the same precedence and associate to the left. -/
def fromFacePosLevel (face : Nat) (pos : UInt64) (level : Nat) : CellID :=
  parent (((UInt64.ofNat face <<< 61) + pos) ||| 1) level

/-- Go's `int64 % int64` truncates toward zero. -/
def tmod (a b : Int) : Int := Int.tmod a b

/-- Convert a mathematical integer to the uint64 two's-complement word. -/
def wordOfInt (x : Int) : UInt64 := UInt64.ofNat (x % 18446744073709551616).toNat

/-- uint64 → int64 reinterpretation. -/
def int64OfWord (x : UInt64) : Int :=
  if x.toNat < 9223372036854775808 then (x.toNat : Int) else (x.toNat : Int) - 18446744073709551616

def advanceWrap (ci : CellID) (steps : Int) : CellID :=
  if steps == 0 then ci else
  let shiftN := 2 * (maxLevel - level ci) + 1
  let shift := UInt64.ofNat shiftN
  let steps :=
    if steps < 0 then
      let min : Int := - int64OfWord (ci >>> shift)
      if steps < min then
        let wrap : Int := int64OfWord (wrapOffset >>> shift)
        let s := tmod steps wrap
        if s < min then s + wrap else s
      else steps
    else
      let max : Int := int64OfWord ((wrapOffset - ci) >>> shift)
      if steps > max then
        let wrap : Int := int64OfWord (wrapOffset >>> shift)
        let s := tmod steps wrap
        if s > max then s - wrap else s
      else steps
  ci + (wordOfInt steps <<< shift)

def advance (ci : CellID) (steps : Int) : CellID :=
  if steps == 0 then ci else
  let shiftN := 2 * (maxLevel - level ci) + 1
  let shift := UInt64.ofNat shiftN
  let steps :=
    if steps < 0 then
      let minSteps : Int := - int64OfWord (ci >>> shift)
      if steps < minSteps then minSteps else steps
    else
      let maxSteps : Int := int64OfWord ((wrapOffset + lsb ci - ci) >>> shift)
      if steps > maxSteps then maxSteps else steps
  ci + (wordOfInt steps <<< shift)

def distanceFromBegin (ci : CellID) : Int :=
  int64OfWord (ci >>> UInt64.ofNat (2 * (maxLevel - level ci) + 1))

/-- `CommonAncestorLevel`: `none` when there is no common ancestor. -/
def commonAncestorLevel (ci other : CellID) : Option Nat :=
  let bits := ci ^^^ other
  let bits := if bits < lsb ci then lsb ci else bits
  let bits := if bits < lsb other then lsb other else bits
  let m := msbPos bits
  if m > 60 then none else some ((60 - m) >>> 1)

/-- `MaxTile`; loops are bounded by the 31 levels, so 32 units of fuel never run out. -/
def maxTile (ci limit : CellID) : CellID :=
  let start := rangeMin ci
  if start ≥ rangeMin limit then limit
  else if rangeMax ci ≥ limit then shrink 32 ci
  else grow 32 ci start
where
  shrink : Nat → CellID → CellID
    | 0, ci => ci
    | fuel+1, ci =>
      let c := (children ci).1
      if rangeMax c < limit then c else shrink fuel c
  grow : Nat → CellID → CellID → CellID
    | 0, ci, _ => ci
    | fuel+1, ci, start =>
      if isFace ci then ci else
      let p := immediateParent ci
      if rangeMin p != start || rangeMax p ≥ limit then ci else grow fuel p start

/-! ### Tokens and strings -/

def hexDigit (n : Nat) : Char :=
  if n < 10 then Char.ofNat (48 + n) else Char.ofNat (87 + n)

def hex16 (x : UInt64) : List Char :=
  (List.range 16).map fun k => hexDigit ((x >>> UInt64.ofNat (4 * (15 - k))) &&& 15).toNat

def dropTrailingZeros (l : List Char) : List Char :=
  (l.reverse.dropWhile (· == '0')).reverse

def toToken (ci : CellID) : String :=
  let s := dropTrailingZeros (hex16 ci)
  if s.isEmpty then "X" else String.ofList s

def hexVal (c : Char) : Option Nat :=
  if '0' ≤ c ∧ c ≤ '9' then some (c.toNat - 48)
  else if 'a' ≤ c ∧ c ≤ 'f' then some (c.toNat - 87)
  else if 'A' ≤ c ∧ c ≤ 'F' then some (c.toNat - 55)
  else none

/-- `strconv.ParseUint(s, 16, 64)` on at most 16 characters (`none` = error; empty string is an
    error, so is an underscore or sign). -/
def parseHex (cs : List Char) : Option Nat :=
  if cs.isEmpty then none else
  cs.foldl (fun acc c => match acc, hexVal c with
    | some a, some v => some (16 * a + v)
    | _, _ => none) (some 0)

def fromToken (s : String) : CellID :=
  let cs := s.toList
  if cs.length > 16 then 0 else
  match parseHex cs with
  | none => 0
  | some n =>
    if cs.length < 16 then UInt64.ofNat n <<< UInt64.ofNat (4 * (16 - cs.length)) else UInt64.ofNat n

/-- `CellID.String` for valid ids: "f/ddd…". (Invalid ids print "Invalid: hex".) -/
def toStr (ci : CellID) : String :=
  if !isValid ci then
    "Invalid: " ++ (let v := int64OfWord ci
                    if v < 0 then "-" ++ String.ofList (Nat.toDigits 16 v.natAbs)
                    else String.ofList (Nat.toDigits 16 v.natAbs))
  else
    String.ofList ((Char.ofNat (48 + face ci)) :: '/' ::
      ((List.range (level ci)).map fun k => Char.ofNat (48 + childPosition ci (k+1))))

def fromStr (s : String) : CellID :=
  let cs := s.toList
  if cs.length < 2 then 0 else
  let lvl := cs.length - 2
  if lvl > maxLevel then 0 else
  match cs with
  | f :: sl :: rest =>
    -- `face := int(s[0] - '0')` is a byte subtraction, so it is never negative
    let fv := (f.toNat + 256 - 48) % 256
    if f.toNat ≥ 256 || fv > 5 || sl != '/' then 0 else
    (rest.foldl (fun (acc : Option CellID) c =>
        match acc with
        | none => none
        | some id =>
          let cp := (c.toNat + 256 - 48) % 256
          if c.toNat ≥ 256 || cp > 3 then none else some (child id cp)) (some (fromFace fv))).getD 0
  | _ => 0

end CellID
end S2
