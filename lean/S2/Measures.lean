/-
  S2.Measures — model of the loop / polygon measures of golang/geo (property C18), core-only and
  executable.

  Source followed line by line:
    s2/loop.go      Vertex, CanonicalFirstVertex, TurningAngle, turningAngleMaxError, IsNormalized,
                    Invert (vertex order only), surfaceIntegralFloat64 / surfaceIntegralPoint
                    (ONE generic definition: the two Go functions are textual mirrors of each other,
                    the C++ original is a template), Area (the decision logic after the integral)
    s2/polygon.go   Area, Centroid (signed sums over the loops in `p.loops` order)
    r3/vector.go    Cmp (instantiation `v3lt`)

  libm is not modelled (S2.F64 has no atan / atan2 / tan): `TurnAngle`, `SignedArea`,
  `TrueCentroid`, `Angle(..) > maxLength` are PARAMETERS of the model (fields of the environment
  structures).  The control flow, the index arithmetic, the order of the floating-point additions
  (compensated summation, signed sums) and the comparisons are modelled exactly; with the concrete
  environments at the end of the file they are bit-exact in the soft-float and are compared with
  the implementation by Oracle.C18 (the libm values travel on the line).

  Index arithmetic is done in `Int` with Go's truncated `%` (`Int.tmod`).  `vertex` is total: a
  negative index (a Go panic) would silently read `vs[0]`; the theorems of S2Proofs.Properties.C18
  show for loops with >= 3 vertices that every index the model forms is in `[0, 2n-1]` (they
  rewrite each access into the cyclic accessor, which is only possible for non-negative indices).
  Out of contract (Go panics, nothing claimed): `CanonicalFirstVertex` / `surfaceIntegral` on a
  loop with 0 vertices.
-/
import S2.F64
import S2.STUV
namespace S2.Measures
open S2

section generic
variable {P A : Type} [Inhabited P]

/-- `Loop.Vertex(i)` = `l.vertices[i % len(l.vertices)]` (Go `%` truncates towards zero) -/
def vertex (vs : List P) (i : Int) : P :=
  vs.getD (i.tmod (vs.length : Int)).toNat default

/-- what `CanonicalFirstVertex` / `TurningAngle` need -/
structure TurnEnv (P A : Type) where
  /-- `a.Cmp(b.Vector) == -1` -/
  lt : P → P → Bool
  /-- `TurnAngle(a, b, c)` -/
  turnAngle : P → P → P → A
  /-- float `+` -/
  add : A → A → A
  /-- float `-` -/
  sub : A → A → A
  /-- `s1.Angle(0)` -/
  zero : A
  /-- `float64(dir) * x` for dir = +1 / -1 -/
  mulDir : Int → A → A
  /-- `math.Max(-maxCurvature, math.Min(maxCurvature, x))` -/
  clamp : A → A
  /-- value for the one-vertex (empty / full) loops: `-2π` if `ContainsOrigin()` else `2π` -/
  special : P → A

variable (E : TurnEnv P A)

/-- `for i := 1; i < n; i++ { if Vertex(i).Cmp(Vertex(firstIdx)) == -1 { firstIdx = i } }`
    (`fuel` = remaining iterations) -/
def argminFrom (vs : List P) : Nat → Int → Int → Int
  | 0, _, f => f
  | k+1, i, f => argminFrom vs k (i + 1) (if E.lt (vertex vs i) (vertex vs f) then i else f)

/-- `Loop.CanonicalFirstVertex()` : `(firstIdx, direction)` -/
def canonicalFirstVertex (vs : List P) : Int × Int :=
  let n : Int := vs.length
  let f := argminFrom E vs (vs.length - 1) 1 0
  if E.lt (vertex vs (f + 1)) (vertex vs (f + n - 1)) then (f, 1) else (f + n, -1)

/-- one round of the compensated (Kahan) summation of `TurningAngle`; state `(sum, compensation)`:
    `oldSum := sum; angle += compensation; sum += angle; compensation = (oldSum - sum) + angle` -/
def kahanStep (st : A × A) (angle : A) : A × A :=
  let oldSum := st.1
  let angle := E.add angle st.2
  let sum := E.add st.1 angle
  (sum, E.add (E.sub oldSum sum) angle)

/-- `for n-1 > 0 { i += dir; angle := TurnAngle(Vertex(i-dir), Vertex(i), Vertex(i+dir)); … ; n-- }` -/
def turnLoop (vs : List P) (dir : Int) : Nat → Int → A × A → A × A
  | 0, _, st => st
  | k+1, i, st =>
    let i := i + dir
    turnLoop vs dir k i
      (kahanStep E st (E.turnAngle (vertex vs (i - dir)) (vertex vs i) (vertex vs (i + dir))))

/-- `TurningAngle`, the part between `CanonicalFirstVertex` and the final sign / clamp: the
    compensated total `sum + compensation` of the turn angles taken in canonical order -/
def turnTotal (vs : List P) : A :=
  let n : Int := vs.length
  let cf := canonicalFirstVertex E vs
  let i := cf.1
  let dir := cf.2
  let sum := E.turnAngle (vertex vs ((i + n - dir).tmod n)) (vertex vs i) (vertex vs ((i + dir).tmod n))
  let st := turnLoop E vs dir (vs.length - 1) i (sum, E.zero)
  E.add st.1 st.2

/-- `Loop.TurningAngle()` :
    `math.Max(-maxCurvature, math.Min(maxCurvature, float64(dir)*float64(sum+compensation)))` -/
def turningAngle (vs : List P) : A :=
  match vs with
  | [v] => E.special v
  | _ =>
    if vs.length < 3 then E.zero
    else E.clamp (E.mulDir (canonicalFirstVertex E vs).2 (turnTotal E vs))

end generic

/-- the vertex order after `Loop.Invert()` for loops with >= 2 vertices (the swap loop is a
    reversal); the one-vertex loops swap the empty / full point instead (`invertSpecial`) -/
def invert {P : Type} (vs : List P) : List P := vs.reverse

/-- `Invert` on the one-vertex loops: full -> `emptyLoopPoint`, else -> `fullLoopPoint` -/
def invertSpecial {P : Type} (isFull : P → Bool) (emptyPt fullPt : P) (v : P) : P :=
  if isFull v then emptyPt else fullPt

/-- the vertex list started `k` places later (what a caller gets who lists the same closed chain
    from another start vertex) -/
def rotate {P : Type} (vs : List P) (k : Nat) : List P :=
  vs.drop (k % vs.length) ++ vs.take (k % vs.length)

/-! ### surface integral with origin switching -/

section surface
variable {P S : Type} [Inhabited P]

/-- what `surfaceIntegralFloat64` / `surfaceIntegralPoint` need -/
structure SurfEnv (P S : Type) where
  /-- the triangle function `f(a, b, c)` -/
  f : P → P → P → S
  /-- `sum += …` / `sum.Add(…)` -/
  add : S → S → S
  /-- `var sum` -/
  zero : S
  /-- Go `==` on points -/
  eqP : P → P → Bool
  /-- `a.Angle(b.Vector) > maxLength` -/
  angleGt : P → P → Bool
  /-- `a.Angle(b.Vector) < maxLength` -/
  angleLt : P → P → Bool
  /-- `Point{a.PointCross(b).Normalize()}` -/
  crossNormalize : P → P → P
  /-- `Point{a.Cross(b.Vector)}` -/
  cross : P → P → P

variable (E : SurfEnv P S)

/-- the body of the loop for one `i`; state `(sum, origin)` -/
def surfStep (v0 vi vi1 : P) (st : S × P) : S × P :=
  let sum := st.1
  let origin := st.2
  if E.angleGt vi1 origin then
    let oldOrigin := origin
    if E.eqP origin v0 then
      let origin := E.crossNormalize v0 vi
      let sum := E.add sum (E.f oldOrigin vi origin)
      (E.add sum (E.f origin vi vi1), origin)
    else if E.angleLt vi v0 then
      let origin := v0
      let sum := E.add sum (E.f oldOrigin vi origin)
      (E.add sum (E.f origin vi vi1), origin)
    else
      let origin := E.cross v0 oldOrigin
      let sum := E.add sum (E.f v0 oldOrigin origin)
      let sum := E.add sum (E.f oldOrigin vi origin)
      (E.add sum (E.f origin vi vi1), origin)
  else
    (E.add sum (E.f origin vi vi1), origin)

/-- `for i := 1; i+1 < len(l.vertices); i++ { … }` (`fuel` = remaining iterations) -/
def surfLoop (vs : List P) (v0 : P) : Nat → Int → S × P → S × P
  | 0, _, st => st
  | k+1, i, st => surfLoop vs v0 k (i + 1) (surfStep E v0 (vertex vs i) (vertex vs (i + 1)) st)

/-- `surfaceIntegralFloat64(f)` / `surfaceIntegralPoint(f)` -/
def surfaceIntegral (vs : List P) : S :=
  let v0 := vertex vs 0
  let st := surfLoop E vs v0 (vs.length - 2) 1 (E.zero, v0)
  if !(E.eqP st.2 v0) then E.add st.1 (E.f st.2 (vertex vs ((vs.length : Int) - 1)) v0) else st.1

/-- the plain triangle fan from vertex 0: `f(v0,v1,v2) + f(v0,v2,v3) + … + f(v0,v(n-2),v(n-1))`
    summed left to right -/
def fanSum (vs : List P) : S :=
  (List.range (vs.length - 2)).foldl
    (fun s (m : Nat) => E.add s (E.f (vertex vs 0) (vertex vs ((m : Int) + 1)) (vertex vs ((m : Int) + 2)))) E.zero

end surface

/-! ### IsNormalized / Area decision logic -/

/-- float-like carrier of `Area` -/
structure AreaEnv (A : Type) where
  add : A → A → A
  sub : A → A → A
  neg : A → A
  /-- float `<` -/
  lt : A → A → Bool
  /-- float `>=` -/
  ge : A → A → Bool
  zero : A
  /-- `math.Pi` -/
  pi : A
  /-- `4 * math.Pi` -/
  fourPi : A

section area
variable {A : Type} (E : AreaEnv A)

/-- `Loop.IsNormalized()`; `lngLen` = `l.bound.Lng.Length()`, `turning` = `l.TurningAngle()`,
    `maxErr` = `l.turningAngleMaxError()` -/
def isNormalized (lngLen turning maxErr : A) : Bool :=
  if E.lt lngLen E.pi then true else E.ge turning (E.neg maxErr)

/-- `Loop.Area()`, the range normalisation of the signed integral:
    `if area < 0 { area += 4π }; if area > 4π { area = 4π }; if area < 0 { area = 0 }` -/
def areaClamp (raw : A) : A :=
  let area := if E.lt raw E.zero then E.add raw E.fourPi else raw
  let area := if E.lt E.fourPi area then E.fourPi else area
  if E.lt area E.zero then E.zero else area

/-- `Loop.Area()`, the final decision:
    `if area < maxError && !IsNormalized() { return 4π } else if area > 4π-maxError && IsNormalized() { return 0 }` -/
def areaDecide (area maxErr : A) (isNorm : Bool) : A :=
  if E.lt area maxErr && !isNorm then E.fourPi
  else if E.lt (E.sub E.fourPi maxErr) area && isNorm then E.zero
  else area

/-- `Loop.Area()` for loops that are not empty / full, after `area := surfaceIntegralFloat64(SignedArea)`:
    `raw` = that integral, `maxErr` = `turningAngleMaxError()`, `isNorm` = `IsNormalized()` -/
def areaFinish (raw maxErr : A) (isNorm : Bool) : A :=
  areaDecide E (areaClamp E raw) maxErr isNorm

/-- `Loop.Area()` including the one-vertex loops (`containsOrigin` = `ContainsOrigin()`) -/
def loopArea (numVertices : Nat) (containsOrigin : Bool) (raw maxErr : A) (isNorm : Bool) : A :=
  if numVertices == 1 then (if containsOrigin then E.fourPi else E.zero)
  else areaFinish E raw maxErr isNorm

end area

/-! ### polygons: signed sums over the loops -/

/-- what `Polygon.Area` / `Polygon.Centroid` read of one loop -/
structure PLoop (A V : Type) where
  /-- nesting depth; `IsHole()` = `depth&1 != 0`, `Sign()` = -1 for holes -/
  depth : Nat
  /-- `loop.Area()` -/
  area : A
  /-- `loop.Centroid().Vector` -/
  centroid : V

def PLoop.isHole {A V : Type} (l : PLoop A V) : Bool := l.depth % 2 != 0
def PLoop.sign {A V : Type} (l : PLoop A V) : Int := if l.isHole then -1 else 1

/-- `Polygon.Area()` : `for _, loop := range p.loops { area += float64(loop.Sign()) * loop.Area() }` -/
def polygonArea {A V : Type} (add : A → A → A) (mulDir : Int → A → A) (zero : A)
    (ls : List (PLoop A V)) : A :=
  ls.foldl (fun area l => add area (mulDir l.sign l.area)) zero

/-- `Polygon.Centroid()` : `if loop.Sign() < 0 { u = u.Sub(v) } else { u = u.Add(v) }` -/
def polygonCentroid {A V : Type} (vadd vsub : V → V → V) (vzero : V) (ls : List (PLoop A V)) : V :=
  ls.foldl (fun u l => if l.sign < 0 then vsub u l.centroid else vadd u l.centroid) vzero

/-! ### concrete soft-float instances -/

/-- `r3.Vector.Cmp(..) == -1` -/
def v3lt (a b : V3) : Bool := V3.cmp a b == -1

/-- `float64(dir) * x` -/
def f64MulDir (dir : Int) (x : F64) : F64 := F64.mul (F64.ofInt dir) x

/-- `maxCurvature = 2*math.Pi - 4*dblEpsilon` (exact constant arithmetic, rounded once) -/
def maxCurvature : F64 := ⟨0x401921fb54442d17⟩
def f64Pi : F64 := ⟨0x400921fb54442d18⟩
def f64TwoPi : F64 := ⟨0x401921fb54442d18⟩
def f64FourPi : F64 := ⟨0x402921fb54442d18⟩
/-- `11.25 * dblEpsilon` -/
def maxErrorPerVertex : F64 := ⟨0x3ce6800000000000⟩

/-- `math.Max(-maxCurvature, math.Min(maxCurvature, x))` -/
def f64Clamp (x : F64) : F64 := F64.fmax (F64.neg maxCurvature) (F64.fmin maxCurvature x)

/-- `turningAngleMaxError()` : `maxErrorPerVertex * float64(len(l.vertices))` -/
def turningAngleMaxError (n : Nat) : F64 := F64.mul maxErrorPerVertex (F64.ofNat n)

/-- the soft-float carrier of `TurningAngle`, generic in the points and in `TurnAngle` (libm) -/
def f64TurnEnv {P : Type} (lt : P → P → Bool) (ta : P → P → P → F64) (southern : P → Bool) :
    TurnEnv P F64 :=
  { lt := lt, turnAngle := ta, add := F64.add, sub := F64.sub, zero := F64.zero false,
    mulDir := f64MulDir, clamp := f64Clamp,
    special := fun v => if southern v then F64.neg f64TwoPi else f64TwoPi }

def f64AreaEnv : AreaEnv F64 :=
  { add := F64.add, sub := F64.sub, neg := F64.neg, lt := F64.lt, ge := F64.ge,
    zero := F64.zero false, pi := f64Pi, fourPi := f64FourPi }

/-- `Polygon.Area` in the soft-float -/
def f64PolygonArea (ls : List (PLoop F64 V3)) : F64 :=
  polygonArea F64.add f64MulDir (F64.zero false) ls

/-- `Polygon.Centroid` in the soft-float -/
def f64PolygonCentroid (ls : List (PLoop F64 V3)) : V3 :=
  polygonCentroid V3.add V3.sub ⟨F64.zero false, F64.zero false, F64.zero false⟩ ls

end S2.Measures
