/-
  S2.Contain — exact model of point containment (C04) and of the point / crossing queries over an
  abstract spatial index (C04, C06), core-only and executable: this is the oracle.

  Source followed line by line:
    s2/edge_crossings.go   CrossingSign, VertexCrossing, EdgeOrVertexCrossing, AngleContainsVertex
    s2/edge_crosser.go     (stateless meaning of the EdgeCrosser: four-orientation criterion, the
                            shared-vertex test BEFORE the degenerate-edge test, as in `crossingSign`)
    s2/point.go            OriginPoint, Ortho / referenceDir, OrderedCCW
    s2/loop.go             initOriginAndBound, bruteForceContainsPoint, iteratorContainsPoint, Invert
    s2/polygon.go          ContainsPoint (brute-force branch), Edge / ReferencePoint, Invert (one loop)
    s2/shapeutil.go        containsBruteForce, referencePointForShape (first attempt), referencePointAtVertex
    s2/contains_vertex_query.go   ContainsVertex
    s2/contains_point_query.go    shapeContains (three vertex models), Contains, ContainingShapes
    s2/crossing_edge_query.go     candidates (given the cells), Crossings, CrossingsEdgeMap filter

  The model is GENERIC in the geometry `Geo P` (point equality, orientation sign, reference
  direction): the theorems of S2Proofs.Properties.C04 / C06_Index hold for every geometry with the
  stated laws; the oracle instantiates it with
    * `exactGeo`  : Go `==` on float vectors, the exact + symbolic orientation `Pred.exactDecision`
                    (what `RobustSign` returns if its float filters are sound — property C02),
                    `s2Ortho` bit-exact in the soft-float;
    * `floatGeo`  : the same with the full float cascade `Pred.robustSign`.

  Not modelled: `Loop.bound` (the `!index.IsFresh() && !bound.ContainsPoint(p)` shortcut of
  `ContainsPoint`; a wrong bound shows up as a disagreement of the first-call path with every other
  path in the correspondence check), the index construction (abstract index cells are inputs), the
  fallback of `referencePointForShape` for shapes whose first vertex is balanced (`none`).
  Out of contract (nothing claimed): NaN / Inf coordinates, loops with 0 vertices
  (`initBound` replaces them by the empty loop).
-/
import S2.F64
import S2.STUV
import S2.Exact
import S2.Pred
namespace S2.Contain
open S2

/-- the geometry the containment logic is built on -/
structure Geo (P : Type) where
  /-- Go `==` on points -/
  eq : P → P → Bool
  /-- `RobustSign(a,b,c)` : -1 / 0 / +1 -/
  rs : P → P → P → Int
  /-- `Point.referenceDir()` (= `Ortho`) -/
  refDir : P → P
  /-- `p.Z < 0` (only used for the one-vertex empty / full loops) -/
  southern : P → Bool

/-- `Crossing` of edge_crossings.go -/
inductive Crossing where
  | cross | maybe | doNot
deriving DecidableEq, Repr, Inhabited

section generic
variable {P : Type} (G : Geo P)

/-- `OrderedCCW(a,b,c,o)` -/
def orderedCCW (a b c o : P) : Bool :=
  let s1 : Nat := if G.rs b o a != -1 then 1 else 0
  let s2 : Nat := if G.rs c o b != -1 then 1 else 0
  let s3 : Nat := if G.rs a o c == 1 then 1 else 0
  s1 + s2 + s3 ≥ 2

/-- Stateless `CrossingSign(a,b,c,d)` (= `NewChainEdgeCrosser(a,b,c).ChainCrossingSign(d)` with sound
    float filters): shared vertex → MaybeCross; degenerate edge → DoNotCross; otherwise the triangles
    ACB, CBD, BDA, DAC must all have the same orientation. -/
def crossingSign (a b c d : P) : Crossing :=
  if G.eq a c || G.eq a d || G.eq b c || G.eq b d then .maybe
  else if G.eq a b || G.eq c d then .doNot
  else
    let acb : Int := -(G.rs a b c)
    let bda : Int := G.rs a b d
    if bda != acb then .doNot
    else if -(G.rs c d b) != acb then .doNot
    else if G.rs c d a != acb then .doNot
    else .cross

/-- `VertexCrossing(a,b,c,d)` -/
def vertexCrossing (a b c d : P) : Bool :=
  if G.eq a b || G.eq c d then false
  else if G.eq a c then G.eq b d || orderedCCW G (G.refDir a) d b a
  else if G.eq b d then orderedCCW G (G.refDir b) c a b
  else if G.eq a d then G.eq b c || orderedCCW G (G.refDir a) c b a
  else if G.eq b c then orderedCCW G (G.refDir b) d a b
  else false

/-- `EdgeOrVertexCrossing(a,b,c,d)` -/
def edgeOrVertexCrossing (a b c d : P) : Bool :=
  match crossingSign G a b c d with
  | .doNot => false
  | .cross => true
  | .maybe => vertexCrossing G a b c d

/-- `AngleContainsVertex(a,b,c)` -/
def angleContainsVertex (a b c : P) : Bool := !orderedCCW G (G.refDir b) c a b

/-! ### loops -/

/-- `inside = inside != crossing` over a list of answers -/
def xorAll (l : List Bool) : Bool := l.foldl (fun acc b => acc != b) false

/-- the closed edge chain `v0v1, v1v2, …, v(n-1)v0` of a vertex list (`Loop.Edge(i)`,
    `Vertex(i+1)` wrapping) -/
def loopEdges (vs : List P) : List (P × P) :=
  match vs with
  | [] => []
  | v :: rest => vs.zip (rest ++ [v])

/-- crossing parity of the segment `a → b` with a list of edges -/
def crossParity (a b : P) (es : List (P × P)) : Bool :=
  xorAll (es.map fun e => edgeOrVertexCrossing G a b e.1 e.2)

/-- the part of `s2.Loop` containment depends on -/
structure LoopM (P : Type) where
  vertices : Array P
  originInside : Bool

/-- `len(vertices) == 1` : the special empty / full loops -/
def LoopM.isEmptyOrFull (L : LoopM P) : Bool := L.vertices.size == 1

/-- `Loop.bruteForceContainsPoint(p)` with reference point `origin`.  It walks `Vertex(0..n)` also
    for the one-vertex (empty / full) loops: that is the degenerate edge (v0,v0), which never counts
    as a crossing (`NumEdges()` is 0 there). -/
def bruteContains (origin : P) (L : LoopM P) (p : P) : Bool :=
  L.originInside != crossParity G origin p (loopEdges L.vertices.toList)

/-- the value `initOriginAndBound` gives `originInside` -/
def initOriginInside (origin : P) (vs : Array P) : Bool :=
  if vs.size < 3 then
    if vs.size == 1 then (match vs[0]? with | some v => G.southern v | none => false) else false
  else
    match vs.toList with
    | v0 :: v1 :: v2 :: _ =>
      let v1Inside := !G.eq v0 v1 && !G.eq v2 v1 && angleContainsVertex G v0 v1 v2
      -- `l.originInside = false` then `if v1Inside != l.ContainsPoint(v1) { originInside = true }`
      -- (the index is empty at this point, so ContainsPoint is the brute-force path)
      v1Inside != bruteContains G origin ⟨vs, false⟩ v1
    | _ => false

/-- `LoopFromPoints` -/
def mkLoop (origin : P) (vs : Array P) : LoopM P := ⟨vs, initOriginInside G origin vs⟩

/-- `Loop.Invert` for loops with ≥ 3 vertices: reverse the vertex slice, flip `originInside`.
    (The one-vertex loops swap the empty / full vertex instead: `invertSpecial`.) -/
def invert (L : LoopM P) : LoopM P := ⟨L.vertices.reverse, !L.originInside⟩

/-! ### polygons -/

/-- a loop of a polygon with its nesting depth parity (`IsHole`) -/
structure PLoop (P : Type) where
  loop : LoopM P
  isHole : Bool

abbrev PolygonM (P : Type) := List (PLoop P)

/-- `Polygon.ContainsPoint`, brute-force branch: XOR of the loops' brute-force answers -/
def polygonContains (origin : P) (pg : PolygonM P) (p : P) : Bool :=
  xorAll (pg.map fun l => bruteContains G origin l.loop p)

/-- `Polygon.Edge` over all edge ids: loop after loop, holes through `OrientedVertex` (reversed) -/
def orientedEdges (l : PLoop P) : List (P × P) :=
  if l.isHole then loopEdges l.loop.vertices.toList.reverse else loopEdges l.loop.vertices.toList

def polygonEdges (pg : PolygonM P) : List (P × P) := pg.flatMap orientedEdges

/-- `Polygon.ReferencePoint().Contained` -/
def polygonOriginInside (pg : PolygonM P) : Bool := xorAll (pg.map fun l => l.loop.originInside)

/-- `Polygon.Invert` restricted to what containment sees: loop `k` is inverted (depths change, the
    vertex order of the other loops does not) -/
def polygonInvertAt (pg : PolygonM P) (k : Nat) : PolygonM P :=
  pg.mapIdx fun i l => if i == k then { l with loop := invert l.loop } else l

/-! ### shapes with a reference point -/

/-- what `containsBruteForce` and the index queries read of a `Shape` -/
structure ShapeM (P : Type) where
  dim : Nat
  edges : Array (P × P)
  refPoint : P
  refContained : Bool

/-- `containsBruteForce(shape, point)` -/
def containsBruteForce (S : ShapeM P) (p : P) : Bool :=
  if S.dim != 2 then false
  else if G.eq S.refPoint p then S.refContained
  else S.refContained != crossParity G S.refPoint p S.edges.toList

def loopShape (origin : P) (L : LoopM P) : ShapeM P :=
  ⟨2, (if L.isEmptyOrFull then [] else loopEdges L.vertices.toList).toArray, origin, L.originInside⟩

def polygonShape (origin : P) (pg : PolygonM P) : ShapeM P :=
  ⟨2, (polygonEdges (pg.filter fun l => !l.loop.isEmptyOrFull)).toArray, origin, polygonOriginInside pg⟩

/-- `ContainsVertexQuery`: `AddEdge` accumulates a signed count per neighbour (first-appearance
    order stands for Go's unordered map); `ContainsVertex` picks the unmatched edge immediately
    clockwise of the reference direction. -/
def cvqAdd (m : List (P × Int)) (v : P) (dir : Int) : List (P × Int) :=
  match m with
  | [] => [(v, dir)]
  | (k, c) :: rest => if G.eq k v then (k, c + dir) :: rest else (k, c) :: cvqAdd rest v dir

def cvqContainsVertex (target : P) (m : List (P × Int)) : Int :=
  let refDir := G.refDir target
  let r := m.foldl (fun (acc : P × Int) kv =>
    if kv.2 == 0 then acc
    else if orderedCCW G refDir acc.1 kv.1 target then (kv.1, kv.2) else acc) (refDir, 0)
  r.2

/-- `referencePointAtVertex(shape, vTest)` -/
def referencePointAtVertex (edges : List (P × P)) (vTest : P) : Option (P × Bool) :=
  let m := edges.foldl (fun m e =>
    let m := if G.eq e.1 vTest then cvqAdd G m e.2 1 else m
    if G.eq e.2 vTest then cvqAdd G m e.1 (-1) else m) []
  let s := cvqContainsVertex G vTest m
  if s == 0 then none else some (vTest, decide (s > 0))

/-- `referencePointForShape`: the no-edge case and the first attempt (vertex 0 of edge 0);
    `none` when the code would go on to its sorted search (balanced first vertex). -/
def referencePointForShape (origin : P) (edges : List (P × P)) (numChains : Nat) : Option (P × Bool) :=
  match edges with
  | [] => some (origin, decide (numChains > 0))
  | e :: _ => referencePointAtVertex G edges e.1

/-! ### queries over an abstract index cell -/

/-- `VertexModel` -/
inductive VertexModel where
  | open_ | semiOpen | closed
deriving DecidableEq, Repr, Inhabited

/-- the loop of `shapeContains` over the cell's edges for a 2-dimensional shape, including the
    early `return` of the Open / Closed models when `p` is a vertex of a MaybeCross edge -/
def shapeContainsGo (vm : VertexModel) (center p : P) (inside : Bool) : List (P × P) → Bool
  | [] => inside
  | e :: es =>
    match crossingSign G center p e.1 e.2 with
    | .doNot => shapeContainsGo vm center p inside es
    | .cross => shapeContainsGo vm center p (!inside) es
    | .maybe =>
      if vm != .semiOpen && (G.eq e.1 p || G.eq e.2 p) then vm == .closed
      else shapeContainsGo vm center p (inside != vertexCrossing G center p e.1 e.2) es

/-- `ContainsPointQuery.shapeContains(clipped, center, p)` over an abstract index cell:
    `dim` = the shape's dimension, `edges` = the shape's edges listed in the cell (in order). -/
def shapeContainsM (vm : VertexModel) (dim : Nat) (center : P) (containsCenter : Bool)
    (edges : List (P × P)) (p : P) : Bool :=
  if edges.isEmpty then containsCenter
  else if dim != 2 then
    if vm != .closed then false
    else edges.any fun e => G.eq e.1 p || G.eq e.2 p
  else shapeContainsGo G vm center p containsCenter edges

/-- `Loop.iteratorContainsPoint` / `Polygon.iteratorContainsPoint`: containsCenter XOR crossing
    parity of centre → p with the listed edges -/
def iteratorContains (center : P) (containsCenter : Bool) (edges : List (P × P)) (p : P) : Bool :=
  containsCenter != crossParity G center p edges

/-- one `clippedShape` of an index cell, resolved against its shape -/
structure ClippedM (P : Type) where
  shapeID : Nat
  dim : Nat
  containsCenter : Bool
  edges : List (P × P)

/-- `ContainsPointQuery.Contains(p)` given the located cell (`none` = LocatePoint failed) -/
def queryContains (vm : VertexModel) (cell : Option (P × List (ClippedM P))) (p : P) : Bool :=
  match cell with
  | none => false
  | some (center, cs) => cs.any fun c => shapeContainsM G vm c.dim center c.containsCenter c.edges p

/-- `ContainsPointQuery.ContainingShapes(p)` as shape ids -/
def queryContainingShapes (vm : VertexModel) (cell : Option (P × List (ClippedM P))) (p : P) : List Nat :=
  match cell with
  | none => []
  | some (center, cs) =>
    (cs.filter fun c => shapeContainsM G vm c.dim center c.containsCenter c.edges p).map (·.shapeID)

/-! ### CrossingEdgeQuery over an abstract index -/

/-- `uniqueInts` : sorted, duplicate-free -/
def insertSorted (x : Nat) : List Nat → List Nat
  | [] => [x]
  | y :: ys => if x < y then x :: y :: ys else if x == y then y :: ys else y :: insertSorted x ys

def uniqueInts (l : List Nat) : List Nat := l.foldl (fun acc x => insertSorted x acc) []

/-- `candidates(a,b,shape)` given the per-cell edge-id lists of the cells `getCellsForEdge` found -/
def candidates (numEdges : Nat) (cellLists : List (List Nat)) : List Nat :=
  if numEdges ≤ 27 then List.range numEdges
  else
    match cellLists with
    | [] => []
    | [l] => l
    | ls => uniqueInts ls.flatten

/-- the filter of `Crossings` / `CrossingsEdgeMap`: `all = CrossingTypeAll` -/
def crossingKept (all : Bool) (s : Crossing) : Bool :=
  match s with
  | .cross => true
  | .maybe => all
  | .doNot => false

/-- `Crossings(a,b,shape,crossType)` from a candidate list -/
def crossingsFrom (a b : P) (edge : Nat → P × P) (all : Bool) (cands : List Nat) : List Nat :=
  cands.filter fun i => crossingKept all (crossingSign G a b (edge i).1 (edge i).2)

/-- brute force over every edge id -/
def crossingsBrute (a b : P) (edge : Nat → P × P) (numEdges : Nat) (all : Bool) : List Nat :=
  crossingsFrom G a b edge all (List.range numEdges)

end generic

/-! ### the concrete geometry -/

/-- `OriginPoint()` : the exact bits of the Go constant
    `{-0.0099994664350250197, 0.0025924542609324121, 0.99994664350250195}` -/
def originPoint : V3 := ⟨⟨0xbf847a99aa86ed3b⟩, ⟨0x3f653cc5488bec88⟩, ⟨0x3fefff901a72d2ac⟩⟩

/-- s2 `Ortho(a)` : `a.Cross(temp).Normalize()` with `temp = (0.012, 0.0053, 0.00457)` and one
    component replaced by 1 (bit-exact soft-float) -/
def s2Ortho (a : V3) : V3 :=
  let t0 : F64 := ⟨0x3f889374bc6a7efa⟩
  let t1 : F64 := ⟨0x3f75b573eab367a1⟩
  let t2 : F64 := ⟨0x3f72b7fe08aefb2b⟩
  let temp : V3 := match a.largestComponent with
    | 0 => ⟨t0, t1, F64.one⟩
    | 1 => ⟨F64.one, t1, t2⟩
    | _ => ⟨t0, F64.one, t2⟩
  (a.cross temp).normalize

def southernV3 (p : V3) : Bool := F64.lt p.z (F64.zero false)

/-- exact geometry: what the library computes if the float filters of `RobustSign` are sound -/
def exactGeo : Geo V3 := ⟨V3.feq, Pred.exactDecision, s2Ortho, southernV3⟩

/-- the full float cascade -/
def floatGeo : Geo V3 := ⟨V3.feq, Pred.robustSign, s2Ortho, southernV3⟩

/-- exact containment of a point in the loop `LoopFromPoints(vs)` -/
def exactLoopContains (vs : Array V3) (p : V3) : Bool :=
  bruteContains exactGeo originPoint (mkLoop exactGeo originPoint vs) p

end S2.Contain
