/-
  S2.F64 — a soft-float model of IEEE-754 binary64 in pure Lean (no `Float`), so that
  the float code of golang/geo can be modelled bit for bit and reasoned about.

  A value is its 64-bit pattern.  Every finite value is the dyadic rational
  `(-1)^s · m · 2^e`; arithmetic computes the exact rational result and rounds it
  once to nearest-even (`roundNE`), which is what IEEE-754 prescribes for
  `+ − × ÷ √`.  Not modelled: libm functions (sin, cos, atan2, …).

  Validated against the Go implementation on every run (ops `f64…` of the harness).
-/
namespace S2

structure F64 where
  bits : UInt64
deriving BEq, DecidableEq, Inhabited, Hashable

namespace F64

def signBit (x : F64) : Bool := x.bits >>> 63 != 0
def expField (x : F64) : Nat := ((x.bits >>> 52) &&& 0x7FF).toNat
def fracField (x : F64) : Nat := (x.bits &&& 0xFFFFFFFFFFFFF).toNat

def isNaN (x : F64) : Bool := x.expField == 2047 && x.fracField != 0
def isInf (x : F64) : Bool := x.expField == 2047 && x.fracField == 0
def isZero (x : F64) : Bool := x.expField == 0 && x.fracField == 0
def isFinite (x : F64) : Bool := x.expField != 2047

def nan : F64 := ⟨0x7FF8000000000001⟩
def inf (neg : Bool) : F64 := ⟨if neg then 0xFFF0000000000000 else 0x7FF0000000000000⟩
def zero (neg : Bool) : F64 := ⟨if neg then 0x8000000000000000 else 0⟩
def one : F64 := ⟨0x3FF0000000000000⟩

/-- magnitude of a finite value as `m · 2^e` (m : Nat, e : Int) -/
def mant (x : F64) : Nat := if x.expField == 0 then x.fracField else x.fracField + 4503599627370496
def expo (x : F64) : Int := if x.expField == 0 then -1074 else (x.expField : Int) - 1075

/-- Round the positive rational `n/d` (d > 0) to nearest-even and attach the sign. -/
def roundNE (neg : Bool) (n d : Nat) : F64 :=
  if n == 0 then zero neg else
  -- estimate exponent: value in [2^k, 2^(k+2))
  let k : Int := (n.log2 : Int) - (d.log2 : Int) - 1
  -- first candidate exponent of the unit in the last place
  let e0 : Int := k - 52
  let quot (e : Int) : Nat × Nat × Nat :=   -- (q, r, den) with value/2^e = q + r/den
    if e ≥ 0 then
      let den := d * 2 ^ e.toNat
      (n / den, n % den, den)
    else
      let num := n * 2 ^ (-e).toNat
      (num / d, num % d, d)
  -- adjust e so that 2^52 ≤ q < 2^53 (k may be off by up to 2)
  let e1 : Int :=
    let (q, _, _) := quot e0
    if q ≥ 2 ^ 54 then e0 + 2 else if q ≥ 2 ^ 53 then e0 + 1 else e0
  let e : Int := if e1 < -1074 then -1074 else e1
  let (q, r, den) := quot e
  let q := if 2 * r > den || (2 * r == den && q % 2 == 1) then q + 1 else q
  let (q, e) := if q ≥ 2 ^ 53 then (q / 2, e + 1) else (q, e)
  if q < 2 ^ 52 then
    -- subnormal (e = -1074) or zero
    ⟨(if neg then (0x8000000000000000 : UInt64) else 0) ||| UInt64.ofNat q⟩
  else
    let be : Int := e + 1075
    if be ≥ 2047 then inf neg
    else ⟨(if neg then (0x8000000000000000 : UInt64) else 0) ||| (UInt64.ofNat be.toNat <<< 52) |||
          UInt64.ofNat (q - 2 ^ 52)⟩

/-- Round the exact value `(-1)^neg · m · 2^e`. -/
def roundDyadic (neg : Bool) (m : Nat) (e : Int) : F64 :=
  if e ≥ 0 then roundNE neg (m * 2 ^ e.toNat) 1 else roundNE neg m (2 ^ (-e).toNat)

/-- signed integer mantissa at a common exponent -/
def toIntAt (x : F64) (e : Int) : Int :=
  let v : Int := (x.mant : Int) * 2 ^ (x.expo - e).toNat
  if x.signBit then -v else v

def neg (x : F64) : F64 := ⟨x.bits ^^^ 0x8000000000000000⟩
def abs (x : F64) : F64 := ⟨x.bits &&& 0x7FFFFFFFFFFFFFFF⟩

def add (x y : F64) : F64 :=
  if x.isNaN || y.isNaN then nan
  else if x.isInf then (if y.isInf && x.signBit != y.signBit then nan else x)
  else if y.isInf then y
  else if x.isZero && y.isZero then zero (x.signBit && y.signBit)
  else
    let e := min x.expo y.expo
    let s : Int := x.toIntAt e + y.toIntAt e
    if s == 0 then zero false
    else roundDyadic (s < 0) s.natAbs e

def sub (x y : F64) : F64 := add x (neg y)

def mul (x y : F64) : F64 :=
  let sg := x.signBit != y.signBit
  if x.isNaN || y.isNaN then nan
  else if x.isInf || y.isInf then (if x.isZero || y.isZero then nan else inf sg)
  else if x.isZero || y.isZero then zero sg
  else roundDyadic sg (x.mant * y.mant) (x.expo + y.expo)

def div (x y : F64) : F64 :=
  let sg := x.signBit != y.signBit
  if x.isNaN || y.isNaN then nan
  else if x.isInf then (if y.isInf then nan else inf sg)
  else if y.isInf then zero sg
  else if y.isZero then (if x.isZero then nan else inf sg)
  else if x.isZero then zero sg
  else
    let e := x.expo - y.expo
    if e ≥ 0 then roundNE sg (x.mant * 2 ^ e.toNat) y.mant
    else roundNE sg x.mant (y.mant * 2 ^ (-e).toNat)

/-- integer square root (Newton), `isqrt n = ⌊√n⌋` -/
def isqrt (n : Nat) : Nat :=
  if n < 2 then n else
  let x0 := 2 ^ ((n.log2 / 2) + 1)
  go 200 x0
where
  go : Nat → Nat → Nat
    | 0, x => x
    | fuel+1, x =>
      let y := (x + n / x) / 2
      if y < x then go fuel y else x

def sqrt (x : F64) : F64 :=
  if x.isNaN then nan
  else if x.isZero then x
  else if x.signBit then nan
  else if x.isInf then x
  else
    -- value = m · 2^e ; write as M · 2^(2t) with M ≥ 2^110
    let m := x.mant
    let e := x.expo
    let t : Int := (e - 120) / 2 - 1   -- floor division; e - 2t ≥ 120
    let M := m * 2 ^ (e - 2 * t).toNat
    let r := isqrt M
    let sticky := if r * r == M then 0 else 1
    roundDyadic false (2 * r + sticky) (t - 1)

def ofInt (i : Int) : F64 :=
  if i == 0 then zero false else roundNE (i < 0) i.natAbs 1

def ofNat (n : Nat) : F64 := ofInt n

/-- exact signed integer mantissa and exponent of a finite value -/
def toDyadic (x : F64) : Int × Int := ((if x.signBit then -(x.mant : Int) else x.mant), x.expo)

/-- ordered comparison: `none` when either is NaN -/
def cmp (x y : F64) : Option Ordering :=
  if x.isNaN || y.isNaN then none
  else if x.isInf || y.isInf then
    let vx : Int := if x.isInf then (if x.signBit then -2 else 2) else 0
    let vy : Int := if y.isInf then (if y.signBit then -2 else 2) else 0
    if x.isInf && y.isInf then some (compare vx vy)
    else if x.isInf then some (if x.signBit then .lt else .gt)
    else some (if y.signBit then .gt else .lt)
  else
    let e := min x.expo y.expo
    some (compare (x.toIntAt e) (y.toIntAt e))

def lt (x y : F64) : Bool := cmp x y == some .lt
def le (x y : F64) : Bool := match cmp x y with | some .lt => true | some .eq => true | _ => false
def gt (x y : F64) : Bool := lt y x
def ge (x y : F64) : Bool := le y x
/-- IEEE `==` : NaN ≠ NaN, +0 == −0 -/
def feq (x y : F64) : Bool := cmp x y == some .eq
def fne (x y : F64) : Bool := !feq x y

/-- `math.Floor` -/
def floor (x : F64) : F64 :=
  if !x.isFinite || x.isZero then x else
  let e := x.expo
  if e ≥ 0 then x else
  let sh := (-e).toNat
  let q := x.mant / 2 ^ sh
  let exact := x.mant % 2 ^ sh == 0
  if x.signBit then
    let q := if exact then q else q + 1
    if q == 0 then zero true else roundNE true q 1
  else
    if q == 0 then zero false else roundNE false q 1

/-- Go `int(x)` for finite x within int64 range: truncation toward zero. -/
def toIntTrunc (x : F64) : Int :=
  if !x.isFinite then 0 else
  let e := x.expo
  let v : Int := if e ≥ 0 then x.mant * 2 ^ e.toNat else x.mant / 2 ^ (-e).toNat
  if x.signBit then -v else v

/-- `math.Max` (NaN and signed-zero semantics of Go) -/
def fmax (x y : F64) : F64 :=
  if x.isInf && !x.signBit then x else if y.isInf && !y.signBit then y
  else if x.isNaN || y.isNaN then nan
  else if x.isZero && y.isZero then (if x.signBit then y else x)
  else if gt x y then x else y

def fmin (x y : F64) : F64 :=
  if x.isInf && x.signBit then x else if y.isInf && y.signBit then y
  else if x.isNaN || y.isNaN then nan
  else if x.isZero && y.isZero then (if x.signBit then x else y)
  else if lt x y then x else y

/-- `math.Nextafter(x, y)` -/
def nextafter (x y : F64) : F64 :=
  if x.isNaN || y.isNaN then nan
  else if feq x y then x
  else if x.isZero then ⟨(if y.signBit then (0x8000000000000000 : UInt64) else 0) ||| 1⟩
  else if (gt y x) == (!x.signBit) then ⟨x.bits + 1⟩ else ⟨x.bits - 1⟩

def ofBitsNat (n : Nat) : F64 := ⟨UInt64.ofNat n⟩

/-- `math.Abs`, `math.Copysign` etc. are trivial bit ops; `Remainder`-style ops are added where needed. -/
def two : F64 := ⟨0x4000000000000000⟩
def half : F64 := ⟨0x3FE0000000000000⟩
def three : F64 := ⟨0x4008000000000000⟩
def four : F64 := ⟨0x4010000000000000⟩

instance : Add F64 := ⟨add⟩
instance : Sub F64 := ⟨sub⟩
instance : Mul F64 := ⟨mul⟩
instance : Div F64 := ⟨div⟩
instance : Neg F64 := ⟨neg⟩

end F64
end S2
